/-
C05 — the PTY goroutine of StartWithSize is tied to the source structurally (round 4).
`Gen/TermLoop.lean` is regenerated from /repo on every run (extract/cmd/C05/loop.go): the `select` statements of the goroutine's
loop with their arms. `Model/EmuLoop.lean` reads a labelled transition system off that data (`genStep`). `loop_is_generated`:
for EVERY capacity, state and label it is the transition of the hand-written system `Model.EmuEvents.step` with the priority
drain — the system the theorems `events_never_stall`, `deadlock_free`, `events_all_delivered` (Props/C05Events.lean) are about.
So an edit of the loop — removing the drain select, dropping its `continue`, adding a `default` to the main select, handling an
event without `vt.eventHandler`, swapping what the EOF arm does — changes the generated data and breaks this theorem (or is a
neutral rewrite).
-/
import VaxisModel.Model.EmuLoop
import VaxisModel.Gen.TermLoop
import VaxisModel.Props.C05Events

namespace VaxisModel.Props.C05Loop
open VaxisModel.Model.EmuEvents VaxisModel.Model.EmuLoop VaxisModel.Gen

/-- nothing of the loop is outside the vocabulary; in front of it only `defer vt.recover()` -/
theorem loop_fully_recognised :
    (TermLoop.loopSelects.all fun sel =>
      (sel.arms.all fun a => (a.body ++ (a.eof.getD [])).all fun x => match x with | .unknown _ => false | _ => true) &&
      ((sel.dflt.getD []).all fun x => match x with | .unknown _ => false | _ => true)) = true ∧
    TermLoop.loopPre = ["defer vt.recover()"] := by decide

/-- **The transition system of the translated loop is the model's**, for every capacity, state and label. -/
theorem loop_is_generated (cap : Nat) (s : Sys) (l : Label) :
    genStep cap TermLoop.loopSelects s l = step cap true s l := by
  obtain ⟨input, occ, pc, delivered⟩ := s
  cases pc <;> cases l <;>
    simp [genStep, step, TermLoop.loopSelects, isDrainLabel, armOf, ready, runActs, finish, topOf, top]
  · -- drain, `default`: taken iff no event is waiting
    rcases Nat.eq_zero_or_pos occ with h | h
    · simp [h]
    · simp [h, Nat.ne_of_gt h]
  · -- main, the parser arm on an item
    cases input with
    | nil => simp
    | cons b rest =>
      cases b
      · simp [runActs]
      · by_cases h : occ < cap <;> simp [runActs, h]
  · -- main, the parser arm on EOF
    cases input with
    | nil => simp [runActs]
    | cons b rest => simp

/-- a schedule of the translated loop -/
def genRun (cap : Nat) (sels : List Sel) (s : Sys) : List Label → Option Sys
  | [] => some s
  | l :: ls =>
      match genStep cap sels s l with
      | some s' => genRun cap sels s' ls
      | none => none

theorem genRun_eq (cap : Nat) : ∀ (ls : List Label) (s : Sys), genRun cap TermLoop.loopSelects s ls = run cap true s ls
  | [], _ => rfl
  | l :: ls, s => by
    simp only [genRun, run, loop_is_generated]
    cases step cap true s l with
    | none => rfl
    | some s' => exact genRun_eq cap ls s'

/-- **The translated goroutine never blocks in postEvent**: for every input (any number of event-raising sequences) and every
    schedule of the loop as it is in the source now, with the channel capacity extracted from the source. -/
theorem translated_loop_never_stalls (input : List Bool) (ls : List Label) (s : Sys)
    (h : genRun TermModes.eventCap TermLoop.loopSelects (init true input) ls = some s) : ¬ stuck s := by
  rw [genRun_eq] at h
  exact VaxisModel.Props.C05Events.events_never_stall TermModes.eventCap (by decide) input ls s h

/-- non-vacuity: three bells, the schedule "parser first": the drain delivers each event before the next item is read -/
example : (genRun TermModes.eventCap TermLoop.loopSelects (init true [true, true, true])
    [.drainDefault, .pickParser, .drainRecv, .drainDefault, .pickParser, .drainRecv, .drainDefault, .pickParser, .drainRecv,
     .drainDefault, .eof]).map (fun s => (s.delivered, s.occ, s.pc)) = some (3, 0, PC.done) := by decide

/-- and what the loop WITHOUT the first select (the code before 2f4ad1d) does on the same input: three items in a row block it -/
example : (genRun 2 (TermLoop.loopSelects.drop 1) (init false [true, true, true]) [.pickParser, .pickParser, .pickParser]).map
    (fun s => s.pc) = some PC.blocked := by decide

end VaxisModel.Props.C05Loop
