/-
C05 — Go `int` (int64) versus ℤ: no arithmetic of the control functions can overflow.

`rangeBody b pm args e` (Model/EmuBodyRange.lean) follows the execution of the translated body `b`
(regenerated from the Go source on every run, and proved equal to the model function by
Props/C05Bodies.lean) and checks that EVERY `+` / `-` the Go code performs — in assignments,
conditions, loop bounds, index expressions, call arguments, and the loop counters up to their exit
values — yields a value within ±2^62. The theorems below prove that check for every state
satisfying the emulator invariant on a terminal of at most 65535×65535 and every parameter in
0..65535 — which is what csi() passes on since the clamp of fix F18 (`clampParam_ok`,
`ps_clamp_ok` in Props/C05.lean). So on all reachable states int64 arithmetic and ℤ arithmetic
coincide in these bodies: modelling `int` by `Int` is sound there (it was not before F18: Witness/F18).
Not covered: the bodies without a `body_<fn>` theorem (print, resize, ich, rep, cht/cbt/tbc, sgr) —
for those the claim rests on the safety lemmas' bounds and the correspondence run.
-/
import VaxisModel.Lemmas.EmuBodyRange

namespace VaxisModel.Props.C05Overflow
open VaxisModel.Model.Emu VaxisModel.Model.EmuBody VaxisModel.Lemmas.Emu VaxisModel.Lemmas.EmuBody VaxisModel.Gen

theorem range_cuu {e : Emu} {rows cols : Nat} (h : EmuInv e rows cols) (d : Dim rows cols) {n : Int} (hn : POk n) :
    rangeBody TermBodies.body_cuu [] [n] e = true := by
  obtain ⟨b1, b2, b3, b4, b5, b6, b7, b8, b9, b10, b11, b12, b13, b14, b15⟩ := good_bounds h d
  unfold POk at hn
  simp only [TermBodies.body_cuu, TermBodies.stmt_cuu]
  range_norm
  (try range_norm)
  (try range_norm)
  range_fin

theorem range_cud {e : Emu} {rows cols : Nat} (h : EmuInv e rows cols) (d : Dim rows cols) {n : Int} (hn : POk n) :
    rangeBody TermBodies.body_cud [] [n] e = true := by
  obtain ⟨b1, b2, b3, b4, b5, b6, b7, b8, b9, b10, b11, b12, b13, b14, b15⟩ := good_bounds h d
  unfold POk at hn
  simp only [TermBodies.body_cud, TermBodies.stmt_cud]
  range_norm
  (try range_norm)
  (try range_norm)
  range_fin

theorem range_cuf {e : Emu} {rows cols : Nat} (h : EmuInv e rows cols) (d : Dim rows cols) {n : Int} (hn : POk n) :
    rangeBody TermBodies.body_cuf [] [n] e = true := by
  obtain ⟨b1, b2, b3, b4, b5, b6, b7, b8, b9, b10, b11, b12, b13, b14, b15⟩ := good_bounds h d
  unfold POk at hn
  simp only [TermBodies.body_cuf, TermBodies.stmt_cuf]
  range_norm
  (try range_norm)
  (try range_norm)
  range_fin

theorem range_cub {e : Emu} {rows cols : Nat} (h : EmuInv e rows cols) (d : Dim rows cols) {n : Int} (hn : POk n) :
    rangeBody TermBodies.body_cub [] [n] e = true := by
  obtain ⟨b1, b2, b3, b4, b5, b6, b7, b8, b9, b10, b11, b12, b13, b14, b15⟩ := good_bounds h d
  unfold POk at hn
  simp only [TermBodies.body_cub, TermBodies.stmt_cub]
  range_norm
  (try range_norm)
  (try range_norm)
  range_fin

theorem range_cnl {e : Emu} {rows cols : Nat} (h : EmuInv e rows cols) (d : Dim rows cols) {n : Int} (hn : POk n) :
    rangeBody TermBodies.body_cnl [] [n] e = true := by
  obtain ⟨b1, b2, b3, b4, b5, b6, b7, b8, b9, b10, b11, b12, b13, b14, b15⟩ := good_bounds h d
  unfold POk at hn
  simp only [TermBodies.body_cnl, TermBodies.stmt_cnl]
  range_norm
  (try range_norm)
  (try range_norm)
  range_fin

theorem range_cpl {e : Emu} {rows cols : Nat} (h : EmuInv e rows cols) (d : Dim rows cols) {n : Int} (hn : POk n) :
    rangeBody TermBodies.body_cpl [] [n] e = true := by
  obtain ⟨b1, b2, b3, b4, b5, b6, b7, b8, b9, b10, b11, b12, b13, b14, b15⟩ := good_bounds h d
  unfold POk at hn
  simp only [TermBodies.body_cpl, TermBodies.stmt_cpl]
  range_norm
  (try range_norm)
  (try range_norm)
  range_fin

theorem range_cha {e : Emu} {rows cols : Nat} (h : EmuInv e rows cols) (d : Dim rows cols) {n : Int} (hn : POk n) :
    rangeBody TermBodies.body_cha [] [n] e = true := by
  obtain ⟨b1, b2, b3, b4, b5, b6, b7, b8, b9, b10, b11, b12, b13, b14, b15⟩ := good_bounds h d
  unfold POk at hn
  simp only [TermBodies.body_cha, TermBodies.stmt_cha]
  range_norm
  (try range_norm)
  (try range_norm)
  range_fin

theorem range_vpa {e : Emu} {rows cols : Nat} (h : EmuInv e rows cols) (d : Dim rows cols) {n : Int} (hn : POk n) :
    rangeBody TermBodies.body_vpa [] [n] e = true := by
  obtain ⟨b1, b2, b3, b4, b5, b6, b7, b8, b9, b10, b11, b12, b13, b14, b15⟩ := good_bounds h d
  unfold POk at hn
  simp only [TermBodies.body_vpa, TermBodies.stmt_vpa]
  range_norm
  (try range_norm)
  (try range_norm)
  range_fin

theorem range_vpr {e : Emu} {rows cols : Nat} (h : EmuInv e rows cols) (d : Dim rows cols) {n : Int} (hn : POk n) :
    rangeBody TermBodies.body_vpr [] [n] e = true := by
  obtain ⟨b1, b2, b3, b4, b5, b6, b7, b8, b9, b10, b11, b12, b13, b14, b15⟩ := good_bounds h d
  unfold POk at hn
  simp only [TermBodies.body_vpr, TermBodies.stmt_vpr]
  range_norm
  (try range_norm)
  (try range_norm)
  range_fin

theorem range_hpa {e : Emu} {rows cols : Nat} (h : EmuInv e rows cols) (d : Dim rows cols) {n : Int} (hn : POk n) :
    rangeBody TermBodies.body_hpa [] [n] e = true := by
  obtain ⟨b1, b2, b3, b4, b5, b6, b7, b8, b9, b10, b11, b12, b13, b14, b15⟩ := good_bounds h d
  unfold POk at hn
  simp only [TermBodies.body_hpa, TermBodies.stmt_hpa]
  range_norm
  (try range_norm)
  (try range_norm)
  range_fin

theorem range_hpr {e : Emu} {rows cols : Nat} (h : EmuInv e rows cols) (d : Dim rows cols) {n : Int} (hn : POk n) :
    rangeBody TermBodies.body_hpr [] [n] e = true := by
  obtain ⟨b1, b2, b3, b4, b5, b6, b7, b8, b9, b10, b11, b12, b13, b14, b15⟩ := good_bounds h d
  unfold POk at hn
  simp only [TermBodies.body_hpr, TermBodies.stmt_hpr]
  range_norm
  (try range_norm)
  (try range_norm)
  range_fin

theorem range_el {e : Emu} {rows cols : Nat} (h : EmuInv e rows cols) (d : Dim rows cols) {n : Int} (hn : POk n) :
    rangeBody TermBodies.body_el [] [n] e = true := by
  obtain ⟨b1, b2, b3, b4, b5, b6, b7, b8, b9, b10, b11, b12, b13, b14, b15⟩ := good_bounds h d
  unfold POk at hn
  simp only [TermBodies.body_el, TermBodies.stmt_el]
  range_norm
  (try range_norm)
  (try range_norm)
  range_fin

theorem range_ech {e : Emu} {rows cols : Nat} (h : EmuInv e rows cols) (d : Dim rows cols) {n : Int} (hn : POk n) :
    rangeBody TermBodies.body_ech [] [n] e = true := by
  obtain ⟨b1, b2, b3, b4, b5, b6, b7, b8, b9, b10, b11, b12, b13, b14, b15⟩ := good_bounds h d
  unfold POk at hn
  simp only [TermBodies.body_ech, TermBodies.stmt_ech]
  range_norm
  (try range_norm)
  (try range_norm)
  range_fin

theorem range_ed {e : Emu} {rows cols : Nat} (h : EmuInv e rows cols) (d : Dim rows cols) {n : Int} (hn : POk n) :
    rangeBody TermBodies.body_ed [] [n] e = true := by
  obtain ⟨b1, b2, b3, b4, b5, b6, b7, b8, b9, b10, b11, b12, b13, b14, b15⟩ := good_bounds h d
  unfold POk at hn
  simp only [TermBodies.body_ed, TermBodies.stmt_ed]
  range_norm
  (try range_norm)
  (try range_norm)
  range_fin

set_option maxHeartbeats 400000 in
theorem range_il {e : Emu} {rows cols : Nat} (h : EmuInv e rows cols) (d : Dim rows cols) {n : Int} (hn : POk n) :
    rangeBody TermBodies.body_il [] [n] e = true := by
  obtain ⟨b1, b2, b3, b4, b5, b6, b7, b8, b9, b10, b11, b12, b13, b14, b15⟩ := good_bounds h d
  unfold POk at hn
  simp only [TermBodies.body_il, TermBodies.stmt_il]
  range_norm
  (try range_norm)
  (try range_norm)
  range_fin

set_option maxHeartbeats 400000 in
theorem range_dl {e : Emu} {rows cols : Nat} (h : EmuInv e rows cols) (d : Dim rows cols) {n : Int} (hn : POk n) :
    rangeBody TermBodies.body_dl [] [n] e = true := by
  obtain ⟨b1, b2, b3, b4, b5, b6, b7, b8, b9, b10, b11, b12, b13, b14, b15⟩ := good_bounds h d
  unfold POk at hn
  simp only [TermBodies.body_dl, TermBodies.stmt_dl]
  range_norm
  (try range_norm)
  (try range_norm)
  range_fin

theorem range_dch {e : Emu} {rows cols : Nat} (h : EmuInv e rows cols) (d : Dim rows cols) {n : Int} (hn : POk n) :
    rangeBody TermBodies.body_dch [] [n] e = true := by
  obtain ⟨b1, b2, b3, b4, b5, b6, b7, b8, b9, b10, b11, b12, b13, b14, b15⟩ := good_bounds h d
  unfold POk at hn
  simp only [TermBodies.body_dch, TermBodies.stmt_dch]
  range_norm
  (try range_norm)
  (try range_norm)
  range_fin

theorem range_scrollUp {e : Emu} {rows cols : Nat} (h : EmuInv e rows cols) (d : Dim rows cols) {n : Int} (hn : POk n) :
    rangeBody TermBodies.body_scrollUp [] [n] e = true := by
  obtain ⟨b1, b2, b3, b4, b5, b6, b7, b8, b9, b10, b11, b12, b13, b14, b15⟩ := good_bounds h d
  unfold POk at hn
  simp only [TermBodies.body_scrollUp, TermBodies.stmt_scrollUp]
  range_norm
  (try range_norm)
  (try range_norm)
  range_fin

theorem range_scrollDown {e : Emu} {rows cols : Nat} (h : EmuInv e rows cols) (d : Dim rows cols) {n : Int} (hn : POk n) :
    rangeBody TermBodies.body_scrollDown [] [n] e = true := by
  obtain ⟨b1, b2, b3, b4, b5, b6, b7, b8, b9, b10, b11, b12, b13, b14, b15⟩ := good_bounds h d
  unfold POk at hn
  simp only [TermBodies.body_scrollDown, TermBodies.stmt_scrollDown]
  range_norm
  (try range_norm)
  (try range_norm)
  range_fin

theorem range_ich {e : Emu} {rows cols : Nat} (h : EmuInv e rows cols) (d : Dim rows cols) {n : Int} (hn : POk n) :
    rangeBody TermBodies.body_ich [] [n] e = true := by
  obtain ⟨b1, b2, b3, b4, b5, b6, b7, b8, b9, b10, b11, b12, b13, b14, b15⟩ := good_bounds h d
  unfold POk at hn
  simp only [TermBodies.body_ich, TermBodies.stmt_ich]
  range_norm
  (try range_norm)
  (try range_norm)
  range_fin

theorem range_rep {e : Emu} {rows cols : Nat} (h : EmuInv e rows cols) (d : Dim rows cols) {n : Int} (hn : POk n) :
    rangeBody TermBodies.body_rep [] [n] e = true := by
  obtain ⟨b1, b2, b3, b4, b5, b6, b7, b8, b9, b10, b11, b12, b13, b14, b15⟩ := good_bounds h d
  unfold POk at hn
  simp only [TermBodies.body_rep, TermBodies.stmt_rep]
  range_norm
  (try range_norm)
  (try range_norm)
  range_fin

theorem range_ind {e : Emu} {rows cols : Nat} (h : EmuInv e rows cols) (d : Dim rows cols) :
    rangeBody TermBodies.body_ind [] [] e = true := by
  obtain ⟨b1, b2, b3, b4, b5, b6, b7, b8, b9, b10, b11, b12, b13, b14, b15⟩ := good_bounds h d
  simp only [TermBodies.body_ind, TermBodies.stmt_ind]
  range_norm
  (try range_norm)
  (try range_norm)
  range_fin

theorem range_nel {e : Emu} {rows cols : Nat} (h : EmuInv e rows cols) (d : Dim rows cols) :
    rangeBody TermBodies.body_nel [] [] e = true := by
  obtain ⟨b1, b2, b3, b4, b5, b6, b7, b8, b9, b10, b11, b12, b13, b14, b15⟩ := good_bounds h d
  simp only [TermBodies.body_nel, TermBodies.stmt_nel]
  range_norm
  (try range_norm)
  (try range_norm)
  range_fin

theorem range_ri {e : Emu} {rows cols : Nat} (h : EmuInv e rows cols) (d : Dim rows cols) :
    rangeBody TermBodies.body_ri [] [] e = true := by
  obtain ⟨b1, b2, b3, b4, b5, b6, b7, b8, b9, b10, b11, b12, b13, b14, b15⟩ := good_bounds h d
  simp only [TermBodies.body_ri, TermBodies.stmt_ri]
  range_norm
  (try range_norm)
  (try range_norm)
  range_fin

theorem range_bs {e : Emu} {rows cols : Nat} (h : EmuInv e rows cols) (d : Dim rows cols) :
    rangeBody TermBodies.body_bs [] [] e = true := by
  obtain ⟨b1, b2, b3, b4, b5, b6, b7, b8, b9, b10, b11, b12, b13, b14, b15⟩ := good_bounds h d
  simp only [TermBodies.body_bs, TermBodies.stmt_bs]
  range_norm
  (try range_norm)
  (try range_norm)
  range_fin

theorem range_ht {e : Emu} {rows cols : Nat} (h : EmuInv e rows cols) (d : Dim rows cols) :
    rangeBody TermBodies.body_ht [] [] e = true := by
  obtain ⟨b1, b2, b3, b4, b5, b6, b7, b8, b9, b10, b11, b12, b13, b14, b15⟩ := good_bounds h d
  simp only [TermBodies.body_ht, TermBodies.stmt_ht]
  range_norm
  (try range_norm)
  (try range_norm)
  range_fin

theorem range_lf {e : Emu} {rows cols : Nat} (h : EmuInv e rows cols) (d : Dim rows cols) :
    rangeBody TermBodies.body_lf [] [] e = true := by
  obtain ⟨b1, b2, b3, b4, b5, b6, b7, b8, b9, b10, b11, b12, b13, b14, b15⟩ := good_bounds h d
  simp only [TermBodies.body_lf, TermBodies.stmt_lf]
  range_norm
  (try range_norm)
  (try range_norm)
  range_fin

theorem range_vt {e : Emu} {rows cols : Nat} (h : EmuInv e rows cols) (d : Dim rows cols) :
    rangeBody TermBodies.body_vt [] [] e = true := by
  obtain ⟨b1, b2, b3, b4, b5, b6, b7, b8, b9, b10, b11, b12, b13, b14, b15⟩ := good_bounds h d
  simp only [TermBodies.body_vt, TermBodies.stmt_vt]
  range_norm
  (try range_norm)
  (try range_norm)
  range_fin

theorem range_ff {e : Emu} {rows cols : Nat} (h : EmuInv e rows cols) (d : Dim rows cols) :
    rangeBody TermBodies.body_ff [] [] e = true := by
  obtain ⟨b1, b2, b3, b4, b5, b6, b7, b8, b9, b10, b11, b12, b13, b14, b15⟩ := good_bounds h d
  simp only [TermBodies.body_ff, TermBodies.stmt_ff]
  range_norm
  (try range_norm)
  (try range_norm)
  range_fin

theorem range_cr {e : Emu} {rows cols : Nat} (h : EmuInv e rows cols) (d : Dim rows cols) :
    rangeBody TermBodies.body_cr [] [] e = true := by
  obtain ⟨b1, b2, b3, b4, b5, b6, b7, b8, b9, b10, b11, b12, b13, b14, b15⟩ := good_bounds h d
  simp only [TermBodies.body_cr, TermBodies.stmt_cr]
  range_norm
  (try range_norm)
  (try range_norm)
  range_fin

set_option maxHeartbeats 400000 in
theorem range_cup_0 {e : Emu} {rows cols : Nat} (h : EmuInv e rows cols) (d : Dim rows cols) :
    rangeBody TermBodies.body_cup [] [] e = true := by
  obtain ⟨b1, b2, b3, b4, b5, b6, b7, b8, b9, b10, b11, b12, b13, b14, b15⟩ := good_bounds h d
  simp only [TermBodies.body_cup, TermBodies.stmt_cup]
  range_norm; (try range_norm); (try range_norm); range_fin

set_option maxHeartbeats 400000 in
theorem range_cup_1 {e : Emu} {rows cols : Nat} (h : EmuInv e rows cols) (d : Dim rows cols) (a : Param) (ha : POk a.1) :
    rangeBody TermBodies.body_cup [a] [] e = true := by
  obtain ⟨b1, b2, b3, b4, b5, b6, b7, b8, b9, b10, b11, b12, b13, b14, b15⟩ := good_bounds h d
  unfold POk at ha
  simp only [TermBodies.body_cup, TermBodies.stmt_cup]
  range_norm; (try range_norm); (try range_norm); range_fin

set_option maxHeartbeats 400000 in
theorem range_cup_2 {e : Emu} {rows cols : Nat} (h : EmuInv e rows cols) (d : Dim rows cols) (a b : Param) (ha : POk a.1) (hb : POk b.1) :
    rangeBody TermBodies.body_cup [a, b] [] e = true := by
  obtain ⟨b1, b2, b3, b4, b5, b6, b7, b8, b9, b10, b11, b12, b13, b14, b15⟩ := good_bounds h d
  unfold POk at ha hb
  simp only [TermBodies.body_cup, TermBodies.stmt_cup]
  range_norm; (try range_norm); (try range_norm); range_fin

set_option maxHeartbeats 400000 in
theorem range_decstbm_0 {e : Emu} {rows cols : Nat} (h : EmuInv e rows cols) (d : Dim rows cols) :
    rangeBody TermBodies.body_decstbm [] [] e = true := by
  obtain ⟨b1, b2, b3, b4, b5, b6, b7, b8, b9, b10, b11, b12, b13, b14, b15⟩ := good_bounds h d
  simp only [TermBodies.body_decstbm, TermBodies.stmt_decstbm]
  range_norm; (try range_norm); (try range_norm); range_fin

set_option maxHeartbeats 400000 in
theorem range_decstbm_1 {e : Emu} {rows cols : Nat} (h : EmuInv e rows cols) (d : Dim rows cols) (a : Param) (ha : POk a.1) :
    rangeBody TermBodies.body_decstbm [a] [] e = true := by
  obtain ⟨b1, b2, b3, b4, b5, b6, b7, b8, b9, b10, b11, b12, b13, b14, b15⟩ := good_bounds h d
  unfold POk at ha
  simp only [TermBodies.body_decstbm, TermBodies.stmt_decstbm]
  range_norm; (try range_norm); (try range_norm); range_fin

set_option maxHeartbeats 400000 in
theorem range_decstbm_2 {e : Emu} {rows cols : Nat} (h : EmuInv e rows cols) (d : Dim rows cols) (a b : Param) (ha : POk a.1) (hb : POk b.1) :
    rangeBody TermBodies.body_decstbm [a, b] [] e = true := by
  obtain ⟨b1, b2, b3, b4, b5, b6, b7, b8, b9, b10, b11, b12, b13, b14, b15⟩ := good_bounds h d
  unfold POk at ha hb
  simp only [TermBodies.body_decstbm, TermBodies.stmt_decstbm]
  range_norm; (try range_norm); (try range_norm); range_fin

theorem range_csi_su {e : Emu} {rows cols : Nat} (h : EmuInv e rows cols) (d : Dim rows cols) (pm : List Param) :
    rangeBody TermBodies.body_csi_su pm [] e = true := by
  simp only [TermBodies.body_csi_su, TermBodies.stmt_csi_su]
  range_norm; (try range_norm); (try range_norm); range_fin

theorem range_csi_sd {e : Emu} {rows cols : Nat} (h : EmuInv e rows cols) (d : Dim rows cols) (pm : List Param) :
    rangeBody TermBodies.body_csi_sd pm [] e = true := by
  simp only [TermBodies.body_csi_sd, TermBodies.stmt_csi_sd]
  range_norm; (try range_norm); (try range_norm); range_fin

/-- Non-vacuity of the check itself: with an unclamped parameter the same check FAILS (2^63−1
    lines down from row 0: `vt.cursor.row += row(ps)` leaves the range). -/
example : rangeBody TermBodies.body_cud [] [9223372036854775807] { Emu.init with bottom := 23 } = false := by
  decide

end VaxisModel.Props.C05Overflow
