/-
C05 — Go `int` (int64) versus ℤ: no arithmetic of the control functions can overflow.

`rangeBody b pm args e` (Model/EmuBodyRange.lean) follows the execution of the translated body `b`
(regenerated from the Go source on every run, and proved equal to the model function by
Props/C05Bodies.lean) and checks that EVERY `+` / `-` the Go code performs — in assignments,
conditions, loop bounds, index expressions, call arguments, and the loop counters up to their exit
values — yields a value within ±2^62. The theorems below prove that check for every state
satisfying the emulator invariant on a terminal of at most 65535×65535 and every parameter in
0..65535 — which is what csi() passes on since the clamp of fix F18 (`clampParam_ok`,
`ps_clamp_ok` in Props/C05.lean). So on all reachable states int64 arithmetic and ℤ arithmetic
coincide in these bodies: modelling `int` by `Int` is sound there (it was not before F18: Witness/F18).
Round 4: cht and cbt (the loops over the tab stops) are covered too — `range_cht`, `range_cbt` need NO hypothesis on the state
(neither the invariant nor a bound on the tab stops): the only arithmetic is the counter `n + 1` with `n ≤ ps ≤ 65535`.
print(): `range_print` — every good state, every glyph width ≤ 65535 (uniseg gives 0..2): `col + w - 1`, `width - 1`, the
insert-mode shift loop, the trailing-cell loop and the cursor advance stay in range, across the wrap's `vt.nel()` call (the
invariant after it from `nel_safe`) and on the grid the shift loop leaves (a successful loop keeps the grid's shape).
resize(): `range_resize` — through `rangeR` (Model/EmuBodyRangeR.lean: `rangeS` plus the function-level loops `forS`, the
allocation statements, the saved-cursor clamp and `printCell` = the check of print()'s body in the state of the call): every good
old state with stored cell widths ≤ 65535, every new size 1..65535. tbc/hts, sgr/osc/modes have no arithmetic on positions.
Round 5: the int arguments of formatted replies are part of the check (`exsR`): `range_csi_arm_6e` (the `+ 1`s of the cursor-position
report), `range_decrqm`.
-/
import VaxisModel.Lemmas.EmuBodyRange
import VaxisModel.Lemmas.EmuBodyRange2
import VaxisModel.Lemmas.EmuBodyRange3

namespace VaxisModel.Props.C05Overflow
open VaxisModel.Model.Emu VaxisModel.Model.EmuBody VaxisModel.Lemmas.Emu VaxisModel.Lemmas.EmuBody VaxisModel.Gen

theorem range_cuu {e : Emu} {rows cols : Nat} (h : EmuInv e rows cols) (d : Dim rows cols) {n : Int} (hn : POk n) :
    rangeBody TermBodies.body_cuu [] [n] e = true := by
  obtain ⟨b1, b2, b3, b4, b5, b6, b7, b8, b9, b10, b11, b12, b13, b14, b15⟩ := good_bounds h d
  unfold POk at hn
  simp only [TermBodies.body_cuu, TermBodies.stmt_cuu]
  range_norm
  (try range_norm)
  (try range_norm)
  range_fin

theorem range_cud {e : Emu} {rows cols : Nat} (h : EmuInv e rows cols) (d : Dim rows cols) {n : Int} (hn : POk n) :
    rangeBody TermBodies.body_cud [] [n] e = true := by
  obtain ⟨b1, b2, b3, b4, b5, b6, b7, b8, b9, b10, b11, b12, b13, b14, b15⟩ := good_bounds h d
  unfold POk at hn
  simp only [TermBodies.body_cud, TermBodies.stmt_cud]
  range_norm
  (try range_norm)
  (try range_norm)
  range_fin

theorem range_cuf {e : Emu} {rows cols : Nat} (h : EmuInv e rows cols) (d : Dim rows cols) {n : Int} (hn : POk n) :
    rangeBody TermBodies.body_cuf [] [n] e = true := by
  obtain ⟨b1, b2, b3, b4, b5, b6, b7, b8, b9, b10, b11, b12, b13, b14, b15⟩ := good_bounds h d
  unfold POk at hn
  simp only [TermBodies.body_cuf, TermBodies.stmt_cuf]
  range_norm
  (try range_norm)
  (try range_norm)
  range_fin

theorem range_cub {e : Emu} {rows cols : Nat} (h : EmuInv e rows cols) (d : Dim rows cols) {n : Int} (hn : POk n) :
    rangeBody TermBodies.body_cub [] [n] e = true := by
  obtain ⟨b1, b2, b3, b4, b5, b6, b7, b8, b9, b10, b11, b12, b13, b14, b15⟩ := good_bounds h d
  unfold POk at hn
  simp only [TermBodies.body_cub, TermBodies.stmt_cub]
  range_norm
  (try range_norm)
  (try range_norm)
  range_fin

theorem range_cnl {e : Emu} {rows cols : Nat} (h : EmuInv e rows cols) (d : Dim rows cols) {n : Int} (hn : POk n) :
    rangeBody TermBodies.body_cnl [] [n] e = true := by
  obtain ⟨b1, b2, b3, b4, b5, b6, b7, b8, b9, b10, b11, b12, b13, b14, b15⟩ := good_bounds h d
  unfold POk at hn
  simp only [TermBodies.body_cnl, TermBodies.stmt_cnl]
  range_norm
  (try range_norm)
  (try range_norm)
  range_fin

theorem range_cpl {e : Emu} {rows cols : Nat} (h : EmuInv e rows cols) (d : Dim rows cols) {n : Int} (hn : POk n) :
    rangeBody TermBodies.body_cpl [] [n] e = true := by
  obtain ⟨b1, b2, b3, b4, b5, b6, b7, b8, b9, b10, b11, b12, b13, b14, b15⟩ := good_bounds h d
  unfold POk at hn
  simp only [TermBodies.body_cpl, TermBodies.stmt_cpl]
  range_norm
  (try range_norm)
  (try range_norm)
  range_fin

theorem range_cha {e : Emu} {rows cols : Nat} (h : EmuInv e rows cols) (d : Dim rows cols) {n : Int} (hn : POk n) :
    rangeBody TermBodies.body_cha [] [n] e = true := by
  obtain ⟨b1, b2, b3, b4, b5, b6, b7, b8, b9, b10, b11, b12, b13, b14, b15⟩ := good_bounds h d
  unfold POk at hn
  simp only [TermBodies.body_cha, TermBodies.stmt_cha]
  range_norm
  (try range_norm)
  (try range_norm)
  range_fin

theorem range_vpa {e : Emu} {rows cols : Nat} (h : EmuInv e rows cols) (d : Dim rows cols) {n : Int} (hn : POk n) :
    rangeBody TermBodies.body_vpa [] [n] e = true := by
  obtain ⟨b1, b2, b3, b4, b5, b6, b7, b8, b9, b10, b11, b12, b13, b14, b15⟩ := good_bounds h d
  unfold POk at hn
  simp only [TermBodies.body_vpa, TermBodies.stmt_vpa]
  range_norm
  (try range_norm)
  (try range_norm)
  range_fin

theorem range_vpr {e : Emu} {rows cols : Nat} (h : EmuInv e rows cols) (d : Dim rows cols) {n : Int} (hn : POk n) :
    rangeBody TermBodies.body_vpr [] [n] e = true := by
  obtain ⟨b1, b2, b3, b4, b5, b6, b7, b8, b9, b10, b11, b12, b13, b14, b15⟩ := good_bounds h d
  unfold POk at hn
  simp only [TermBodies.body_vpr, TermBodies.stmt_vpr]
  range_norm
  (try range_norm)
  (try range_norm)
  range_fin

theorem range_hpa {e : Emu} {rows cols : Nat} (h : EmuInv e rows cols) (d : Dim rows cols) {n : Int} (hn : POk n) :
    rangeBody TermBodies.body_hpa [] [n] e = true := by
  obtain ⟨b1, b2, b3, b4, b5, b6, b7, b8, b9, b10, b11, b12, b13, b14, b15⟩ := good_bounds h d
  unfold POk at hn
  simp only [TermBodies.body_hpa, TermBodies.stmt_hpa]
  range_norm
  (try range_norm)
  (try range_norm)
  range_fin

theorem range_hpr {e : Emu} {rows cols : Nat} (h : EmuInv e rows cols) (d : Dim rows cols) {n : Int} (hn : POk n) :
    rangeBody TermBodies.body_hpr [] [n] e = true := by
  obtain ⟨b1, b2, b3, b4, b5, b6, b7, b8, b9, b10, b11, b12, b13, b14, b15⟩ := good_bounds h d
  unfold POk at hn
  simp only [TermBodies.body_hpr, TermBodies.stmt_hpr]
  range_norm
  (try range_norm)
  (try range_norm)
  range_fin

theorem range_el {e : Emu} {rows cols : Nat} (h : EmuInv e rows cols) (d : Dim rows cols) {n : Int} (hn : POk n) :
    rangeBody TermBodies.body_el [] [n] e = true := by
  obtain ⟨b1, b2, b3, b4, b5, b6, b7, b8, b9, b10, b11, b12, b13, b14, b15⟩ := good_bounds h d
  unfold POk at hn
  simp only [TermBodies.body_el, TermBodies.stmt_el]
  range_norm
  (try range_norm)
  (try range_norm)
  range_fin

theorem range_ech {e : Emu} {rows cols : Nat} (h : EmuInv e rows cols) (d : Dim rows cols) {n : Int} (hn : POk n) :
    rangeBody TermBodies.body_ech [] [n] e = true := by
  obtain ⟨b1, b2, b3, b4, b5, b6, b7, b8, b9, b10, b11, b12, b13, b14, b15⟩ := good_bounds h d
  unfold POk at hn
  simp only [TermBodies.body_ech, TermBodies.stmt_ech]
  range_norm
  (try range_norm)
  (try range_norm)
  range_fin

theorem range_ed {e : Emu} {rows cols : Nat} (h : EmuInv e rows cols) (d : Dim rows cols) {n : Int} (hn : POk n) :
    rangeBody TermBodies.body_ed [] [n] e = true := by
  obtain ⟨b1, b2, b3, b4, b5, b6, b7, b8, b9, b10, b11, b12, b13, b14, b15⟩ := good_bounds h d
  unfold POk at hn
  simp only [TermBodies.body_ed, TermBodies.stmt_ed]
  range_norm
  (try range_norm)
  (try range_norm)
  range_fin

set_option maxHeartbeats 400000 in
theorem range_il {e : Emu} {rows cols : Nat} (h : EmuInv e rows cols) (d : Dim rows cols) {n : Int} (hn : POk n) :
    rangeBody TermBodies.body_il [] [n] e = true := by
  obtain ⟨b1, b2, b3, b4, b5, b6, b7, b8, b9, b10, b11, b12, b13, b14, b15⟩ := good_bounds h d
  unfold POk at hn
  simp only [TermBodies.body_il, TermBodies.stmt_il]
  range_norm
  (try range_norm)
  (try range_norm)
  range_fin

set_option maxHeartbeats 400000 in
theorem range_dl {e : Emu} {rows cols : Nat} (h : EmuInv e rows cols) (d : Dim rows cols) {n : Int} (hn : POk n) :
    rangeBody TermBodies.body_dl [] [n] e = true := by
  obtain ⟨b1, b2, b3, b4, b5, b6, b7, b8, b9, b10, b11, b12, b13, b14, b15⟩ := good_bounds h d
  unfold POk at hn
  simp only [TermBodies.body_dl, TermBodies.stmt_dl]
  range_norm
  (try range_norm)
  (try range_norm)
  range_fin

theorem range_dch {e : Emu} {rows cols : Nat} (h : EmuInv e rows cols) (d : Dim rows cols) {n : Int} (hn : POk n) :
    rangeBody TermBodies.body_dch [] [n] e = true := by
  obtain ⟨b1, b2, b3, b4, b5, b6, b7, b8, b9, b10, b11, b12, b13, b14, b15⟩ := good_bounds h d
  unfold POk at hn
  simp only [TermBodies.body_dch, TermBodies.stmt_dch]
  range_norm
  (try range_norm)
  (try range_norm)
  range_fin

theorem range_scrollUp {e : Emu} {rows cols : Nat} (h : EmuInv e rows cols) (d : Dim rows cols) {n : Int} (hn : POk n) :
    rangeBody TermBodies.body_scrollUp [] [n] e = true := by
  obtain ⟨b1, b2, b3, b4, b5, b6, b7, b8, b9, b10, b11, b12, b13, b14, b15⟩ := good_bounds h d
  unfold POk at hn
  simp only [TermBodies.body_scrollUp, TermBodies.stmt_scrollUp]
  range_norm
  (try range_norm)
  (try range_norm)
  range_fin

theorem range_scrollDown {e : Emu} {rows cols : Nat} (h : EmuInv e rows cols) (d : Dim rows cols) {n : Int} (hn : POk n) :
    rangeBody TermBodies.body_scrollDown [] [n] e = true := by
  obtain ⟨b1, b2, b3, b4, b5, b6, b7, b8, b9, b10, b11, b12, b13, b14, b15⟩ := good_bounds h d
  unfold POk at hn
  simp only [TermBodies.body_scrollDown, TermBodies.stmt_scrollDown]
  range_norm
  (try range_norm)
  (try range_norm)
  range_fin

theorem range_ich {e : Emu} {rows cols : Nat} (h : EmuInv e rows cols) (d : Dim rows cols) {n : Int} (hn : POk n) :
    rangeBody TermBodies.body_ich [] [n] e = true := by
  obtain ⟨b1, b2, b3, b4, b5, b6, b7, b8, b9, b10, b11, b12, b13, b14, b15⟩ := good_bounds h d
  unfold POk at hn
  simp only [TermBodies.body_ich, TermBodies.stmt_ich]
  range_norm
  (try range_norm)
  (try range_norm)
  range_fin

theorem range_rep {e : Emu} {rows cols : Nat} (h : EmuInv e rows cols) (d : Dim rows cols) {n : Int} (hn : POk n) :
    rangeBody TermBodies.body_rep [] [n] e = true := by
  obtain ⟨b1, b2, b3, b4, b5, b6, b7, b8, b9, b10, b11, b12, b13, b14, b15⟩ := good_bounds h d
  unfold POk at hn
  simp only [TermBodies.body_rep, TermBodies.stmt_rep]
  range_norm
  (try range_norm)
  (try range_norm)
  range_fin

theorem range_ind {e : Emu} {rows cols : Nat} (h : EmuInv e rows cols) (d : Dim rows cols) :
    rangeBody TermBodies.body_ind [] [] e = true := by
  obtain ⟨b1, b2, b3, b4, b5, b6, b7, b8, b9, b10, b11, b12, b13, b14, b15⟩ := good_bounds h d
  simp only [TermBodies.body_ind, TermBodies.stmt_ind]
  range_norm
  (try range_norm)
  (try range_norm)
  range_fin

theorem range_nel {e : Emu} {rows cols : Nat} (h : EmuInv e rows cols) (d : Dim rows cols) :
    rangeBody TermBodies.body_nel [] [] e = true := by
  obtain ⟨b1, b2, b3, b4, b5, b6, b7, b8, b9, b10, b11, b12, b13, b14, b15⟩ := good_bounds h d
  simp only [TermBodies.body_nel, TermBodies.stmt_nel]
  range_norm
  (try range_norm)
  (try range_norm)
  range_fin

theorem range_ri {e : Emu} {rows cols : Nat} (h : EmuInv e rows cols) (d : Dim rows cols) :
    rangeBody TermBodies.body_ri [] [] e = true := by
  obtain ⟨b1, b2, b3, b4, b5, b6, b7, b8, b9, b10, b11, b12, b13, b14, b15⟩ := good_bounds h d
  simp only [TermBodies.body_ri, TermBodies.stmt_ri]
  range_norm
  (try range_norm)
  (try range_norm)
  range_fin

theorem range_bs {e : Emu} {rows cols : Nat} (h : EmuInv e rows cols) (d : Dim rows cols) :
    rangeBody TermBodies.body_bs [] [] e = true := by
  obtain ⟨b1, b2, b3, b4, b5, b6, b7, b8, b9, b10, b11, b12, b13, b14, b15⟩ := good_bounds h d
  simp only [TermBodies.body_bs, TermBodies.stmt_bs]
  range_norm
  (try range_norm)
  (try range_norm)
  range_fin

theorem range_ht {e : Emu} {rows cols : Nat} (h : EmuInv e rows cols) (d : Dim rows cols) :
    rangeBody TermBodies.body_ht [] [] e = true := by
  obtain ⟨b1, b2, b3, b4, b5, b6, b7, b8, b9, b10, b11, b12, b13, b14, b15⟩ := good_bounds h d
  simp only [TermBodies.body_ht, TermBodies.stmt_ht]
  range_norm
  (try range_norm)
  (try range_norm)
  range_fin

theorem range_lf {e : Emu} {rows cols : Nat} (h : EmuInv e rows cols) (d : Dim rows cols) :
    rangeBody TermBodies.body_lf [] [] e = true := by
  obtain ⟨b1, b2, b3, b4, b5, b6, b7, b8, b9, b10, b11, b12, b13, b14, b15⟩ := good_bounds h d
  simp only [TermBodies.body_lf, TermBodies.stmt_lf]
  range_norm
  (try range_norm)
  (try range_norm)
  range_fin

theorem range_vt {e : Emu} {rows cols : Nat} (h : EmuInv e rows cols) (d : Dim rows cols) :
    rangeBody TermBodies.body_vt [] [] e = true := by
  obtain ⟨b1, b2, b3, b4, b5, b6, b7, b8, b9, b10, b11, b12, b13, b14, b15⟩ := good_bounds h d
  simp only [TermBodies.body_vt, TermBodies.stmt_vt]
  range_norm
  (try range_norm)
  (try range_norm)
  range_fin

theorem range_ff {e : Emu} {rows cols : Nat} (h : EmuInv e rows cols) (d : Dim rows cols) :
    rangeBody TermBodies.body_ff [] [] e = true := by
  obtain ⟨b1, b2, b3, b4, b5, b6, b7, b8, b9, b10, b11, b12, b13, b14, b15⟩ := good_bounds h d
  simp only [TermBodies.body_ff, TermBodies.stmt_ff]
  range_norm
  (try range_norm)
  (try range_norm)
  range_fin

theorem range_cr {e : Emu} {rows cols : Nat} (h : EmuInv e rows cols) (d : Dim rows cols) :
    rangeBody TermBodies.body_cr [] [] e = true := by
  obtain ⟨b1, b2, b3, b4, b5, b6, b7, b8, b9, b10, b11, b12, b13, b14, b15⟩ := good_bounds h d
  simp only [TermBodies.body_cr, TermBodies.stmt_cr]
  range_norm
  (try range_norm)
  (try range_norm)
  range_fin

set_option maxHeartbeats 400000 in
theorem range_cup_0 {e : Emu} {rows cols : Nat} (h : EmuInv e rows cols) (d : Dim rows cols) :
    rangeBody TermBodies.body_cup [] [] e = true := by
  obtain ⟨b1, b2, b3, b4, b5, b6, b7, b8, b9, b10, b11, b12, b13, b14, b15⟩ := good_bounds h d
  simp only [TermBodies.body_cup, TermBodies.stmt_cup]
  range_norm; (try range_norm); (try range_norm); range_fin

set_option maxHeartbeats 400000 in
theorem range_cup_1 {e : Emu} {rows cols : Nat} (h : EmuInv e rows cols) (d : Dim rows cols) (a : Param) (ha : POk a.1) :
    rangeBody TermBodies.body_cup [a] [] e = true := by
  obtain ⟨b1, b2, b3, b4, b5, b6, b7, b8, b9, b10, b11, b12, b13, b14, b15⟩ := good_bounds h d
  unfold POk at ha
  simp only [TermBodies.body_cup, TermBodies.stmt_cup]
  range_norm; (try range_norm); (try range_norm); range_fin

set_option maxHeartbeats 400000 in
theorem range_cup_2 {e : Emu} {rows cols : Nat} (h : EmuInv e rows cols) (d : Dim rows cols) (a b : Param) (ha : POk a.1) (hb : POk b.1) :
    rangeBody TermBodies.body_cup [a, b] [] e = true := by
  obtain ⟨b1, b2, b3, b4, b5, b6, b7, b8, b9, b10, b11, b12, b13, b14, b15⟩ := good_bounds h d
  unfold POk at ha hb
  simp only [TermBodies.body_cup, TermBodies.stmt_cup]
  range_norm; (try range_norm); (try range_norm); range_fin

set_option maxHeartbeats 400000 in
theorem range_decstbm_0 {e : Emu} {rows cols : Nat} (h : EmuInv e rows cols) (d : Dim rows cols) :
    rangeBody TermBodies.body_decstbm [] [] e = true := by
  obtain ⟨b1, b2, b3, b4, b5, b6, b7, b8, b9, b10, b11, b12, b13, b14, b15⟩ := good_bounds h d
  simp only [TermBodies.body_decstbm, TermBodies.stmt_decstbm]
  range_norm; (try range_norm); (try range_norm); range_fin

set_option maxHeartbeats 400000 in
theorem range_decstbm_1 {e : Emu} {rows cols : Nat} (h : EmuInv e rows cols) (d : Dim rows cols) (a : Param) (ha : POk a.1) :
    rangeBody TermBodies.body_decstbm [a] [] e = true := by
  obtain ⟨b1, b2, b3, b4, b5, b6, b7, b8, b9, b10, b11, b12, b13, b14, b15⟩ := good_bounds h d
  unfold POk at ha
  simp only [TermBodies.body_decstbm, TermBodies.stmt_decstbm]
  range_norm; (try range_norm); (try range_norm); range_fin

set_option maxHeartbeats 400000 in
theorem range_decstbm_2 {e : Emu} {rows cols : Nat} (h : EmuInv e rows cols) (d : Dim rows cols) (a b : Param) (ha : POk a.1) (hb : POk b.1) :
    rangeBody TermBodies.body_decstbm [a, b] [] e = true := by
  obtain ⟨b1, b2, b3, b4, b5, b6, b7, b8, b9, b10, b11, b12, b13, b14, b15⟩ := good_bounds h d
  unfold POk at ha hb
  simp only [TermBodies.body_decstbm, TermBodies.stmt_decstbm]
  range_norm; (try range_norm); (try range_norm); range_fin

theorem range_csi_su {e : Emu} {rows cols : Nat} (h : EmuInv e rows cols) (d : Dim rows cols) (pm : List Param) :
    rangeBody TermBodies.body_csi_su pm [] e = true := by
  simp only [TermBodies.body_csi_su, TermBodies.stmt_csi_su]
  range_norm; (try range_norm); (try range_norm); range_fin

theorem range_csi_sd {e : Emu} {rows cols : Nat} (h : EmuInv e rows cols) (d : Dim rows cols) (pm : List Param) :
    rangeBody TermBodies.body_csi_sd pm [] e = true := by
  simp only [TermBodies.body_csi_sd, TermBodies.stmt_csi_sd]
  range_norm; (try range_norm); (try range_norm); range_fin

/-- DSR (`CSI n`): the `vt.cursor.row+1` / `vt.cursor.col+1` of the cursor-position report (round 5: the int arguments of a formatted
    reply are carried by `Stmt.reply` and checked by `rangeS` through `exsR`) — every good state, every parameter list -/
theorem range_csi_arm_6e {e : Emu} {rows cols : Nat} (h : EmuInv e rows cols) (d : Dim rows cols) (pm : List Param) :
    rangeBody TermBodies.body_csi_arm_6e pm [] e = true := by
  obtain ⟨b1, b2, b3, b4, b5, b6, b7, b8, b9, b10, b11, b12, b13, b14, b15⟩ := good_bounds h d
  simp only [TermBodies.body_csi_arm_6e, TermBodies.stmt_csi_arm_6e, rangeBody, rangeS, exsR, condR, exR, evalEx, evalCond, evalCmp,
    initFrame, Frame.get, inR, lim, Bool.and_true, Bool.true_and, andThen_norm, evalS]
  -- whatever the order of the arms of the switch
  repeat' split
  all_goals first
    | trivial
    | exact (Bool.and_eq_true _ _).mpr ⟨decide_eq_true (by omega), decide_eq_true (by omega)⟩
    | exact ite_self _

/-- decrqm(): no arithmetic at all (the arguments of its `Fprintf` are the locals `pd`, `ps`), any state, any mode number -/
theorem range_decrqm (e : Emu) (pd : Int) : rangeBody TermBodies.body_decrqm [] [pd] e = true := by
  simp only [TermBodies.body_decrqm, TermBodies.stmt_decrqm]
  range_norm
  simp only [exsR, exR, Bool.and_true]
  repeat' split
  all_goals first | trivial | simp
/-- the check sees the report's arithmetic: a cursor row of 2^62 is out of range -/
example : rangeBody TermBodies.body_csi_arm_6e [(6, [])] [] { Emu.init with cur := { row := 4611686018427387904 } } = false := by decide

/-- Non-vacuity of the check itself: with an unclamped parameter the same check FAILS (2^63−1
    lines down from row 0: `vt.cursor.row += row(ps)` leaves the range). -/
example : rangeBody TermBodies.body_cud [] [9223372036854775807] { Emu.init with bottom := 23 } = false := by
  decide

/-- CHT (and HT through it): the counter of the walk over the tab stops never exceeds `ps` — for EVERY state and tab-stop list -/
theorem range_cht (e : Emu) {n : Int} (hn : POk n) :
    rangeBody TermBodies.body_cht [] [n] e = true := by
  unfold POk at hn
  unfold rangeBody
  simp only [TermBodies.body_cht, cht_shape, rangeS_seq]
  have e1 : ∀ s : Frame, evalS [] (.setLastCol false) s = .ok ({ s with e := { s.e with lastCol := false } }, .norm) := by
    intro s; simp [evalS]
  have e2 : ∀ s : Frame, evalS [] (.ite (.cmp .eq (.loc (.var 0)) (.lit 0)) (.assign (.var 0) (.lit 1)) .skip) s =
      .ok (if s.vars 0 = 0 then s.set (.var 0) 1 else s, .norm) := by
    intro s
    simp only [evalS, evalCond, evalEx, exOk, Frame.get, if_true]
    simp only [evalCmp]
    by_cases h : s.vars 0 = 0 <;> simp [h]
  have e3 : ∀ s : Frame, evalS [] (.assign (.var 1) (.lit 0)) s = .ok (s.set (.var 1) 0, .norm) := by
    intro s; simp [evalS, exOk, evalEx]
  have r1 : ∀ s : Frame, rangeS [] (.setLastCol false) s = true := by intro s; simp [rangeS]
  have r2 : ∀ s : Frame, rangeS [] (.ite (.cmp .eq (.loc (.var 0)) (.lit 0)) (.assign (.var 0) (.lit 1)) .skip) s = true := by
    intro s; simp only [rangeS, condR, exR, Bool.and_true, Bool.true_and]; split <;> simp [rangeS, exR]
  have r3 : ∀ s : Frame, rangeS [] (.assign (.var 1) (.lit 0)) s = true := by intro s; simp [rangeS, exR]
  simp only [e1, e2, e3, r1, r2, r3, andThen_norm, Bool.true_and]
  rw [Bool.and_eq_true]
  refine ⟨?_, andThen_all _ _ (chtTail_range [])⟩
  show rangeTabLoop (fun s => rangeS [] chtLoopBody s) (fun s => evalS [] chtLoopBody s) _ _ = true
  apply chtLoop_range
  refine ⟨?_, ?_, ?_⟩
  · simp [Frame.set]
  · by_cases h0 : n = 0 <;> simp [Frame.set, initFrame, h0] <;> omega
  · by_cases h0 : n = 0 <;> simp [Frame.set, initFrame, h0] <;> omega


/-- CBT: likewise, from the last tab stop down -/
theorem range_cbt (e : Emu) {n : Int} (hn : POk n) :
    rangeBody TermBodies.body_cbt [] [n] e = true := by
  unfold POk at hn
  unfold rangeBody
  simp only [TermBodies.body_cbt, cbt_shape, rangeS_seq]
  have e1 : ∀ s : Frame, evalS [] (.setLastCol false) s = .ok ({ s with e := { s.e with lastCol := false } }, .norm) := by
    intro s; simp [evalS]
  have e2 : ∀ s : Frame, evalS [] (.ite (.cmp .eq (.loc (.var 0)) (.lit 0)) (.assign (.var 0) (.lit 1)) .skip) s =
      .ok (if s.vars 0 = 0 then s.set (.var 0) 1 else s, .norm) := by
    intro s
    simp only [evalS, evalCond, evalEx, exOk, Frame.get, if_true]
    simp only [evalCmp]
    by_cases h : s.vars 0 = 0 <;> simp [h]
  have e3 : ∀ s : Frame, evalS [] (.assign (.var 1) (.lit 0)) s = .ok (s.set (.var 1) 0, .norm) := by
    intro s; simp [evalS, exOk, evalEx]
  have r1 : ∀ s : Frame, rangeS [] (.setLastCol false) s = true := by intro s; simp [rangeS]
  have r2 : ∀ s : Frame, rangeS [] (.ite (.cmp .eq (.loc (.var 0)) (.lit 0)) (.assign (.var 0) (.lit 1)) .skip) s = true := by
    intro s; simp only [rangeS, condR, exR, Bool.and_true, Bool.true_and]; split <;> simp
  have r3 : ∀ s : Frame, rangeS [] (.assign (.var 1) (.lit 0)) s = true := by intro s; simp [rangeS, exR]
  simp only [e1, e2, e3, r1, r2, r3, andThen_norm, Bool.true_and]
  show rangeTabLoop (fun s => rangeS [] cbtLoopBody s) (fun s => evalS [] cbtLoopBody s) _ _ = true
  apply cbtLoop_range
  refine ⟨?_, ?_, ?_⟩
  · simp [Frame.set]
  · by_cases h0 : n = 0 <;> simp [Frame.set, initFrame, h0] <;> omega
  · by_cases h0 : n = 0 <;> simp [Frame.set, initFrame, h0] <;> omega

/-- **print(): no `+`/`-` of the Go code leaves ±2^62** — on every good state (insert mode on or off, autowrap on or off, pending
    wrap or not), every glyph width up to 65535 (uniseg gives 0..2): the wrap test `col + w - 1 > right`, `width - 1`, the
    insert-mode shift loop (`col + w`, `i - w`, its counter down to `col + w - 1`), `height - 1`, the early return for zero-width
    glyphs, the store, the trailing cells `col + i` of a wide glyph, the advance `col + w` and its clamp `right + 1` — on the
    state before AND after the wrap's `vt.nel()` call and on the grid the shift loop leaves. -/
theorem range_print {e : Emu} {rows cols : Nat} (h : EmuInv e rows cols) (d : Dim rows cols) (w : Nat)
    (hw : (w : Int) ≤ 65535) :
    rangeBody TermBodies.body_print [] [(w : Int)] e = true :=
  range_from0 d w hw (initFrame e [(w : Int)]) h rfl

/-- non-vacuity: a wide glyph on a fresh 80-column line, the same in insert mode, and the check fails for a width near 2^62 -/
example : rangeBody TermBodies.body_print [] [2] { Emu.init with right := 79, bottom := 0, primary := [List.replicate 80 {}], alt := [List.replicate 80 {}] } = true := by decide
example : rangeBody TermBodies.body_print [] [2] { Emu.init with right := 7, bottom := 0, mode := { irm := true, decawm := true }, primary := [List.replicate 8 {}], alt := [List.replicate 8 {}] } = true := by decide
example : rangeBody TermBodies.body_print [] [4611686018427387904] { Emu.init with right := 79, bottom := 0, cur := { col := 5 }, primary := [List.replicate 80 {}], alt := [List.replicate 80 {}] } = false := by decide

/-- **resize(): no `+`/`-` of the Go code leaves ±2^62** — `row(h) - 1`, `column(w) - 1` (margins, the clamp of both saved cursors),
    the counters of the two reflow loops (bounded by the size of the OLD screen), and every `vt.print` call of the reflow (checked by
    the chain of `range_print` in the state the call is made in: the invariant at the NEW size holds there by `print_safe` /
    `nel_safe`) — for every good old state (≤ 65535², stored cell widths ≤ 65535) and every new size 1..65535. -/
theorem range_resize {e : Emu} {rows cols : Nat} (h : EmuInv e rows cols) (d : Dim rows cols) (w hh : Int)
    (hw1 : 1 ≤ w) (hw2 : w ≤ 65535) (hh1 : 1 ≤ hh) (hh2 : hh ≤ 65535)
    (hcw : ∀ r ∈ e.primary, ∀ c ∈ r, (c.w : Int) ≤ 65535) :
    rangeBodyR TermBodies.body_resize [] [w, hh] e = true := by
  have dN : Dim hh.toNat w.toNat := ⟨by omega, by omega, by omega, by omega⟩
  have hinvN := resizeInit_inv (resizePre_of_inv h) hw1 hh1
  simp only [rangeBodyR, TermBodies.body_resize, stmt_resize_shape, resizeWith]
  simp only [rangeR, rangeS, exR, evalS, evalEx, exOk, Frame.get, Frame.set, initFrame, andThen_norm, ok_bind,
    List.getD_cons_zero, List.getD_cons_succ, List.getD_nil, Bool.true_and, Bool.and_true, if_true]
  have hneg : ¬ hh < 0 := by omega
  have hwneg : ¬ w < 0 := by omega
  have hne : (List.replicate hh.toNat ([] : Row)).isEmpty = false := by
    have : hh.toNat = (hh.toNat - 1) + 1 := by omega
    rw [this, List.replicate_succ]; rfl
  simp only [hneg, hwneg, if_false, andThen_norm, hne, Bool.false_eq_true, List.length_replicate, Nat.lt_irrefl,
    List.getD_cons_zero, List.getD_cons_succ, Nat.reduceEqDiff]
  have hrect : Rect e.primary := by
    intro r hr
    rw [h.prim.rowLen r hr]
    unfold width0
    split
    · rename_i hnil; rw [hnil] at hr; cases hr
    · rename_i r0 _ hcons
      exact (h.prim.rowLen r0 (by rw [hcons]; exact List.mem_cons_self)).symm
  have hlenO : (e.primary.length : Int) ≤ 65535 := by rw [h.prim.len]; have := d.rmax; omega
  have hw0 : (width0 e.primary : Int) ≤ 65535 := by
    unfold width0
    split
    · decide
    · rename_i r0 _ hcons
      rw [h.prim.rowLen r0 (by rw [hcons]; exact List.mem_cons_self)]; have := d.cmax; omega
  have key : ∀ F : Frame, EmuInv F.e hh.toNat w.toNat → F.old = e.primary →
      (rangeR [] nest F && andThen (evalS [] nest F) fun _ => true) = true := by
    intro F hF hold
    rw [Bool.and_eq_true]
    exact ⟨nest_range dN F (by rw [hold]; exact hrect) (by rw [hold]; exact hcw) (by rw [hold]; exact hlenO) (by rw [hold]; exact hw0) hF,
      andThen_all _ _ (fun _ => rfl)⟩
  have hi1 : inR (hh - 1) = true := by unfold inR lim; apply decide_eq_true; constructor <;> omega
  have hi2 : inR (w - 1) = true := by unfold inR lim; apply decide_eq_true; constructor <;> omega
  rw [hi1, hi2]
  simp only [Bool.true_and]
  apply key
  · have := hinvN
    simp only [resizeInit, blankGrid, clampSaved] at this
    simpa [List.map_replicate, List.take_replicate, List.drop_replicate, Nat.min_self, Nat.sub_self, List.replicate_zero,
      List.append_nil] using this
  · rfl

/-- non-vacuity: StartWithSize's first resize (New() has no rows), a 2×1 screen holding a wide glyph re-flowed to 1 column,
    and the check does look at `h - 1`: it fails for a height of −2^62 in the clamp -/
example : rangeBodyR TermBodies.body_resize [] [80, 24] Emu.init = true := by decide
example : rangeBodyR TermBodies.body_resize [] [1, 2]
    { Emu.init with right := 1, bottom := 0, primary := [[{ g := [228, 184, 150], w := 2 }, {}]], alt := [[{}, {}]] } = true := by decide
example : rangeR [] (.clampSaved (.lit (-4611686018427387904)) (.lit 1)) (initFrame Emu.init []) = false := by decide

/-- non-vacuity: 44 tab stops, `CSI 3 I` from column 0; and the check does look at the counter: with `n` near 2^62 it fails -/
example : rangeBody TermBodies.body_cht [] [3] { Emu.init with right := 79, primary := [List.replicate 80 {}], alt := [List.replicate 80 {}] } = true := by decide
example : rangeS [] chtLoopBody { e := Emu.init, vars := fun k => if k = 1 then 4611686018427387904 else 4611686018427387905 } = false := by decide

end VaxisModel.Props.C05Overflow
