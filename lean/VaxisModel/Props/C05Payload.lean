/-
C05 — string payloads (OSC, DCS, APC) and the parameters of the model.

The emulator hands payloads to code outside the model: the sixel decoder (go-sixel), base64, the
host's clipboard. What the safety theorem needs from them is stated as explicit hypotheses
(`DecoderTame`), the payload scanners that ARE vaxis code (`cutString`, `sixelTooLarge`) are inside
the model, and every branch of osc() / the DCS arm / the APC arm is total:

* `osc_total`      : osc() on ANY payload (any bytes, any number of `;`, empty) and any base64
                     verdict never panics, from any state, and changes nothing but the pen's hyperlink;
* `dcs_safe`       : the DCS arm with the size guard never panics and leaves the state unchanged for
                     EVERY final / intermediates / parameters / data, provided the external decoder is
                     tame on payloads that pass the guard (`DecoderTame` — checked at run time on the real
                     library by the C05 stream, counter `dcs:DECODER-CRASH-WITHIN-LIMIT`);
* `dcs_guard_*`    : what the guard admits: every number ≤ 4096, ≤ 682 sixel lines, every sixel line
                     ≤ 4096 pixels wide — stated on the scanner's own state;
* `dcs_facts`      : the regenerated facts about the DCS arm are the ones the model was written for.
The full statement without the guard is false: Witness/F105i.lean.
-/
import VaxisModel.Model.EmuDcs
import VaxisModel.Lemmas.EmuSafe2
import VaxisModel.Props.C05

namespace VaxisModel.Props.C05Payload
open VaxisModel.Model.Emu VaxisModel.Lemmas.Emu VaxisModel.Gen.TermModes

/-- What C05 needs from the external sixel decoder: it neither panics, nor allocates or loops
    without bound, on a payload that `sixelTooLarge` lets through. -/
def DecoderTame (dec : List Nat → DecOutcome) : Prop :=
  ∀ data, sixelTooLarge data = false → dec data ≠ .crash

/-- The regenerated facts about the DCS arm of update(). -/
theorem dcs_facts :
    dcsFinals = [113] ∧
    dcsGuards = ["len(seq.Intermediate) > 0", "len(seq.Parameters) > 0", "sixelTooLarge(seq.Data)"] ∧
    dcsGuardsSize = true ∧ maxSixelSize = 4096 := by decide

/-- The source of sixelTooLarge is the one `sixelScan` transcribes. -/
theorem sixel_scanner_source :
    sixelTooLargeSrc = "{ var ( n int x int lines int ) for _, c := range data { switch { case c >= '0' && c <= '9': n = n*10 + int(c-'0') if n > maxSixelSize { return true } continue case c == ' ' || c == '!': continue case c == '$': x = 0 case c == '-': x = 0 lines += 1 if lines*6 > maxSixelSize { return true } case c >= '?' && c <= '~': if n == 0 { n = 1 } x += n if x > maxSixelSize { return true } } n = 0 } return false }" := rfl

/-- DCS: for every final, every number of intermediates / parameters, every data string, and any
    tame decoder, the arm returns normally and the emulator state is untouched. -/
theorem dcs_safe (dec : List Nat → DecOutcome) (tame : DecoderTame dec) (e : Emu) (d : DcsInfo)
    (hd : d.dec = dec d.data) : dcs e d = .ok e := by
  unfold dcs dcsF
  have hg : dcsGuardsSize = true := by decide
  rw [hg]
  by_cases h1 : d.final ≠ 113
  · simp [h1]
  · by_cases h2 : d.nInter > 0
    · simp [h1, h2]
    · by_cases h3 : d.nParams > 0
      · simp [h1, h2, h3]
      · cases h4 : sixelTooLarge d.data
        · have := tame d.data h4
          rw [← hd] at this
          simp only [h1, h2, h3, Bool.true_and, if_false, h4]
          cases h5 : d.dec <;> simp_all
        · simp [h1, h2, h3, h4]

/-- … and so the invariant is kept. -/
theorem dcs_keeps_inv (dec : List Nat → DecOutcome) (tame : DecoderTame dec) {e : Emu} {rows cols : Nat}
    (h : EmuInv e rows cols) (d : DcsInfo) (hd : d.dec = dec d.data) :
    ∃ e', dcs e d = .ok e' ∧ EmuInv e' rows cols := ⟨e, dcs_safe dec tame e d hd, h⟩

/-- Non-vacuity: a decoder that crashes exactly on oversized raster attributes is tame. -/
example : DecoderTame (fun data => if sixelTooLarge data then .crash else .image) := by
  intro data h; simp [h]

/-- The full statement (no hypothesis on the decoder) — false, see Witness/F105i. -/
def dcs_safe_full : Prop := ∀ (e : Emu) (d : DcsInfo), ∃ e', dcs e d = .ok e'

/-! ### what the guard admits -/

/-- A payload whose raster attributes / repeat counts contain a number above the limit is refused:
    any decimal digit run with value > 4096 (scanned from a fresh number). -/
theorem sixelScan_refuses_big_number (rest : List Nat) (n x lines : Nat) (c : Nat)
    (hc : 48 ≤ c ∧ c ≤ 57) (hbig : n * 10 + (c - 48) > maxSixelSize) :
    sixelScan (c :: rest) n x lines = true := by
  simp [sixelScan, hc, hbig]

/-- A sixel that would make the current line wider than the limit is refused. -/
theorem sixelScan_refuses_wide_line (rest : List Nat) (n x lines : Nat) (c : Nat)
    (hc : 63 ≤ c ∧ c ≤ 126) (hw : x + (if n = 0 then 1 else n) > maxSixelSize) :
    sixelScan (c :: rest) n x lines = true := by
  have h1 : ¬ (48 ≤ c ∧ c ≤ 57) := by omega
  have h2 : ¬ (c = 32 ∨ c = 33) := by omega
  have h3 : ¬ c = 36 := by omega
  have h4 : ¬ c = 45 := by omega
  simp [sixelScan, h1, h2, h3, h4, hc, hw]

/-- One more sixel line beyond the limit is refused. -/
theorem sixelScan_refuses_many_lines (rest : List Nat) (n x lines : Nat)
    (hl : (lines + 1) * 6 > maxSixelSize) : sixelScan (45 :: rest) n x lines = true := by
  simp [sixelScan, hl]

/-! ### OSC and APC -/

/-- osc() is total: any payload, any base64 verdict, any state (even without the invariant). -/
theorem osc_total (e : Emu) (payload : List Nat) (info : OscInfo) :
    ∃ r, osc Fixes.current e payload info = .ok r := by
  unfold osc
  simp only [Fixes.current]
  repeat' split
  all_goals first
    | exact ⟨_, rfl⟩
    | simp_all

/-- … and it touches nothing but the pen's hyperlink. -/
theorem osc_state (e : Emu) (payload : List Nat) (info : OscInfo) (r : Emu × Nat)
    (h : osc Fixes.current e payload info = .ok r) :
    r.1 = e ∨ ∃ url params, r.1 = { e with cur := { e.cur with st := { e.cur.st with link := url, linkParams := params } } } := by
  unfold osc at h
  simp only [Fixes.current, Bool.true_and] at h
  repeat' split at h
  all_goals first
    | (cases h; exact Or.inl rfl)
    | (cases h; exact Or.inr ⟨_, _, rfl⟩)
    | (simp_all; done)
    | (simp_all; subst h; exact Or.inl rfl)

/-! ### what the safety theorem needs from the parameters of the model -/

/-- Precisely what `emu_safe_step` needs from the inputs the model does not compute itself:
    * grapheme segmentation / width (uniseg): NOTHING beyond `Width ≥ 0` (`w : Nat`) — any bytes, any
      width incl. 0 and wider than the screen;
    * CSI parameters (parser): every parameter has a first value (structural in `Param`) — any values;
    * base64 (OSC 52): NOTHING — either verdict;
    * the sixel decoder: `DecoderTame`.
    The harness checks the three hypotheses on the real parser / decoder at run time
    (`hyp-ok:*` / `hyp-VIOLATED:*` / `dcs:DECODER-CRASH-WITHIN-LIMIT` counters, note
    `hypothesis_violations`). -/
theorem parameters_needed (dec : List Nat → DecOutcome) (tame : DecoderTame dec)
    {e : Emu} {rows cols : Nat} (h : EmuInv e rows cols) (d : Dim rows cols) :
    (∀ (g : G) (w : Nat), Safe rows cols (print Fixes.current e g w)) ∧
    (∀ (label : List Nat) (pm : List Param), Safe rows cols (csi Fixes.current e label pm)) ∧
    (∀ (payload : List Nat) (info : OscInfo), ∃ r, osc Fixes.current e payload info = .ok r ∧ EmuInv r.1 rows cols) ∧
    (∀ di : DcsInfo, di.dec = dec di.data → ∃ e', dcs e di = .ok e' ∧ EmuInv e' rows cols) :=
  ⟨fun g w => print_safe h d g w, fun l pm => VaxisModel.Props.C05.csi_safe h d l pm,
   fun p i => osc_safe h p i, fun di hd => dcs_keeps_inv dec tame h di hd⟩

/-- APC posts one event and leaves the state alone. -/
theorem apc_step (e : Emu) : emuStep e .apc = .ok (e, 1) := rfl

end VaxisModel.Props.C05Payload
