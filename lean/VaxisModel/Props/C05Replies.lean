/-
C05/C06, round 5 — the reply TEXT of the translated reply arms.

`Stmt.reply` carries the literals, formats and int arguments of the Go statements that build and send a reply
(regenerated from widgets/term on every run into Gen/TermBodies.lean); `Model.EmuReply.replyOf` is the byte string the
translated body writes to `vt.pty` (`replyS` = `evalS` plus the output: `reply_is_evalS`).  The theorems below say, for EVERY
state and EVERY parameter list, that these bytes are
* the literals C12's extractor reads from the same source (`Gen/TermReplies.lean`: `da1Parts`, `da2`, `dsrOk`, `cprFormat`,
  `decrpmFormat`), and
* what C12's hand-written reply model (`Model/C12Replies.lean` `replies`, rendered by `seqBytes`) answers — so the replies
  C12's start-up theorems are about ARE the replies of the translated code (`replies_are_translated`).
A changed reply in the source (another DA1 attribute, a lost `decrqm()` arm, swapped CPR arguments) changes the generated
body and breaks a theorem here.
-/
import VaxisModel.Lemmas.EmuReply
import VaxisModel.Lemmas.EmuBodyTop
import VaxisModel.Lemmas.EmuBodyModes
import VaxisModel.Model.C12Replies
import VaxisModel.Gen.TermReplies

namespace VaxisModel.Props.C05Replies
open VaxisModel.Model.Emu VaxisModel.Model.EmuBody VaxisModel.Model.EmuReply VaxisModel.Lemmas.EmuBody VaxisModel.Lemmas.EmuReply
open VaxisModel.Gen VaxisModel.Gen.TermModes
open VaxisModel.Model.C12Replies (replies seqBytes decrqmValue)

/-- `replyS` is not a second semantics: when it answers, `evalS` returns exactly its frame (signal `norm`). -/
theorem reply_is_evalS (pm : List Param) (st : Stmt) (s : Frame) (o : Out) (s' : Frame) (o' : Out)
    (h : replyS pm st s o = some (s', o')) : evalS pm st s = .ok (s', .norm) :=
  replyS_sound pm st s o s' o' h

/-- DA1 (`CSI c`): the bytes the translated arm writes are the literals of the source, in order. -/
theorem reply_da1 (e : Emu) (pm : List Param) :
    replyOf TermBodies.body_csi_arm_63 pm [] e = some TermReplies.da1Parts.flatten := rfl

/-- DA2 (`CSI > c`) -/
theorem reply_da2 (e : Emu) (pm : List Param) :
    replyOf TermBodies.body_csi_arm_3e63 pm [] e = some TermReplies.da2 := rfl

/-- DSR (`CSI n`): `5` → the "ok" literal; `6` → `Sprintf(cprFormat, vt.cursor.row+1, vt.cursor.col+1)`; anything else →
    nothing is written. For EVERY state and parameter list. -/
theorem reply_dsr (e : Emu) (pm : List Param) :
    replyOf TermBodies.body_csi_arm_6e pm [] e =
      some (if ps pm = 5 then TermReplies.dsrOk
            else if ps pm = 6 then sprintfD TermReplies.cprFormat [e.cur.row + 1, e.cur.col + 1] else []) := by
  simp only [replyOf, TermBodies.body_csi_arm_6e, TermBodies.stmt_csi_arm_6e, replyS, evalCond, evalCmp, evalEx, initFrame,
    Frame.get, stepReply, List.map_cons, List.map_nil, List.nil_append, TermReplies.dsrOk, TermReplies.cprFormat]
  by_cases h5 : ps pm = 5
  · simp [h5]
  · by_cases h6 : ps pm = 6
    · simp [h6]
    · simp [h5, h6]

/-- decrqm() (`CSI ? Pd $ p`): for EVERY mode number and state the translated body writes `Fprintf(decrpmFormat, pd, ps)` with
    `ps` = C12's `decrqmValue` (1 / 2 from the flag for the modes of the regenerated `decrqmTable`, 0 for 5 and for unknown
    modes, 3 for 2027). -/
theorem reply_decrqm (e : Emu) (pd : Int) :
    replyOf TermBodies.body_decrqm [] [pd] e = some (sprintfD TermReplies.decrpmFormat [pd, decrqmValue e pd]) :=
  reply_decrqm_eq e pd

/-- mode 2027 (grapheme clustering) is answered "permanently set": `ESC [ ? 2027 ; 3 $ y` — what Vaxis's start-up probe reads
    as `unicodeCore` (the seeded change C12-m7, decrqm() without its 2027 arm, breaks this). -/
theorem reply_decrqm_2027 (e : Emu) :
    replyOf TermBodies.body_decrqm [] [2027] e = some [27, 91, 63, 50, 48, 50, 55, 59, 51, 36, 121] := by
  rw [reply_decrqm]; rfl

/-- the literal arms C12's extractor lists (`decrqmLiteral`) are answered with their literal (none = the initial 0) -/
theorem reply_decrqm_literals (e : Emu) : ∀ p ∈ TermReplies.decrqmLiteral,
    replyOf TermBodies.body_decrqm [] [p.1] e = some (sprintfD TermReplies.decrpmFormat [p.1, p.2.getD 0]) := by
  intro p hp
  simp only [TermReplies.decrqmLiteral, List.mem_cons, List.not_mem_nil, or_false] at hp
  rcases hp with rfl | rfl <;> rw [reply_decrqm] <;> rfl

/-- **The replies C12 reasons about are the replies of the translated code.** For every state, every parameter list (clamped by
    the translated statements in front of csi()'s switch, `body_csi_pre`) and every host answer: what the translated arm of DA1 /
    DA2 / DSR / DECRQM writes to the child is C12's reply model (`Model.C12Replies.replies`, parsed form) rendered to bytes. -/
theorem replies_are_translated (hostBg : Option (Nat × Nat × Nat)) (e : Emu) (pm : List Param) :
    replyOf TermBodies.body_csi_arm_63 (clampParams pm) [] e = some ((replies hostBg e (.csi [99] pm)).flatMap seqBytes) ∧
    replyOf TermBodies.body_csi_arm_3e63 (clampParams pm) [] e = some ((replies hostBg e (.csi [62, 99] pm)).flatMap seqBytes) ∧
    replyOf TermBodies.body_csi_arm_6e (clampParams pm) [] e = some ((replies hostBg e (.csi [110] pm)).flatMap seqBytes) ∧
    replyOf TermBodies.body_decrqm [] [ps (clampParams pm)] e =
      some ((replies hostBg e (.csi [63, 36, 112] pm)).flatMap seqBytes) := by
  refine ⟨rfl, rfl, ?_, ?_⟩
  · rw [reply_dsr]
    simp only [replies]
    by_cases h5 : ps (clampParams pm) = 5
    · simp only [h5, if_true]; rfl
    · by_cases h6 : ps (clampParams pm) = 6
      · simp [h6, cpr_wire]
      · simp [h5, h6]
  · rw [reply_decrqm, decrpm_wire]
    simp [replies]

/-- The reply arms leave the emulator state alone AND write these bytes: the two facts about one evaluation (`replyOf` answers ⇒
    `evalBody` returns the state of `replyS`'s frame, which for these bodies is the state itself). -/
theorem reply_arms_state_untouched (e : Emu) (pm : List Param) (pd : Int) :
    evalBody TermBodies.body_csi_arm_63 pm [] e = .ok e ∧ evalBody TermBodies.body_csi_arm_3e63 pm [] e = .ok e ∧
    evalBody TermBodies.body_csi_arm_6e pm [] e = .ok e ∧ evalBody TermBodies.body_decrqm [] [pd] e = .ok e :=
  ⟨body_csi_arm_63_eq e pm, body_csi_arm_3e63_eq e pm, body_csi_arm_6e_eq e pm, body_decrqm_eq e pd⟩

/-- osc() is outside the reply fragment (its OSC 11 answer formats the HOST's colour with `%02x`: `Reply.opaque`, modelled by
    C12 only): `replyOf` says so instead of inventing a text. -/
theorem reply_osc_not_carried (e : Emu) : replyOf TermBodies.body_osc [] [] e = none := rfl

/-- **Observation (DSR 6 in the pending-wrap state)**: a 3×1 emulator after `abc` has the deferred-wrap flag set and its column
    is 3 = width; `CSI 6 n` answers `ESC [ 1 ; 4 R` — column width + 1, where a VT / xterm reports the last column (3). C06 leaves
    the deferred-wrap state unconstrained except for printing, CR and absolute positioning, and C12's start-up probe asks at the
    home position after `CSI H`, where the flag is clear; recorded, not judged (notes/C05.md). -/
example :
    (match (Emu.new Fixes.current 3 1).bind (fun e => runOps e [.print [97] 1, .print [98] 1, .print [99] 1]) with
     | .ok e => (e.lastCol, e.cur.col, replyOf TermBodies.body_csi_arm_6e [(6, [])] [] e)
     | .error _ => (false, 0, none)) = (true, 3, some [27, 91, 49, 59, 52, 82]) := by decide

/-- after `CSI H` (what sendQueries() writes in front of its cursor-position request) the report is `ESC [ 1 ; 1 R` -/
example :
    (match (Emu.new Fixes.current 3 1).bind (fun e => runOps e [.print [97] 1, .print [98] 1, .print [99] 1, .csi [72] []]) with
     | .ok e => (e.lastCol, replyOf TermBodies.body_csi_arm_6e [(6, [])] [] e)
     | .error _ => (true, none)) = (false, some [27, 91, 49, 59, 49, 82]) := by decide

end VaxisModel.Props.C05Replies
