/-
C06 — the embedded terminal shows what a DEC VT / xterm would show (core vocabulary).

Refinement of the reference terminal `Spec.Term` by the emulator model through the simulation
relation `Sim` (Lemmas/EmuRefine.lean): for every pair of related states and every operation of
the vocabulary with every parameter, the emulator's next state is accepted by one of the states the
reference allows (or the reference leaves the result unconstrained). Proved per operation; see
notes/C06.md for the list of operations covered by proof and those covered only by evaluating the
reference as an oracle on the implementation.
-/
import VaxisModel.Lemmas.EmuRefine
import VaxisModel.Lemmas.EmuRefineCursor

namespace VaxisModel.Props.C06
open VaxisModel.Model.Emu VaxisModel.Model.EmuAbs VaxisModel.Lemmas.Emu VaxisModel.Lemmas.EmuRefine VaxisModel.Spec

/-- CR. -/
theorem cr_refines {t : Term.T} {e : Emu} {rows cols : Nat} (s : Sim t e rows cols) :
    Refines (Term.step t .cr) (cr e) rows cols := VaxisModel.Lemmas.EmuRefine.cr_refines s

end VaxisModel.Props.C06
