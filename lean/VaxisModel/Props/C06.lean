/-
C06 — the embedded terminal shows what a DEC VT / xterm would show (core vocabulary).

The emulator model (Model/Emu.lean, validated against the real code after every operation)
REFINES the reference terminal `Spec.Term` (written from DESIGN Appendix A): with the simulation
relation `Sim2 t e rows cols` (Lemmas/EmuRefine.lean, EmuRefine2.lean: the reference state `t`
accepts what the emulator state `e` shows — size, screen selector, cursor with the emulator's
column = width read as the pending-wrap flag, pen, margins, every cell of the active grid with
erased cells = blanks of the stored background; saved cursors correspond; `e` satisfies the C05
invariant and is in the modes the vocabulary cannot leave),

* `emu_refines_term`: for EVERY pair of related states, on every screen 1×1 … 65535², every
  operation of the vocabulary (`tokOf op = some tok`: print narrow/wide, CR, LF/VT/FF, IND, NEL, RI,
  CUP/HVP, CHA/HPA, VPA, CUU, CUD, CUF, CUB, CNL, CPL, EL, ED, ECH, ICH, DCH, IL, DL, SU, SD, DECSTBM,
  DECSC, DECRC, ?1049 h/l) with EVERY parameter value (omitted, 0, 1, …, beyond the screen, beyond
  65535), the emulator step succeeds and its result is related to one of the states the reference
  accepts — unless the reference leaves the result unconstrained (pending wrap + anything but
  print/CR/absolute positioning …, as the property says).
* `emu_refines_histories`, `emu_refines_from_start`: lifted to all histories over the vocabulary by
  induction, from a freshly started terminal of any size.

* `emu_refines_term_all`, `emu_refines_histories_all`, `emu_refines_from_start_all`: the same with
  SGR included (`sgr_refines_spec`: on every well-formed SGR sequence — `WfSgr`: any simple codes,
  `4:k` k ≤ 5, complete colon and legacy extended-colour forms, values ≤ 255, and the truncated forms
  on which both sides stop — the emulator's pen abstracts to `Spec.sgr` of the abstracted pen).

Restrictions: glyphs with an empty grapheme string (the parser never emits them); parameters with
sub-parameters / more than two parameters for the non-SGR functions (outside `tokOf`); SGR 6, 21,
values > 255 and the malformed SGR forms D1–D4 listed in notes/C06.md (terminal specific).
-/
import VaxisModel.Lemmas.EmuRefineStep
import VaxisModel.Lemmas.EmuRefineAll
import VaxisModel.Lemmas.EmuRefineExt
import VaxisModel.Props.C05

namespace VaxisModel.Props.C06
open VaxisModel.Model.Emu VaxisModel.Model.EmuAbs VaxisModel.Lemmas.Emu VaxisModel.Lemmas.EmuRefine VaxisModel.Spec

/-- The per-step safety of C05 in the form the history theorems need. -/
theorem step_safe : StepSafe :=
  fun _ _ _ op h d hop => VaxisModel.Props.C05.emu_safe h d op hop

/-- One operation of the vocabulary, any parameter, any related states. -/
theorem emu_refines_term {t : Term.T} {e : Emu} {rows cols : Nat} (op : EOp) (tok : Term.Tok)
    (h : tokOf op = some tok) (hsgr : ∀ pm, tok ≠ .sgr pm) (hpr : ∀ g w, op = .print g w → g ≠ [])
    (s2 : Sim2 t e rows cols) :
    ∃ r, emuStep e op = .ok r ∧ Refines2 (Term.step t tok) r.1 rows cols :=
  emu_refines_step op tok h hsgr hpr s2

/-- All histories over the vocabulary: the emulator runs to completion and, following the reference
    through its accept-sets, either some step was left unconstrained by the reference or the final
    states are related. -/
theorem emu_refines_histories {rows cols : Nat} {ops : List EOp} {toks : List Term.Tok}
    (hv : VocabHist ops toks) {t : Term.T} {e : Emu} (s2 : Sim2 t e rows cols) :
    ∃ e', runOps e ops = .ok e' ∧ SpecAllows t toks e' rows cols :=
  emu_refines_history step_safe hv s2

/-- The same without appeal to C05 and step by step: every step up to and including the first one
    the reference leaves unconstrained is panic-free and accepted. -/
theorem emu_refines_prefixes {rows cols : Nat} {ops : List EOp} {toks : List Term.Tok}
    (hv : VocabHist ops toks) {t : Term.T} {e : Emu} (s2 : Sim2 t e rows cols) :
    HistOk rows cols t e ops toks :=
  emu_refines_prefix hv s2

/-- A freshly started terminal (New() + resize) of any admissible size is related to the
    reference's power-on state. -/
theorem fresh_related (w h : Int) (hw1 : 1 ≤ w) (hw2 : w ≤ 65535) (hh1 : 1 ≤ h) (hh2 : h ≤ 65535)
    {e0 : Emu} (he : Emu.new Fixes.current w h = .ok e0) :
    Sim2 (Term.T.init h.toNat w.toNat) e0 h.toNat w.toNat :=
  sim2_init w h hw1 hw2 hh1 hh2 he

/-- From start-up. -/
theorem emu_refines_from_start (w h : Int) (hw1 : 1 ≤ w) (hw2 : w ≤ 65535) (hh1 : 1 ≤ h) (hh2 : h ≤ 65535)
    {ops : List EOp} {toks : List Term.Tok} (hv : VocabHist ops toks) :
    ∃ e0 e', Emu.new Fixes.current w h = .ok e0 ∧ runOps e0 ops = .ok e' ∧
      SpecAllows (Term.T.init h.toNat w.toNat) toks e' h.toNat w.toNat :=
  emu_refines_session step_safe w h hw1 hw2 hh1 hh2 hv

/-- What `Sim2` says about the display, spelled out: the reference accepts the abstraction of the
    emulator state. -/
theorem sim_accepts {t : Term.T} {e : Emu} {rows cols : Nat} (s2 : Sim2 t e rows cols) :
    t.rows = rows ∧ t.cols = cols ∧ t.onAlt = e.altActive ∧ (t.row : Int) = e.cur.row ∧
    t.pw = decide (e.cur.col ≥ cols) ∧ t.pen = absStyle e.cur.st ∧
    (t.top : Int) = e.top ∧ (t.bottom : Int) = e.bottom ∧
    Term.gridAccepts t.grid (e.active.map absRow) = true :=
  ⟨s2.sim.trows, s2.sim.tcols, s2.sim.onAlt, s2.sim.row, s2.sim.pw, s2.sim.pen, s2.sim.top, s2.sim.bottom,
    s2.sim.grid⟩

/-! ### with SGR -/

/-- The emulator's SGR interpretation abstracts to the reference's, on every well-formed sequence of
    the vocabulary (empty list = reset included). -/
theorem sgr_refines_spec {pm : List Param} {ps : List (List Nat)} (e : Emu)
    (hp : sgrParams pm = some ps) (hw : WfSgr ps = true) :
    ∃ s', Model.Emu.sgr e (clampParams pm) = .ok { e with cur := { e.cur with st := s' } } ∧
      absStyle s' = Spec.sgr (absStyle e.cur.st) ps :=
  let ⟨s', h1, h2, _⟩ := sgr_pen e hp hw
  ⟨s', h1, h2⟩

/-- One operation of the WHOLE vocabulary (SGR included), any parameter, any related states. -/
theorem emu_refines_term_all {t : Term.T} {e : Emu} {rows cols : Nat} (op : EOp) (tok : Term.Tok)
    (hv : VocabOpAll op tok) (s2 : Sim2 t e rows cols) :
    ∃ r, emuStep e op = .ok r ∧ Refines2 (Term.step t tok) r.1 rows cols :=
  emu_refines_step_all op tok hv s2

/-- All histories over the whole vocabulary. -/
theorem emu_refines_histories_all {rows cols : Nat} {ops : List EOp} {toks : List Term.Tok}
    (hv : VocabHistAll ops toks) {t : Term.T} {e : Emu} (s2 : Sim2 t e rows cols) :
    ∃ e', runOps e ops = .ok e' ∧ SpecAllows t toks e' rows cols :=
  emu_refines_history_all step_safe hv s2

/-- From start-up, the whole vocabulary. -/
theorem emu_refines_from_start_all (w h : Int) (hw1 : 1 ≤ w) (hw2 : w ≤ 65535) (hh1 : 1 ≤ h) (hh2 : h ≤ 65535)
    {ops : List EOp} {toks : List Term.Tok} (hv : VocabHistAll ops toks) :
    ∃ e0 e', Emu.new Fixes.current w h = .ok e0 ∧ runOps e0 ops = .ok e' ∧
      SpecAllows (Term.T.init h.toNat w.toNat) toks e' h.toNat w.toNat :=
  emu_refines_session_all step_safe w h hw1 hw2 hh1 hh2 hv

/-! ### non-vacuity -/

/-- A related pair exists: the fresh 80×24 terminal. -/
example : ∃ t e, Sim2 t e 24 80 := by
  obtain ⟨e0, he, _⟩ := VaxisModel.Props.C05.new_good 80 24 (by decide) (by decide) (by decide) (by decide)
  exact ⟨_, e0, fresh_related 80 24 (by decide) (by decide) (by decide) (by decide) he⟩

/-- A history over the vocabulary: `CSI 0;0 H`, print "a", `CSI 2 K`, LF. -/
example : VocabHist [.csi [72] [(0, []), (0, [])], .print [97] 1, .csi [75] [(2, [])], .c0 10]
    [.cup 0 0, .print [97] 1, .el 2, .lf] := by
  refine .cons ⟨by decide, (by intro pm h; cases h), (by intro g w h; cases h)⟩ ?_
  refine .cons ⟨by decide, (by intro pm h; cases h), (by intro g w h; cases h; decide)⟩ ?_
  refine .cons ⟨by decide, (by intro pm h; cases h), (by intro g w h; cases h)⟩ ?_
  exact .cons ⟨by decide, (by intro pm h; cases h), (by intro g w h; cases h)⟩ .nil

/-- A history with SGR: `CSI 1;38;5;9 m`, print "a", `CSI m`. -/
example : VocabHistAll [.csi [109] [(1, []), (38, []), (5, []), (9, [])], .print [97] 1, .csi [109] []]
    [.sgr [[1], [38], [5], [9]], .print [97] 1, .sgr []] := by
  refine .cons ⟨by decide, (by intro ps h; cases h; exact ⟨by decide, _, rfl, by decide⟩), (by intro g w h; cases h)⟩ ?_
  refine .cons ⟨by decide, (by intro ps h; cases h), (by intro g w h; cases h; decide)⟩ ?_
  exact .cons ⟨by decide, (by intro ps h; cases h; exact ⟨by decide, _, rfl, by decide⟩), (by intro g w h; cases h)⟩ .nil

/-! ### round 2: long parameter lists, cursor visibility and shape (`tokOfX`) -/

/-- **One-parameter functions with any number of parameters.** `CSI p1 ; p2 ; … F` for the functions
    that take one numeric parameter (ICH, CUU, CUD, CUF, CUB, CNL, CPL, CHA, HPA, VPA, ED, EL, IL, DL,
    DCH, SU, SD — except the 5-parameter `CSI … T` —, ECH), whatever follows the first parameter
    (further parameters, with or without sub-parameters): the emulator step succeeds and refines the
    reference's function of the first parameter, for every related pair of states. -/
theorem emu_refines_term_long {t : Term.T} {e : Emu} {rows cols : Nat} (f : Nat) (pm : List Param) (tok : Term.Tok)
    (hf : f ∈ onePs) (h84 : f = 84 → pm.length ≠ 5)
    (h : tokOfX (.csi [f] pm) = some tok) (s2 : Sim2 t e rows cols) :
    ∃ r, emuStep e (.csi [f] pm) = .ok r ∧ Refines2 (Term.step t tok) r.1 rows cols := by
  have h' : tokOf (.csi [f] (firstOnly pm)) = some tok := by
    unfold tokOfX at h
    split at h
    · rename_i heq; simp at heq
    · rename_i heq; simp at heq
    · rename_i heq; simp at heq
    · rename_i f' pm' heq
      simp only [EOp.csi.injEq, List.cons.injEq, and_true] at heq
      obtain ⟨rfl, rfl⟩ := heq
      rw [if_pos ⟨hf, h84⟩] at h
      exact h
    · rename_i heq; cases heq
    · rename_i heq; cases heq
    · rename_i hne _ _; exact absurd rfl (hne f pm)
  exact emu_refines_step_long _ tok
    ⟨f, pm, rfl, hf, h84, h', fun ps hps => absurd hps (tokOf_one_not_sgr f _ tok hf h' ps), fun g w hc => by cases hc⟩ s2

/-- **CUP / HVP / DECSTBM with more than two parameters** (round 3; F106d repaired): whatever follows the second
    parameter (further parameters, with or without sub-parameters) is ignored, as a VT / xterm does: the emulator
    step succeeds and refines the reference's function of the first two parameters, for every related pair of
    states. Before the repair the emulator ignored the whole sequence (`Witness/F106d.lean`). -/
theorem emu_refines_term_two {t : Term.T} {e : Emu} {rows cols : Nat} (f : Nat) (pm : List Param) (tok : Term.Tok)
    (hf : f ∈ twoPs) (hl : pm.length > 2)
    (h : tokOfX (.csi [f] pm) = some tok) (s2 : Sim2 t e rows cols) :
    ∃ r, emuStep e (.csi [f] pm) = .ok r ∧ Refines2 (Term.step t tok) r.1 rows cols := by
  have hno : ¬ (f ∈ onePs ∧ (f = 84 → pm.length ≠ 5)) := by
    simp only [twoPs, List.mem_cons, List.not_mem_nil, or_false] at hf
    rcases hf with rfl | rfl | rfl <;> (intro hc; exact absurd hc.1 (by decide))
  have h' : tokOf (.csi [f] (pm.take 2)) = some tok := by
    unfold tokOfX at h
    split at h
    · rename_i heq; simp at heq
    · rename_i heq; simp at heq
    · rename_i heq; simp at heq
    · rename_i f' pm' heq
      simp only [EOp.csi.injEq, List.cons.injEq, and_true] at heq
      obtain ⟨rfl, rfl⟩ := heq
      rw [if_neg hno, if_pos ⟨hf, hl⟩] at h
      exact h
    · rename_i heq; cases heq
    · rename_i heq; cases heq
    · rename_i hne _ _; exact absurd rfl (hne f pm)
  exact emu_refines_step_two f pm tok hf hl h' s2

/-- Non-vacuity: `CSI 2;3;9 H` is CUP 2 3, `CSI 1;2;7:1;0 r` is DECSTBM 1 2; a sub-parameter in one of the first two is outside. -/
example : tokOfX (.csi [72] [(2, []), (3, []), (9, [])]) = some (.cup 2 3) ∧
    tokOfX (.csi [114] [(1, []), (2, []), (7, [1]), (0, [])]) = some (.decstbm 1 2) ∧
    tokOfX (.csi [72] [(2, [4]), (3, []), (9, [])]) = none := by decide

/-- **Cursor visibility** (`CSI ? 25 h` / `CSI ? 25 l`): for states related by `SimC` (= `Sim2` and the
    cursor's visibility and shape agree) the step succeeds, is what the reference's `showCursor` does,
    and the relation is kept. -/
theorem emu_cursor_visibility {t : Term.T} {e : Emu} {rows cols : Nat} (s : SimC t e rows cols) (b : Bool) :
    ∃ r, emuStep e (.csi [63, if b then 104 else 108] [(25, [])]) = .ok r ∧
      ∃ t', Term.step t (.showCursor b) = .accept [t'] ∧ SimC t' r.1 rows cols :=
  showCursor_step s b

/-- **Cursor shape** (DECSCUSR, `CSI n SP q`, n ≤ 65535). -/
theorem emu_cursor_shape {t : Term.T} {e : Emu} {rows cols : Nat} (s : SimC t e rows cols) (n : Nat) (hn : n ≤ 65535) :
    ∃ r, emuStep e (.csi [32, 113] [((n : Int), [])]) = .ok r ∧
      ∃ t', Term.step t (.cursorShape n) = .accept [t'] ∧ SimC t' r.1 rows cols :=
  cursorShape_step s n hn

/-- **Hyperlinks** (`OSC 8 ; params ; url ST`, parameter string without `;`, `Model.OSC8` on — the
    default): the step succeeds, the reference state whose pen hyperlink is `url` is related to the
    result (every glyph printed from now on carries it: `Sim.link` + `print_refines`), and the
    emulator keeps the parameter string beside it. `Spec.Term` has no token for OSC 8 (the pen's
    hyperlink is part of its state), so the reference side is written out. -/
theorem emu_hyperlink {t : Term.T} {e : Emu} {rows cols : Nat} (s2 : Sim2 t e rows cols) (params url : List Nat)
    (ho : e.osc8 = true) (hP : 59 ∉ params) :
    ∃ r, emuStep e (.osc ([56, 59] ++ params ++ [59] ++ url) {}) = .ok r ∧
      Sim2 { t with link := url } r.1 rows cols ∧ r.1.cur.st.linkParams = params :=
  ⟨_, osc8_eq e params url ho hP, sim2_setLink s2 params url, rfl⟩

/-- **OSC 8 as an operation of the vocabulary** (round 3): `Spec.Term` now has the token `osc8 params url` (the hyperlink of
    the glyphs printed from now on), `tokOfX` maps every payload `8;params;url` to it, and the step through the REAL
    dispatcher (`emuStep` → `osc`, the `cutString` splits, the `vt.OSC8` switch) refines the reference's step, for every
    related pair of states, every payload and either base64 verdict. -/
theorem emu_refines_term_osc8 {t : Term.T} {e : Emu} {rows cols : Nat} (d : List Nat) (info : OscInfo) (tok : Term.Tok)
    (ho : e.osc8 = true) (h : tokOfX (.osc d info) = some tok) (s2 : Sim2 t e rows cols) :
    ∃ r, emuStep e (.osc d info) = .ok r ∧ Refines2 (Term.step t tok) r.1 rows cols := by
  have h' : osc8Tok d = some tok := h
  have hshape : ∃ P U, tok = .osc8 P U := by
    unfold osc8Tok at h'
    split at h'
    · split at h'
      · cases h'; exact ⟨_, _, rfl⟩
      · cases h'
    · cases h'
  obtain ⟨P, U, rfl⟩ := hshape
  exact osc8_step s2 d info P U ho h'

/-- Non-vacuity: `OSC 8 ; id=1 ; http://x ST` and the closing `OSC 8 ; ; ST` are in the vocabulary; `OSC 0 ; title` is not. -/
example : tokOfX (.osc [56, 59, 105, 100, 61, 49, 59, 104, 116, 116, 112, 58, 47, 47, 120] {}) =
      some (.osc8 [105, 100, 61, 49] [104, 116, 116, 112, 58, 47, 47, 120]) ∧
    tokOfX (.osc [56, 59, 59] {}) = some (.osc8 [] []) ∧ tokOfX (.osc [48, 59, 116] {}) = none := by decide

/-- **RIS** (`ESC c`, round 3; F106e repaired): from EVERY related pair of states — whatever margins, pen, saved cursors,
    modes and screen were in effect — the step succeeds and the emulator is related to the reference's power-on state of
    the same size (blank screens, cursor home, default pen, full-screen margins, no saved cursor, primary screen).
    Before the repair the top margin, the pen and the saved cursors survived (`Witness/F106e.lean`). -/
theorem emu_refines_term_ris {t : Term.T} {e : Emu} {rows cols : Nat} (s2 : Sim2 t e rows cols) :
    tokOfX (.esc [99]) = some .ris ∧
    ∃ r, emuStep e (.esc [99]) = .ok r ∧ Refines2 (Term.step t .ris) r.1 rows cols :=
  ⟨rfl, ris_step s2⟩

/-- **Colon sub-parameters of the non-SGR functions** (round 3): the 18 one-parameter and the 3 two-parameter functions of the
    vocabulary read the main value of each parameter only, so `CSI 2:5 A` does exactly what `CSI 2 A` does — and with
    `emu_refines_term_long` / `_two` refines the reference's function of those main values. Whether a terminal should
    execute such a sequence at all is terminal specific (xterm ignores it, DEC STD 070 reserves `:`): `tokOfX` leaves it
    outside the judged vocabulary; this is the emulator-side statement. -/
theorem emu_subparams_ignored (e : Emu) (f : Nat) (pm : List Param) (hf : f ∈ onePs ∨ f ∈ twoPs) :
    emuStep e (.csi [f] (dropSubs pm)) = emuStep e (.csi [f] pm) := by
  unfold emuStep emuStepF
  simp only [csi_ignores_subparams e f pm hf]

example : dropSubs [(2, [5]), (7, [])] = [(2, []), (7, [])] := by decide

/-- **All histories over the extended vocabulary** (round 3): any sequence of operations of the round-1/2 vocabulary (SGR
    included), one-parameter functions with any parameter list, CUP / HVP / DECSTBM with more than two parameters, RIS and
    OSC 8 hyperlinks, from any related pair of states with the widget's OSC 8 switch on (the default; `osc8_switch_stable`): the emulator never panics and shows what the reference allows after every prefix. -/
theorem emu_refines_histories_X {rows cols : Nat} {ops : List EOp} {toks : List Term.Tok}
    (hv : VocabHistX ops toks) {t : Term.T} {e : Emu} (s2 : Sim2 t e rows cols) (ho : e.osc8 = true) :
    ∃ e', runOps e ops = .ok e' ∧ SpecAllows t toks e' rows cols :=
  emu_refines_history_X step_safe hv s2 ho

/-- No operation whatsoever (any sequence, any parameters, resizes included) changes the widget's `OSC8` switch — which is
    why hyperlinks stay honoured along a history. -/
theorem osc8_switch_stable {e : Emu} {op : EOp} {r : Emu × Nat} (h : emuStep e op = .ok r) : r.1.osc8 = e.osc8 :=
  VaxisModel.Lemmas.EmuOsc8.emuStep_o8 h

/-- … and from start-up, for every admissible size. -/
theorem emu_refines_from_start_X (w h : Int) (hw1 : 1 ≤ w) (hw2 : w ≤ 65535) (hh1 : 1 ≤ h) (hh2 : h ≤ 65535)
    {ops : List EOp} {toks : List Term.Tok} (hv : VocabHistX ops toks) :
    ∃ e0 e', Emu.new Fixes.current w h = .ok e0 ∧ runOps e0 ops = .ok e' ∧
      SpecAllows (Term.T.init h.toNat w.toNat) toks e' h.toNat w.toNat :=
  emu_refines_session_X step_safe w h hw1 hw2 hh1 hh2 hv

/-- Non-vacuity: `SGR 41`, `CSI 2;3;9 r`, `ESC c`, `CSI 2;2;7 H`, `CSI 1;5 B`, `OSC 8;;x`, "a" is a history of the extended vocabulary. -/
example : VocabHistX
    [.csi [109] [(41, [])], .csi [114] [(2, []), (3, []), (9, [])], .esc [99], .csi [72] [(2, []), (2, []), (7, [])],
     .csi [66] [(1, []), (5, [])], .osc [56, 59, 59, 120] {}, .print [97] 1]
    [.sgr [[41]], .decstbm 2 3, .ris, .cup 2 2, .cud 1, .osc8 [] [120], .print [97] 1] := by
  refine .cons (.base ⟨by decide, (by intro ps h; cases h; exact ⟨by decide, _, rfl, by decide⟩), (by intro g w h; cases h)⟩) ?_
  refine .cons (.two (by decide) (by decide) (by decide)) ?_
  refine .cons .ris ?_
  refine .cons (.two (by decide) (by decide) (by decide)) ?_
  refine .cons (.long (by decide) (by decide) (by decide)) ?_
  refine .cons (.osc8 (by decide)) ?_
  exact .cons (.base ⟨by decide, (by intro ps h; cases h), (by intro g w h; cases h; decide)⟩) .nil

/-- `tokOfX` agrees with these statements: its tokens for the two cursor functions. -/
example : tokOfX (.csi [63, 108] [(25, [])]) = some (.showCursor false) ∧
    tokOfX (.csi [32, 113] [(4, [])]) = some (.cursorShape 4) := by decide

/-- Non-vacuity: `CSI 2 ; 7 ; 9:1 A` is CUU 2, `CSI 3 ; 1 ; 1 T` is SD 3, a 5-parameter `CSI … T` is outside. -/
example : tokOfX (.csi [65] [(2, []), (7, []), (9, [1])]) = some (.cuu 2) ∧
    tokOfX (.csi [84] [(3, []), (1, []), (1, [])]) = some (.sd 3) ∧
    tokOfX (.csi [84] [(3, []), (1, []), (1, []), (1, []), (1, [])]) = none := by decide

/-! ### round 4: the oracle's vocabulary `tokOfJ` (colon sub-parameters outside SGR are IGNORED by the reference)

`Spec.Term` now states the decision: a DEC VT and xterm ignore a non-SGR CSI function whose parameter string contains a colon
(`Tok.ignored`). The oracle judges through `tokOfJ`; the emulator executes such a sequence on its main values
(`emu_subparams_ignored` — an emulator-side fact), which is finding F106f (`Witness.F106f.refines_J_fails`, recorded).
`tokOfJ_region`: outside that one region the judged token is the token of `tokOfX`, the vocabulary of the refinement theorems
above — so they are the full statement minus exactly F106f. -/

theorem tokOfJ_region (op : EOp) (tok : Term.Tok) (h : tokOfJ op = some tok) : tok = .ignored ∨ tokOfX op = some tok := by
  unfold tokOfJ at h
  split at h
  · split at h
    · left; cases h; rfl
    · right; exact h
  · right; exact h

/-- the region: the one- and two-parameter functions of the vocabulary with a colon anywhere in the parameter string -/
theorem tokOfJ_ignored_of (f : Nat) (pm : List Param) (hf : f ∈ onePs ∨ f ∈ twoPs) (hs : hasSub pm = true) :
    tokOfJ (.csi [f] pm) = some .ignored := by
  simp [tokOfJ, hf, hs]

/-- `CSI 1:5 B` and `CSI 2;7;9:1 A` are judged as ignored; `CSI 1 B` as CUD 1; SGR keeps its sub-parameters. -/
example : tokOfJ (.csi [66] [(1, [5])]) = some .ignored ∧ tokOfJ (.csi [65] [(2, []), (7, []), (9, [1])]) = some .ignored ∧
    tokOfJ (.csi [66] [(1, [])]) = some (.cud 1) ∧ tokOfJ (.csi [109] [(4, [3])]) = some (.sgr [[4, 3]]) := by decide

/-- The fresh terminal is a `SimC` pair (cursor visible, default shape). -/
example : ∃ t e, SimC t e 24 80 := by
  obtain ⟨e0, he, _⟩ := VaxisModel.Props.C05.new_good 80 24 (by decide) (by decide) (by decide) (by decide)
  have h0 : e0 = newState 80 24 := by
    rw [new_eq 80 24 (by decide) (by decide)] at he; cases he; rfl
  subst h0
  exact ⟨_, _, fresh_related 80 24 (by decide) (by decide) (by decide) (by decide) he, rfl, rfl⟩

end VaxisModel.Props.C06
