/-
C06 bridge — `Spec.Display` (the renderer-side reference terminal of C01/C04/C07/C11/C12) and
`Spec.Term` (the reference terminal of C06) were written independently; on their common vocabulary
(CUP, SGR, OSC 8, text of width 1 or 2, DECTCEM ?25 h/l, DECSCUSR) they are the same terminal.

* `display_refines_term`: from ANY pair of related states (`Rel dec d t`: same size, cursor, pending
  wrap, pen, hyperlink, cursor visibility and shape, margins = full screen, primary screen, and
  every cell equal up to Spec.Term's own visual equality `TCell.norm` — with `cont ↦ cont` and
  `poison ↦ poison` exactly; the Display's rows well formed; `d.bad = none`), for EVERY token list of
  the common vocabulary (`Common tw k`; text widths `tw g ≤ 2`) that `Spec.Display.run` processes
  without `bad`: `Spec.Term` is deterministic on the translated tokens (`runExact`: every step
  returns `.accept [t']` — one state, never `unconstrained`) and the final states are related again.
* `display_step_refines_term`: the same for one token.
* `init_related`: the power-on states of an `rows × cols` screen (rows, cols ≥ 1) are related (here,
  and only here, the decoder hypotheses `DecOk` are needed: the Display's blank cell is the glyph
  "20", Spec.Term's is `blank .default`).
* `display_refines_term_from_start`: the two combined.

No disagreement between the two references was found on this vocabulary: in particular `poison`
appears in exactly the same cells (the examples below exercise both directions: overwriting the
right half and the left half of a wide glyph).
Definitions and lemmas: Lemmas/C06Bridge.lean.
-/
import VaxisModel.Lemmas.C06Bridge

namespace VaxisModel.Props.C06Bridge
open VaxisModel VaxisModel.Spec VaxisModel.Spec.Term
open VaxisModel.Lemmas.C06Bridge

theorem display_step_refines_term (dec : String → List Nat) (tw : String → Nat) (d : Display.Term) (t : T)
    (h : Rel dec d t) (k : RTok) (hk : Common tw k) (hb : (Display.step tw d k).bad = none) :
    ∃ tok t', tokT dec tw k = some tok ∧ Spec.Term.step t tok = .accept [t'] ∧
      Rel dec (Display.step tw d k) t' :=
  step_bridge dec tw d t h k hk hb

theorem display_refines_term (dec : String → List Nat) (tw : String → Nat) (d : Display.Term) (t : T)
    (h : Rel dec d t) (toks : List RTok) (hv : ∀ k ∈ toks, Common tw k)
    (hb : (Display.run tw d toks).bad = none) :
    ∃ t', runExact t (toks.filterMap (tokT dec tw)) = some t' ∧ Rel dec (Display.run tw d toks) t' :=
  run_bridge dec tw toks d t h hv hb

theorem init_related (dec : String → List Nat) (hdec : DecOk dec) (rows cols : Nat) (hr : 1 ≤ rows) (hc : 1 ≤ cols) :
    Rel dec (Display.Term.init cols rows) (T.init rows cols) :=
  init_rel dec hdec rows cols hr hc

theorem display_refines_term_from_start (dec : String → List Nat) (tw : String → Nat) (hdec : DecOk dec)
    (rows cols : Nat) (hr : 1 ≤ rows) (hc : 1 ≤ cols) (toks : List RTok) (hv : ∀ k ∈ toks, Common tw k)
    (hb : (Display.run tw (Display.Term.init cols rows) toks).bad = none) :
    ∃ t', runExact (T.init rows cols) (toks.filterMap (tokT dec tw)) = some t' ∧
      Rel dec (Display.run tw (Display.Term.init cols rows) toks) t' :=
  display_refines_term dec tw _ _ (init_related dec hdec rows cols hr hc) toks hv hb

/-- `Common` is: in Spec.Term's vocabulary (`tokT … ≠ none`) and text widths ≤ 2. -/
theorem common_iff_tokT (dec : String → List Nat) (tw : String → Nat) (k : RTok) :
    Common tw k ↔ (tokT dec tw k ≠ none ∧ ∀ g, k = .text g → tw g ≤ 2) :=
  common_iff dec tw k

/-! ### non-vacuity: a concrete session on a 2 × 5 screen -/

/-- A decoder given by a table (enough for the example). -/
def dec0 (s : String) : List Nat :=
  if s = "" then [] else if s = "20" then [32] else if s = "61" then [97]
  else if s = "e4b896" then [228, 184, 150] else if s = "68" then [104] else [0]

def tw0 (g : String) : Nat := if g = "e4b896" then 2 else 1

theorem decOk0 : DecOk dec0 := by
  refine ⟨by decide, ?_, by decide, ?_⟩
  · intro s h
    unfold dec0 at h
    split at h
    · assumption
    · repeat (split at h; cases h)
      cases h
  · intro s h
    unfold dec0 at h
    split at h
    · cases h
    · split at h
      · assumption
      · repeat (split at h; simp at h)
        simp at h

/-- bold "a", a wide glyph, "a" over its RIGHT half (poison on the left), a wide glyph into the last
    two columns (pending wrap), a linked "a" over its LEFT half (poison on the right), link closed,
    cursor hidden, DECSCUSR 4. -/
def toks0 : List RTok :=
  [.cup 1 1, .sgr [[1]], .text "61", .text "e4b896", .cup 1 3, .text "61",
   .text "e4b896", .cup 1 4, .osc8 "" "68", .text "61", .osc8 "" "", .decrst 25, .cursorStyle 4]

example : ∀ k ∈ toks0, Common tw0 k := by decide

example : (Display.run tw0 (Display.Term.init 5 2) toks0).bad = none := by decide

/-- the Display's first row: a, poison, a, linked a, poison -/
example : (Display.run tw0 (Display.Term.init 5 2) toks0).grid[0]? =
    some [.glyph "61" 1 { bold := true } "" "", .poison, .glyph "61" 1 { bold := true } "" "",
          .glyph "61" 1 { bold := true } "" "68", .poison] := by decide

/-- Spec.Term is deterministic on the translated tokens and shows the same row. -/
example : (runExact (T.init 2 5) (toks0.filterMap (tokT dec0 tw0))).map (fun t => t.primary[0]?) =
    some (some [.glyph [97] 1 { bold := true } [], .poison, .glyph [97] 1 { bold := true } [],
                .glyph [97] 1 { bold := true } [104], .poison]) := by decide

example : (runExact (T.init 2 5) (toks0.filterMap (tokT dec0 tw0))).map (fun t => (t.row, t.col, t.pw)) =
    some (0, 4, false) := by decide

example : (runExact (T.init 2 5) (toks0.filterMap (tokT dec0 tw0))).map
      (fun t => (t.cursorVisible, t.cursorShape, t.link)) = some (false, 4, []) := by decide

/-- the theorem applied to the session -/
example : ∃ t', runExact (T.init 2 5) (toks0.filterMap (tokT dec0 tw0)) = some t' ∧
    Rel dec0 (Display.run tw0 (Display.Term.init 5 2) toks0) t' :=
  display_refines_term_from_start dec0 tw0 decOk0 2 5 (by decide) (by decide) toks0 (by decide) (by decide)

/-- Without the hypothesis `bad = none` the two references are NOT comparable: printing in the
    pending-wrap state is `bad` for the Display, while Spec.Term wraps. -/
example : (Display.run tw0 (Display.Term.init 1 1) [.text "61", .text "61"]).bad ≠ none := by decide

end VaxisModel.Props.C06Bridge
