/-
C06 for the code as translated from the source (round 4): the history theorem of Props/C06.lean restated for runs through
`Props.C05Dispatch.runGen` — update()'s regenerated type switch, the regenerated dispatch tables of csi()/esc()/c0() and the
regenerated bodies of every control function — started by the translated resize(). On good states that run IS the model's run
(`runGen_eq`), so nothing new is proved about the emulator; what is new is that the statement no longer mentions a
hand-transcribed function.
-/
import VaxisModel.Props.C06
import VaxisModel.Props.C05Dispatch

namespace VaxisModel.Props.C06Gen
open VaxisModel.Model.Emu VaxisModel.Model.EmuBody VaxisModel.Model.EmuAbs VaxisModel.Lemmas.Emu VaxisModel.Lemmas.EmuRefine VaxisModel.Spec VaxisModel.Gen
open VaxisModel.Props.C05Dispatch

/-- **From start-up, all histories over the extended vocabulary, through translated code only**: the run never panics and the
    emulator shows what the reference terminal allows after every prefix. (`OpOk` is `True` for every operation that is not a
    resize; the vocabulary contains no resize.) -/
theorem translated_emu_refines_from_start_X (hostEmpty : Bool) (w h : Int) (hw1 : 1 ≤ w) (hw2 : w ≤ 65535) (hh1 : 1 ≤ h) (hh2 : h ≤ 65535)
    {ops : List EOp} {toks : List Term.Tok} (hv : VocabHistX ops toks) (hall : ∀ op ∈ ops, VaxisModel.Props.C05.OpOk op) :
    ∃ e0 e', evalBody TermBodies.body_resize [] [w, h] Emu.init = .ok e0 ∧ runGen hostEmpty e0 ops = .ok e' ∧
      SpecAllows (Term.T.init h.toNat w.toNat) toks e' h.toNat w.toNat := by
  obtain ⟨e0, e', he0, he', hs⟩ := VaxisModel.Props.C06.emu_refines_from_start_X w h hw1 hw2 hh1 hh2 hv
  obtain ⟨e0', he0', hg0⟩ := VaxisModel.Props.C05.new_good w h hw1 hw2 hh1 hh2
  have : e0' = e0 := by rw [he0] at he0'; exact (Except.ok.inj he0').symm
  subst this
  refine ⟨e0', e', ?_, ?_, hs⟩
  · rw [VaxisModel.Props.C05Bodies.body_resize Emu.init w h (by omega) VaxisModel.Props.C05Bodies.rect_init]; exact he0
  · rw [runGen_eq hostEmpty ops hg0 hall]; exact he'

end VaxisModel.Props.C06Gen
