/-
C07 — Only advertised terminal features are used; fallbacks are faithful.
Property theorems only (helper lemmas live in Lemmas/).

Part 1 (this section): colour fallback.  "a direct colour being mapped to the palette entry
(16-255) nearest to it under the library's weighted distance".
-/
import VaxisModel.Model.Color
import VaxisModel.Spec.Palette
import VaxisModel.Lemmas.Argmin

namespace VaxisModel.Props.C07
open VaxisModel.Model.Color VaxisModel.Lemmas

/-- The table in color.go is the xterm palette (entries 16..255) — re-checked against the
    regenerated table on every run. -/
theorem palette_is_xterm : Gen.Palette.palette = Spec.Palette.xtermPalette := by decide +kernel

/-- The channel differences are computed without `uint8` wrap-around. -/
theorem diff_is_signed : Gen.Palette.diffSigned = true := by decide

/-- All three weights are positive (it is a distance on all three channels). -/
theorem weights_pos : 0 < weights.1 ∧ 0 < weights.2.1 ∧ 0 < weights.2.2 := by decide

/-- Non-RGB colours (default, indexed) are returned unchanged. -/
theorem asIndex_id (c : Color) (h : isRGB c = false) : asIndex c = c := by
  simp [asIndex, asIndexWith, h]

/-- **Nearest entry.** For every direct colour the result is `IndexColor(16+i)` with `i < 240`
    and entry `i` of the xterm palette minimises the library's weighted squared distance
    (computed exactly, no wrap-around) over the whole palette. -/
theorem asIndex_nearest (c : Color) (h : isRGB c = true) :
    ∃ i, i < 240 ∧ asIndex c = indexColor (16 + i) ∧
      ∃ v, Spec.Palette.xtermPalette[i]? = some v ∧
        ∀ v' ∈ Spec.Palette.xtermPalette, score c v ≤ score c v' := by
  have hne : Gen.Palette.palette ≠ [] := by rw [palette_is_xterm]; decide +kernel
  obtain ⟨i, s, hi, harg⟩ := argmin_spec (scoreWith Gen.Palette.diffSigned weights c) Gen.Palette.palette hne
  have hlt := argmin_index_lt _ _ _ _ harg
  have hlen : Gen.Palette.palette.length = 240 := by rw [palette_is_xterm]; simp [Spec.Palette.xtermPalette]
  rw [hlen] at hlt
  refine ⟨i, hlt, ?_, ?_⟩
  · simp only [asIndex, asIndexWith, h, hi]
    have : (i + 16) % 256 = 16 + i := by omega
    simp [this]
  · obtain ⟨⟨v, hv, hs⟩, hmin⟩ := harg
    rw [diff_is_signed] at hs hmin
    rw [palette_is_xterm] at hv hmin
    exact ⟨v, hv, fun v' hv' => by simpa [score, hs] using hmin v' hv'⟩

/-- The result of `asIndex` on a direct colour carries the indexed flag and an index in 16..255,
    so `Params` yields a single palette index. -/
theorem asIndex_params (c : Color) (h : isRGB c = true) :
    ∃ i, 16 ≤ i ∧ i ≤ 255 ∧ params (asIndex c) = [i] := by
  obtain ⟨i, hi, he, _⟩ := asIndex_nearest c h
  refine ⟨16 + i, by omega, by omega, ?_⟩
  rw [he]
  have h1 : isIndexed (indexColor (16 + i)) = true := by
    simp only [isIndexed, indexColor, indexedBit, Gen.Palette.indexedShift]
    have : (16 + i + 2 ^ 24) / 2 ^ 24 = 1 := by omega
    simp [this]
  have h2 : (indexColor (16 + i)) % 256 = 16 + i := by
    show ((16 + i + 2 ^ 24 : Nat) % 256 = 16 + i)
    omega
  simp only [params, h1, h2]; rfl

-- Non-vacuity: a concrete direct colour, and its image.
example : isRGB (rgbColor 1 0 0) = true := by decide

end VaxisModel.Props.C07
