/-
C07 — Only advertised terminal features are used; fallbacks are faithful.
Property theorems only (helper lemmas live in Lemmas/).

Part 1 (this section): colour fallback.  "a direct colour being mapped to the palette entry
(16-255) nearest to it under the library's weighted distance".
-/
import VaxisModel.Model.Color
import VaxisModel.Model.Width
import VaxisModel.Spec.Palette
import VaxisModel.Lemmas.Argmin
import VaxisModel.Lemmas.RenderGate
import VaxisModel.Lemmas.C07GateChunk0
import VaxisModel.Lemmas.C07GateChunk1
import VaxisModel.Lemmas.C07GateChunk2
import VaxisModel.Lemmas.C07GateChunk3
import VaxisModel.Lemmas.C07GateChunk4
import VaxisModel.Lemmas.C07GateChunk5
import VaxisModel.Lemmas.C07GateChunk6
import VaxisModel.Lemmas.C07GateChunk7

namespace VaxisModel.Props.C07
open VaxisModel.Model.Color VaxisModel.Lemmas

/-- The table in color.go is the xterm palette (entries 16..255) — re-checked against the
    regenerated table on every run. -/
theorem palette_is_xterm : Gen.Palette.palette = Spec.Palette.xtermPalette := by decide +kernel

/-- The channel differences are computed without `uint8` wrap-around. -/
theorem diff_is_signed : Gen.Palette.diffSigned = true := by decide

/-- All three weights are positive (it is a distance on all three channels). -/
theorem weights_pos : 0 < weights.1 ∧ 0 < weights.2.1 ∧ 0 < weights.2.2 := by decide

/-- Non-RGB colours (default, indexed) are returned unchanged. -/
theorem asIndex_id (c : Color) (h : isRGB c = false) : asIndex c = c := by
  simp [asIndex, asIndexWith, h]

/-- **Nearest entry.** For every direct colour the result is `IndexColor(16+i)` with `i < 240`
    and entry `i` of the xterm palette minimises the library's weighted squared distance
    (computed exactly, no wrap-around) over the whole palette. -/
theorem asIndex_nearest (c : Color) (h : isRGB c = true) :
    ∃ i, i < 240 ∧ asIndex c = indexColor (16 + i) ∧
      ∃ v, Spec.Palette.xtermPalette[i]? = some v ∧
        ∀ v' ∈ Spec.Palette.xtermPalette, score c v ≤ score c v' := by
  have hne : Gen.Palette.palette ≠ [] := by rw [palette_is_xterm]; decide +kernel
  obtain ⟨i, s, hi, harg⟩ := argmin_spec (scoreWith Gen.Palette.diffSigned weights c) Gen.Palette.palette hne
  have hlt := argmin_index_lt _ _ _ _ harg
  have hlen : Gen.Palette.palette.length = 240 := by rw [palette_is_xterm]; simp [Spec.Palette.xtermPalette]
  rw [hlen] at hlt
  refine ⟨i, hlt, ?_, ?_⟩
  · simp only [asIndex, asIndexWith, h, hi]
    have : (i + 16) % 256 = 16 + i := by omega
    simp [this]
  · obtain ⟨⟨v, hv, hs⟩, hmin⟩ := harg
    rw [diff_is_signed] at hs hmin
    rw [palette_is_xterm] at hv hmin
    exact ⟨v, hv, fun v' hv' => by simpa [score, hs] using hmin v' hv'⟩

/-- The result of `asIndex` on a direct colour carries the indexed flag and an index in 16..255,
    so `Params` yields a single palette index. -/
theorem asIndex_params (c : Color) (h : isRGB c = true) :
    ∃ i, 16 ≤ i ∧ i ≤ 255 ∧ params (asIndex c) = [i] := by
  obtain ⟨i, hi, he, _⟩ := asIndex_nearest c h
  refine ⟨16 + i, by omega, by omega, ?_⟩
  rw [he]
  have h1 : isIndexed (indexColor (16 + i)) = true := by
    simp only [isIndexed, indexColor, indexedBit, Gen.Palette.indexedShift]
    have : (16 + i + 2 ^ 24) / 2 ^ 24 = 1 := by omega
    simp [this]
  have h2 : (indexColor (16 + i)) % 256 = 16 + i := by
    show ((16 + i + 2 ^ 24 : Nat) % 256 = 16 + i)
    omega
  simp only [params, h1, h2]; rfl

-- Non-vacuity: a concrete direct colour, and its image.
example : isRGB (rgbColor 1 0 0) = true := by decide


/-! ## Part 2: only advertised features are used (vocabulary gating) -/

section gating
open VaxisModel.Model.Render VaxisModel.Lemmas.RenderGate VaxisModel.Lemmas.RenderToks

/-- **Renderer gating.** Every token any frame writes is baseline vocabulary or allowed by the
    capability set: no direct-colour SGR (38:2 / 48:2 / 58:2) without RGB support — colours are
    then palette indices —, no `4:n` / 58 / 59 without styled-underline support, no explicit-width
    text (OSC 66) unless advertised, no synchronized-output brackets unless advertised. For all
    grids, styles, widths and cursor requests. -/
theorem render_gated (cw : String → Nat) (f : Frame) :
    ∀ k ∈ (renderFrame cw f).2, allowedTok f.caps k = true := by
  have hbody : ∀ k ∈ (renderBody cw f).2, allowedTok f.caps k = true := by
    intro k hk
    unfold renderBody at hk
    simp only [List.mem_append] at hk
    rcases hk with (hk | hk) | hk
    · refine renderRows_allowed cw f.caps f.refresh f.next f.last 0 _ ?_ k hk
      intro k' hk'
      simp only at hk'
      split at hk' <;> simp at hk'
      subst hk'; rfl
    · simp at hk; rw [hk.2]; rfl
    · split at hk
      · simp [showCursorToks] at hk
        rcases hk with rfl | rfl | rfl <;> rfl
      · simp at hk
  intro k hk
  unfold renderFrame flush at hk
  simp only at hk
  split at hk
  · repeat' split at hk
    all_goals simp [showCursorToks] at hk
    all_goals (first | (subst hk; rfl) | (rcases hk with rfl | rfl | rfl <;> rfl))
  · simp only [List.mem_append, List.mem_singleton] at hk
    rcases hk with ((((hk | hk) | hk) | hk) | hk) | hk
    · split at hk <;> simp at hk
      subst hk; rfl
    · split at hk
      · rename_i hs; simp at hk; subst hk; simp [allowedTok, hs]
      · simp at hk
    · exact hbody k hk
    · subst hk; simp [allowedTok]
    · split at hk
      · simp [showCursorToks] at hk
        rcases hk with rfl | rfl | rfl <;> rfl
      · simp at hk
    · split at hk
      · rename_i hs; simp at hk; subst hk; simp [allowedTok, hs]
      · simp at hk

/-- Without RGB support a direct colour is sent as exactly one palette index in 16..255 (the
    nearest entry, by `asIndex_nearest`), and default / indexed colours are sent unchanged. -/
theorem no_rgb_means_indexed (caps : Caps) (h : caps.rgb = false) (c : Color) :
    (isRGB c = true → ∃ i, 16 ≤ i ∧ i ≤ 255 ∧ effParams caps c = [i]) ∧
    (isRGB c = false → effParams caps c = params c) := by
  unfold effParams
  simp only [h, Bool.false_eq_true, if_false]
  exact ⟨fun hr => asIndex_params c hr, fun hr => by rw [asIndex_id c hr]⟩

end gating

section lifecycle_gating
open VaxisModel.Lemmas.C07Gate VaxisModel.Lemmas.C04Check

private theorem range_sound (lo : Nat) (h : gateRange lo 64 = true) : ∀ m, lo ≤ m → m < lo + 64 → gatedB m = true := by
  intro m h1 h2
  unfold gateRange at h
  rw [List.all_eq_true] at h
  have := h (m - lo) (by simp; omega)
  have e : lo + (m - lo) = m := by omega
  rwa [e] at this

/-- **Lifecycle gating.** For every assignment of the capability/option variables, everything
    written after the device-attributes reply by start-up (alternate screen + enableModes),
    Suspend and Resume is baseline vocabulary or gated by an advertised capability: kitty keyboard
    push/pop ⇒ kittyKeyboard; 2027 ⇒ unicodeCore ∧ ¬explicitWidth; 8452 ⇒ sixel; 2031 and DSR 996 ⇒
    colour-scheme reports; 2048 ⇒ in-band resize; 2026 ⇒ synchronized output; OSC 176 ⇒ osc176.
    (Interpreted from the statement lists regenerated from vaxis.go.) -/
theorem lifecycle_gated (m : Nat) (hm : m < 512) : gatedB m = true := by
  rcases (by omega : (0 ≤ m ∧ m < 64) ∨ (64 ≤ m ∧ m < 128) ∨ (128 ≤ m ∧ m < 192) ∨ (192 ≤ m ∧ m < 256) ∨ (256 ≤ m ∧ m < 320) ∨ (320 ≤ m ∧ m < 384) ∨ (384 ≤ m ∧ m < 448) ∨ (448 ≤ m ∧ m < 512)) with h | h | h | h | h | h | h | h
  · exact range_sound 0 gate_chunk0 m (by omega) (by omega)
  · exact range_sound 64 gate_chunk1 m (by omega) (by omega)
  · exact range_sound 128 gate_chunk2 m (by omega) (by omega)
  · exact range_sound 192 gate_chunk3 m (by omega) (by omega)
  · exact range_sound 256 gate_chunk4 m (by omega) (by omega)
  · exact range_sound 320 gate_chunk5 m (by omega) (by omega)
  · exact range_sound 384 gate_chunk6 m (by omega) (by omega)
  · exact range_sound 448 gate_chunk7 m (by omega) (by omega)

end lifecycle_gating

/-! ## Part 3: width method -/

open VaxisModel.Model.Width

/-- Graphemes are measured by Unicode grapheme width exactly when the terminal advertised
    Unicode-core mode or explicit-width text (it then renders clusters at that width), and by the
    per-code-point `wcwidth` sum exactly when it advertised neither and has no ZWJ quirk. -/
theorem width_method (u e z : Bool) :
    (widthMethod u e z = .unicodeStd ↔ (u = true ∨ e = true)) ∧
    (widthMethod u e z = .wcwidth ↔ (u = false ∧ e = false ∧ z = false)) := by
  cases u <;> cases e <;> cases z <;> simp [widthMethod]

end VaxisModel.Props.C07
