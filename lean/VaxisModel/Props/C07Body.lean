/-
C07 × C03, round 4 — the capability theorems over the body of `handleSequence` as regenerated from the
source (`Gen/InputBody.lean`, executed by `Model/InputBody.lean`): composition of
`Props/C03Body.handleSequence_body_eq_model` with `Props/C07Caps.reply_notices_exact`.
-/
import VaxisModel.Props.C03Body
import VaxisModel.Props.C07Caps

namespace VaxisModel.Props.C07Body
open VaxisModel.Model.Input VaxisModel.Model.InputBody VaxisModel.Model.InputLoop
open VaxisModel.Spec.Startup VaxisModel.Lemmas.StartupSeq

/-- **Per reply, on the interpreted source.**  Whatever the state, the decoder and the sequence: if
the regenerated body of `handleSequence` runs to its end, the capability notifications it posts are
exactly those the reply shape stands for by the protocols (`Spec/Startup.notices`), in order, minus
the three it does not repeat once the capability is known — and it never writes the capability
record.  (`reply_notices_exact` is the same statement over the hand transcription.) -/
theorem reply_notices_exact_body (b64 : List Nat → Option (List Nat)) (st st' : VState) (s : Seq) (keffs : List KEff)
    (h : runHs b64 st s = .ok (st', keffs)) :
    (VaxisModel.Lemmas.InputEvents.posted (keffs.map (·.1))).filter isNotice = (notices s).filter (fun e => !known st.caps e) ∧
    st'.caps = st.caps := by
  rw [VaxisModel.Props.C03Body.handleSequence_body_eq_model] at h
  cases hh : handle b64 st s with
  | error e => simp [hh, ofModel] at h
  | ok r =>
    obtain ⟨v, effs⟩ := r
    simp only [hh, ofModel, Except.ok.injEq, Prod.mk.injEq] at h
    obtain ⟨rfl, rfl⟩ := h
    have := VaxisModel.Props.C07Caps.reply_notices_exact b64 st v s effs hh
    simpa [List.map_map, Function.comp_def] using this

/-- **An unadvertised capability is never announced by the interpreted source**: a notification
posted by the regenerated body for a sequence is one of those the sequence stands for. -/
theorem body_announces_only_advertised (b64 : List Nat → Option (List Nat)) (st st' : VState) (s : Seq) (keffs : List KEff)
    (h : runHs b64 st s = .ok (st', keffs)) (e : Event)
    (he : e ∈ (VaxisModel.Lemmas.InputEvents.posted (keffs.map (·.1))).filter isNotice) : e ∈ notices s := by
  rw [(reply_notices_exact_body b64 st st' s keffs h).1] at he
  exact (List.mem_filter.mp he).1

/-- **The start-up LTS runs the regenerated body.**  The `.input` label of the start-up system of
`vaxis.New` (`Model/Startup.lean`, over which `caps_exact`, `caps_sound`, `startup_completes` and
`caps_exact_attained*` are proved) is: the goroutine at its `select` takes the sequence, the
regenerated body of `handleSequence` is run on it (`Model/InputBody.runHs`), its effects become the
pending effects, the sequence is recorded — so those theorems are statements about the source as
extracted, not only about its hand transcription. -/
theorem startup_input_is_body (p : Params) (o : VaxisModel.Spec.Startup.Opts) (st : VaxisModel.Model.Startup.St) (q : Seq)
    (h : st.sys.pend = []) :
    VaxisModel.Model.Startup.next p o st (.input q) =
      match runHs p.b64 st.sys.vs q with
      | .ok (vs, keffs) => some (.ok { st with sys := { st.sys with vs := vs, pend := keffs.map (·.1) }, ins := st.ins ++ [q] })
      | .error _ => some (.error .indexOutOfRange) := by
  simp only [VaxisModel.Model.Startup.next, VaxisModel.Props.C03Body.lts_input_is_body p st.sys q h]
  cases runHs p.b64 st.sys.vs q with
  | error e => rfl
  | ok r => rfl

end VaxisModel.Props.C07Body
