import VaxisModel.Lemmas.Startup
import VaxisModel.Lemmas.StartupLive
import VaxisModel.Model.StartupGen
import VaxisModel.Gen.Startup

/-!
# C07 (capability detection) — "the capabilities Vaxis reports are exactly those the replies established"

Theorems over `Model/Startup.lean`: the `for`/`select` loop of `vaxis.New()` running concurrently
with the input goroutine (`Model/InputLoop.lean`, `handleSequence` = `Model/Input.lean`), the
explicit-width probe, `applyQuirks`, the `Can*` accessors.  Spec: `Spec/Startup.lean`.
-/
namespace VaxisModel.Props.C07Caps
open VaxisModel.Model.Input VaxisModel.Model.InputLoop VaxisModel.Model.Startup
open VaxisModel.Lemmas.Startup VaxisModel.Lemmas.StartupSeq
open VaxisModel.Spec.Startup

/-- Per reply: the capability notifications `handleSequence` posts for a parsed sequence (in any
state, if it does not panic) are exactly those the reply shape stands for, in order, minus the
three it does not repeat once the capability is known; and `handleSequence` never writes the
capability record. -/
theorem reply_notices_exact (b64 : List Nat → Option (List Nat)) (st st' : VState) (s : Seq) (effs : List Effect)
    (h : handle b64 st s = .ok (st', effs)) :
    (VaxisModel.Lemmas.InputEvents.posted effs).filter isNotice = (notices s).filter (fun e => !known st.caps e) ∧
    st'.caps = st.caps :=
  handle_notices b64 st s st' effs h

private theorem bool_eq {a b : Bool} (h1 : a = true → b = true) (h2 : b = true → a = true) : a = b := by
  cases a <;> cases b <;> simp_all

/-- `applyQuirks` without environment overrides: only the terminal's identification matters. -/
theorem quirks_unset (o : Opts) (henv : o.envUnset = true) (tid : List Nat) (c : Caps) :
    applyQuirks o tid c =
      if startsWith (ascii "kitty") tid then { c with noZWJ := true }
      else if tid == ascii "tmux 3.4" then { c with unicodeCore := true } else c := by
  simp only [Opts.envUnset, Bool.and_eq_true, Bool.not_eq_true'] at henv
  obtain ⟨⟨⟨e1, e2⟩, e3⟩, e4⟩ := henv
  unfold applyQuirks
  simp only [e1, e2, e3, e4, isPrefix_eq]
  rfl

/-- **caps_exact.**  For every run of the start-up system — any sequences from the terminal (replies
in any order, repeated, unsolicited, malformed, interleaved with user input), any interleaving of
the input goroutine with `New`, any queue capacity, the probe answered or timed out — that ends
with `New` past `applyQuirks`, the loop having ended by the DA1 notification (not by its 3 s
time-out), no non-blocking post dropped, no environment override:
the inputs split as `A ++ d :: B` with `d` the first DA1 reply, and the capability record is
exactly `specCaps` of the replies `A ++ [d]` — each flag is set iff a reply advertising it was
received up to DA1 (DA1's own sixel attribute included), `explicitWidth` iff the probe was answered
with column 2, `noZWJ`/`unicodeCore` as the terminal's identification says, nothing else. -/
theorem caps_exact (p : Params) (o : Opts) (ls : List VaxisModel.Model.Startup.Label) (st : St)
    (hrun : VaxisModel.Model.Startup.run p o (St.init o) ls = some st)
    (hready : st.phase = .ready) (hto : st.timedOut = false) (hdrop : st.sys.dropped = 0)
    (henv : o.envUnset = true)
    (hint : ∀ x, st.probeGot = some x → -9223372036854775808 ≤ x.2 ∧ x.2 < 9223372036854775808) :
    ∃ A d B, inputsOf ls = A ++ d :: B ∧ isDA1 d = true ∧ (∀ s ∈ A, isDA1 s = false) ∧
      st.sys.vs.caps = specCaps o (A ++ [d]) (st.probeGot.map (·.2)) := by
  have hinv := inv_run p o ls (St.init o) st (inv_init o) hrun
  have hins : st.ins = inputsOf ls := by simpa [St.init] using ins_run p o ls (St.init o) st hrun
  have hph : (view st).phase = .ready := hready
  have hcore := hinv.v.core
  rw [if_pos hph] at hcore
  obtain ⟨c0, hc, core⟩ := hcore
  obtain ⟨hseen, hdone⟩ := core.done (Or.inr hph) hto
  have hd := hdone hdrop
  have hseen : seenDA st.ins = true := hseen
  have hc : st.sys.vs.caps = applyQuirks o st.termID c0 := hc
  obtain ⟨A, d, B, h1, h2, h3, h4⟩ := insPre_split st.ins hseen
  refine ⟨A, d, B, by rw [← hins]; exact h1, h2, h3, ?_⟩
  have sI : ∀ i, hasI c0 i = true → adv (insPre st.ins) i = true ∨ (i = .truecolor ∧ o.colorterm = true) := core.sI
  have sA : c0.osc176 = true → (insPre st.ins).any (fun s => (notices s).any isAppID) = true := core.sA
  have ew : (c0.explicitWidth = true ↔ ∃ x, st.probeGot = some x ∧ wrap64 (x.2 - 1) = 1) ∧ c0.noZWJ = false := core.ew
  have dk := core.dk
  have cI : ∀ i, i ≠ .primaryDeviceAttribute → adv (insPre st.ins) i = true →
      hasI c0 i = true ∨ (i = .kittyKeyboard ∧ o.disableKitty = true) := hd.cI
  have cT := hd.cT
  have cA : (insPre st.ins).any (fun s => (notices s).any isAppID) = true → c0.osc176 = true := hd.cA
  have tid : st.termID = termIDOf (insPre st.ins) := hd.tid
  rw [h4] at sI sA cI cA tid
  -- per-flag equalities for the record the loop left behind
  have flag : ∀ i, i ≠ .primaryDeviceAttribute → i ≠ .kittyKeyboard → i ≠ .truecolor → hasI c0 i = adv (A ++ [d]) i := by
    intro i n1 n2 n3
    apply bool_eq
    · intro h; rcases sI i h with h | h
      · exact h
      · exact absurd h.1 n3
    · intro h; rcases cI i n1 h with h | h
      · exact h
      · exact absurd h.1 n2
  have hk : c0.kittyKeyboard = (adv (A ++ [d]) .kittyKeyboard && !o.disableKitty) := by
    cases hdk : o.disableKitty
    · simp only [Bool.not_false, Bool.and_true]
      apply bool_eq
      · intro h; rcases sI .kittyKeyboard h with h | h
        · exact h
        · exact absurd h.1 (by decide)
      · intro h; rcases cI .kittyKeyboard (by decide) h with h | h
        · exact h
        · rw [hdk] at h; exact absurd h.2 (by decide)
    · simp [dk hdk]
  have hrgb : c0.rgb = (adv (A ++ [d]) .truecolor || o.colorterm) := by
    apply bool_eq
    · intro h; rcases sI .truecolor h with h | h
      · simp [h]
      · simp [h.2]
    · intro h
      rcases Bool.or_eq_true _ _ |>.mp h with h | h
      · rcases cI .truecolor (by decide) h with h | h
        · exact h
        · exact absurd h.1 (by decide)
      · exact cT h
  have h176 : c0.osc176 = ((A ++ [d]).any fun s => (notices s).any isAppID) := bool_eq sA cA
  have hew : c0.explicitWidth = (st.probeGot.map (·.2) == some 2) := by
    apply bool_eq
    · intro h
      obtain ⟨x, hx, hw⟩ := ew.1.mp h
      have hr := hint x hx
      rw [hx]; simp [(wrap64_probe x.2 hr.1 hr.2).mp hw]
    · intro h
      cases hx : st.probeGot with
      | none => simp [hx] at h
      | some x =>
        simp [hx] at h
        have hr := hint x hx
        exact ew.1.mpr ⟨x, hx, (wrap64_probe x.2 hr.1 hr.2).mpr h⟩
  have hz : c0.noZWJ = false := ew.2
  rw [hc, quirks_unset o henv, tid]
  have f1 := flag .synchronizedUpdates (by decide) (by decide) (by decide)
  have f2 := flag .unicodeCoreCap (by decide) (by decide) (by decide)
  have f3 := flag .kittyGraphics (by decide) (by decide) (by decide)
  have f4 := flag .styledUnderlines (by decide) (by decide) (by decide)
  have f5 := flag .capabilitySixel (by decide) (by decide) (by decide)
  have f6 := flag .notifyColorChange (by decide) (by decide) (by decide)
  have f7 := flag .textAreaChar (by decide) (by decide) (by decide)
  have f8 := flag .textAreaPix (by decide) (by decide) (by decide)
  have f9 := flag .capabilityOsc4 (by decide) (by decide) (by decide)
  have f10 := flag .capabilityOsc10 (by decide) (by decide) (by decide)
  have f11 := flag .capabilityOsc11 (by decide) (by decide) (by decide)
  have f12 := flag .inBandResizeEvents (by decide) (by decide) (by decide)
  simp only [hasI] at f1 f2 f3 f4 f5 f6 f7 f8 f9 f10 f11 f12
  obtain ⟨a1, a2, a3, a4, a5, a6, a7, a8, a9, a10, a11, a12, a13, a14, a15, a16, a17⟩ := c0
  simp only at f1 f2 f3 f4 f5 f6 f7 f8 f9 f10 f11 f12 hk hrgb h176 hew hz
  subst f1 f2 f3 f4 f5 f6 f7 f8 f9 f10 f11 f12 hk hrgb h176 hew hz
  simp only [specCaps]
  cases hkit : startsWith (ascii "kitty") (termIDOf (A ++ [d])) <;>
  cases htm : (termIDOf (A ++ [d]) == ascii "tmux 3.4") <;>
  simp

/-- **The start-up can always complete** — the hypotheses of `caps_exact` are satisfiable for
*every* reply stream: for every queue capacity ≥ 1, every base64 decoder, the send kinds of the
current source, every list `A` of sequences the parser can deliver without a DA1 reply and every
DA1 reply `d`, there is a run of the start-up system (here: the probe times out, then the loop of
`New` receives whenever the goroutine would otherwise block or drop) that handles exactly
`A ++ [d]` and ends `ready`, the loop ended by the DA1 notification, nothing dropped. -/
theorem startup_completes (qcap : Nat) (hq : 0 < qcap) (b64 : List Nat → Option (List Nat)) (o : Opts)
    (A : List Seq) (d : Seq) (hw : ∀ s ∈ A ++ [d], VaxisModel.Lemmas.Input.WfSeq s)
    (hA : ∀ s ∈ A, isDA1 s = false) (hd : isDA1 d = true) :
    ∃ ls st, inputsOf ls = A ++ [d] ∧
      VaxisModel.Model.Startup.run { qcap := qcap, kinds := Kinds.ofGen, b64 := b64 } o (St.init o) ls = some st ∧
      st.phase = .ready ∧ st.timedOut = false ∧ st.sys.dropped = 0 ∧ st.probeGot = none := by
  have hk : VaxisModel.Lemmas.InputLoop.Kinds.safe Kinds.ofGen := by
    have e : Kinds.ofGen = ⟨.nonblocking, .nonblocking, .nonblocking, .nonblocking, .nonblocking, .timeout⟩ := by decide
    rw [e]; simp [VaxisModel.Lemmas.InputLoop.Kinds.safe]
  exact VaxisModel.Lemmas.StartupLive.startup_completes { qcap := qcap, kinds := Kinds.ofGen, b64 := b64 } o hq hk A d hw hA hd

/-- **caps_exact is attained**: for every such stream there is a complete start-up whose
capability record is exactly `specCaps` of the stream (probe unanswered) — each flag set iff a
reply advertising it is in `A ++ [d]`. -/
theorem caps_exact_attained (qcap : Nat) (hq : 0 < qcap) (b64 : List Nat → Option (List Nat)) (o : Opts)
    (henv : o.envUnset = true) (A : List Seq) (d : Seq) (hw : ∀ s ∈ A ++ [d], VaxisModel.Lemmas.Input.WfSeq s)
    (hA : ∀ s ∈ A, isDA1 s = false) (hd : isDA1 d = true) :
    ∃ ls st, inputsOf ls = A ++ [d] ∧
      VaxisModel.Model.Startup.run { qcap := qcap, kinds := Kinds.ofGen, b64 := b64 } o (St.init o) ls = some st ∧
      st.phase = .ready ∧ st.sys.vs.caps = specCaps o (A ++ [d]) none := by
  obtain ⟨ls, st, hi, hr, hph, hto, hdr, hpg⟩ := startup_completes qcap hq b64 o A d hw hA hd
  obtain ⟨A', d', B, hs, hd', hA', hc⟩ := caps_exact _ o ls st hr hph hto hdr henv (by intro x hx; rw [hpg] at hx; cases hx)
  rw [hi] at hs
  obtain ⟨e1, e2, _⟩ := VaxisModel.Lemmas.StartupLive.split_unique A A' B d d' hs hA hd hA' hd'
  refine ⟨ls, st, hi, hr, hph, ?_⟩
  rw [hc, e1, e2, hpg]; rfl

/-- **… also with the probe answered**: for every cursor-position report `CSI r;c R` arriving first
(handed to the `CursorPosition()` of the explicit-width probe) followed by any such stream, there is
a complete start-up whose record is `specCaps` of everything received with the probe's column `c` —
in particular `explicitWidth` is set iff `c = 2`. -/
theorem caps_exact_attained_probe (qcap : Nat) (hq : 0 < qcap) (b64 : List Nat → Option (List Nat)) (o : Opts)
    (henv : o.envUnset = true) (r c : Int) (hc : -9223372036854775808 ≤ c ∧ c < 9223372036854775808)
    (A : List Seq) (d : Seq) (hw : ∀ s ∈ A ++ [d], VaxisModel.Lemmas.Input.WfSeq s)
    (hA : ∀ s ∈ A, isDA1 s = false) (hd : isDA1 d = true) :
    ∃ ls st, inputsOf ls = .csi [] [[r], [c]] 82 :: (A ++ [d]) ∧
      VaxisModel.Model.Startup.run { qcap := qcap, kinds := Kinds.ofGen, b64 := b64 } o (St.init o) ls = some st ∧
      st.phase = .ready ∧ st.sys.vs.caps = specCaps o (.csi [] [[r], [c]] 82 :: (A ++ [d])) (some c) := by
  have e : Kinds.ofGen = ⟨.nonblocking, .nonblocking, .nonblocking, .nonblocking, .nonblocking, .timeout⟩ := by decide
  have hk : VaxisModel.Lemmas.InputLoop.Kinds.safe Kinds.ofGen := by
    rw [e]; simp [VaxisModel.Lemmas.InputLoop.Kinds.safe]
  have hcap : cursorCapGen = 1 := by decide
  obtain ⟨ls, st, hi, hr, hph, hto, hdr, hpg⟩ :=
    VaxisModel.Lemmas.StartupLive.startup_completes_answered { qcap := qcap, kinds := Kinds.ofGen, b64 := b64 } o hq hk hcap
      (by rw [e]) r c A d hw hA hd
  obtain ⟨A', d', B, hs, hd', hA', hcaps⟩ := caps_exact _ o ls st hr hph hto hdr henv
    (by intro x hx; rw [hpg] at hx; cases hx; exact hc)
  rw [hi] at hs
  have hcpr : isDA1 (.csi [] [[r], [c]] 82) = false := by
    simp [isDA1, notices, noticesCSI]
  obtain ⟨e1, e2, _⟩ := VaxisModel.Lemmas.StartupLive.split_unique (.csi [] [[r], [c]] 82 :: A) A' B d d' (by simpa using hs)
    (by intro s hs'; rcases List.mem_cons.mp hs' with h | h
        · rw [h]; exact hcpr
        · exact hA s h) hd hA' hd'
  refine ⟨ls, st, hi, hr, hph, ?_⟩
  rw [hcaps, e1, e2, hpg]; rfl

/-- **caps_sound** (no side conditions): at every state a run can reach before `applyQuirks` —
whether the loop is still running, ended by DA1 or by its time-out, whatever was dropped — every
capability flag that is set was advertised by a reply received no later than the first DA1 reply
(or is RGB by `COLORTERM`); `explicitWidth` is set only if the probe's answer was in hand; `noZWJ`
is not set. -/
theorem caps_sound (p : Params) (o : Opts) (ls : List VaxisModel.Model.Startup.Label) (st : St)
    (hrun : VaxisModel.Model.Startup.run p o (St.init o) ls = some st) (hph : st.phase ≠ .ready) :
    (∀ i, hasI st.sys.vs.caps i = true → adv (insPre (inputsOf ls)) i = true ∨ (i = .truecolor ∧ o.colorterm = true)) ∧
    (st.sys.vs.caps.osc176 = true → (insPre (inputsOf ls)).any (fun s => (notices s).any isAppID) = true) ∧
    (st.sys.vs.caps.explicitWidth = true → ∃ x, st.probeGot = some x ∧ wrap64 (x.2 - 1) = 1) ∧
    st.sys.vs.caps.noZWJ = false := by
  have hinv := inv_run p o ls (St.init o) st (inv_init o) hrun
  have hins : st.ins = inputsOf ls := by simpa [St.init] using ins_run p o ls (St.init o) st hrun
  have hcore := hinv.v.core
  have hph' : ¬ (view st).phase = .ready := hph
  rw [if_neg hph'] at hcore
  rw [← hins]
  exact ⟨hcore.sI, hcore.sA, hcore.ew.1.mp, hcore.ew.2⟩

/-- The `Can*` accessors return the detected flags (`CanDisplayGraphics` = sixel or kitty graphics). -/
theorem can_accessors (c : Caps) :
    canOf c = { rgb := c.rgb, kittyGraphics := c.kittyGraphics, sixel := c.sixels, reportColor := c.osc4,
                reportFg := c.osc10, reportBg := c.osc11, displayGraphics := c.sixels || c.kittyGraphics,
                setAppID := c.osc176, unicodeCore := c.unicodeCore, explicitWidth := c.explicitWidth } := rfl

/-! Non-vacuity: a terminal that answers DECRQM 2026, the probe with column 2, OSC 11 twice, a
negative XTGETTCAP, XTVERSION "kitty", then DA1 with the sixel attribute; the goroutine and `New`
interleave; one user key arrives in between.  The run exists, ends `ready`, nothing is dropped,
and the record is the spec's. -/
def exP : Params := { qcap := 4, kinds := Kinds.ofGen, b64 := fun _ => none }

def exLabels : List VaxisModel.Model.Startup.Label :=
  [.input (.csi [63] [[2026], [2]] 121), .step, .input (.csi [] [[1], [2]] 82), .step, .probeRecv, .loopRecv,
   .input (.osc (ascii "11;rgb:0/0/0")), .step, .input (.print [97] 1), .step, .loopRecv, .loopRecv,
   .input (.osc (ascii "11;rgb:0/0/0")), .step, .step,
   .input (.dcs 114 [43] [0] (ascii "524742")), .input (.dcs 124 [62] [] (ascii "kitty 0.31")), .step,
   .input (.csi [63] [[62], [4]] 99), .step, .step, .loopRecv, .loopRecv, .loopRecv, .loopRecv, .quirks]

example :
    (match VaxisModel.Model.Startup.run exP {} (St.init {}) exLabels with
     | some st => st.phase == .ready && !st.timedOut && st.sys.dropped == 0 &&
         st.sys.vs.caps == ({ synchronizedUpdate := true, osc11 := true, sixels := true, noZWJ := true, explicitWidth := true } : Caps) &&
         st.sys.vs.caps == specCaps {} ((inputsOf exLabels).take 8) (st.probeGot.map (·.2))
     | none => false) = true := by decide +kernel

/-! ## Tie to the source (`Gen/Caps.lean`, `Gen/Startup.lean`, regenerated on every run) -/

/-- The event types of the loop's type switch, in source order, as model events. -/
def loopEvents : List (String × Event) :=
  [("primaryDeviceAttribute", .internal .primaryDeviceAttribute), ("capabilitySixel", .internal .capabilitySixel),
   ("capabilityOsc4", .internal .capabilityOsc4), ("capabilityOsc10", .internal .capabilityOsc10),
   ("capabilityOsc11", .internal .capabilityOsc11), ("synchronizedUpdates", .internal .synchronizedUpdates),
   ("unicodeCoreCap", .internal .unicodeCoreCap), ("notifyColorChange", .internal .notifyColorChange),
   ("kittyKeyboard", .internal .kittyKeyboard), ("styledUnderlines", .internal .styledUnderlines),
   ("truecolor", .internal .truecolor), ("kittyGraphics", .internal .kittyGraphics), ("textAreaPix", .internal .textAreaPix),
   ("textAreaChar", .internal .textAreaChar), ("appID", .appID [120]), ("terminalID", .terminalID [120]),
   ("inBandResizeEvents", .internal .inBandResizeEvents)]

/-- What the model's loop arm does for an event: capability fields set, whether the loop ends,
whether `appIDLast` / `termID` are stored, whether `DisableKittyKeyboard` suppresses it. -/
def armOf (e : Event) : List String × List String :=
  match collectEv {} {} [] [] e with
  | none => ([], ["break outer"])
  | some (c, tid, aid) =>
    (Caps.diff {} c,
     (if (collectEv { disableKitty := true } {} [] [] e).map (·.1) == some {} && c != {} then ["if opts.DisableKittyKeyboard", "continue"] else []) ++
     (if aid != [] then ["vx.appIDLast = ev"] else []) ++ (if tid != [] then ["vx.termID = ev"] else []))

/-- The type switch of `New`'s loop is the one the model transcribes: same event types in the same
order, each setting exactly the capability fields `collectEv` sets, with the same extra statements
(`break outer`, the `DisableKittyKeyboard` guard, `appIDLast`/`termID`); the only other statements
are the two `graphicsProtocol` upgrades. -/
theorem facts_loop :
    (Gen.Caps.collect.map fun x => (x.1, x.2.1, x.2.2.filter fun s =>
        !["if vx.graphicsProtocol < sixelGraphics", "vx.graphicsProtocol = sixelGraphics", "if vx.graphicsProtocol < kitty",
          "vx.graphicsProtocol = kitty"].contains s))
      = loopEvents.map (fun x => (x.1, (armOf x.2).1, (armOf x.2).2)) ∧
    Gen.Startup.loopLabel = "outer" ∧ Gen.Startup.beforeLoop = "vx.sendQueries()" ∧
    Gen.Startup.loopSelect = [("<-ctx.Done()", ["log", "break outer"]), ("ev := <-vx.queue", ["switch ev := ev.(type)"])] := by
  decide +kernel

/-- Every field name and statement in the regenerated table of the loop's type switch is one the
interpreter `Model.StartupGen.collectEvWith` executes (nothing degrades to "unknown"). -/
theorem loop_table_recognised : VaxisModel.Model.StartupGen.recognised Gen.Caps.collect = true := by decide +kernel

/-- **The loop's type switch is interpreted from the source**: for every option set, capability
record, stored identifiers and event, the transition the start-up LTS takes (`collectEv`, over which
`caps_exact` is proved) is the result of *executing the regenerated table* `Gen.Caps.collect`
(look the event type up; `break outer`; the `DisableKittyKeyboard` guard; set the listed fields;
store the payload). A change of an arm in vaxis.go changes `collectEvGen` and this theorem stops
checking. -/
theorem loop_interpreted (o : Opts) (c : Caps) (tid aid : List Nat) (e : Event) :
    VaxisModel.Model.StartupGen.collectEvGen o c tid aid e = collectEv o c tid aid e := by
  open VaxisModel.Model.StartupGen in
  cases e with
  | internal i =>
    cases i <;> cases hk : o.disableKitty <;>
      simp [collectEvGen, collectEvWith, typeName, Internal.name, Gen.Caps.collect, collectEv, collect, setField, payload, hk]
  | appID s => simp [collectEvGen, collectEvWith, typeName, Gen.Caps.collect, collectEv, setField, payload]
  | terminalID s => simp [collectEvGen, collectEvWith, typeName, Gen.Caps.collect, collectEv, setField, payload]
  | _ => simp [collectEvGen, collectEvWith, typeName, collectEv]

/-- After the loop `New` runs `enterAltScreen`, `enableModes`, `setupSignals`, `applyQuirks` — in
this order, nothing else before `applyQuirks`. -/
theorem facts_after_loop : Gen.Startup.afterLoop =
    ["vx.enterAltScreen()", "vx.enableModes()", "if !opts.NoSignals { vx.setupSignals() }", "vx.applyQuirks()"] := by decide +kernel

/-- The explicit-width probe and the `COLORTERM` shortcut in `sendQueries`. -/
theorem facts_probe :
    Gen.Startup.probeCall = "_, col := vx.CursorPosition()" ∧ Gen.Startup.probeCond = "col == 1" ∧
    Gen.Startup.probeAssigns = ["explicitWidth = true"] ∧
    Gen.Startup.colorterm = [("\"truecolor\",\"24bit\"", ["vx.PostEvent(truecolor{})"])] := by decide +kernel

/-- "field = value" assignments a capability transformer performs (observed on the all-false and
the all-true record). -/
def capsAll : Caps :=
  { synchronizedUpdate := true, unicodeCore := true, noZWJ := true, rgb := true, kittyGraphics := true, kittyKeyboard := true,
    styledUnderlines := true, sixels := true, colorThemeUpdates := true, reportSizeChars := true, reportSizePixels := true,
    osc4 := true, osc10 := true, osc11 := true, osc176 := true, inBandResize := true, explicitWidth := true }

def assignsOf (f : Caps → Caps) : List String :=
  (Caps.fieldNames.zip ((f {}).toList.zip (f capsAll).toList)).filterMap fun (n, (a, b)) =>
    if a && b then some (n ++ " = true") else if !a && !b then some (n ++ " = false") else none

def sameSet (a b : List String) : Bool := a.all (b.contains ·) && b.all (a.contains ·)

/-- `applyQuirks` is the one the model transcribes: the two terminal-id arms and the
environment-guarded blocks, in order, assign exactly the capability fields the model assigns. -/
theorem facts_quirks :
    Gen.Startup.quirksFirst = "id := string(vx.termID)" ∧
    Gen.Startup.quirksSwitch.map (·.1) = ["strings.HasPrefix(id, \"kitty\")", "id == \"tmux 3.4\""] ∧
    (((Gen.Startup.quirksSwitch.map (·.2)).zip
      [assignsOf (applyQuirks {} (ascii "kitty 0.31")), assignsOf (applyQuirks {} (ascii "tmux 3.4"))]).all (fun x => sameSet x.1 x.2)) = true ∧
    Gen.Startup.quirksEnv.map (·.1) = ["os.Getenv(\"ASCIINEMA_REC\") != \"\"", "os.Getenv(\"VAXIS_FORCE_LEGACY_SGR\") != \"\"",
      "os.Getenv(\"VAXIS_FORCE_WCWIDTH\") != \"\"", "os.Getenv(\"VAXIS_FORCE_UNICODE\") != \"\"",
      "os.Getenv(\"VAXIS_FORCE_NOZWJ\") != \"\"", "os.Getenv(\"VAXIS_DISABLE_NOZWJ\") != \"\"",
      "os.Getenv(\"VAXIS_FORCE_XTWINOPS\") != \"\""] ∧
    (((Gen.Startup.quirksEnv.map (·.2)).zip
      [[], [], assignsOf (applyQuirks { forceWcwidth := true } []), assignsOf (applyQuirks { forceUnicode := true } []),
       assignsOf (applyQuirks { forceNoZWJ := true } []), assignsOf (applyQuirks { disableNoZWJ := true } []), []]).all
      (fun x => sameSet x.1 x.2)) = true := by
  decide +kernel

/-- Nothing else in the package writes the capability record: the loop of `New` (one field per
arm, to `true`), the probe in `sendQueries`, and `applyQuirks`. -/
theorem facts_caps_writes :
    Gen.Startup.capsWrites.all (fun w =>
      (w.startsWith "vaxis.go:New:caps." && w.endsWith " = true") || w == "vaxis.go:sendQueries:caps.explicitWidth = true" ||
      w.startsWith "quirks.go:applyQuirks:caps.") = true ∧
    (Gen.Startup.capsWrites.filter (·.startsWith "vaxis.go:New:")).length = 15 ∧
    (Gen.Startup.capsWrites.filter (·.startsWith "quirks.go:")).length = 8 := by decide +kernel

/-- The `Can*` accessors read the fields `canOf` reads. -/
theorem facts_can : Gen.Startup.canAccessors =
    [("CanRGB", "vx.caps.rgb"), ("CanKittyGraphics", "vx.caps.kittyGraphics"), ("CanSixel", "vx.caps.sixels"),
     ("CanReportColor", "vx.caps.osc4"), ("CanReportForegroundColor", "vx.caps.osc10"),
     ("CanReportBackgroundColor", "vx.caps.osc11"), ("CanDisplayGraphics", "vx.caps.sixels || vx.caps.kittyGraphics"),
     ("CanSetAppID", "vx.caps.osc176"), ("CanUnicodeCore", "vx.caps.unicodeCore"), ("CanExplicitWidth", "vx.caps.explicitWidth")] := by
  decide +kernel

end VaxisModel.Props.C07Caps
