import VaxisModel.Gen.ImageCtors
import VaxisModel.Gen.Writers
import VaxisModel.Model.ImageProto

/-!
# C07 — who can create a kitty / sixel image object, and what its buffer holds

`Props.C07Writers.request_writers_exact` says that the kitty graphics APCs and the sixel data are
written to the terminal only by methods of `KittyImage` / `Sixel`; `new_image_by_protocol` says that
`NewImage` reaches the two constructors only under the matching detected protocol.  What these two
leave open is closed here over `Gen/ImageCtors.lean` (regenerated from every non-test, non-hook file
of the root package): that no *other* code of the library creates such an object, and that the
bytes `Draw` copies from the object's buffer (`expr:k.buf.Bytes()` / `expr:s.buf.Bytes()` in the
writer list) were put there by the object's own `Resize` in its own protocol.
-/
namespace VaxisModel.Props.C07Image
open VaxisModel.Gen.ImageCtors

/-- **Only the two constructors build the objects, and inside the library only `NewImage` calls
them**: a `KittyImage` value is created in `NewKittyGraphic` and nowhere else (no other composite
literal, `new`, or variable of that type), a `Sixel` value in `NewSixel` and nowhere else; and the
only calls of these constructors in the package are the two arms of `NewImage`'s switch on the
detected protocol (`new_image_by_protocol`).  Every other way to a kitty / sixel image is the
application calling the exported constructor itself (an explicit request, like `SetAppID`). -/
theorem image_objects_only_from_constructors :
    literals = [("image.go:Vaxis.NewKittyGraphic", "KittyImage"), ("image.go:Vaxis.NewSixel", "Sixel")] ∧
    ctorCalls = [("image.go:Vaxis.NewImage", "NewSixel"), ("image.go:Vaxis.NewImage", "NewKittyGraphic")] := by
  decide +kernel

/-- **What `Draw` transmits was encoded by the same object in its own protocol**: the only writes
into an image object's buffer are the kitty transmission chunks (`ESC _ G f=100,i=…,m=… ; payload ST`)
in `KittyImage.Resize` and the sixel encoder in `Sixel.Resize`. -/
theorem image_buffers_written_by_own_type :
    bufWrites = [("KittyImage.Resize", "fmt.Fprintf lit:\x1b_Gf=100,i=%d,m=%d;%s\x1b\\"),
                 ("Sixel.Resize", "sixel.NewEncoder")] := by
  decide +kernel

/-- **Every literal of the package that opens a kitty graphics APC or a DCS**: the four APCs of
`KittyImage`'s methods, the start-up query constant `kittyGquery`, and the two DCS *queries*
(DECRQSS cursor style, XTGETTCAP) — so there is no literal sixel DCS at all (sixel data only comes
out of the encoder of `Sixel.Resize`), and no kitty graphics command outside `KittyImage` except the
query. -/
theorem image_escape_literals_exact :
    imageEscLiterals = [
      ("image.go:KittyImage.Draw", "\x1b_Ga=p,i=%d,p=%d,C=1\x1b\\"),
      ("image.go:KittyImage.Draw", "\x1b_Ga=d,d=i,i=%d,p=%d\x1b\\"),
      ("image.go:KittyImage.Destroy", "\x1b_Ga=d,d=I,i=%d\x1b\\"),
      ("image.go:KittyImage.Resize", "\x1b_Gf=100,i=%d,m=%d;%s\x1b\\"),
      ("sequences.go:const kittyGquery", "\x1b_Gi=1,a=q\x1b\\"),
      ("sequences.go:const userCursorStyle", "\x1bP$q q\x1b\\"),
      ("sequences.go:xtgettcap", "\x1bP+q")] := by
  decide +kernel

/-- Composition with the writer list: the functions that write image data to the terminal are
methods of exactly the two types whose values only the constructors above create. -/
theorem image_writers_are_methods_of_the_constructed_types :
    ((VaxisModel.Gen.Writers.writers.filter fun w => w.file == "image.go").all fun w =>
      ["KittyImage.Draw", "KittyImage.Destroy", "Sixel.Draw"].contains w.fn) = true ∧
    (literals.map (·.2)) = ["KittyImage", "Sixel"] := by
  decide +kernel

open VaxisModel.Model.ImageProto in
/-- **`NewImage` is interpreted from the source**: for each of the five protocol constants, running
the regenerated switch of `NewImage` (`Gen.Writers.newImage`) gives the class of the hand model that
the run-time image lines of the C07caps driver predict with. -/
theorem new_image_interpreted (p : Proto) : newImageGen p = some (newImage p) := by
  cases p <;> decide +kernel

open VaxisModel.Model.ImageProto in
/-- **`graphicsProtocol` is interpreted from the source**: for every combination of the two
notifications and of the pixel size being known, running the regenerated guarded assignments of
`New` (with `applyQuirks` where it is called; environment overrides unset) gives the hand model
`detected` — in particular every guard and constant is one the interpreter knows.  A changed
comparison, constant, arm or order of these statements breaks this theorem. -/
theorem detected_interpreted (s k p : Bool) : detectedGen ⟨s, k, p⟩ = some (detected s k p) := by
  cases s <;> cases k <;> cases p <;> decide +kernel

open VaxisModel.Model.ImageProto in
/-- Non-vacuity of the interpreter: with the constant of the sixel arm changed to `kitty` (self-test m2)
a sixel-only terminal ends with the kitty protocol; an unknown guard gives `none`; and without the
default arm of the `VAXIS_GRAPHICS` switch nothing raises the protocol to the block fallback. -/
example :
    detectedFrom [("New", ["for", "select ev := <-vx.queue", "type capabilitySixel", "if vx.graphicsProtocol < kitty"], "kitty")] ⟨true, false, true⟩ = some .kitty ∧
    detectedFrom [("New", ["if vx.foo()"], "kitty")] ⟨true, true, true⟩ = none ∧
    detectedFrom [("New", ["if ws.XPixel == 0 || ws.YPixel == 0"], "halfBlock")] ⟨false, false, true⟩ = some .noGraphics := by decide +kernel

open VaxisModel.Model.ImageProto in
/-- The loop's two raising arms commute and are idempotent, so the result does not depend on the
order or repetition of the two notifications (the interpreter runs them once, in source order);
and the regenerated list covers every assignment of the field in the package (`Gen.Writers.graphicsProtocolWrites`). -/
theorem protocol_steps_complete_and_order_free :
    (∀ p a b : Proto, raise (raise p a) b = raise (raise p b) a ∧ raise (raise p a) a = raise p a) ∧
    (protocolSteps.filter fun s => s.2.2 != "call applyQuirks").length = VaxisModel.Gen.Writers.graphicsProtocolWrites.length ∧
    (protocolSteps.filter fun s => s.2.2 == "call applyQuirks") = [("New", [], "call applyQuirks")] := by
  refine ⟨?_, by decide +kernel, by decide +kernel⟩
  intro p a b
  cases p <;> cases a <;> cases b <;> decide

open VaxisModel.Model.ImageProto in
/-- **Pixel protocols only when advertised** (over the model of the start-up's `graphicsProtocol`
and the interpreted `NewImage`): a kitty image is handed out only if the kitty graphics reply
arrived, a sixel image only if sixel was advertised, and without a known pixel size or without
either advertisement the image is the half-block fallback. -/
theorem new_image_class_gated (sixelAdv kittyAdv pixKnown : Bool) :
    (newImageGen (detected sixelAdv kittyAdv pixKnown) = some .kitty → kittyAdv = true ∧ pixKnown = true) ∧
    (newImageGen (detected sixelAdv kittyAdv pixKnown) = some .sixel → sixelAdv = true ∧ kittyAdv = false ∧ pixKnown = true) ∧
    ((sixelAdv = false ∧ kittyAdv = false) ∨ pixKnown = false → newImageGen (detected sixelAdv kittyAdv pixKnown) = some .halfBlock) := by
  cases sixelAdv <;> cases kittyAdv <;> cases pixKnown <;> decide +kernel

open VaxisModel.Model.ImageProto in
/-- The same gating over the *interpreted* start-up (`detectedGen`) and the interpreted `NewImage`
— no hand-transcribed step in between: whatever the two notifications and the pixel size, the object
handed out is a kitty image only if the kitty graphics reply arrived, a sixel image only if sixel
was advertised, and never the error (`none`) or the full-block renderer. -/
theorem new_image_class_gated_source (s k p : Bool) :
    ∃ c, (detectedGen ⟨s, k, p⟩).bind newImageGen = some c ∧
      (c = .kitty → k = true ∧ p = true) ∧ (c = .sixel → s = true ∧ k = false ∧ p = true) ∧
      (c = .kitty ∨ c = .sixel ∨ c = .halfBlock) := by
  cases s <;> cases k <;> cases p <;>
    first
    | exact ⟨.halfBlock, by decide +kernel, by decide, by decide, by decide⟩
    | exact ⟨.sixel, by decide +kernel, by decide, by decide, by decide⟩
    | exact ⟨.kitty, by decide +kernel, by decide, by decide, by decide⟩

end VaxisModel.Props.C07Image
