import VaxisModel.Model.WidthGen

/-!
# C07 — the width-method clause, tied to the source

"… and graphemes are measured with the width method that matches them": `Props.C07.width_method`
states the clause over the hand model `Model.Width.widthMethod`.  Here that model is shown to be the
*interpretation of the statement chain of `Vaxis.RenderedWidth` regenerated from vaxis.go* for every
capability record, and the three method constants are shown to mean what the model takes them to
mean (the arms of `gwidth`).
-/
namespace VaxisModel.Props.C07Width
open VaxisModel.Model.Width VaxisModel.Model.WidthGen VaxisModel.Gen.WidthSel

/-- **The model's selection is the interpreted source**: for every value of the three capability
fields, running the regenerated chain of `RenderedWidth` (conditions in source order, the first that
holds returns `gwidth(s, M)`) yields exactly the model's method — in particular nothing in the chain
is unrecognised.  Swapping the order of the tests, testing another field, or handing another
constant to `gwidth` breaks this theorem. -/
theorem width_method_interpreted (u e z : Bool) : widthMethodGen u e z = some (widthMethod u e z) := by
  cases u <;> cases e <;> cases z <;> decide +kernel

/-- The chain as it is today, for the reader (and so that a change of shape is visible in the
failure): `unicodeCore || explicitWidth` first, then the no-ZWJ quirk, else `wcwidth`. -/
theorem facts_rendered_width :
    renderedWidth = [
      ([[(true, "unicodeCore")], [(true, "explicitWidth")]], "unicodeStd"),
      ([[(true, "noZWJ")]], "noZWJ"),
      ([[]], "wcwidth")] := by decide +kernel

/-- **What the three constants mean** (gwidth.go): the switch is over the method; `noZWJ` strips the
joiner and then measures with `uniseg.StringWidth`, `unicodeStd` measures with `uniseg.StringWidth`,
every other value (`wcwidth`) sums `runewidth.RuneWidth`; and these three are all the constants of the type. -/
theorem facts_gwidth :
    methods = ["wcwidth", "noZWJ", "unicodeStd"] ∧ gwidthTag = "method" ∧
    gwidthArms = [
      (["noZWJ"], ["strings.ReplaceAll", "uniseg.StringWidth"]),
      (["unicodeStd"], ["uniseg.StringWidth"]),
      (["default"], ["runewidth.RuneWidth"])] := by decide +kernel

/-- The clause of the property text over the interpreted source: Unicode grapheme width exactly when
Unicode-core mode or explicit-width text was advertised; the per-code-point `wcwidth` sum exactly
when neither was and there is no ZWJ quirk. -/
theorem width_method_source (u e z : Bool) :
    (widthMethodGen u e z = some .unicodeStd ↔ (u = true ∨ e = true)) ∧
    (widthMethodGen u e z = some .wcwidth ↔ (u = false ∧ e = false ∧ z = false)) := by
  cases u <;> cases e <;> cases z <;> decide +kernel

/-- Non-vacuity of the interpreter: it does answer `none` on an unrecognised chain, follows the
order of the statements (the swapped chain of seeded change C07-m4 selects `noZWJ` for a kitty that
advertises explicit width), and knows negated literals. -/
example :
    interp true false false [([[(true, "?vx.foo()")]], "unicodeStd")] = none ∧
    interp false false false [([[(true, "noZWJ")]], "noZWJ")] = none ∧
    interp false true true [([[(true, "noZWJ")]], "noZWJ"), ([[(true, "unicodeCore")], [(true, "explicitWidth")]], "unicodeStd"), ([[]], "wcwidth")] = some .noZWJ ∧
    interp false false false [([[(false, "unicodeCore"), (false, "noZWJ")]], "wcwidth")] = some .wcwidth := by decide +kernel

end VaxisModel.Props.C07Width
