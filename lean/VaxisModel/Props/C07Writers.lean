import VaxisModel.Spec.WriterClasses

/-!
# C07 — every writer of an escape sequence in the root package is classified

"Vaxis writes only the baseline xterm vocabulary plus features the terminal advertised": over the
list of *all* terminal writers regenerated from the source (`Gen/Writers.lean`: vaxis.go, image.go,
writer.go, vaxis_unix.go, vaxis_windows.go, …), by kernel evaluation.
-/
namespace VaxisModel.Props.C07Writers
open VaxisModel.Gen.Writers VaxisModel.Spec.WriterClasses

/-- **Every writer is classified**: a start-up probe, a capability-gated sequence under a guard
that tests the capability, a write the application asked for through the API made for it, baseline
vocabulary / plumbing, or a statement of a function the gating theorems `render_gated` /
`lifecycle_gated` judge as a whole.  A new writer of an unknown sequence, or a gated sequence that
loses its guard, breaks this theorem. -/
theorem writers_classified : writers.all (fun w => classify w != .unclassified) = true := by decide +kernel

/-- **Gated sequences are guarded everywhere outside the start-up probes and the request APIs** —
also inside the modelled functions: kitty keyboard push/pop ⇒ `caps.kittyKeyboard`; 8452 ⇒
`caps.sixels`; 2027 ⇒ `caps.unicodeCore ∧ ¬caps.explicitWidth`; 2031 and DSR 996 ⇒
`caps.colorThemeUpdates`; 2048 ⇒ `caps.inBandResize`; 2026 ⇒ `caps.synchronizedUpdate`; OSC 66 ⇒
`caps.explicitWidth`; `4:n`, 58, 59 ⇒ `caps.styledUnderlines`; the OSC 4/10/11 queries ⇒ the
`CanReport*` accessors; the `CSI 18 t` size query ⇒ both size reports advertised; OSC 176 reset ⇒
`caps.osc176`; the query-only sequences (XTVERSION, XTGETTCAP, DECRQM, kitty queries, XTSMGRAPHICS,
tertiary DA, DECRQSS) occur nowhere else.  The gated writers are exactly the listed ones (as a set). -/
theorem gated_sequences_guarded :
    (writers.filter fun w => w.fn != "Vaxis.sendQueries" && !requestWriters.contains (w.fn, w.what) &&
        (gatedTable.lookup w.what).isSome).all
      (fun w => classify w == .gated) = true ∧
    sameMembers ((writers.filter fun w => classify w == .gated).map fun w => (w.fn, w.what)) [
      ("Vaxis.render", "ulColorReset"), ("Vaxis.render", "ulIndexSet"), ("Vaxis.render", "ulRGBSet"),
      ("Vaxis.render", "ulStyleSet"), ("Vaxis.render", "explicitWidth"),
      ("Vaxis.QueryColor", "osc4"), ("Vaxis.QueryForeground", "osc10"), ("Vaxis.QueryBackground", "osc11"),
      ("Vaxis.enableModes", "kittyKBEnable"), ("Vaxis.enableModes", "decset sixelScrolling"),
      ("Vaxis.enableModes", "decset unicodeCore"), ("Vaxis.enableModes", "decset colorThemeUpdates"),
      ("Vaxis.enableModes", "dsr"), ("Vaxis.enableModes", "decset inBandResize"),
      ("Vaxis.disableModes", "kittyKBPop"), ("Vaxis.disableModes", "decrst sixelScrolling"),
      ("Vaxis.disableModes", "decrst unicodeCore"), ("Vaxis.disableModes", "decrst colorThemeUpdates"),
      ("Vaxis.disableModes", "setAppID"), ("Vaxis.disableModes", "decrst inBandResize"),
      ("Vaxis.reportWinsize", "textAreaSize"), ("Vaxis.reportWinsize", "textAreaSize"),
      ("writer.Write", "decset synchronizedUpdate"), ("writer.WriteString", "decset synchronizedUpdate"),
      ("writer.Flush", "decrst synchronizedUpdate")] = true := by decide +kernel

/-- **The writes made on the application's request** are exactly these — clipboard (OSC 52),
notification (OSC 9 / OSC 777), title (OSC 2), application id (OSC 176), bell, the cursor-position
query, and an image object's own protocol (kitty graphics APC / sixel DCS) — each in the API
function named after it and nowhere else (as a set: source order is not part of the statement). -/
theorem request_writers_exact :
    sameMembers ((writers.filter fun w => classify w == .request).map fun w => (w.fn, w.what)) [
      ("KittyImage.Draw", "expr:k.buf.Bytes()"), ("KittyImage.Draw", "lit:\x1b_Ga=p,i=%d,p=%d,C=1\x1b\\"),
      ("KittyImage.Draw", "lit:\x1b_Ga=d,d=i,i=%d,p=%d\x1b\\"), ("KittyImage.Destroy", "lit:\x1b_Ga=d,d=I,i=%d\x1b\\"),
      ("Sixel.Draw", "expr:s.buf.Bytes()"),
      ("Vaxis.CursorPosition", "dsrcpr"), ("Vaxis.ClipboardPush", "osc52put"), ("Vaxis.ClipboardPop", "osc52pop"),
      ("Vaxis.Notify", "osc9notify"), ("Vaxis.Notify", "osc777notify"), ("Vaxis.SetTitle", "setTitle"),
      ("Vaxis.SetAppID", "setAppID"), ("Vaxis.Bell", "expr:[]byte{0x07}")] = true := by decide +kernel

/-- **Image objects are handed out by the detected protocol**: `NewImage` returns a kitty image
only when `graphicsProtocol = kitty` and a sixel image only when it is `sixelGraphics`; and inside
the start-up loop the protocol is raised to these two values only in the arms of the kitty-graphics
and sixel notifications (`Props.C07Caps.facts_loop`); every other assignment is the environment
override `VAXIS_GRAPHICS`, the block fallbacks or a quirk. -/
theorem new_image_by_protocol :
    newImage = [
      ("vx.graphicsProtocol == fullBlock", "return vx.NewFullBlockImage(img), nil"),
      ("vx.graphicsProtocol == halfBlock", "return vx.NewHalfBlockImage(img), nil"),
      ("vx.graphicsProtocol == sixelGraphics", "return vx.NewSixel(img), nil"),
      ("vx.graphicsProtocol == kitty", "return vx.NewKittyGraphic(img), nil"),
      ("vx.graphicsProtocol == default", "return nil, fmt.Errorf(\"no supported image protocol\")")] ∧
    (graphicsProtocolWrites.filter fun x => x.2 == "vx.graphicsProtocol = kitty" || x.2 == "vx.graphicsProtocol = sixelGraphics")
      = [("vaxis.go:New", "vx.graphicsProtocol = sixelGraphics"), ("vaxis.go:New", "vx.graphicsProtocol = kitty"),
         ("vaxis.go:New", "vx.graphicsProtocol = sixelGraphics"), ("vaxis.go:New", "vx.graphicsProtocol = kitty")] := by decide +kernel

/-- Non-vacuity: the list is not empty, every class occurs, and the classifier does reject — a
kitty-keyboard push without its guard and an unknown sequence are unclassified. -/
example : 100 ≤ writers.length ∧
    [Cls.probe, .gated, .request, .baseline, .modelled].all (fun c => writers.any (fun w => classify w == c)) = true ∧
    classify { file := "vaxis.go", fn := "Vaxis.Foo", dest := "vx.tw", what := "kittyKBEnable", guards := ["!vx.disableMouse"] } = .unclassified ∧
    classify { file := "vaxis.go", fn := "Vaxis.Foo", dest := "vx.console", what := "lit:\x1b]1337;x\x07", guards := [] } = .unclassified := by
  decide +kernel

end VaxisModel.Props.C07Writers
