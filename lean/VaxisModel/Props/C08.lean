/-
C08 — Parser lifecycle: always terminates cleanly; Escape key timing is exact.
Property theorems only (helper lemmas live in Lemmas/ParserRun.lean).
-/
import VaxisModel.Model.ParserRun
import VaxisModel.Lemmas.ParserRun
import VaxisModel.Lemmas.Parser

namespace VaxisModel.Props.C08
open VaxisModel.Model.ParserTable VaxisModel.Model.Parser VaxisModel.Model.ParserRun
open VaxisModel.Lemmas.ParserRun VaxisModel.Lemmas.ParserAbs VaxisModel.Lemmas.Parser

/-- **Exactly one EOF, last, then the channel is closed** — for every sequence of labels
    (reads of any runes, end of input or read error at any point, Close() at any point, the timer
    firing, its callback running late at *any* later point — after further reads or after the loop
    has ended), any table: once the run loop has ended, what was emitted is `pre ++ [EOF]` with no
    EOF in `pre` and the channel is closed; before that, no EOF has been emitted and the channel is
    open.  Nothing at all is emitted after the EOF (in `done` no enabled label emits: a late
    callback is out of date and returns), so nothing is ever sent on the closed channel. -/
theorem eof_once_last (T : Table) (c : Cfg) (hg : c.guarded = true) (ls : List Label) (s : Sys) (out : List Seq)
    (h : Sys.run T c Sys.init ls = some (s, out)) :
    (s.pc = .done → (∃ pre, out = pre ++ [.eof] ∧ Seq.eof ∉ pre) ∧ s.chanClosed = true) ∧
    (s.pc ≠ .done → Seq.eof ∉ out ∧ s.chanClosed = false) := by
  have h0 : EofInv Sys.init [] := by
    refine ⟨fun h => ?_, fun _ => ⟨by simp, rfl⟩⟩
    exact absurd h (by decide)
  have := run_EofInv T c hg ls Sys.init [] s out h0 h
  simp only [List.nil_append] at this
  exact ⟨fun hd => ⟨(this.1 hd).1, (this.1 hd).2.1⟩, this.2⟩

/-- … and once the loop has ended, every further enabled step emits nothing. -/
theorem nothing_after_eof (T : Table) (c : Cfg) (hg : c.guarded = true) (s : Sys)
    (hd : s.pc = .done) (ha : s.armed = false) (hf : s.fresh = false) (l : Label) (s' : Sys) (o : List Seq)
    (h : Sys.step T c s l = some (s', o)) : o = [] ∧ s'.pc = .done ∧ s'.armed = false ∧ s'.fresh = false := by
  cases l with
  | closeSig =>
    simp only [Sys.step, Option.some.injEq, Prod.mk.injEq] at h
    obtain ⟨rfl, rfl⟩ := h; exact ⟨rfl, hd, ha, hf⟩
  | enterRead => simp [Sys.step, hd] at h
  | breakClose => simp [Sys.step, hd] at h
  | read r => simp [Sys.step, hd] at h
  | readEnd => simp [Sys.step, hd] at h
  | timerFire => simp [Sys.step, hd] at h
  | timerExpire => simp [Sys.step, ha] at h
  | cbRun fresh =>
    cases fresh with
    | true => simp [Sys.step, hf] at h
    | false =>
      simp only [Sys.step, hg, if_true] at h
      split at h
      · simp only [Option.some.injEq, Prod.mk.injEq] at h
        obtain ⟨rfl, rfl⟩ := h; exact ⟨rfl, hd, ha, hf⟩
      · cases h

/-- The facts about the timer and the channel that the model hard-codes are those of the source:
    10 ms delay, the callback resets `ignoreST` with the state, channel capacity 2. -/
theorem gen_lifecycle_constants :
    Gen.ParserTable.escDelayMs = 10 ∧ Gen.ParserTable.chanCap = 2 ∧ Gen.ParserTable.runLoopRecognised = true ∧
    (⟨Gen.ParserTable.timerClearsIgnoreST, Gen.ParserTable.timerGuarded⟩ : Cfg) = Cfg.fixed := by decide

/-- **No panic, invariant kept** along *every* run from the initial state — all schedules of
    reads, end of input, Close(), timer firings and delayed callbacks: no `panic` item is ever
    emitted (no nil `p.exit()` call on BEL, no action on the rune of an `eof`, no send on the closed
    channel), and while the loop runs `p.exit` is the exit function of the current state, `ignoreST`
    is only set inside a control string or in escape, and the timer is only pending — or its
    callback up to date — in the escape state reached by its ESC. -/
theorem no_panic (ls : List Label) (s : Sys) (out : List Seq)
    (h : Sys.run handTable Cfg.fixed Sys.init ls = some (s, out)) :
    Seq.panic ∉ out ∧
    (s.pc ≠ .done → invB (α s.ps) = true ∧ ((s.armed = true ∨ s.fresh = true) → s.ps.state = .escape)) := by
  obtain ⟨h1, h2⟩ := run_SInv ls Sys.init s out SInv_init h
  exact ⟨h2, fun hnd => ⟨(h1 hnd).1, (h1 hnd).2.1⟩⟩

/-- **The read ending ends the loop**: from any state blocked in the read, end of input or a read
    error is enabled and leads to `done` in that one step (with the EOF item, by `eof_once_last`). -/
theorem read_end_stops (T : Table) (c : Cfg) (s : Sys) (h : s.pc = .inRead) :
    ∃ s' o, Sys.step T c s .readEnd = some (s', o) ∧ s'.pc = .done ∧ o.getLast? = some .eof := by
  simp only [Sys.step, h, if_true, finishing]
  exact ⟨_, _, rfl, rfl, by simp⟩

/-- **Close followed by the reader returning stops it**: after `Close()`, once the pending read
    has returned a rune (and that rune has been handled), the loop cannot start another read; its
    only move is to leave, emitting EOF. -/
theorem close_then_read_stops (s : Sys) (hinv : SInv s) (h : s.pc = .inRead) (r : Nat) :
    let s1 : Sys := { s.outdate with closeReq := true, ps := (pstep s.ps (.rune r)).st, pc := .atSelect,
                                     armed := startsTimer handTable r }
    Sys.run handTable Cfg.fixed s [.closeSig, .read r] = some (s1, (pstep s.ps (.rune r)).out) ∧
    Sys.step handTable Cfg.fixed s1 .enterRead = none ∧
    (Sys.step handTable Cfg.fixed s1 .breakClose).map (fun x => (x.1.pc, x.2)) = some (.done, [.eof]) := by
  have hi := hinv (by rw [h]; decide)
  have hs := hand_inv_step s.ps hi.1 (.rune r)
  have hstop : (VaxisModel.Model.Parser.step handTable s.ps (.rune r)).stop = false := by
    have := hs.2.2; simpa [pstep, isEof] using this
  refine ⟨?_, ?_, ?_⟩
  · simp [Sys.run, Sys.step, h, hstop, pstep, Sys.outdate]
  · simp [Sys.step]
  · simp [Sys.step, finishing]

/-- **No deadlock**: in every state that is not `done` a move of the main goroutine is enabled
    (start a read or leave at the `select`; return from the read otherwise). -/
theorem progress (T : Table) (c : Cfg) (s : Sys) (h : s.pc ≠ .done) :
    (Sys.step T c s .enterRead).isSome ∨ (Sys.step T c s .breakClose).isSome ∨
    (Sys.step T c s .readEnd).isSome := by
  cases hpc : s.pc with
  | done => exact absurd hpc h
  | inRead => right; right; simp [Sys.step, hpc]
  | atSelect =>
    cases hc : s.closeReq with
    | false => left; simp [Sys.step, hpc, hc]
    | true => right; left; simp [Sys.step, hpc, hc]

/-! ## Escape key -/

/-- **Escape-key accounting**: in every run the number of `C0 0x1B` items delivered is exactly the
    number of steps in which the timer fired while the parser was blocked in the read, or its callback
    ran while still up to date — the automaton itself never produces one (ESC is intercepted by
    `anywhere`), and an out-of-date callback produces nothing.  So an ESC promptly followed by further
    bytes is never reported as Escape, and a lone ESC is reported once. -/
theorem esc_reports_eq_timer_firings (ls : List Label) (s s' : Sys) (out : List Seq)
    (h : Sys.run handTable Cfg.fixed s ls = some (s', out)) :
    out.count (.c0 0x1B) = (ls.filter Label.isEscKey).length :=
  run_esc_count ls s s' out h

/-- **A delayed callback is either exactly the Escape key or nothing.**  If it is still up to
    date (no read has returned and the loop has not ended since its ESC) the parser is in the escape
    state that ESC put it in, and the callback does what the prompt firing does: `C0 0x1B`, ground,
    flag cleared.  Otherwise it changes nothing and emits nothing — it can no longer report Escape
    after a sequence, tear a sequence apart, or send on the closed channel (F29). -/
theorem delayed_callback (s : Sys) (hinv : SInv s) (hnd : s.pc ≠ .done) (fresh : Bool) (s' : Sys) (o : List Seq)
    (h : Sys.step handTable Cfg.fixed s (.cbRun fresh) = some (s', o)) :
    (fresh = true ∧ s.ps.state = .escape ∧ o = [.c0 0x1B] ∧ s'.ps = timerReset true s.ps) ∨
    (fresh = false ∧ o = [] ∧ s'.ps = s.ps) := by
  cases fresh with
  | true =>
    left
    simp only [Sys.step] at h
    split at h
    · rename_i hc
      simp only [Option.some.injEq, Prod.mk.injEq] at h
      obtain ⟨rfl, rfl⟩ := h
      exact ⟨rfl, (hinv hnd).2.1 (Or.inr hc), by simp [Cfg.fixed], rfl⟩
    · cases h
  | false =>
    right
    simp only [Sys.step, Cfg.fixed, if_true] at h
    split at h
    · simp only [Option.some.injEq, Prod.mk.injEq] at h
      obtain ⟨rfl, rfl⟩ := h
      exact ⟨rfl, rfl, rfl⟩
    · cases h

/-- **Lone ESC**: a read returns ESC, the loop blocks in the next read, 10 ms pass: exactly one
    `C0 0x1B` (after whatever the ESC itself terminated), the parser is in ground with nothing
    collected and no ST pending, the timer is spent (it cannot fire again), and the next rune is
    therefore parsed from the ground state. -/
theorem lone_esc (s : Sys) (hpc : s.pc = .inRead) (hcl : s.closeReq = false) :
    let s' : Sys := { s.outdate with ps := timerReset true (pstep s.ps (.rune 0x1B)).st, pc := .inRead, armed := false }
    Sys.run handTable Cfg.fixed s [.read 0x1B, .enterRead, .timerFire] =
        some (s', (pstep s.ps (.rune 0x1B)).out ++ [.c0 0x1B]) ∧
      s'.ps.state = .ground ∧ s'.ps.inter = [] ∧ s'.ps.params = [] ∧ s'.ps.ignoreST = false ∧
      Sys.step handTable Cfg.fixed s' .timerFire = none := by
  have hst : startsTimer handTable 0x1B = true := by decide
  have hstop : (VaxisModel.Model.Parser.step handTable s.ps (.rune 0x1B)).stop = false := by
    cases he : s.ps.exit with
    | none => have := pstep_esc s.ps he; simp only [pstep] at this; rw [this]
    | some f => have := pstep_esc_exit s.ps f he; simp only [pstep] at this; rw [this]
  have hclear : (pstep s.ps (.rune 0x1B)).st.inter = [] ∧ (pstep s.ps (.rune 0x1B)).st.params = [] := by
    cases he : s.ps.exit with
    | none => rw [pstep_esc s.ps he]; exact ⟨rfl, rfl⟩
    | some f => rw [pstep_esc_exit s.ps f he]; exact ⟨rfl, rfl⟩
  refine ⟨?_, rfl, hclear.1, hclear.2, rfl, ?_⟩
  · simp [Sys.run, Sys.step, hpc, hcl, hstop, hst, pstep, Sys.outdate, Cfg.fixed]
  · simp [Sys.step]

/-- **Prompt ESC**: if the next read returns before the timer fires, the timer is stopped: no
    Escape report is produced by these steps, the rune is handled in the escape state, and the timer
    cannot fire afterwards (unless that rune was itself an ESC). -/
theorem esc_prompt (s : Sys) (hinv : SInv s) (hpc : s.pc = .inRead) (hcl : s.closeReq = false) (r : Nat)
    (hr : r ≠ 0x1B) :
    let out := (pstep s.ps (.rune 0x1B)).out ++ (pstep (pstep s.ps (.rune 0x1B)).st (.rune r)).out
    let s' : Sys := { s.outdate with ps := (pstep (pstep s.ps (.rune 0x1B)).st (.rune r)).st, pc := .atSelect, armed := false }
    Sys.run handTable Cfg.fixed s [.read 0x1B, .enterRead, .read r] = some (s', out) ∧
      Seq.c0 0x1B ∉ out ∧ Sys.step handTable Cfg.fixed s' .timerFire = none := by
  have hst : startsTimer handTable 0x1B = true := by decide
  have hi := hinv (by rw [hpc]; decide)
  have h1 := hand_inv_step s.ps hi.1 (.rune 0x1B)
  have hstop1 : (VaxisModel.Model.Parser.step handTable s.ps (.rune 0x1B)).stop = false := by
    have := h1.2.2; simpa [pstep, isEof] using this
  have h2 := hand_inv_step (pstep s.ps (.rune 0x1B)).st (h1.1 rfl) (.rune r)
  have hstop2 : (VaxisModel.Model.Parser.step handTable
      (VaxisModel.Model.Parser.step handTable s.ps (.rune 0x1B)).st (.rune r)).stop = false := by
    have := h2.2.2; simpa [pstep, isEof] using this
  have harm : startsTimer handTable r = false := by rw [startsTimer_hand]; simp [hr]
  refine ⟨?_, ?_, ?_⟩
  · simp [Sys.run, Sys.step, hpc, hcl, hstop1, hstop2, harm, pstep, Sys.outdate]
  · intro h
    rcases List.mem_append.mp h with h | h
    · exact pstep_no_esc_key _ _ h
    · exact pstep_no_esc_key _ _ h
  · simp [Sys.step]

/-! ## Delivered sequences are immutable until Finish -/

/-- **Ownership invariant of the pools.**  For every sequence of parser writes (`collect`, with or
    without reallocation), `clear`s, dispatches that hand the current array to a delivered sequence
    and take *any* pooled array or a new one, and consumer `Finish` calls (each delivered array handed
    back at most once — `finish b` is only enabled while `b` is held), in any order and however far
    the parser runs ahead: the array the parser writes to is never one that a delivered, unfinished
    sequence refers to; pooled and held arrays are disjoint and without duplicates. -/
theorem delivered_immutable (ls : List OwnLabel) (o : Own) (h : Own.run {} ls = some o)
    (l : OwnLabel) (o' : Own) (b : Nat) (hw : Own.step o l = some (o', some b)) :
    b ∉ o.held ∧ b ∉ o'.held ∧ OwnInv o' := by
  have hinv := run_OwnInv ls {} o OwnInv_init h
  obtain ⟨h1, h2⟩ := own_step_inv o l o' (some b) hinv hw
  refine ⟨?_, h2 b rfl, h1⟩
  -- only `collect` writes, and it leaves `held` unchanged
  cases l with
  | collect re =>
    simp only [Own.step] at hw
    split at hw
    · simp only [Option.some.injEq, Prod.mk.injEq] at hw
      obtain ⟨rfl, _⟩ := hw
      exact h2 b rfl
    · simp only [Option.some.injEq, Prod.mk.injEq] at hw
      obtain ⟨rfl, _⟩ := hw
      exact h2 b rfl
  | clear => simp [Own.step] at hw
  | dispatch g =>
    simp only [Own.step] at hw
    split at hw
    · cases hw
    · split at hw
      · split at hw <;> simp at hw
      · simp at hw
  | finish b' =>
    simp only [Own.step] at hw
    split at hw <;> simp at hw

-- non-vacuity: deliver two sequences, the consumer hands the first back, the parser reuses its array
example : (Own.run {} [.collect false, .dispatch none, .collect false, .dispatch none, .finish 0,
    .collect false, .dispatch (some 0), .collect false]).isSome = true := by decide

end VaxisModel.Props.C08
