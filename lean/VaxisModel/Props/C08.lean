/-
C08 — Parser lifecycle: always terminates cleanly; Escape key timing is exact.
Property theorems only (helper lemmas live in Lemmas/ParserRun.lean).
-/
import VaxisModel.Model.ParserRun
import VaxisModel.Lemmas.ParserRun

namespace VaxisModel.Props.C08
open VaxisModel.Model.ParserTable VaxisModel.Model.Parser VaxisModel.Model.ParserRun
open VaxisModel.Lemmas.ParserRun

/-- **Exactly one EOF, last, then the channel is closed** — for every sequence of labels
    (reads of any runes, end of input or read error at any point, Close() at any point, timer
    firings, even the racy ones), any table and any start: once the run loop has ended, what was
    emitted is `pre ++ [EOF]` with no EOF in `pre` and the channel is closed; before that, no EOF
    has been emitted and the channel is open.  Nothing is emitted after the EOF (no label that emits
    is enabled in `done`), so nothing is ever sent on the closed channel. -/
theorem eof_once_last (T : Table) (c : Bool) (ls : List Label) (s : Sys) (out : List Seq)
    (h : Sys.run T c Sys.init ls = some (s, out)) :
    (s.pc = .done → (∃ pre, out = pre ++ [.eof] ∧ Seq.eof ∉ pre) ∧ s.chanClosed = true) ∧
    (s.pc ≠ .done → Seq.eof ∉ out ∧ s.chanClosed = false) := by
  have h0 : EofInv Sys.init [] := by
    refine ⟨fun h => ?_, fun _ => ⟨by simp, rfl⟩⟩
    exact absurd h (by decide)
  have := run_EofInv T c ls Sys.init [] s out h0 h
  simpa [EofInv] using this

end VaxisModel.Props.C08
