/-
C08 — pools ↔ automaton (round 3): the explicit-array model of `p.intermediate` / `intermediatePool`
driven by the statements the parser really executes, in the order of the transition table.
Property theorems only (model: Model/ParserPoolsDrive.lean; lemmas: Lemmas/ParserPoolsDrive.lean).
-/
import VaxisModel.Lemmas.ParserPoolsDrive
import VaxisModel.Lemmas.ParserPoolsLink
import VaxisModel.Props.C08Pools

namespace VaxisModel.Props.C08Drive
open VaxisModel.Model.ParserTable VaxisModel.Model.Parser VaxisModel.Model.ParserPools
open VaxisModel.Model.ParserPoolsDrive VaxisModel.Lemmas.ParserPoolsDrive VaxisModel.Lemmas.ParserPoolsLink

/-- **The parser's action order is a run of the pool model.**  For any table (the hand-written one,
    the one regenerated from the source), any input runes, any answers of `intermediatePool.Get()`
    (any pooled slice, with whatever stale length it was put back with, or a new one), any growth
    of `append`, and `Finish` calls of the consumer interleaved anywhere (handing back any sequence
    it holds, in any order, or none at all): walking the statements of the `anywhere` arm and of the
    state function's arm in source order — `collect`, `clear`, the `Get` inside
    `escapeDispatch`/`csiDispatch`/`hook` exactly when `len(p.intermediate) > 0`, the early `return`
    of `ESC \` under `ignoreST` — never issues a pool step that is not enabled, and the labels issued
    are a run of the pool model from its initial state to the composite's pool state.  The parser
    component is the automaton's own run over the same runes. -/
theorem driven_run_is_pool_run (T : Table) (ls : List DLabel) :
    ∃ d, drun T DSt.init ls = some d ∧ run .code St.init d.trace = some d.pool ∧
      (d.ps, d.out) = autoRun T PState.init [] (runesOf ls) := by
  obtain ⟨d, h1, h2⟩ := drun_run T ls DSt.init rfl
  exact ⟨d, h1, h2, drun_automaton T ls DSt.init d h1⟩

/-- **A delivered sequence is never modified, for `Get`/`Put` driven by the real action order.**  In
    every state the composite reaches — the parser having run ahead by any number of sequences, the
    consumer holding any of them — every delivered, unfinished sequence reads through its
    `Intermediate` slice exactly what it read when it was delivered. -/
theorem driven_delivered_immutable (T : Table) (ls : List DLabel) (d : DSt) (h : drun T DSt.init ls = some d)
    (x : Deliv) (hx : x ∈ d.pool.delivered) : (cells d.pool.heap x.s.arr).take x.s.len = x.snap := by
  obtain ⟨d', h1, h2⟩ := drun_run T ls DSt.init rfl
  rw [h] at h1
  cases h1
  exact VaxisModel.Props.C08Pools.delivered_contents_immutable d.trace d.pool h2 x hx

/-- **The slice is the automaton's `inter` — wherever it matters.**  The automaton model
    (`Model/Parser.lean`, the one the C02 theorems are about) keeps `p.intermediate` as a list and sets
    it to `[]` at a dispatch; the code takes whatever `intermediatePool.Get()` returns, stale length and
    all.  In every state the composite reaches with the parser's table — any input, any `Get` answers,
    any `Finish` calls — either the parser is in a state in which nothing reads `p.intermediate` before
    the next `clear()` (ground, dcsPassthrough: `Props.C08Pools.stale_intermediate_unobservable`), or the
    slice of the pool model reads exactly the automaton's `inter`.  (Table-wide check of every row of
    `anywhere` and of the 16 state functions, kernel-decided for runes ≤ 256, interval lemma above.) -/
theorem driven_slice_reads_inter (ls : List DLabel) (d : DSt) (h : drun handTable DSt.init ls = some d) :
    isDeadB d.ps.state = true ∨ contents d.pool = d.ps.inter :=
  (drun_inv ls DSt.init d DInv_init h).link

/-- **What the consumer receives is what the automaton collected.**  At every hand-over
    (`seq.Intermediate = p.intermediate; p.intermediate = pool.Get()` in `escapeDispatch`, `csiDispatch`,
    `hook`, taken exactly when the slice is non-empty) along any composite run with the parser's
    table, the slice handed over — the snapshot of the delivered record, which stays what the consumer
    reads until `Finish` (`driven_delivered_immutable`) — reads exactly the list `inter` that the
    automaton model puts into the `ESC` / `CSI` / `DCS` value at that statement.  So the C02 theorems
    about delivered intermediates (exact intermediates, exactly once) hold of the storage the consumer
    really reads, with recycling. -/
theorem driven_handover_is_collected (ls : List DLabel) (d : DSt) (h : drun handTable DSt.init ls = some d) :
    ∀ v ∈ d.acc.views, v.auto = v.slice :=
  (drun_inv ls DSt.init d DInv_init h).good

-- `ESC ( B` delivered and held; `ESC ) 0` reuses nothing (no Finish): two arrays, both intact;
-- then Finish of the first and `ESC * A` with Get returning its slice: the held second one is intact
example : (drun handTable DSt.init
    [.rune 0x1B {}, .rune 0x28 {}, .rune 0x42 {}, .rune 0x1B {}, .rune 0x29 {}, .rune 0x30 {},
     .finish 1, .rune 0x1B {}, .rune 0x2A {}, .rune 0x41 { g := some 0 }]).map
      (fun d => (d.out, d.pool.delivered.map (·.snap), allIntact d.pool, d.acc.views)) =
    some ([.esc [0x28] 0x42, .esc [0x29] 0x30, .esc [0x2A] 0x41], [[0x2A], [0x29]], true,
      [⟨[0x28], [0x28]⟩, ⟨[0x29], [0x29]⟩, ⟨[0x2A], [0x2A]⟩]) := by decide

end VaxisModel.Props.C08Drive
