/-
C08 — parameter pools ↔ automaton: the explicit-array model of `csi.Parameters` (`paramListPool`,
`paramPool`; `PSt`/`pstep` of Model/ParserPools.lean) driven by the statements the parser really
executes, in the order of the transition table, `csiDispatch` expanded into the `Get`s, `append`s
and the `emit` of its Go body for the parameter bytes the automaton has collected; the consumer's
`Finish` calls interleaved one `Put` at a time anywhere — between runes and between any two pool
operations of a running `csiDispatch`.
Property theorems only (model: Model/ParserParamsDrive.lean; lemmas: Lemmas/ParserParamsDrive.lean).
-/
import VaxisModel.Lemmas.ParserParamsDrive
import VaxisModel.Props.C08Pools
import VaxisModel.Gen.ParserActs

namespace VaxisModel.Props.C08DriveParams
open VaxisModel.Model.ParserTable VaxisModel.Model.ParserPools
open VaxisModel.Model.Parser hiding pstep run
open VaxisModel.Model.ParserParamsDrive VaxisModel.Lemmas.ParserParamsDrive
open VaxisModel.Lemmas.ParserPools
open VaxisModel.Lemmas.ParserPoolsDrive (autoRun)

/-- **The parser's action order is a run of the parameter-pool model.**  For any table (the
    hand-written one, the one regenerated from the source), any input runes, any answers of
    `paramListPool.Get()` / `paramPool.Get()` (any pooled slice, with whatever stale length it was put
    back with, or a new one), any growth of `append`, and `Finish` calls of a retaining consumer
    interleaved one `Put` at a time anywhere (between runes, and between any two pool operations of a
    running `csiDispatch`; any held sequence, any order, or none at all): walking the statements of the
    `anywhere` arm and of the state function's arm in source order — `csiDispatch` expanded into
    `begin, get, (app | app push get)*, app, push, emit` for the bytes in `p.params`, nothing when
    there are none, the early `return` of `ESC \` under `ignoreST` — never issues a pool step that is
    not enabled; the labels issued are a run of `pstep` from its initial state to the composite's
    pool state; no dispatch is left running between two runes; the parser component is the
    automaton's own run over the same runes. -/
theorem driven_params_run_is_pool_run (T : Table) (ls : List DLabel) :
    ∃ d, drun T DSt.init ls = some d ∧ prun PSt.init d.trace = some d.pool ∧ d.pool.work = none ∧
      (d.ps, d.out) = autoRun T PState.init [] (runesOf ls) := by
  obtain ⟨d, h1, h2⟩ := drun_spec T ls DSt.init WInv_init
  exact ⟨d, h1, h2.a.run, h2.idle, drun_automaton T ls DSt.init d h1⟩

/-- **A delivered CSI's parameters are never modified, for `Get`/`Put` in the real action order.**
    In every pool state the composite goes through — the states in the middle of a `csiDispatch`
    included (`n` labels of the trace issued), the parser having run ahead by any number of
    sequences, the consumer holding any of them and being in the middle of any number of `Finish`
    calls on others — every delivered, unfinished CSI reads through `seq.Parameters` (list cells
    and, through each header, `[]int` cells) exactly what it read when it was delivered. -/
theorem driven_params_delivered_immutable (T : Table) (ls : List DLabel) (d : DSt)
    (h : drun T DSt.init ls = some d) (n : Nat) :
    ∃ s, prun PSt.init (d.trace.take n) = some s ∧
      ∀ x ∈ s.delivered, readParams s.pheap s.lheap x.l = x.snap := by
  obtain ⟨d', h1, h2⟩ := drun_spec T ls DSt.init WInv_init
  rw [h] at h1
  cases h1
  obtain ⟨s, e1, _⟩ := prun_take d.trace PSt.init d.pool h2.a.run n
  exact ⟨s, e1, VaxisModel.Props.C08Pools.delivered_params_immutable _ s e1⟩

/-- Two-state form: between any two points of the composite's trace (after `n` and after `m` pool
    labels, in the middle of a dispatch or not) at which the consumer holds `x`, what it reads through
    `x` is the same. -/
theorem driven_params_delivered_stable (T : Table) (ls : List DLabel) (d : DSt)
    (h : drun T DSt.init ls = some d) (n m : Nat) :
    ∃ s1 s2, prun PSt.init (d.trace.take n) = some s1 ∧ prun PSt.init (d.trace.take m) = some s2 ∧
      ∀ x ∈ s1.delivered, x ∈ s2.delivered →
        readParams s2.pheap s2.lheap x.l = readParams s1.pheap s1.lheap x.l := by
  obtain ⟨s1, h1, i1⟩ := driven_params_delivered_immutable T ls d h n
  obtain ⟨s2, h2, i2⟩ := driven_params_delivered_immutable T ls d h m
  exact ⟨s1, s2, h1, h2, fun x hx1 hx2 => by rw [i1 x hx1, i2 x hx2]⟩

/-- In the state the composite ends in: every held CSI reads what it read at delivery. -/
theorem driven_params_delivered_immutable_now (T : Table) (ls : List DLabel) (d : DSt)
    (h : drun T DSt.init ls = some d) (x : PDeliv) (hx : x ∈ d.pool.delivered) :
    readParams d.pool.pheap d.pool.lheap x.l = x.snap := by
  obtain ⟨d', h1, h2⟩ := drun_spec T ls DSt.init WInv_init
  rw [h] at h1
  cases h1
  exact h2.a.inv.intact x hx

/-- **What the consumer receives is what the automaton decoded.**  At every hand-over
    (`p.emit(csi)` with parameters) along any composite run — any table, any input, any `Get`
    answers (recycled arrays with stale contents and lengths), any growth, any `Finish`-`Put`s in
    between — the `[][]int` handed over (the snapshot of the delivered record, which stays what the
    consumer reads until `Finish`: `driven_params_delivered_immutable`) reads exactly
    `decodeParams p.params`, the value the automaton model puts into the `CSI` item at that
    statement (cell by cell through `enc`; `dec` gives the Go `int`s back).  So the C02 theorems
    about delivered parameters hold of the recycled storage the consumer really reads. -/
theorem driven_params_handover_is_decoded (T : Table) (ls : List DLabel) (d : DSt)
    (h : drun T DSt.init ls = some d) :
    ∀ v ∈ d.acc.views, v.slice = v.auto.map (·.map enc) ∧ v.slice.map (·.map dec) = v.auto := by
  obtain ⟨d', h1, h2⟩ := drun_spec T ls DSt.init WInv_init
  rw [h] at h1
  cases h1
  intro v hv
  have hg := h2.good v hv
  refine ⟨hg, ?_⟩
  rw [hg, List.map_map]
  conv => rhs; rw [← List.map_id v.auto]
  apply List.map_congr_left
  intro p _
  simp only [Function.comp, List.map_map, id]
  conv => rhs; rw [← List.map_id p]
  apply List.map_congr_left
  intro x _
  exact dec_enc x

/-- … and every CSI the consumer still holds was handed over at one of these hand-overs: with the
    two theorems above, a held CSI reads the decoded parameters of its own sequence until `Finish`. -/
theorem driven_params_held_is_decoded (T : Table) (ls : List DLabel) (d : DSt)
    (h : drun T DSt.init ls = some d) (x : PDeliv) (hx : x ∈ d.pool.delivered) :
    ∃ v ∈ d.acc.views, readParams d.pool.pheap d.pool.lheap x.l = v.auto.map (·.map enc) := by
  obtain ⟨d', h1, h2⟩ := drun_spec T ls DSt.init WInv_init
  rw [h] at h1
  cases h1
  obtain ⟨v, hv, e⟩ := h2.cov x hx
  exact ⟨v, hv, by rw [h2.a.inv.intact x hx, e, h2.good v hv]⟩

/-- **The hand-overs are the CSI items the automaton delivers.**  Along any composite run the
    recorded hand-overs are, in order, exactly the `CSI` items with (non-nil) `Parameters` in the
    channel output of the automaton, and `View.auto` is that item's `Parameters` field: the walk
    expands `csiDispatch` at the statement and in the parser state at which the automaton emits the
    item.  With `driven_params_handover_is_decoded`: the k-th CSI-with-parameters on the channel
    reads, through the recycled arrays, the `Parameters` the C02 theorems speak about. -/
theorem driven_params_handovers_are_delivered_csis (T : Table) (ls : List DLabel) (d : DSt)
    (h : drun T DSt.init ls = some d) : d.acc.views.map (·.auto) = handed d.out :=
  drun_views T ls DSt.init d WInv_init rfl h

/-! ### the expansion is the body of `csiDispatch` as written in the source -/

open VaxisModel.Model.ParserActs in
/-- One iteration of the loop of `csiDispatch` as regenerated from the source (`switch b`: `case ';'`,
    `case ':'`, `default`) issues, on **any** byte and **any** decoder state, the pool operations
    `loopOps` assumes and leaves the same `ps`. -/
theorem expansion_step (cases : List (Nat × List LoopOp)) (dflt : List LoopOp)
    (h : BStmt.paramLoop cases dflt ∈ Gen.ParserActs.csiDispatchBody) : OpsStep cases dflt := by
  simp [Gen.ParserActs.csiDispatchBody] at h
  obtain ⟨rfl, rfl⟩ := h
  intro b st
  by_cases h1 : b = 0x3B
  · subst h1; simp [findCase, opsOfOps, loopOpOps, LoopOp.run]
  · by_cases h2 : b = 0x3A
    · subst h2; simp [findCase, opsOfOps, loopOpOps, LoopOp.run]
    · simp [findCase, h1, h2, opsOfOps, loopOpOps, LoopOp.run, wrap64_mul_add]

/-- **`csiOps` is what the source says.**  Walking the statement skeleton of `csiDispatch` regenerated
    from ansi/parser.go (`Gen.ParserActs.csiDispatchBody`; the same skeleton whose interpretation is
    `applyAct .csiDispatch`: `Props.C02Acts.csiDispatch_body`) and issuing `begin` at
    `paramListPool.Get()[:0]`, `get` at every `paramPool.Get()[:0]`, `app ps` at every
    `append(param, ps)`, `push` at every `append(csi.Parameters, param)` and `emit` at the final
    `p.emit(csi)` gives, for **all** parameter bytes, exactly the operation list the composite model
    expands `csiDispatch` into (none when there are no parameter bytes: the early `emit; return`).
    Proved by evaluating the walk on the regenerated list — a reordered `Get`/`append`, a dropped
    `[:0]`-`Get` or an extra one breaks this theorem. -/
theorem expansion_is_regenerated_body (params : List Rune) :
    bodyOps params Gen.ParserActs.csiDispatchBody {} = csiOps params := by
  have key := fun cs d h => opsOfLoop_sem cs d (expansion_step cs d h) params {}
  unfold csiOps
  cases hp : params.isEmpty with
  | true => simp [Gen.ParserActs.csiDispatchBody, bodyOps, hp]
  | false =>
    simp only [Gen.ParserActs.csiDispatchBody, bodyOps, hp, loopOpOps, VaxisModel.Model.ParserActs.LoopOp.run,
      Bool.false_eq_true, if_false, List.nil_append, List.cons_append]
    rw [← key _ _ (by simp [Gen.ParserActs.csiDispatchBody]; exact ⟨rfl, rfl⟩)]

/-- The "never blocks" half of `driven_params_run_is_pool_run` is about the order of `Get`s and
    `append`s: the operations of a `csiDispatch` without the `paramPool.Get()` of the `case ';'` clause
    (`noGetBody`), on `1;2`, are **not** a run of the pool model — after `csi.Parameters =
    append(csi.Parameters, param)` the array belongs to the sequence and `append(param, 2)` has no
    array of its own to write to — while the operations of the regenerated body are. -/
theorem driven_params_needs_get_per_param :
    (driveOps [] (bodyOps [0x31, 0x3B, 0x32] noGetBody {}) [] {}).isNone = true ∧
    (driveOps [] (bodyOps [0x31, 0x3B, 0x32] Gen.ParserActs.csiDispatchBody {}) [] {}).isSome = true := by
  decide +kernel

/-- The cell encoding loses nothing. -/
theorem cell_encoding_injective (v w : Int) (h : enc v = enc w) : v = w := enc_injective v w h

/-! ### non-vacuity -/

-- `exRetain` = `ESC [ 1 ; 2 : 3 m  ESC [ 4 m`, the first CSI retained while the second is parsed, its
-- `Finish` interleaved in the middle of the second `csiDispatch`: the composite runs; the second
-- dispatch's `paramPool.Get()` returns the array that held `[1]` (pooled one label earlier, stale
-- length 1) and overwrites it; both hand-overs read the decoded parameters (cells are `enc v = 2·v`
-- for v ≥ 0); the CSI still held is intact
example : (drun handTable DSt.init exRetain).map (fun d => (d.out, d.trace, d.acc.views, pAllIntact d.pool)) =
  some ([.csi [] [[1], [2, 3]] 0x6D, .csi [] [[4]] 0x6D],
    [.begin none, .get none, .app 2 1, .push 1, .get none, .app 4 1, .app 6 2, .push 2, .emit,
     .begin none, .finish 0, .finPut 0, .get (some 0), .finPut 0, .app 8 1, .finPut 0, .push 1, .emit],
    [⟨[[1], [2, 3]], [[2], [4, 6]]⟩, ⟨[[4]], [[8]]⟩], true) := by decide +kernel

-- the same input with a consumer that never calls `Finish`: both CSIs are held at the end (the
-- hypothesis `x ∈ d.pool.delivered` of the theorems above is met twice), over distinct arrays
example : (drun handTable DSt.init exHeld).map (fun d => (d.pool.delivered, d.pool.pheap.length, d.pool.lheap.length)) =
  some ([⟨⟨1, 1⟩, [[8]]⟩, ⟨⟨0, 2⟩, [[2], [4, 6]]⟩], 3, 2) := by decide +kernel

-- `ESC [ 1:2:3:4:5:6:7 ; 1 ; 1 ; 1 ; 1 m`: the seventh sub-parameter outgrows `make([]int, 0, 6)`, the
-- fifth parameter outgrows `make([][]int, 0, 4)` (both `append`s allocate); held and intact; then the
-- consumer finishes it Put by Put and `ESC [ 9 m` takes the list and the last-put array back
example : (drun handTable DSt.init exGrow).map (fun d => (d.out, d.acc.views.map (·.slice), pAllIntact d.pool)) =
  some ([.csi [] [[1, 2, 3, 4, 5, 6, 7], [1], [1], [1], [1]] 0x6D, .csi [] [[9]] 0x6D],
    [[[2, 4, 6, 8, 10, 12, 14], [2], [2], [2], [2]], [[18]]], true) := by decide +kernel
example : (drun handTable DSt.init exGrow).map (fun d => (d.pool.delivered, d.pool.ppool.length, d.pool.lpool.length)) =
  some ([⟨⟨1, 1⟩, [[18]]⟩], 4, 0) := by decide +kernel

-- in the middle of the second `csiDispatch` of `exHeld` (12 pool labels issued: `begin, get, app 4` of the
-- second dispatch done, `push`/`emit` to come) the first CSI is held and reads what it read at delivery
-- (`driven_params_delivered_immutable` with `n = 12` speaks about this state)
example : ((drun handTable DSt.init exHeld).bind (fun d => prun PSt.init (d.trace.take 12))).map
    (fun s => (s.work, s.delivered, pAllIntact s)) =
  some (some (⟨1, 0⟩, some ⟨2, 1⟩), [⟨⟨0, 2⟩, [[2], [4, 6]]⟩], true) := by decide +kernel

-- `ESC [ m`: no parameter bytes — `csiDispatch` takes the early `emit; return`, touches no pool, hands
-- no storage over (`Parameters` is nil)
example : (drun handTable DSt.init [.rune 0x1B [], .rune 0x5B [], .rune 0x6D []]).map
    (fun d => (d.out, d.trace, d.acc.views)) = some ([.csi [] [] 0x6D], [], []) := by decide +kernel

end VaxisModel.Props.C08DriveParams
