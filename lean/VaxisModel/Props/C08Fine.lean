/-
C08 — the atomicity assumption of Props/C08.lean discharged.  `Model/ParserRunFine.lean` runs `run`,
`readRune` and the Escape-timer callbacks one statement at a time, with `p.mu` and `p.escGen` as state;
here: every interleaving of those statements is a run of the atomic system (`Sys.step T Cfg.fixed`)
with the same output, and the atomic theorems carry over.  Property theorems only (helper lemmas,
the invariant `FInv` and the abstraction `abs`/`pend` live in Lemmas/ParserRunFine.lean).
-/
import VaxisModel.Model.ParserRunFine
import VaxisModel.Lemmas.ParserRunFine
import VaxisModel.Props.C08

namespace VaxisModel.Props.C08Fine
open VaxisModel.Model.ParserTable VaxisModel.Model.Parser VaxisModel.Model.ParserRun
open VaxisModel.Model.ParserRunFine VaxisModel.Lemmas.ParserRunFine VaxisModel.Lemmas.ParserRun
open VaxisModel.Lemmas.ParserAbs

/-- The side condition on the table (the arm of `anywhere` that arms the timer does not end the
    loop) holds of the parser's table. -/
theorem hand_table_timer_ok : TimerOk handTable := handTable_timerOk

/-- **Refinement: statement-grained ⊑ atomic, for every interleaving.**  For every finite schedule of
    statements of the main goroutine (select, read return, `Stop`, `Lock` — blocking while a callback
    holds the mutex —, `escGen++`, `anywhere`, `Unlock`, and after the loop `Stop`, `Lock`, `escGen++`,
    `Unlock`, `emit(EOF)`, `close`), of `Close()`, of timer expiries and of the statements of any number
    of callback goroutines (`Lock`, generation check, `emit(C0 1B)`, `state = ground`,
    `ignoreST = false`, `Unlock`), there is a run of the atomic system from its initial state to the
    abstraction of the state reached whose output is the output of the schedule followed by `pend` —
    the items of the one atomic step the statements are still in the middle of; `pend` is empty
    whenever the main goroutine is at the `select`, blocked in the read, or finished. -/
theorem fine_refines_atomic (T : Table) (hT : TimerOk T) (fls : List FLabel) (f : FSys) (out : List Seq)
    (h : FSys.run T FSys.init fls = some (f, out)) :
    ∃ ls b oa, Sys.run T Cfg.fixed Sys.init ls = some (abs T f b, oa) ∧ oa = out ++ pend T f ∧
      (f.mpc = .atSelect ∨ f.mpc = .inRead ∨ f.mpc = .done → pend T f = []) := by
  obtain ⟨_, _, ls, b, oa, h1, _, h3⟩ := reach_sim T hT fls f out h
  exact ⟨ls, b, oa, h1, h3, pend_quiescent T f⟩

/-- **Mutual exclusion** in every reachable state: the main goroutine is between a `Lock` and its
    `Unlock` iff the mutex is held by it; exactly one callback is between its `Lock` and its `Unlock`
    iff the mutex is held by a callback (none otherwise); so a callback and the main goroutine, or two
    callbacks, are never inside together.  Also: a callback past its check saw the current generation,
    and a pending timer carries the current generation. -/
theorem fine_mutual_exclusion (T : Table) (hT : TimerOk T) (fls : List FLabel) (f : FSys) (out : List Seq)
    (h : FSys.run T FSys.init fls = some (f, out)) :
    (f.mutex = some .main ↔ holdsMain f.mpc = true) ∧
    (f.cbs.countP (fun c => crit c.2)) = (if f.mutex = some .cb then 1 else 0) ∧
    (holdsMain f.mpc = true → ∀ c ∈ f.cbs, crit c.2 = false) ∧
    (∀ c ∈ f.cbs, c.2 = .passed → c.1 = f.escGen) ∧ (∀ g, f.armed = some g → g = f.escGen) := by
  obtain ⟨hinv, _, _⟩ := reach_sim T hT fls f out h
  exact ⟨hinv.m1, hinv.m2, fun hh => nCrit_zero (main_no_crit hinv hh), hinv.p1, fun g hg => (hinv.g2 g hg).1⟩

/-- **Exactly one EOF, last, then the channel is closed** — in every interleaving: when the channel
    has been closed the output is `pre ++ [EOF]` with no EOF in `pre`; before `emit(EOF{})` has run no
    EOF has been emitted; in between (EOF sent, channel not yet closed) the output is already
    `pre ++ [EOF]`. -/
theorem fine_eof_once_last (T : Table) (hT : TimerOk T) (fls : List FLabel) (f : FSys) (out : List Seq)
    (h : FSys.run T FSys.init fls = some (f, out)) :
    (f.chanClosed = true → f.mpc = .done) ∧
    ((∃ v, f.mpc = .fin .close v) ∨ f.mpc = .done → ∃ pre, out = pre ++ [.eof] ∧ Seq.eof ∉ pre) ∧
    (¬ ((∃ v, f.mpc = .fin .close v) ∨ f.mpc = .done) → Seq.eof ∉ out ∧ f.chanClosed = false) := by
  obtain ⟨hinv, _, ls, b, oa, h1, _, h3⟩ := reach_sim T hT fls f out h
  have ha := VaxisModel.Props.C08.eof_once_last T Cfg.fixed rfl ls _ oa h1
  refine ⟨hinv.c1, ?_, ?_⟩
  · intro hpc
    have hd : (abs T f b).pc = .done := by
      rcases hpc with ⟨v, hpc⟩ | hpc
      · cases v <;> simp [abs, absPc, hpc]
      · simp [abs, absPc, hpc]
    have hp : pend T f = [] := by
      rcases hpc with ⟨v, hpc⟩ | hpc
      · simp [pend, hpc]
      · simp [pend, hpc]
    obtain ⟨⟨pre, e1, e2⟩, _⟩ := ha.1 hd
    rw [hp, List.append_nil] at h3
    exact ⟨pre, by rw [← h3, e1], e2⟩
  · intro hpc
    have hcc : f.chanClosed = false := by
      cases hc : f.chanClosed with
      | false => rfl
      | true => exact absurd (Or.inr (hinv.c1 hc)) hpc
    refine ⟨?_, hcc⟩
    by_cases hd : (abs T f b).pc = .done
    · obtain ⟨⟨pre, e1, e2⟩, _⟩ := ha.1 hd
      rcases absPc_done_pend T f hd with ⟨_, h'⟩ | ⟨X, hX⟩
      · exact absurd h' hpc
      · rw [hX, ← List.append_assoc] at h3
        rw [h3] at e1
        have := List.append_inj_left' e1 rfl
        intro hmem
        exact e2 (this ▸ List.mem_append_left _ hmem)
    · have := (ha.2 hd).1
      rw [h3] at this
      exact fun hmem => this (List.mem_append_left _ hmem)

/-- **No send on the closed channel**, in any interleaving: once `close(p.sequences)` has run, no
    statement of any goroutine — in particular no late timer callback — emits anything. -/
theorem fine_no_send_on_closed (T : Table) (hT : TimerOk T) (fls : List FLabel) (f : FSys) (out : List Seq)
    (h : FSys.run T FSys.init fls = some (f, out)) (hc : f.chanClosed = true)
    (l : FLabel) (f' : FSys) (o : List Seq) (hs : FSys.step T f l = some (f', o)) :
    o = [] ∧ f'.chanClosed = true := by
  obtain ⟨hinv, _, _⟩ := reach_sim T hT fls f out h
  exact closed_step_silent T f f' l o hinv hc hs

/-- **No panic** in any interleaving (the parser's table): no `panic` item — nil `p.exit()`, action on
    the rune of an `eof`, send on the closed channel — is ever emitted. -/
theorem fine_no_panic (fls : List FLabel) (f : FSys) (out : List Seq)
    (h : FSys.run handTable FSys.init fls = some (f, out)) : Seq.panic ∉ out := by
  obtain ⟨_, _, ls, b, oa, h1, _, h3⟩ := reach_sim handTable handTable_timerOk fls f out h
  have := (VaxisModel.Props.C08.no_panic ls _ oa h1).1
  rw [h3] at this
  exact fun hmem => this (List.mem_append_left _ hmem)

/-- **An Escape report is a lone ESC, in every interleaving.**  The only statement of a callback
    that emits is its `emit`; when callback `i` is about to execute it, it holds the mutex, the
    generation it captured is the current one (no read has returned and the loop has not ended since
    its ESC), the channel is open, and the parser is in the `escape` state that ESC put it in; what it
    emits is `C0 0x1B`.  So the report never comes after a further transition, never tears a sequence
    and never hits the closed channel. -/
theorem fine_escape_report_is_lone_esc (fls : List FLabel) (f : FSys) (out : List Seq)
    (h : FSys.run handTable FSys.init fls = some (f, out))
    (i : Nat) (f' : FSys) (o : List Seq) (hs : FSys.step handTable f (.cb i) = some (f', o)) (ho : o ≠ []) :
    o = [.c0 0x1B] ∧ f.mutex = some .cb ∧ f.cbs[i]? = some (f.escGen, .passed) ∧ f.chanClosed = false ∧
      f.ps.state = .escape := by
  obtain ⟨hinv, _, ls, b, oa, h1, _, _⟩ := reach_sim handTable handTable_timerOk fls f out h
  have hS := (run_SInv ls Sys.init _ oa SInv_init h1).1
  simp only [FSys.step] at hs
  unfold cbStep at hs
  split at hs
  · cases hs
  · rename_i g pc hi
    cases pc <;> simp only at hs
    case started =>
      split at hs
      · simp only [Option.some.injEq, Prod.mk.injEq] at hs; exact absurd hs.2.symm ho
      · cases hs
    case passed =>
      obtain ⟨e1, e2, e3, e4⟩ := esc_report_state f hinv i g hi b hS
      simp only [Option.some.injEq, Prod.mk.injEq] at hs
      subst e2
      exact ⟨by rw [← hs.2, e3]; rfl, e1, hi, e3, e4⟩
    case gone => cases hs
    all_goals (simp only [Option.some.injEq, Prod.mk.injEq] at hs; exact absurd hs.2.symm ho)

/-- **Conversely, the atomic system has no behaviour of its own**: every run of the atomic system
    (any schedule of reads, end of input, `Close()`, timer firings, late callbacks — the schedules of
    Props/C08.lean and of the F29 witnesses' repaired halves) is produced, item for item, by a schedule of
    single statements that ends in a quiescent state (mutex free, main goroutine at the `select`, in the
    read or finished, every callback not yet locked or returned) standing for the same atomic state.
    With `fine_refines_atomic`: the two systems have the same outputs at quiescent points. -/
theorem atomic_refines_fine (T : Table) (hT : TimerOk T) (ls : List Label) (a : Sys) (oa : List Seq)
    (h : Sys.run T Cfg.fixed Sys.init ls = some (a, oa)) :
    ∃ fls f, FSys.run T FSys.init fls = some (f, oa) ∧ Quiet f ∧ a = abs T f f.armed.isSome ∧ pend T f = [] := by
  rw [← absQ_init T] at h
  obtain ⟨fls, f, h1, q, e⟩ := conv_run T hT ls FSys.init FInv_init quiet_init a oa h
  exact ⟨fls, f, h1, q, e, pend_quiescent T f q.pc⟩

example : (Sys.run handTable Cfg.fixed Sys.init
    [.enterRead, .read 0x1B, .enterRead, .timerExpire, .read 0x5B, .enterRead, .read 0x41, .cbRun false]).map (·.2) =
    some [.csi [] [] 0x41] := by decide

/-- **Emitting statements are serialised** (what the bounded-channel layer `Model/ParserRunChan.lean`
    takes for granted): in every reachable state in which a callback is at its `emit(C0 0x1B)`, the main
    goroutine is at neither of its emitting statements (`anywhere` under the mutex, `emit(EOF{})` after the
    final generation bump) and no other callback is at its `emit` — so at most one goroutine is ever
    sending, or blocked sending, on `p.sequences`. -/
theorem fine_single_emitter (T : Table) (hT : TimerOk T) (fls : List FLabel) (f : FSys) (out : List Seq)
    (h : FSys.run T FSys.init fls = some (f, out)) (i g : Nat) (hi : f.cbs[i]? = some (g, .passed)) :
    (∀ inp, f.mpc ≠ .bumped inp) ∧ (∀ v, f.mpc ≠ .fin .emit v) ∧
    (∀ j g', f.cbs[j]? = some (g', .passed) → j = i) := by
  obtain ⟨hinv, _, _⟩ := reach_sim T hT fls f out h
  exact single_emitter f hinv i g hi

example : (FSys.run handTable FSys.init
    [.main, .readRet (.rune 0x1B), .main, .main, .main, .main, .main, .main, .expire, .cb 0, .cb 0]).map
      (fun x => x.1.cbs[0]?) = some (some (1, .passed)) := by decide

/-- **The mutex is never held for ever**: in every reachable state in which the main goroutine is
    neither blocked in the read nor finished, its next statement is enabled, or — it is waiting in
    `Lock` — the callback that holds the mutex can take its next statement (and a callback's critical
    section is at most five statements, none of which can block in this model: `emit` is the channel
    send, see the consumer assumption). -/
theorem fine_no_deadlock (T : Table) (hT : TimerOk T) (fls : List FLabel) (f : FSys) (out : List Seq)
    (h : FSys.run T FSys.init fls = some (f, out)) (h1 : f.mpc ≠ .inRead) (h2 : f.mpc ≠ .done) :
    (FSys.step T f .main).isSome = true ∨ ∃ i, (FSys.step T f (.cb i)).isSome = true := by
  obtain ⟨hinv, _, _⟩ := reach_sim T hT fls f out h
  exact no_deadlock T f hinv h1 h2

/-- … and only a callback reports Escape: no statement of the main goroutine (nor `Close()`, a read
    return or a timer expiry) emits `C0 0x1B` — ESC is intercepted by `anywhere`, whose arm has no
    `execute`. -/
theorem fine_only_callbacks_report_escape (f f' : FSys) (l : FLabel) (o : List Seq)
    (hl : ∀ i, l ≠ .cb i) (hs : FSys.step handTable f l = some (f', o)) : Seq.c0 0x1B ∉ o := by
  cases l with
  | closeSig => simp only [FSys.step, Option.some.injEq, Prod.mk.injEq] at hs; rw [← hs.2]; simp
  | readRet i =>
    simp only [FSys.step] at hs
    split at hs
    · simp only [Option.some.injEq, Prod.mk.injEq] at hs; rw [← hs.2]; simp
    · cases hs
  | expire =>
    simp only [FSys.step] at hs
    split at hs
    · simp only [Option.some.injEq, Prod.mk.injEq] at hs; rw [← hs.2]; simp
    · cases hs
  | cb i => exact absurd rfl (hl i)
  | main =>
    simp only [FSys.step] at hs
    cases hpc : f.mpc with
    | bumped i =>
      simp only [mainStep, hpc, Option.some.injEq, Prod.mk.injEq] at hs
      rw [← hs.2]; exact pstep_no_esc_key f.ps i
    | atSelect =>
      simp only [mainStep, hpc] at hs
      split at hs <;> (simp only [Option.some.injEq, Prod.mk.injEq] at hs; rw [← hs.2]; simp)
    | stopped i =>
      simp only [mainStep, hpc] at hs
      split at hs
      · simp only [Option.some.injEq, Prod.mk.injEq] at hs; rw [← hs.2]; simp
      · cases hs
    | fin st v =>
      cases st <;> simp only [mainStep, hpc] at hs
      case lock =>
        split at hs
        · simp only [Option.some.injEq, Prod.mk.injEq] at hs; rw [← hs.2]; simp
        · cases hs
      all_goals (simp only [Option.some.injEq, Prod.mk.injEq] at hs; rw [← hs.2]; simp)
    | inRead => simp [mainStep, hpc] at hs
    | done => simp [mainStep, hpc] at hs
    | readDone i => simp only [mainStep, hpc, Option.some.injEq, Prod.mk.injEq] at hs; rw [← hs.2]; simp
    | locked i => simp only [mainStep, hpc, Option.some.injEq, Prod.mk.injEq] at hs; rw [← hs.2]; simp
    | stepped b => simp only [mainStep, hpc, Option.some.injEq, Prod.mk.injEq] at hs; rw [← hs.2]; simp

example : (FSys.step handTable { FSys.init with mpc := .bumped (.rune 0x41) } .main).map (·.2) = some [.print 0x41] := by
  decide

/-- **The generation check is what makes this true** (the mutex alone does not): with a callback that
    locks but does not compare generations, the same statement-grained system reports Escape *after* the
    sequence `ESC [ A` has been delivered, and sends on the closed channel when the input ends first —
    while the real callback, on the same schedules, does neither. -/
theorem fine_needs_generation_check :
    ((FSys.runNoCheck handTable FSys.init
        [.main, .readRet (.rune 0x1B), .main, .main, .main, .main, .main, .main, .expire,
         .readRet (.rune 0x5B), .main, .main, .main, .main, .main,
         .main, .readRet (.rune 0x41), .main, .main, .main, .main, .main, .cb 0, .cb 0, .cb 0]).map (·.2)
      = some [.csi [] [] 0x41, .c0 0x1B]) ∧
    ((FSys.run handTable FSys.init
        [.main, .readRet (.rune 0x1B), .main, .main, .main, .main, .main, .main, .expire,
         .readRet (.rune 0x5B), .main, .main, .main, .main, .main,
         .main, .readRet (.rune 0x41), .main, .main, .main, .main, .main, .cb 0, .cb 0, .cb 0]).map (·.2)
      = some [.csi [] [] 0x41]) ∧
    ((FSys.runNoCheck handTable FSys.init
        [.main, .readRet (.rune 0x1B), .main, .main, .main, .main, .main, .main, .expire,
         .readRet .eof, .main, .main, .main, .main, .main, .main, .main, .main, .main, .main, .main,
         .cb 0, .cb 0, .cb 0]).map (·.2) = some [.eof, .panic]) ∧
    ((FSys.run handTable FSys.init
        [.main, .readRet (.rune 0x1B), .main, .main, .main, .main, .main, .main, .expire,
         .readRet .eof, .main, .main, .main, .main, .main, .main, .main, .main, .main, .main, .main,
         .cb 0, .cb 0, .cb 0]).map (·.2) = some [.eof]) := by decide

/-! ### non-vacuity: concrete interleavings -/

/-- `ESC`, the loop blocks in the next read, the timer expires, its callback runs statement by
    statement: one Escape report. -/
example : (FSys.run handTable FSys.init
    [.main, .readRet (.rune 0x1B), .main, .main, .main, .main, .main, .main, .expire,
     .cb 0, .cb 0, .cb 0, .cb 0, .cb 0, .cb 0]).map (fun x => (x.2, x.1.ps.state, x.1.mutex)) =
    some ([.c0 0x1B], .ground, none) := by decide

/-- The F29 race, statement by statement: the timer expires, the callback goroutine is delayed until
    the next read has returned and the main goroutine has taken the mutex; the callback blocks
    (`cb 0` is not enabled), then fails its check: `CSI A` only, no Escape report. -/
example : (FSys.run handTable FSys.init
    [.main, .readRet (.rune 0x1B), .main, .main, .main, .main, .main, .main, .expire,
     .readRet (.rune 0x5B), .main, .main]).bind (fun x => FSys.step handTable x.1 (.cb 0)) = none := by decide

example : (FSys.run handTable FSys.init
    [.main, .readRet (.rune 0x1B), .main, .main, .main, .main, .main, .main, .expire,
     .readRet (.rune 0x5B), .main, .main, .main, .main, .main, .cb 0, .cb 0, .cb 0,
     .main, .readRet (.rune 0x41), .main, .main, .main, .main, .main]).map (·.2) =
    some [.csi [] [] 0x41] := by decide

/-- The callback takes the mutex first: the main goroutine's `Lock` is not enabled, the callback can move. -/
example : (FSys.run handTable FSys.init
    [.main, .readRet (.rune 0x1B), .main, .main, .main, .main, .main, .main, .expire,
     .readRet (.rune 0x5B), .main, .cb 0]).map
      (fun x => ((FSys.step handTable x.1 .main).isSome, (FSys.step handTable x.1 (.cb 0)).isSome)) =
    some (false, true) := by decide

/-- A callback started before the end of input and run after `close(p.sequences)`: nothing is sent. -/
example : (FSys.run handTable FSys.init
    [.main, .readRet (.rune 0x1B), .main, .main, .main, .main, .main, .main, .expire,
     .readRet .eof, .main, .main, .main, .main, .main, .main, .main, .main, .main, .main, .main,
     .cb 0, .cb 0, .cb 0]).map (fun x => (x.2, x.1.chanClosed, x.1.mpc)) = some ([.eof], true, .done) := by decide

/-- **F29 at the grain of single statements**: with the callback as it was before the repair
    (`emit(C0 0x1B)` outside the mutex and without a generation check, then `Lock; state = ground;
    ignoreST = false; Unlock`) the statement-grained system (a) reports Escape after `ESC [ A` has been
    delivered as a CSI, (b) tears the sequence when the callback runs between `[` and `A` (`C0 1B`, then
    `A` printed from ground), (c) sends on the closed channel when it runs after `run` has finished;
    the repaired callback, on the same schedules with its own statements, does none of this
    (`fine_escape_report_is_lone_esc`, `fine_no_send_on_closed`, `fine_no_panic`). -/
theorem fine_pre_F29_callback_fails :
    ((FSys.runOld handTable FSys.init
        [.main, .readRet (.rune 0x1B), .main, .main, .main, .main, .main, .main, .expire,
         .readRet (.rune 0x5B), .main, .main, .main, .main, .main,
         .main, .readRet (.rune 0x41), .main, .main, .main, .main, .main,
         .cb 0, .cb 0, .cb 0, .cb 0, .cb 0]).map (·.2) = some [.csi [] [] 0x41, .c0 0x1B]) ∧
    ((FSys.runOld handTable FSys.init
        [.main, .readRet (.rune 0x1B), .main, .main, .main, .main, .main, .main, .expire,
         .readRet (.rune 0x5B), .main, .main, .main, .main, .main, .cb 0, .cb 0, .cb 0, .cb 0, .cb 0,
         .main, .readRet (.rune 0x41), .main, .main, .main, .main, .main]).map (·.2) = some [.c0 0x1B, .print 0x41]) ∧
    ((FSys.runOld handTable FSys.init
        [.main, .readRet (.rune 0x1B), .main, .main, .main, .main, .main, .main, .expire,
         .readRet .eof, .main, .main, .main, .main, .main, .main, .main, .main, .main, .main, .main,
         .cb 0]).map (·.2) = some [.eof, .panic]) := by
  refine ⟨?_, ?_, ?_⟩ <;> decide +kernel

end VaxisModel.Props.C08Fine
