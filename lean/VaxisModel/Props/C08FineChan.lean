/-
C08 — the life cycle with the **bounded channel on the statement-grained system** (round 3): every
`emit` of every goroutine blocks while `p.sequences` is full; a timer callback blocked in
`emit(C0 0x1B)` holds `p.mu`, and so does the main goroutine blocked in an `emit` inside `anywhere`.
Property theorems only (model: Model/ParserRunFineChan.lean; lemmas: Lemmas/ParserRunFineChan.lean).
-/
import VaxisModel.Lemmas.ParserRunFineChan
import VaxisModel.Props.C08Fine
import VaxisModel.Props.C08Spec

namespace VaxisModel.Props.C08FineChan
open VaxisModel.Model.ParserTable VaxisModel.Model.Parser VaxisModel.Model.ParserRun VaxisModel.Model.ParserRunFine
open VaxisModel.Model.ParserRunFineChan VaxisModel.Lemmas.ParserRunFine VaxisModel.Lemmas.ParserRunFineChan

/-- **Bounded channel ⊑ statement-grained system, nothing lost / duplicated / reordered.**  Every
    schedule of single statements of all goroutines, of sends that go through when there is room and
    of receives by the consumer — with every `emit` blocking on a full channel — projects (drop
    `send`/`recv`) to a run of the statement-grained system without channel, and what the consumer has
    received, followed by what is queued, followed by what `anywhere` still has to send, is exactly
    the output of that run, in order.  The channel never holds more than `cap` items.  Hence every
    theorem of `Props/C08Fine.lean` about outputs (and, through `fine_refines_atomic`, of
    `Props/C08.lean` / `C08Spec.lean`) speaks about what the consumer receives. -/
theorem fchan_refines_fine (T : Table) (hT : TimerOk T) (cap : Nat) (ls : List FCLabel) (s : FCSys)
    (h : FCSys.run T cap FCSys.init ls = some s) :
    ∃ out, FSys.run T FSys.init (stmtLabels ls) = some (s.f, out) ∧ s.recvd ++ s.chan ++ s.pend = out ∧
      s.chan.length ≤ cap := by
  obtain ⟨hci, out, h1, h2⟩ := run_proj T hT cap ls FCSys.init s (CI_init cap) h
  exact ⟨out, h1, by simpa [FCSys.init] using h2, hci.bound⟩

/-- **Exactly one EOF, received last; nothing before `run` is past its `emit(EOF{})`** — with blocking
    emits, in every interleaving: when everything is over (`run` returned, all sent, all received) the
    consumer has `pre ++ [EOF]` with no EOF in `pre`; as long as the main goroutine has not executed
    `emit(EOF{})` there is no EOF anywhere (received, queued or pending) and the channel is open;
    the channel is closed only when `run` is done. -/
theorem fchan_eof_received_last (T : Table) (hT : TimerOk T) (cap : Nat) (ls : List FCLabel) (s : FCSys)
    (h : FCSys.run T cap FCSys.init ls = some s) :
    (s.finished → ∃ pre, s.recvd = pre ++ [.eof] ∧ Seq.eof ∉ pre) ∧
    (¬ ((∃ v, s.f.mpc = .fin .close v) ∨ s.f.mpc = .done) →
      Seq.eof ∉ s.recvd ++ s.chan ++ s.pend ∧ s.f.chanClosed = false) ∧
    (s.f.chanClosed = true → s.f.mpc = .done) := by
  obtain ⟨out, h1, h2, _⟩ := fchan_refines_fine T hT cap ls s h
  obtain ⟨e1, e2, e3⟩ := VaxisModel.Props.C08Fine.fine_eof_once_last T hT _ s.f out h1
  refine ⟨?_, ?_, e1⟩
  · rintro ⟨hd, hp, hc⟩
    obtain ⟨pre, hpre, hno⟩ := e2 (Or.inr hd)
    exact ⟨pre, by rw [← hpre, ← h2, hp, hc]; simp, hno⟩
  · intro hn
    rw [h2]
    exact e3 hn

/-- **No panic reaches the consumer, nor is one in flight** (the parser's table, any capacity): no
    nil `p.exit()`, no action on the rune of `eof`, no send on the closed channel — in any
    interleaving with blocking emits. -/
theorem fchan_no_panic (cap : Nat) (ls : List FCLabel) (s : FCSys)
    (h : FCSys.run handTable cap FCSys.init ls = some s) : Seq.panic ∉ s.recvd ++ s.chan ++ s.pend := by
  obtain ⟨out, h1, h2, _⟩ := fchan_refines_fine handTable handTable_timerOk cap ls s h
  rw [h2]
  exact VaxisModel.Props.C08Fine.fine_no_panic _ s.f out h1

/-- **A callback blocked in `emit` holds the mutex — and one receive unblocks it.**  Reachable state,
    capacity ≥ 1, callback `i` at its `emit(C0 0x1B)`, channel full: its statement is not enabled; the
    mutex is held by a callback; the main goroutine is outside its critical sections, nothing of
    `anywhere` is pending, and if the main goroutine is in front of a `Lock` (after a read returned,
    or after the loop) it is blocked as well; no other callback goroutine can take a step; the
    consumer can receive, and after one receive the `emit` is enabled. -/
theorem fchan_blocked_callback_holds_mutex (T : Table) (hT : TimerOk T) (cap : Nat) (hcap : 0 < cap)
    (ls : List FCLabel) (s : FCSys) (h : FCSys.run T cap FCSys.init ls = some s) (i g : Nat)
    (hi : s.f.cbs[i]? = some (g, .passed)) (hfull : s.chan.length = cap) :
    FCSys.step T cap s (.stmt (.cb i)) = none ∧ s.f.mutex = some .cb ∧ holdsMain s.f.mpc = false ∧ s.pend = [] ∧
    ((∃ inp, s.f.mpc = .stopped inp) ∨ (∃ v, s.f.mpc = .fin .lock v) → FCSys.step T cap s (.stmt .main) = none) ∧
    (∀ j, j ≠ i → FCSys.step T cap s (.stmt (.cb j)) = none) ∧
    (∃ s1, FCSys.step T cap s .recv = some s1 ∧ (FCSys.step T cap s1 (.stmt (.cb i))).isSome = true) :=
  blocked_callback T cap hcap s (run_proj T hT cap ls FCSys.init s (CI_init cap) h).1 i g hi hfull

/-- **The main goroutine blocked in an `emit` inside `anywhere` holds the mutex**: while items of the
    current `anywhere` call are still to be sent, its `Unlock` is not enabled, the mutex is its, and no
    callback goroutine can take a step (a started one waits in `Lock`; none is past it). -/
theorem fchan_blocked_main_holds_mutex (T : Table) (hT : TimerOk T) (cap : Nat) (ls : List FCLabel) (s : FCSys)
    (h : FCSys.run T cap FCSys.init ls = some s) (hpend : s.pend ≠ []) :
    FCSys.step T cap s (.stmt .main) = none ∧ s.f.mutex = some .main ∧
    (∀ j, FCSys.step T cap s (.stmt (.cb j)) = none) :=
  blocked_main T cap s (run_proj T hT cap ls FCSys.init s (CI_init cap) h).1 hpend

/-- **No deadlock with a consumer that keeps receiving** (capacity ≥ 1): in every reachable state in
    which the main goroutine is not waiting for input and not everything is over, a transition is
    enabled — a statement of the main goroutine, a statement of a callback, a pending send, or a
    receive.  (A blocked `emit` always leaves `recv` enabled; the holder of the mutex can always move
    once its `emit` went through.) -/
theorem fchan_no_deadlock (T : Table) (hT : TimerOk T) (cap : Nat) (hcap : 0 < cap) (ls : List FCLabel) (s : FCSys)
    (h : FCSys.run T cap FCSys.init ls = some s) (h1 : s.f.mpc ≠ .inRead) (h2 : ¬ s.finished) :
    (FCSys.step T cap s (.stmt .main)).isSome = true ∨ (∃ i, (FCSys.step T cap s (.stmt (.cb i))).isSome = true) ∨
    (FCSys.step T cap s .send).isSome = true ∨ (FCSys.step T cap s .recv).isSome = true :=
  chan_no_deadlock T cap hcap s (run_proj T hT cap ls FCSys.init s (CI_init cap) h).1 h1 h2

/-- **Three layers composed: what the consumer receives is what the Spec prescribes.**  The parser's
    table, any channel capacity, any interleaving of single statements of all goroutines with blocking
    emits, sends and receives: whenever the main goroutine is at the `select`, blocked in the read or
    has returned, there is a schedule of atomic life-cycle labels (reads, end of input, `Close()`,
    timer firings, late callbacks) for which the reference machine of `Spec/VT500.lean` prescribes
    exactly the items received so far followed by those still queued (`error` reports dropped): runes
    through the VT500 machine, the Escape key exactly at up-to-date timer firings, the open control
    string at end of input, one `EOF{}`.  (`fchan_refines_fine` ∘ `fine_refines_atomic` ∘
    `lifecycle_refines_spec`.) -/
theorem fchan_refines_spec (cap : Nat) (ls : List FCLabel) (s : FCSys)
    (h : FCSys.run handTable cap FCSys.init ls = some s)
    (hq : s.f.mpc = .atSelect ∨ s.f.mpc = .inRead ∨ s.f.mpc = .done) :
    ∃ als : List Label,
      VaxisModel.Lemmas.ParserRefine.noErr (s.recvd ++ s.chan) = (VaxisModel.Lemmas.ParserRunSpec.specLabels {} als).2 ∧
      s.pend = [] := by
  obtain ⟨hci, out, h1, h2⟩ := run_proj handTable handTable_timerOk cap ls FCSys.init s (CI_init cap) h
  have hp : s.pend = [] := by
    cases hpe : s.pend with
    | nil => rfl
    | cons x p =>
      obtain ⟨b, hb⟩ := hci.pendAt (by rw [hpe]; simp)
      rcases hq with h | h | h <;> rw [hb] at h <;> cases h
  obtain ⟨als, b, oa, g1, g2, g3⟩ := VaxisModel.Props.C08Fine.fine_refines_atomic handTable handTable_timerOk _ s.f out h1
  have hpend := g3 hq
  have hspec := (VaxisModel.Props.C08Spec.lifecycle_refines_spec als _ oa g1).1
  refine ⟨als, ?_, hp⟩
  rw [← hspec, g2, hpend, List.append_nil]
  have : s.recvd ++ s.chan = out := by
    have := h2
    simp only [FCSys.init, List.append_nil, List.nil_append, hp] at this
    exact this
  rw [this]

/-- Non-vacuity of `fchan_blocked_callback_holds_mutex`, capacity 2 (the code's), the parser's table:
    `A`, `B` are printed and not received (channel full), a lone ESC, its timer expires, the callback
    locks, passes the check — and is blocked in `emit` holding the mutex, while the next read has
    already returned and the main goroutine has stopped in front of `Lock`. -/
def blockedSchedule : List FCLabel :=
  [.stmt .main, .stmt (.readRet (.rune 0x41)), .stmt .main, .stmt .main, .stmt .main, .stmt .main, .send, .stmt .main,
   .stmt .main, .stmt (.readRet (.rune 0x42)), .stmt .main, .stmt .main, .stmt .main, .stmt .main, .send, .stmt .main,
   .stmt .main, .stmt (.readRet (.rune 0x1B)), .stmt .main, .stmt .main, .stmt .main, .stmt .main, .stmt .main,
   .stmt .main, .stmt .expire, .stmt (.cb 0), .stmt (.cb 0), .stmt (.readRet (.rune 0x5B)), .stmt .main]

theorem fchan_blocked_callback_reachable :
    (match FCSys.run handTable 2 FCSys.init blockedSchedule with
     | some s =>
       decide (s.f.cbs[0]? = some (3, .passed)) && decide (s.chan = [.print 0x41, .print 0x42]) &&
       decide (s.f.mutex = some .cb) && decide (s.f.mpc = .stopped (.rune 0x5B)) &&
       (FCSys.step handTable 2 s (.stmt (.cb 0))).isNone && (FCSys.step handTable 2 s (.stmt .main)).isNone
     | none => false) = true ∧
    -- the consumer receives one item: the Escape report goes through, then `[` is parsed from ground
    (match FCSys.run handTable 2 FCSys.init
        (blockedSchedule ++ [.recv, .stmt (.cb 0), .stmt (.cb 0), .stmt (.cb 0), .stmt (.cb 0), .stmt .main]) with
     | some s =>
       decide (s.recvd = [.print 0x41]) && decide (s.chan = [.print 0x42, .c0 0x1B]) &&
       decide (s.f.mutex = some .main) && decide (s.f.ps.state = .ground)
     | none => false) = true := by
  constructor <;> decide +kernel

end VaxisModel.Props.C08FineChan
