/-
C08 — **fair-run termination at the grain of single statements, with the bounded channel**
(`FCSys`, Model/ParserRunFineChan.lean).  The liveness results of `Props/C08Live.lean` live on the atomic
layer; here the same is proved where nothing is atomic: every `Lock`, `escGen++`, `emit`, `Unlock` of
the main goroutine and of every timer-callback goroutine is a transition of its own, every `emit`
blocks on a full channel, a callback blocked in `emit` holds `p.mu`.

The scheduler `fdrive` (Model/ParserRunFineFair.lean) takes, in every state, the first enabled label
of `pol s sc ++ [send, recv, callback holding the mutex, main, read return, Lock of a callback]`; its
parameter `pol : Policy` is an **arbitrary** function of the state and of the rest of the reader's
script — it decides at which points the pending timer expires and may prefer any transition it likes
(only `Close()` and read returns that are not the next scripted input are filtered out).  All theorems
quantify over every `pol`: every fair schedule that is produced by some policy, with callbacks in
flight at any point.  Property theorems only (lemmas: Lemmas/ParserRunFineFair.lean).
-/
import VaxisModel.Lemmas.ParserRunFineFair
import VaxisModel.Props.C08FineChan

namespace VaxisModel.Props.C08FineFair
open VaxisModel.Model.ParserTable VaxisModel.Model.Parser VaxisModel.Model.ParserRun VaxisModel.Model.ParserRunFine
open VaxisModel.Model.ParserRunFineChan VaxisModel.Model.ParserRunFineFair
open VaxisModel.Lemmas.ParserRunFine VaxisModel.Lemmas.ParserRunFineChan VaxisModel.Lemmas.ParserRunFineFair

/-- **Every transition the scheduler may take decreases the measure** (any table, any capacity, any
    state): a statement of the main goroutine or of a callback goroutine, a timer expiry, a send, a
    receive, the return of the next scripted read — everything but `Close()`.  The measure counts the
    statements still to be executed (per remaining input: 7 of the main goroutine, the items one
    `anywhere` may emit, a timer and its callback), two transitions per item to be sent, one per
    queued item.  This is what makes the run finite under *every* policy. -/
theorem fchan_step_decreases_measure (T : Table) (cap : Nat) (s s' : FCSys) (l : FCLabel) (sc : List Inp)
    (h : FCSys.step T cap s l = some s') (hal : allowed sc l = true) :
    mu (tableBound T) s' (consume sc l) < mu (tableBound T) s sc :=
  step_dec T (tableBound T) (step_out_le T) cap s s' l sc h hal

/-- **Fair-run termination at statement grain** — any table that meets `TimerOk` (the parser's does),
    channel capacity ≥ 1, **every** finite input `rs` followed by end of input, **every** policy
    (timer expiries and callbacks in flight wherever the policy puts them): with fuel ≥
    `stepBound (tableBound T) |rs|` = `(24 + 2·B)·(|rs| + 1) + 10` the scheduler stops by itself (its
    trace is shorter than the bound: no fuel exhaustion) in a state where `run` has returned, the
    channel is closed and empty, nothing is pending, every callback goroutine that was started has
    returned, the mutex is free, no timer is pending, and the consumer has received `pre ++ [EOF]`
    with no EOF in `pre`.  The trace is a run of the layer; its statements are a run of the
    statement-grained system without channel whose output is exactly what the consumer received
    (nothing lost, duplicated or reordered); the reads of the trace are a prefix of the script. -/
theorem fchan_fair_run_terminates (T : Table) (hT : TimerOk T) (cap : Nat) (hcap : 0 < cap) (pol : Policy)
    (rs : List Nat) (fuel : Nat) (hf : stepBound (tableBound T) rs.length ≤ fuel) :
    let s := fdrive T cap pol fuel FCSys.init (inputScript rs)
    let tr := ftrace T cap pol fuel FCSys.init (inputScript rs)
    (s.f.mpc = .done ∧ s.f.chanClosed = true ∧ s.chan = [] ∧ s.pend = [] ∧ (∀ c ∈ s.f.cbs, c.2 = .gone) ∧
      s.f.mutex = none ∧ s.f.armed = none) ∧
    (∃ pre, s.recvd = pre ++ [.eof] ∧ Seq.eof ∉ pre) ∧
    FCSys.run T cap FCSys.init tr = some s ∧ tr.length < stepBound (tableBound T) rs.length ∧
    FSys.run T FSys.init (stmtLabels tr) = some (s.f, s.recvd) ∧
    readsOf tr ++ frest T cap pol fuel FCSys.init (inputScript rs) = inputScript rs := by
  intro s tr
  have hmu := mu_init (tableBound T) rs
  have hrun : FCSys.run T cap FCSys.init tr = some s := fdrive_is_run T cap pol fuel _ _
  obtain ⟨⟨hd, hp, hc, hg⟩, hE⟩ := fdrive_final T hT (tableBound T) (step_out_le T) cap hcap pol fuel FCSys.init
    (inputScript rs) (CI_init cap) (E_init rs) (by omega)
  have hci := (run_proj T hT cap tr FCSys.init s (CI_init cap) hrun).1
  obtain ⟨hm, ha⟩ := final_quiet s.f hci.inv hd hg
  obtain ⟨out, h1, h2, _⟩ := VaxisModel.Props.C08FineChan.fchan_refines_fine T hT cap tr s hrun
  have hlen : tr.length ≤ _ := ftrace_length T (tableBound T) (step_out_le T) cap pol fuel FCSys.init (inputScript rs)
  refine ⟨⟨hd, hE.dc hd, hc, hp, hg, hm, ha⟩,
    (VaxisModel.Props.C08FineChan.fchan_eof_received_last T hT cap tr s hrun).1 ⟨hd, hp, hc⟩, hrun, by omega, ?_,
    ftrace_reads T cap pol fuel _ _⟩
  rw [h1, ← h2, hc, hp, List.append_nil, List.append_nil]

/-- More fuel than the bound changes nothing (the scheduler has stopped by itself): end state and
    trace are those of `fuel = stepBound …`. -/
theorem fchan_fair_run_fuel_irrelevant (T : Table) (hT : TimerOk T) (cap : Nat) (pol : Policy) (rs : List Nat)
    (fuel : Nat) (hf : stepBound (tableBound T) rs.length ≤ fuel) :
    fdrive T cap pol fuel FCSys.init (inputScript rs) =
      fdrive T cap pol (stepBound (tableBound T) rs.length) FCSys.init (inputScript rs) ∧
    ftrace T cap pol fuel FCSys.init (inputScript rs) =
      ftrace T cap pol (stepBound (tableBound T) rs.length) FCSys.init (inputScript rs) := by
  have hmu := mu_init (tableBound T) rs
  have := fdrive_stable T hT (tableBound T) (step_out_le T) cap pol (stepBound (tableBound T) rs.length) FCSys.init
    (inputScript rs) (CI_init cap) (by omega) (fuel - stepBound (tableBound T) rs.length)
  rwa [Nat.add_sub_cancel' hf] at this

/-- … **for the code as it is**: the parser's table (= the regenerated one by `C01`; `tableBound` = 9), the
    regenerated channel capacity `chanCap` (2): every finite input, every policy, at most
    `42·(|rs| + 1) + 10` transitions.  Here moreover **every input of the script is read** (no rune
    ends the loop: the reads of the trace are exactly `rs` then `eof`), and what the consumer has
    received is what the reference machine of `Spec/VT500.lean` prescribes for some schedule of atomic
    life-cycle labels (`fchan_refines_spec`). -/
theorem fchan_fair_run_terminates_code (pol : Policy) (rs : List Nat) (fuel : Nat)
    (hf : 42 * (rs.length + 1) + 10 ≤ fuel) :
    let s := fdrive handTable Gen.ParserTable.chanCap pol fuel FCSys.init (inputScript rs)
    let tr := ftrace handTable Gen.ParserTable.chanCap pol fuel FCSys.init (inputScript rs)
    (s.f.mpc = .done ∧ s.f.chanClosed = true ∧ s.chan = [] ∧ s.pend = [] ∧ (∀ c ∈ s.f.cbs, c.2 = .gone) ∧
      s.f.mutex = none ∧ s.f.armed = none) ∧
    (∃ pre, s.recvd = pre ++ [.eof] ∧ Seq.eof ∉ pre) ∧
    FCSys.run handTable Gen.ParserTable.chanCap FCSys.init tr = some s ∧ tr.length < 42 * (rs.length + 1) + 10 ∧
    FSys.run handTable FSys.init (stmtLabels tr) = some (s.f, s.recvd) ∧
    readsOf tr = inputScript rs ∧
    (∃ als : List Label,
      VaxisModel.Lemmas.ParserRefine.noErr s.recvd = (VaxisModel.Lemmas.ParserRunSpec.specLabels {} als).2) := by
  intro s tr
  have h := fchan_fair_run_terminates handTable handTable_timerOk Gen.ParserTable.chanCap (by decide) pol rs fuel
    (by rw [hand_tableBound]; simpa [stepBound] using hf)
  rw [hand_tableBound] at h
  obtain ⟨h1, h2, h3, h4, h5, h6⟩ := h
  have hR := fdrive_reads_all Gen.ParserTable.chanCap pol fuel FCSys.init (inputScript rs) ⟨[], [], rfl⟩ NS_init
    (R_init rs)
  have hrest := hR.pe (by rw [h1.1]; rfl)
  rw [hrest, List.append_nil] at h6
  obtain ⟨als, ha, _⟩ := VaxisModel.Props.C08FineChan.fchan_refines_spec Gen.ParserTable.chanCap tr s h3
    (Or.inr (Or.inr h1.1))
  rw [h1.2.2.1, List.append_nil] at ha
  exact ⟨h1, h2, h3, by simpa [stepBound] using h4, h5, h6, als, ha⟩

-- non-vacuity (`fchan_fair_run_terminates_code`, fuel = the bound for 3 runes = 178): ESC [ A, with a long
-- pause in front of every read (`expireInRead`): the timer of the ESC expires while the main goroutine is
-- blocked in the read, its callback runs statement by statement (Lock, check, emit, state, ignoreST,
-- Unlock) before `[` arrives: Escape key, then `[`, `A` printed, EOF; 47 transitions.
example :
    (let s := fdrive handTable Gen.ParserTable.chanCap expireInRead 178 FCSys.init (inputScript [0x1B, 0x5B, 0x41])
     (s.recvd, s.f.mpc, s.f.cbs, s.chan, s.pend) = ([.c0 0x1B, .print 0x5B, .print 0x41, .eof], .done, [(1, .gone)], [], []) ∧
     (s.f.chanClosed, s.f.mutex, s.f.armed) = (true, none, none)) ∧
    (ftrace handTable Gen.ParserTable.chanCap expireInRead 178 FCSys.init (inputScript [0x1B, 0x5B, 0x41])).length = 47 ∧
    42 * ([0x1B, 0x5B, 0x41].length + 1) + 10 = 178 := by
  decide +kernel
-- the same input, the timer expires in the read but the callback goroutine only gets to run after the
-- main goroutine (`expireLate`): it is in flight during the whole rest of the run, finds its generation
-- out of date and returns without emitting: CSI A, EOF; the callback is `gone` at the end.
example :
    (let s := fdrive handTable Gen.ParserTable.chanCap expireLate 178 FCSys.init (inputScript [0x1B, 0x5B, 0x41])
     (s.recvd, s.f.mpc, s.f.cbs, s.chan, s.pend, s.f.chanClosed) = ([.csi [] [] 0x41, .eof], .done, [(1, .gone)], [], [], true)) ∧
    (ftrace handTable Gen.ParserTable.chanCap expireLate 178 FCSys.init (inputScript [0x1B, 0x5B, 0x41])).length = 41 := by
  decide +kernel
-- no timer expires (`noExpiry`): no callback goroutine at all
example :
    (let s := fdrive handTable Gen.ParserTable.chanCap noExpiry 178 FCSys.init (inputScript [0x1B, 0x5B, 0x41])
     (s.recvd, s.f.mpc, s.f.cbs, s.chan, s.pend, s.f.chanClosed)) =
    ([.csi [] [] 0x41, .eof], .done, [], [], [], true) := by
  decide +kernel
-- non-vacuity (`fchan_fair_run_terminates`, capacity 1, fuel = stepBound 9 4 = 220): ESC ] a ESC with pauses —
-- two callbacks in flight one after the other (generations 1 and 4), both report
example :
    (let s := fdrive handTable 1 expireInRead 220 FCSys.init (inputScript [0x1B, 0x5D, 0x61, 0x1B])
     (s.recvd, s.f.mpc, s.f.cbs, s.chan, s.pend, s.f.chanClosed) =
      ([.c0 0x1B, .print 0x5D, .print 0x61, .c0 0x1B, .eof], .done, [(1, .gone), (4, .gone)], [], [], true)) ∧
    stepBound (tableBound handTable) 4 = 220 := by
  decide +kernel

/-- **After `Close()`, once the pending read has returned, `run` stops — and never reads again.**
    Any `TimerOk` table, capacity ≥ 1, **every reachable** state of the layer in which the main
    goroutine is blocked in the read and `Close()` has been called (`closeReq`; `closeSig` at any
    earlier point of the read), any return of the read (`readRet i`: a rune or `eof`/an error), any
    policy, no further input: within `closeBound B |cbs| |chan|` = `2·B + 33 + 8·|cbs| + |chan|`
    transitions the scheduler stops by itself with `run` returned, the channel closed and empty, every
    callback goroutine returned, the mutex free, no timer pending, and the consumer has `pre ++ [EOF]`
    with no EOF in `pre`; the trace contains no read.  And in **every** schedule whatsoever from that
    point (not only the fair ones; further `Close()` calls, timer expiries, anything) the main
    goroutine is never in the read again: at the `select` it takes the `<-p.close` arm. -/
theorem fchan_close_then_read_stops (T : Table) (hT : TimerOk T) (cap : Nat) (hcap : 0 < cap) (ls0 : List FCLabel)
    (s : FCSys) (hr : FCSys.run T cap FCSys.init ls0 = some s) (hpc : s.f.mpc = .inRead)
    (hcl : s.f.closeReq = true) (i : Inp) (pol : Policy) (fuel : Nat)
    (hf : closeBound (tableBound T) s.f.cbs.length s.chan.length ≤ fuel) :
    ∃ s1, FCSys.step T cap s (.stmt (.readRet i)) = some s1 ∧ s1.f.mpc = .readDone i ∧
      (let e := fdrive T cap pol fuel s1 []
       let tr := ftrace T cap pol fuel s1 []
       (e.f.mpc = .done ∧ e.f.chanClosed = true ∧ e.chan = [] ∧ e.pend = [] ∧ (∀ c ∈ e.f.cbs, c.2 = .gone) ∧
         e.f.mutex = none ∧ e.f.armed = none) ∧
       (∃ pre, e.recvd = pre ++ [.eof] ∧ Seq.eof ∉ pre) ∧
       FCSys.run T cap s1 tr = some e ∧ tr.length < closeBound (tableBound T) s.f.cbs.length s.chan.length ∧
       readsOf tr = []) ∧
      (∀ ls s', FCSys.run T cap s1 ls = some s' → s'.f.mpc ≠ .inRead) := by
  have hci := (run_proj T hT cap ls0 FCSys.init s (CI_init cap) hr).1
  have hstep : FCSys.step T cap s (.stmt (.readRet i)) = some { s with f := { s.f with mpc := .readDone i } } := by
    simp [FCSys.step, FSys.step, hpc, isMainL]
  refine ⟨_, hstep, rfl, ?_, ?_⟩
  · intro e tr
    have hci1 := (step_proj T hT cap s _ _ hci hstep).1
    have hE1 : E ({ s with f := { s.f with mpc := .readDone i } } : FCSys).f [] :=
      ⟨by simp, fun _ => ⟨by simp, Or.inl hcl⟩, fun h => absurd rfl h⟩
    have hmu := mu_close (tableBound T) cap s hci hpc i
    obtain ⟨⟨hd, hp, hc, hg⟩, hE⟩ := fdrive_final T hT (tableBound T) (step_out_le T) cap hcap pol fuel _ [] hci1 hE1
      (by omega)
    have hrun : FCSys.run T cap _ tr = some e := fdrive_is_run T cap pol fuel _ _
    have hfull : FCSys.run T cap FCSys.init (ls0 ++ (.stmt (.readRet i) :: tr)) = some e := by
      rw [frun_append' T cap ls0 _ FCSys.init s hr]
      simp only [FCSys.run, hstep]
      exact hrun
    have hcie := (run_proj T hT cap _ FCSys.init e (CI_init cap) hfull).1
    obtain ⟨hm, ha⟩ := final_quiet e.f hcie.inv hd hg
    have hlen : tr.length ≤ _ := ftrace_length T (tableBound T) (step_out_le T) cap pol fuel _ []
    have hreads := ftrace_reads T cap pol fuel { s with f := { s.f with mpc := .readDone i } } []
    refine ⟨⟨hd, hE.dc hd, hc, hp, hg, hm, ha⟩,
      (VaxisModel.Props.C08FineChan.fchan_eof_received_last T hT cap _ e hfull).1 ⟨hd, hp, hc⟩, hrun, by omega,
      (List.append_eq_nil_iff.mp hreads).1⟩
  · intro ls s' hrun
    exact (noRead_run T cap ls { s with f := { s.f with mpc := .readDone i } } s' ⟨hcl, by simp⟩ hrun).2

/-- The same with the `Close()` call made explicit: from every reachable state in which the main
    goroutine is blocked in the read, `closeSig` then `readRet i` are enabled, and from the state they
    lead to the conclusions of `fchan_close_then_read_stops` hold. -/
theorem fchan_close_then_read_stops_explicit (T : Table) (hT : TimerOk T) (cap : Nat) (hcap : 0 < cap)
    (ls0 : List FCLabel) (s : FCSys) (hr : FCSys.run T cap FCSys.init ls0 = some s) (hpc : s.f.mpc = .inRead)
    (i : Inp) (pol : Policy) (fuel : Nat)
    (hf : closeBound (tableBound T) s.f.cbs.length s.chan.length ≤ fuel) :
    ∃ s1, FCSys.run T cap s [.stmt .closeSig, .stmt (.readRet i)] = some s1 ∧
      (let e := fdrive T cap pol fuel s1 []
       let tr := ftrace T cap pol fuel s1 []
       (e.f.mpc = .done ∧ e.f.chanClosed = true ∧ e.chan = [] ∧ e.pend = [] ∧ (∀ c ∈ e.f.cbs, c.2 = .gone) ∧
         e.f.mutex = none ∧ e.f.armed = none) ∧
       (∃ pre, e.recvd = pre ++ [.eof] ∧ Seq.eof ∉ pre) ∧
       FCSys.run T cap s1 tr = some e ∧ tr.length < closeBound (tableBound T) s.f.cbs.length s.chan.length ∧
       readsOf tr = []) ∧
      (∀ ls s', FCSys.run T cap s1 ls = some s' → s'.f.mpc ≠ .inRead) := by
  have hstep0 : FCSys.step T cap s (.stmt .closeSig) = some { s with f := { s.f with closeReq := true } } := by
    simp [FCSys.step, FSys.step, isMainL]
  have hr0 : FCSys.run T cap FCSys.init (ls0 ++ [.stmt .closeSig]) = some { s with f := { s.f with closeReq := true } } := by
    rw [frun_append' T cap ls0 _ FCSys.init s hr]
    simp only [FCSys.run, hstep0]
  obtain ⟨s1, h1, _, h2, h3⟩ := fchan_close_then_read_stops T hT cap hcap _ _ hr0 hpc rfl i pol fuel hf
  refine ⟨s1, ?_, h2, h3⟩
  simp only [FCSys.run, hstep0, h1]

/-- … for the code as it is (the parser's table, `chanCap` = 2): after `Close()` and the return of the
    pending read, at most `51 + 8·|cbs| + |chan|` transitions. -/
theorem fchan_close_then_read_stops_code (ls0 : List FCLabel) (s : FCSys)
    (hr : FCSys.run handTable Gen.ParserTable.chanCap FCSys.init ls0 = some s) (hpc : s.f.mpc = .inRead)
    (i : Inp) (pol : Policy) (fuel : Nat) (hf : 51 + 8 * s.f.cbs.length + s.chan.length ≤ fuel) :
    ∃ s1, FCSys.run handTable Gen.ParserTable.chanCap s [.stmt .closeSig, .stmt (.readRet i)] = some s1 ∧
      (let e := fdrive handTable Gen.ParserTable.chanCap pol fuel s1 []
       let tr := ftrace handTable Gen.ParserTable.chanCap pol fuel s1 []
       (e.f.mpc = .done ∧ e.f.chanClosed = true ∧ e.chan = [] ∧ e.pend = [] ∧ (∀ c ∈ e.f.cbs, c.2 = .gone) ∧
         e.f.mutex = none ∧ e.f.armed = none) ∧
       (∃ pre, e.recvd = pre ++ [.eof] ∧ Seq.eof ∉ pre) ∧
       FCSys.run handTable Gen.ParserTable.chanCap s1 tr = some e ∧ tr.length < 51 + 8 * s.f.cbs.length + s.chan.length ∧
       readsOf tr = []) ∧
      (∀ ls s', FCSys.run handTable Gen.ParserTable.chanCap s1 ls = some s' → s'.f.mpc ≠ .inRead) := by
  have h := fchan_close_then_read_stops_explicit handTable handTable_timerOk Gen.ParserTable.chanCap (by decide) ls0 s hr
    hpc i pol fuel (by rw [hand_tableBound]; simp only [closeBound]; omega)
  rw [hand_tableBound] at h
  simpa [closeBound] using h

-- non-vacuity (`fchan_close_then_read_stops_explicit`): a lone ESC, the timer expires while the main goroutine
-- is blocked in the next read, the callback locks and passes its check — it is in flight, holding the
-- mutex, in front of its `emit` — and now `Close()` is called and the read returns `[`: the state is
-- reachable, and from there the scheduler (fuel = closeBound 9 1 0 = 59) ends after 20 transitions with the
-- Escape report, `[` (the rune that was read is still parsed), EOF; channel closed, callback gone.
example :
    ((FCSys.run handTable 2 FCSys.init
        [.stmt .main, .stmt (.readRet (.rune 0x1B)), .stmt .main, .stmt .main, .stmt .main, .stmt .main, .stmt .main,
         .stmt .main, .stmt .expire, .stmt (.cb 0), .stmt (.cb 0)]).map
      (fun s => (s.f.mpc, s.f.cbs, s.f.mutex, closeBound (tableBound handTable) s.f.cbs.length s.chan.length))) =
      some (.inRead, [(1, .passed)], some .cb, 59) ∧
    ((FCSys.run handTable 2 FCSys.init
        [.stmt .main, .stmt (.readRet (.rune 0x1B)), .stmt .main, .stmt .main, .stmt .main, .stmt .main, .stmt .main,
         .stmt .main, .stmt .expire, .stmt (.cb 0), .stmt (.cb 0), .stmt .closeSig, .stmt (.readRet (.rune 0x5B))]).map
      (fun s1 => let e := fdrive handTable 2 noExpiry 59 s1 []; (e.recvd, e.f.mpc, e.f.cbs))) =
      some ([.c0 0x1B, .print 0x5B, .eof], .done, [(1, .gone)]) ∧
    ((FCSys.run handTable 2 FCSys.init
        [.stmt .main, .stmt (.readRet (.rune 0x1B)), .stmt .main, .stmt .main, .stmt .main, .stmt .main, .stmt .main,
         .stmt .main, .stmt .expire, .stmt (.cb 0), .stmt (.cb 0), .stmt .closeSig, .stmt (.readRet (.rune 0x5B))]).map
      (fun s1 => let e := fdrive handTable 2 noExpiry 59 s1 [];
        (e.chan, e.pend, e.f.chanClosed, (ftrace handTable 2 noExpiry 59 s1 []).length))) =
      some ([], [], true, 20) := by
  refine ⟨?_, ?_, ?_⟩ <;> decide +kernel

/-- **Fair-run termination with `Close()` inside the run.**  Same hypotheses as
    `fchan_fair_run_terminates`; in addition another goroutine calls `Close()` after the `n`-th
    transition of the fair run — **any** `n` (if the run is over earlier: at its end), i.e. at any point:
    main at the `select`, blocked in the read, inside the mutex, in an `emit`, callbacks in flight — and
    the scheduler goes on with any policy `pol2`.  With fuel ≥ `stepBound (tableBound T) |rs|` for the
    second phase the whole run (first phase, `closeSig`, second phase) has at most `stepBound …`
    transitions (the old bound: `closeSig` is the `+ 1` of the bound), the scheduler stops by itself
    with `run` returned, the channel closed and drained, every callback goroutine returned, the mutex
    free, no timer pending, and the consumer has `pre ++ [EOF]` with no EOF in `pre`; the trace is a run
    of the layer, its statements a run of the statement-grained system whose output is exactly what
    was received; the reads of the trace are a **prefix** of the script (`++ frestClose … = script`),
    and after the `Close()` at most one read returns (the pending one). -/
theorem fchan_fair_run_terminates_with_close (T : Table) (hT : TimerOk T) (cap : Nat) (hcap : 0 < cap)
    (pol pol2 : Policy) (rs : List Nat) (n fuel : Nat) (hf : stepBound (tableBound T) rs.length ≤ fuel) :
    let s := fdriveClose T cap pol pol2 n fuel FCSys.init (inputScript rs)
    let tr := ftraceClose T cap pol pol2 n fuel FCSys.init (inputScript rs)
    (s.f.mpc = .done ∧ s.f.chanClosed = true ∧ s.chan = [] ∧ s.pend = [] ∧ (∀ c ∈ s.f.cbs, c.2 = .gone) ∧
      s.f.mutex = none ∧ s.f.armed = none) ∧
    (∃ pre, s.recvd = pre ++ [.eof] ∧ Seq.eof ∉ pre) ∧
    FCSys.run T cap FCSys.init tr = some s ∧ tr.length ≤ stepBound (tableBound T) rs.length ∧
    FSys.run T FSys.init (stmtLabels tr) = some (s.f, s.recvd) ∧
    readsOf tr ++ frestClose T cap pol pol2 n fuel FCSys.init (inputScript rs) = inputScript rs ∧
    (readsOf (ftrace T cap pol2 fuel (closeOf (fdrive T cap pol n FCSys.init (inputScript rs)))
      (frest T cap pol n FCSys.init (inputScript rs)))).length ≤ 1 := by
  intro s tr
  have hmu := mu_init (tableBound T) rs
  obtain ⟨hci1, hE1, hlen1⟩ := fdrive_inv T hT (tableBound T) (step_out_le T) cap pol n FCSys.init (inputScript rs)
    (CI_init cap) (E_init rs)
  have hrun1 : FCSys.run T cap FCSys.init (ftrace T cap pol n FCSys.init (inputScript rs)) = some _ :=
    fdrive_is_run T cap pol n _ _
  have hcs := close_step T cap (fdrive T cap pol n FCSys.init (inputScript rs))
  have hci2 := (step_proj T hT cap _ _ _ hci1 hcs).1
  have hE2 := E_close _ _ hE1
  have hmu2 := mu_close_eq (tableBound T) (fdrive T cap pol n FCSys.init (inputScript rs))
    (frest T cap pol n FCSys.init (inputScript rs))
  obtain ⟨⟨hd, hp, hc, hg⟩, hE⟩ := fdrive_final T hT (tableBound T) (step_out_le T) cap hcap pol2 fuel _ _ hci2 hE2
    (by omega)
  have hrun2 := fdrive_is_run T cap pol2 fuel (closeOf (fdrive T cap pol n FCSys.init (inputScript rs)))
    (frest T cap pol n FCSys.init (inputScript rs))
  have hlen2 := ftrace_length T (tableBound T) (step_out_le T) cap pol2 fuel
    (closeOf (fdrive T cap pol n FCSys.init (inputScript rs))) (frest T cap pol n FCSys.init (inputScript rs))
  have hrun : FCSys.run T cap FCSys.init tr = some s := by
    show FCSys.run T cap FCSys.init (_ ++ _ :: _) = _
    rw [frun_append' T cap _ _ FCSys.init _ hrun1]
    simp only [FCSys.run, hcs]
    exact hrun2
  have hcie := (run_proj T hT cap tr FCSys.init s (CI_init cap) hrun).1
  obtain ⟨hm, ha⟩ := final_quiet s.f hcie.inv hd hg
  obtain ⟨out, h1, h2, _⟩ := VaxisModel.Props.C08FineChan.fchan_refines_fine T hT cap tr s hrun
  have hr1 := ftrace_reads T cap pol n FCSys.init (inputScript rs)
  have hr2 := ftrace_reads T cap pol2 fuel (closeOf (fdrive T cap pol n FCSys.init (inputScript rs)))
    (frest T cap pol n FCSys.init (inputScript rs))
  have hone := reads_after_close T cap _ _ _ rfl hrun2
  refine ⟨⟨hd, hE.dc hd, hc, hp, hg, hm, ha⟩,
    (VaxisModel.Props.C08FineChan.fchan_eof_received_last T hT cap tr s hrun).1 ⟨hd, hp, hc⟩, hrun, ?_, ?_, ?_, ?_⟩
  · show (_ ++ _ :: _).length ≤ _
    simp only [List.length_append, List.length_cons]
    omega
  · have hc' : s.chan = [] := hc
    have hp' : s.pend = [] := hp
    rw [h1, ← h2, hc', hp', List.append_nil, List.append_nil]
  · show readsOf (_ ++ _ :: _) ++ frest _ _ _ _ _ _ = _
    rw [readsOf_append]
    simp only [readsOf, List.append_assoc]
    rw [hr2, hr1]
  · refine Nat.le_trans hone ?_
    split <;> omega

/-- … for the code as it is (the parser's table, `chanCap` = 2): `Close()` after any number of transitions,
    at most `42·(|rs| + 1) + 10` transitions in all. -/
theorem fchan_fair_run_terminates_with_close_code (pol pol2 : Policy) (rs : List Nat) (n fuel : Nat)
    (hf : 42 * (rs.length + 1) + 10 ≤ fuel) :
    let s := fdriveClose handTable Gen.ParserTable.chanCap pol pol2 n fuel FCSys.init (inputScript rs)
    let tr := ftraceClose handTable Gen.ParserTable.chanCap pol pol2 n fuel FCSys.init (inputScript rs)
    (s.f.mpc = .done ∧ s.f.chanClosed = true ∧ s.chan = [] ∧ s.pend = [] ∧ (∀ c ∈ s.f.cbs, c.2 = .gone) ∧
      s.f.mutex = none ∧ s.f.armed = none) ∧
    (∃ pre, s.recvd = pre ++ [.eof] ∧ Seq.eof ∉ pre) ∧
    FCSys.run handTable Gen.ParserTable.chanCap FCSys.init tr = some s ∧ tr.length ≤ 42 * (rs.length + 1) + 10 ∧
    FSys.run handTable FSys.init (stmtLabels tr) = some (s.f, s.recvd) ∧
    readsOf tr ++ frestClose handTable Gen.ParserTable.chanCap pol pol2 n fuel FCSys.init (inputScript rs) =
      inputScript rs := by
  have h := fchan_fair_run_terminates_with_close handTable handTable_timerOk Gen.ParserTable.chanCap (by decide) pol pol2
    rs n fuel (by rw [hand_tableBound]; simpa [stepBound] using hf)
  rw [hand_tableBound] at h
  obtain ⟨h1, h2, h3, h4, h5, h6, _⟩ := h
  exact ⟨h1, h2, h3, by simpa [stepBound] using h4, h5, h6⟩

-- non-vacuity: ESC [ A, no timer expiry; `Close()` is called after 8 transitions, while the main goroutine is
-- blocked in the read that will return `[` (ESC has been parsed, the timer is pending): the pending read
-- returns `[`, which is still parsed (CSI entry, nothing emitted), then the `select` takes the close arm:
-- only EOF is received, `A` is never read (it is what is left of the script), 23 transitions in all.
example :
    (let s0 := fdrive handTable Gen.ParserTable.chanCap noExpiry 8 FCSys.init (inputScript [0x1B, 0x5B, 0x41])
     (s0.f.mpc, s0.f.armed, frest handTable Gen.ParserTable.chanCap noExpiry 8 FCSys.init (inputScript [0x1B, 0x5B, 0x41])) =
       (.inRead, some 1, [.rune 0x5B, .rune 0x41, .eof])) ∧
    (let s := fdriveClose handTable Gen.ParserTable.chanCap noExpiry noExpiry 8 178 FCSys.init (inputScript [0x1B, 0x5B, 0x41])
     (s.recvd, s.f.mpc, s.f.cbs, s.chan, s.pend, s.f.chanClosed) = ([.eof], .done, [], [], [], true)) ∧
    readsOf (ftraceClose handTable Gen.ParserTable.chanCap noExpiry noExpiry 8 178 FCSys.init (inputScript [0x1B, 0x5B, 0x41])) =
      [.rune 0x1B, .rune 0x5B] ∧
    frestClose handTable Gen.ParserTable.chanCap noExpiry noExpiry 8 178 FCSys.init (inputScript [0x1B, 0x5B, 0x41]) =
      [.rune 0x41, .eof] := by
  refine ⟨?_, ?_, ?_, ?_⟩ <;> decide +kernel

end VaxisModel.Props.C08FineFair
