/-
C08 — liveness of the parser's run loop with the bounded output channel
(`sequences: make(chan Sequence, 2)`, `emit` = `p.sequences <- seq`) made explicit: under a consumer
that keeps receiving the loop never deadlocks and a finite input is parsed to the end, every item is
delivered once and in order, and `EOF` is the last thing received; if the consumer stops, `emit`
blocks for ever — by design.  Property theorems only (model: Model/ParserRunChan.lean, helper lemmas:
Lemmas/ParserRunChan.lean).  All theorems are for every state / every schedule; no bounds.
-/
import VaxisModel.Model.ParserRunChan
import VaxisModel.Lemmas.ParserRunChan
import VaxisModel.Props.C08

namespace VaxisModel.Props.C08Live
open VaxisModel.Model.ParserTable VaxisModel.Model.Parser VaxisModel.Model.ParserRun
open VaxisModel.Model.ParserRunChan VaxisModel.Lemmas.ParserRun VaxisModel.Lemmas.ParserRunChan

/-! ## 1. Safety of the channel layer: bound, FIFO, refinement -/

/-- **The channel never holds more than its capacity** — along every run (every interleaving of
    atomic steps of the life cycle, sends and receives), any table, any capacity. -/
theorem chan_bounded (T : Table) (c : Cfg) (cap : Nat) (ls : List CLabel) (s : CSys)
    (h : CSys.run T c cap CSys.init ls = some s) : s.chan.length ≤ cap :=
  (run_inv T c cap ls CSys.init s h (Nat.zero_le _)).1

/-- **FIFO; nothing lost, duplicated or reordered; refinement of the atomic life cycle.**  For every
    run: its atomic labels, in order, are a run of the atomic LTS of Model/ParserRun.lean to the same
    atomic state, and what the consumer has received, followed by what is queued in the channel,
    followed by what the emitting goroutine has still to send, is exactly what those atomic steps
    emitted, in that order.  (So every theorem of Props/C08.lean about the order of `emit` calls is
    a theorem about what the consumer receives.) -/
theorem order_preserved (T : Table) (c : Cfg) (cap : Nat) (ls : List CLabel) (s : CSys)
    (h : CSys.run T c cap CSys.init ls = some s) :
    ∃ out, Sys.run T c Sys.init (sysLabels ls) = some (s.sys, out) ∧ s.recvd ++ s.chan ++ s.pending = out := by
  obtain ⟨_, o, hr, hf⟩ := run_inv T c cap ls CSys.init s h (Nat.zero_le _)
  exact ⟨o, hr, by simpa [flow, CSys.init] using hf⟩

-- non-vacuity: ESC [ A then the end of the input, consumer lagging behind: a run, and it is the
-- atomic run with the same output
example : (CSys.run handTable Cfg.fixed cap0 CSys.init
    [.sys .enterRead, .sys (.read 0x1B), .sys .enterRead, .sys (.read 0x5B), .sys .enterRead, .sys (.read 0x41),
     .send, .sys .enterRead, .sys .readEnd, .send, .recv]).map (fun s => (s.recvd, s.chan, s.pending, s.sys.pc)) =
    some ([.csi [] [] 0x41], [.eof], [], .done) := by decide

/-- **EOF is the last thing the consumer receives, once.**  When everything is over (loop ended,
    nothing left to send or to receive) the consumer has received `pre ++ [EOF]` with no `EOF` in
    `pre`, and the channel is closed; and at no earlier point of any run has it received something
    after an `EOF`: while the loop runs no `EOF` has been received at all. -/
theorem eof_received_last (T : Table) (c : Cfg) (hg : c.guarded = true) (cap : Nat) (ls : List CLabel) (s : CSys)
    (h : CSys.run T c cap CSys.init ls = some s) :
    (CSys.finished s → (∃ pre, s.recvd = pre ++ [.eof] ∧ Seq.eof ∉ pre) ∧ s.closedNow = true) ∧
    (s.sys.pc ≠ .done → Seq.eof ∉ s.recvd ∧ s.closedNow = false) := by
  obtain ⟨out, hr, hf⟩ := order_preserved T c cap ls s h
  have he := VaxisModel.Props.C08.eof_once_last T c hg (sysLabels ls) s.sys out hr
  refine ⟨fun ⟨hd, hp, hc⟩ => ?_, fun hnd => ?_⟩
  · rw [hp, hc, List.append_nil, List.append_nil] at hf
    rw [hf]
    exact ⟨(he.1 hd).1, by simp [CSys.closedNow, (he.1 hd).2, hp]⟩
  · have := he.2 hnd
    refine ⟨fun hm => this.1 ?_, by simp [CSys.closedNow, this.2]⟩
    rw [← hf]; simp [hm]

-- non-vacuity: a finished state is reachable (the same input, the consumer catches up), and one
-- in which the loop still runs with items in flight
example : (CSys.run handTable Cfg.fixed cap0 CSys.init
    [.sys .enterRead, .sys (.read 0x1B), .sys .enterRead, .sys (.read 0x5B), .sys .enterRead, .sys (.read 0x41),
     .send, .sys .enterRead, .sys .readEnd, .send, .recv, .recv]).map
      (fun s => (decide (CSys.finished s), s.recvd, s.closedNow)) =
    some (true, [.csi [] [] 0x41, .eof], true) := by decide
example : (CSys.run handTable Cfg.fixed cap0 CSys.init
    [.sys .enterRead, .sys (.read 0x61), .send, .sys .enterRead, .sys (.read 0x62)]).map
      (fun s => (s.sys.pc, s.recvd, s.chan, s.pending, s.closedNow)) =
    some (.atSelect, [], [.print 0x61], [.print 0x62], false) := by decide

/-! ## 2.–3. No deadlock with a live consumer -/

/-- **A blocked `emit` is released by one receive.**  In any state where the emitting goroutine is
    blocked (something to send, channel full): the send is indeed not enabled, the consumer's receive
    is, and after that one receive the send is enabled (and nothing else has changed for the sender). -/
theorem emit_enabled_after_recv (T : Table) (c : Cfg) (cap : Nat) (hcap : 0 < cap) (s : CSys)
    (hp : s.pending ≠ []) (hfull : s.chan.length = cap) :
    CSys.step T c cap s .send = none ∧
    ∃ s', CSys.step T c cap s .recv = some s' ∧ s'.pending = s.pending ∧ s'.sys = s.sys ∧
      (CSys.step T c cap s' .send).isSome = true := by
  refine ⟨send_blocked s (Or.inr (by omega)), ?_⟩
  cases hch : s.chan with
  | nil => rw [hch] at hfull; simp only [List.length_nil] at hfull; omega
  | cons y ch =>
    refine ⟨_, recv_enabled s y ch hch, rfl, rfl, ?_⟩
    cases hpe : s.pending with
    | nil => exact absurd hpe hp
    | cons x p =>
      have hlt : ch.length < cap := by
        rw [hch] at hfull; simp only [List.length_cons] at hfull; omega
      rw [send_enabled _ x p rfl hlt]
      rfl

-- non-vacuity: three printable runes, nothing received: the third `emit` is blocked
example : (CSys.run handTable Cfg.fixed cap0 CSys.init
    [.sys .enterRead, .sys (.read 0x61), .send, .sys .enterRead, .sys (.read 0x62), .send,
     .sys .enterRead, .sys (.read 0x63)]).map (fun s => (decide (s.pending ≠ []), s.chan.length)) =
    some (true, cap0) := by decide

/-- **No deadlock while the consumer is alive**: in every state in which not everything is over,
    a step is enabled — a move of the main goroutine (as in `C08.progress`), or the pending send, or
    the consumer's receive. -/
theorem some_step_enabled (T : Table) (c : Cfg) (cap : Nat) (hcap : 0 < cap) (s : CSys)
    (h : s.sys.pc ≠ .done ∨ s.pending ≠ [] ∨ s.chan ≠ []) :
    (CSys.step T c cap s (.sys .enterRead)).isSome ∨ (CSys.step T c cap s (.sys .breakClose)).isSome ∨
    (CSys.step T c cap s (.sys .readEnd)).isSome ∨ (CSys.step T c cap s .send).isSome ∨
    (CSys.step T c cap s .recv).isSome := by
  cases hch : s.chan with
  | cons y ch => right; right; right; right; rw [recv_enabled s y ch hch]; rfl
  | nil =>
    cases hpe : s.pending with
    | cons x p =>
      right; right; right; left
      rw [send_enabled s x p hpe (by rw [hch]; exact hcap)]; rfl
    | nil =>
      have hnd : s.sys.pc ≠ .done := by
        rcases h with h | h | h
        · exact h
        · exact absurd hpe h
        · exact absurd hch h
      have lift : ∀ l, (Sys.step T c s.sys l).isSome → (CSys.step T c cap s (.sys l)).isSome := by
        intro l hl
        cases hs : Sys.step T c s.sys l with
        | none => rw [hs] at hl; cases hl
        | some x => rw [sys_enabled s l x.1 x.2 hpe hs]; rfl
      rcases VaxisModel.Props.C08.progress T c s.sys hnd with h | h | h
      · exact Or.inl (lift _ h)
      · exact Or.inr (Or.inl (lift _ h))
      · exact Or.inr (Or.inr (Or.inl (lift _ h)))

/-! ## 4. Termination under fairness -/

/-- **The fair scheduler delivers everything** (any table, any capacity > 0, any atomic schedule —
    timer and Close() labels included — that the atomic LTS can run from `s0` emitting `out`): taking
    an enabled step whenever there is one (send, else receive, else the next atomic label), after at
    most `2 * out.length + ls.length` steps the atomic run is complete, nothing is in flight, and the
    consumer has received exactly `out`.  More fuel changes nothing.  Proof: the measure
    `2·|pending| + |chan| + 2·|still to be emitted| + |labels left|` decreases by one at every step. -/
theorem fair_run_delivers (T : Table) (c : Cfg) (cap : Nat) (hcap : 0 < cap) (s0 s1 : Sys) (ls : List Label)
    (out : List Seq) (hr : Sys.run T c s0 ls = some (s1, out)) (fuel : Nat)
    (hf : 2 * out.length + ls.length ≤ fuel) :
    drive T c cap fuel (CSys.ofSys s0) ls = { sys := s1, chan := [], pending := [], recvd := out } := by
  have := drive_spec T c cap hcap fuel (CSys.ofSys s0) ls s1 out (Nat.zero_le _) hr
    (by simpa [mu, CSys.ofSys] using hf)
  simpa [flow, CSys.ofSys] using this

/-- … and the scheduler only takes steps of the LTS: its end state is reachable by a run. -/
theorem fair_run_is_run (T : Table) (c : Cfg) (cap : Nat) (fuel : Nat) (s : CSys) (ls : List Label) :
    ∃ cl, CSys.run T c cap s cl = some (drive T c cap fuel s ls) :=
  drive_is_run T c cap fuel s ls

/-- **Every finite input is parsed to the end and delivered, then EOF** — the code as it is now
    (hand table = regenerated table by `C01`, guarded callback, capacity `chanCap`): for every input
    `rs`, with a consumer that keeps receiving, after at most `2·(items) + 2·|rs| + 2` steps of the
    fair scheduler the loop has ended, the channel is empty and closed, and the consumer has received
    `pre ++ [EOF]`, which is the atomic output of the run (no `EOF` in `pre`). -/
theorem finite_input_terminates (rs : List Nat) :
    ∃ s1 pre, Sys.run handTable Cfg.fixed Sys.init (script rs) = some (s1, pre ++ [.eof]) ∧ Seq.eof ∉ pre ∧
      s1.pc = .done ∧ s1.chanClosed = true ∧
      ∀ fuel, 2 * (pre.length + 1) + 2 * rs.length + 2 ≤ fuel →
        drive handTable Cfg.fixed cap0 fuel CSys.init (script rs) =
          { sys := s1, chan := [], pending := [], recvd := pre ++ [.eof] } := by
  obtain ⟨s1, out, hr, hd⟩ := script_runs rs Sys.init SInv_init rfl rfl
  obtain ⟨⟨pre, rfl, hpre⟩, hcl⟩ := (VaxisModel.Props.C08.eof_once_last handTable Cfg.fixed rfl _ s1 out hr).1 hd
  refine ⟨s1, pre, hr, hpre, hd, hcl, fun fuel hf => ?_⟩
  refine fair_run_delivers handTable Cfg.fixed cap0 (by decide) Sys.init s1 _ _ hr fuel ?_
  rw [script_length]
  simp only [List.length_append, List.length_cons, List.length_nil]
  omega

/-- For any table: if the atomic LTS can run the script of `rs` (no rune stops the loop early), the
    same holds; the loop has ended. -/
theorem finite_input_terminates_any (T : Table) (c : Cfg) (cap : Nat) (hcap : 0 < cap) (rs : List Nat) (s1 : Sys)
    (out : List Seq) (hr : Sys.run T c Sys.init (script rs) = some (s1, out)) (fuel : Nat)
    (hf : 2 * out.length + 2 * rs.length + 2 ≤ fuel) :
    drive T c cap fuel CSys.init (script rs) = { sys := s1, chan := [], pending := [], recvd := out } ∧
    s1.pc = .done := by
  refine ⟨fair_run_delivers T c cap hcap Sys.init s1 _ _ hr fuel ?_, script_done T c rs _ _ _ hr⟩
  rw [script_length]; omega

-- non-vacuity / sanity: ESC [ A; an unterminated OSC (its last atomic step emits two items)
example : (drive handTable Cfg.fixed cap0 14 CSys.init (script [0x1B, 0x5B, 0x41])).recvd =
    [.csi [] [] 0x41, .eof] := by decide
example : (Sys.run handTable Cfg.fixed Sys.init (script [0x1B, 0x5D, 0x61])).map (·.2) =
    some [.osc [0x61], .eof] := by decide
example : let s := drive handTable Cfg.fixed cap0 12 CSys.init (script [0x1B, 0x5D, 0x61])
    (s.recvd, s.chan, s.pending, s.sys.pc) = ([.osc [0x61], .eof], [], [], .done) := by decide

/-! ## 5. The converse: a consumer that stops receiving -/

/-- **If the consumer stops, `emit` blocks for ever — by design** (the property assumes a consumer
    that keeps receiving).  In any state where the emitting goroutine is blocked (something to send,
    channel full), no label other than the consumer's `recv` is enabled — atomic steps need
    `pending = []`, `send` needs room — so every continuation without `recv` is empty: the goroutine
    stays blocked, the loop does not end. -/
theorem consumer_stops_blocks (T : Table) (c : Cfg) (cap : Nat) (s : CSys) (hp : s.pending ≠ [])
    (hfull : s.chan.length = cap) (hnd : s.sys.pc ≠ .done) :
    (∀ l, l ≠ .recv → CSys.step T c cap s l = none) ∧
    ∀ ls, (∀ l ∈ ls, l ≠ CLabel.recv) → ∀ s', CSys.run T c cap s ls = some s' →
      s' = s ∧ s'.pending ≠ [] ∧ s'.sys.pc ≠ .done := by
  have hstep : ∀ l, l ≠ .recv → CSys.step T c cap s l = none := by
    intro l hl
    cases l with
    | sys l => exact sys_blocked s l hp
    | send => exact send_blocked s (Or.inr (by omega))
    | recv => exact absurd rfl hl
  refine ⟨hstep, fun ls hls s' hrun => ?_⟩
  cases ls with
  | nil =>
    simp only [CSys.run, Option.some.injEq] at hrun
    subst hrun; exact ⟨rfl, hp, hnd⟩
  | cons l ls =>
    simp only [CSys.run, hstep l (hls l (List.mem_cons_self ..))] at hrun
    cases hrun

/-- … and such a state is reachable in the code as it is now (capacity 2): three printable runes,
    none received — the first two items fill the channel, the main goroutine is blocked sending the
    third while it holds the mutex. -/
theorem consumer_stops_blocks_reachable :
    ∃ s, CSys.run handTable Cfg.fixed cap0 CSys.init
        [.sys .enterRead, .sys (.read 0x61), .send, .sys .enterRead, .sys (.read 0x62), .send,
         .sys .enterRead, .sys (.read 0x63)] = some s ∧
      s.pending = [.print 0x63] ∧ s.chan = [.print 0x61, .print 0x62] ∧ s.chan.length = cap0 ∧ s.recvd = [] ∧
      s.sys.pc ≠ .done ∧
      ∀ ls, (∀ l ∈ ls, l ≠ CLabel.recv) → ∀ s', CSys.run handTable Cfg.fixed cap0 s ls = some s' →
        s'.pending ≠ [] ∧ s'.sys.pc ≠ .done := by
  have hrun : (CSys.run handTable Cfg.fixed cap0 CSys.init
        [.sys .enterRead, .sys (.read 0x61), .send, .sys .enterRead, .sys (.read 0x62), .send,
         .sys .enterRead, .sys (.read 0x63)]).map (fun s => (s.pending, s.chan, s.recvd, s.sys.pc)) =
      some ([.print 0x63], [.print 0x61, .print 0x62], [], .atSelect) := by decide
  cases hs : CSys.run handTable Cfg.fixed cap0 CSys.init
        [.sys .enterRead, .sys (.read 0x61), .send, .sys .enterRead, .sys (.read 0x62), .send,
         .sys .enterRead, .sys (.read 0x63)] with
  | none => rw [hs] at hrun; cases hrun
  | some s =>
    rw [hs] at hrun
    simp only [Option.map_some, Option.some.injEq, Prod.mk.injEq] at hrun
    obtain ⟨h1, h2, h3, h4⟩ := hrun
    have hnd : s.sys.pc ≠ .done := by rw [h4]; decide
    refine ⟨s, rfl, h1, h2, by rw [h2]; rfl, h3, hnd, fun ls hls s' hr => ?_⟩
    exact ((consumer_stops_blocks handTable Cfg.fixed cap0 s (by rw [h1]; simp) (by rw [h2]; rfl) hnd).2 ls hls s' hr).2

end VaxisModel.Props.C08Live
