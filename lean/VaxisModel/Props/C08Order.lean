/-
C08 — the statement order of `Parser.run`, `Parser.readRune` and the Escape-timer callback in
ansi/parser.go, regenerated on every run (`Gen/ParserRun.lean`, `Gen/ParserReader.lean`), is the
order in which the statement-grained model (`Model/ParserRunFine.lean`) walks its program counters
(round 3).  Property theorems only.
-/
import VaxisModel.Model.ParserRunSk
import VaxisModel.Gen.ParserRun
import VaxisModel.Gen.ParserReader
import VaxisModel.Gen.ParserTable

namespace VaxisModel.Props.C08Order
open VaxisModel.Model.ParserTable VaxisModel.Model.Parser VaxisModel.Model.ParserRun VaxisModel.Model.ParserRunFine
open VaxisModel.Model.ParserRunSk VaxisModel.Model.ParserReaderSk

/-- **The bodies of `run` and of the timer callback are the ones the model transcribes**
    (regenerated on this run, statement by statement, in source order): the `select` with its
    `<-p.close` arm (`break outer`) and its default arm `readRune(); Lock; escGen++; anywhere;
    if p.state == nil { Unlock; break outer }; Unlock`; after the loop `Stop; Lock; escGen++; Unlock;
    emit(EOF{}); close(p.sequences); p.closed <- true`; the callback `Lock; defer Unlock;
    if p.escGen != gen { return }; emit(C0 0x1B); state = ground; ignoreST = false` (the two yield
    points of the verification build aside), with `gen := p.escGen` captured in front of
    `time.AfterFunc`.  No statement outside the vocabulary. -/
theorem run_skeleton_recognised :
    Gen.ParserRun.runShapeOk = true ∧ Gen.ParserRun.runClose = handRunClose ∧
    Gen.ParserRun.runDefault.filter (! ·.isYield) = handRunDefault ∧
    Gen.ParserRun.runTail.filter (! ·.isYield) = handRunTail ∧
    Gen.ParserRun.runLoopHead.filter (! ·.isYield) = [] ∧ Gen.ParserRun.runHead.filter (! ·.isYield) = [] ∧
    Gen.ParserRun.timerCallback.filter (! ·.isYield) = handCallback ∧
    Gen.ParserRun.timerCapturesGen = true ∧ Gen.ParserRun.unrecognised = [] := by decide

/-- **The yield points of the forced-schedule harness stand where `Model/ParserRunSched.lean` says**
    (round 4): `verifSched(p, n)` in front of the `select` (10), `Lock` (11), `escGen++` (12),
    `anywhere` (13), the `Unlock`s of the loop (14); after the loop in front of `Stop` (20), `Lock` (21),
    `escGen++` (22), `Unlock` (23), `emit(EOF{})` (24), `close` (25) and when `run` returns (29; and 19,
    deferred at the top of `run`: it hands a panic of `run` to the harness); in the
    callback in front of `Lock` (30), the generation check (31), `emit` (32), `state = ground` (33),
    `ignoreST = false` (34) and — deferred, registered before the deferred `Unlock`, hence after it —
    when it returns (39).  So a goroutine parked at point `n` is exactly at the program counter the
    replay (`Driver/C08Sched.lean`) gives it, and "between point 12 and the `Unlock`" is "holds the
    mutex". -/
theorem yield_points_in_front_of_statements :
    Gen.ParserRun.runHead = handRunHeadY ∧ Gen.ParserRun.runLoopHead = handRunLoopHeadY ∧ Gen.ParserRun.runDefault = handRunDefaultY ∧
    Gen.ParserRun.runTail = handRunTailY ∧ Gen.ParserRun.timerCallback = handCallbackY := by decide

/-! ### the model's program counters, in the order it walks them -/

/-- One pass through the default arm (`i` = what the read returns, `b` = `p.state == nil` afterwards). -/
def loopPcs (i : Inp) (b : Bool) : List MPc := [.inRead, .readDone i, .stopped i, .locked i, .bumped i, .stepped b]
/-- After the loop. -/
def tailPcs (v : Bool) : List MPc :=
  [.fin .stop v, .fin .lock v, .fin .bump v, .fin .unlock v, .fin .emit v, .fin .close v, .done]
/-- A callback that reports Escape / one whose generation check fails. -/
def cbPassPcs : List CbPc := [.started, .locked, .passed, .emitted, .stateSet, .stSet, .gone]
def cbFailPcs : List CbPc := [.started, .locked, .failed, .gone]

/-- **These lists are how the model moves**: from a state whose main program counter is an element of
    the list, the statement of the main goroutine (the read return for `inRead`) leads to the next
    element — `Lock` provided the mutex is free; `stepped b` leads back to the `select` or, when
    `anywhere` returned nil, to the statements after the loop; the `<-p.close` arm of the `select`
    leads there too. -/
theorem model_main_order (T : Table) (f : FSys) (i : Inp) (v : Bool) :
    (f.mpc = .atSelect → (mainStep T f).map (·.1.mpc) = some (if f.closeReq then .fin .stop false else .inRead)) ∧
    (f.mpc = .inRead → (FSys.step T f (.readRet i)).map (·.1.mpc) = some (.readDone i)) ∧
    (f.mpc = .readDone i → (mainStep T f).map (·.1.mpc) = some (.stopped i)) ∧
    (f.mpc = .stopped i → f.mutex = none → (mainStep T f).map (·.1.mpc) = some (.locked i)) ∧
    (f.mpc = .locked i → (mainStep T f).map (·.1.mpc) = some (.bumped i)) ∧
    (f.mpc = .bumped i → (mainStep T f).map (·.1.mpc) = some (.stepped (stops T f.ps i))) ∧
    (∀ b, f.mpc = .stepped b → (mainStep T f).map (·.1.mpc) = some (if b then .fin .stop true else .atSelect)) ∧
    (f.mpc = .fin .stop v → (mainStep T f).map (·.1.mpc) = some (.fin .lock v)) ∧
    (f.mpc = .fin .lock v → f.mutex = none → (mainStep T f).map (·.1.mpc) = some (.fin .bump v)) ∧
    (f.mpc = .fin .bump v → (mainStep T f).map (·.1.mpc) = some (.fin .unlock v)) ∧
    (f.mpc = .fin .unlock v → (mainStep T f).map (·.1.mpc) = some (.fin .emit v)) ∧
    (f.mpc = .fin .emit v → (mainStep T f).map (·.1.mpc) = some (.fin .close v)) ∧
    (f.mpc = .fin .close v → (mainStep T f).map (·.1.mpc) = some .done) := by
  refine ⟨?_, ?_, ?_, ?_, ?_, ?_, ?_, ?_, ?_, ?_, ?_, ?_, ?_⟩
  · intro h; simp only [mainStep, h]; split <;> rfl
  · intro h; simp [FSys.step, h]
  · intro h; simp [mainStep, h]
  · intro h hm; simp [mainStep, h, hm]
  · intro h; simp [mainStep, h]
  · intro h; simp [mainStep, h]
  · intro b h; simp only [mainStep, h, Option.map_some]
  · intro h; simp [mainStep, h]
  · intro h hm; simp [mainStep, h, hm]
  · intro h; simp [mainStep, h]
  · intro h; simp [mainStep, h]
  · intro h; simp [mainStep, h]
  · intro h; simp [mainStep, h]

/-- … and a callback goroutine moves along `cbPassPcs` / `cbFailPcs` (its `Lock` provided the mutex
    is free; the check decides between the two). -/
theorem model_callback_order (f : FSys) (k g : Nat) (pc : CbPc) (hk : f.cbs[k]? = some (g, pc)) :
    (pc = .started → f.mutex = none → (cbStep f k).map (fun r => r.1.cbs[k]?) = some (some (g, .locked))) ∧
    (pc = .locked → (cbStep f k).map (fun r => r.1.cbs[k]?) = some (some (g, if g = f.escGen then .passed else .failed))) ∧
    (pc = .passed → (cbStep f k).map (fun r => r.1.cbs[k]?) = some (some (g, .emitted))) ∧
    (pc = .emitted → (cbStep f k).map (fun r => r.1.cbs[k]?) = some (some (g, .stateSet))) ∧
    (pc = .stateSet → (cbStep f k).map (fun r => r.1.cbs[k]?) = some (some (g, .stSet))) ∧
    (pc = .stSet ∨ pc = .failed → (cbStep f k).map (fun r => r.1.cbs[k]?) = some (some (g, .gone))) ∧
    (pc = .gone → cbStep f k = none) := by
  have hlt : k < f.cbs.length := by
    rcases Nat.lt_or_ge k f.cbs.length with h | h
    · exact h
    · rw [List.getElem?_eq_none h] at hk; cases hk
  refine ⟨?_, ?_, ?_, ?_, ?_, ?_, ?_⟩
  · rintro rfl hm; unfold cbStep; rw [hk]; simp only [hm, if_true, Option.map_some, List.getElem?_set_self hlt]
  · rintro rfl; unfold cbStep; rw [hk]; simp only [Option.map_some, List.getElem?_set_self hlt]
  · rintro rfl; unfold cbStep; rw [hk]; simp only [Option.map_some, List.getElem?_set_self hlt]
  · rintro rfl; unfold cbStep; rw [hk]; simp only [Option.map_some, List.getElem?_set_self hlt]
  · rintro rfl; unfold cbStep; rw [hk]; simp only [Option.map_some, List.getElem?_set_self hlt]
  · rintro (rfl | rfl) <;> (unfold cbStep; rw [hk]; simp only [Option.map_some, List.getElem?_set_self hlt])
  · rintro rfl; unfold cbStep; rw [hk]

/-! ### … is the order of the source -/

/-- The statements of `run`'s default arm as the main goroutine meets them: the call `p.readRune()`
    is entered — its statements that matter for the life cycle are `ReadRune` (blocks) and the
    `Stop()` of the timer, both outside the mutex; the rest of `readRune` computes the rune the read
    "returns" —; `if p.state == nil { Unlock; break outer }` and the `Unlock` after it are the two
    exits of one program counter. -/
def flattenRun (readRuneBody : List RStmt) : List RunStmt → List MainAt
  | [] => []
  | .callReadRune :: rest =>
    (readRuneBody.filter fun s => s = .readRune ∨ s = .stopTimer).map .inReadRune ++ flattenRun readRuneBody rest
  | .ifNilUnlockBreak :: rest => flattenRun readRuneBody rest
  | .yield _ :: rest => flattenRun readRuneBody rest
  | .deferYield _ :: rest => flattenRun readRuneBody rest
  | s :: rest => .run s :: flattenRun readRuneBody rest

/-- Deferred calls run at return, last registered first. -/
def isDefer : CbStmt → Bool
  | .deferUnlock | .deferYield1 | .deferYield _ => true
  | _ => false

def execOrder (body : List CbStmt) : List CbStmt :=
  body.filter (! isDefer ·) ++ (body.filter isDefer).reverse

/-- **The model's order is the source's order.**  The program counters of one loop iteration stand,
    in order, in front of the statements of the default arm of `run` as regenerated on this run (with
    the regenerated body of `readRune` inlined at the call: `ReadRune`, then `Stop()` — before the
    `Lock`, outside the mutex); those after the loop in front of the regenerated tail of `run`
    (`Stop; Lock; escGen++; Unlock; emit(EOF); close` — `p.closed <- true` follows `done`); those of a
    callback in front of the regenerated callback body in execution order (`Lock; check; emit;
    state = ground; ignoreST = false; deferred Unlock`; for a failed check `Lock; check; deferred
    Unlock`).  Moving `escGen++` in front of `Lock`, `Stop()` behind it, `emit(EOF{})` in front of the
    generation bump, or the check behind the `emit` in the source breaks this theorem. -/
theorem model_order_is_source_order (i : Inp) (b v : Bool) :
    (loopPcs i b).map mainAt = flattenRun Gen.ParserReader.readRuneBody Gen.ParserRun.runDefault ∧
    (tailPcs v).map mainAt = (Gen.ParserRun.runTail.filter (fun s => !s.isYield ∧ s ≠ .signalClosed)).map .run ++ [.returned] ∧
    (Gen.ParserRun.runTail.filter (! ·.isYield)).getLast? = some .signalClosed ∧
    (execOrder Gen.ParserRun.timerCallback).getLast? = some (.deferYield1) ∧
    ((execOrder Gen.ParserRun.timerCallback).filter (fun s => s = .deferUnlock ∨ s = .deferYield 39)) = [.deferUnlock, .deferYield 39] ∧
    cbPassPcs.filterMap cbAt =
      (execOrder Gen.ParserRun.timerCallback).filter (! ·.isYield) ∧
    cbFailPcs.filterMap cbAt = [.lock, .ifGenChangedReturn, .deferUnlock] ∧
    ((execOrder Gen.ParserRun.timerCallback).filter (! ·.isYield)).take 2 =
      [.lock, .ifGenChangedReturn] := by
  refine ⟨?_, by cases v <;> decide, by decide, by decide, by decide, by decide, by decide, by decide⟩
  simp only [loopPcs, List.map_cons, List.map_nil, mainAt]
  decide

end VaxisModel.Props.C08Order
