/-
C08 — storage of delivered payloads (round 3).  The automaton model keeps `p.oscData`, `p.apcData` and
`p.dcs.Data` as lists, so `p.oscData = p.oscData[:0]` (keep the backing array that the delivered
`OSC.Payload` still points to) and `p.oscData = make([]rune, 0, 128)` (a fresh array) are the same
to it.  For "a delivered sequence is never modified" they are not: the first lets the next OSC
overwrite the payload the consumer holds.  These facts, re-decided against the action bodies
regenerated from ansi/parser.go on every run (`Gen/ParserActs.lean`), pin the difference.
Property theorems only.
-/
import VaxisModel.Gen.ParserActs

namespace VaxisModel.Props.C08Payload
open VaxisModel.Model.ParserActs

/-- **Delivered payloads are never written again**: after `emit(OSC{Payload: p.oscData})` the
    accumulator is *replaced* by a fresh slice (`make([]rune, 0, n)`), after `emit(p.dcs)` the whole
    `p.dcs` is replaced by `DCS{}` (and `hook` starts every DCS with `Data: make([]rune, 0, n)`: part of
    the recognised shape of `.declSeq .dcs`), after `emit(APC{Data: string(p.apcData)})` — a copy — the
    accumulator is replaced by `[]rune{}`; none of them is truncated in place (`p.f = p.f[:0]`, which
    would keep the array a delivered sequence points to).  In-place truncation occurs only in
    `clear()`, on `p.intermediate` and `p.params` — the slices whose hand-over goes through the pools
    (`Props/C08Pools.lean`, `Props/C08Drive.lean`). -/
theorem delivered_payloads_not_recycled :
    Gen.ParserActs.oscEndBody = [.emitOsc, .resetField .oscData] ∧
    Gen.ParserActs.unhookBody = [.emitDcs, .resetField .dcs] ∧
    Gen.ParserActs.apcUnhookBody = [.emitApc, .resetField .apcData] ∧
    ([Gen.ParserActs.oscEndBody, Gen.ParserActs.unhookBody, Gen.ParserActs.apcUnhookBody,
      Gen.ParserActs.oscStartBody, Gen.ParserActs.oscPutBody, Gen.ParserActs.putBody,
      Gen.ParserActs.hookBody, Gen.ParserActs.csiDispatchBody, Gen.ParserActs.escapeDispatchBody].all
        fun b => b.all fun s => match s with | .truncField _ => false | _ => true) = true := by decide

/-- **Every hand-over of pooled storage is followed by a fresh `Get`** (round 4; the premise of the
    pool models `Model/ParserPools.lean` / `ParserPoolsDrive.lean`, re-decided against the regenerated
    bodies): `escapeDispatch`, `csiDispatch` and `hook` contain the statement
    `if len(p.intermediate) > 0 { X.Intermediate = p.intermediate; p.intermediate = p.intermediatePool.Get() }`
    (`.takeInter` is recognised only with the `Get`: without it — seeded change C08-m4 — the parser
    keeps appending to the array the delivered sequence points to); `csiDispatch` takes its parameter
    list with `p.paramListPool.Get()[:0]` and every parameter with `p.paramPool.Get()[:0]`, also after
    each `;` (`.newParam`: without the `[:0]` — seeded change C02-m5 — a recycled slice keeps its old
    contents); no statement of an action body is outside the vocabulary.  Membership, not position: a
    reorder that keeps the statements does not alarm here (it is judged by the `<a>_body` theorems). -/
theorem handover_takes_fresh_storage :
    BStmt.takeInter .esc ∈ Gen.ParserActs.escapeDispatchBody ∧
    BStmt.takeInter .csi ∈ Gen.ParserActs.csiDispatchBody ∧
    BStmt.takeInter .dcs ∈ Gen.ParserActs.hookBody ∧
    BStmt.op .newParams ∈ Gen.ParserActs.csiDispatchBody ∧
    BStmt.op .newParam ∈ Gen.ParserActs.csiDispatchBody ∧
    (Gen.ParserActs.csiDispatchBody.any fun s => match s with
      | .paramLoop cases _ => cases.any fun c => c.1 = 0x3B && c.2.contains .newParam
      | _ => false) = true ∧
    Gen.ParserActs.unrecognised = [] := by decide

end VaxisModel.Props.C08Payload
