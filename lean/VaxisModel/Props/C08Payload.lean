/-
C08 — storage of delivered payloads (round 3).  The automaton model keeps `p.oscData`, `p.apcData` and
`p.dcs.Data` as lists, so `p.oscData = p.oscData[:0]` (keep the backing array that the delivered
`OSC.Payload` still points to) and `p.oscData = make([]rune, 0, 128)` (a fresh array) are the same
to it.  For "a delivered sequence is never modified" they are not: the first lets the next OSC
overwrite the payload the consumer holds.  These facts, re-decided against the action bodies
regenerated from ansi/parser.go on every run (`Gen/ParserActs.lean`), pin the difference.
Property theorems only.
-/
import VaxisModel.Gen.ParserActs

namespace VaxisModel.Props.C08Payload
open VaxisModel.Model.ParserActs

/-- **Delivered payloads are never written again**: after `emit(OSC{Payload: p.oscData})` the
    accumulator is *replaced* by a fresh slice (`make([]rune, 0, n)`), after `emit(p.dcs)` the whole
    `p.dcs` is replaced by `DCS{}` (and `hook` starts every DCS with `Data: make([]rune, 0, n)`: part of
    the recognised shape of `.declSeq .dcs`), after `emit(APC{Data: string(p.apcData)})` — a copy — the
    accumulator is replaced by `[]rune{}`; none of them is truncated in place (`p.f = p.f[:0]`, which
    would keep the array a delivered sequence points to).  In-place truncation occurs only in
    `clear()`, on `p.intermediate` and `p.params` — the slices whose hand-over goes through the pools
    (`Props/C08Pools.lean`, `Props/C08Drive.lean`). -/
theorem delivered_payloads_not_recycled :
    Gen.ParserActs.oscEndBody = [.emitOsc, .resetField .oscData] ∧
    Gen.ParserActs.unhookBody = [.emitDcs, .resetField .dcs] ∧
    Gen.ParserActs.apcUnhookBody = [.emitApc, .resetField .apcData] ∧
    ([Gen.ParserActs.oscEndBody, Gen.ParserActs.unhookBody, Gen.ParserActs.apcUnhookBody,
      Gen.ParserActs.oscStartBody, Gen.ParserActs.oscPutBody, Gen.ParserActs.putBody,
      Gen.ParserActs.hookBody, Gen.ParserActs.csiDispatchBody, Gen.ParserActs.escapeDispatchBody].all
        fun b => b.all fun s => match s with | .truncField _ => false | _ => true) = true := by decide

end VaxisModel.Props.C08Payload
