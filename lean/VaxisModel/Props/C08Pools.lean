/-
C08 (deliverable B) — pool ownership over explicit backing arrays: what a delivered sequence's
`Intermediate` slice reads never changes until the consumer hands it back with `Finish`.
Property theorems only (model: Model/ParserPools.lean; invariant: Lemmas/ParserPools.lean).
-/
import VaxisModel.Model.ParserPools
import VaxisModel.Lemmas.ParserPools
import VaxisModel.Lemmas.ParserStale

namespace VaxisModel.Props.C08Pools
open VaxisModel.Model.ParserPools VaxisModel.Lemmas.ParserPools

/-- **Delivered contents are immutable.**  For every sequence of `collect`s (in place or growing to
    any capacity), `clear`s, dispatches (where `Get()` returns *any* pooled slice — with the stale
    length it was `Put` with — or a new `make([]rune, 0, 2)`) and consumer `Finish` calls (any
    order, any number of sequences held, however far the parser runs ahead; a delivered sequence is
    finished at most once), from the initial state: every delivered, unfinished sequence reads in
    cells `[0,len)` of its backing array exactly what it read when it was delivered. -/
theorem delivered_contents_immutable (ls : List Label) (s : St) (h : run Cfg.code St.init ls = some s)
    (d : Deliv) (hd : d ∈ s.delivered) : (cells s.heap d.s.arr).take d.s.len = d.snap :=
  (run_inv ls St.init s Inv_init h).intact d hd

/-- Two-state form: between any two points of a run at which the consumer holds `d`, what it reads
    through `d` is the same (in particular between the state right after the dispatch that
    delivered it — see `snapshot_taken_at_delivery` — and any later state before its `Finish`). -/
theorem delivered_contents_stable (ls1 ls2 : List Label) (s1 s2 : St)
    (h1 : run Cfg.code St.init ls1 = some s1) (h2 : run Cfg.code s1 ls2 = some s2)
    (d : Deliv) (hd1 : d ∈ s1.delivered) (hd2 : d ∈ s2.delivered) :
    (cells s2.heap d.s.arr).take d.s.len = (cells s1.heap d.s.arr).take d.s.len := by
  have h12 : run Cfg.code St.init (ls1 ++ ls2) = some s2 := by rw [run_append _ _ _ _ _ h1]; exact h2
  rw [delivered_contents_immutable _ _ h1 d hd1, delivered_contents_immutable _ _ h12 d hd2]

/-- #B of `reuseTrace` is held from its delivery (after 6 labels) to the end, across the reuse of
    array 0. -/
example : ∃ s1 s2, run Cfg.code St.init (reuseTrace.take 6) = some s1 ∧
    run Cfg.code s1 (reuseTrace.drop 6) = some s2 ∧
    (⟨⟨1, 2⟩, [66, 67]⟩ : Deliv) ∈ s1.delivered ∧ (⟨⟨1, 2⟩, [66, 67]⟩ : Deliv) ∈ s2.delivered :=
  ⟨_, _, rfl, rfl, by decide, by decide⟩

/-- The ghost field `snap` is what the theorem says it is: a dispatch records the cells `[0,len)` of
    `p.intermediate` as they are at that moment (and leaves them as they are), on top of the
    sequences already delivered … -/
theorem snapshot_taken_at_delivery (c : Cfg) (s s' : St) (g : Option Nat)
    (h : step c s (.dispatch g) = some s') :
    ∃ sl, s.cur = some sl ∧ 0 < sl.len ∧
      s'.delivered = ⟨sl, (cells s.heap sl.arr).take sl.len⟩ :: s.delivered := by
  simp only [step] at h
  split at h
  · cases h
  · rename_i sl hcur
    split at h
    · cases h
    · rename_i hlen
      refine ⟨sl, hcur, Nat.pos_of_ne_zero hlen, ?_⟩
      split at h
      · split at h
        · simp only [Option.some.injEq] at h; subst h; rfl
        · split at h
          · cases h
          · simp only [Option.some.injEq] at h; subst h; rfl
      · simp only [Option.some.injEq] at h; subst h; rfl

example : (step Cfg.code { heap := [[65, 0]], cur := some ⟨0, 1⟩ } (.dispatch none)).isSome = true := by
  decide

/-- … and no other step creates or alters a record: they only drop the one that is finished. -/
theorem records_only_removed (c : Cfg) (s s' : St) (l : Label) (hl : ∀ g, l ≠ .dispatch g)
    (h : step c s l = some s') (d : Deliv) (hd : d ∈ s'.delivered) : d ∈ s.delivered := by
  cases l with
  | collect r n =>
    simp only [step] at h
    split at h
    · split at h
      · simp only [Option.some.injEq] at h; subst h; exact hd
      · cases h
    · split at h
      · simp only [Option.some.injEq] at h; subst h; exact hd
      · split at h
        · simp only [Option.some.injEq] at h; subst h; exact hd
        · cases h
  | clear => simp only [step, Option.some.injEq] at h; subst h; exact hd
  | dispatch g => exact absurd rfl (hl g)
  | finish k =>
    simp only [step] at h
    split at h
    · cases h
    · simp only [Option.some.injEq] at h; subst h
      exact List.mem_of_mem_eraseIdx hd

example : (step Cfg.code { heap := [[65, 0], [0, 0]], cur := some ⟨1, 0⟩, delivered := [⟨⟨0, 1⟩, [65]⟩] }
    (.finish 0)).isSome = true := by decide

/-- **One owner per backing array**, along every run: the parser's array is not the array of any
    pooled or delivered slice, pooled and delivered arrays are disjoint and pairwise distinct, and
    all of them are allocated. -/
theorem one_owner (ls : List Label) (s : St) (h : run Cfg.code St.init ls = some s) :
    (∀ c, s.cur = some c → (∀ p ∈ s.pool, p.arr ≠ c.arr) ∧ (∀ d ∈ s.delivered, d.s.arr ≠ c.arr)) ∧
    (∀ p ∈ s.pool, ∀ d ∈ s.delivered, p.arr ≠ d.s.arr) ∧
    s.pool.Pairwise (fun a b => a.arr ≠ b.arr) ∧ s.delivered.Pairwise (fun a b => a.s.arr ≠ b.s.arr) := by
  have hinv := run_inv ls St.init s Inv_init h
  exact ⟨fun c hc => ⟨hinv.curPool c hc, hinv.curDel c hc⟩, hinv.poolDel, hinv.poolDistinct, hinv.delDistinct⟩

/-- **The in-place write of `append`** (the aliasing hazard) only ever hits an array that no
    delivered sequence and no pooled slice refers to. -/
theorem write_in_place_not_shared (ls : List Label) (s : St) (h : run Cfg.code St.init ls = some s)
    (sl : Slice) (hcur : s.cur = some sl) (hroom : sl.len < (cells s.heap sl.arr).length) (r n : Nat) :
    step Cfg.code s (.collect r n) =
      some { s with heap := write s.heap sl.arr sl.len r, cur := some ⟨sl.arr, sl.len + 1⟩ } ∧
    (∀ d ∈ s.delivered, d.s.arr ≠ sl.arr) ∧ (∀ p ∈ s.pool, p.arr ≠ sl.arr) := by
  have hinv := run_inv ls St.init s Inv_init h
  refine ⟨?_, hinv.curDel sl hcur, hinv.curPool sl hcur⟩
  simp only [step, hcur, hroom, if_true]

/-- **The model's slices are valid Go slices** along every run: `len ≤ cap` for `p.intermediate`, every
    pooled and every delivered slice (so `append` grows exactly when `len = cap`, and the growing
    `append` copies the whole old array). -/
theorem slices_within_capacity (ls : List Label) (s : St) (h : run Cfg.code St.init ls = some s) :
    (∀ c, s.cur = some c → c.len ≤ (cells s.heap c.arr).length) ∧
    (∀ p ∈ s.pool, p.len ≤ (cells s.heap p.arr).length) ∧
    (∀ d ∈ s.delivered, d.s.len ≤ (cells s.heap d.s.arr).length ∧ d.snap.length = d.s.len) := by
  have hinv := run_inv ls St.init s Inv_init h
  have hcap := run_cap ls St.init s Inv_init Cap_init h
  refine ⟨hcap.cur, hcap.pool, fun d hd => ⟨hcap.del d hd, ?_⟩⟩
  have h1 := hinv.intact d hd
  have h2 := hcap.del d hd
  simp only [Deliv.now] at h1
  simp only [lenOk] at h2
  rw [← h1, List.length_take]
  omega

/-! ### non-vacuity: reuse happens, and aliasing is real in the model -/

/-- The run is enabled; the pooled slice came back with its stale length; array 0 — the array of the
    *finished* sequence #A, which read `[65]` — now starts with 69 (had the consumer kept using #A
    after `Finish`, it would see the change: the arrays really are shared); the two sequences still
    held (#D over array 2, #B over array 1) are intact; the hypotheses of the theorems above hold
    for this run. -/
example :
    (run Cfg.code St.init (reuseTrace.take 10)).map (·.cur) = some (some ⟨0, 1⟩) ∧
    (run Cfg.code St.init reuseTrace).map (fun s => (s.cur, cells s.heap 0, s.delivered, s.pool)) =
      some (some ⟨0, 1⟩, [69], [⟨⟨2, 1⟩, [68]⟩, ⟨⟨1, 2⟩, [66, 67]⟩], []) ∧
    (run Cfg.code St.init reuseTrace).map allIntact = some true := by decide

/-- Without the `clear` the stale length shows: the next rune goes to cell 1 … of a 1-cell array, so
    `append` grows (here to capacity 4) and copies the stale cell. -/
example :
    (run Cfg.code St.init (reuseTrace.take 10 ++ [.collect 69 4])).map
      (fun s => (s.cur, cells s.heap 0, cells s.heap 3)) = some (some ⟨3, 2⟩, [65], [65, 69, 0, 0]) := by
  decide

/-- `write_in_place_not_shared`: a state with room in the parser's array is reached. -/
example : ∃ s sl, run Cfg.code St.init [.collect 65 1, .dispatch none] = some s ∧ s.cur = some sl ∧
    sl.len < (cells s.heap sl.arr).length := ⟨_, _, rfl, rfl, by decide⟩

/-! ### link to the id-only model of `Props/C08.lean` -/

open VaxisModel.Model.ParserRun (Own) in
/-- **The array model refines `Own`**: forgetting cells, lengths and snapshots (`abs`: `cur`, pooled
    ids, held ids, next id = heap size), every run of the array model is a run of `Own` (labels
    translated by `absRun`: an in-place `collect` is `collect false`, a growing one `collect true`,
    `dispatch (some k)`/`finish k` name the array of the k-th pooled/delivered slice) — so
    `delivered_immutable` and `OwnInv` of `Props/C08.lean` speak about these runs too. -/
theorem refines_Own (ls : List Label) (s : St) (h : run Cfg.code St.init ls = some s) :
    Own.run {} (absRun St.init ls) = some (abs s) :=
  run_refines_Own ls St.init s Inv_init h

example : absRun St.init reuseTrace =
    [.collect true, .dispatch none, .clear, .collect false, .collect false, .dispatch none, .finish 0,
     .clear, .collect false, .dispatch (some 0), .clear, .collect false] := by decide

/-! ### the theorem is about aliasing: without the `Get()` it fails -/

/-- If the dispatch functions kept `p.intermediate` (no `p.intermediate = p.intermediatePool.Get()`),
    the same statement is false: ESC `A` F delivers a slice over array 0 reading `[65]`; the next
    ESC clears and `B` is written in place into array 0 — the delivered sequence now reads `[66]`. -/
theorem delivered_contents_immutable_needs_get :
    ¬ (∀ (ls : List Label) (s : St), run Cfg.noGet St.init ls = some s →
        ∀ d ∈ s.delivered, (cells s.heap d.s.arr).take d.s.len = d.snap) := by
  intro h
  have h1 := h [.collect 65 2, .dispatch none, .clear, .collect 66 0] _ rfl ⟨⟨0, 1⟩, [65]⟩ (by decide)
  revert h1
  decide

/-- The assumption on the consumer is needed as well: if a sequence may be handed back twice (two
    `Put`s of the same slice), two later `Get`s return the same array, and the same statement is
    false — for a sequence that was *never* finished: ESC `A` F (#A, array 0), `Finish(#A)` twice,
    ESC `B` F with `Get` → array 0, ESC `C` F delivers #C over array 0 reading `[67]` and `Get`
    returns array 0 again; the next ESC `D` overwrites what #C reads. -/
theorem delivered_contents_immutable_needs_finish_once :
    ¬ (∀ (ls : List Label) (s : St), run Cfg.finishTwice St.init ls = some s →
        ∀ d ∈ s.delivered, (cells s.heap d.s.arr).take d.s.len = d.snap) := by
  intro h
  have h1 := h [.collect 65 2, .dispatch none, .finish 0, .clear, .collect 66 0, .dispatch (some 0),
    .clear, .collect 67 0, .dispatch (some 0), .clear, .collect 68 0] _ rfl ⟨⟨0, 1⟩, [67]⟩ (by decide)
  revert h1
  decide

/-! ### `paramPool` / `paramListPool`: `csi.Parameters` (a slice of slices) -/

/-- **Delivered parameters are immutable.**  For every interleaving of the steps of `csiDispatch`
    (`Get()[:0]` from the list pool and the param pool returning *any* pooled slice or a new one,
    `append`s in place or growing to any capacity, `emit`) with the individual `Put`s of consumer
    `Finish` calls (each parameter slice, then the list; several calls may be in progress; any
    order, any number of sequences held, `Finish` at most once per sequence), from the initial state: every delivered, unfinished CSI reads through
    `seq.Parameters` — list cells `[0,len)` and, through each header, `[]int` cells `[0,len_i)` —
    exactly the values it read when it was delivered. -/
theorem delivered_params_immutable (ls : List PLabel) (s : PSt) (h : prun PSt.init ls = some s)
    (d : PDeliv) (hd : d ∈ s.delivered) : readParams s.pheap s.lheap d.l = d.snap :=
  (prun_inv ls PSt.init s PInv_init h).intact d hd

/-- The ghost field `snap` is the value of `csi.Parameters` at the `emit`. -/
theorem params_snapshot_taken_at_delivery (s s' : PSt) (h : pstep s .emit = some s') :
    ∃ l, s.work = some (l, none) ∧ 0 < l.len ∧ s'.work = none ∧
      s'.delivered = ⟨l, readParams s.pheap s.lheap l⟩ :: s.delivered := by
  simp only [pstep] at h
  split at h
  · rename_i l hw
    split at h
    · cases h
    · rename_i hlen
      simp only [Option.some.injEq] at h; subst h
      exact ⟨l, hw, Nat.pos_of_ne_zero hlen, rfl, rfl⟩
  · cases h

example : ∃ s, prun PSt.init [.begin none, .get none, .app 1 0, .push 0] = some s ∧
    (pstep s .emit).isSome = true := ⟨_, rfl, by decide⟩

/-- Two-state form (as `delivered_contents_stable`). -/
theorem delivered_params_stable (ls1 ls2 : List PLabel) (s1 s2 : PSt)
    (h1 : prun PSt.init ls1 = some s1) (h2 : prun s1 ls2 = some s2)
    (d : PDeliv) (hd1 : d ∈ s1.delivered) (hd2 : d ∈ s2.delivered) :
    readParams s2.pheap s2.lheap d.l = readParams s1.pheap s1.lheap d.l := by
  have h12 : prun PSt.init (ls1 ++ ls2) = some s2 := by rw [prun_append _ _ _ _ h1]; exact h2
  rw [delivered_params_immutable _ _ h1 d hd1, delivered_params_immutable _ _ h12 d hd2]

/-- `CSI 4 m` of `pReuseTrace` is held from its delivery (after 14 labels) to the end. -/
example : ∃ s1 s2, prun PSt.init (pReuseTrace.take 14) = some s1 ∧
    prun s1 (pReuseTrace.drop 14) = some s2 ∧
    (⟨⟨1, 1⟩, [[4]]⟩ : PDeliv) ∈ s1.delivered ∧ (⟨⟨1, 1⟩, [[4]]⟩ : PDeliv) ∈ s2.delivered :=
  ⟨_, _, rfl, rfl, by decide, by decide⟩

/-- **One owner per array, in both heaps**, along every run: the `[][]int` arrays of the running
    dispatch, of pooled lists and of delivered sequences are pairwise distinct; the `[]int` arrays
    of `param`, of the headers already appended to `csi.Parameters`, of pooled params and of all
    headers of all delivered sequences and of those a `Finish` in progress has yet to put are
    pairwise distinct (no repetition in `lowners`/`powners`); all are allocated. -/
theorem param_arrays_one_owner (ls : List PLabel) (s : PSt) (h : prun PSt.init ls = some s) :
    (lowners s).Nodup ∧ (powners s).Nodup ∧
    (∀ a ∈ lowners s, a < s.lheap.length) ∧ (∀ a ∈ powners s, a < s.pheap.length) := by
  have hinv := prun_inv ls PSt.init s PInv_init h
  exact ⟨hinv.lown.1, hinv.pown.1, hinv.lown.2, hinv.pown.2⟩

/-- Non-vacuity: `CSI 1;2:3 m`, `CSI 4 m`, `Finish` of the first, then `CSI 5;6 m` whose three `Get`s
    return the first one's list and both of its parameter arrays: the run is enabled; before the
    reuse `[]int` arrays 0 and 1 read `1` / `2,3` (the finished sequence), after it `5` / `6,3…` —
    reuse really overwrites, in place, what the finished sequence pointed to — while the unfinished
   `CSI 4 m` and the new sequence are intact, and the owner lists have no repetition. -/
example :
    (prun PSt.init (pReuseTrace.take 18)).map (fun s => (s.pheap.map (·.take 2), s.ppool, s.lpool)) =
      some ([[1, 0], [2, 3], [4, 0]], [⟨1, 2⟩, ⟨0, 1⟩], [⟨0, 2⟩]) ∧
    (prun PSt.init pReuseTrace).map (fun s => (s.pheap.map (·.take 2), s.delivered, lowners s, powners s)) =
      some ([[6, 0], [5, 3], [4, 0]], [⟨⟨0, 2⟩, [[5], [6]]⟩, ⟨⟨1, 1⟩, [[4]]⟩], [0, 1], [1, 0, 2]) ∧
    (prun PSt.init pReuseTrace).map pAllIntact = some true := by decide

/-- … and with the parser running ahead of the `Finish` loop (a parameter array is taken by `Get` as
    soon as it is put, while the `Finish` call still reads the list it has not yet put; the dispatch
    in progress spans `finish`/`finPut` steps). -/
example :
    (prun PSt.init (pReuseTrace2.take 14)).map (·.work) = some (some (⟨1, 0⟩, some ⟨2, 1⟩)) ∧
    (prun PSt.init (pReuseTrace2.take 14)).map (fun s => (s.ppool, s.fin)) = some ([⟨0, 1⟩], [(⟨0, 2⟩, 1)]) ∧
    (prun PSt.init pReuseTrace2).map (fun s => (s.pheap.map (·.take 2), s.delivered, s.lpool, s.fin)) =
      some ([[5, 0], [6, 3], [4, 0]], [⟨⟨2, 2⟩, [[5], [6]]⟩, ⟨⟨1, 1⟩, [[4]]⟩], [⟨0, 2⟩], []) ∧
    (prun PSt.init pReuseTrace2).map pAllIntact = some true := by decide

/-- Growth of both kinds of array is exercised too: 7 sub-parameters in one parameter (capacity 6),
    5 parameters (capacity 4). -/
example :
    (prun PSt.init ([.begin none, .get none] ++ List.replicate 7 (.app 9 12) ++ [.push 0] ++
        (List.replicate 4 [PLabel.get none, .app 1 0, .push 8]).flatten ++ [.emit])).map
      (fun s => (s.delivered, pAllIntact s)) =
      some ([⟨⟨1, 5⟩, [[9, 9, 9, 9, 9, 9, 9], [1], [1], [1], [1]]⟩], true) := by decide

/-! ### the stale length of a pooled slice is not observable

`Get()` hands back a slice with the length it was `Put` with; the automaton model (Model/Parser.lean)
writes `inter := []` at a dispatch instead.  The two agree on everything that is emitted. -/

section Stale
open VaxisModel.Model.ParserTable VaxisModel.Model.Parser VaxisModel.Lemmas.ParserStale

/-- **Whatever `p.intermediate` holds after a dispatch is never seen.**  From the states in which a
    dispatch leaves the parser (`ground`; `dcsPassthrough` after `hook`), for any stale contents `x` of
    `p.intermediate` and any further input (runes, end of input): the items emitted and the point
    where the loop stops are those of the run with `p.intermediate` empty — every path to a statement
    that reads or appends to it goes through the `clear()` of an ESC. -/
theorem stale_intermediate_unobservable (s : PState) (hd : s.state = .ground ∨ s.state = .dcsPassthrough)
    (x : List Rune) (is : List Inp) :
    (runWith handTable { s with inter := x } is).2 = (runWith handTable s is).2 :=
  (runWith_stale is s _ (Or.inl ⟨hd, x, rfl⟩)).1

-- a stale `,` in p.intermediate, then `A ESC # 8 ESC [ ? 1 h`: the same items as with an empty slice
example : (runWith handTable { PState.init with inter := [0x2C] }
      [.rune 0x41, .rune 0x1B, .rune 0x23, .rune 0x38, .rune 0x1B, .rune 0x5B, .rune 0x3F, .rune 0x31, .rune 0x68, .eof]).2 =
    ([.print 0x41, .esc [0x23] 0x38, .csi [0x3F] [[1]] 0x68], true) := by decide

/-- … and those are the states a dispatch leaves the parser in: in every state function, every arm
    that contains `escapeDispatch`, `csiDispatch` or `hook` returns `ground` or `dcsPassthrough` (also
    through its early `return`). -/
theorem dispatch_leaves_intermediate_dead (st : StateId) (r : Nat)
    (h : ((handFn st).row (.rune r)).1.any isDispatch = true) :
    (((handFn st).row (.rune r)).2 = .st .ground ∨ ((handFn st).row (.rune r)).2 = .st .dcsPassthrough) ∧
    retTargetsDead ((handFn st).row (.rune r)).1 = true := by
  have := dispatch_rows st r
  simp only [dispatchRowOk, h, Bool.not_true, Bool.false_or, Bool.and_eq_true, Bool.or_eq_true, beq_iff_eq] at this
  exact this

example : ((handFn .csiParam).row (.rune 0x6D)).1.any isDispatch = true := by decide

end Stale

/-! ### negative witnesses for the parameter pools -/

/-- The variant interpreter with the code's configuration is `pstep` (so the theorems above are
    about `PCfg.code`). -/
theorem pstepV_code (s : PSt) (l : PLabel) : pstepV PCfg.code s l = pstep s l := by
  cases l with
  | emit =>
    simp only [pstepV, PCfg.code, Bool.false_eq_true, if_false]
    cases pstep s .emit with
    | none => rfl
    | some s' => cases hw : s.work with
      | none => rfl
      | some w => rfl
  | finish k =>
    simp only [pstepV, PCfg.code, Bool.false_eq_true, if_false, pstep]
    cases s.delivered[k]? <;> rfl
  | _ => rfl

/-- Ownership must move to the consumer at `emit` (the analogue of `…_needs_get` for the
    intermediates): if `csiDispatch` could take the list and the parameter arrays of a sequence again
    while that sequence is still held, the held sequence is overwritten — `CSI 1 m` held, the next
    `csiDispatch` gets the same `[]int` array and appends 9: the held CSI now reads 9. -/
theorem delivered_params_immutable_needs_transfer :
    ¬ (∀ (ls : List PLabel) (s : PSt), prunV { keepOnEmit := true } PSt.init ls = some s →
        ∀ d ∈ s.delivered, readParams s.pheap s.lheap d.l = d.snap) := by
  intro h
  have h1 := h [.begin none, .get none, .app 1 0, .push 0, .emit,
    .begin none, .get (some 0), .app 9 0] _ rfl ⟨⟨0, 1⟩, [[1]]⟩ (by decide)
  revert h1
  decide

/-- … and the consumer must hand a CSI back at most once: after two `Finish` calls on `CSI 1 m` its
    parameter array sits in `paramPool` twice; `CSI 2 m` takes it and is delivered (never finished);
    `CSI 3 m` takes it again and overwrites what the held `CSI 2 m` reads. -/
theorem delivered_params_immutable_needs_finish_once :
    ¬ (∀ (ls : List PLabel) (s : PSt), prunV { finishTwice := true } PSt.init ls = some s →
        ∀ d ∈ s.delivered, readParams s.pheap s.lheap d.l = d.snap) := by
  intro h
  have h1 := h [.begin none, .get none, .app 1 0, .push 0, .emit,
    .finish 0, .finPut 0, .finPut 0, .finish 0, .finPut 0, .finPut 0,
    .begin none, .get (some 0), .app 2 0, .push 0, .emit,
    .begin none, .get (some 0), .app 3 0] _ rfl ⟨⟨1, 1⟩, [[2]]⟩ (by decide)
  revert h1
  decide

end VaxisModel.Props.C08Pools
