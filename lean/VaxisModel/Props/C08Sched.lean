/-
C08 (round 4) — forced schedules: what the harness `harness/cmd/C08Sched` replays on the real parser
are runs of the statement-grained LTS (`Model/ParserRunFine.lean`), so every theorem of
`Props/C08Fine.lean` / `C08FineChan.lean` / `C08Spec.lean` speaks about them.  Property theorems only.
-/
import VaxisModel.Model.ParserRunSched
import VaxisModel.Model.Parser
import VaxisModel.Props.C08Fine
import VaxisModel.Props.C08Spec

namespace VaxisModel.Props.C08Sched
open VaxisModel.Model.ParserTable VaxisModel.Model.Parser VaxisModel.Model.ParserRun VaxisModel.Model.ParserRunFine
open VaxisModel.Model.ParserRunSched

/-- **A harness label is one or two statements of the statement-grained LTS**: `read i` is the read
    return followed by the `Stop()` inside `readRune`; a callback's failed check runs on through its
    deferred `Unlock`, and so does its last assignment; everything else is exactly one statement.
    (Any table, any state.) -/
theorem sstep_is_fine_run (T : Table) (f : FSys) (l : SLabel) (r : FSys × List Seq)
    (h : sstep T f l = some r) : FSys.run T f (expand f l) = some r ∧ 1 ≤ (expand f l).length ∧ (expand f l).length ≤ 2 := by
  refine ⟨?_, ?_, ?_⟩
  · unfold sstep at h; split at h
    · exact h
    · cases h
  · cases l <;> simp only [expand] <;> (repeat' split) <;> simp
  · cases l <;> simp only [expand] <;> (repeat' split) <;> simp

/-- Runs of the statement-grained LTS compose. -/
theorem run_append (T : Table) (f : FSys) (as bs : List FLabel) :
    FSys.run T f (as ++ bs) =
      (match FSys.run T f as with
       | none => none
       | some (f1, o1) => match FSys.run T f1 bs with
         | none => none
         | some (f2, o2) => some (f2, o1 ++ o2)) := by
  induction as generalizing f with
  | nil => simp only [List.nil_append, FSys.run]; cases FSys.run T f bs with
    | none => rfl
    | some r => cases r; simp
  | cons a as ih =>
    simp only [List.cons_append, FSys.run]
    cases FSys.step T f a with
    | none => rfl
    | some r =>
      obtain ⟨f1, o1⟩ := r
      simp only [ih]
      cases FSys.run T f1 as with
      | none => rfl
      | some r2 =>
        obtain ⟨f2, o2⟩ := r2
        simp only
        cases FSys.run T f2 bs with
        | none => rfl
        | some r3 => cases r3; simp [List.append_assoc]

/-- **Every replayed schedule is a run of the statement-grained LTS** with the same final state and
    the same items: there is a list of single statements (the expansions of the labels, in order)
    that `FSys.run` executes to the same result.  Hence `fine_refines_atomic`, `fine_eof_once_last`,
    `fine_no_panic`, `fine_escape_report_is_lone_esc`, `fine_mutual_exclusion` … hold of every
    schedule the harness replays. -/
theorem srun_is_fine_run (T : Table) (ls : List SLabel) (f : FSys) (r : FSys × List Seq)
    (h : srun T f ls = some r) : ∃ fl : List FLabel, FSys.run T f fl = some r ∧ ls.length ≤ fl.length := by
  induction ls generalizing f r with
  | nil => exact ⟨[], by simpa [srun, FSys.run] using h, by simp⟩
  | cons l ls ih =>
    simp only [srun, seqBind] at h
    cases h1 : sstep T f l with
    | none => rw [h1] at h; cases h
    | some a =>
      obtain ⟨f1, o1⟩ := a
      rw [h1] at h; simp only at h
      cases h2 : srun T f1 ls with
      | none => rw [h2] at h; cases h
      | some b =>
        obtain ⟨f2, o2⟩ := b
        rw [h2] at h; simp only at h
        obtain ⟨fl, hfl, hlen⟩ := ih f1 (f2, o2) h2
        obtain ⟨hx, h1', _⟩ := sstep_is_fine_run T f l (f1, o1) h1
        refine ⟨expand f l ++ fl, ?_, ?_⟩
        · rw [run_append, hx]; simp only [hfl]; exact h
        · simp only [List.length_cons, List.length_append]; omega

/-- Soundness of the enumeration, with the accumulator explicit. -/
theorem enumerate_sound_acc (T : Table) : ∀ (fuel : Nat) (f : FSys) (ins : List Nat) (mc : Bool) (pre : List SLabel)
    (cap : Nat) (acc : List (List SLabel)) (s : List SLabel),
    s ∈ enumerate T fuel f ins mc pre cap acc →
    s ∈ acc ∨ ∃ ls r, s = pre.reverse ++ ls ∧ srun T f ls = some r ∧ finished r.1 = true := by
  intro fuel
  induction fuel with
  | zero => intro f ins mc pre cap acc s h; left; simpa [enumerate] using h
  | succ fuel ih =>
    intro f ins mc pre cap acc s h
    unfold enumerate at h
    split at h
    · left; exact h
    · split at h
      · rename_i hfin
        rcases List.mem_cons.mp h with h | h
        · right; exact ⟨[], (f, []), by simp [h], by simp [srun], hfin⟩
        · left; exact h
      · -- the fold over the enabled labels
        have key : ∀ (en : List SLabel) (acc' : List (List SLabel)),
            (∀ s ∈ acc', s ∈ acc ∨ ∃ ls r, s = pre.reverse ++ ls ∧ srun T f ls = some r ∧ finished r.1 = true) →
            ∀ s ∈ en.foldl (fun acc l =>
                match sstep T f l with
                | none => acc
                | some (f1, _) =>
                  enumerate T fuel f1 (match l with | .read (.rune _) => ins.drop 1 | _ => ins)
                    (match l with | .close => false | _ => mc) (l :: pre) cap acc) acc',
              s ∈ acc ∨ ∃ ls r, s = pre.reverse ++ ls ∧ srun T f ls = some r ∧ finished r.1 = true := by
          intro en
          induction en with
          | nil => intro acc' hacc s hs; exact hacc s (by simpa using hs)
          | cons l en ihen =>
            intro acc' hacc s hs
            simp only [List.foldl_cons] at hs
            refine ihen _ ?_ s hs
            intro s' hs'
            cases h1 : sstep T f l with
            | none => rw [h1] at hs'; exact hacc s' hs'
            | some a =>
              obtain ⟨f1, o1⟩ := a
              rw [h1] at hs'
              rcases ih _ _ _ _ _ _ _ hs' with h' | ⟨ls, r, he, hr, hf⟩
              · exact hacc s' h'
              · right
                refine ⟨l :: ls, (r.1, o1 ++ r.2), ?_, ?_, hf⟩
                · simp [he]
                · simp only [srun, seqBind, h1, hr]
        exact key _ acc (fun s hs => Or.inl hs) s h

/-- **Every schedule the model hands to the harness is a complete run of the LTS**: from the initial
    state it executes label by label (no label is disabled where the schedule takes it — in
    particular no `Lock` while the mutex is held) and ends with `run` returned, every callback
    goroutine returned and no timer pending.  (Any table, any scripted input, with or without `Close()`.) -/
theorem enumerate_sound (T : Table) (fuel : Nat) (ins : List Nat) (mc : Bool) (cap : Nat) (s : List SLabel)
    (h : s ∈ enumerate T fuel {} ins mc [] cap []) :
    ∃ r, srun T {} s = some r ∧ finished r.1 = true := by
  rcases enumerate_sound_acc T fuel {} ins mc [] cap [] s h with h | ⟨ls, r, he, hr, hf⟩
  · cases h
  · exact ⟨r, by simpa [he] using hr, hf⟩

-- non-vacuity: a lone ESC, then end of input — the first schedules of the enumeration; the callback
-- reports the Escape key (`C0 1B`) and the run ends with `EOF{}`
example : ((enumerate handTable 80 {} [0x1B] false [] 100000 []).length, (enumerate handTable 80 {} [0x1B] true [] 100000 []).length) = (31, 95) := by
  decide +kernel
example : (srun handTable {} [.main, .read (.rune 0x1B), .main, .main, .main, .expire, .main, .cb 0, .cb 0, .cb 0, .cb 0, .cb 0,
    .main, .read .eof, .main, .main, .main, .main, .main, .main, .main, .main, .main, .main]).map (fun r => (r.2, finished r.1)) =
    some ([.c0 0x1B, .eof], true) := by decide +kernel

/-! ### why each generation bump is there (the schedules the harness found on the changed code) -/

/-- lone ESC; the timer expires (callback parked in front of `Lock`); `Close()`; `run` leaves the loop
    and runs to its end; only then the callback runs — the replay `sched M,R1b,M,M,M,X,M,K,M,M,M,M,M,M,M,C0,C0`
    of `corpus/C08Sched`, statement by statement -/
def lateCallbackAfterClose : List FLabel :=
  [.main, .readRet (.rune 0x1B), .main, .main, .main, .main, .expire, .main, .closeSig,
   .main, .main, .main, .main, .main, .main, .main, .cb 0, .cb 0, .cb 0]

/-- **The bump after the loop is needed**: without `escGen++` in front of `emit(EOF{})` the callback
    of a lone ESC that starts late still sees its own generation after `close(p.sequences)` and
    sends on the closed channel (`panic`); the code as it is fails the check and emits nothing —
    same schedule, statement by statement. -/
theorem fine_needs_final_bump :
    (FSys.runV .noFinalBump handTable {} lateCallbackAfterClose).map (fun r => r.2) = some [.eof, .panic] ∧
    (FSys.runV .code handTable {} lateCallbackAfterClose).map (fun r => r.2) = some [.eof] ∧
    FSys.runV .code handTable {} lateCallbackAfterClose = FSys.run handTable {} lateCallbackAfterClose := by
  decide +kernel

/-- lone ESC; the timer expires; the next read returns SUB (0x1A) and is parsed; then the callback runs -/
def lateCallbackAfterSub : List FLabel :=
  [.main, .readRet (.rune 0x1B), .main, .main, .main, .main, .expire, .main,
   .main, .readRet (.rune 0x1A), .main, .main, .main, .main, .main, .cb 0, .cb 0, .cb 0]

/-- **The bump belongs in `run`, before every transition** (seeded change C08-m2): with `escGen++`
    moved into the `escape` state function a SUB (or CAN, ESC, end of input — handled by `anywhere`
    itself) does not outdate the started callback, which then reports the Escape key after the
    `C0 1A` that followed the ESC; the code as it is reports nothing. -/
theorem fine_needs_bump_before_every_transition :
    (FSys.runV .bumpInEscape handTable {} lateCallbackAfterSub).map (fun r => r.2) = some [.c0 0x1A, .c0 0x1B] ∧
    (FSys.runV .code handTable {} lateCallbackAfterSub).map (fun r => r.2) = some [.c0 0x1A] := by
  decide +kernel

/-! ### completeness of the enumeration -/

/-- what the reader still has to deliver / whether a `Close()` is still to come, after a label -/
def insAfter (ins : List Nat) : SLabel → List Nat
  | .read (.rune _) => ins.drop 1
  | _ => ins
def mcAfter (mc : Bool) : SLabel → Bool
  | .close => false
  | _ => mc

/-- A complete schedule under the two reductions of `Model/ParserRunSched.lean`: at every state that is
    not finished the next label is one of `enabled` (any enabled statement of any goroutine; the read
    returns the next scripted input; `Close()` in front of a `select`; expiry right after arming), it
    executes, and the rest is such a schedule; it ends in a finished state. -/
inductive Reduced (T : Table) : FSys → List Nat → Bool → List SLabel → Prop
  | done (f ins mc) : finished f = true → Reduced T f ins mc []
  | step (f ins mc l f1 o ls) : finished f = false → l ∈ enabled T f ins mc → sstep T f l = some (f1, o) →
      Reduced T f1 (insAfter ins l) (mcAfter mc l) ls → Reduced T f ins mc (l :: ls)

/-- one step of the fold in `enumerate` -/
def gstep (T : Table) (fuel : Nat) (f : FSys) (ins : List Nat) (mc : Bool) (pre : List SLabel) (cap : Nat)
    (acc : List (List SLabel)) (l : SLabel) : List (List SLabel) :=
  match sstep T f l with
  | none => acc
  | some (f1, _) => enumerate T fuel f1 (insAfter ins l) (mcAfter mc l) (l :: pre) cap acc

theorem enumerate_succ (T : Table) (fuel : Nat) (f : FSys) (ins : List Nat) (mc : Bool) (pre : List SLabel) (cap : Nat)
    (acc : List (List SLabel)) :
    enumerate T (fuel + 1) f ins mc pre cap acc =
      if acc.length ≥ cap then acc else if finished f then pre.reverse :: acc
      else (enabled T f ins mc).foldl (gstep T fuel f ins mc pre cap) acc := by
  rw [enumerate]
  split
  · rfl
  · split
    · rfl
    · congr 1

/-- the enumeration only adds schedules -/
theorem enumerate_mono (T : Table) : ∀ (fuel : Nat) (f : FSys) (ins : List Nat) (mc : Bool) (pre : List SLabel) (cap : Nat)
    (acc : List (List SLabel)),
    (∀ s ∈ acc, s ∈ enumerate T fuel f ins mc pre cap acc) ∧ acc.length ≤ (enumerate T fuel f ins mc pre cap acc).length := by
  intro fuel
  induction fuel with
  | zero => intro f ins mc pre cap acc; simp [enumerate]
  | succ fuel ih =>
    intro f ins mc pre cap acc
    rw [enumerate_succ]
    split
    · exact ⟨fun s h => h, Nat.le_refl _⟩
    · split
      · exact ⟨fun s h => List.mem_cons_of_mem _ h, by simp⟩
      · have key : ∀ (en : List SLabel) (a : List (List SLabel)),
            (∀ s ∈ a, s ∈ en.foldl (gstep T fuel f ins mc pre cap) a) ∧
            a.length ≤ (en.foldl (gstep T fuel f ins mc pre cap) a).length := by
          intro en
          induction en with
          | nil => intro a; simp
          | cons l en ihen =>
            intro a
            simp only [List.foldl_cons]
            have hg : (∀ s ∈ a, s ∈ gstep T fuel f ins mc pre cap a l) ∧ a.length ≤ (gstep T fuel f ins mc pre cap a l).length := by
              unfold gstep
              cases sstep T f l with
              | none => exact ⟨fun s h => h, Nat.le_refl _⟩
              | some r => exact ih _ _ _ _ _ _
            obtain ⟨h1, h2⟩ := ihen (gstep T fuel f ins mc pre cap a l)
            exact ⟨fun s hs => h1 s (hg.1 s hs), Nat.le_trans hg.2 h2⟩
        exact key _ acc

theorem fold_mono (T : Table) (fuel : Nat) (f : FSys) (ins : List Nat) (mc : Bool) (pre : List SLabel) (cap : Nat) :
    ∀ (en : List SLabel) (a : List (List SLabel)),
      (∀ s ∈ a, s ∈ en.foldl (gstep T fuel f ins mc pre cap) a) ∧
      a.length ≤ (en.foldl (gstep T fuel f ins mc pre cap) a).length := by
  intro en
  induction en with
  | nil => intro a; simp
  | cons l en ihen =>
    intro a
    simp only [List.foldl_cons]
    have hg : (∀ s ∈ a, s ∈ gstep T fuel f ins mc pre cap a l) ∧ a.length ≤ (gstep T fuel f ins mc pre cap a l).length := by
      unfold gstep
      cases sstep T f l with
      | none => exact ⟨fun s h => h, Nat.le_refl _⟩
      | some r => exact enumerate_mono T _ _ _ _ _ _ _
    obtain ⟨h1, h2⟩ := ihen (gstep T fuel f ins mc pre cap a l)
    exact ⟨fun s hs => h1 s (hg.1 s hs), Nat.le_trans hg.2 h2⟩

theorem enumerate_complete_acc (T : Table) : ∀ (fuel : Nat) (f : FSys) (ins : List Nat) (mc : Bool) (pre : List SLabel)
    (cap : Nat) (acc : List (List SLabel)) (ls : List SLabel),
    Reduced T f ins mc ls → ls.length < fuel → (enumerate T fuel f ins mc pre cap acc).length < cap →
    pre.reverse ++ ls ∈ enumerate T fuel f ins mc pre cap acc := by
  intro fuel
  induction fuel with
  | zero => intro f ins mc pre cap acc ls _ h; omega
  | succ fuel ih =>
    intro f ins mc pre cap acc ls hr hlen hcap
    have hm := (enumerate_mono T (fuel + 1) f ins mc pre cap acc).2
    rw [enumerate_succ] at hcap hm ⊢
    have hacc : ¬ acc.length ≥ cap := by
      intro h; rw [if_pos h] at hcap; omega
    rw [if_neg hacc] at hcap hm ⊢
    cases hr with
    | done _ _ _ hfin => rw [if_pos hfin]; simp
    | step _ _ _ l f1 o ls' hnf hen hs hrest =>
      have hnf' : ¬ finished f = true := by rw [hnf]; simp
      rw [if_neg hnf'] at hcap hm ⊢
      obtain ⟨en1, en2, hsplit⟩ := List.append_of_mem hen
      rw [hsplit, List.foldl_append, List.foldl_cons] at hcap ⊢
      -- the accumulator when the fold reaches `l`, and after it
      have h2 := fold_mono T fuel f ins mc pre cap en2 (gstep T fuel f ins mc pre cap (en1.foldl (gstep T fuel f ins mc pre cap) acc) l)
      apply h2.1
      have hg : gstep T fuel f ins mc pre cap (en1.foldl (gstep T fuel f ins mc pre cap) acc) l =
          enumerate T fuel f1 (insAfter ins l) (mcAfter mc l) (l :: pre) cap (en1.foldl (gstep T fuel f ins mc pre cap) acc) := by
        unfold gstep; rw [hs]
      rw [hg] at h2 hcap ⊢
      have := ih f1 (insAfter ins l) (mcAfter mc l) (l :: pre) cap (en1.foldl (gstep T fuel f ins mc pre cap) acc) ls' hrest
        (by simp only [List.length_cons] at hlen; omega) (by have := h2.2; omega)
      simpa using this

/-- **The enumeration is complete**: as long as the cap is not reached, every complete schedule under
    the two reductions, shorter than the fuel, is in the list — with `enumerate_sound`: the list is
    exactly the set of such interleavings of the statements of `run` (and of the reader's returns,
    `Close()`, timer expiries) with the statements of the callbacks.  (Any table.) -/
theorem enumerate_complete (T : Table) (fuel : Nat) (ins : List Nat) (mc : Bool) (cap : Nat) (ls : List SLabel)
    (hr : Reduced T {} ins mc ls) (hlen : ls.length < fuel)
    (hcap : (enumerate T fuel {} ins mc [] cap []).length < cap) :
    ls ∈ enumerate T fuel {} ins mc [] cap [] := by
  simpa using enumerate_complete_acc T fuel {} ins mc [] cap [] ls hr hlen hcap

/-! ### the oracle clause `unguarded-write` is a theorem of the LTS -/

open VaxisModel.Lemmas.ParserRunFine in
/-- **The guarded fields are written only under the mutex**: in every reachable state of the
    statement-grained system, a statement that changes `escGen` or any field of the parser state
    (`state`, `ignoreST`, the collected bytes, the accumulators) is a statement of the goroutine that
    holds `p.mu` before and after it — the main goroutine between its `Lock` and `Unlock`, or a
    callback between its `Lock` and its deferred `Unlock`.  (`Close()`, read returns, timer expiries,
    `Lock`, `Unlock`, `Stop()`, the `select`, `emit(EOF{})` and `close` change none of them.)  This is
    the clause `FAIL[unguarded-write]` of the forced-schedule oracle, which is evaluated on the real
    code; together with `fine_mutual_exclusion` it is why "sync.Mutex gives sequential consistency for
    the fields it guards" applies to them. -/
theorem fine_writes_under_mutex (T : Table) (hT : TimerOk T) (fls : List FLabel) (f : FSys) (out : List Seq)
    (h : FSys.run T FSys.init fls = some (f, out)) (l : FLabel) (f' : FSys) (o : List Seq)
    (hs : FSys.step T f l = some (f', o)) (hch : f'.escGen ≠ f.escGen ∨ f'.ps ≠ f.ps) :
    (l = .main ∧ f.mutex = some .main ∧ f'.mutex = some .main) ∨
    (∃ i, l = .cb i ∧ f.mutex = some .cb ∧ f'.mutex = some .cb) := by
  obtain ⟨hm1, hm2, _, _, _⟩ := VaxisModel.Props.C08Fine.fine_mutual_exclusion T hT fls f out h
  cases l with
  | closeSig => simp only [FSys.step, Option.some.injEq, Prod.mk.injEq] at hs; obtain ⟨rfl, _⟩ := hs; simp at hch
  | readRet i =>
    simp only [FSys.step] at hs
    split at hs
    · simp only [Option.some.injEq, Prod.mk.injEq] at hs; obtain ⟨rfl, _⟩ := hs; simp at hch
    · cases hs
  | expire =>
    simp only [FSys.step] at hs
    split at hs
    · simp only [Option.some.injEq, Prod.mk.injEq] at hs; obtain ⟨rfl, _⟩ := hs; simp at hch
    · cases hs
  | main =>
    left
    simp only [FSys.step] at hs
    have key : (f'.escGen = f.escGen ∧ f'.ps = f.ps) ∨ (holdsMain f.mpc = true ∧ f'.mutex = f.mutex) := by
      unfold mainStep at hs
      cases hpc : f.mpc with
      | atSelect => rw [hpc] at hs; simp only at hs; split at hs <;> (cases hs; left; exact ⟨rfl, rfl⟩)
      | inRead => rw [hpc] at hs; cases hs
      | readDone i => rw [hpc] at hs; cases hs; left; exact ⟨rfl, rfl⟩
      | stopped i =>
        rw [hpc] at hs; simp only at hs; split at hs
        · cases hs; left; exact ⟨rfl, rfl⟩
        · cases hs
      | locked i => rw [hpc] at hs; cases hs; right; exact ⟨rfl, rfl⟩
      | bumped i => rw [hpc] at hs; cases hs; right; exact ⟨rfl, rfl⟩
      | stepped b => rw [hpc] at hs; cases hs; left; exact ⟨rfl, rfl⟩
      | fin st v =>
        rw [hpc] at hs
        cases st with
        | stop => cases hs; left; exact ⟨rfl, rfl⟩
        | lock =>
          simp only at hs; split at hs
          · cases hs; left; exact ⟨rfl, rfl⟩
          · cases hs
        | bump => cases hs; right; exact ⟨rfl, rfl⟩
        | unlock => cases hs; left; exact ⟨rfl, rfl⟩
        | emit => cases hs; left; exact ⟨rfl, rfl⟩
        | close => cases hs; left; exact ⟨rfl, rfl⟩
      | done => rw [hpc] at hs; cases hs
    rcases key with ⟨h1, h2⟩ | ⟨h1, h2⟩
    · rcases hch with hch | hch
      · exact absurd h1 hch
      · exact absurd h2 hch
    · have hm : f.mutex = some .main := hm1.mpr h1
      exact ⟨rfl, hm, by rw [h2]; exact hm⟩
  | cb i =>
    right
    refine ⟨i, rfl, ?_⟩
    simp only [FSys.step, cbStep] at hs
    cases hk : f.cbs[i]? with
    | none => rw [hk] at hs; cases hs
    | some c =>
      obtain ⟨g, pc⟩ := c
      rw [hk] at hs
      have hmem : (g, pc) ∈ f.cbs := List.mem_of_getElem? hk
      have hcb : crit pc = true → f.mutex = some .cb := by
        intro hc
        by_cases hne : f.mutex = some .cb
        · exact hne
        · exfalso
          rw [if_neg hne] at hm2
          have := (List.countP_eq_zero.mp hm2) (g, pc) hmem
          simp [hc] at this
      cases pc with
      | started =>
        simp only at hs; split at hs
        · simp only [Option.some.injEq, Prod.mk.injEq] at hs; obtain ⟨rfl, _⟩ := hs; simp at hch
        · cases hs
      | locked => simp only [Option.some.injEq, Prod.mk.injEq] at hs; obtain ⟨rfl, _⟩ := hs; simp at hch
      | passed => simp only [Option.some.injEq, Prod.mk.injEq] at hs; obtain ⟨rfl, _⟩ := hs; simp at hch
      | emitted =>
        simp only [Option.some.injEq, Prod.mk.injEq] at hs; obtain ⟨rfl, _⟩ := hs
        exact ⟨hcb rfl, hcb rfl⟩
      | stateSet =>
        simp only [Option.some.injEq, Prod.mk.injEq] at hs; obtain ⟨rfl, _⟩ := hs
        exact ⟨hcb rfl, hcb rfl⟩
      | stSet => simp only [Option.some.injEq, Prod.mk.injEq] at hs; obtain ⟨rfl, _⟩ := hs; simp at hch
      | failed => simp only [Option.some.injEq, Prod.mk.injEq] at hs; obtain ⟨rfl, _⟩ := hs; simp at hch
      | gone => cases hs

/-! ### the oracle clause `lone-esc` is a theorem of the LTS -/

/-- where the main goroutine can be while nothing follows the ESC: after `anywhere` armed the timer
    (`Unlock` still to come), in front of the `select`, blocked in the read -/
def quietMain : MPc → Bool
  | .stepped false | .atSelect | .inRead => true
  | _ => false

/-- callback `k` has not given up, and once it is past its `emit` the report is in the output -/
def reportsOk (f : FSys) (k g : Nat) (o : List Seq) : Prop :=
  ∃ pc, f.cbs[k]? = some (g, pc) ∧ pc ≠ .failed ∧
    ((pc = .emitted ∨ pc = .stateSet ∨ pc = .stSet) → Seq.c0 0x1B ∈ o) ∧
    (pc = .gone → Seq.c0 0x1B ∈ o)

theorem set_get_other {α : Type} (l : List α) (i k : Nat) (a : α) (h : i ≠ k) : (l.set i a)[k]? = l[k]? := by
  simp [h]

/-- **A lone ESC followed by silence is reported, in every interleaving.**  Take any state in which
    callback `k` carries the current generation and has not yet made its check (it is the callback of
    the ESC parsed last), the main goroutine is where it can be while nothing follows (in front of its
    `Unlock`, at the `select`, blocked in the read), no `Close()` has been issued and the channel is
    open.  Then along **every** schedule without a read return and without `Close()` — any statements
    of this and of any other callback, further expiries, the main goroutine moving on into the read —
    the generation does not move, callback `k` never gives up at its check, and as soon as it is past
    its `emit` the output of the schedule contains `C0 1B`.  (Any table.)  This is the clause
    `FAIL[lone-esc]` of the forced-schedule oracle. -/
theorem fine_lone_esc_reported (T : Table) (ls : List FLabel) :
    ∀ (f : FSys) (k g : Nat) (pc : CbPc) (f' : FSys) (o : List Seq),
    f.cbs[k]? = some (g, pc) → (pc = .started ∨ pc = .locked) → g = f.escGen →
    quietMain f.mpc = true → f.closeReq = false → f.chanClosed = false →
    (∀ l ∈ ls, l ≠ .closeSig ∧ ∀ i, l ≠ .readRet i) →
    FSys.run T f ls = some (f', o) →
    f'.escGen = f.escGen ∧ quietMain f'.mpc = true ∧ reportsOk f' k g o := by
  -- generalised: callback k anywhere on its passing path, with the items emitted so far in `acc`
  suffices hgen : ∀ (ls : List FLabel) (f : FSys) (k g : Nat) (acc : List Seq) (f' : FSys) (o : List Seq),
      reportsOk f k g acc → g = f.escGen → quietMain f.mpc = true → f.closeReq = false → f.chanClosed = false →
      (∀ l ∈ ls, l ≠ .closeSig ∧ ∀ i, l ≠ .readRet i) →
      FSys.run T f ls = some (f', o) →
      f'.escGen = f.escGen ∧ quietMain f'.mpc = true ∧ reportsOk f' k g (acc ++ o) by
    intro f k g pc f' o hk hpc hg hq hc hch hl hr
    have := hgen ls f k g [] f' o ⟨pc, hk, by rcases hpc with rfl | rfl <;> simp,
      by rcases hpc with rfl | rfl <;> simp, by rcases hpc with rfl | rfl <;> simp⟩ hg hq hc hch hl hr
    simpa using this
  intro ls
  induction ls with
  | nil =>
    intro f k g acc f' o hrep hg hq hc hch _ hr
    simp only [FSys.run, Option.some.injEq, Prod.mk.injEq] at hr
    obtain ⟨rfl, rfl⟩ := hr
    exact ⟨rfl, hq, by simpa using hrep⟩
  | cons l ls ih =>
    intro f k g acc f' o hrep hg hq hc hch hl hr
    simp only [FSys.run] at hr
    cases h1 : FSys.step T f l with
    | none => rw [h1] at hr; cases hr
    | some a =>
      obtain ⟨f1, o1⟩ := a
      rw [h1] at hr; simp only at hr
      cases h2 : FSys.run T f1 ls with
      | none => rw [h2] at hr; cases hr
      | some b =>
        obtain ⟨f2, o2⟩ := b
        rw [h2] at hr; simp only [Option.some.injEq, Prod.mk.injEq] at hr
        obtain ⟨rfl, rfl⟩ := hr
        have hl' : ∀ l ∈ ls, l ≠ .closeSig ∧ ∀ i, l ≠ .readRet i := fun l hm => hl l (List.mem_cons_of_mem _ hm)
        have hl0 := hl l (List.mem_cons_self)
        -- one step keeps the invariant
        have hstep : f1.escGen = f.escGen ∧ quietMain f1.mpc = true ∧ f1.closeReq = false ∧ f1.chanClosed = false ∧
            reportsOk f1 k g (acc ++ o1) := by
          obtain ⟨pc, hk, hnf, hem, hgo⟩ := hrep
          cases l with
          | closeSig => exact absurd rfl hl0.1
          | readRet i => exact absurd rfl (hl0.2 i)
          | expire =>
            simp only [FSys.step] at h1
            split at h1
            · simp only [Option.some.injEq, Prod.mk.injEq] at h1; obtain ⟨rfl, rfl⟩ := h1
              refine ⟨rfl, hq, hc, hch, pc, ?_, hnf, by simpa using hem, by simpa using hgo⟩
              have hlt : k < f.cbs.length := by
                rcases Nat.lt_or_ge k f.cbs.length with h' | h'
                · exact h'
                · rw [List.getElem?_eq_none h'] at hk; cases hk
              simp only [List.getElem?_append_left hlt]; exact hk
            · cases h1
          | main =>
            simp only [FSys.step, mainStep] at h1
            cases hpcm : f.mpc with
            | atSelect =>
              rw [hpcm] at h1; simp only [hc] at h1
              simp only [Bool.false_eq_true, if_false, Option.some.injEq, Prod.mk.injEq] at h1; obtain ⟨rfl, rfl⟩ := h1
              exact ⟨rfl, rfl, by first | exact hc | rfl, hch, pc, hk, hnf, by simpa using hem, by simpa using hgo⟩
            | stepped b =>
              rw [hpcm] at h1 hq
              cases b with
              | true => simp [quietMain] at hq
              | false =>
                simp only [Bool.false_eq_true, if_false, Option.some.injEq, Prod.mk.injEq] at h1; obtain ⟨rfl, rfl⟩ := h1
                exact ⟨rfl, rfl, hc, hch, pc, hk, hnf, by simpa using hem, by simpa using hgo⟩
            | inRead => rw [hpcm] at h1; cases h1
            | readDone i => rw [hpcm] at hq; simp [quietMain] at hq
            | stopped i => rw [hpcm] at hq; simp [quietMain] at hq
            | locked i => rw [hpcm] at hq; simp [quietMain] at hq
            | bumped i => rw [hpcm] at hq; simp [quietMain] at hq
            | fin st v => rw [hpcm] at hq; simp [quietMain] at hq
            | done => rw [hpcm] at hq; simp [quietMain] at hq
          | cb j =>
            simp only [FSys.step, cbStep] at h1
            cases hj : f.cbs[j]? with
            | none => rw [hj] at h1; cases h1
            | some c =>
              obtain ⟨gj, pcj⟩ := c
              rw [hj] at h1
              have hjlt : j < f.cbs.length := by
                rcases Nat.lt_or_ge j f.cbs.length with h' | h'
                · exact h'
                · rw [List.getElem?_eq_none h'] at hj; cases hj
              by_cases hjk : j = k
              · -- the callback of the lone ESC itself
                subst hjk
                rw [hk] at hj; simp only [Option.some.injEq, Prod.mk.injEq] at hj; obtain ⟨rfl, rfl⟩ := hj
                cases pc with
                | started =>
                  simp only at h1; split at h1
                  · simp only [Option.some.injEq, Prod.mk.injEq] at h1; obtain ⟨rfl, rfl⟩ := h1
                    exact ⟨rfl, hq, hc, hch, .locked, by simp [List.getElem?_set_self hjlt], by simp, by simp, by simp⟩
                  · cases h1
                | locked =>
                  simp only [Option.some.injEq, Prod.mk.injEq] at h1; obtain ⟨rfl, rfl⟩ := h1
                  exact ⟨rfl, hq, hc, hch, .passed, by simp [List.getElem?_set_self hjlt, hg], by simp, by simp, by simp⟩
                | passed =>
                  simp only [Option.some.injEq, Prod.mk.injEq] at h1; obtain ⟨rfl, rfl⟩ := h1
                  exact ⟨rfl, hq, hc, hch, .emitted, by simp [List.getElem?_set_self hjlt], by simp, by simp [hch], by simp⟩
                | emitted =>
                  simp only [Option.some.injEq, Prod.mk.injEq] at h1; obtain ⟨rfl, rfl⟩ := h1
                  exact ⟨rfl, hq, hc, hch, .stateSet, by simp [List.getElem?_set_self hjlt], by simp,
                    fun _ => by simpa using hem (Or.inl rfl), by simp⟩
                | stateSet =>
                  simp only [Option.some.injEq, Prod.mk.injEq] at h1; obtain ⟨rfl, rfl⟩ := h1
                  exact ⟨rfl, hq, hc, hch, .stSet, by simp [List.getElem?_set_self hjlt], by simp,
                    fun _ => by simpa using hem (Or.inr (Or.inl rfl)), by simp⟩
                | stSet =>
                  simp only [Option.some.injEq, Prod.mk.injEq] at h1; obtain ⟨rfl, rfl⟩ := h1
                  exact ⟨rfl, hq, hc, hch, .gone, by simp [List.getElem?_set_self hjlt], by simp, by simp,
                    fun _ => by simpa using hem (Or.inr (Or.inr rfl))⟩
                | failed => exact absurd rfl hnf
                | gone => cases h1
              · -- another callback: it touches neither the generation nor the entry of callback k
                have hkeep : ∀ c, (f.cbs.set j c)[k]? = some (g, pc) := fun c => by
                  rw [set_get_other _ _ _ _ hjk]; exact hk
                cases pcj with
                | started =>
                  simp only at h1; split at h1
                  · simp only [Option.some.injEq, Prod.mk.injEq] at h1; obtain ⟨rfl, rfl⟩ := h1
                    exact ⟨rfl, hq, hc, hch, pc, hkeep _, hnf, by simpa using hem, by simpa using hgo⟩
                  · cases h1
                | gone => cases h1
                | locked =>
                  simp only [Option.some.injEq, Prod.mk.injEq] at h1; obtain ⟨rfl, rfl⟩ := h1
                  exact ⟨rfl, hq, hc, hch, pc, hkeep _, hnf, by simpa using hem, by simpa using hgo⟩
                | passed =>
                  simp only [Option.some.injEq, Prod.mk.injEq] at h1; obtain ⟨rfl, rfl⟩ := h1
                  exact ⟨rfl, hq, hc, hch, pc, hkeep _, hnf,
                    fun h => by simp only [List.mem_append]; exact Or.inl (hem h),
                    fun h => by simp only [List.mem_append]; exact Or.inl (hgo h)⟩
                | emitted =>
                  simp only [Option.some.injEq, Prod.mk.injEq] at h1; obtain ⟨rfl, rfl⟩ := h1
                  exact ⟨rfl, hq, hc, hch, pc, hkeep _, hnf, by simpa using hem, by simpa using hgo⟩
                | stateSet =>
                  simp only [Option.some.injEq, Prod.mk.injEq] at h1; obtain ⟨rfl, rfl⟩ := h1
                  exact ⟨rfl, hq, hc, hch, pc, hkeep _, hnf, by simpa using hem, by simpa using hgo⟩
                | stSet =>
                  simp only [Option.some.injEq, Prod.mk.injEq] at h1; obtain ⟨rfl, rfl⟩ := h1
                  exact ⟨rfl, hq, hc, hch, pc, hkeep _, hnf, by simpa using hem, by simpa using hgo⟩
                | failed =>
                  simp only [Option.some.injEq, Prod.mk.injEq] at h1; obtain ⟨rfl, rfl⟩ := h1
                  exact ⟨rfl, hq, hc, hch, pc, hkeep _, hnf, by simpa using hem, by simpa using hgo⟩
        obtain ⟨he1, hq1, hc1, hch1, hrep1⟩ := hstep
        have := ih f1 k g (acc ++ o1) f2 o2 hrep1 (by rw [he1]; exact hg) hq1 hc1 hch1 hl' h2
        obtain ⟨he2, hq2, hrep2⟩ := this
        exact ⟨by rw [he2, he1], hq2, by simpa [List.append_assoc] using hrep2⟩

-- non-vacuity: after a lone ESC has been parsed and its timer has expired, the hypotheses hold (callback 0
-- carries generation 1 = `escGen`, main in front of its `Unlock`, no `Close()`, channel open)
example : (FSys.run handTable {} [.main, .readRet (.rune 0x1B), .main, .main, .main, .main, .expire]).map
    (fun r => (r.1.cbs[0]?, r.1.escGen, quietMain r.1.mpc, r.1.closeReq, r.1.chanClosed)) =
    some (some (1, .started), 1, true, false, false) := by decide +kernel

/-! ### the two reductions of the enumeration commute in the LTS -/

/-- two statements one after the other -/
def step2 (T : Table) (f : FSys) (a b : FLabel) : Option (FSys × List Seq) := FSys.run T f [a, b]

/-- **`Close()` commutes with every statement except the `select`** (nothing else reads `p.close`):
    issuing it before or after any other statement — of the main goroutine unless it stands in front
    of the `select`, of a callback, a read return, an expiry — gives the same state and the same
    items.  So a schedule loses nothing when every `Close()` is moved forward to the next `select`
    (reduction 1 of `enumerate`). -/
theorem closeSig_commutes (T : Table) (f : FSys) (l : FLabel) (hsel : ¬ (l = .main ∧ f.mpc = .atSelect)) :
    step2 T f .closeSig l = step2 T f l .closeSig := by
  simp only [step2, FSys.run, FSys.step]
  cases l with
  | closeSig => rfl
  | readRet i =>
    simp only [FSys.step]
    by_cases h : f.mpc = .inRead <;> simp [h]
  | expire =>
    simp only [FSys.step]
    cases h : f.armed <;> simp
  | main =>
    simp only [FSys.step, mainStep]
    cases hpc : f.mpc with
    | atSelect => exact absurd ⟨rfl, hpc⟩ hsel
    | inRead => simp
    | done => simp
    | readDone i => simp
    | stopped i => by_cases hm : f.mutex = none <;> simp [hm]
    | locked i => simp
    | bumped i => simp
    | stepped b => simp
    | fin st v =>
      cases st <;> simp
      by_cases hm : f.mutex = none <;> simp [hm]
  | cb k =>
    simp only [FSys.step, cbStep]
    cases hk : f.cbs[k]? with
    | none => simp
    | some c =>
      obtain ⟨g, pc⟩ := c
      cases pc <;> simp
      by_cases hm : f.mutex = none <;> simp [hm]

/-- **A timer expiry commutes with every statement that does not touch the timer**: while the timer
    is pending, letting it expire before or after a statement `l` gives the same state and items,
    for every `l` except the statements that stop or (re-)arm the timer (`Stop()` in `readRune`,
    `Stop()` after the loop, `anywhere`), another expiry, and the first statement of the very callback
    this expiry starts.  So the callback of a timer that expires
    at all may be taken to have started right after the timer was armed (reduction 2 of `enumerate`):
    its first statement can still be scheduled at any later point. -/
theorem expire_commutes (T : Table) (f : FSys) (g : Nat) (l : FLabel) (ha : f.armed = some g)
    (hl : l ≠ .expire)
    (hm : l = .main → (∀ i, f.mpc ≠ .readDone i) ∧ (∀ v, f.mpc ≠ .fin .stop v) ∧ (∀ i, f.mpc ≠ .bumped i))
    (hcb : ∀ k, l = .cb k → k ≠ f.cbs.length) :
    step2 T f .expire l = step2 T f l .expire := by
  simp only [step2, FSys.run, FSys.step, ha]
  cases l with
  | expire => exact absurd rfl hl
  | closeSig => simp [FSys.step, ha]
  | readRet i =>
    simp only [FSys.step]
    by_cases h : f.mpc = .inRead <;> simp [h, ha]
  | main =>
    obtain ⟨h1, h2, h3⟩ := hm rfl
    simp only [FSys.step, mainStep]
    cases hpc : f.mpc with
    | atSelect => by_cases hc : f.closeReq = true <;> simp [hc, ha]
    | inRead => simp
    | done => simp
    | readDone i => exact absurd hpc (h1 i)
    | stopped i => by_cases hmx : f.mutex = none <;> simp [hmx, ha]
    | locked i => simp [ha]
    | bumped i => exact absurd hpc (h3 i)
    | stepped b => simp [ha]
    | fin st v =>
      cases st with
      | stop => exact absurd hpc (h2 v)
      | lock => by_cases hmx : f.mutex = none <;> simp [hmx, ha]
      | bump => simp [ha]
      | unlock => simp [ha]
      | emit => simp [ha]
      | close => simp [ha]
  | cb k =>
    simp only [FSys.step, cbStep]
    by_cases hlt : k < f.cbs.length
    · have e1 : (f.cbs ++ [(g, CbPc.started)])[k]? = f.cbs[k]? := List.getElem?_append_left hlt
      rw [e1]
      cases hk : f.cbs[k]? with
      | none => simp
      | some c =>
        obtain ⟨gk, pc⟩ := c
        have hset : ∀ x, (f.cbs ++ [(g, CbPc.started)]).set k x = f.cbs.set k x ++ [(g, CbPc.started)] := fun x => by
          rw [List.set_append_left _ _ hlt]
        cases pc <;> simp [ha, hset]
        by_cases hmx : f.mutex = none <;> simp [hmx, ha, hset]
    · -- `k` names no callback yet: the statement is not enabled before the expiry …
      have hnone : f.cbs[k]? = none := List.getElem?_eq_none (Nat.le_of_not_lt hlt)
      simp only [hnone]
      -- … nor after it (`k` is not the callback this expiry starts)
      have hk : k ≠ f.cbs.length := hcb k rfl
      · have : (f.cbs ++ [(g, CbPc.started)])[k]? = none := by
          apply List.getElem?_eq_none
          simp only [List.length_append, List.length_cons, List.length_nil]
          omega
        simp [this]

/-! ### every replayed schedule delivers what the Spec prescribes -/

/-- **The oracle clause `esc-key` / items = Spec is a theorem**: for every schedule the harness can
    replay (any `srun` from the initial state, parser's table) that ends with `run` returned, the
    items delivered (`error` reports dropped) are `specLabels` of an atomic label schedule — runes
    through the VT500 reference machine, `escKey` (`C0 1B`, ground) at every up-to-date timer firing
    and nowhere else, the open control string flushed at end of input, one `EOF{}`
    (`srun_is_fine_run` ∘ `fine_refines_atomic` ∘ `lifecycle_refines_spec`). -/
theorem schedule_refines_spec (ls : List SLabel) (f : FSys) (out : List Seq)
    (h : srun handTable {} ls = some (f, out)) (hd : f.mpc = .done) :
    ∃ als : List Label,
      VaxisModel.Lemmas.ParserRefine.noErr out = (VaxisModel.Lemmas.ParserRunSpec.specLabels {} als).2 := by
  obtain ⟨fl, hfl, _⟩ := srun_is_fine_run handTable ls {} (f, out) h
  obtain ⟨als, b, oa, g1, g2, g3⟩ :=
    VaxisModel.Props.C08Fine.fine_refines_atomic handTable VaxisModel.Props.C08Fine.hand_table_timer_ok fl f out hfl
  have hpend := g3 (Or.inr (Or.inr hd))
  have hspec := (VaxisModel.Props.C08Spec.lifecycle_refines_spec als _ oa g1).1
  exact ⟨als, by rw [← hspec, g2, hpend, List.append_nil]⟩

/-- a swap of two adjacent statements that commute, in the middle of a schedule -/
theorem swap_in_schedule (T : Table) (pre post : List FLabel) (a b : FLabel) (f0 : FSys)
    (h : ∀ f o, FSys.run T f0 pre = some (f, o) → step2 T f a b = step2 T f b a) :
    FSys.run T f0 (pre ++ a :: b :: post) = FSys.run T f0 (pre ++ b :: a :: post) := by
  rw [run_append, run_append]
  cases hp : FSys.run T f0 pre with
  | none => rfl
  | some r =>
    obtain ⟨f, o⟩ := r
    simp only
    have hab := h f o hp
    have e1 : FSys.run T f (a :: b :: post) = FSys.run T f ([a, b] ++ post) := rfl
    have e2 : FSys.run T f (b :: a :: post) = FSys.run T f ([b, a] ++ post) := rfl
    rw [e1, e2, run_append, run_append]
    simp only [step2] at hab
    rw [hab]

/-- **Moving a `Close()` one statement later changes nothing** — in any schedule, at any position,
    unless the statement it is moved over is the `select` of the main goroutine: same final state,
    same items (and the schedule is enabled iff the other is).  Repeating the move brings every
    `Close()` in front of the next `select` (or to the end of the schedule, where it has no effect on
    what was delivered): reduction 1 of `enumerate`, on whole schedules. -/
theorem closeSig_moves_later (T : Table) (pre post : List FLabel) (l : FLabel) (f0 : FSys)
    (hsel : ∀ f o, FSys.run T f0 pre = some (f, o) → ¬ (l = .main ∧ f.mpc = .atSelect)) :
    FSys.run T f0 (pre ++ .closeSig :: l :: post) = FSys.run T f0 (pre ++ l :: .closeSig :: post) :=
  swap_in_schedule T pre post .closeSig l f0 (fun f o hp => closeSig_commutes T f l (hsel f o hp))

/-- **Moving a timer expiry one statement earlier changes nothing** — in any schedule, at any
    position where the timer is already pending and the statement it is moved over neither stops nor
    arms the timer (and is not the first statement of the callback the expiry starts).  Repeating the
    move brings the expiry right behind the `anywhere` that armed the timer: reduction 2 of
    `enumerate`, on whole schedules. -/
theorem expire_moves_earlier (T : Table) (pre post : List FLabel) (l : FLabel) (f0 : FSys)
    (hl : l ≠ .expire)
    (h : ∀ f o, FSys.run T f0 pre = some (f, o) →
      (∃ g, f.armed = some g) ∧
      (l = .main → (∀ i, f.mpc ≠ .readDone i) ∧ (∀ v, f.mpc ≠ .fin .stop v) ∧ (∀ i, f.mpc ≠ .bumped i)) ∧
      (∀ k, l = .cb k → k ≠ f.cbs.length)) :
    FSys.run T f0 (pre ++ l :: .expire :: post) = FSys.run T f0 (pre ++ .expire :: l :: post) :=
  swap_in_schedule T pre post l .expire f0 (fun f o hp => by
    obtain ⟨⟨g, hg⟩, hm, hcb⟩ := h f o hp
    exact (expire_commutes T f g l hg hl hm hcb).symm)

/-- **What `enabled` leaves out is exactly the two reductions (and reads out of script order)**: every
    harness label that can be executed in `f` is offered by `enabled` — every statement of the main
    goroutine, every statement of every callback, the return of the pending read with the next
    scripted input — except a `Close()` (offered only in front of a `select`, while one is still to
    come), a timer expiry (offered only right after the arming `anywhere`) and a read return with
    something else than the next scripted input. -/
theorem enabled_complete (T : Table) (f : FSys) (ins : List Nat) (mc : Bool) (l : SLabel)
    (h : (sstep T f l).isSome = true) :
    l ∈ enabled T f ins mc ∨ l = .close ∨ l = .expire ∨
      (∃ i, l = .read i ∧ i ≠ (match ins with | r :: _ => Inp.rune r | [] => Inp.eof)) := by
  cases l with
  | close => exact Or.inr (Or.inl rfl)
  | expire => exact Or.inr (Or.inr (Or.inl rfl))
  | cb k =>
    left
    have hk : k < f.cbs.length := by
      rcases Nat.lt_or_ge k f.cbs.length with h' | h'
      · exact h'
      · exfalso
        have hn : f.cbs[k]? = none := List.getElem?_eq_none h'
        simp [sstep, canRelease, expand, hn, FSys.run, FSys.step, cbStep] at h
    simp only [enabled, List.mem_append, List.mem_filterMap, List.mem_range]
    exact Or.inl (Or.inr ⟨k, hk, by simp [h]⟩)
  | main =>
    left
    have hne : f.mpc ≠ .inRead := by
      intro hc; simp [sstep, canRelease, hc] at h
    simp only [enabled, List.mem_append]
    refine Or.inr ?_
    simp [hne, h]
  | read i =>
    by_cases hi : i = (match ins with | r :: _ => Inp.rune r | [] => Inp.eof)
    · left
      have hpc : f.mpc = .inRead := by
        by_cases hc : f.mpc = .inRead
        · exact hc
        · exfalso; simp [sstep, canRelease, expand, FSys.run, FSys.step, hc] at h
      subst hi
      simp only [enabled, List.mem_append]
      refine Or.inr ?_
      simp [hpc]
      cases ins <;> rfl
    · exact Or.inr (Or.inr (Or.inr ⟨i, rfl, hi⟩))

end VaxisModel.Props.C08Sched
