/-
C08 (round 4) — forced schedules: what the harness `harness/cmd/C08Sched` replays on the real parser
are runs of the statement-grained LTS (`Model/ParserRunFine.lean`), so every theorem of
`Props/C08Fine.lean` / `C08FineChan.lean` / `C08Spec.lean` speaks about them.  Property theorems only.
-/
import VaxisModel.Model.ParserRunSched
import VaxisModel.Model.Parser
import VaxisModel.Props.C08Fine

namespace VaxisModel.Props.C08Sched
open VaxisModel.Model.ParserTable VaxisModel.Model.Parser VaxisModel.Model.ParserRun VaxisModel.Model.ParserRunFine
open VaxisModel.Model.ParserRunSched

/-- **A harness label is one or two statements of the statement-grained LTS**: `read i` is the read
    return followed by the `Stop()` inside `readRune`; a callback's failed check runs on through its
    deferred `Unlock`, and so does its last assignment; everything else is exactly one statement.
    (Any table, any state.) -/
theorem sstep_is_fine_run (T : Table) (f : FSys) (l : SLabel) (r : FSys × List Seq)
    (h : sstep T f l = some r) : FSys.run T f (expand f l) = some r ∧ 1 ≤ (expand f l).length ∧ (expand f l).length ≤ 2 := by
  refine ⟨?_, ?_, ?_⟩
  · unfold sstep at h; split at h
    · exact h
    · cases h
  · cases l <;> simp only [expand] <;> (repeat' split) <;> simp
  · cases l <;> simp only [expand] <;> (repeat' split) <;> simp

/-- Runs of the statement-grained LTS compose. -/
theorem run_append (T : Table) (f : FSys) (as bs : List FLabel) :
    FSys.run T f (as ++ bs) =
      (match FSys.run T f as with
       | none => none
       | some (f1, o1) => match FSys.run T f1 bs with
         | none => none
         | some (f2, o2) => some (f2, o1 ++ o2)) := by
  induction as generalizing f with
  | nil => simp only [List.nil_append, FSys.run]; cases FSys.run T f bs with
    | none => rfl
    | some r => cases r; simp
  | cons a as ih =>
    simp only [List.cons_append, FSys.run]
    cases FSys.step T f a with
    | none => rfl
    | some r =>
      obtain ⟨f1, o1⟩ := r
      simp only [ih]
      cases FSys.run T f1 as with
      | none => rfl
      | some r2 =>
        obtain ⟨f2, o2⟩ := r2
        simp only
        cases FSys.run T f2 bs with
        | none => rfl
        | some r3 => cases r3; simp [List.append_assoc]

/-- **Every replayed schedule is a run of the statement-grained LTS** with the same final state and
    the same items: there is a list of single statements (the expansions of the labels, in order)
    that `FSys.run` executes to the same result.  Hence `fine_refines_atomic`, `fine_eof_once_last`,
    `fine_no_panic`, `fine_escape_report_is_lone_esc`, `fine_mutual_exclusion` … hold of every
    schedule the harness replays. -/
theorem srun_is_fine_run (T : Table) (ls : List SLabel) (f : FSys) (r : FSys × List Seq)
    (h : srun T f ls = some r) : ∃ fl : List FLabel, FSys.run T f fl = some r ∧ ls.length ≤ fl.length := by
  induction ls generalizing f r with
  | nil => exact ⟨[], by simpa [srun, FSys.run] using h, by simp⟩
  | cons l ls ih =>
    simp only [srun, seqBind] at h
    cases h1 : sstep T f l with
    | none => rw [h1] at h; cases h
    | some a =>
      obtain ⟨f1, o1⟩ := a
      rw [h1] at h; simp only at h
      cases h2 : srun T f1 ls with
      | none => rw [h2] at h; cases h
      | some b =>
        obtain ⟨f2, o2⟩ := b
        rw [h2] at h; simp only at h
        obtain ⟨fl, hfl, hlen⟩ := ih f1 (f2, o2) h2
        obtain ⟨hx, h1', _⟩ := sstep_is_fine_run T f l (f1, o1) h1
        refine ⟨expand f l ++ fl, ?_, ?_⟩
        · rw [run_append, hx]; simp only [hfl]; exact h
        · simp only [List.length_cons, List.length_append]; omega

/-- Soundness of the enumeration, with the accumulator explicit. -/
theorem enumerate_sound_acc (T : Table) : ∀ (fuel : Nat) (f : FSys) (ins : List Nat) (mc : Bool) (pre : List SLabel)
    (cap : Nat) (acc : List (List SLabel)) (s : List SLabel),
    s ∈ enumerate T fuel f ins mc pre cap acc →
    s ∈ acc ∨ ∃ ls r, s = pre.reverse ++ ls ∧ srun T f ls = some r ∧ finished r.1 = true := by
  intro fuel
  induction fuel with
  | zero => intro f ins mc pre cap acc s h; left; simpa [enumerate] using h
  | succ fuel ih =>
    intro f ins mc pre cap acc s h
    unfold enumerate at h
    split at h
    · left; exact h
    · split at h
      · rename_i hfin
        rcases List.mem_cons.mp h with h | h
        · right; exact ⟨[], (f, []), by simp [h], by simp [srun], hfin⟩
        · left; exact h
      · -- the fold over the enabled labels
        have key : ∀ (en : List SLabel) (acc' : List (List SLabel)),
            (∀ s ∈ acc', s ∈ acc ∨ ∃ ls r, s = pre.reverse ++ ls ∧ srun T f ls = some r ∧ finished r.1 = true) →
            ∀ s ∈ en.foldl (fun acc l =>
                match sstep T f l with
                | none => acc
                | some (f1, _) =>
                  enumerate T fuel f1 (match l with | .read (.rune _) => ins.drop 1 | _ => ins)
                    (match l with | .close => false | _ => mc) (l :: pre) cap acc) acc',
              s ∈ acc ∨ ∃ ls r, s = pre.reverse ++ ls ∧ srun T f ls = some r ∧ finished r.1 = true := by
          intro en
          induction en with
          | nil => intro acc' hacc s hs; exact hacc s (by simpa using hs)
          | cons l en ihen =>
            intro acc' hacc s hs
            simp only [List.foldl_cons] at hs
            refine ihen _ ?_ s hs
            intro s' hs'
            cases h1 : sstep T f l with
            | none => rw [h1] at hs'; exact hacc s' hs'
            | some a =>
              obtain ⟨f1, o1⟩ := a
              rw [h1] at hs'
              rcases ih _ _ _ _ _ _ _ hs' with h' | ⟨ls, r, he, hr, hf⟩
              · exact hacc s' h'
              · right
                refine ⟨l :: ls, (r.1, o1 ++ r.2), ?_, ?_, hf⟩
                · simp [he]
                · simp only [srun, seqBind, h1, hr]
        exact key _ acc (fun s hs => Or.inl hs) s h

/-- **Every schedule the model hands to the harness is a complete run of the LTS**: from the initial
    state it executes label by label (no label is disabled where the schedule takes it — in
    particular no `Lock` while the mutex is held) and ends with `run` returned, every callback
    goroutine returned and no timer pending.  (Any table, any scripted input, with or without `Close()`.) -/
theorem enumerate_sound (T : Table) (fuel : Nat) (ins : List Nat) (mc : Bool) (cap : Nat) (s : List SLabel)
    (h : s ∈ enumerate T fuel {} ins mc [] cap []) :
    ∃ r, srun T {} s = some r ∧ finished r.1 = true := by
  rcases enumerate_sound_acc T fuel {} ins mc [] cap [] s h with h | ⟨ls, r, he, hr, hf⟩
  · cases h
  · exact ⟨r, by simpa [he] using hr, hf⟩

-- non-vacuity: a lone ESC, then end of input — the first schedules of the enumeration; the callback
-- reports the Escape key (`C0 1B`) and the run ends with `EOF{}`
example : ((enumerate handTable 80 {} [0x1B] false [] 100000 []).length, (enumerate handTable 80 {} [0x1B] true [] 100000 []).length) = (31, 95) := by
  decide +kernel
example : (srun handTable {} [.main, .read (.rune 0x1B), .main, .main, .main, .expire, .main, .cb 0, .cb 0, .cb 0, .cb 0, .cb 0,
    .main, .read .eof, .main, .main, .main, .main, .main, .main, .main, .main, .main, .main]).map (fun r => (r.2, finished r.1)) =
    some ([.c0 0x1B, .eof], true) := by decide +kernel

/-! ### why each generation bump is there (the schedules the harness found on the changed code) -/

/-- lone ESC; the timer expires (callback parked in front of `Lock`); `Close()`; `run` leaves the loop
    and runs to its end; only then the callback runs — the replay `sched M,R1b,M,M,M,X,M,K,M,M,M,M,M,M,M,C0,C0`
    of `corpus/C08Sched`, statement by statement -/
def lateCallbackAfterClose : List FLabel :=
  [.main, .readRet (.rune 0x1B), .main, .main, .main, .main, .expire, .main, .closeSig,
   .main, .main, .main, .main, .main, .main, .main, .cb 0, .cb 0, .cb 0]

/-- **The bump after the loop is needed**: without `escGen++` in front of `emit(EOF{})` the callback
    of a lone ESC that starts late still sees its own generation after `close(p.sequences)` and
    sends on the closed channel (`panic`); the code as it is fails the check and emits nothing —
    same schedule, statement by statement. -/
theorem fine_needs_final_bump :
    (FSys.runV .noFinalBump handTable {} lateCallbackAfterClose).map (fun r => r.2) = some [.eof, .panic] ∧
    (FSys.runV .code handTable {} lateCallbackAfterClose).map (fun r => r.2) = some [.eof] ∧
    FSys.runV .code handTable {} lateCallbackAfterClose = FSys.run handTable {} lateCallbackAfterClose := by
  decide +kernel

/-- lone ESC; the timer expires; the next read returns SUB (0x1A) and is parsed; then the callback runs -/
def lateCallbackAfterSub : List FLabel :=
  [.main, .readRet (.rune 0x1B), .main, .main, .main, .main, .expire, .main,
   .main, .readRet (.rune 0x1A), .main, .main, .main, .main, .main, .cb 0, .cb 0, .cb 0]

/-- **The bump belongs in `run`, before every transition** (seeded change C08-m2): with `escGen++`
    moved into the `escape` state function a SUB (or CAN, ESC, end of input — handled by `anywhere`
    itself) does not outdate the started callback, which then reports the Escape key after the
    `C0 1A` that followed the ESC; the code as it is reports nothing. -/
theorem fine_needs_bump_before_every_transition :
    (FSys.runV .bumpInEscape handTable {} lateCallbackAfterSub).map (fun r => r.2) = some [.c0 0x1A, .c0 0x1B] ∧
    (FSys.runV .code handTable {} lateCallbackAfterSub).map (fun r => r.2) = some [.c0 0x1A] := by
  decide +kernel

/-! ### completeness of the enumeration -/

/-- what the reader still has to deliver / whether a `Close()` is still to come, after a label -/
def insAfter (ins : List Nat) : SLabel → List Nat
  | .read (.rune _) => ins.drop 1
  | _ => ins
def mcAfter (mc : Bool) : SLabel → Bool
  | .close => false
  | _ => mc

/-- A complete schedule under the two reductions of `Model/ParserRunSched.lean`: at every state that is
    not finished the next label is one of `enabled` (any enabled statement of any goroutine; the read
    returns the next scripted input; `Close()` in front of a `select`; expiry right after arming), it
    executes, and the rest is such a schedule; it ends in a finished state. -/
inductive Reduced (T : Table) : FSys → List Nat → Bool → List SLabel → Prop
  | done (f ins mc) : finished f = true → Reduced T f ins mc []
  | step (f ins mc l f1 o ls) : finished f = false → l ∈ enabled T f ins mc → sstep T f l = some (f1, o) →
      Reduced T f1 (insAfter ins l) (mcAfter mc l) ls → Reduced T f ins mc (l :: ls)

/-- one step of the fold in `enumerate` -/
def gstep (T : Table) (fuel : Nat) (f : FSys) (ins : List Nat) (mc : Bool) (pre : List SLabel) (cap : Nat)
    (acc : List (List SLabel)) (l : SLabel) : List (List SLabel) :=
  match sstep T f l with
  | none => acc
  | some (f1, _) => enumerate T fuel f1 (insAfter ins l) (mcAfter mc l) (l :: pre) cap acc

theorem enumerate_succ (T : Table) (fuel : Nat) (f : FSys) (ins : List Nat) (mc : Bool) (pre : List SLabel) (cap : Nat)
    (acc : List (List SLabel)) :
    enumerate T (fuel + 1) f ins mc pre cap acc =
      if acc.length ≥ cap then acc else if finished f then pre.reverse :: acc
      else (enabled T f ins mc).foldl (gstep T fuel f ins mc pre cap) acc := by
  rw [enumerate]
  split
  · rfl
  · split
    · rfl
    · congr 1

/-- the enumeration only adds schedules -/
theorem enumerate_mono (T : Table) : ∀ (fuel : Nat) (f : FSys) (ins : List Nat) (mc : Bool) (pre : List SLabel) (cap : Nat)
    (acc : List (List SLabel)),
    (∀ s ∈ acc, s ∈ enumerate T fuel f ins mc pre cap acc) ∧ acc.length ≤ (enumerate T fuel f ins mc pre cap acc).length := by
  intro fuel
  induction fuel with
  | zero => intro f ins mc pre cap acc; simp [enumerate]
  | succ fuel ih =>
    intro f ins mc pre cap acc
    rw [enumerate_succ]
    split
    · exact ⟨fun s h => h, Nat.le_refl _⟩
    · split
      · exact ⟨fun s h => List.mem_cons_of_mem _ h, by simp⟩
      · have key : ∀ (en : List SLabel) (a : List (List SLabel)),
            (∀ s ∈ a, s ∈ en.foldl (gstep T fuel f ins mc pre cap) a) ∧
            a.length ≤ (en.foldl (gstep T fuel f ins mc pre cap) a).length := by
          intro en
          induction en with
          | nil => intro a; simp
          | cons l en ihen =>
            intro a
            simp only [List.foldl_cons]
            have hg : (∀ s ∈ a, s ∈ gstep T fuel f ins mc pre cap a l) ∧ a.length ≤ (gstep T fuel f ins mc pre cap a l).length := by
              unfold gstep
              cases sstep T f l with
              | none => exact ⟨fun s h => h, Nat.le_refl _⟩
              | some r => exact ih _ _ _ _ _ _
            obtain ⟨h1, h2⟩ := ihen (gstep T fuel f ins mc pre cap a l)
            exact ⟨fun s hs => h1 s (hg.1 s hs), Nat.le_trans hg.2 h2⟩
        exact key _ acc

theorem fold_mono (T : Table) (fuel : Nat) (f : FSys) (ins : List Nat) (mc : Bool) (pre : List SLabel) (cap : Nat) :
    ∀ (en : List SLabel) (a : List (List SLabel)),
      (∀ s ∈ a, s ∈ en.foldl (gstep T fuel f ins mc pre cap) a) ∧
      a.length ≤ (en.foldl (gstep T fuel f ins mc pre cap) a).length := by
  intro en
  induction en with
  | nil => intro a; simp
  | cons l en ihen =>
    intro a
    simp only [List.foldl_cons]
    have hg : (∀ s ∈ a, s ∈ gstep T fuel f ins mc pre cap a l) ∧ a.length ≤ (gstep T fuel f ins mc pre cap a l).length := by
      unfold gstep
      cases sstep T f l with
      | none => exact ⟨fun s h => h, Nat.le_refl _⟩
      | some r => exact enumerate_mono T _ _ _ _ _ _ _
    obtain ⟨h1, h2⟩ := ihen (gstep T fuel f ins mc pre cap a l)
    exact ⟨fun s hs => h1 s (hg.1 s hs), Nat.le_trans hg.2 h2⟩

theorem enumerate_complete_acc (T : Table) : ∀ (fuel : Nat) (f : FSys) (ins : List Nat) (mc : Bool) (pre : List SLabel)
    (cap : Nat) (acc : List (List SLabel)) (ls : List SLabel),
    Reduced T f ins mc ls → ls.length < fuel → (enumerate T fuel f ins mc pre cap acc).length < cap →
    pre.reverse ++ ls ∈ enumerate T fuel f ins mc pre cap acc := by
  intro fuel
  induction fuel with
  | zero => intro f ins mc pre cap acc ls _ h; omega
  | succ fuel ih =>
    intro f ins mc pre cap acc ls hr hlen hcap
    have hm := (enumerate_mono T (fuel + 1) f ins mc pre cap acc).2
    rw [enumerate_succ] at hcap hm ⊢
    have hacc : ¬ acc.length ≥ cap := by
      intro h; rw [if_pos h] at hcap; omega
    rw [if_neg hacc] at hcap hm ⊢
    cases hr with
    | done _ _ _ hfin => rw [if_pos hfin]; simp
    | step _ _ _ l f1 o ls' hnf hen hs hrest =>
      have hnf' : ¬ finished f = true := by rw [hnf]; simp
      rw [if_neg hnf'] at hcap hm ⊢
      obtain ⟨en1, en2, hsplit⟩ := List.append_of_mem hen
      rw [hsplit, List.foldl_append, List.foldl_cons] at hcap ⊢
      -- the accumulator when the fold reaches `l`, and after it
      have h2 := fold_mono T fuel f ins mc pre cap en2 (gstep T fuel f ins mc pre cap (en1.foldl (gstep T fuel f ins mc pre cap) acc) l)
      apply h2.1
      have hg : gstep T fuel f ins mc pre cap (en1.foldl (gstep T fuel f ins mc pre cap) acc) l =
          enumerate T fuel f1 (insAfter ins l) (mcAfter mc l) (l :: pre) cap (en1.foldl (gstep T fuel f ins mc pre cap) acc) := by
        unfold gstep; rw [hs]
      rw [hg] at h2 hcap ⊢
      have := ih f1 (insAfter ins l) (mcAfter mc l) (l :: pre) cap (en1.foldl (gstep T fuel f ins mc pre cap) acc) ls' hrest
        (by simp only [List.length_cons] at hlen; omega) (by have := h2.2; omega)
      simpa using this

/-- **The enumeration is complete**: as long as the cap is not reached, every complete schedule under
    the two reductions, shorter than the fuel, is in the list — with `enumerate_sound`: the list is
    exactly the set of such interleavings of the statements of `run` (and of the reader's returns,
    `Close()`, timer expiries) with the statements of the callbacks.  (Any table.) -/
theorem enumerate_complete (T : Table) (fuel : Nat) (ins : List Nat) (mc : Bool) (cap : Nat) (ls : List SLabel)
    (hr : Reduced T {} ins mc ls) (hlen : ls.length < fuel)
    (hcap : (enumerate T fuel {} ins mc [] cap []).length < cap) :
    ls ∈ enumerate T fuel {} ins mc [] cap [] := by
  simpa using enumerate_complete_acc T fuel {} ins mc [] cap [] ls hr hlen hcap

/-! ### the oracle clause `unguarded-write` is a theorem of the LTS -/

open VaxisModel.Lemmas.ParserRunFine in
/-- **The guarded fields are written only under the mutex**: in every reachable state of the
    statement-grained system, a statement that changes `escGen` or any field of the parser state
    (`state`, `ignoreST`, the collected bytes, the accumulators) is a statement of the goroutine that
    holds `p.mu` before and after it — the main goroutine between its `Lock` and `Unlock`, or a
    callback between its `Lock` and its deferred `Unlock`.  (`Close()`, read returns, timer expiries,
    `Lock`, `Unlock`, `Stop()`, the `select`, `emit(EOF{})` and `close` change none of them.)  This is
    the clause `FAIL[unguarded-write]` of the forced-schedule oracle, which is evaluated on the real
    code; together with `fine_mutual_exclusion` it is why "sync.Mutex gives sequential consistency for
    the fields it guards" applies to them. -/
theorem fine_writes_under_mutex (T : Table) (hT : TimerOk T) (fls : List FLabel) (f : FSys) (out : List Seq)
    (h : FSys.run T FSys.init fls = some (f, out)) (l : FLabel) (f' : FSys) (o : List Seq)
    (hs : FSys.step T f l = some (f', o)) (hch : f'.escGen ≠ f.escGen ∨ f'.ps ≠ f.ps) :
    (l = .main ∧ f.mutex = some .main ∧ f'.mutex = some .main) ∨
    (∃ i, l = .cb i ∧ f.mutex = some .cb ∧ f'.mutex = some .cb) := by
  obtain ⟨hm1, hm2, _, _, _⟩ := VaxisModel.Props.C08Fine.fine_mutual_exclusion T hT fls f out h
  cases l with
  | closeSig => simp only [FSys.step, Option.some.injEq, Prod.mk.injEq] at hs; obtain ⟨rfl, _⟩ := hs; simp at hch
  | readRet i =>
    simp only [FSys.step] at hs
    split at hs
    · simp only [Option.some.injEq, Prod.mk.injEq] at hs; obtain ⟨rfl, _⟩ := hs; simp at hch
    · cases hs
  | expire =>
    simp only [FSys.step] at hs
    split at hs
    · simp only [Option.some.injEq, Prod.mk.injEq] at hs; obtain ⟨rfl, _⟩ := hs; simp at hch
    · cases hs
  | main =>
    left
    simp only [FSys.step] at hs
    have key : (f'.escGen = f.escGen ∧ f'.ps = f.ps) ∨ (holdsMain f.mpc = true ∧ f'.mutex = f.mutex) := by
      unfold mainStep at hs
      cases hpc : f.mpc with
      | atSelect => rw [hpc] at hs; simp only at hs; split at hs <;> (cases hs; left; exact ⟨rfl, rfl⟩)
      | inRead => rw [hpc] at hs; cases hs
      | readDone i => rw [hpc] at hs; cases hs; left; exact ⟨rfl, rfl⟩
      | stopped i =>
        rw [hpc] at hs; simp only at hs; split at hs
        · cases hs; left; exact ⟨rfl, rfl⟩
        · cases hs
      | locked i => rw [hpc] at hs; cases hs; right; exact ⟨rfl, rfl⟩
      | bumped i => rw [hpc] at hs; cases hs; right; exact ⟨rfl, rfl⟩
      | stepped b => rw [hpc] at hs; cases hs; left; exact ⟨rfl, rfl⟩
      | fin st v =>
        rw [hpc] at hs
        cases st with
        | stop => cases hs; left; exact ⟨rfl, rfl⟩
        | lock =>
          simp only at hs; split at hs
          · cases hs; left; exact ⟨rfl, rfl⟩
          · cases hs
        | bump => cases hs; right; exact ⟨rfl, rfl⟩
        | unlock => cases hs; left; exact ⟨rfl, rfl⟩
        | emit => cases hs; left; exact ⟨rfl, rfl⟩
        | close => cases hs; left; exact ⟨rfl, rfl⟩
      | done => rw [hpc] at hs; cases hs
    rcases key with ⟨h1, h2⟩ | ⟨h1, h2⟩
    · rcases hch with hch | hch
      · exact absurd h1 hch
      · exact absurd h2 hch
    · have hm : f.mutex = some .main := hm1.mpr h1
      exact ⟨rfl, hm, by rw [h2]; exact hm⟩
  | cb i =>
    right
    refine ⟨i, rfl, ?_⟩
    simp only [FSys.step, cbStep] at hs
    cases hk : f.cbs[i]? with
    | none => rw [hk] at hs; cases hs
    | some c =>
      obtain ⟨g, pc⟩ := c
      rw [hk] at hs
      have hmem : (g, pc) ∈ f.cbs := List.mem_of_getElem? hk
      have hcb : crit pc = true → f.mutex = some .cb := by
        intro hc
        by_cases hne : f.mutex = some .cb
        · exact hne
        · exfalso
          rw [if_neg hne] at hm2
          have := (List.countP_eq_zero.mp hm2) (g, pc) hmem
          simp [hc] at this
      cases pc with
      | started =>
        simp only at hs; split at hs
        · simp only [Option.some.injEq, Prod.mk.injEq] at hs; obtain ⟨rfl, _⟩ := hs; simp at hch
        · cases hs
      | locked => simp only [Option.some.injEq, Prod.mk.injEq] at hs; obtain ⟨rfl, _⟩ := hs; simp at hch
      | passed => simp only [Option.some.injEq, Prod.mk.injEq] at hs; obtain ⟨rfl, _⟩ := hs; simp at hch
      | emitted =>
        simp only [Option.some.injEq, Prod.mk.injEq] at hs; obtain ⟨rfl, _⟩ := hs
        exact ⟨hcb rfl, hcb rfl⟩
      | stateSet =>
        simp only [Option.some.injEq, Prod.mk.injEq] at hs; obtain ⟨rfl, _⟩ := hs
        exact ⟨hcb rfl, hcb rfl⟩
      | stSet => simp only [Option.some.injEq, Prod.mk.injEq] at hs; obtain ⟨rfl, _⟩ := hs; simp at hch
      | failed => simp only [Option.some.injEq, Prod.mk.injEq] at hs; obtain ⟨rfl, _⟩ := hs; simp at hch
      | gone => cases hs

end VaxisModel.Props.C08Sched
