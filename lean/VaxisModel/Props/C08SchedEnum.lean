/-
C08 — closing the loop between schedules of single statements and the enumeration of harness-label
schedules (`Props/C08Sched.lean`): all normal forms at once.  Property theorems only
(lemmas: Lemmas/ParserRunSchedEnum.lean).
-/
import VaxisModel.Props.C08SchedGroup
import VaxisModel.Lemmas.ParserRunSchedEnum

namespace VaxisModel.Props.C08SchedEnum
open VaxisModel.Model.ParserTable VaxisModel.Model.Parser VaxisModel.Model.ParserRun VaxisModel.Model.ParserRunFine
open VaxisModel.Lemmas.ParserRunSchedNormal VaxisModel.Lemmas.ParserRunSchedGroup VaxisModel.Lemmas.ParserRunSchedEnum

/-- **All normal forms at once.**  `TimerOk` table; start state meeting `FInv`, no timer pending, main not
    between a read return and its `Stop()`; a schedule of single statements that runs to `r` and ends
    neither inside a `read` group nor inside a `cb` group: the schedule
    `cbNorm (readNorm (closeNorm (expNorm ls)))` is a permutation of `ls` with the same result that is
    expiry-normal (every `expire` directly behind the arming `anywhere`), `Close()`-normal (every
    `closeSig` directly in front of a `select`, or at the end), grouped (every `readRet` directly in
    front of its `Stop()`, every failed check / `p.ignoreST = false` of a callback directly in front of
    its `Unlock`) — and it is the expansion of the schedule `toS …` of harness labels, which `srun`
    executes to the same `r`. -/
theorem grouped_normal_form_general (T : Table) (hT : VaxisModel.Lemmas.ParserRunFine.TimerOk T) (f0 : FSys)
    (hinv : VaxisModel.Lemmas.ParserRunFine.FInv f0) (ha : f0.armed = none) (h0 : ∀ i, f0.mpc ≠ .readDone i)
    (ls : List FLabel) (r : FSys × List Seq) (h : FSys.run T f0 ls = some r)
    (hend1 : ∀ i, r.1.mpc ≠ .readDone i) (hend2 : ∀ c ∈ r.1.cbs, c.2 ≠ .failed ∧ c.2 ≠ .stSet) :
    ∃ ls', FSys.run T f0 ls' = some r ∧ ls'.Perm ls ∧ expNormal T false f0 ls' = true ∧
      closeNormal T f0 ls' = true ∧ readAdj ls' = true ∧ cbAdj T f0 ls' = true ∧
      VaxisModel.Model.ParserRunSched.srun T f0 (toS T false f0 ls') = some r := by
  have hn : ∀ (k : Option Nat), (∀ k', k = some k' → opens f0 k' = true) → True := fun _ _ => trivial
  -- the four stages
  have e1 : FSys.run T f0 (expNorm T ls.length f0 ls) = some r := by rw [expNorm_run]; exact h
  have e2 : FSys.run T f0 (closeNorm T 0 f0 (expNorm T ls.length f0 ls)) = some r := by
    rw [closeNorm_run]; simpa [cs] using e1
  have e3 : FSys.run T f0 (readNorm T none f0 (closeNorm T 0 f0 (expNorm T ls.length f0 ls))) = some r := by
    rw [readNorm_run]; simpa [pend] using e2
  have e4 : FSys.run T f0 (cbNorm T none f0 (readNorm T none f0 (closeNorm T 0 f0 (expNorm T ls.length f0 ls)))) = some r := by
    rw [cbNorm_run T hT _ none f0 hinv (fun _ h => by cases h)]; simpa [pendc] using e3
  -- expiry-normal through the stages
  have x1 := expNorm_normal T hT ls.length f0 ls false (Nat.le_refl _) hinv (fun g hg => by rw [ha] at hg; cases hg)
  have x2 := closeNorm_expNormal T (expNorm T ls.length f0 ls) 0 f0 false (by rw [if_pos rfl]; exact x1)
  have x3 := readNorm_expNormal T _ none f0 false (by simp only [pend, List.nil_append]; rw [e2]; rfl)
    (by simpa [pend] using x2)
  have x4 := cbNorm_expNormal T hT _ none f0 false hinv (fun _ h => by cases h)
    (by simp only [pendc, List.nil_append]; rw [e3]; rfl) (by simpa [pendc] using x3)
  -- Close()-normal through the stages
  have c2 := closeNorm_normal T (expNorm T ls.length f0 ls) 0 f0
  have c3 := readNorm_closeNormal T _ none f0 ⟨r, by simpa [pend] using e2, hend1⟩
    (by simpa [pend] using c2)
  have c4 := cbNorm_closeNormal T hT _ none f0 hinv (fun _ h => by cases h) ⟨r, by simpa [pendc] using e3, hend2⟩
    (by simpa [pendc] using c3)
  -- grouped
  have r3 := readNorm_adj T (closeNorm T 0 f0 (expNorm T ls.length f0 ls)) none f0
    ⟨r, by simpa [pend] using e2, hend1⟩
  have r4 := (cbNorm_readAdj T hT noHalf _ none f0 hinv (fun _ h => by cases h) ⟨r, by simpa [pendc] using e3, hend2⟩ r3).1
  have b4 := cbNorm_adj T hT _ none f0 hinv (fun _ h => by cases h) ⟨r, by simpa [pendc] using e3, hend2⟩
  refine ⟨_, e4, ?_, x4, c4, r4, b4, ?_⟩
  · exact (cbNorm_perm T _ none f0).trans ((readNorm_perm T _ none f0).trans
      ((by simpa [cs] using closeNorm_perm T (expNorm T ls.length f0 ls) 0 f0 :
        (closeNorm T 0 f0 (expNorm T ls.length f0 ls)).Perm (expNorm T ls.length f0 ls)).trans (expNorm_perm T _ f0 ls)))
  · rw [toS_run T _ f0 (by rw [e4]; rfl) r4 b4 h0]; exact e4

/-- **`grouped_normal_form`** — the statement `grouped_normal_form_full` of Lemmas/ParserRunSchedGroup.lean,
    proved: the parser's table, from the initial state, a complete schedule (main `done`, every callback
    `gone`) has a same-result permutation that is joint-normal, grouped, and the expansion of a schedule
    of harness labels with the same result. -/
theorem grouped_normal_form : grouped_normal_form_full := by
  intro ls r h hd hg
  exact grouped_normal_form_general handTable VaxisModel.Lemmas.ParserRunFine.handTable_timerOk FSys.init
    VaxisModel.Lemmas.ParserRunFine.FInv_init rfl (fun i h => by cases h) ls r h
    (fun i hi => by rw [hd] at hi; cases hi) (fun c hc => by rw [hg c hc]; exact ⟨by decide, by decide⟩)

/-- **A complete schedule of single statements without `Close()` is — up to a result-preserving
    permutation — a schedule of the enumeration.**  `TimerOk` table, from the initial state, a schedule
    `ls` of single statements without `closeSig` that runs to `r` with everything over (`finished`: main
    `done`, every callback `gone`, no timer pending): there are a permutation `ls'` of `ls` with the same
    result and the schedule `s = toS T false {} ls'` of harness labels such that `srun T {} s = some r`
    and `s` is `Reduced` (every label is one of `enabled`: reads return the next scripted input, expiries
    stand right behind the arming statement, nothing happens after `finished`) for the script
    `runes ls'` = the runes the read returns along `ls'`, with `mayClose = false`. -/
theorem complete_schedule_is_reduced_noclose (T : Table) (hT : VaxisModel.Lemmas.ParserRunFine.TimerOk T)
    (ls : List FLabel) (r : FSys × List Seq) (h : FSys.run T FSys.init ls = some r)
    (hfin : VaxisModel.Model.ParserRunSched.finished r.1 = true) (hnc : ∀ l ∈ ls, l ≠ .closeSig) :
    ∃ ls', FSys.run T FSys.init ls' = some r ∧ ls'.Perm ls ∧
      VaxisModel.Model.ParserRunSched.srun T {} (toS T false {} ls') = some r ∧
      VaxisModel.Props.C08Sched.Reduced T {} (runes ls') false (toS T false {} ls') := by
  have hf := hfin
  simp only [VaxisModel.Model.ParserRunSched.finished, Bool.and_eq_true, decide_eq_true_eq, List.all_eq_true] at hf
  obtain ⟨⟨hd, hg⟩, _⟩ := hf
  obtain ⟨ls', h1, h2, h3, _, h5, h6, h7⟩ := grouped_normal_form_general T hT FSys.init
    VaxisModel.Lemmas.ParserRunFine.FInv_init rfl (fun i h => by cases h) ls r h
    (fun i hi => by rw [hd] at hi; cases hi)
    (fun c hc => by have := hg c hc; rw [this]; exact ⟨by decide, by decide⟩)
  refine ⟨ls', h1, h2, h7, ?_⟩
  exact reduced_core T ls' FSys.init false r h1 hfin (fun l hl => hnc l (h2.subset hl)) h5 h6 h3 (fun h => by cases h)
    (fun i h => by cases h)

/-- … hence it is in the list `enumerate` produces (under the fuel and cap hypotheses of
    `enumerate_complete`): the enumeration of forced schedules misses no complete behaviour of the
    statement-grained system without `Close()`. -/
theorem complete_schedule_is_enumerated_noclose (T : Table) (hT : VaxisModel.Lemmas.ParserRunFine.TimerOk T)
    (ls : List FLabel) (r : FSys × List Seq) (h : FSys.run T FSys.init ls = some r)
    (hfin : VaxisModel.Model.ParserRunSched.finished r.1 = true) (hnc : ∀ l ∈ ls, l ≠ .closeSig) :
    ∃ ls' s, ls'.Perm ls ∧ FSys.run T FSys.init ls' = some r ∧
      VaxisModel.Model.ParserRunSched.srun T {} s = some r ∧
      ∀ fuel cap, s.length < fuel →
        (VaxisModel.Model.ParserRunSched.enumerate T fuel {} (runes ls') false [] cap []).length < cap →
        s ∈ VaxisModel.Model.ParserRunSched.enumerate T fuel {} (runes ls') false [] cap [] := by
  obtain ⟨ls', h1, h2, h3, h4⟩ := complete_schedule_is_reduced_noclose T hT ls r h hfin hnc
  exact ⟨ls', _, h2, h1, h3, fun fuel cap hl hc =>
    VaxisModel.Props.C08Sched.enumerate_complete T fuel (runes ls') false cap _ h4 hl hc⟩

/-- The normal form of `grouped_normal_form_general` is `normalForm T f0 ls`, and it keeps the script:
    the runes the read returns, in order. -/
theorem normal_form_explicit (T : Table) (hT : VaxisModel.Lemmas.ParserRunFine.TimerOk T) (f0 : FSys)
    (hinv : VaxisModel.Lemmas.ParserRunFine.FInv f0) (ha : f0.armed = none)
    (ls : List FLabel) (r : FSys × List Seq) (h : FSys.run T f0 ls = some r)
    (hend1 : ∀ i, r.1.mpc ≠ .readDone i) (hend2 : ∀ c ∈ r.1.cbs, c.2 ≠ .failed ∧ c.2 ≠ .stSet) :
    FSys.run T f0 (normalForm T f0 ls) = some r ∧ (normalForm T f0 ls).Perm ls ∧
      expNormal T false f0 (normalForm T f0 ls) = true ∧ closeNormal T f0 (normalForm T f0 ls) = true ∧
      readAdj (normalForm T f0 ls) = true ∧ cbAdj T f0 (normalForm T f0 ls) = true ∧
      runes (normalForm T f0 ls) = runes ls := by
  have e1 : FSys.run T f0 (expNorm T ls.length f0 ls) = some r := by rw [expNorm_run]; exact h
  have e2 : FSys.run T f0 (closeNorm T 0 f0 (expNorm T ls.length f0 ls)) = some r := by
    rw [closeNorm_run]; simpa [cs] using e1
  have e3 : FSys.run T f0 (readNorm T none f0 (closeNorm T 0 f0 (expNorm T ls.length f0 ls))) = some r := by
    rw [readNorm_run]; simpa [pend] using e2
  have e4 : FSys.run T f0 (normalForm T f0 ls) = some r := by
    unfold normalForm
    rw [cbNorm_run T hT _ none f0 hinv (fun _ h => by cases h)]; simpa [pendc] using e3
  have x1 := expNorm_normal T hT ls.length f0 ls false (Nat.le_refl _) hinv (fun g hg => by rw [ha] at hg; cases hg)
  have x2 := closeNorm_expNormal T (expNorm T ls.length f0 ls) 0 f0 false (by rw [if_pos rfl]; exact x1)
  have x3 := readNorm_expNormal T _ none f0 false (by simp only [pend, List.nil_append]; rw [e2]; rfl)
    (by simpa [pend] using x2)
  have x4 := cbNorm_expNormal T hT _ none f0 false hinv (fun _ h => by cases h)
    (by simp only [pendc, List.nil_append]; rw [e3]; rfl) (by simpa [pendc] using x3)
  have c2 := closeNorm_normal T (expNorm T ls.length f0 ls) 0 f0
  have c3 := readNorm_closeNormal T _ none f0 ⟨r, by simpa [pend] using e2, hend1⟩ (by simpa [pend] using c2)
  have c4 := cbNorm_closeNormal T hT _ none f0 hinv (fun _ h => by cases h) ⟨r, by simpa [pendc] using e3, hend2⟩
    (by simpa [pendc] using c3)
  have r3 := readNorm_adj T (closeNorm T 0 f0 (expNorm T ls.length f0 ls)) none f0 ⟨r, by simpa [pend] using e2, hend1⟩
  have r4 := (cbNorm_readAdj T hT noHalf _ none f0 hinv (fun _ h => by cases h) ⟨r, by simpa [pendc] using e3, hend2⟩ r3).1
  have b4 := cbNorm_adj T hT _ none f0 hinv (fun _ h => by cases h) ⟨r, by simpa [pendc] using e3, hend2⟩
  refine ⟨e4, ?_, x4, c4, r4, b4, normalForm_runes T f0 ls r h⟩
  exact (cbNorm_perm T _ none f0).trans ((readNorm_perm T _ none f0).trans
    ((by simpa [cs] using closeNorm_perm T (expNorm T ls.length f0 ls) 0 f0 :
      (closeNorm T 0 f0 (expNorm T ls.length f0 ls)).Perm (expNorm T ls.length f0 ls)).trans (expNorm_perm T _ f0 ls)))

/-- **`complete_schedule_is_reduced`, for schedules without `Close()`** — with the script of the ORIGINAL
    schedule: `TimerOk` table, from the initial state, a complete schedule `ls` of single statements
    without `closeSig` (result `r`, `finished r.1`): `s = toS T false FSys.init (normalForm T FSys.init ls)` satisfies
    `srun T FSys.init s = some r` and `Reduced T FSys.init (runes ls) false s`, `runes ls` = the runes the read returns
    along `ls`, in order (an `eof` read, if any, is the last read: after it the main goroutine never reads
    again); hence, under the fuel and cap hypotheses of `enumerate_complete`,
    `s ∈ enumerate T fuel FSys.init (runes ls) false [] cap []`. -/
theorem complete_schedule_is_reduced (T : Table) (hT : VaxisModel.Lemmas.ParserRunFine.TimerOk T)
    (ls : List FLabel) (r : FSys × List Seq) (h : FSys.run T FSys.init ls = some r)
    (hfin : VaxisModel.Model.ParserRunSched.finished r.1 = true) (hnc : ∀ l ∈ ls, l ≠ .closeSig) :
    (normalForm T FSys.init ls).Perm ls ∧ FSys.run T FSys.init (normalForm T FSys.init ls) = some r ∧
    VaxisModel.Model.ParserRunSched.srun T FSys.init (toS T false FSys.init (normalForm T FSys.init ls)) = some r ∧
    VaxisModel.Props.C08Sched.Reduced T FSys.init (runes ls) false (toS T false FSys.init (normalForm T FSys.init ls)) ∧
    ∀ fuel cap, (toS T false FSys.init (normalForm T FSys.init ls)).length < fuel →
      (VaxisModel.Model.ParserRunSched.enumerate T fuel FSys.init (runes ls) false [] cap []).length < cap →
      toS T false FSys.init (normalForm T FSys.init ls) ∈ VaxisModel.Model.ParserRunSched.enumerate T fuel FSys.init (runes ls) false [] cap [] := by
  have hf := hfin
  simp only [VaxisModel.Model.ParserRunSched.finished, Bool.and_eq_true, decide_eq_true_eq, List.all_eq_true] at hf
  obtain ⟨⟨hd, hg⟩, _⟩ := hf
  obtain ⟨h1, h2, h3, _, h5, h6, h7⟩ := normal_form_explicit T hT FSys.init
    VaxisModel.Lemmas.ParserRunFine.FInv_init rfl ls r h
    (fun i hi => by rw [hd] at hi; cases hi)
    (fun c hc => by have := hg c hc; rw [this]; exact ⟨by decide, by decide⟩)
  have hred := reduced_core T (normalForm T FSys.init ls) FSys.init false r h1 hfin (fun l hl => hnc l (h2.subset hl)) h5 h6 h3
    (fun h => by cases h) (fun i h => by cases h)
  rw [h7] at hred
  refine ⟨h2, h1, ?_, hred, fun fuel cap hl hc =>
    VaxisModel.Props.C08Sched.enumerate_complete T fuel (runes ls) false cap _ hred hl hc⟩
  rw [toS_run T _ FSys.init (by rw [h1]; rfl) h5 h6 (fun i h => by cases h)]; exact h1

-- non-vacuity: ESC A with a lone-ESC callback raced against the main goroutine, every goroutine run to its end
-- (19 single statements, not grouped: the deferred Unlock of the callback comes two statements after its failed
-- check; the timer expiry comes late): complete, no Close(); its normal form's harness schedule has 16 labels.
example :
    (FSys.run handTable FSys.init [.main, .readRet (.rune 0x1B), .main, .main, .main, .main, .main, .main, .expire,
      .readRet (.rune 0x41), .main, .main, .main, .main, .main, .cb 0, .cb 0, .main, .cb 0, .readRet .eof,
      .main, .main, .main, .main, .main, .main, .main, .main, .main, .main, .main]).map
        (fun r => VaxisModel.Model.ParserRunSched.finished r.1) = some true ∧
    toS handTable false FSys.init (normalForm handTable FSys.init [.main, .readRet (.rune 0x1B), .main, .main, .main, .main, .main, .main,
      .expire, .readRet (.rune 0x41), .main, .main, .main, .main, .main, .cb 0, .cb 0, .main, .cb 0, .readRet .eof,
      .main, .main, .main, .main, .main, .main, .main, .main, .main, .main, .main]) =
      [.main, .read (.rune 0x1B), .main, .main, .main, .expire, .main, .main, .read (.rune 0x41), .main, .main, .main,
       .main, .cb 0, .main, .cb 0, .read .eof, .main, .main, .main, .main, .main, .main, .main, .main, .main, .main] ∧
    runes [.main, .readRet (.rune 0x1B), .main, .main, .main, .main, .main, .main,
      .expire, .readRet (.rune 0x41), .main, .main, .main, .main, .main, .cb 0, .cb 0, .main, .cb 0, .readRet .eof,
      .main, .main, .main, .main, .main, .main, .main, .main, .main, .main, .main] = [0x1B, 0x41] := by
  refine ⟨?_, ?_, ?_⟩ <;> decide +kernel

/-- **`complete_schedule_is_reduced` with an observed `Close()`.**  `TimerOk` table, from the initial
    state, a complete schedule `ls` of single statements (result `r`, `finished r.1`) with at most one
    `closeSig` which is observed: in the normal form it is issued while the main goroutine stands in
    front of the `select` (`closeAt`; by `closeNormal` it then stands directly in front of that `select`;
    the alternative — it has travelled to the end of the schedule, nobody looked at it — is excluded by
    this hypothesis).  Then `s = toS T false init (normalForm T init ls)` satisfies `srun T init s = some r`
    and `Reduced T init (runes ls) (ls.contains closeSig) s`, and under the fuel and cap hypotheses of
    `enumerate_complete` it is in the enumeration.  (`init` = `FSys.init` = `{}`.) -/
theorem complete_schedule_is_reduced_close (T : Table) (hT : VaxisModel.Lemmas.ParserRunFine.TimerOk T)
    (ls : List FLabel) (r : FSys × List Seq) (h : FSys.run T FSys.init ls = some r)
    (hfin : VaxisModel.Model.ParserRunSched.finished r.1 = true) (hcnt : ls.count .closeSig ≤ 1)
    (hobs : closeAt T FSys.init (normalForm T FSys.init ls) = true) :
    (normalForm T FSys.init ls).Perm ls ∧ FSys.run T FSys.init (normalForm T FSys.init ls) = some r ∧
    VaxisModel.Model.ParserRunSched.srun T FSys.init (toS T false FSys.init (normalForm T FSys.init ls)) = some r ∧
    VaxisModel.Props.C08Sched.Reduced T FSys.init (runes ls) (ls.contains .closeSig)
      (toS T false FSys.init (normalForm T FSys.init ls)) ∧
    ∀ fuel cap, (toS T false FSys.init (normalForm T FSys.init ls)).length < fuel →
      (VaxisModel.Model.ParserRunSched.enumerate T fuel FSys.init (runes ls) (ls.contains .closeSig) [] cap []).length < cap →
      toS T false FSys.init (normalForm T FSys.init ls) ∈
        VaxisModel.Model.ParserRunSched.enumerate T fuel FSys.init (runes ls) (ls.contains .closeSig) [] cap [] := by
  have hf := hfin
  simp only [VaxisModel.Model.ParserRunSched.finished, Bool.and_eq_true, decide_eq_true_eq, List.all_eq_true] at hf
  obtain ⟨⟨hd, hg⟩, _⟩ := hf
  obtain ⟨h1, h2, h3, _, h5, h6, h7⟩ := normal_form_explicit T hT FSys.init
    VaxisModel.Lemmas.ParserRunFine.FInv_init rfl ls r h
    (fun i hi => by rw [hd] at hi; cases hi)
    (fun c hc => by have := hg c hc; rw [this]; exact ⟨by decide, by decide⟩)
  have hcnt' : (normalForm T FSys.init ls).count .closeSig ≤ 1 := by rw [h2.count_eq]; exact hcnt
  have hcon : (normalForm T FSys.init ls).contains .closeSig = ls.contains .closeSig := by
    rw [Bool.eq_iff_iff]; simp only [List.contains_iff_mem]; exact h2.mem_iff
  have hred := reduced_core_mc T (normalForm T FSys.init ls) FSys.init false r h1 hfin ⟨hobs, hcnt'⟩ h5 h6 h3
    (fun h => by cases h) (fun i h => by cases h)
  rw [h7, hcon] at hred
  refine ⟨h2, h1, ?_, hred, fun fuel cap hl hc =>
    VaxisModel.Props.C08Sched.enumerate_complete T fuel (runes ls) _ cap _ hred hl hc⟩
  rw [toS_run T _ FSys.init (by rw [h1]; rfl) h5 h6 (fun i h => by cases h)]; exact h1

-- non-vacuity: `A` is read and printed; `Close()` is called while the main goroutine is inside the mutex (not in
-- front of the `select`); the run ends through the close arm: complete, one observed `Close()`.  Normal form:
-- `Close()` directly in front of the `select`; harness schedule `main, read A, main×5, close, main×7`.
example :
    (FSys.run handTable FSys.init [.main, .readRet (.rune 0x41), .main, .main, .closeSig, .main, .main, .main, .main,
       .main, .main, .main, .main, .main, .main]).map (fun r => (VaxisModel.Model.ParserRunSched.finished r.1, r.2)) =
      some (true, [.print 0x41, .eof]) ∧
    closeAt handTable FSys.init (normalForm handTable FSys.init [.main, .readRet (.rune 0x41), .main, .main, .closeSig,
       .main, .main, .main, .main, .main, .main, .main, .main, .main, .main]) = true ∧
    toS handTable false FSys.init (normalForm handTable FSys.init [.main, .readRet (.rune 0x41), .main, .main, .closeSig,
       .main, .main, .main, .main, .main, .main, .main, .main, .main, .main]) =
      [.main, .read (.rune 0x41), .main, .main, .main, .main, .close, .main, .main, .main, .main, .main, .main, .main] := by
  refine ⟨?_, ?_, ?_⟩ <;> decide +kernel

end VaxisModel.Props.C08SchedEnum
