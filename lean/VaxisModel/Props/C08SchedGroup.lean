/-
C08 — **grouping normal forms of schedules**: the statements that a harness label of
Model/ParserRunSched.lean groups (the source has no yield point in between) can be made adjacent in
every schedule of single statements without changing its result.  Property theorems only
(definitions and lemmas: Lemmas/ParserRunSchedGroup.lean).
-/
import VaxisModel.Props.C08SchedNormal
import VaxisModel.Lemmas.ParserRunSchedGroup

namespace VaxisModel.Props.C08SchedGroup
open VaxisModel.Model.ParserTable VaxisModel.Model.Parser VaxisModel.Model.ParserRun VaxisModel.Model.ParserRunFine
open VaxisModel.Lemmas.ParserRunSchedNormal VaxisModel.Lemmas.ParserRunSchedGroup

/-- **Every read return can stand directly in front of its `Stop()`** (harness label `read i` =
    `readRet i; main`).  Any table, any start state, any schedule `ls` that runs to `r` and does not
    end between a read return and the `Stop()` inside `readRune` (`r.1.mpc` is no `readDone _`): the
    schedule `readNorm T none f0 ls` is a permutation of `ls`, runs to the same `r` (final state and
    items), and in it every `readRet i` is immediately followed by `.main`.  (The read return is
    carried forward: it commutes with every statement of every other party — `readRet_commutes` —
    because nobody but the main goroutine looks at where the main goroutine is; the next `.main` is its
    `Stop()`.) -/
theorem read_stop_adjacent_form (T : Table) (f0 : FSys) (ls : List FLabel) (r : FSys × List Seq)
    (h : FSys.run T f0 ls = some r) (hend : ∀ i, r.1.mpc ≠ .readDone i) :
    ∃ ls', FSys.run T f0 ls' = some r ∧ ls'.Perm ls ∧ readAdj ls' = true :=
  ⟨readNorm T none f0 ls, by rw [readNorm_run]; exact h, readNorm_perm T ls none f0,
    readNorm_adj T ls none f0 ⟨r, h, hend⟩⟩

-- non-vacuity: a lone ESC is read; in the next read, between the read return of `A` and its `Stop()`, the
-- timer of the ESC expires and its callback takes its first statement (which blocks nothing: the main
-- goroutine is outside the mutex) — not adjacent.  Normal form: the read return directly in front of its
-- `Stop()` (so the expiry happens "during the read"); same final state, same items.
example :
    readAdj [.main, .readRet (.rune 0x1B), .main, .main, .main, .main, .main, .main,
      .readRet (.rune 0x41), .expire, .cb 0, .main] = false ∧
    readNorm handTable none FSys.init [.main, .readRet (.rune 0x1B), .main, .main, .main, .main, .main, .main,
      .readRet (.rune 0x41), .expire, .cb 0, .main] =
      [.main, .readRet (.rune 0x1B), .main, .main, .main, .main, .main, .main, .expire, .cb 0,
       .readRet (.rune 0x41), .main] ∧
    readAdj [.main, .readRet (.rune 0x1B), .main, .main, .main, .main, .main, .main, .expire, .cb 0,
       .readRet (.rune 0x41), .main] = true ∧
    FSys.run handTable FSys.init [.main, .readRet (.rune 0x1B), .main, .main, .main, .main, .main, .main,
      .readRet (.rune 0x41), .expire, .cb 0, .main] =
    FSys.run handTable FSys.init [.main, .readRet (.rune 0x1B), .main, .main, .main, .main, .main, .main,
      .expire, .cb 0, .readRet (.rune 0x41), .main] ∧
    (FSys.run handTable FSys.init [.main, .readRet (.rune 0x1B), .main, .main, .main, .main, .main, .main,
      .expire, .cb 0, .readRet (.rune 0x41), .main]).isSome = true := by
  refine ⟨?_, ?_, ?_, ?_, ?_⟩ <;> decide +kernel

/-- **Every failed check and every `p.ignoreST = false` of a callback can stand directly in front of the
    callback's deferred `Unlock`** (harness label `cb k` runs on from yield point 31 / 34 to 39).  Any
    `TimerOk` table, any start state that meets `FInv` (every reachable state does), any schedule that
    runs to `r` and does not end with a callback between such a statement and its `Unlock` (no callback
    at `failed` / `stSet` in `r`): the schedule `cbNorm T none f0 ls` is a permutation, runs to the same
    `r`, and along its run every `.cb k` that takes callback `k` to `failed` or `stSet` is immediately
    followed by `.cb k` (to `gone`).  (That statement is carried forward: it commutes with every
    statement of every other goroutine that is outside the mutex — `cb_mid_commutes` — and while callback
    `k` holds the mutex nobody else is inside, by `FInv`.) -/
theorem callback_unlock_adjacent_form (T : Table) (hT : VaxisModel.Lemmas.ParserRunFine.TimerOk T) (f0 : FSys)
    (hinv : VaxisModel.Lemmas.ParserRunFine.FInv f0) (ls : List FLabel) (r : FSys × List Seq)
    (h : FSys.run T f0 ls = some r) (hend : ∀ c ∈ r.1.cbs, c.2 ≠ .failed ∧ c.2 ≠ .stSet) :
    ∃ ls', FSys.run T f0 ls' = some r ∧ ls'.Perm ls ∧ cbAdj T f0 ls' = true :=
  ⟨cbNorm T none f0 ls, by rw [cbNorm_run T hT ls none f0 hinv (fun _ h => by cases h)]; exact h,
    cbNorm_perm T ls none f0, cbNorm_adj T hT ls none f0 hinv (fun _ h => by cases h) ⟨r, h, hend⟩⟩

-- non-vacuity: a lone ESC, its timer expires, `A` is read and parsed (generation 2), then the callback locks
-- and fails its check; the main goroutine goes on to the read before the callback unlocks — not adjacent.
-- Normal form: the failed check directly in front of the deferred `Unlock`; same result.
example :
    cbAdj handTable FSys.init [.main, .readRet (.rune 0x1B), .main, .main, .main, .main, .main, .expire, .main,
      .readRet (.rune 0x41), .main, .main, .main, .main, .main, .cb 0, .cb 0, .main, .cb 0] = false ∧
    cbNorm handTable none FSys.init [.main, .readRet (.rune 0x1B), .main, .main, .main, .main, .main, .expire, .main,
      .readRet (.rune 0x41), .main, .main, .main, .main, .main, .cb 0, .cb 0, .main, .cb 0] =
      [.main, .readRet (.rune 0x1B), .main, .main, .main, .main, .main, .expire, .main,
       .readRet (.rune 0x41), .main, .main, .main, .main, .main, .cb 0, .main, .cb 0, .cb 0] ∧
    cbAdj handTable FSys.init [.main, .readRet (.rune 0x1B), .main, .main, .main, .main, .main, .expire, .main,
      .readRet (.rune 0x41), .main, .main, .main, .main, .main, .cb 0, .main, .cb 0, .cb 0] = true ∧
    FSys.run handTable FSys.init [.main, .readRet (.rune 0x1B), .main, .main, .main, .main, .main, .expire, .main,
      .readRet (.rune 0x41), .main, .main, .main, .main, .main, .cb 0, .cb 0, .main, .cb 0] =
    FSys.run handTable FSys.init [.main, .readRet (.rune 0x1B), .main, .main, .main, .main, .main, .expire, .main,
      .readRet (.rune 0x41), .main, .main, .main, .main, .main, .cb 0, .main, .cb 0, .cb 0] ∧
    (FSys.run handTable FSys.init [.main, .readRet (.rune 0x1B), .main, .main, .main, .main, .main, .expire, .main,
      .readRet (.rune 0x41), .main, .main, .main, .main, .main, .cb 0, .main, .cb 0, .cb 0]).map
        (fun r => (r.1.mpc, r.1.cbs, r.2)) = some (.inRead, [(1, .gone)], [.esc [] 0x41]) := by
  refine ⟨?_, ?_, ?_, ?_, ?_⟩ <;> decide +kernel

/-- **Both groupings at once.**  `TimerOk` table, start state meeting `FInv`, a schedule that runs to `r`
    and ends neither between a read return and its `Stop()` nor with a callback between its failed
    check / `p.ignoreST = false` and its `Unlock`: `cbNorm T none f0 (readNorm T none f0 ls)` is a
    permutation with the same result in which every `readRet` is directly followed by `.main` and every
    callback statement leading to `failed` / `stSet` directly by that callback's `Unlock` — the
    statements of every harness label of Model/ParserRunSched.lean stand together. -/
theorem grouped_adjacent_form (T : Table) (hT : VaxisModel.Lemmas.ParserRunFine.TimerOk T) (f0 : FSys)
    (hinv : VaxisModel.Lemmas.ParserRunFine.FInv f0) (ls : List FLabel) (r : FSys × List Seq)
    (h : FSys.run T f0 ls = some r) (hend1 : ∀ i, r.1.mpc ≠ .readDone i)
    (hend2 : ∀ c ∈ r.1.cbs, c.2 ≠ .failed ∧ c.2 ≠ .stSet) :
    ∃ ls', FSys.run T f0 ls' = some r ∧ ls'.Perm ls ∧ readAdj ls' = true ∧ cbAdj T f0 ls' = true := by
  have h1 : FSys.run T f0 (readNorm T none f0 ls) = some r := by rw [readNorm_run]; exact h
  refine ⟨cbNorm T none f0 (readNorm T none f0 ls), ?_, ?_, ?_, ?_⟩
  · rw [cbNorm_run T hT _ none f0 hinv (fun _ h => by cases h)]; exact h1
  · exact (cbNorm_perm T _ none f0).trans (readNorm_perm T ls none f0)
  · exact (cbNorm_readAdj T hT noHalf _ none f0 hinv (fun _ h => by cases h) ⟨r, h1, hend2⟩
      (readNorm_adj T ls none f0 ⟨r, h, hend1⟩)).1
  · exact cbNorm_adj T hT _ none f0 hinv (fun _ h => by cases h) ⟨r, h1, hend2⟩

/-- **Every schedule of single statements is, up to a result-preserving permutation, a schedule of
    harness labels.**  `TimerOk` table, start state meeting `FInv` with the main goroutine not between a
    read return and its `Stop()`, a schedule that runs to `r` and does not end inside a group: there
    are a permutation `ls'` of the schedule with the same result in which the statements of every
    harness label stand together, and a schedule `s` of harness labels (`SLabel`, Model/ParserRunSched.lean;
    `s = toS T false f0 ls'`) with `srun T f0 s = some r` — same final state, same items.  So the forced
    schedules the harness replays (and `enumerate` enumerates, up to its two commuting reductions:
    `joint_normal_form`) lose no behaviour of the statement-grained system. -/
theorem grouped_is_harness_schedule (T : Table) (hT : VaxisModel.Lemmas.ParserRunFine.TimerOk T) (f0 : FSys)
    (hinv : VaxisModel.Lemmas.ParserRunFine.FInv f0) (h0 : ∀ i, f0.mpc ≠ .readDone i) (ls : List FLabel)
    (r : FSys × List Seq) (h : FSys.run T f0 ls = some r) (hend1 : ∀ i, r.1.mpc ≠ .readDone i)
    (hend2 : ∀ c ∈ r.1.cbs, c.2 ≠ .failed ∧ c.2 ≠ .stSet) :
    ∃ ls' s, FSys.run T f0 ls' = some r ∧ ls'.Perm ls ∧ readAdj ls' = true ∧ cbAdj T f0 ls' = true ∧
      VaxisModel.Model.ParserRunSched.srun T f0 s = some r := by
  obtain ⟨ls', h1, h2, h3, h4⟩ := grouped_adjacent_form T hT f0 hinv ls r h hend1 hend2
  exact ⟨ls', toS T false f0 ls', h1, h2, h3, h4, by rw [toS_run T ls' f0 (by rw [h1]; rfl) h3 h4 h0]; exact h1⟩

/-- … from the initial state, the parser's table, a complete schedule (`run` returned, every callback
    goroutine returned): it is — up to a result-preserving permutation — a schedule of harness labels. -/
theorem complete_schedule_is_harness_schedule (ls : List FLabel) (r : FSys × List Seq)
    (h : FSys.run handTable FSys.init ls = some r) (hd : r.1.mpc = .done) (hg : ∀ c ∈ r.1.cbs, c.2 = .gone) :
    ∃ s, VaxisModel.Model.ParserRunSched.srun handTable FSys.init s = some r := by
  obtain ⟨_, s, _, _, _, _, hs⟩ := grouped_is_harness_schedule handTable VaxisModel.Lemmas.ParserRunFine.handTable_timerOk
    FSys.init VaxisModel.Lemmas.ParserRunFine.FInv_init (fun i h => by cases h) ls r h
    (fun i hi => by rw [hd] at hi; cases hi) (fun c hc => by rw [hg c hc]; exact ⟨by decide, by decide⟩)
  exact ⟨s, hs⟩

-- non-vacuity: the grouped schedule of the callback example above is the expansion of 15 harness labels
-- (`read ESC`, …, `cb 0` = Lock, `main`, `cb 0` = failed check + deferred Unlock), with the same result.
example :
    toS handTable false FSys.init [.main, .readRet (.rune 0x1B), .main, .main, .main, .main, .main, .expire, .main,
       .readRet (.rune 0x41), .main, .main, .main, .main, .main, .cb 0, .main, .cb 0, .cb 0] =
      [.main, .read (.rune 0x1B), .main, .main, .main, .main, .expire, .main, .read (.rune 0x41), .main, .main, .main,
       .main, .cb 0, .main, .cb 0] ∧
    VaxisModel.Model.ParserRunSched.srun handTable FSys.init
      [.main, .read (.rune 0x1B), .main, .main, .main, .main, .expire, .main, .read (.rune 0x41), .main, .main, .main,
       .main, .cb 0, .main, .cb 0] =
    FSys.run handTable FSys.init [.main, .readRet (.rune 0x1B), .main, .main, .main, .main, .main, .expire, .main,
       .readRet (.rune 0x41), .main, .main, .main, .main, .main, .cb 0, .main, .cb 0, .cb 0] := by
  refine ⟨?_, ?_⟩ <;> decide +kernel

end VaxisModel.Props.C08SchedGroup
