/-
C08 — **normal forms of schedules** of the statement-grained life cycle: the single commutation moves
of `Props/C08Sched.lean` (`closeSig_moves_later`, …) iterated over whole schedules.  Property theorems
only (definitions and lemmas: Lemmas/ParserRunSchedNormal.lean).
-/
import VaxisModel.Props.C08Sched
import VaxisModel.Lemmas.ParserRunSchedNormal

namespace VaxisModel.Props.C08SchedNormal
open VaxisModel.Model.ParserTable VaxisModel.Model.Parser VaxisModel.Model.ParserRun VaxisModel.Model.ParserRunFine
open VaxisModel.Lemmas.ParserRunSchedNormal

/-- **Every schedule has a `Close()`-normal form with the same result.**  Any table, any start state,
    any schedule `ls` of single statements that the statement-grained system can run to `r` (final
    state and items): the schedule `closeNorm T 0 f0 ls` is a permutation of `ls`, runs to the same
    `r`, and is normal (`closeNormal`): every `closeSig` in it is immediately followed by a `.main`
    taken with the main goroutine at the `select`, or is followed by nothing but `closeSig`s up to the
    end.  (Iteration of `closeSig_moves_later`; a `Close()` after the first one changes nothing and
    travels to the end.)  So the enumeration that only issues `Close()` in front of a `select` or at
    the end (reduction 1 of `enumerate`) loses no behaviour — on whole schedules. -/
theorem closeSig_normal_form (T : Table) (f0 : FSys) (ls : List FLabel) (r : FSys × List Seq)
    (h : FSys.run T f0 ls = some r) :
    ∃ ls', FSys.run T f0 ls' = some r ∧ ls'.Perm ls ∧ closeNormal T f0 ls' = true := by
  refine ⟨closeNorm T 0 f0 ls, ?_, ?_, closeNorm_normal T ls 0 f0⟩
  · rw [closeNorm_run T ls 0 f0]; simpa [cs] using h
  · simpa [cs] using closeNorm_perm T ls 0 f0

/-- … and the normal form is computed by `closeNorm`; it is enabled iff the schedule is (no hypothesis
    that the schedule runs). -/
theorem closeSig_normal_form_computed (T : Table) (f0 : FSys) (ls : List FLabel) :
    FSys.run T f0 (closeNorm T 0 f0 ls) = FSys.run T f0 ls ∧ (closeNorm T 0 f0 ls).Perm ls ∧
    closeNormal T f0 (closeNorm T 0 f0 ls) = true :=
  ⟨by simpa [cs] using closeNorm_run T ls 0 f0, by simpa [cs] using closeNorm_perm T ls 0 f0,
   closeNorm_normal T ls 0 f0⟩

-- non-vacuity: `A` is read; `Close()` is called twice while the main goroutine is blocked in the read and once
-- more inside the mutex — not normal.  Normal form: one `Close()` directly in front of the next `select`
-- (which takes the `<-p.close` arm), the two others at the end; same final state, same items.
example :
    closeNormal handTable FSys.init
      [.main, .closeSig, .closeSig, .readRet (.rune 0x41), .main, .main, .closeSig, .main, .main, .main, .main, .main] = false ∧
    closeNorm handTable 0 FSys.init
      [.main, .closeSig, .closeSig, .readRet (.rune 0x41), .main, .main, .closeSig, .main, .main, .main, .main, .main] =
      [.main, .readRet (.rune 0x41), .main, .main, .main, .main, .main, .closeSig, .main, .main, .closeSig, .closeSig] ∧
    closeNormal handTable FSys.init
      [.main, .readRet (.rune 0x41), .main, .main, .main, .main, .main, .closeSig, .main, .main, .closeSig, .closeSig] = true ∧
    FSys.run handTable FSys.init
      [.main, .closeSig, .closeSig, .readRet (.rune 0x41), .main, .main, .closeSig, .main, .main, .main, .main, .main] =
    FSys.run handTable FSys.init
      [.main, .readRet (.rune 0x41), .main, .main, .main, .main, .main, .closeSig, .main, .main, .closeSig, .closeSig] ∧
    (FSys.run handTable FSys.init
      [.main, .readRet (.rune 0x41), .main, .main, .main, .main, .main, .closeSig, .main, .main, .closeSig, .closeSig]).map
        (fun r => (r.1.mpc, r.2)) = some (.fin .lock false, [.print 0x41]) := by
  refine ⟨?_, ?_, ?_, ?_, ?_⟩ <;> decide +kernel

/-- **Every schedule has an expiry-normal form with the same result.**  Any table that meets `TimerOk`,
    any start state that meets the invariant of the statement-grained system (`FInv`; every reachable
    state does) with no timer pending, any schedule `ls` that runs to `r`: the schedule
    `expNorm T ls.length f0 ls` is a permutation of `ls`, runs to the same `r` (final state — callback
    indices included — and items), and is normal (`expNormal`): every `expire` in it stands directly
    behind the statement `p.state = anywhere(r, p)` of the main goroutine that armed the timer it
    consumes.  (Iteration of `expire_moves_earlier`: the expiry never has to cross a statement that
    stops or re-arms the timer, another expiry, or the first statement of its own callback.)  So the
    enumeration that lets a timer expire — if at all — right after it was armed (reduction 2 of
    `enumerate`) loses no behaviour: the callback's statements can still be scheduled anywhere later. -/
theorem expire_normal_form (T : Table) (hT : VaxisModel.Lemmas.ParserRunFine.TimerOk T) (f0 : FSys)
    (hinv : VaxisModel.Lemmas.ParserRunFine.FInv f0) (ha : f0.armed = none) (ls : List FLabel)
    (r : FSys × List Seq) (h : FSys.run T f0 ls = some r) :
    ∃ ls', FSys.run T f0 ls' = some r ∧ ls'.Perm ls ∧ expNormal T false f0 ls' = true :=
  ⟨expNorm T ls.length f0 ls, by rw [expNorm_run]; exact h, expNorm_perm T _ f0 ls,
    expNorm_normal T hT ls.length f0 ls false (Nat.le_refl _) hinv (fun g hg => by rw [ha] at hg; cases hg)⟩

/-- … from the initial state, for the parser's table: both normal forms at once — first the expiries
    are pulled forward, then the `Close()` calls are carried to the next `select`; each step keeps
    the result and permutes the schedule. -/
theorem normal_forms_from_init (ls : List FLabel) (r : FSys × List Seq)
    (h : FSys.run handTable FSys.init ls = some r) :
    (∃ ls', FSys.run handTable FSys.init ls' = some r ∧ ls'.Perm ls ∧ expNormal handTable false FSys.init ls' = true) ∧
    (∃ ls', FSys.run handTable FSys.init ls' = some r ∧ ls'.Perm ls ∧ closeNormal handTable FSys.init ls' = true) :=
  ⟨expire_normal_form handTable VaxisModel.Lemmas.ParserRunFine.handTable_timerOk FSys.init
      VaxisModel.Lemmas.ParserRunFine.FInv_init rfl ls r h,
   closeSig_normal_form handTable FSys.init ls r h⟩

-- non-vacuity: a lone ESC; the timer armed by `anywhere` (6th statement) expires only after the main goroutine
-- has unlocked and gone back into the read, then the callback runs to its `emit` — not normal.  Normal form:
-- the `expire` directly behind the arming statement; same final state (callback 0, generation 1, at
-- `emitted`), same item (the Escape report).
example :
    expNormal handTable false FSys.init
      [.main, .readRet (.rune 0x1B), .main, .main, .main, .main, .main, .main, .expire, .cb 0, .cb 0, .cb 0] = false ∧
    expNorm handTable 12 FSys.init
      [.main, .readRet (.rune 0x1B), .main, .main, .main, .main, .main, .main, .expire, .cb 0, .cb 0, .cb 0] =
      [.main, .readRet (.rune 0x1B), .main, .main, .main, .main, .expire, .main, .main, .cb 0, .cb 0, .cb 0] ∧
    expNormal handTable false FSys.init
      [.main, .readRet (.rune 0x1B), .main, .main, .main, .main, .expire, .main, .main, .cb 0, .cb 0, .cb 0] = true ∧
    FSys.run handTable FSys.init
      [.main, .readRet (.rune 0x1B), .main, .main, .main, .main, .main, .main, .expire, .cb 0, .cb 0, .cb 0] =
    FSys.run handTable FSys.init
      [.main, .readRet (.rune 0x1B), .main, .main, .main, .main, .expire, .main, .main, .cb 0, .cb 0, .cb 0] ∧
    (FSys.run handTable FSys.init
      [.main, .readRet (.rune 0x1B), .main, .main, .main, .main, .expire, .main, .main, .cb 0, .cb 0, .cb 0]).map
        (fun r => (r.1.mpc, r.1.cbs, r.2)) = some (.inRead, [(1, .emitted)], [.c0 0x1B]) := by
  refine ⟨?_, ?_, ?_, ?_, ?_⟩ <;> decide +kernel

/-- **Both normal forms at once.**  `TimerOk` table, start state meeting `FInv` with no timer pending, any
    schedule that runs to `r`: pulling the expiries forward (`expNorm`) and then carrying the `Close()`
    calls to the next `select` (`closeNorm`) gives a permutation of the schedule that runs to the same
    `r` and is normal in both senses: every `expire` directly behind the arming `anywhere`, every
    `closeSig` directly in front of a `select` or at the end.  (Carrying `Close()` calls forward never
    separates an expiry from its arming statement.)  These are exactly the schedules `enumerate`
    generates with both reductions on. -/
theorem joint_normal_form (T : Table) (hT : VaxisModel.Lemmas.ParserRunFine.TimerOk T) (f0 : FSys)
    (hinv : VaxisModel.Lemmas.ParserRunFine.FInv f0) (ha : f0.armed = none) (ls : List FLabel)
    (r : FSys × List Seq) (h : FSys.run T f0 ls = some r) :
    ∃ ls', FSys.run T f0 ls' = some r ∧ ls'.Perm ls ∧ expNormal T false f0 ls' = true ∧
      closeNormal T f0 ls' = true := by
  refine ⟨closeNorm T 0 f0 (expNorm T ls.length f0 ls), ?_, ?_, ?_, closeNorm_normal T _ 0 f0⟩
  · rw [closeNorm_run]; simp only [cs, List.replicate_zero, List.nil_append]; rw [expNorm_run]; exact h
  · exact (by simpa [cs] using closeNorm_perm T (expNorm T ls.length f0 ls) 0 f0 :
      (closeNorm T 0 f0 (expNorm T ls.length f0 ls)).Perm (expNorm T ls.length f0 ls)).trans (expNorm_perm T _ f0 ls)
  · refine closeNorm_expNormal T _ 0 f0 false ?_
    rw [if_pos rfl]
    exact expNorm_normal T hT ls.length f0 ls false (Nat.le_refl _) hinv (fun g hg => by rw [ha] at hg; cases hg)

-- non-vacuity: a lone ESC, `Close()` right after the read returned, the timer expires late: normal in neither
-- sense; the joint normal form has the `expire` behind the arming statement and the `Close()` in front of
-- the `select`; same result.
example :
    (expNormal handTable false FSys.init
      [.main, .readRet (.rune 0x1B), .closeSig, .main, .main, .main, .main, .main, .expire, .main, .cb 0] = false ∧
     closeNormal handTable FSys.init
      [.main, .readRet (.rune 0x1B), .closeSig, .main, .main, .main, .main, .main, .expire, .main, .cb 0] = false) ∧
    closeNorm handTable 0 FSys.init (expNorm handTable 11 FSys.init
      [.main, .readRet (.rune 0x1B), .closeSig, .main, .main, .main, .main, .main, .expire, .main, .cb 0]) =
      [.main, .readRet (.rune 0x1B), .main, .main, .main, .main, .expire, .main, .closeSig, .main, .cb 0] ∧
    (expNormal handTable false FSys.init
      [.main, .readRet (.rune 0x1B), .main, .main, .main, .main, .expire, .main, .closeSig, .main, .cb 0] = true ∧
     closeNormal handTable FSys.init
      [.main, .readRet (.rune 0x1B), .main, .main, .main, .main, .expire, .main, .closeSig, .main, .cb 0] = true) ∧
    FSys.run handTable FSys.init
      [.main, .readRet (.rune 0x1B), .closeSig, .main, .main, .main, .main, .main, .expire, .main, .cb 0] =
    FSys.run handTable FSys.init
      [.main, .readRet (.rune 0x1B), .main, .main, .main, .main, .expire, .main, .closeSig, .main, .cb 0] ∧
    (FSys.run handTable FSys.init
      [.main, .readRet (.rune 0x1B), .main, .main, .main, .main, .expire, .main, .closeSig, .main, .cb 0]).isSome = true := by
  refine ⟨⟨?_, ?_⟩, ?_, ⟨?_, ?_⟩, ?_, ?_⟩ <;> decide +kernel

end VaxisModel.Props.C08SchedNormal
