/-
C08 ∘ C02 — the parser's life cycle against the reference machine of Spec/VT500.lean (round 2):
for EVERY schedule of the life-cycle LTS — reads, end of input, Close(), the Escape timer firing in a
quiet gap, timer callbacks that run late (after further reads, after the loop ended) — the items
delivered are exactly those the Spec prescribes for the same labels: runes through the VT500 machine
(recorded deviations F102/F102c switched on), the Escape key (`C0 1B`, then parsing resumes from
ground with nothing pending) at every up-to-date timer firing and nowhere else, the open control
string at end of input, one `EOF{}`.  Property theorems only (lemmas: Lemmas/ParserRunSpec.lean).
-/
import VaxisModel.Lemmas.ParserRunSpec

namespace VaxisModel.Props.C08Spec
open VaxisModel.Model.ParserTable VaxisModel.Model.Parser VaxisModel.Model.ParserRun
open VaxisModel.Lemmas.ParserRefine VaxisModel.Lemmas.ParserRefineCheck VaxisModel.Lemmas.ParserRefineStep
open VaxisModel.Lemmas.ParserRunSpec

/-- **Every schedule refines the Spec.**  Whatever labels are enabled in whatever order (including
    the delayed-callback interleavings of F29, which the guarded callback turns into no-ops): the
    emitted items (`error` reports dropped) are `specLabels` of the same labels, and while the loop
    runs the parser state stays related to the reference machine (`R`). -/
theorem lifecycle_refines_spec (ls : List Label) (s' : Sys) (o : List Seq)
    (h : Sys.run handTable Cfg.fixed Sys.init ls = some (s', o)) :
    noErr o = (specLabels {} ls).2 ∧ (s'.pc ≠ .done → R s'.ps (specLabels {} ls).1) := by
  obtain ⟨hJ, ho⟩ := run_J ls Sys.init {} s' o J_init h
  exact ⟨ho, hJ.2.1⟩

/-- **The Escape key is the Spec's `escKey`**: when the timer fires (or its still up-to-date callback
    runs late) in a state related to the reference machine, the parser is in `escape`, `C0 1B` is
    delivered, and the state afterwards is related to `escKey m` — ground, no string terminator
    pending, nothing collected that could leak. -/
theorem escape_key_is_spec (s : Sys) (m : Spec.VT500.M) (hJ : J s m) (l : Label)
    (hl : l = .timerFire ∨ l = .cbRun true) (s' : Sys) (o : List Seq)
    (h : Sys.step handTable Cfg.fixed s l = some (s', o)) :
    o = [.c0 0x1B] ∧ J s' (Spec.VT500.escKey m).1 := by
  obtain ⟨g1, g2⟩ := step_J s m l s' o hJ h
  rcases hl with rfl | rfl
  · simp only [specLabel] at g1 g2
    refine ⟨?_, g1⟩
    simp only [Sys.step] at h
    split at h
    · simp only [Option.some.injEq, Prod.mk.injEq] at h; exact h.2.symm
    · cases h
  · simp only [specLabel] at g1 g2
    refine ⟨?_, g1⟩
    simp only [Sys.step] at h
    split at h
    · simp only [Option.some.injEq, Prod.mk.injEq, Cfg.fixed] at h
      rw [← h.2]; simp
    · cases h

/-- **Gaps on either side of the delay, whole histories**: a script of segments of back-to-back
    reads, each segment but the last followed by silence in which the timer fires, then end of
    input — if the parser can run it (i.e. every segment but the last ends in ESC), it delivers
    exactly `Spec.VT500.runWithEscKeysD` of the segments (the oracle of the C08 driver), then
    `EOF{}`. -/
theorem segments_refine_spec (segs : List (List Nat)) (s' : Sys) (o : List Seq)
    (h : Sys.run handTable Cfg.fixed Sys.init (.enterRead :: (segsOf segs ++ [.readEnd])) = some (s', o)) :
    noErr o =
      ((Spec.VT500.runWithEscKeysD devAll segs).1 ++ (Spec.VT500.runWithEscKeysD devAll segs).2).map specSeq ++
        [.eof] := by
  have := (lifecycle_refines_spec _ s' o h).1
  rw [this]
  simp only [specLabels, specLabel, List.nil_append]
  rw [specLabels_append, specLabels_segs]
  simp [specLabels, specLabel, Spec.VT500.runWithEscKeysD]

-- non-vacuity: `ESC` · silence · `[A` · end  ⇒  Escape key, then `[` and `A` printed from ground
example : (Sys.run handTable Cfg.fixed Sys.init
    (.enterRead :: (segsOf [[0x1B], [0x5B, 0x41]] ++ [.readEnd]))).map (·.2) =
    some [.c0 0x1B, .print 0x5B, .print 0x41, .eof] := by decide
-- … and the same bytes back to back are the CSI
example : (Sys.run handTable Cfg.fixed Sys.init
    (.enterRead :: (segsOf [[0x1B, 0x5B, 0x41]] ++ [.readEnd]))).map (·.2) =
    some [.csi [] [] 0x41, .eof] := by decide
-- a lone ESC inside an OSC: the string is delivered, then the Escape key; the following `ESC \` is Alt+\ (F108 repaired)
example : (Sys.run handTable Cfg.fixed Sys.init
    (.enterRead :: (segsOf [[0x1B, 0x5D, 0x30, 0x1B], [0x1B, 0x5C]] ++ [.readEnd]))).map (·.2) =
    some [.osc [0x30], .c0 0x1B, .esc [] 0x5C, .eof] := by decide

end VaxisModel.Props.C08Spec
