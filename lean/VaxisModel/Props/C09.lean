/-
C09 — Key decoding and binding matching are exact and protocol-independent.
Property theorems only (helper lemmas live in Lemmas/KeyMatch.lean, Lemmas/KeyDecode.lean).

All theorems quantify over every `Uni` (the `unicode` functions are parameters) unless a hypothesis
on `u` is written out.
-/
import VaxisModel.Model.Key
import VaxisModel.Spec.KeyEnc
import VaxisModel.Lemmas.KeyMatch
import VaxisModel.Lemmas.KeyDecode
import VaxisModel.Lemmas.KeySelf
import VaxisModel.Lemmas.KeyCross

namespace VaxisModel.Props.C09
open VaxisModel.Model.Key VaxisModel.Spec.KeyEnc VaxisModel.Gen.Keys
open VaxisModel.Lemmas.KeyMatch VaxisModel.Lemmas.KeyDecode VaxisModel.Lemmas.KeySelf VaxisModel.Lemmas.KeyCross

/-! ## Tables regenerated from key.go agree with the protocol documents -/

/-- `specialsKeys` denotes exactly the keys the protocol documents say (both directions). -/
theorem specials_is_spec :
    (specialsKeys.all fun e => lookup2 e.1 functional = some e.2) = true ∧
    (functional.all fun e => lookup2 e.1 specialsKeys = some e.2) = true := by
  constructor <;> decide +kernel

/-- The SS3 arm of `decodeKey` is the xterm application-cursor / PF-key table. -/
theorem ss3_is_spec : ss3Keys = ss3Table := by decide

/-- The modifier bits are the kitty keyboard protocol's. -/
theorem mod_bits :
    ModShift = shiftBit ∧ ModAlt = altBit ∧ ModCtrl = ctrlBit ∧ ModSuper = superBit ∧
    ModHyper = hyperBit ∧ ModMeta = metaBit ∧ ModCapsLock = capsBit ∧ ModNumLock = numBit := by decide

/-! ## Matching -/

/-- Meaning of the bit-clear primitive (`&^`) used by model and spec. -/
theorem andNot_testBit (a b i : Nat) : (andNot a b).testBit i = (a.testBit i && !b.testBit i) :=
  testBit_andNot a b i

/-- **shift_forgiveness.** `Matches` returns true exactly in the six documented situations; in
    particular Shift is forgiven only by rules 3, 5 and 6 of `matchSpec`. For all keys, runes, masks
    (of any width) and all `unicode` tables. -/
theorem shift_forgiveness (u : Uni) (k : Key) (key : Int) (m : Nat) :
    «matches» u k key m = true ↔ matchSpec u k key m := matches_iff u k key m

/-- **shift_forgiven_only_documented.** When a binding matches although its modifier mask (locks aside)
    differs from the event's, it is by exactly one of the three documented forgiveness rules — the mask
    differs in Shift only, and: (3) the binding names the event's shifted code without Shift; or (5) the
    binding key is a non-letter graphic character that is the event's key or shifted code; or (6) the
    binding is Shift + a lower-case letter that HAS an upper case of its own (since the repair of F209) and
    the event's text is that upper-case letter. -/
theorem shift_forgiven_only_documented (u : Uni) (k : Key) (key : Int) (m : Nat)
    (h : «matches» u k key m = true) (hne : stripLocks m ≠ stripLocks k.mods) :
    unshift (stripLocks m) = unshift (stripLocks k.mods) ∧
    ((k.shifted = key ∧ stripLocks m = unshift (stripLocks k.mods)) ∨
     (u.isLetter key = false ∧ u.isGraphic key = true ∧ (k.keycode = key ∨ k.shifted = key)) ∨
     (stripLocks m &&& shiftBit ≠ 0 ∧ u.isLower key = true ∧ u.toUpper key ≠ key ∧ k.text = strOfRune (u.toUpper key))) := by
  have hs := (matches_iff u k key m).mp h
  unfold matchSpec at hs
  simp only at hs
  rcases hs with ⟨_, hM⟩ | ⟨_, hM⟩ | ⟨h3, hM⟩ | ⟨_, hM⟩ | ⟨h5a, h5b, h5c, hM⟩ | ⟨h6a, h6b, h6c, h6d, hM⟩
  · exact absurd hM hne
  · exact absurd hM hne
  · exact ⟨by rw [hM, unshift_idem], Or.inl ⟨h3, hM⟩⟩
  · exact absurd hM hne
  · exact ⟨hM, Or.inr (Or.inl ⟨h5a, h5b, h5c⟩)⟩
  · exact ⟨hM, Or.inr (Or.inr ⟨h6a, h6b, h6c, h6d⟩)⟩

/-- **match_strong_mods.** A binding matches only if Ctrl, Alt, Super, Hyper and Meta are identical
    in the event and in the binding. -/
theorem match_strong_mods (u : Uni) (k : Key) (key : Int) (m : Nat)
    (h : «matches» u k key m = true) : strong k.mods = strong m := by
  have hc := matchSpec_core ((matches_iff u k key m).mp h)
  have := congrArg strong hc
  rwa [strong_andNot _ _ (by decide), strong_andNot _ _ (by decide)] at this

/-- Stronger form: every bit other than Shift, Caps Lock and Num Lock (including bits beyond the
    eight defined ones) is identical. -/
theorem match_all_but_shift_and_locks (u : Uni) (k : Key) (key : Int) (m : Nat)
    (h : «matches» u k key m = true) (i : Nat) (hi : i ≠ 0 ∧ i ≠ 6 ∧ i ≠ 7) :
    k.mods.testBit i = m.testBit i := by
  have hc := matchSpec_core ((matches_iff u k key m).mp h)
  have := congrArg (·.testBit i) hc
  simp only [testBit_andNot] at this
  have hw : weakMask.testBit i = false := by
    obtain ⟨h0, h6, h7⟩ := hi
    by_cases h8 : i < 8
    · have : i = 1 ∨ i = 2 ∨ i = 3 ∨ i = 4 ∨ i = 5 := by omega
      rcases this with rfl | rfl | rfl | rfl | rfl <;> decide
    · exact Nat.testBit_lt_two_pow (Nat.lt_of_lt_of_le (by decide : weakMask < 2 ^ 8)
        (Nat.pow_le_pow_right (by decide) (by omega)))
  simpa [hw] using this

example : «matches» ⟨fun _ => false, fun _ => false, fun _ => false, fun _ => false, fun _ => false, id, id, fun _ _ => false⟩
    { keycode := 97, mods := ModCtrl ||| ModCapsLock } 97 ModCtrl = true := by decide

/-- **locks_irrelevant.** Toggling Caps Lock and/or Num Lock, in the event or in the binding, never
    changes the result of `Matches`. -/
theorem locks_irrelevant (u : Uni) (k : Key) (key : Int) (m l : Nat)
    (hl : andNot l (capsBit ||| numBit) = 0) :
    «matches» u { k with mods := k.mods ^^^ l } key m = «matches» u k key m ∧
    «matches» u k key (m ^^^ l) = «matches» u k key m := by
  constructor
  · rw [Bool.eq_iff_iff, matches_iff, matches_iff]
    exact matchSpec_congr u k _ key m m rfl (strip_xor_locks _ _ hl) rfl
  · rw [Bool.eq_iff_iff, matches_iff, matches_iff]
    exact matchSpec_congr u k k key m _ rfl rfl (strip_xor_locks _ _ hl)

example : andNot (capsBit ||| numBit) (capsBit ||| numBit) = 0 ∧ andNot capsBit (capsBit ||| numBit) = 0 := by decide

/-! ## Decoding -/

/-- **decode_exact_print.** A printable character (legacy byte or paste): lower-case/other characters
    are themselves; an upper-case letter is Shift + its lower-case; DEL is BackSpace. -/
theorem decode_exact_print (u : Uni) (g : Str) (hg : g ≠ [])
    (h127 : u.isUpper (g.headD 0) = true → u.toLower (g.headD 0) ≠ 127) :
    decodeKey u (.print g) = printExpected u g :=
  decodeKey_print u g hg h127

/-- **decode_exact_c0.** Every C0 byte: BS/HT/CR/ESC are keys, the others are Ctrl chords. -/
theorem decode_exact_c0 (u : Uni) (b : Int) (h0 : 0 ≤ b) (h1 : b < 32) :
    decodeKey u (.c0 b) = c0Expected b :=
  decodeKey_c0 u b h0 h1

/-- **decode_exact_esc.** ESC-prefixed character: Alt + that character (any final); upper-case
    letters are Alt + Shift + the lower-case letter. -/
theorem decode_exact_esc (u : Uni) (final : Int) : decodeKey u (.esc final) = escExpected u final :=
  decodeKey_esc u final

/-- **decode_exact_ss3.** Every SS3 final of the xterm table denotes its key, unmodified. -/
theorem decode_exact_ss3 (u : Uni) :
    ∀ e ∈ ss3Table, decodeKey u (.ss3 e.1) = { keycode := e.2 } := by
  intro e he
  rw [decodeKey_eq]
  have h : ss3Raw e.1 = { keycode := e.2 } := by
    revert e; decide
  rw [decodeRaw_ss3, h]
  exact shiftFix_id _ _ (Or.inr (show stripLocks 0 ≠ shiftBit by decide))

/-- **decode_exact_csi.** Every CSI key report — xterm `CSI 1;m X`, `CSI n;m ~`, kitty `CSI … u` —
    with any combination of the optional fields (shifted code, base-layout code, modifiers, event type,
    text) is decoded to exactly the key, codes, modifier mask, event type and text it carries, plus the
    documented Shift-text work-around.  `number`/`final` denote a functional key of the protocol table
    or (`final = u`, not in the table) the code point of the key itself; all 256 masks (indeed any
    mask), any event value, any text of valid code points. -/
theorem decode_exact_csi (u : Uni) (num fin : Int) (c : Chord) (f : Form)
    (hnum : inRune num) (hsh : inRune c.shifted) (hbase : inRune c.base)
    (htext : ∀ p ∈ c.text, inRune p ∧ validRune p = true)
    (hkey : lookup2 (num, fin) functional = some c.key ∨ (lookup2 (num, fin) functional = none ∧ c.key = num))
    (hZ : ¬(num = 1 ∧ fin = 90)) (hmok : ¬(c.key = 27 ∧ fin = 126)) :
    decodeKey u (kittySeq num fin c f) = kittyExpected u c f := by
  rw [decodeKey_eq, decodeRaw_csi u num fin c f hnum hsh hbase htext ?_ hZ hmok]
  · rfl
  · rw [lookup2_tables_agree specials_is_spec.1 specials_is_spec.2]; exact hkey

example : decodeKey ⟨fun _ => false, fun _ => false, fun _ => false, fun _ => false, fun r => decide (32 ≤ r), (· - 32), id, fun _ _ => false⟩
    (kittySeq 97 117 { key := 97, mods := 1 } { withMods := true }) = { keycode := 97, mods := 1, text := [65] } := by decide

/-- A parameterless `CSI X` is `CSI 1 X`. -/
theorem decode_exact_csi_noparams (u : Uni) (fin key : Int)
    (hkey : lookup2 (1, fin) functional = some key) (hZ : fin ≠ 90) :
    decodeKey u (.csi [] fin) = shiftFix u { keycode := key } := by
  have i0 : inRune 0 := ⟨by decide, by decide⟩
  have h := decode_exact_csi u 1 fin { key := key } {} ⟨by decide, by decide⟩ i0 i0
    (by simp) (Or.inl hkey) (by simp [hZ]) ?_
  · have e : decodeRaw u (.csi [] fin) = decodeRaw u (kittySeq 1 fin { key := key } {}) := rfl
    rw [decodeKey_eq, e, ← decodeKey_eq, h]; rfl
  · intro h
    have h2 : fin = 126 := h.2
    subst h2
    have : lookup2 (1, 126) functional = some KeyHome := by decide
    rw [this] at hkey
    have h1 : key = 27 := h.1
    subst h1
    revert hkey; decide

/-- `CSI Z` is Shift+Tab. -/
theorem decode_exact_shift_tab (u : Uni) :
    decodeKey u (.csi [] 90) = shiftFix u { keycode := KeyTab, mods := shiftBit } := by
  rw [decodeKey_eq]; rfl

/-- xterm's `CSI 27 ; m ; code ~` (modifyOtherKeys) is `code` with modifiers `m - 1`. -/
theorem decode_exact_modify_other_keys (u : Uni) (m : Nat) (code : Int) (hc : inRune code) :
    decodeKey u (.csi [[27], [(m : Int) + 1], [code]] 126) = shiftFix u { keycode := code, mods := m } := by
  rw [decodeKey_eq]
  simp [decodeRaw, csiParams, csiCodes, csiMods, toRune_id code hc.1 hc.2]
  have : lookup2 (27, 126) specialsKeys = none := by decide
  have h27 : toRune 27 = 27 := by decide
  simp [this, h27]

/-! ## The same chord under the legacy and the kitty encoding -/

/-- Table part of `cross_protocol`: for every chord of `xpChords` the xterm legacy protocol expresses
    (384 of 768), every kitty (number, final) denoting the key and every considered field
    combination, the two decoded events are equal up to the text of an unmodified character key. -/
theorem xp_table : (xpChords.all fun ch => xpOK asciiUni ch) = true := by decide +kernel

theorem xp_domain_size :
    (xpChords.filter fun ch => (xtermLegacy ch.1 ch.2.1 ch.2.2 false).isSome).length = 384 := by decide +kernel

/-- **cross_protocol.** A chord that both the xterm legacy protocol and the kitty protocol express
    (every special key and every printable ASCII key × Shift/Alt/Ctrl sets with a single unambiguous
    legacy report; kitty reports carrying the modifiers and — for Shift on a character key — the
    shifted code, with or without event type and text): the events decoded from the two reports have
    the same `String()` and match exactly the same bindings, for **all** binding runes and masks. -/
theorem cross_protocol (ch : Int × Nat × Int) (hch : ch ∈ xpChords) (ckm : Bool) (sL : Seq)
    (hL : xtermLegacy ch.1 ch.2.1 ch.2.2 ckm = some sL)
    (nf : Int × Int) (hnf : nf ∈ kittyCodes ch.1) (ft : Form × Bool) (hft : ft ∈ xpForms ch.1 ch.2.1) :
    let c : Chord := { key := ch.1, mods := ch.2.1, shifted := ch.2.2,
                       text := if ft.2 then [if ch.2.1 &&& 1 ≠ 0 then ch.2.2 else ch.1] else [] }
    let kL := decodeKey asciiUni sL
    let kK := decodeKey asciiUni (kittySeq nf.1 nf.2 c ft.1)
    keyString asciiUni kL = keyString asciiUni kK ∧
    ∀ b m, «matches» asciiUni kL b m = «matches» asciiUni kK b m := by
  have h := List.all_eq_true.mp xp_table ch hch
  obtain ⟨key, mods, shifted⟩ := ch
  simp only [xpOK, List.all_cons, List.all_nil, Bool.and_true, Bool.and_eq_true] at h
  have h' : (match xtermLegacy key mods shifted ckm with
      | none => true
      | some sL => (kittyCodes key).all fun nf => (xpForms key mods).all fun ft =>
          sameForMatching (decodeKey asciiUni sL) (decodeKey asciiUni (kittySeq nf.1 nf.2
            { key := key, mods := mods, shifted := shifted,
              text := if ft.2 then [if mods &&& 1 ≠ 0 then shifted else key] else [] } ft.1))) = true := by
    cases ckm
    · exact h.1
    · exact h.2
  simp only at hL
  rw [hL] at h'
  have h2 := List.all_eq_true.mp (List.all_eq_true.mp h' nf hnf) ft hft
  exact sameForMatching_sound _ _ h2

/-! ## A chord matches its own `String()`

`String()` writes `Meta+Hyper+Super+Ctrl+Alt+Shift+` prefixes and the key's name or rune;
`MatchString` splits on `+`, lower-cases the labels and looks the name up with `EqualFold`.
`AsciiAgree u`: `u.toLower` / `u.foldEq` agree with Go on ASCII runes (all that ASCII names need).
The three table facts are kernel-evaluated over the regenerated `keyNames` / `stringMods` /
`matchStringMods`. -/

/-- Modifier prefixes of `String()` parse back (all 256 masks). -/
theorem prefix_facts : ((List.range 256).all fun m =>
    let S := splitOn 43 (modPrefix m stringMods)
    (S.getLastD [1] == []) && (parseMods asciiUni S.dropLast == m &&& 63) && S.all asciiB &&
    (stripLocks (m &&& 63) == stripLocks m) &&
    ((modPrefix m stringMods == []) || !S.dropLast.isEmpty)) = true := by decide +kernel

/-- Every name of `keyNames` is ASCII, has no '+', at least two runes, and resolves (first match
    under case folding) to the key it is the first name of. -/
theorem name_facts : (keyNames.all fun e =>
    let name := findKeyName e.1 keyNames
    asciiB e.2 && asciiB name && !(name.contains 43) && decide (2 ≤ name.length) &&
    (findName asciiUni name keyNames == some e.1) &&
    (decide (e.1 > maxRune) || [KeyTab, KeySpace, KeyEsc, KeyBackspace, KeyEnter].contains e.1)) = true := by decide +kernel

/-- No name of the table belongs to a character key above space other than DEL. -/
theorem names_not_chars : (keyNames.all fun e => decide (e.1 > maxRune) || decide (e.1 ≤ 32) || decide (e.1 = 127)) = true := by
  decide +kernel

theorem self_match_named (u : Uni) (hu : AsciiAgree u) (k : Key) (e : Int × Str) (he : e ∈ keyNames)
    (hke : e.1 = k.keycode) (hm : k.mods < 256) (hev : k.event ≠ EventRelease) :
    matchString u k (keyString u k) = true := by
  have nf := List.all_eq_true.mp name_facts e he
  simp only [Bool.and_eq_true, Bool.or_eq_true, decide_eq_true_eq, Bool.not_eq_true', beq_iff_eq, hke] at nf
  obtain ⟨⟨⟨⟨⟨_, hascii⟩, hplus⟩, hlen⟩, hfind⟩, hbranch⟩ := nf
  have pf := List.all_eq_true.mp prefix_facts k.mods (List.mem_range.mpr hm)
  simp only [Bool.and_eq_true, beq_iff_eq] at pf
  obtain ⟨⟨⟨⟨hlast, hmask⟩, hSascii⟩, hstrip⟩, _⟩ := pf
  have hbranch' : k.keycode > maxRune ∨ k.keycode ∈ [KeyTab, KeySpace, KeyEsc, KeyBackspace, KeyEnter] := by
    rcases hbranch with h | h
    · exact Or.inl h
    · exact Or.inr (by simpa using h)
  rw [keyString_named u k hev hbranch']
  generalize hname : findKeyName k.keycode keyNames = name at *
  obtain ⟨a, b, rest, rfl⟩ : ∃ a b rest, name = a :: b :: rest := by
    match name, hlen with
    | a :: b :: rest, _ => exact ⟨a, b, rest, rfl⟩
  have hnoplus : (43 : Int) ∉ (a :: b :: rest) := by
    intro hmem
    have : (a :: b :: rest).contains 43 = true := List.contains_iff_mem.mpr hmem
    rw [this] at hplus; cases hplus
  rw [matchString_long, splitOn_append 43 _ hnoplus]
  generalize hS : splitOn 43 (modPrefix k.mods stringMods) = S at *
  have hl : S.getLastD [] = [] := by
    cases S with
    | nil => rfl
    | cons x t => simpa [List.getLastD] using hlast
  rw [hl, List.nil_append, matchFields_concat]
  have hD : (S.dropLast.all asciiB) = true := by
    apply List.all_eq_true.mpr
    intro x hx
    exact List.all_eq_true.mp hSascii x (List.dropLast_subset _ hx)
  rw [findName_congr hu _ hascii keyNames (by
        apply List.all_eq_true.mpr; intro e' he'
        have := List.all_eq_true.mp name_facts e' he'
        simp only [Bool.and_eq_true] at this
        exact this.1.1.1.1.1), hfind, parseMods_congr hu _ hD, hmask]
  rw [matches_iff]
  exact Or.inl ⟨rfl, hstrip⟩

/-- Every unnamed character key above space: any mask < 256, any non-release event, any text and
    codes, any `Uni` agreeing with Go on ASCII — including `+` and Caps Lock with or without text. -/
theorem self_match_char (u : Uni) (hu : AsciiAgree u) (k : Key)
    (hkc : 32 < k.keycode ∧ k.keycode ≠ 127 ∧ validRune k.keycode = true)
    (hm : k.mods < 256) (hev : k.event ≠ EventRelease) :
    matchString u k (keyString u k) = true := by
  obtain ⟨h32, h127, hvk⟩ := hkc
  have hmr : maxRune = 1114111 := rfl
  have hmax : k.keycode ≤ maxRune := by
    simp only [validRune, Bool.and_eq_true, decide_eq_true_eq] at hvk; exact hvk.1.2
  have hun : ∀ e ∈ keyNames, e.1 ≠ k.keycode := by
    intro e he heq
    have := List.all_eq_true.mp names_not_chars e he
    simp only [Bool.or_eq_true, decide_eq_true_eq, heq] at this
    omega
  -- the rune `String()` writes
  let ch : Int := if k.mods &&& ModCapsLock ≠ 0 ∧ k.text = strOfRune (u.toUpper k.keycode) then u.toUpper k.keycode else k.keycode
  obtain ⟨w, hw, hwv⟩ : ∃ w, strOfRune ch = [w] ∧ validRune w = true := by
    unfold strOfRune; split
    · exact ⟨ch, rfl, by assumption⟩
    · exact ⟨0xFFFD, rfl, by decide⟩
  have hks : keyString u k = modPrefix k.mods stringMods ++ [w] := by
    unfold keyString
    have e1 : ¬(k.keycode = KeyTab ∨ k.keycode = KeySpace ∨ k.keycode = KeyEsc ∨ k.keycode = KeyBackspace ∨ k.keycode = KeyEnter) := by
      simp only [KeyTab, KeySpace, KeyEsc, KeyBackspace, KeyEnter]; omega
    have e2 : ¬ k.keycode = 8 := by omega
    have e3 : ¬ k.keycode < 0 := by omega
    have e4 : ¬ k.keycode < 0x20 := by omega
    simp only [hev, ne_eq, not_false_eq_true, if_true, e1, e2, e3, e4, if_false, hmax,
      findKeyName_none _ _ hun, List.append_nil]
    show _ ++ strOfRune ch = _
    rw [hw]
  -- whatever mask with the same non-lock bits: the event matches the written rune
  have hfinal : ∀ mask, stripLocks mask = stripLocks k.mods → «matches» u k w mask = true := by
    intro mask hmk
    rw [matches_iff]
    by_cases hc : k.mods &&& ModCapsLock ≠ 0 ∧ k.text = strOfRune (u.toUpper k.keycode)
    · -- the text is the written rune: rule 2
      have hch : ch = u.toUpper k.keycode := by simp only [ch]; rw [if_pos hc]
      refine Or.inr (Or.inl ⟨?_, hmk⟩)
      rw [hc.2, ← hch, hw]
      simp [strOfRune, hwv]
    · -- the key code is the written rune: rule 1
      have hch : ch = k.keycode := by simp only [ch]; rw [if_neg hc]
      have : w = k.keycode := by
        have := hw; rw [hch] at this; simp [strOfRune, hvk] at this; exact this.symm
      exact Or.inl ⟨this.symm, hmk⟩
  have pf := List.all_eq_true.mp prefix_facts k.mods (List.mem_range.mpr hm)
  simp only [Bool.and_eq_true, Bool.or_eq_true, beq_iff_eq, Bool.not_eq_true', List.isEmpty_eq_false_iff] at pf
  obtain ⟨⟨⟨⟨hlast, hmask⟩, hSascii⟩, hstrip⟩, hDne⟩ := pf
  rw [hks]
  generalize hp : modPrefix k.mods stringMods = p at *
  cases p with
  | nil =>
    have : matchString u k ([] ++ [w]) = «matches» u k w 0 := rfl
    rw [this]
    apply hfinal
    have h0 : parseMods asciiUni (splitOn 43 ([] : Str)).dropLast = 0 := by decide
    rw [h0] at hmask
    rw [← hstrip, ← hmask]
  | cons c p' =>
    have hlong : matchString u k ((c :: p') ++ [w]) = matchFields u k (splitOn 43 ((c :: p') ++ [w])) := by
      cases p' <;> rfl
    have hDne' : (splitOn 43 (c :: p')).dropLast ≠ [] := by
      rcases hDne with h | h
      · cases h
      · exact h
    rw [hlong]
    generalize hS : splitOn 43 (c :: p') = S at *
    have hl : S.getLastD [] = [] := by
      cases S with
      | nil => rfl
      | cons x t => simpa [List.getLastD] using hlast
    have hD : (S.dropLast.all asciiB) = true := by
      apply List.all_eq_true.mpr
      intro x hx
      exact List.all_eq_true.mp hSascii x (List.dropLast_subset _ hx)
    have hSD : S = S.dropLast ++ [[]] :=
      dropLast_concat_of_last S (by rw [← hS]; exact splitOn_ne_nil _ _) hl
    by_cases hplus : w = 43
    · -- the key is '+': the last two fields are empty
      subst hplus
      have : splitOn 43 ((c :: p') ++ [43]) = S ++ [[]] := by rw [splitOn_sep, hS]
      rw [this, hSD]
      have : S.dropLast ++ [[]] ++ [[]] = S.dropLast ++ [[], []] := by simp
      rw [this, matchFields_plus u k _ hDne', parseMods_congr hu _ hD, hmask]
      exact hfinal _ hstrip
    · have hnp : (43 : Int) ∉ [w] := by simp [Ne.symm hplus]
      rw [splitOn_append 43 _ hnp, hS, hl, List.nil_append, matchFields_single, parseMods_congr hu _ hD, hmask]
      exact hfinal _ hstrip

/-- Every `Key*` constant from `KeyUp` to `KeyKeyPadBegin`, and Tab / Enter / Escape / space / DEL,
    has a name in `keyNames`. -/
theorem all_consts_named :
    (((List.range ((KeyKeyPadBegin - KeyUp).toNat + 1)).all fun i => keyNames.any fun e => e.1 == KeyUp + Int.ofNat i) &&
    ([KeyTab, KeyEnter, KeyEsc, KeySpace, KeyBackspace].all fun kc => keyNames.any fun e => e.1 == kc)) = true := by
  decide +kernel

/-- **self_match.** Every pressed chord (press or repeat of a real key, 8-bit modifier mask, any
    text / shifted / base-layout codes) matches its own `String()`. -/
theorem self_match (u : Uni) (hu : AsciiAgree u) (k : Key) (hp : pressedChord k = true) :
    matchString u k (keyString u k) = true := by
  simp only [pressedChord, Bool.and_eq_true, Bool.or_eq_true, decide_eq_true_eq] at hp
  obtain ⟨⟨hreal, hev⟩, hm⟩ := hp
  have hev' : k.event ≠ EventRelease := by
    rcases hev with h | h <;> rw [h] <;> decide
  have hn := all_consts_named
  simp only [Bool.and_eq_true] at hn
  obtain ⟨hrange, halias⟩ := hn
  have alias : ∀ kc ∈ [KeyTab, KeyEnter, KeyEsc, KeySpace, KeyBackspace], k.keycode = kc → matchString u k (keyString u k) = true := by
    intro kc hkc heq
    obtain ⟨e, he, hek⟩ := named_of_any (List.all_eq_true.mp halias kc hkc)
    exact self_match_named u hu k e he (by rw [hek, heq]) hm hev'
  simp only [realKey, Bool.or_eq_true, Bool.and_eq_true, decide_eq_true_eq] at hreal
  rcases hreal with (((⟨h32, hv⟩ | h) | h) | h) | ⟨hlo, hhi⟩
  · by_cases hs : k.keycode = 32
    · exact alias KeySpace (by simp) hs
    · by_cases hd : k.keycode = 127
      · exact alias KeyBackspace (by simp) hd
      · exact self_match_char u hu k ⟨by omega, hd, hv⟩ hm hev'
  · exact alias KeyTab (by simp) h
  · exact alias KeyEnter (by simp) h
  · exact alias KeyEsc (by simp) h
  · have hi : (k.keycode - KeyUp).toNat < (KeyKeyPadBegin - KeyUp).toNat + 1 := by omega
    have := List.all_eq_true.mp hrange _ (List.mem_range.mpr hi)
    obtain ⟨e, he, hek⟩ := named_of_any this
    refine self_match_named u hu k e he ?_ hm hev'
    rw [hek]; simp only [Int.ofNat_eq_natCast]; omega

example : AsciiAgree asciiUni := ⟨fun _ _ _ => rfl, fun _ _ _ _ _ _ => rfl⟩
example : pressedChord { keycode := 97, mods := capsBit ||| hyperBit, event := EventRepeat } = true := by decide

end VaxisModel.Props.C09
