/-
C09 — Key decoding and binding matching are exact and protocol-independent.
Property theorems only (helper lemmas live in Lemmas/KeyMatch.lean).
-/
import VaxisModel.Model.Key
import VaxisModel.Spec.KeyEnc

namespace VaxisModel.Props.C09
open VaxisModel.Model.Key VaxisModel.Spec.KeyEnc VaxisModel.Gen.Keys

/-- The table in key.go denotes exactly the keys the protocol documents say (both directions). -/
theorem specials_is_spec :
    (specialsKeys.all fun e => lookup2 e.1 functional = some e.2) = true ∧
    (functional.all fun e => lookup2 e.1 specialsKeys = some e.2) = true := by
  constructor <;> decide +kernel

end VaxisModel.Props.C09
