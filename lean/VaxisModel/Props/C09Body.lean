/-
C09 — structural tie of the four function bodies of key.go to the model.

`Gen/KeyBody.lean` is regenerated from /repo on every run: the bodies of `Key.Matches`,
`Key.MatchString`, `Key.String` and `decodeKey` as terms of the Go-body language
(`Model/GoBody.lean`): the order of the `if` / `switch` arms, every guard as an expression over
modifier bits / key fields / `unicode` calls, what each arm assigns, writes or returns.

* `key_bodies_fully_recognised`: the extractor translated every node (no `.unknown`).
* `matches_body_eq_model`: the *interpreted* extracted body of `Key.Matches` (`Model/KeyBody.lean`,
  the definition the driver also runs against the implementation on every case) coincides with the
  hand-written model for all inputs — a semantic tie: swapping two rules that changes nothing
  still proves, dropping a modifier from a guard or turning `&&` into `||` does not.
* `string_body_eq_model`, `decodeKey_body_eq_model` (+ per-arm corollaries), `matchString_body_eq_model`:
  the same semantic tie for `Key.String`, `decodeKey` and `Key.MatchString`, for all inputs.  The bodies
  are evaluated statement by statement over an abstract environment (`Lemmas/KeyBodyEval*.lean`); the
  `for … range` loops over symbolic lists (`keyNames`, the CSI sub-parameter lists, the fields of
  `strings.Split`) are related to the recursive helpers of the hand model (`findKeyName`, `findName`,
  `csiCodes`, `csiMods`, `csiParams`, `parseMods`) by induction on the list.  The decomposition of each
  body into its statements is checked by `rfl` against the regenerated `Gen` term, so any change of the
  source's decision structure breaks the theorem.
* `facts_*_body`: the extracted terms equal the frozen copies of `Lemmas/KeyBodyPin.lean` (kept; now
  subsumed by the `*_body_eq_model` theorems).
-/
import VaxisModel.Model.KeyBody
import VaxisModel.Lemmas.KeyBodyPin
import VaxisModel.Lemmas.GoInterp
import VaxisModel.Lemmas.KeyBodyEvalString
import VaxisModel.Lemmas.KeyBodyEvalDecode
import VaxisModel.Lemmas.KeyBodyEvalMatch
import VaxisModel.Lemmas.KeyBodyEvalMatches

namespace VaxisModel.Props.C09Body
open VaxisModel.Model.GoBody VaxisModel.Model.GoInterp VaxisModel.Model.Key VaxisModel.Model.KeyBody
open VaxisModel.Gen.Keys VaxisModel.Lemmas.GoInterp

theorem const_ModShift : List.lookup "ModShift" keyConstEnv = some (.int (1 : Nat)) := rfl
theorem const_ModCapsLock : List.lookup "ModCapsLock" keyConstEnv = some (.int (64 : Nat)) := rfl
theorem const_ModNumLock : List.lookup "ModNumLock" keyConstEnv = some (.int (128 : Nat)) := rfl

def exUni : Uni := ⟨fun _ => false, fun _ => false, fun _ => false, fun _ => false, fun _ => false, id, id, fun _ _ => false⟩

/-- Every node of the four bodies was translated (nothing degraded to `.unknown`). -/
theorem key_bodies_fully_recognised :
    (VaxisModel.Gen.KeyBody.matchesBody.clean && VaxisModel.Gen.KeyBody.matchStringBody.clean &&
     VaxisModel.Gen.KeyBody.stringBody.clean && VaxisModel.Gen.KeyBody.decodeKeyBody.clean) = true ∧
    VaxisModel.Gen.KeyBody.unknownCount = 0 := by decide

theorem facts_matchString_body : VaxisModel.Gen.KeyBody.matchStringBody = VaxisModel.Lemmas.KeyBodyPin.matchStringBody := rfl
theorem facts_string_body : VaxisModel.Gen.KeyBody.stringBody = VaxisModel.Lemmas.KeyBodyPin.stringBody := rfl
theorem facts_decodeKey_body : VaxisModel.Gen.KeyBody.decodeKeyBody = VaxisModel.Lemmas.KeyBodyPin.decodeKeyBody := rfl

/-! ## The interpreted extracted bodies are the hand-written model -/

set_option maxHeartbeats 400000 in
set_option maxRecDepth 4000 in
set_option linter.unusedSimpArgs false in
/-- **matches_body_eq_model.** Running the body of `Key.Matches` as extracted from key.go on this
    run gives, for every `unicode` oracle, key event, binding rune and mask, exactly the value of the
    hand-written `Model.Key.matches` — so `shift_forgiveness`, `match_strong_mods`,
    `locks_irrelevant`, … are theorems about the code's own decision structure (the order of the six
    rules, every guard, the three `&^` chains). -/
theorem matches_body_eq_model (u : Uni) (k : Key) (key : Int) (m : Nat) :
    matchesGen u k key m = some («matches» u k key m) := by
  unfold matchesGen VaxisModel.Gen.KeyBody.matchesBody
  simp only [Ss.ofList, Es.ofList, execSs, execS, lhsNames, evalEs, evalE, VaxisModel.Model.GoInterp.bind, keyFields, zeroOf, rangeItems, loop,
    assignVals, hasErr, bindAll, List.lookup, List.map, List.append, String.reduceEq, String.reduceBEq, String.reduceAppend, ctx, noFuncs,
    reduceIte, or_false, false_or, or_self, List.length, Option.map, List.cons_append, List.nil_append,
    andThen_norm, andThen_ret, andThen_err, andThen_ite, branch_bool, binop_land, binop_eq_int, binop_eq_str, binop_ne_int, binop_band, binop_bor, binop_andNot, unop_not,
    Bool.false_eq_true, callFn_string, callFn_isLetter, callFn_isGraphic, callFn_isLower, callFn_toUpper, const_ModShift, const_ModCapsLock, const_ModNumLock,
    Int.toNat_natCast, Int.toNat_zero, Nat.zero_or, retBool_ite, retBool_ret]
  unfold «matches»
  simp only [some_ite, Bool.and_eq_true, decide_eq_true_eq, Int.natCast_inj, ModCapsLock, ModNumLock, ModShift, Bool.not_eq_true', bne_iff_ne, ne_eq, Bool.not_eq_eq_eq_not, Bool.not_true, decide_eq_false_iff_not]
  simp only [Int.natCast_eq_zero]
  repeat' split
  all_goals (first | rfl | grind)

example : matchesGen VaxisModel.Props.C09Body.exUni { keycode := 97, mods := 5 } 97 5 = some true := by decide +kernel

set_option maxHeartbeats 400000 in
set_option maxRecDepth 4000 in
set_option linter.unusedSimpArgs false in
/-- **matches_body_variadic_0.** `k.Matches(key)` — no modifier argument — is the model with the empty mask (the
    `for _, mod := range modifiers` loop of the extracted body runs zero times). -/
theorem matches_body_variadic_0 (u : Uni) (k : Key) (key : Int) :
    matchesGenL u k key [] = some («matches» u k key 0) := by
  unfold matchesGenL VaxisModel.Gen.KeyBody.matchesBody
  simp only [Ss.ofList, Es.ofList, execSs, execS, lhsNames, evalEs, evalE, VaxisModel.Model.GoInterp.bind, keyFields, zeroOf, rangeItems, loop,
    assignVals, hasErr, bindAll, List.lookup, List.map, List.append, String.reduceEq, String.reduceBEq, String.reduceAppend, ctx, noFuncs,
    reduceIte, or_false, false_or, or_self, List.length, Option.map, List.cons_append, List.nil_append,
    andThen_norm, andThen_ret, andThen_err, andThen_ite, branch_bool, binop_land, binop_eq_int, binop_eq_str, binop_ne_int, binop_band, binop_bor, binop_andNot, unop_not,
    Bool.false_eq_true, callFn_string, callFn_isLetter, callFn_isGraphic, callFn_isLower, callFn_toUpper, const_ModShift, const_ModCapsLock, const_ModNumLock,
    Int.toNat_natCast, Int.toNat_zero, Nat.zero_or, retBool_ite, retBool_ret]
  unfold «matches»
  simp only [some_ite, Bool.and_eq_true, decide_eq_true_eq, Int.natCast_inj, ModCapsLock, ModNumLock, ModShift, Bool.not_eq_true', bne_iff_ne, ne_eq, Bool.not_eq_eq_eq_not, Bool.not_true, decide_eq_false_iff_not]
  simp only [Int.natCast_eq_zero]
  repeat' split
  all_goals (first | rfl | grind)

set_option maxHeartbeats 400000 in
set_option maxRecDepth 4000 in
set_option linter.unusedSimpArgs false in
/-- **matches_body_variadic_2.** `k.Matches(key, m1, m2)` is the model with the mask `m1 ||| m2`: the loop of the
    extracted body ORs the variadic arguments (two iterations). -/
theorem matches_body_variadic_2 (u : Uni) (k : Key) (key : Int) (m1 m2 : Nat) :
    matchesGenL u k key [m1, m2] = some («matches» u k key (m1 ||| m2)) := by
  unfold matchesGenL VaxisModel.Gen.KeyBody.matchesBody
  simp only [Ss.ofList, Es.ofList, execSs, execS, lhsNames, evalEs, evalE, VaxisModel.Model.GoInterp.bind, keyFields, zeroOf, rangeItems, loop,
    assignVals, hasErr, bindAll, List.lookup, List.map, List.append, String.reduceEq, String.reduceBEq, String.reduceAppend, ctx, noFuncs,
    reduceIte, or_false, false_or, or_self, List.length, Option.map, List.cons_append, List.nil_append,
    andThen_norm, andThen_ret, andThen_err, andThen_ite, branch_bool, binop_land, binop_eq_int, binop_eq_str, binop_ne_int, binop_band, binop_bor, binop_andNot, unop_not,
    Bool.false_eq_true, callFn_string, callFn_isLetter, callFn_isGraphic, callFn_isLower, callFn_toUpper, const_ModShift, const_ModCapsLock, const_ModNumLock,
    Int.toNat_natCast, Int.toNat_zero, Nat.zero_or, retBool_ite, retBool_ret]
  unfold «matches»
  simp only [some_ite, Bool.and_eq_true, decide_eq_true_eq, Int.natCast_inj, ModCapsLock, ModNumLock, ModShift, Bool.not_eq_true', bne_iff_ne, ne_eq, Bool.not_eq_eq_eq_not, Bool.not_true, decide_eq_false_iff_not]
  simp only [Int.natCast_eq_zero]
  repeat' split
  all_goals (first | rfl | grind)

/-- The one-argument case is `matches_body_eq_model`. -/
theorem matches_body_variadic_1 (u : Uni) (k : Key) (key : Int) (m : Nat) :
    matchesGenL u k key [m] = some («matches» u k key m) := matches_body_eq_model u k key m

/-- **matches_body_variadic.** `k.Matches(key, ms...)` for a variadic list of ANY length is the model with the
    mask `ms.foldl (· ||| ·) 0`: the `for _, mod := range modifiers { mods |= mod }` loop of the extracted body
    ORs the arguments (induction on the list; the environment after the loop has a length that depends on
    `ms`, so the six rules are evaluated over an abstract environment, `Lemmas/KeyBodyEvalMatches.lean`). -/
theorem matches_body_variadic (u : Uni) (k : Key) (key : Int) (ms : List Nat) :
    matchesGenL u k key ms = some («matches» u k key (ms.foldl (· ||| ·) 0)) :=
  VaxisModel.Lemmas.KeyBodyEval.matches_body_variadic_eq u k key ms

example : matchesGenL VaxisModel.Props.C09Body.exUni { keycode := 97, mods := 7 } 97 [1, 2, 4] = some true := by
  rw [matches_body_variadic]; decide +kernel

/-- **string_body_eq_model.** Running the body of `Key.String` as extracted from key.go on this run
    (the six modifier prefixes, the switch on the key code, the loop over `keyNames`) gives, for every
    `unicode` oracle and key event, exactly the hand-written `Model.Key.keyString`. -/
theorem string_body_eq_model (u : Uni) (k : Key) : keyStringGen u k = some (keyString u k) :=
  VaxisModel.Lemmas.KeyBodyEval.string_body_eq u k

example : keyStringGen VaxisModel.Props.C09Body.exUni { keycode := 97, mods := 5 } = some [67, 116, 114, 108, 43, 83, 104, 105, 102, 116, 43, 97] := by
  rw [string_body_eq_model]; decide +kernel

/-- **decodeKey_body_eq_model.** Running the body of `decodeKey` as extracted from key.go on this run
    (the type switch over the five sequence kinds, the C0 / SS3 case tables, the three nested
    `for … range` loops over the CSI sub-parameters with the `specialsKeys` map, the Shift-text
    work-around) gives, for every `unicode` oracle and every parsed sequence, exactly the hand-written
    `Model.Key.decodeKey`.  `seqIsRune`: the payload of an `ansi.C0` / `ansi.SS3` is a Go `rune`
    (`type C0 rune`), i.e. fixed by the conversion `rune(seq)` the body applies; it is `True` for the
    other three kinds (CSI parameters are arbitrary `int`s, the model wraps them with `toRune` as the
    code does). -/
theorem decodeKey_body_eq_model (u : Uni) (s : Seq) (h : VaxisModel.Lemmas.KeyBodyEval.seqIsRune s) :
    decodeKeyGen u s = some (decodeKey u s) :=
  VaxisModel.Lemmas.KeyBodyEval.decodeKey_body_eq u s h

theorem decodeKey_body_eq_model_print (u : Uni) (g : Str) : decodeKeyGen u (.print g) = some (decodeKey u (.print g)) :=
  decodeKey_body_eq_model u _ trivial
theorem decodeKey_body_eq_model_esc (u : Uni) (f : Int) : decodeKeyGen u (.esc f) = some (decodeKey u (.esc f)) :=
  decodeKey_body_eq_model u _ trivial
theorem decodeKey_body_eq_model_csi (u : Uni) (params : List (List Int)) (f : Int) :
    decodeKeyGen u (.csi params f) = some (decodeKey u (.csi params f)) :=
  decodeKey_body_eq_model u _ trivial
theorem decodeKey_body_eq_model_c0 (u : Uni) (b : Int) (h0 : -2147483648 ≤ b) (h1 : b < 2147483648) :
    decodeKeyGen u (.c0 b) = some (decodeKey u (.c0 b)) :=
  decodeKey_body_eq_model u _ (by show toRune b = b; unfold toRune; omega)
theorem decodeKey_body_eq_model_ss3 (u : Uni) (b : Int) (h0 : -2147483648 ≤ b) (h1 : b < 2147483648) :
    decodeKeyGen u (.ss3 b) = some (decodeKey u (.ss3 b)) :=
  decodeKey_body_eq_model u _ (by show toRune b = b; unfold toRune; omega)

example : VaxisModel.Lemmas.KeyBodyEval.seqIsRune (.c0 13) := by show toRune 13 = 13; decide
example : decodeKeyGen VaxisModel.Props.C09Body.exUni (.csi [[97, 65], [6, 2]] 117) =
    some { keycode := 97, shifted := 65, mods := 5, event := 1 } := by decide +kernel
/-- outside the `rune` range a `Seq.c0 b` is not a Go value: the body's `rune(seq)` wraps, the hand model does not -/
example : decodeKeyGen VaxisModel.Props.C09Body.exUni (.c0 4294967304) ≠ some (decodeKey VaxisModel.Props.C09Body.exUni (.c0 4294967304)) := by
  decide +kernel

/-- **matchString_body_eq_model.** Running the body of `Key.MatchString` as extracted from key.go on
    this run (the one-rune shortcut, `strings.Split`, the `"Ctrl++"` adjustment on the last two fields,
    the modifier loop, the second one-rune shortcut, the `EqualFold` loop over `keyNames`, the
    first-rune fallback) — with its calls `k.Matches(…)` run through the interpreted body of
    `Key.Matches` — gives, for every `unicode` oracle, key event and binding string, exactly the
    hand-written `Model.Key.matchString`. -/
theorem matchString_body_eq_model (u : Uni) (k : Key) (tgt : Str) :
    matchStringGen u k tgt = some (matchString u k tgt) :=
  VaxisModel.Lemmas.KeyBodyEval.matchString_body_eq u k (fun key m => matches_body_eq_model u k key m) tgt

-- "ctrl+a" against Ctrl+a (`exUni.toLower` is the identity)
example : matchStringGen VaxisModel.Props.C09Body.exUni { keycode := 97, mods := 4 } [99, 116, 114, 108, 43, 97] = some true := by
  decide +kernel

end VaxisModel.Props.C09Body
