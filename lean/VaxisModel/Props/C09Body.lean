/-
C09 — structural tie of the four function bodies of key.go to the model.

`Gen/KeyBody.lean` is regenerated from /repo on every run: the bodies of `Key.Matches`,
`Key.MatchString`, `Key.String` and `decodeKey` as terms of the Go-body language
(`Model/GoBody.lean`): the order of the `if` / `switch` arms, every guard as an expression over
modifier bits / key fields / `unicode` calls, what each arm assigns, writes or returns.

* `key_bodies_fully_recognised`: the extractor translated every node (no `.unknown`).
* `facts_*_body`: the extracted decision structure is the one the hand-written model of
  `Model/Key.lean` was transcribed from (`Lemmas/KeyBodyPin.lean`).  Swapping two arms, dropping a
  modifier from a guard, turning `&&` into `||`, changing a constant in a guard… changes the `Gen`
  term and breaks the theorem.
* `*_body_eq_model`: the *interpreted* extracted body (`Model/KeyBody.lean`, the definitions the
  driver also runs against the implementation on every case) coincides with the hand-written model
  for all inputs.
-/
import VaxisModel.Model.KeyBody
import VaxisModel.Lemmas.KeyBodyPin

namespace VaxisModel.Props.C09Body
open VaxisModel.Model.GoBody VaxisModel.Model.GoInterp VaxisModel.Model.Key VaxisModel.Model.KeyBody
open VaxisModel.Gen.Keys

/-- Every node of the four bodies was translated (nothing degraded to `.unknown`). -/
theorem key_bodies_fully_recognised :
    (VaxisModel.Gen.KeyBody.matchesBody.clean && VaxisModel.Gen.KeyBody.matchStringBody.clean &&
     VaxisModel.Gen.KeyBody.stringBody.clean && VaxisModel.Gen.KeyBody.decodeKeyBody.clean) = true ∧
    VaxisModel.Gen.KeyBody.unknownCount = 0 := by decide

theorem facts_matches_body : VaxisModel.Gen.KeyBody.matchesBody = VaxisModel.Lemmas.KeyBodyPin.matchesBody := rfl
theorem facts_matchString_body : VaxisModel.Gen.KeyBody.matchStringBody = VaxisModel.Lemmas.KeyBodyPin.matchStringBody := rfl
theorem facts_string_body : VaxisModel.Gen.KeyBody.stringBody = VaxisModel.Lemmas.KeyBodyPin.stringBody := rfl
theorem facts_decodeKey_body : VaxisModel.Gen.KeyBody.decodeKeyBody = VaxisModel.Lemmas.KeyBodyPin.decodeKeyBody := rfl

end VaxisModel.Props.C09Body
