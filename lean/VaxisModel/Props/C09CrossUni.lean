/-
C09 — `cross_protocol` (384 chords both protocols express × kitty codes × field combinations; table kernel-evaluated
for Go's ASCII tables) lifted to EVERY `unicode` oracle that agrees with Go on ASCII and on the key codes above the
Unicode range (`AgreeOnKeys`) and satisfies the table law `UpperHasLower`: the decoder consults the oracle only at the
runes of the report (`Lemmas/KeyCongr.lean`), those are ASCII runes or key codes for every chord of the domain
(`xp_dom`, kernel-evaluated), and the criterion `sameForMatching` is sound for such an oracle.  Only theorems + examples.
-/
import VaxisModel.Props.C09
import VaxisModel.Lemmas.KeyUni
import VaxisModel.Lemmas.KeyCongr

namespace VaxisModel.Props.C09CrossUni
open VaxisModel.Model.Key VaxisModel.Spec.KeyEnc VaxisModel.Gen.Keys
open VaxisModel.Lemmas.KeyMatch VaxisModel.Lemmas.KeyDecode VaxisModel.Lemmas.KeyCross VaxisModel.Lemmas.KeyUni
open VaxisModel.Lemmas.KeyCongr VaxisModel.Props.C09

/-- The runes one decoded report makes the model ask the oracle about. -/
def seqDomOK (s : Seq) : Bool :=
  inKeyDom (seqHead s) && inKeyDom (decodeRaw asciiUni s).keycode && inKeyDom (decodeRaw asciiUni s).shifted &&
  inKeyDom (decodeKey asciiUni s).keycode

/-- Same shape as `xpOK`: both reports of every chord / code / form only involve ASCII runes and key codes. -/
def xpDomOK (ch : Int × Nat × Int) : Bool :=
  let (key, mods, shifted) := ch
  [false, true].all fun ckm =>
    match xtermLegacy key mods shifted ckm with
    | none => true
    | some sL =>
      (kittyCodes key).all fun nf => (xpForms key mods).all fun ft =>
        let c : Chord := { key := key, mods := mods, shifted := shifted,
                           text := if ft.2 then [if mods &&& 1 ≠ 0 then shifted else key] else [] }
        seqDomOK sL && seqDomOK (kittySeq nf.1 nf.2 c ft.1)

theorem xp_dom : (xpChords.all fun ch => xpDomOK ch) = true := by decide +kernel

theorem decodeKey_of_dom (u : Uni) (H : AgreeOnKeys u) (s : Seq) (h : seqDomOK s = true) :
    decodeKey u s = decodeKey asciiUni s ∧ AgreeAt u asciiUni (decodeKey asciiUni s).keycode := by
  simp only [seqDomOK, Bool.and_eq_true] at h
  obtain ⟨⟨⟨h1, h2⟩, h3⟩, h4⟩ := h
  exact ⟨decodeKey_congr u asciiUni s (H _ h1) (H _ h2) (H _ h3), H _ h4⟩

/-- The ASCII criterion is sound for every oracle that agrees with Go at the key and satisfies the law. -/
theorem sameForMatching_sound_agree (u : Uni) (hlaw : UpperHasLower u) (k1 k2 : Key)
    (ha : AgreeAt u asciiUni k1.keycode) (h : sameForMatching k1 k2 = true) :
    keyString u k1 = keyString u k2 ∧ ∀ b m, «matches» u k1 b m = «matches» u k2 b m := by
  simp only [sameForMatching, Bool.and_eq_true, Bool.or_eq_true, beq_iff_eq, Bool.not_eq_true',
    Bool.and_eq_false_imp, decide_eq_true_eq, decide_eq_false_iff_not] at h
  obtain ⟨⟨⟨⟨⟨hk, hs⟩, hb⟩, hm⟩, he⟩, ht⟩ := h
  refine sameForMatching_sound_uni u k1 k2 hk hs hb hm he ?_
  rcases ht with ht | ⟨⟨⟨⟨⟨hm0, ht1⟩, ht2⟩, hv⟩, hfffd⟩, hup⟩
  · exact Or.inl ht
  · refine Or.inr ⟨hm0, ht1, ht2, hv, by simpa using hfffd, ?_⟩
    intro r hl hne heq
    have hlow : u.toLower k1.keycode = k1.keycode := by
      rw [ha.toLower]
      simp only [asciiUni]
      split
      · rename_i hc; exact absurd hc.2 (by intro h2; exact absurd (hup hc.1) (by simpa using h2))
      · rfl
    have := hlaw r hl hne
    rw [heq] at this
    exact this hlow

/-- **cross_protocol_any_uni.** `cross_protocol` for every `unicode` oracle `u` that agrees with Go on ASCII and on
    the key codes and satisfies `UpperHasLower` (both checked on Go's own tables at run time: ops `hypk` of C13 / `hypa`,
    `hypl` of C09): a chord both protocols express, decoded from its legacy report and from any of its kitty reports,
    has the same `String()` and matches exactly the same bindings — all binding runes of all scripts, all masks. -/
theorem cross_protocol_any_uni (u : Uni) (H : AgreeOnKeys u) (hlaw : UpperHasLower u)
    (ch : Int × Nat × Int) (hch : ch ∈ xpChords) (ckm : Bool) (sL : Seq)
    (hL : xtermLegacy ch.1 ch.2.1 ch.2.2 ckm = some sL)
    (nf : Int × Int) (hnf : nf ∈ kittyCodes ch.1) (ft : Form × Bool) (hft : ft ∈ xpForms ch.1 ch.2.1) :
    let c : Chord := { key := ch.1, mods := ch.2.1, shifted := ch.2.2,
                       text := if ft.2 then [if ch.2.1 &&& 1 ≠ 0 then ch.2.2 else ch.1] else [] }
    let kL := decodeKey u sL
    let kK := decodeKey u (kittySeq nf.1 nf.2 c ft.1)
    keyString u kL = keyString u kK ∧ ∀ b m, «matches» u kL b m = «matches» u kK b m := by
  have h := List.all_eq_true.mp xp_table ch hch
  have hd := List.all_eq_true.mp xp_dom ch hch
  obtain ⟨key, mods, shifted⟩ := ch
  simp only [xpOK, List.all_cons, List.all_nil, Bool.and_true, Bool.and_eq_true] at h
  simp only [xpDomOK, List.all_cons, List.all_nil, Bool.and_true, Bool.and_eq_true] at hd
  have h' : (match xtermLegacy key mods shifted ckm with
      | none => true
      | some sL => (kittyCodes key).all fun nf => (xpForms key mods).all fun ft =>
          sameForMatching (decodeKey asciiUni sL) (decodeKey asciiUni (kittySeq nf.1 nf.2
            { key := key, mods := mods, shifted := shifted,
              text := if ft.2 then [if mods &&& 1 ≠ 0 then shifted else key] else [] } ft.1))) = true := by
    cases ckm
    · exact h.1
    · exact h.2
  have hd' : (match xtermLegacy key mods shifted ckm with
      | none => true
      | some sL => (kittyCodes key).all fun nf => (xpForms key mods).all fun ft =>
          seqDomOK sL && seqDomOK (kittySeq nf.1 nf.2
            { key := key, mods := mods, shifted := shifted,
              text := if ft.2 then [if mods &&& 1 ≠ 0 then shifted else key] else [] } ft.1)) = true := by
    cases ckm
    · exact hd.1
    · exact hd.2
  simp only at hL
  rw [hL] at h' hd'
  have h2 := List.all_eq_true.mp (List.all_eq_true.mp h' nf hnf) ft hft
  have hd2 := List.all_eq_true.mp (List.all_eq_true.mp hd' nf hnf) ft hft
  simp only [Bool.and_eq_true] at hd2
  obtain ⟨e1, a1⟩ := decodeKey_of_dom u H _ hd2.1
  obtain ⟨e2, _⟩ := decodeKey_of_dom u H _ hd2.2
  intro c kL kK
  show keyString u (decodeKey u sL) = keyString u (decodeKey u (kittySeq nf.1 nf.2 c ft.1)) ∧
    ∀ b m, «matches» u (decodeKey u sL) b m = «matches» u (decodeKey u (kittySeq nf.1 nf.2 c ft.1)) b m
  rw [e1, e2]
  exact sameForMatching_sound_agree u hlaw _ _ a1 h2

example : AgreeOnKeys asciiUni ∧ UpperHasLower asciiUni := by
  refine ⟨fun _ _ => ⟨rfl, rfl, rfl, rfl, rfl, rfl, rfl⟩, ?_⟩
  intro r hl hne
  simp only [asciiUni, decide_eq_true_eq] at hl hne ⊢
  simp only [hl, and_self, if_true]
  split <;> omega

end VaxisModel.Props.C09CrossUni
