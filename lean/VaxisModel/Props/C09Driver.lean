/-
C09: the hypothesis `hdom` of `cross_protocol_char_plain_checked` ("the table lists every lower-case rune of
`u`") discharged for the `Uni` the driver builds from the rows the harness sends (`Driver.C09.mkUni`): outside
the table every class flag is `false` by construction.  So every `hyp plain … ok` line of a run is, without
further assumption about the driver, an instance of `cross_protocol_char_plain` for the driver's `Uni`.
-/
import VaxisModel.Props.C09Uni
import VaxisModel.Driver.C09
import VaxisModel.Spec.KeyEvent

namespace VaxisModel.Props.C09Driver
open VaxisModel.Model.Key VaxisModel.Spec.KeyEnc VaxisModel.Spec.KeyEncUni VaxisModel.Gen.Keys
open VaxisModel.Driver.C09 (URow mkUni findRow upperHasLowerBad)

theorem findRow_none (t : List URow) (r : Int) (h : r ∉ t.map (·.r)) : findRow t r = none := by
  unfold findRow
  rw [List.find?_eq_none]
  intro row hrow hr
  simp only [beq_iff_eq] at hr
  exact h (by rw [← hr]; exact List.mem_map_of_mem hrow)

/-- **driver_uni_hdom.** Outside its table the driver's `Uni` has no lower-case (nor upper-case, letter,
    graphic, printable) rune, and `ToUpper` / `ToLower` are the identity. -/
theorem driver_uni_hdom (t : List URow) (folds : List (Int × Int)) (r : Int) (h : r ∉ t.map (·.r)) :
    (mkUni t folds).isLower r = false ∧ (mkUni t folds).isUpper r = false ∧ (mkUni t folds).isPrint r = false ∧
    (mkUni t folds).toUpper r = r ∧ (mkUni t folds).toLower r = r := by
  simp [mkUni, findRow_none t r h]

/-- **cross_protocol_char_plain_driver.** `cross_protocol_char_plain_checked` for the driver's `Uni`, with
    the table's runes as the domain: no hypothesis left but the evaluator's verdict. -/
theorem cross_protocol_char_plain_driver (t : List URow) (folds : List (Int × Int)) (c : Int) (f : Form)
    (hf : f.withShifted = false ∧ f.withBase = false)
    (hok : violated (hypPlain (mkUni t folds) (t.map (·.r)) c f.withText) = []) :
    let u := mkUni t folds
    let kL := decodeKey u (.print [c])
    let kK := decodeKey u (kittySeq c 117 { key := c, text := [c] } f)
    keyString u kL = keyString u kK ∧ ∀ b m, «matches» u kL b m = «matches» u kK b m :=
  VaxisModel.Props.C09Uni.cross_protocol_char_plain_checked (mkUni t folds) (t.map (·.r)) c f hf
    (fun r hr => (driver_uni_hdom t folds r hr).1) hok

example : findRow [{ r := 97, flags := 30, up := 65, lo := 97 }] 223 = none := by decide

/-- **driver_uni_upper_has_lower.** The `hypl` op: when the driver's evaluation over the rows finds no violating row, the
    law `UpperHasLower` (hypothesis of `C09Sound.cross_protocol_char_plain_keycode`) holds of the `Uni` the driver builds
    from those rows — for every rune, listed or not (outside the table nothing is lower-case). -/
theorem driver_uni_upper_has_lower (t : List URow) (folds : List (Int × Int)) (h : upperHasLowerBad t = []) :
    UpperHasLower (mkUni t folds) := by
  intro r hl hne
  simp only [mkUni] at hl hne ⊢
  cases hr : findRow t r with
  | none => simp [hr] at hl
  | some row =>
    simp only [hr] at hl hne ⊢
    have hmem : row ∈ t := List.mem_of_find?_eq_some hr
    have hrr : row.r = r := by have := List.find?_some hr; simpa using this
    have hnot : row ∉ upperHasLowerBad t := by rw [h]; simp
    unfold upperHasLowerBad at hnot
    rw [List.mem_filter] at hnot
    have hflag : (row.flags / 2 % 2 == 1) = true := hl
    have hup : (row.up != row.r) = true := by
      simp only [bne_iff_ne, ne_eq]; rw [hrr]; exact hne
    cases hU : findRow t row.up with
    | none => exact absurd ⟨hmem, by simp [hflag, hup, hU]⟩ hnot
    | some U =>
      have hUr : U.r = row.up := by have := List.find?_some hU; simpa using this
      have hlo : U.lo ≠ U.r := by
        intro heq
        exact hnot ⟨hmem, by simp [hflag, hup, hU, heq]⟩
      simp only []
      rw [← hUr]; exact hlo

end VaxisModel.Props.C09Driver
