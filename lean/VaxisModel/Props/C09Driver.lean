/-
C09: the hypothesis `hdom` of `cross_protocol_char_plain_checked` ("the table lists every lower-case rune of
`u`") discharged for the `Uni` the driver builds from the rows the harness sends (`Driver.C09.mkUni`): outside
the table every class flag is `false` by construction.  So every `hyp plain … ok` line of a run is, without
further assumption about the driver, an instance of `cross_protocol_char_plain` for the driver's `Uni`.
-/
import VaxisModel.Props.C09Uni
import VaxisModel.Driver.C09
import VaxisModel.Spec.KeyEvent
import VaxisModel.Lemmas.KeyCongr
import VaxisModel.Lemmas.KeySelf

namespace VaxisModel.Props.C09Driver
open VaxisModel.Model.Key VaxisModel.Spec.KeyEnc VaxisModel.Spec.KeyEncUni VaxisModel.Gen.Keys
open VaxisModel.Driver.C09 (URow mkUni findRow upperHasLowerBad agreeOnKeysBad asciiAgreeOn)
open VaxisModel.Lemmas.KeyCongr (AgreeAt AgreeOnKeys)
open VaxisModel.Lemmas.KeySelf (AsciiAgree)

theorem findRow_none (t : List URow) (r : Int) (h : r ∉ t.map (·.r)) : findRow t r = none := by
  unfold findRow
  rw [List.find?_eq_none]
  intro row hrow hr
  simp only [beq_iff_eq] at hr
  exact h (by rw [← hr]; exact List.mem_map_of_mem hrow)

/-- **driver_uni_hdom.** Outside its table the driver's `Uni` has no lower-case (nor upper-case, letter,
    graphic, printable) rune, and `ToUpper` / `ToLower` are the identity. -/
theorem driver_uni_hdom (t : List URow) (folds : List (Int × Int)) (r : Int) (h : r ∉ t.map (·.r)) :
    (mkUni t folds).isLower r = false ∧ (mkUni t folds).isUpper r = false ∧ (mkUni t folds).isPrint r = false ∧
    (mkUni t folds).toUpper r = r ∧ (mkUni t folds).toLower r = r := by
  simp [mkUni, findRow_none t r h]

/-- **cross_protocol_char_plain_driver.** `cross_protocol_char_plain_checked` for the driver's `Uni`, with
    the table's runes as the domain: no hypothesis left but the evaluator's verdict. -/
theorem cross_protocol_char_plain_driver (t : List URow) (folds : List (Int × Int)) (c : Int) (f : Form)
    (hf : f.withShifted = false ∧ f.withBase = false)
    (hok : violated (hypPlain (mkUni t folds) (t.map (·.r)) c f.withText) = []) :
    let u := mkUni t folds
    let kL := decodeKey u (.print [c])
    let kK := decodeKey u (kittySeq c 117 { key := c, text := [c] } f)
    keyString u kL = keyString u kK ∧ ∀ b m, «matches» u kL b m = «matches» u kK b m :=
  VaxisModel.Props.C09Uni.cross_protocol_char_plain_checked (mkUni t folds) (t.map (·.r)) c f hf
    (fun r hr => (driver_uni_hdom t folds r hr).1) hok

example : findRow [{ r := 97, flags := 30, up := 65, lo := 97 }] 223 = none := by decide

/-- **driver_uni_upper_has_lower.** The `hypl` op: when the driver's evaluation over the rows finds no violating row, the
    law `UpperHasLower` (hypothesis of `C09Sound.cross_protocol_char_plain_keycode`) holds of the `Uni` the driver builds
    from those rows — for every rune, listed or not (outside the table nothing is lower-case). -/
theorem driver_uni_upper_has_lower (t : List URow) (folds : List (Int × Int)) (h : upperHasLowerBad t = []) :
    UpperHasLower (mkUni t folds) := by
  intro r hl hne
  simp only [mkUni] at hl hne ⊢
  cases hr : findRow t r with
  | none => simp [hr] at hl
  | some row =>
    simp only [hr] at hl hne ⊢
    have hmem : row ∈ t := List.mem_of_find?_eq_some hr
    have hrr : row.r = r := by have := List.find?_some hr; simpa using this
    have hnot : row ∉ upperHasLowerBad t := by rw [h]; simp
    unfold upperHasLowerBad at hnot
    rw [List.mem_filter] at hnot
    have hflag : (row.flags / 2 % 2 == 1) = true := hl
    have hup : (row.up != row.r) = true := by
      simp only [bne_iff_ne, ne_eq]; rw [hrr]; exact hne
    cases hU : findRow t row.up with
    | none => exact absurd ⟨hmem, by simp [hflag, hup, hU]⟩ hnot
    | some U =>
      have hUr : U.r = row.up := by have := List.find?_some hU; simpa using this
      have hlo : U.lo ≠ U.r := by
        intro heq
        exact hnot ⟨hmem, by simp [hflag, hup, hU, heq]⟩
      simp only []
      rw [← hUr]; exact hlo

/-- **driver_uni_agree_on_keys.** The `hypk` op: when the driver's evaluation finds no differing rune, the oracle it
    builds from the rows satisfies `AgreeOnKeys` — at the 128 ASCII runes and the listed rows because they were compared,
    at every unlisted rune above `MaxRune` because the driver's defaults (no class, identity case maps) are what
    `asciiUni` says there.  So `hypk … ok` discharges the hypothesis of `cross_protocol_any_uni` / `key_roundtrip_any_uni`
    for the driver's oracle. -/
theorem driver_uni_agree_on_keys (t : List URow) (folds : List (Int × Int)) (h : agreeOnKeysBad t = []) :
    AgreeOnKeys (mkUni t folds) := by
  intro r hr
  -- the class predicates and case maps of `mkUni` do not depend on the fold pairs
  have e : ∀ x, ((mkUni t folds).isUpper x = (mkUni t []).isUpper x) ∧ ((mkUni t folds).isLower x = (mkUni t []).isLower x) ∧
      ((mkUni t folds).isLetter x = (mkUni t []).isLetter x) ∧ ((mkUni t folds).isGraphic x = (mkUni t []).isGraphic x) ∧
      ((mkUni t folds).isPrint x = (mkUni t []).isPrint x) ∧ ((mkUni t folds).toUpper x = (mkUni t []).toUpper x) ∧
      ((mkUni t folds).toLower x = (mkUni t []).toLower x) := fun x => ⟨rfl, rfl, rfl, rfl, rfl, rfl, rfl⟩
  obtain ⟨e1, e2, e3, e4, e5, e6, e7⟩ := e r
  by_cases hmem : r ∈ ((List.range 128).map fun (n : Nat) => ((n : Nat) : Int)) ++ t.map (·.r)
  · -- evaluated: not in the bad list
    have hnot : r ∉ agreeOnKeysBad t := by rw [h]; simp
    have hc : ¬ ((inKeyDom r && !((mkUni t []).isUpper r == asciiUni.isUpper r && (mkUni t []).isLower r == asciiUni.isLower r &&
        (mkUni t []).isLetter r == asciiUni.isLetter r && (mkUni t []).isGraphic r == asciiUni.isGraphic r &&
        (mkUni t []).isPrint r == asciiUni.isPrint r && (mkUni t []).toUpper r == asciiUni.toUpper r &&
        (mkUni t []).toLower r == asciiUni.toLower r)) = true) := fun hc =>
      hnot (by unfold agreeOnKeysBad; exact List.mem_filter.mpr ⟨hmem, hc⟩)
    simp only [hr, Bool.true_and, Bool.not_eq_true', Bool.not_eq_false] at hc
    simp only [Bool.and_eq_true, beq_iff_eq] at hc
    obtain ⟨⟨⟨⟨⟨⟨a1, a2⟩, a3⟩, a4⟩, a5⟩, a6⟩, a7⟩ := hc
    exact ⟨e1.trans a1, e2.trans a2, e3.trans a3, e4.trans a4, e5.trans a5, e6.trans a6, e7.trans a7⟩
  · -- not listed and not ASCII: above MaxRune, where both oracles have no class and identity maps
    simp only [List.mem_append, List.mem_map, List.mem_range, not_or, not_exists, not_and] at hmem
    obtain ⟨hascii, hrow⟩ := hmem
    have hnone : findRow t r = none := findRow_none t r (by
      simp only [List.mem_map, not_exists, not_and]; exact hrow)
    have hbig : maxRune < r := by
      simp only [inKeyDom, Bool.or_eq_true, Bool.and_eq_true, decide_eq_true_eq] at hr
      rcases hr with ⟨h0, h1⟩ | h
      · exact absurd (Int.toNat_of_nonneg h0) (hascii r.toNat (by omega))
      · exact h
    have hm : maxRune = 1114111 := rfl
    rw [hm] at hbig
    refine ⟨?_, ?_, ?_, ?_, ?_, ?_, ?_⟩
    · simp only [mkUni, hnone, asciiUni]; symm; rw [decide_eq_false_iff_not]; omega
    · simp only [mkUni, hnone, asciiUni]; symm; rw [decide_eq_false_iff_not]; omega
    · simp only [mkUni, hnone, asciiUni]; symm; rw [decide_eq_false_iff_not]; omega
    · simp only [mkUni, hnone, asciiUni]; symm; rw [decide_eq_false_iff_not]; omega
    · simp only [mkUni, hnone, asciiUni]; symm; rw [decide_eq_false_iff_not]; omega
    · simp only [mkUni, hnone, asciiUni]; split <;> omega
    · simp only [mkUni, hnone, asciiUni]; split <;> omega

/-- **driver_uni_ascii_agree.** The `hypa` op: when `asciiAgreeOn` accepts the rows and fold pairs, the driver's oracle
    satisfies `AsciiAgree`, the hypothesis of `self_match` / `self_match_every_event`. -/
theorem driver_uni_ascii_agree (t : List URow) (f : List (Int × Int)) (h : asciiAgreeOn t f = true) :
    AsciiAgree (mkUni t f) := by
  unfold asciiAgreeOn at h
  simp only [List.all_eq_true, List.mem_range, Bool.and_eq_true, beq_iff_eq] at h
  constructor
  · intro r h0 h1
    have := (h r.toNat (by omega)).1
    have er : ((r.toNat : Nat) : Int) = r := Int.toNat_of_nonneg h0
    rw [er] at this
    simpa [mkUni] using this
  · intro a b ha0 ha1 hb0 hb1
    have := (h a.toNat (by omega)).2 b.toNat (by omega)
    have ea : ((a.toNat : Nat) : Int) = a := Int.toNat_of_nonneg ha0
    have eb : ((b.toNat : Nat) : Int) = b := Int.toNat_of_nonneg hb0
    rw [ea, eb] at this
    simp only [mkUni]
    rw [this]
    simp only [asciiUni, Bool.or_self]

end VaxisModel.Props.C09Driver
