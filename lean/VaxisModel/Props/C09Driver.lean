/-
C09: the hypothesis `hdom` of `cross_protocol_char_plain_checked` ("the table lists every lower-case rune of
`u`") discharged for the `Uni` the driver builds from the rows the harness sends (`Driver.C09.mkUni`): outside
the table every class flag is `false` by construction.  So every `hyp plain … ok` line of a run is, without
further assumption about the driver, an instance of `cross_protocol_char_plain` for the driver's `Uni`.
-/
import VaxisModel.Props.C09Uni
import VaxisModel.Driver.C09

namespace VaxisModel.Props.C09Driver
open VaxisModel.Model.Key VaxisModel.Spec.KeyEnc VaxisModel.Spec.KeyEncUni VaxisModel.Gen.Keys
open VaxisModel.Driver.C09 (URow mkUni findRow)

theorem findRow_none (t : List URow) (r : Int) (h : r ∉ t.map (·.r)) : findRow t r = none := by
  unfold findRow
  rw [List.find?_eq_none]
  intro row hrow hr
  simp only [beq_iff_eq] at hr
  exact h (by rw [← hr]; exact List.mem_map_of_mem hrow)

/-- **driver_uni_hdom.** Outside its table the driver's `Uni` has no lower-case (nor upper-case, letter,
    graphic, printable) rune, and `ToUpper` / `ToLower` are the identity. -/
theorem driver_uni_hdom (t : List URow) (folds : List (Int × Int)) (r : Int) (h : r ∉ t.map (·.r)) :
    (mkUni t folds).isLower r = false ∧ (mkUni t folds).isUpper r = false ∧ (mkUni t folds).isPrint r = false ∧
    (mkUni t folds).toUpper r = r ∧ (mkUni t folds).toLower r = r := by
  simp [mkUni, findRow_none t r h]

/-- **cross_protocol_char_plain_driver.** `cross_protocol_char_plain_checked` for the driver's `Uni`, with
    the table's runes as the domain: no hypothesis left but the evaluator's verdict. -/
theorem cross_protocol_char_plain_driver (t : List URow) (folds : List (Int × Int)) (c : Int) (f : Form)
    (hf : f.withShifted = false ∧ f.withBase = false)
    (hok : violated (hypPlain (mkUni t folds) (t.map (·.r)) c f.withText) = []) :
    let u := mkUni t folds
    let kL := decodeKey u (.print [c])
    let kK := decodeKey u (kittySeq c 117 { key := c, text := [c] } f)
    keyString u kL = keyString u kK ∧ ∀ b m, «matches» u kL b m = «matches» u kK b m :=
  VaxisModel.Props.C09Uni.cross_protocol_char_plain_checked (mkUni t folds) (t.map (·.r)) c f hf
    (fun r hr => (driver_uni_hdom t folds r hr).1) hok

example : findRow [{ r := 97, flags := 30, up := 65, lo := 97 }] 223 = none := by decide

end VaxisModel.Props.C09Driver
