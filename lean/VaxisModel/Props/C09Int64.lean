/-
C09: Go's `int` is 64 bits.  The model of `decodeKey` computes over ℤ; the two places where the code does
`int` arithmetic on a CSI parameter (`pm[0] - 1`, `EventType(ps) - 1`) agree with ℤ on every int64 value
except `math.MinInt64`, where Go wraps to `MaxInt64`.  `decodeKey64` (Model/Key.lean) is the decoder with
that wrap; the driver compares the implementation with `decodeKey64`.
-/
import VaxisModel.Props.C09Uni

namespace VaxisModel.Props.C09Int64
open VaxisModel.Model.Key VaxisModel.Spec.KeyEnc VaxisModel.Spec.KeyEncUni VaxisModel.Gen.Keys

/-- **int64_sub_one.** On the whole int64 range, Go's `p - 1` (64-bit wrap) is ℤ's `q - 1` for
    `q = int64Fix p`: the substitution `decodeKey64` makes is exactly Go's subtraction. -/
theorem int64_sub_one (p : Int) (h0 : minInt64 ≤ p) (h1 : p < 9223372036854775808) :
    wrap64 (p - 1) = int64Fix p - 1 := by
  unfold wrap64 int64Fix minInt64 at *
  split <;> omega

/-- **rune_conversion_wraps_32.** `rune(p)` for any `int` p: the model's `toRune` is the representative of
    p modulo 2^32 in [−2^31, 2^31), congruent to p, and the identity exactly on that range. -/
theorem rune_conversion_wraps_32 (p : Int) :
    -2147483648 ≤ toRune p ∧ toRune p < 2147483648 ∧ (toRune p - p) % 4294967296 = 0 ∧
    (toRune p = p ↔ (-2147483648 ≤ p ∧ p < 2147483648)) := by
  unfold toRune
  refine ⟨by omega, by omega, by omega, by constructor <;> intro h <;> omega⟩

/-- **decode_int64_agrees.** Whenever neither the modifier nor the event-type parameter is `math.MinInt64`,
    the 64-bit decoder is the ℤ model: every theorem about `decodeKey` (`decode_csi_total`, …) is a theorem
    about the code's 64-bit arithmetic there. -/
theorem decode_int64_agrees (u : Uni) (s : Seq)
    (h : ∀ params fin, s = .csi params fin → ∀ p1, params[1]? = some p1 → p1[0]? ≠ some minInt64 ∧ p1[1]? ≠ some minInt64) :
    decodeKey64 u s = decodeKey u s := by
  cases s with
  | csi params fin =>
    unfold decodeKey64
    have hp : int64Params params = params := by
      match params with
      | [] => rfl
      | [p0] => rfl
      | p0 :: p1 :: rest =>
        have := h _ _ rfl p1 rfl
        match p1 with
        | [] => rfl
        | [m] =>
          have hm : m ≠ minInt64 := fun e => this.1 (by simp [e])
          simp [int64Params, int64Fix, hm]
        | m :: e :: r =>
          have hm : m ≠ minInt64 := fun x => this.1 (by simp [x])
          have he : e ≠ minInt64 := fun x => this.2 (by simp [x])
          simp [int64Params, int64Fix, hm, he]
    show decodeKey u (.csi (int64Params params) fin) = _
    rw [hp]
  | _ => rfl

/-- **decode64_csi_total.** The closed form of `decode_csi_total` for the 64-bit decoder: for EVERY parameter list
    and final, `decodeKey64` returns what the report denotes once the modifier / event fields are read with Go's
    64-bit subtraction. -/
theorem decode64_csi_total (u : Uni) (params : List (List Int)) (fin : Int) :
    decodeKey64 u (.csi params fin) = csiDenotes u (int64Params params) fin :=
  VaxisModel.Props.C09Uni.decode_csi_total u (int64Params params) fin

/-- **decode_min_int64_mods.** The one place where they differ: a modifier parameter that wrapped to
    `math.MinInt64` in the parser (`CSI 97 ; 9223372036854775808 u`) decodes, with 64-bit arithmetic, to the
    mask `MaxInt64` — every modifier bit set — where the ℤ model says "no modifiers"; likewise the event
    type becomes `MaxInt64`. -/
theorem decode_min_int64_mods (u : Uni) :
    (decodeKey64 u (.csi [[97], [minInt64]] 117)).mods = 9223372036854775807 ∧
    (decodeKey u (.csi [[97], [minInt64]] 117)).mods = 0 ∧
    (decodeKey64 u (.csi [[97], [1, minInt64]] 117)).event = 9223372036854775807 ∧
    (decodeKey u (.csi [[97], [1, minInt64]] 117)).event = minInt64 - 1 := by
  have hev : ∀ k : Key, (shiftFix u k).event = k.event := by
    intro k; unfold shiftFix; split <;> rfl
  have hraw_mods : ∀ m : Int, (decodeRaw u (.csi [[97], [m]] 117)).mods = (m - 1).toNat := by
    intro m
    simp [decodeRaw, csiParams, csiCodes, csiMods]
  have hraw_ev : ∀ e : Int, (decodeRaw u (.csi [[97], [1, e]] 117)).event = e - 1 := by
    intro e
    simp [decodeRaw, csiParams, csiCodes, csiMods]
  refine ⟨?_, ?_, ?_, ?_⟩
  · show (decodeKey u (.csi [[97], [int64Fix minInt64]] 117)).mods = _
    rw [VaxisModel.Lemmas.KeyDecode.decodeKey_eq, VaxisModel.Lemmas.KeyUni.shiftFix_mods, hraw_mods]; decide
  · rw [VaxisModel.Lemmas.KeyDecode.decodeKey_eq, VaxisModel.Lemmas.KeyUni.shiftFix_mods, hraw_mods]; decide
  · show (decodeKey u (.csi [[97], [int64Fix 1, int64Fix minInt64]] 117)).event = _
    rw [VaxisModel.Lemmas.KeyDecode.decodeKey_eq, hev]
    have : int64Fix 1 = 1 := by decide
    rw [this, hraw_ev]; decide
  · rw [VaxisModel.Lemmas.KeyDecode.decodeKey_eq, hev, hraw_ev]

end VaxisModel.Props.C09Int64
