/-
C09 — binding soundness as ONE statement, and self-match for every event the decoder can produce.

`binding_soundness`: for every event and every binding `(key, mask)`, over ALL runes and every `unicode` oracle
(`structure Uni`, no hypothesis): if `Matches` fires then (a) every modifier bit except Shift / Caps Lock / Num Lock is
identical — in particular Ctrl, Alt, Super, Hyper, Meta; (b) the lock keys are ignored; (c) with the locks removed
the masks are equal, or they differ in Shift only and one of the three documented forgiveness rules applies;
(d) the binding key agrees with the event under one of the six documented rules.

`self_match_every_event`: `MatchString(String())` for every real key, 8-bit mask and EVERY event type other than a
release (press, repeat, paste, motion, any other value) — seeded change C09-m5 wrote the modifier prefix only for
`EventPress`; `self_match_decoded` / `self_match_pasted` instantiate it with what `decodeKey` returns for any sequence.
Only theorems + examples here.
-/
import VaxisModel.Props.C09
import VaxisModel.Spec.KeyEvent
import VaxisModel.Props.C09Uni
import VaxisModel.Witness.F209

namespace VaxisModel.Props.C09Sound
open VaxisModel.Model.Key VaxisModel.Spec.KeyEnc VaxisModel.Gen.Keys
open VaxisModel.Lemmas.KeyMatch VaxisModel.Lemmas.KeyDecode VaxisModel.Lemmas.KeySelf VaxisModel.Lemmas.KeyCross
open VaxisModel.Props.C09

/-- **binding_soundness.** -/
theorem binding_soundness (u : Uni) (k : Key) (key : Int) (m : Nat) (h : «matches» u k key m = true) :
    -- (a) Ctrl, Alt, Super, Hyper, Meta identical — indeed every bit other than Shift, Caps Lock, Num Lock
    (strong k.mods = strong m ∧ ∀ i, i ≠ 0 ∧ i ≠ 6 ∧ i ≠ 7 → k.mods.testBit i = m.testBit i) ∧
    -- (b) lock keys never matter: toggling them in the event or the binding keeps the match
    (∀ l, andNot l (capsBit ||| numBit) = 0 →
        «matches» u { k with mods := k.mods ^^^ l } key m = true ∧ «matches» u k key (m ^^^ l) = true) ∧
    -- (c) Shift: equal masks (locks aside), or a Shift-only difference under a documented forgiveness rule
    (stripLocks m = stripLocks k.mods ∨
      (unshift (stripLocks m) = unshift (stripLocks k.mods) ∧
        ((k.shifted = key ∧ stripLocks m = unshift (stripLocks k.mods)) ∨
         (u.isLetter key = false ∧ u.isGraphic key = true ∧ (k.keycode = key ∨ k.shifted = key)) ∨
         (stripLocks m &&& shiftBit ≠ 0 ∧ u.isLower key = true ∧ u.toUpper key ≠ key ∧
            k.text = strOfRune (u.toUpper key))))) ∧
    -- (d) the key agrees under one of the six rules: key code, text, shifted code, base-layout code,
    --     non-letter graphic key or shifted code, upper-cased text
    (k.keycode = key ∨ k.text = strOfRune key ∨ k.shifted = key ∨ k.base = key ∨
      (u.isLetter key = false ∧ u.isGraphic key = true ∧ (k.keycode = key ∨ k.shifted = key)) ∨
      (u.isLower key = true ∧ u.toUpper key ≠ key ∧ k.text = strOfRune (u.toUpper key))) := by
  refine ⟨⟨match_strong_mods u k key m h, fun i hi => match_all_but_shift_and_locks u k key m h i hi⟩, ?_, ?_, ?_⟩
  · intro l hl
    obtain ⟨h1, h2⟩ := locks_irrelevant u k key m l hl
    exact ⟨by rw [h1]; exact h, by rw [h2]; exact h⟩
  · by_cases hne : stripLocks m = stripLocks k.mods
    · exact Or.inl hne
    · exact Or.inr (shift_forgiven_only_documented u k key m h hne)
  · have hs := (shift_forgiveness u k key m).mp h
    unfold matchSpec at hs
    simp only at hs
    rcases hs with ⟨h1, _⟩ | ⟨h2, _⟩ | ⟨h3, _⟩ | ⟨h4, _⟩ | ⟨h5a, h5b, h5c, _⟩ | ⟨_, h6b, h6c, h6d, _⟩
    · exact Or.inl h1
    · exact Or.inr (Or.inl h2)
    · exact Or.inr (Or.inr (Or.inl h3))
    · exact Or.inr (Or.inr (Or.inr (Or.inl h4)))
    · exact Or.inr (Or.inr (Or.inr (Or.inr (Or.inl ⟨h5a, h5b, h5c⟩))))
    · exact Or.inr (Or.inr (Or.inr (Or.inr (Or.inr ⟨h6b, h6c, h6d⟩))))

/-- Non-vacuity: a Ctrl chord with Caps Lock on matches its binding; the conclusions are about a real match. -/
example : «matches» asciiUni { keycode := 97, mods := ModCtrl ||| ModCapsLock } 97 ModCtrl = true := by decide

/-- **self_match_every_event.** Every real key, every 8-bit modifier mask, every event type other than a release,
    any text / shifted / base-layout codes: the event matches its own `String()`. -/
theorem self_match_every_event (u : Uni) (hu : AsciiAgree u) (k : Key) (hb : bindableEvent k = true) :
    matchString u k (keyString u k) = true := by
  simp only [bindableEvent, Bool.and_eq_true, decide_eq_true_eq] at hb
  obtain ⟨⟨hreal, hev'⟩, hm⟩ := hb
  have hn := all_consts_named
  simp only [Bool.and_eq_true] at hn
  obtain ⟨hrange, halias⟩ := hn
  have alias : ∀ kc ∈ [KeyTab, KeyEnter, KeyEsc, KeySpace, KeyBackspace], k.keycode = kc → matchString u k (keyString u k) = true := by
    intro kc hkc heq
    obtain ⟨e, he, hek⟩ := named_of_any (List.all_eq_true.mp halias kc hkc)
    exact self_match_named u hu k e he (by rw [hek, heq]) hm hev'
  simp only [realKey, Bool.or_eq_true, Bool.and_eq_true, decide_eq_true_eq] at hreal
  rcases hreal with (((⟨h32, hv⟩ | h) | h) | h) | ⟨hlo, hhi⟩
  · by_cases hs : k.keycode = 32
    · exact alias KeySpace (by simp) hs
    · by_cases hd : k.keycode = 127
      · exact alias KeyBackspace (by simp) hd
      · exact self_match_char u hu k ⟨by omega, hd, hv⟩ hm hev'
  · exact alias KeyTab (by simp) h
  · exact alias KeyEnter (by simp) h
  · exact alias KeyEsc (by simp) h
  · have hi : (k.keycode - KeyUp).toNat < (KeyKeyPadBegin - KeyUp).toNat + 1 := by omega
    have := List.all_eq_true.mp hrange _ (List.mem_range.mpr hi)
    obtain ⟨e, he, hek⟩ := named_of_any this
    refine self_match_named u hu k e he ?_ hm hev'
    rw [hek]; simp only [Int.ofNat_eq_natCast]; omega

/-- Every pressed chord is a bindable event (so `self_match` is an instance). -/
theorem pressedChord_bindable (k : Key) (hp : pressedChord k = true) : bindableEvent k = true := by
  simp only [pressedChord, Bool.and_eq_true, Bool.or_eq_true, decide_eq_true_eq] at hp
  obtain ⟨⟨hreal, hev⟩, hm⟩ := hp
  have hev' : k.event ≠ EventRelease := by
    rcases hev with h | h <;> rw [h] <;> decide
  simp [bindableEvent, hreal, hev', hm]

/-- **self_match_decoded.** Whatever sequence `decodeKey` is given (legacy byte, C0, ESC, SS3, any CSI / kitty
    report with any parameters): if the decoded event is of a real key with an 8-bit mask and is not a release —
    press, REPEAT (`CSI … ;m:2 u`), or any other event value — it matches its own `String()`. -/
theorem self_match_decoded (u : Uni) (hu : AsciiAgree u) (s : Seq) (hb : bindableEvent (decodeKey u s) = true) :
    matchString u (decodeKey u s) (keyString u (decodeKey u s)) = true :=
  self_match_every_event u hu _ hb

/-- **self_match_pasted.** The events `handleSequence` posts for pasted text (`EventPaste` stamped on the decoded
    key) and for any other re-typed event type. -/
theorem self_match_pasted (u : Uni) (hu : AsciiAgree u) (s : Seq) (ev : Int) (hev : ev ≠ EventRelease)
    (hreal : realKey (decodeKey u s).keycode = true) (hm : (decodeKey u s).mods < 256) :
    matchString u { decodeKey u s with event := ev } (keyString u { decodeKey u s with event := ev }) = true :=
  self_match_every_event u hu _ (by simp [bindableEvent, hreal, hev, hm])

example : bindableEvent { keycode := 36, mods := metaBit, event := EventRepeat, text := [36] } = true ∧
    bindableEvent { keycode := 97, mods := ctrlBit, event := EventPaste } = true ∧
    bindableEvent { keycode := 97, mods := ctrlBit, event := EventRelease } = false := by decide

/-- The release case is really different (why it is excluded): `String()` omits the modifiers of a release. -/
example : matchString asciiUni { keycode := 97, mods := ctrlBit, event := EventRelease }
    (keyString asciiUni { keycode := 97, mods := ctrlBit, event := EventRelease }) = false := by decide +kernel

/-! ## The plain character key of any script, stated on the kitty protocol's own domain

The kitty keyboard protocol reports a key by "the Unicode codepoint of the key in lower-case form" (its
specification: "the codepoint used is always the lower-case (or more technically, un-shifted) version of the key").
So a code point `c` with `ToLower c ≠ c` is not a kitty key code at all: the 27 title-case letters ᾈ … ῼ (general
category Lt: `IsUpper` false, `ToLower` = ᾀ …), which `cross_protocol_char_plain` excluded through its hypothesis
`∀ r, isLower r → toUpper r ≠ r → toUpper r ≠ c`, are outside the cross-protocol clause for that reason — the chord
"the key ᾈ, unmodified" does not exist under the kitty encoding (a conforming terminal reports ᾀ + Shift).  With the
hypothesis stated as the protocol states it (`toLower c = c`) and the table law `UpperHasLower`, nothing else is left out. -/

/-- **cross_protocol_char_plain_keycode.** `cross_protocol_char_plain` with the ∀-hypothesis replaced by: `c` is a
    kitty key code (`toLower c = c`) and the `unicode` tables satisfy `UpperHasLower`. -/
theorem cross_protocol_char_plain_keycode (u : Uni) (hlaw : UpperHasLower u) (c : Int) (f : Form)
    (hv : validRune c = true) (hdel : c ≠ 127) (hup : u.isUpper c = false)
    (hfun : lookup2 (c, 117) functional = none)
    (hf : f.withShifted = false ∧ f.withBase = false)
    (hfffd : f.withText = false → c ≠ 0xFFFD)
    (hkey : u.toLower c = c) :
    let kL := decodeKey u (.print [c])
    let kK := decodeKey u (kittySeq c 117 { key := c, text := [c] } f)
    keyString u kL = keyString u kK ∧ ∀ b m, «matches» u kL b m = «matches» u kK b m :=
  VaxisModel.Props.C09Uni.cross_protocol_char_plain u c f hv hdel hup hfun hf hfffd
    (fun _ r hl hne heq => by have h := hlaw r hl hne; rw [heq] at h; exact h hkey)

/-- The witness of `Witness.F209` (ᾀ U+1F80 / ᾈ U+1F88 with Go's values) satisfies the law, and ᾈ is not its own
    lower case: it is excluded by `toLower c = c`, by nothing else. -/
example : VaxisModel.Witness.F209.greekUni.toLower 8072 ≠ 8072 ∧
    VaxisModel.Witness.F209.greekUni.toLower (VaxisModel.Witness.F209.greekUni.toUpper 8064) ≠
      VaxisModel.Witness.F209.greekUni.toUpper 8064 := by decide

end VaxisModel.Props.C09Sound
