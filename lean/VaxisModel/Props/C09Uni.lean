/-
C09, round 2 — (B) decoding of CSI key reports for EVERY parameter list over ℤ, and
(A) protocol independence for character keys of ANY script over an abstract `unicode` oracle.
Property theorems and non-vacuity examples only (helpers: Lemmas/KeyUni.lean; spec: Spec/KeyEncUni.lean).
-/
import VaxisModel.Model.Key
import VaxisModel.Spec.KeyEnc
import VaxisModel.Spec.KeyEncUni
import VaxisModel.Lemmas.KeyMatch
import VaxisModel.Lemmas.KeyDecode
import VaxisModel.Lemmas.KeyCross
import VaxisModel.Lemmas.KeyUni
import VaxisModel.Props.C09

namespace VaxisModel.Props.C09Uni
open VaxisModel.Model.Key VaxisModel.Spec.KeyEnc VaxisModel.Spec.KeyEncUni VaxisModel.Gen.Keys
open VaxisModel.Lemmas.KeyMatch VaxisModel.Lemmas.KeyDecode VaxisModel.Lemmas.KeyCross VaxisModel.Lemmas.KeyUni

/-! ## (B) `decodeKey` on `CSI params final` for every parameter list over ℤ -/

/-- Go's `rune(x)` as the model writes it (`(x + 2^31) mod 2^32 − 2^31`) is the Spec's `wrap32`
    (Euclidean remainder folded into [−2^31, 2^31)). -/
theorem rune_conversion_is_wrap32 (x : Int) : toRune x = wrap32 x := toRune_eq_wrap32 x

/-- **decode_csi_total.** For EVERY parameter list — any number of parameters, any number of
    sub-parameters (including none: the parser never produces an empty sub-list, C02
    `params_nonempty`, but nothing here depends on that), any integer values, any final — `decodeKey`
    returns exactly the key the closed form `Spec.KeyEncUni.csiDenotes` describes: key code =
    Shift+Tab / functional-key table / the number as a 32-bit rune; shifted and base-layout code as
    32-bit runes; mask = `max (mods − 1) 0`; event = `event − 1`; text = the code points (U+FFFD for
    invalid ones) or, for `CSI 27;m;code ~`, the key; parameters beyond the third and sub-parameters
    beyond the documented ones are ignored; then the Shift-text work-around.
    No index panic is possible: the Go code reads `pm[0]` only inside `for j, ps := range pm` (and
    under `len(pm) > 0`), and the closed form never consults a default for an absent field. -/
theorem decode_csi_total (u : Uni) (params : List (List Int)) (fin : Int) :
    decodeKey u (.csi params fin) = csiDenotes u params fin := by
  rw [decodeKey_eq, decodeRaw_csi_fields u params fin
    (lookup2_tables_agree VaxisModel.Props.C09.specials_is_spec.1 VaxisModel.Props.C09.specials_is_spec.2)]
  rfl

/-- The form asked for by the parser's guarantee (every sub-list non-empty) is an instance. -/
theorem decode_csi_total_parsed (u : Uni) (params : List (List Int)) (fin : Int)
    (_hne : ∀ pm ∈ params, pm ≠ []) : decodeKey u (.csi params fin) = csiDenotes u params fin :=
  decode_csi_total u params fin

example : (∀ pm ∈ [[97, 65], [2, 1], [65]], pm ≠ ([] : List Int)) := by decide
example : decodeKey asciiUni (.csi [[97, 65], [2, 1], [65]] 117) =
    { keycode := 97, shifted := 65, mods := 1, event := 0, text := [65] } := by decide
example : csiDenotes asciiUni [[4294967393]] 117 = { keycode := 97 } := by decide

/-- The `headD` default in the model of the modifier loop (`pm[0]` in Go) is never used: replacing it
    by any other value `d` gives the same result, for every sub-parameter list (even the empty one). -/
theorem csi_mods_default_unused (d : Int) (p1 : List Int) (key : Key) :
    csiModsD d p1 p1 0 key = csiMods p1 p1 0 key := csiMods_default_unused d p1 key

/-- (i) On 31-bit non-negative parameters the closed form is the kitty/xterm report's key
    (`decode_exact_csi`'s value): the two specifications agree where both speak. -/
theorem decode_csi_in_range (u : Uni) (num fin : Int) (c : Chord) (f : Form)
    (hnum : inRune num) (hsh : inRune c.shifted) (hbase : inRune c.base)
    (htext : ∀ p ∈ c.text, inRune p ∧ validRune p = true)
    (hkey : lookup2 (num, fin) functional = some c.key ∨ (lookup2 (num, fin) functional = none ∧ c.key = num))
    (hZ : ¬(num = 1 ∧ fin = 90)) (hmok : ¬(c.key = 27 ∧ fin = 126)) :
    (match kittySeq num fin c f with
     | .csi params fin' => csiDenotes u params fin'
     | _ => {}) = kittyExpected u c f := by
  rw [← VaxisModel.Props.C09.decode_exact_csi u num fin c f hnum hsh hbase htext hkey hZ hmok]
  unfold kittySeq
  exact (decode_csi_total u _ _).symm

/-- (ii) `rune(x)` is 2^32-periodic … -/
theorem wrap32_congruence (x n : Int) : wrap32 (x + 4294967296 * n) = wrap32 x := wrap32_periodic x n

/-- … so the key-code field is read modulo 2^32: `CSI 4294967393 u` is the key `a` (97). -/
theorem decode_csi_mod_2_32 (u : Uni) (p n : Int) (sub : List Int) (rest : List (List Int)) (fin : Int) :
    decodeKey u (.csi (((p + 4294967296 * n) :: sub) :: rest) fin) = decodeKey u (.csi ((p :: sub) :: rest) fin) := by
  rw [decode_csi_total, decode_csi_total]
  simp only [csiDenotes, csiFields, csiFieldsNE, isShiftTab, csiKeyOf, isModifyOther, reduceCtorEq, if_false,
    List.getElem?_cons_zero, List.getElem?_cons_succ, Option.getD_some, wrap32_periodic]

example : decodeKey asciiUni (.csi [[4294967393]] 117) = decodeKey asciiUni (.csi [[97]] 117) :=
  decode_csi_mod_2_32 asciiUni 97 1 [] [] 117

/-- General congruence: `decodeKey` reads `CSI params final` only through `csiNormal params` — the
    first three parameters, with every key-code field (number, shifted, base) and every text code
    point reduced modulo 2^32; the modifier and event fields are read as integers.  Two parameter
    lists with the same normal form denote the same key. -/
theorem decode_csi_congruence (u : Uni) (params params' : List (List Int)) (fin : Int)
    (h : csiNormal params = csiNormal params') :
    decodeKey u (.csi params fin) = decodeKey u (.csi params' fin) := by
  rw [decode_csi_total, decode_csi_total, csiDenotes, csiDenotes, csiFields_normal params, csiFields_normal params', h]

example : decodeKey asciiUni (.csi [[97, 4294967361], [2], [8589934657], [7], [8, 9]] 117) =
    decodeKey asciiUni (.csi [[97, 65], [2], [65]] 117) :=
  decode_csi_congruence asciiUni _ _ 117 (by decide)

/-- (iii) A key-code parameter in [2^31, 2^32) is a NEGATIVE key code `p − 2^32` (never a functional
    key, never Shift+Tab, never the modifyOtherKeys form), and its `String()` is "invalid". -/
theorem decode_csi_high_half_invalid (u : Uni) (p : Int) (sub : List Int) (rest : List (List Int)) (fin : Int)
    (h0 : 2147483648 ≤ p) (h1 : p < 4294967296) :
    (decodeKey u (.csi ((p :: sub) :: rest) fin)).keycode = p - 4294967296 ∧
    keyString u (decodeKey u (.csi ((p :: sub) :: rest) fin)) = [105, 110, 118, 97, 108, 105, 100] := by
  have hw := wrap32_high p h0 h1
  have hneg : wrap32 p < 0 := by omega
  have hkc : (decodeKey u (.csi ((p :: sub) :: rest) fin)).keycode = p - 4294967296 := by
    rw [decode_csi_total, csiDenotes, shiftFix_keycode]
    have hk : csiKeyOf (p :: sub) fin = wrap32 p := by
      have hz : ¬(wrap32 p = 1 ∧ fin = 90) := by omega
      simp [csiKeyOf, isShiftTab, hz, lookup2_neg (wrap32 p) fin hneg functional functional_nonneg]
    have hm : isModifyOther (p :: sub) fin = false := by
      simp only [isModifyOther, hk, decide_eq_false_iff_not]; omega
    simp only [csiFields, csiFieldsNE, reduceCtorEq, if_false, List.getElem?_cons_zero, Option.getD_some, hk, hm,
      Bool.false_eq_true]
    split <;> exact hw
  exact ⟨hkc, keyString_neg u _ (by rw [hkc]; omega)⟩

example : keyString asciiUni (decodeKey asciiUni (.csi [[4294967295]] 117)) = [105, 110, 118, 97, 108, 105, 100] := by decide

/-- (iv) The modifier parameter is `mask + 1`; the decoded mask is `max (m − 1) 0` — in particular a
    parameter ≤ 1 (0 = omitted field, negative values) gives the empty mask. -/
theorem decode_csi_mods_clamp (u : Uni) (p0 : List Int) (m : Int) (es : List Int) (rest : List (List Int)) (fin : Int) :
    (decodeKey u (.csi (p0 :: (m :: es) :: rest) fin)).mods = (m - 1).toNat ∧
    (m ≤ 1 → (decodeKey u (.csi (p0 :: (m :: es) :: rest) fin)).mods = 0) := by
  have h : (decodeKey u (.csi (p0 :: (m :: es) :: rest) fin)).mods = (m - 1).toNat := by
    rw [decode_csi_total, csiDenotes, shiftFix_mods]
    simp [csiFields, csiFieldsNE]
  exact ⟨h, fun hm => by rw [h]; omega⟩

example : (decodeKey asciiUni (.csi [[97], [-5]] 117)).mods = 0 := (decode_csi_mods_clamp asciiUni [97] (-5) [] [] 117).2 (by decide)

/-! ## (A) The same chord under the legacy and the kitty encoding — character keys of any script

`c` is the key (its un-shifted character), `C` the character Shift produces on it.  The `unicode`
functions are an arbitrary oracle `u`; every hypothesis on it is written out (and evaluated at run
time on Go's real tables by the `hyp` ops of the C09 harness). -/

/-- `sameForMatching_sound` for every `unicode` oracle: two events that agree on all fields, or differ
    only in that the first carries the (unmodified) key's own character as text and the second none —
    provided no lower-case rune upper-cases to that character — have the same `String()` and match the
    same bindings. -/
theorem cross_protocol_same_for_matching (u : Uni) (k1 k2 : Key)
    (hk : k1.keycode = k2.keycode) (hs : k1.shifted = k2.shifted) (hb : k1.base = k2.base)
    (hm : k1.mods = k2.mods) (he : k1.event = k2.event)
    (ht : k1.text = k2.text ∨ OwnCharText u k1 k2) :
    keyString u k1 = keyString u k2 ∧ ∀ b m, «matches» u k1 b m = «matches» u k2 b m :=
  sameForMatching_sound_uni u k1 k2 hk hs hb hm he ht

/-- The ASCII criterion used by `cross_protocol`'s table is an instance of the general one. -/
theorem cross_protocol_ascii_is_instance (k1 k2 : Key) (h : sameForMatching k1 k2 = true) :
    keyString asciiUni k1 = keyString asciiUni k2 ∧ ∀ b m, «matches» asciiUni k1 b m = «matches» asciiUni k2 b m := by
  obtain ⟨hk, hs, hb, hm, he, ht⟩ := sameForMatching_is_instance k1 k2 h
  exact sameForMatching_sound_uni asciiUni k1 k2 hk hs hb hm he ht

/-- **cross_protocol_char_plain.** The unmodified character key `c` of any script: the legacy report
    (the character itself, `Print [c]`) and every kitty report `CSI c [;1[:1][;c]] u` (bare / with the
    modifier field / with the event type / with or without the text) decode to events with the same
    `String()` that match exactly the same bindings, for all binding runes and masks.
    The last textless-form hypothesis speaks only of lower-case runes with an upper case of their own
    (since the repair of F209, rule 6 of `Matches` does not fire for a rune that is its own upper case, so
    'ß' and the other 830 such letters are covered); Go's tables violate it only for the 27 title-case
    letters ᾈ … ῼ, which are what Shift + ᾀ … produces, not keys. -/
theorem cross_protocol_char_plain (u : Uni) (c : Int) (f : Form)
    (hv : validRune c = true) (hdel : c ≠ 127) (hup : u.isUpper c = false)
    (hfun : lookup2 (c, 117) functional = none)
    (hf : f.withShifted = false ∧ f.withBase = false)
    (hfffd : f.withText = false → c ≠ 0xFFFD)
    (hnolow : f.withText = false → ∀ r, u.isLower r = true → u.toUpper r ≠ r → u.toUpper r ≠ c) :
    let kL := decodeKey u (.print [c])
    let kK := decodeKey u (kittySeq c 117 { key := c, text := [c] } f)
    keyString u kL = keyString u kK ∧ ∀ b m, «matches» u kL b m = «matches» u kK b m := by
  intro kL kK
  have hL : kL = { keycode := c, text := [c] } := by
    show decodeKey u (.print [c]) = _
    rw [VaxisModel.Props.C09.decode_exact_print u [c] (by simp) (by simp [hup])]
    simp [printExpected, hup, hdel]
  have i0 : inRune 0 := ⟨by decide, by decide⟩
  have hK : kK = { keycode := c, text := if f.withText then [c] else [] } := by
    show decodeKey u (kittySeq c 117 { key := c, text := [c] } f) = _
    rw [VaxisModel.Props.C09.decode_exact_csi u c 117 _ f (validRune_inRune hv) i0 i0
      (by intro p hp; simp only [List.mem_singleton] at hp; subst hp; exact ⟨validRune_inRune hv, hv⟩)
      (Or.inr ⟨hfun, rfl⟩) (by omega) (by omega)]
    obtain ⟨ws, wb, wm, we, wt⟩ := f
    simp only at hf
    obtain ⟨rfl, rfl⟩ := hf
    have hs : stripLocks 0 ≠ shiftBit := by decide
    cases wm <;> cases we <;> cases wt <;> simp [kittyExpected, shiftFix, Form.hasMods, hs]
  rw [hL, hK]
  apply sameForMatching_sound_uni <;> try rfl
  cases hwt : f.withText
  · right
    exact ⟨rfl, rfl, by simp, hv, hfffd hwt, hnolow hwt⟩
  · left; simp

example : validRune 233 = true ∧ latinUni.isUpper 233 = false ∧ lookup2 (233, 117) functional = none ∧
    (∀ r, latinUni.isLower r = true → latinUni.toUpper r ≠ r → latinUni.toUpper r ≠ 233) := by
  refine ⟨by decide, by decide, by decide +kernel, ?_⟩
  intro r hl _
  simp only [latinUni, asciiUni, Bool.or_eq_true, decide_eq_true_eq] at hl ⊢
  split
  · omega
  · split <;> omega

example : validRune 97 = true ∧ asciiUni.isUpper 97 = false ∧ lookup2 (97, 117) functional = none ∧
    (∀ r, asciiUni.isLower r = true → asciiUni.toUpper r ≠ r → asciiUni.toUpper r ≠ 97) := by
  refine ⟨by decide, by decide, by decide +kernel, ?_⟩
  intro r hl _
  simp only [asciiUni, decide_eq_true_eq] at hl ⊢
  split <;> omega

/-- **cross_protocol_char_shift.** Shift + the cased letter key `c` (`C` its upper case): legacy
    `Print [C]` and every kitty report `CSI c:C ; 2[:1] [; C] u` (the shifted code and the modifier field
    present; event type and text optional).  Without the text field the decoder's Shift-text
    work-around supplies it from the reported shifted code (since the repair of F210; before, it invented
    `ToUpper c`, which is not `C` for i/İ, k/K, ß/ẞ): that needs `IsPrint c` and `IsPrint C`. -/
theorem cross_protocol_char_shift (u : Uni) (c C : Int) (f : Form)
    (hv : validRune c = true) (hV : validRune C = true) (hdel : c ≠ 127)
    (hup : u.isUpper C = true) (hlow : u.toLower C = c)
    (hfun : lookup2 (c, 117) functional = none)
    (hf : f.withShifted = true ∧ f.withBase = false ∧ f.hasMods = true)
    (hprint : f.withText = false → u.isPrint c = true)
    (hprintC : f.withText = false → u.isPrint C = true) :
    let kL := decodeKey u (.print [C])
    let kK := decodeKey u (kittySeq c 117 { key := c, mods := shiftBit, shifted := C, text := [C] } f)
    keyString u kL = keyString u kK ∧ ∀ b m, «matches» u kL b m = «matches» u kK b m := by
  intro kL kK
  have hL : kL = { keycode := c, shifted := C, mods := shiftBit, text := [C] } := by
    show decodeKey u (.print [C]) = _
    rw [VaxisModel.Props.C09.decode_exact_print u [C] (by simp) (by simp [hlow, hdel])]
    simp [printExpected, hup, hlow]
  have i0 : inRune 0 := ⟨by decide, by decide⟩
  have hK : kK = { keycode := c, shifted := C, mods := shiftBit, text := [C] } := by
    show decodeKey u (kittySeq c 117 { key := c, mods := shiftBit, shifted := C, text := [C] } f) = _
    rw [VaxisModel.Props.C09.decode_exact_csi u c 117 _ f (validRune_inRune hv) (validRune_inRune hV) i0
      (by intro p hp; simp only [List.mem_singleton] at hp; subst hp; exact ⟨validRune_inRune hV, hV⟩)
      (Or.inr ⟨hfun, rfl⟩) (by omega) (by omega)]
    obtain ⟨ws, wb, wm, we, wt⟩ := f
    simp only [Form.hasMods] at hf hprint hprintC
    obtain ⟨rfl, rfl, hmods⟩ := hf
    have hs : stripLocks shiftBit = shiftBit := by decide
    have hstr : strOfRune C = [C] := by simp [strOfRune, hV]
    cases wt
    · have hp := hprint rfl
      have ht := hprintC rfl
      cases wm <;> cases we <;> simp_all [kittyExpected, shiftFix, Form.hasMods]
    · cases wm <;> cases we <;> simp_all [kittyExpected, shiftFix, Form.hasMods]
  rw [hL, hK]
  exact ⟨rfl, fun _ _ => rfl⟩

example : validRune 233 = true ∧ validRune 201 = true ∧ latinUni.isUpper 201 = true ∧ latinUni.toLower 201 = 233 ∧
    lookup2 (233, 117) functional = none ∧ latinUni.isPrint 233 = true ∧ latinUni.isPrint 201 = true := by
  refine ⟨by decide, by decide, by decide, by decide, by decide +kernel, by decide, by decide⟩

/-- **cross_protocol_char_alt.** Alt + the character key `c`: legacy `ESC c` and the kitty reports
    `CSI c ; 3[:1] u` decode to the same event. -/
theorem cross_protocol_char_alt (u : Uni) (c : Int) (f : Form)
    (hv : validRune c = true) (hup : u.isUpper c = false)
    (hfun : lookup2 (c, 117) functional = none)
    (hf : f.withShifted = false ∧ f.withBase = false ∧ f.hasMods = true ∧ f.withText = false) :
    let kL := decodeKey u (.esc c)
    let kK := decodeKey u (kittySeq c 117 { key := c, mods := altBit } f)
    keyString u kL = keyString u kK ∧ ∀ b m, «matches» u kL b m = «matches» u kK b m := by
  intro kL kK
  have hL : kL = { keycode := c, mods := altBit } := by
    show decodeKey u (.esc c) = _
    rw [VaxisModel.Props.C09.decode_exact_esc]
    simp [escExpected, hup]
  have i0 : inRune 0 := ⟨by decide, by decide⟩
  have hK : kK = { keycode := c, mods := altBit } := by
    show decodeKey u (kittySeq c 117 { key := c, mods := altBit } f) = _
    rw [VaxisModel.Props.C09.decode_exact_csi u c 117 _ f (validRune_inRune hv) i0 i0
      (by simp) (Or.inr ⟨hfun, rfl⟩) (by omega) (by omega)]
    obtain ⟨ws, wb, wm, we, wt⟩ := f
    simp only [Form.hasMods] at hf
    obtain ⟨rfl, rfl, hmods, rfl⟩ := hf
    have hs : stripLocks altBit ≠ shiftBit := by decide
    cases wm <;> cases we <;> simp_all [kittyExpected, shiftFix, Form.hasMods]
  rw [hL, hK]
  exact ⟨rfl, fun _ _ => rfl⟩

/-- **cross_protocol_char_alt_shift.** Alt + Shift + the cased letter key `c`: legacy `ESC C` and the
    kitty reports `CSI c:C ; 4[:1] u` decode to the same event. -/
theorem cross_protocol_char_alt_shift (u : Uni) (c C : Int) (f : Form)
    (hv : validRune c = true) (hV : validRune C = true)
    (hup : u.isUpper C = true) (hlow : u.toLower C = c)
    (hfun : lookup2 (c, 117) functional = none)
    (hf : f.withShifted = true ∧ f.withBase = false ∧ f.hasMods = true ∧ f.withText = false) :
    let kL := decodeKey u (.esc C)
    let kK := decodeKey u (kittySeq c 117 { key := c, mods := altBit ||| shiftBit, shifted := C } f)
    keyString u kL = keyString u kK ∧ ∀ b m, «matches» u kL b m = «matches» u kK b m := by
  intro kL kK
  have hL : kL = { keycode := c, shifted := C, mods := altBit ||| shiftBit } := by
    show decodeKey u (.esc C) = _
    rw [VaxisModel.Props.C09.decode_exact_esc]
    simp [escExpected, hup, hlow]
  have i0 : inRune 0 := ⟨by decide, by decide⟩
  have hK : kK = { keycode := c, shifted := C, mods := altBit ||| shiftBit } := by
    show decodeKey u (kittySeq c 117 { key := c, mods := altBit ||| shiftBit, shifted := C } f) = _
    rw [VaxisModel.Props.C09.decode_exact_csi u c 117 _ f (validRune_inRune hv) (validRune_inRune hV) i0
      (by simp) (Or.inr ⟨hfun, rfl⟩) (by omega) (by omega)]
    obtain ⟨ws, wb, wm, we, wt⟩ := f
    simp only [Form.hasMods] at hf
    obtain ⟨rfl, rfl, hmods, rfl⟩ := hf
    have hs : stripLocks (altBit ||| shiftBit) ≠ shiftBit := by decide
    cases wm <;> cases we <;> simp_all [kittyExpected, shiftFix, Form.hasMods]
  rw [hL, hK]
  exact ⟨rfl, fun _ _ => rfl⟩

example : (({ withShifted := true, withMods := true, withEvent := true } : Form).hasMods = true) := by decide

/-! ## Multi-code-point grapheme clusters (e + U+0301, ZWJ sequences, flags …) -/

/-- **cross_protocol_grapheme_plain.** A grapheme cluster of several code points typed on the key `c`
    (compose / dead key / IME: `g = c :: rest`, `rest` any valid code points): the legacy report is the
    cluster itself (`Print g`), the kitty report carries it as associated text
    (`CSI c ; 1[:1] ; c:rest… u`).  Both decode to the SAME event (key `c`, text `g`), hence the same
    `String()` and the same bindings.  (Without the text field the kitty report cannot say which cluster
    was produced, so there is no textless counterpart.) -/
theorem cross_protocol_grapheme_plain (u : Uni) (c : Int) (rest : Str) (f : Form)
    (hv : validRune c = true) (hdel : c ≠ 127) (hup : u.isUpper c = false)
    (hrest : ∀ p ∈ rest, validRune p = true)
    (hfun : lookup2 (c, 117) functional = none)
    (hf : f.withShifted = false ∧ f.withBase = false ∧ f.withText = true) :
    decodeKey u (.print (c :: rest)) = decodeKey u (kittySeq c 117 { key := c, text := c :: rest } f) ∧
    decodeKey u (.print (c :: rest)) = { keycode := c, text := c :: rest } := by
  have hL : decodeKey u (.print (c :: rest)) = { keycode := c, text := c :: rest } := by
    rw [VaxisModel.Props.C09.decode_exact_print u (c :: rest) (by simp) (by simp [hup])]
    simp [printExpected, hup, hdel]
  have i0 : inRune 0 := ⟨by decide, by decide⟩
  have hK : decodeKey u (kittySeq c 117 { key := c, text := c :: rest } f) = { keycode := c, text := c :: rest } := by
    rw [VaxisModel.Props.C09.decode_exact_csi u c 117 _ f (validRune_inRune hv) i0 i0
      (by
        intro p hp
        simp only [List.mem_cons] at hp
        rcases hp with rfl | hp
        · exact ⟨validRune_inRune hv, hv⟩
        · exact ⟨validRune_inRune (hrest p hp), hrest p hp⟩)
      (Or.inr ⟨hfun, rfl⟩) (by omega) (by omega)]
    obtain ⟨ws, wb, wm, we, wt⟩ := f
    simp only at hf
    obtain ⟨rfl, rfl, rfl⟩ := hf
    cases wm <;> cases we <;> simp [kittyExpected, shiftFix, Form.hasMods]
  exact ⟨hL.trans hK.symm, hL⟩

/-- **cross_protocol_grapheme_shift.** The same for a cluster whose first code point is an upper-case
    letter `C` (Shift + `c` followed by combining marks: `É` typed as E + U+0301): legacy `Print (C :: rest)`
    and kitty `CSI c:C ; 2[:1] ; C:rest… u` decode to the same event (key `c`, shifted `C`, Shift, text). -/
theorem cross_protocol_grapheme_shift (u : Uni) (c C : Int) (rest : Str) (f : Form)
    (hv : validRune c = true) (hV : validRune C = true) (hdel : c ≠ 127)
    (hup : u.isUpper C = true) (hlow : u.toLower C = c)
    (hrest : ∀ p ∈ rest, validRune p = true)
    (hfun : lookup2 (c, 117) functional = none)
    (hf : f.withShifted = true ∧ f.withBase = false ∧ f.hasMods = true ∧ f.withText = true) :
    decodeKey u (.print (C :: rest)) =
      decodeKey u (kittySeq c 117 { key := c, mods := shiftBit, shifted := C, text := C :: rest } f) ∧
    decodeKey u (.print (C :: rest)) = { keycode := c, shifted := C, mods := shiftBit, text := C :: rest } := by
  have hL : decodeKey u (.print (C :: rest)) = { keycode := c, shifted := C, mods := shiftBit, text := C :: rest } := by
    rw [VaxisModel.Props.C09.decode_exact_print u (C :: rest) (by simp) (by simp [hlow, hdel])]
    simp [printExpected, hup, hlow]
  have i0 : inRune 0 := ⟨by decide, by decide⟩
  have hK : decodeKey u (kittySeq c 117 { key := c, mods := shiftBit, shifted := C, text := C :: rest } f) =
      { keycode := c, shifted := C, mods := shiftBit, text := C :: rest } := by
    rw [VaxisModel.Props.C09.decode_exact_csi u c 117 _ f (validRune_inRune hv) (validRune_inRune hV) i0
      (by
        intro p hp
        simp only [List.mem_cons] at hp
        rcases hp with rfl | hp
        · exact ⟨validRune_inRune hV, hV⟩
        · exact ⟨validRune_inRune (hrest p hp), hrest p hp⟩)
      (Or.inr ⟨hfun, rfl⟩) (by omega) (by omega)]
    obtain ⟨ws, wb, wm, we, wt⟩ := f
    simp only [Form.hasMods] at hf
    obtain ⟨rfl, rfl, hmods, rfl⟩ := hf
    cases wm <;> cases we <;> simp_all [kittyExpected, shiftFix, Form.hasMods]
  exact ⟨hL.trans hK.symm, hL⟩

example : validRune 101 = true ∧ asciiUni.isUpper 101 = false ∧ (∀ p ∈ [769], validRune p = true) ∧
    lookup2 (101, 117) functional = none := by
  refine ⟨by decide, by decide, by decide, by decide +kernel⟩

/-! ## The run-time evaluators of the hypotheses (`Spec.KeyEncUni.hyp*`, used by the driver) imply the theorems' hypotheses -/

/-- The run-time form of `cross_protocol_char_plain`: when the Bool evaluator the driver runs on Go's
    values (`hyp plain` ops) finds no violated hypothesis, and the table lists every lower-case rune
    of `u` (the driver's `mkUni` answers `false` outside the table; the harness lists every
    lower-case pre-image of `c`), the conclusion holds for that `u`.  So every `xpu plain hyp-ok` case
    is an instance of the theorem. -/
theorem cross_protocol_char_plain_checked (u : Uni) (dom : List Int) (c : Int) (f : Form)
    (hf : f.withShifted = false ∧ f.withBase = false)
    (hdom : ∀ r, r ∉ dom → u.isLower r = false)
    (hok : violated (hypPlain u dom c f.withText) = []) :
    let kL := decodeKey u (.print [c])
    let kK := decodeKey u (kittySeq c 117 { key := c, text := [c] } f)
    keyString u kL = keyString u kK ∧ ∀ b m, «matches» u kL b m = «matches» u kK b m := by
  cases hwt : f.withText
  · rw [hwt] at hok
    simp [violated, hypPlain, noLowerMapsTo] at hok
    obtain ⟨hv, hdel, hup, hfun, hfffd, hno⟩ := hok
    refine cross_protocol_char_plain u c f hv hdel hup hfun hf (fun _ => hfffd) (fun _ r hl hne => ?_)
    by_cases hr : r ∈ dom
    · rcases hno r hr with (h | h) | h
      · rw [h] at hl; cases hl
      · exact absurd h hne
      · exact h
    · rw [hdom r hr] at hl; cases hl
  · rw [hwt] at hok
    simp [violated, hypPlain] at hok
    obtain ⟨hv, hdel, hup, hfun⟩ := hok
    exact cross_protocol_char_plain u c f hv hdel hup hfun hf (fun h => by rw [hwt] at h; cases h) (fun h => by rw [hwt] at h; cases h)

example : violated (hypPlain latinUni [97, 233, 201, 223] 233 false) = [] := by decide +kernel
example : violated (hypPlain latinUni [97, 233, 201, 223] 223 false) = [] := by decide +kernel
example : violated (hypPlain latinUni [97, 233, 201, 223] 201 false) = ["notUpper", "noLowerMapsTo"] := by decide +kernel

/-- Run-time form of `cross_protocol_char_shift` (`hyp shift` ops). -/
theorem cross_protocol_char_shift_checked (u : Uni) (c C : Int) (f : Form)
    (hf : f.withShifted = true ∧ f.withBase = false ∧ f.hasMods = true)
    (hok : violated (hypShift u c C f.withText) = []) :
    let kL := decodeKey u (.print [C])
    let kK := decodeKey u (kittySeq c 117 { key := c, mods := shiftBit, shifted := C, text := [C] } f)
    keyString u kL = keyString u kK ∧ ∀ b m, «matches» u kL b m = «matches» u kK b m := by
  cases hwt : f.withText
  · rw [hwt] at hok
    simp [violated, hypShift] at hok
    obtain ⟨⟨hv, hV⟩, hup, hlow, hdel, hfun, hpr, htu⟩ := hok
    exact cross_protocol_char_shift u c C f hv hV hdel hup hlow hfun hf (fun _ => hpr) (fun _ => htu)
  · rw [hwt] at hok
    simp [violated, hypShift] at hok
    obtain ⟨⟨hv, hV⟩, hup, hlow, hdel, hfun⟩ := hok
    exact cross_protocol_char_shift u c C f hv hV hdel hup hlow hfun hf (fun h => by rw [hwt] at h; cases h) (fun h => by rw [hwt] at h; cases h)

example : violated (hypShift latinUni 233 201 false) = [] := by decide +kernel

/-- Run-time form of `cross_protocol_char_alt` (`hyp alt` ops). -/
theorem cross_protocol_char_alt_checked (u : Uni) (c : Int) (f : Form)
    (hf : f.withShifted = false ∧ f.withBase = false ∧ f.hasMods = true ∧ f.withText = false)
    (hok : violated (hypAlt u c) = []) :
    let kL := decodeKey u (.esc c)
    let kK := decodeKey u (kittySeq c 117 { key := c, mods := altBit } f)
    keyString u kL = keyString u kK ∧ ∀ b m, «matches» u kL b m = «matches» u kK b m := by
  simp [violated, hypAlt] at hok
  obtain ⟨hv, hup, hfun⟩ := hok
  exact cross_protocol_char_alt u c f hv hup hfun hf

/-- Run-time form of `cross_protocol_char_alt_shift` (`hyp altshift` ops). -/
theorem cross_protocol_char_alt_shift_checked (u : Uni) (c C : Int) (f : Form)
    (hf : f.withShifted = true ∧ f.withBase = false ∧ f.hasMods = true ∧ f.withText = false)
    (hok : violated (hypAltShift u c C) = []) :
    let kL := decodeKey u (.esc C)
    let kK := decodeKey u (kittySeq c 117 { key := c, mods := altBit ||| shiftBit, shifted := C } f)
    keyString u kL = keyString u kK ∧ ∀ b m, «matches» u kL b m = «matches» u kK b m := by
  simp [violated, hypAltShift] at hok
  obtain ⟨⟨hv, hV⟩, hup, hlow, hfun⟩ := hok
  exact cross_protocol_char_alt_shift u c C f hv hV hup hlow hfun hf

example : violated (hypAlt latinUni 233) = [] ∧ violated (hypAltShift latinUni 233 201) = [] := by decide +kernel

end VaxisModel.Props.C09Uni
