/-
C09, round 2 — (B) decoding of CSI key reports for EVERY parameter list over ℤ, and
(A) protocol independence for character keys of ANY script over an abstract `unicode` oracle.
Property theorems and non-vacuity examples only (helpers: Lemmas/KeyUni.lean; spec: Spec/KeyEncUni.lean).
-/
import VaxisModel.Model.Key
import VaxisModel.Spec.KeyEnc
import VaxisModel.Spec.KeyEncUni
import VaxisModel.Lemmas.KeyMatch
import VaxisModel.Lemmas.KeyDecode
import VaxisModel.Lemmas.KeyCross
import VaxisModel.Lemmas.KeyUni
import VaxisModel.Props.C09

namespace VaxisModel.Props.C09Uni
open VaxisModel.Model.Key VaxisModel.Spec.KeyEnc VaxisModel.Spec.KeyEncUni VaxisModel.Gen.Keys
open VaxisModel.Lemmas.KeyMatch VaxisModel.Lemmas.KeyDecode VaxisModel.Lemmas.KeyCross VaxisModel.Lemmas.KeyUni

/-! ## (B) `decodeKey` on `CSI params final` for every parameter list over ℤ -/

/-- Go's `rune(x)` as the model writes it (`(x + 2^31) mod 2^32 − 2^31`) is the Spec's `wrap32`
    (Euclidean remainder folded into [−2^31, 2^31)). -/
theorem rune_conversion_is_wrap32 (x : Int) : toRune x = wrap32 x := toRune_eq_wrap32 x

/-- **decode_csi_total.** For EVERY parameter list — any number of parameters, any number of
    sub-parameters (including none: the parser never produces an empty sub-list, C02
    `params_nonempty`, but nothing here depends on that), any integer values, any final — `decodeKey`
    returns exactly the key the closed form `Spec.KeyEncUni.csiDenotes` describes: key code =
    Shift+Tab / functional-key table / the number as a 32-bit rune; shifted and base-layout code as
    32-bit runes; mask = `max (mods − 1) 0`; event = `event − 1`; text = the code points (U+FFFD for
    invalid ones) or, for `CSI 27;m;code ~`, the key; parameters beyond the third and sub-parameters
    beyond the documented ones are ignored; then the Shift-text work-around.
    No index panic is possible: the Go code reads `pm[0]` only inside `for j, ps := range pm` (and
    under `len(pm) > 0`), and the closed form never consults a default for an absent field. -/
theorem decode_csi_total (u : Uni) (params : List (List Int)) (fin : Int) :
    decodeKey u (.csi params fin) = csiDenotes u params fin := by
  rw [decodeKey_eq, decodeRaw_csi_fields u params fin
    (lookup2_tables_agree VaxisModel.Props.C09.specials_is_spec.1 VaxisModel.Props.C09.specials_is_spec.2)]
  rfl

/-- The form asked for by the parser's guarantee (every sub-list non-empty) is an instance. -/
theorem decode_csi_total_parsed (u : Uni) (params : List (List Int)) (fin : Int)
    (_hne : ∀ pm ∈ params, pm ≠ []) : decodeKey u (.csi params fin) = csiDenotes u params fin :=
  decode_csi_total u params fin

example : (∀ pm ∈ [[97, 65], [2, 1], [65]], pm ≠ ([] : List Int)) := by decide
example : decodeKey asciiUni (.csi [[97, 65], [2, 1], [65]] 117) =
    { keycode := 97, shifted := 65, mods := 1, event := 0, text := [65] } := by decide
example : csiDenotes asciiUni [[4294967393]] 117 = { keycode := 97 } := by decide

/-- The `headD` default in the model of the modifier loop (`pm[0]` in Go) is never used: replacing it
    by any other value `d` gives the same result, for every sub-parameter list (even the empty one). -/
theorem csi_mods_default_unused (d : Int) (p1 : List Int) (key : Key) :
    csiModsD d p1 p1 0 key = csiMods p1 p1 0 key := csiMods_default_unused d p1 key

/-- (i) On 31-bit non-negative parameters the closed form is the kitty/xterm report's key
    (`decode_exact_csi`'s value): the two specifications agree where both speak. -/
theorem decode_csi_in_range (u : Uni) (num fin : Int) (c : Chord) (f : Form)
    (hnum : inRune num) (hsh : inRune c.shifted) (hbase : inRune c.base)
    (htext : ∀ p ∈ c.text, inRune p ∧ validRune p = true)
    (hkey : lookup2 (num, fin) functional = some c.key ∨ (lookup2 (num, fin) functional = none ∧ c.key = num))
    (hZ : ¬(num = 1 ∧ fin = 90)) (hmok : ¬(c.key = 27 ∧ fin = 126)) :
    (match kittySeq num fin c f with
     | .csi params fin' => csiDenotes u params fin'
     | _ => {}) = kittyExpected u c f := by
  rw [← VaxisModel.Props.C09.decode_exact_csi u num fin c f hnum hsh hbase htext hkey hZ hmok]
  unfold kittySeq
  exact (decode_csi_total u _ _).symm

/-- (ii) `rune(x)` is 2^32-periodic … -/
theorem wrap32_congruence (x n : Int) : wrap32 (x + 4294967296 * n) = wrap32 x := wrap32_periodic x n

/-- … so the key-code field is read modulo 2^32: `CSI 4294967393 u` is the key `a` (97). -/
theorem decode_csi_mod_2_32 (u : Uni) (p n : Int) (sub : List Int) (rest : List (List Int)) (fin : Int) :
    decodeKey u (.csi (((p + 4294967296 * n) :: sub) :: rest) fin) = decodeKey u (.csi ((p :: sub) :: rest) fin) := by
  rw [decode_csi_total, decode_csi_total]
  simp only [csiDenotes, csiFields, csiFieldsNE, isShiftTab, csiKeyOf, isModifyOther, reduceCtorEq, if_false,
    List.getElem?_cons_zero, List.getElem?_cons_succ, Option.getD_some, wrap32_periodic]

example : decodeKey asciiUni (.csi [[4294967393]] 117) = decodeKey asciiUni (.csi [[97]] 117) :=
  decode_csi_mod_2_32 asciiUni 97 1 [] [] 117

/-- (iii) A key-code parameter in [2^31, 2^32) is a NEGATIVE key code `p − 2^32` (never a functional
    key, never Shift+Tab, never the modifyOtherKeys form), and its `String()` is "invalid". -/
theorem decode_csi_high_half_invalid (u : Uni) (p : Int) (sub : List Int) (rest : List (List Int)) (fin : Int)
    (h0 : 2147483648 ≤ p) (h1 : p < 4294967296) :
    (decodeKey u (.csi ((p :: sub) :: rest) fin)).keycode = p - 4294967296 ∧
    keyString u (decodeKey u (.csi ((p :: sub) :: rest) fin)) = [105, 110, 118, 97, 108, 105, 100] := by
  have hw := wrap32_high p h0 h1
  have hneg : wrap32 p < 0 := by omega
  have hkc : (decodeKey u (.csi ((p :: sub) :: rest) fin)).keycode = p - 4294967296 := by
    rw [decode_csi_total, csiDenotes, shiftFix_keycode]
    have hk : csiKeyOf (p :: sub) fin = wrap32 p := by
      have hz : ¬(wrap32 p = 1 ∧ fin = 90) := by omega
      simp [csiKeyOf, isShiftTab, hz, lookup2_neg (wrap32 p) fin hneg functional functional_nonneg]
    have hm : isModifyOther (p :: sub) fin = false := by
      simp only [isModifyOther, hk, decide_eq_false_iff_not]; omega
    simp only [csiFields, csiFieldsNE, reduceCtorEq, if_false, List.getElem?_cons_zero, Option.getD_some, hk, hm,
      Bool.false_eq_true]
    split <;> exact hw
  exact ⟨hkc, keyString_neg u _ (by rw [hkc]; omega)⟩

example : keyString asciiUni (decodeKey asciiUni (.csi [[4294967295]] 117)) = [105, 110, 118, 97, 108, 105, 100] := by decide

/-- (iv) The modifier parameter is `mask + 1`; the decoded mask is `max (m − 1) 0` — in particular a
    parameter ≤ 1 (0 = omitted field, negative values) gives the empty mask. -/
theorem decode_csi_mods_clamp (u : Uni) (p0 : List Int) (m : Int) (es : List Int) (rest : List (List Int)) (fin : Int) :
    (decodeKey u (.csi (p0 :: (m :: es) :: rest) fin)).mods = (m - 1).toNat ∧
    (m ≤ 1 → (decodeKey u (.csi (p0 :: (m :: es) :: rest) fin)).mods = 0) := by
  have h : (decodeKey u (.csi (p0 :: (m :: es) :: rest) fin)).mods = (m - 1).toNat := by
    rw [decode_csi_total, csiDenotes, shiftFix_mods]
    simp [csiFields, csiFieldsNE]
  exact ⟨h, fun hm => by rw [h]; omega⟩

example : (decodeKey asciiUni (.csi [[97], [-5]] 117)).mods = 0 := (decode_csi_mods_clamp asciiUni [97] (-5) [] [] 117).2 (by decide)

end VaxisModel.Props.C09Uni
