import VaxisModel.Lemmas.Conc
import VaxisModel.Gen.Conc

/-!
# C10 — concurrent use: ordering, no lost blocking post, lock order (message level)

Data-race freedom itself is a property of the Go memory model and is outside any theorem here
(DESIGN §10); the `-race` runs of the harness are supporting evidence for the correspondence only.
Shutdown theorems and the witnesses of the recorded findings are in `Props/C10Shutdown.lean` and
`Witness/F13.lean`, `F33.lean`, `F53.lean`.
-/
namespace VaxisModel.Props.C10
open VaxisModel.Model.Conc VaxisModel.Lemmas.Conc

/-- Events posted by one goroutine are delivered in posting order: in every reachable state of the
queue LTS (any number of posters, any mix of blocking / non-blocking posts, any capacity, any
interleaving, any number of steps) the indices of goroutine `g`'s delivered events increase. -/
theorem fifo_per_poster (qcap : Nat) (s : QSys) (h : QReachable qcap s) (g : Nat) :
    ((s.delivered.filter (·.g == g)).map (·.i)).Pairwise (· < ·) := by
  have inv := qinv_reachable qcap s h
  have hsub : s.delivered.Sublist s.posted := (List.sublist_append_left _ _).trans inv.sub
  exact (numbered_increasing s.posted inv.numbered g).sublist ((hsub.filter _).map _)

/-- The same for what is still queued behind what was delivered (the channel is FIFO). -/
theorem fifo_queue (qcap : Nat) (s : QSys) (h : QReachable qcap s) (g : Nat) :
    (((s.delivered ++ s.queue).filter (·.g == g)).map (·.i)).Pairwise (· < ·) := by
  have inv := qinv_reachable qcap s h
  exact (numbered_increasing s.posted inv.numbered g).sublist ((inv.sub.filter _).map _)

/-- A blocking post is never dropped while the session runs (until `Close` has completed and closed
`chQuit`): once `PostEventBlocking` has returned, the event is in the queue or has been delivered,
and nothing in `dropped` is a blocking post. -/
theorem blocking_post_never_dropped (qcap : Nat) (s : QSys) (h : QReachable qcap s) (hq : s.quit = false) :
    (∀ e ∈ s.posted, e.blocking = true → e ∈ s.delivered ++ s.queue) ∧ ∀ e ∈ s.dropped, e.blocking = false :=
  ⟨(qinv_reachable qcap s h).blocking hq, (qinv_reachable qcap s h).droppedNB hq⟩

/-- Contrapositive, for every reachable state: a blocking post that was dropped was dropped after
`Close` had completed (F53 repaired: `PostEventBlocking` gives up only on the closed `chQuit`). -/
theorem blocking_post_dropped_only_after_quit (qcap : Nat) (s : QSys) (h : QReachable qcap s)
    (e : Ev) (he : e ∈ s.dropped) (hb : e.blocking = true) : s.quit = true := by
  cases hq : s.quit with
  | true => rfl
  | false => have := (qinv_reachable qcap s h).droppedNB hq e he; simp [hb] at this

/-- … and it is delivered after at most `queue.length` further receives. -/
theorem blocking_post_delivered (qcap : Nat) (s : QSys) (h : QReachable qcap s) (hq : s.quit = false) :
    ∃ s', qrun qcap s (List.replicate s.queue.length .consume) = some s' ∧ s'.queue = [] ∧
      ∀ e ∈ s.posted, e.blocking = true → e ∈ s'.delivered := by
  have hb := (qinv_reachable qcap s h).blocking hq
  have key : ∀ (q : List Ev) (t : QSys), t.queue = q →
      ∃ t', qrun qcap t (List.replicate q.length .consume) = some t' ∧ t'.queue = [] ∧
        t'.delivered = t.delivered ++ q ∧ t'.posted = t.posted := by
    intro q
    induction q with
    | nil => intro t ht; exact ⟨t, rfl, ht, by simp, rfl⟩
    | cons e r ih =>
      intro t ht
      obtain ⟨t', h1, h2, h3, h4⟩ := ih { t with queue := r, delivered := t.delivered ++ [e] } rfl
      refine ⟨t', ?_, h2, ?_, h4⟩
      · simp [List.replicate, qrun, qnext, ht, h1]
      · simpa [List.append_assoc] using h3
  obtain ⟨s', h1, h2, h3, _⟩ := key s.queue s rfl
  exact ⟨s', h1, h2, fun e he hbl => by rw [h3]; exact hb e he hbl⟩

/-- Nothing is invented or duplicated: what the application has received plus what is queued is a
subsequence of what was posted. -/
theorem delivered_sublist_posted (qcap : Nat) (s : QSys) (h : QReachable qcap s) :
    (s.delivered ++ s.queue).Sublist s.posted :=
  (qinv_reachable qcap s h).sub

/-- Non-vacuity: two posters, capacity 1; poster 1's non-blocking post is dropped, poster 0's
blocking post waits for the receive and is delivered. -/
example :
    (match qrun 1 {} [.post 0 true, .post 1 false, .consume, .post 0 true, .consume] with
     | some s => s.delivered.map (fun e => (e.g, e.i)) == [(0, 0), (0, 1)] && s.dropped.map (fun e => (e.g, e.i)) == [(1, 0)]
     | none => false) = true := by decide

/-- `PostEvent` is the non-blocking `select … default`, `PostEventBlocking` the bare send, and
neither hands the send to another goroutine (which would break the per-poster order). -/
theorem post_shapes :
    Gen.Conc.postKinds = [("PostEvent", ["nonblocking"]), ("PostEventBlocking", ["blocking"])] := by decide +kernel

/-- Lock order: over every function of vaxis.go, vaxis_unix.go, writer.go, window.go, ansi/parser.go
and the spinner that locks a mutex directly or through calls (regenerated on every run; round 3:
events with their branch structure — a `return` ends its branch only —, callees qualified by the
receiver's type, calls followed four levels deep through every function that locks transitively),
the "acquired while holding" relation has no self-loop (Go mutexes are not re-entrant) and no pair
in both directions: `Vaxis.mu`, `Vaxis.closeMu`, `Vaxis.suspendMu`, `writer.mut`, `Parser.mu` and the
spinner's mutex are never held nested in opposite orders. (`Suspend` and `Resume` hold `suspendMu`
across the writer's flush: the one nesting there is, `suspendMu → writer.mut`.) -/
theorem lock_order :
    ∀ p ∈ allNested Gen.Conc.lockSites, p.1 ≠ p.2 ∧ (p.2, p.1) ∉ allNested Gen.Conc.lockSites := by decide +kernel

/-- The nesting that exists is found (the computation is not vacuous on the real table), and the
functions that run under `suspendMu` reach the writer's mutex only. -/
theorem lock_nesting_found :
    ("Vaxis.suspendMu", "writer.mut") ∈ allNested Gen.Conc.lockSites ∧
    ∀ p ∈ allNested Gen.Conc.lockSites, p.1 = "Vaxis.suspendMu" → p.2 = "writer.mut" := by decide +kernel

/-- A `return` inside a branch ends that branch only: the lock taken before the branch is still held
after it (the flattened event list of rounds 1–2 lost it there). -/
example : allNested [("t.f", ["L:A", "D:A", "{", "R", "}", "C:T.g"]), ("T.g", ["L:B", "U:B"]), ("U.g", ["L:C", "U:C"])]
    = [("A", "B")] := by decide +kernel

/-- Non-vacuity of the lock-order computation: an inversion is found when there is one. -/
example : allNested [("a.f", ["L:A", "C:g", "U:A"]), ("b.g", ["L:B", "D:B", "C:h"]), ("c.h", ["L:A", "U:A"])]
    = [("A", "B"), ("A", "A"), ("B", "A")] := by decide +kernel

/-- The input goroutine reads from the parser it was started for (a local), not from the field
`vx.parser`, which `Resume` replaces (F110 repaired): the goroutine of a suspended session cannot
attach itself to the resumed session's parser. -/
theorem input_loop_reads_its_own_parser : Gen.Conc.inputLoopParserRefs = ["parser", "parser"] := by decide +kernel

/-- The parser's channels have the capacities the shutdown LTS assumes. -/
theorem parser_channels :
    Gen.Conc.parserChans = [("close", "1"), ("closed", "1"), ("sequences", "2")] := by decide +kernel

end VaxisModel.Props.C10
