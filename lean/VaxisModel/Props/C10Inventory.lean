import VaxisModel.Gen.Conc
import VaxisModel.Model.ConcInventory

/-!
# C10 — the inventory of goroutines, timers, mutexes, lock sites and channels is complete

Everything here is a statement about `Gen/Conc.lean`, regenerated from the source on every run: a new
`go` statement, timer, mutex, Lock/Unlock call, channel, or a hand-off send that can block, breaks a
theorem of this file.
-/
namespace VaxisModel.Props.C10Inventory
open VaxisModel.Model.ConcInventory

/-- Every `go` statement of the root package, the parser and the spinner is one the models know. -/
theorem go_inventory_complete :
    Gen.Conc.goSites = [("image.go", "KittyImage.Resize", "func-literal"), ("image.go", "Sixel.Resize", "func-literal"),
      ("vaxis.go", "Vaxis.openTty", "func-literal"), ("ansi/parser.go", "NewParser", "parser.run"),
      ("widgets/spinner/spinner.go", "Model.start", "func-literal")] ∧
    (∀ g ∈ Gen.Conc.goSites, (modelledBy g).isSome = true) ∧
    Gen.Conc.goSitesOtherOS = [("vaxis_windows.go", "Vaxis.setupSignals", "vx.winch")] := by decide +kernel

/-- Every timer is one the models know. -/
theorem timer_inventory_complete :
    Gen.Conc.timerSites = [("vaxis.go", "Vaxis.CursorPosition", "NewTimer"), ("vaxis_unix.go", "Vaxis.reportWinsize", "NewTimer"),
      ("ansi/parser.go", "anywhere", "AfterFunc"), ("widgets/spinner/spinner.go", "Model.start", "NewTicker")] ∧
    (∀ t ∈ Gen.Conc.timerSites, (timerModelledBy t).isSome = true) := by decide +kernel

/-- Every Lock/Unlock call expression of the scanned files (found by a plain walk, function literals
included) is an event of `lockSites` — the table `lock_order` is proved over; every mutex field is
known; every file of the root package is scanned (other-OS files listed separately). -/
theorem lock_inventory_complete :
    Gen.Conc.lockCallCount = Gen.Conc.lockSitesCount ∧
    Gen.Conc.mutexFields = [("Vaxis", "closeMu"), ("Vaxis", "suspendMu"), ("Vaxis", "mu"), ("writer", "mut"), ("Parser", "mu"),
      ("Model", "mu")] ∧
    (∀ f ∈ Gen.Conc.rootFilesAll, f ∈ Gen.Conc.filesScanned ∨ f ∈ Gen.Conc.rootFilesOtherOS) ∧
    Gen.Conc.rootFilesOtherOS = ["vaxis_windows.go"] := by decide +kernel

/-- The channels of Vaxis with their capacities; no hand-off send in `handleSequence` can block the
input goroutine for ever (non-blocking, or bounded by a 10 ms context for the clipboard); which
requesters wait without a time-out (`QueryColor`, `QueryForeground`, `QueryBackground`: bare receive). -/
theorem handoff_channels :
    Gen.Conc.chanMakes = [("queue", "Event", "opts.EventQueueSize"), ("chClipboard", "string", "0"), ("chSigWinSz", "os.Signal", "1"),
      ("chSigKill", "os.Signal", "1"), ("chCursorPos", "[2]int", "1"), ("chQuit", "bool", "0"), ("chSizeDone", "bool", "1"),
      ("chFg", "string", "1"), ("chBg", "string", "1"), ("chColor", "string", "1")] ∧
    Gen.Conc.handoffSends = [("handleSequence:chCursorPos", "nonblocking"), ("handleSequence:chSizeDone", "nonblocking"),
      ("handleSequence:chColor", "nonblocking"), ("handleSequence:chFg", "nonblocking"), ("handleSequence:chBg", "nonblocking"),
      ("handleSequence:chClipboard", "bounded")] ∧
    (∀ s ∈ Gen.Conc.handoffSends, s.2 = "nonblocking" ∨ s.2 = "bounded") ∧
    Gen.Conc.handoffRecvs = [("QueryColor", "chColor", "select-default"), ("QueryColor", "chColor", "bare"),
      ("QueryForeground", "chFg", "select-default"), ("QueryForeground", "chFg", "bare"),
      ("QueryBackground", "chBg", "select-default"), ("QueryBackground", "chBg", "bare"),
      ("openTty", "chSigWinSz", "select"), ("openTty", "chSigKill", "select"), ("CursorPosition", "chCursorPos", "select-default"),
      ("CursorPosition", "chCursorPos", "select-timeout"), ("ClipboardPop", "chClipboard", "select-ctx"),
      ("reportWinsize", "chSizeDone", "select-timeout")] := by decide +kernel

/-- `SyncFunc` is a `PostEvent`; `Resize` is an atomic store followed by a `PostEvent`: both are the
label `post g false` of the queue LTS. -/
theorem syncfunc_resize_are_posts :
    Gen.Conc.calls_SyncFunc = ["vx.PostEvent"] ∧ Gen.Conc.calls_Resize = ["atomicStore", "vx.PostEvent"] := by decide +kernel

end VaxisModel.Props.C10Inventory
