import VaxisModel.Model.ConcProtect

/-!
# C10 — the data-race clause as a statement about the locking discipline (round 4)

"Without data races" is a property of the Go memory model; the `-race` runs of the harness are
supporting evidence only.  What is stated here — over facts regenerated from the source on every run
(`Gen.Conc.fieldAccesses`, `funcRoles`, see extract/cmd/C10/protect.go) — is which shared variable is
protected by which lock or by atomics, and that every other shared variable is on an explicit,
justified list.  A new unprotected access (a field written from a second goroutine, an access outside
the mutex, a plain access to an atomic field) changes a Gen fact and `protected_by` /
`shared_fields_protected` stop checking.
-/
namespace VaxisModel.Props.C10Protect
open VaxisModel.Model.ConcProtect VaxisModel.Gen.Conc

/-- **Which shared variable is protected by which lock / by atomics**: exactly these fields are
accessed by two goroutines with a write among the accesses AND have all their accesses atomic or
under one common mutex (mutexes held at every call site of a function count as held inside it). -/
theorem protected_by :
    protectedFields funcRoles fieldAccesses =
      [("Model.frame", .lock "spinner.Model.mu"),
       ("Parser.escGen", .lock "Parser.mu"),
       ("Parser.ignoreST", .lock "Parser.mu"),
       ("Parser.state", .lock "Parser.mu"),
       ("Vaxis.closed", .lock "Vaxis.closeMu"),
       ("Vaxis.nextSize", .lock "Vaxis.mu"),
       ("Vaxis.reqCursorPos", .atomic),
       ("Vaxis.resize", .atomic),
       ("Vaxis.suspended", .lock "Vaxis.suspendMu")] := by
  decide +kernel

/-- The shared fields that are NOT under a common lock / atomic, each with the reason why the accesses
cannot overlap — or the finding that says they can. -/
def confinedBy : List (String × String) :=
  [("Model.Frames", "assigned in Model.start before its `go` statement (the default frames), read by the spinner goroutine afterwards: published by the go statement"),
   ("Vaxis.charCache", "F410: written by the main goroutine while it renders, `len` read by Close — which the kill-signal arm / panic handler run on another goroutine"),
   ("Vaxis.console", "assigned by openTty only (New; Resume under suspendMu); Suspend reads it under suspendMu; the queries of the any-goroutine API read it without a lock: API contract (no queries while suspended / resuming)"),
   ("Vaxis.cursorLast", "F410: written by Render (main goroutine) and by Suspend inside the Close that the kill-signal arm / panic handler run on another goroutine"),
   ("Vaxis.cursorNext", "F410: written by ShowCursor / HideCursor (main goroutine) and by exitAltScreen inside that Close; read by the writer on both"),
   ("Vaxis.elapsed", "F410: written by Render, read by Close's log line on another goroutine"),
   ("Vaxis.parser", "assigned by openTty only (New; Resume under suspendMu), read by Suspend under suspendMu; the input goroutine uses its own copy (F110 repaired)"),
   ("Vaxis.renders", "F410: written by Render, read by Close's log line on another goroutine"),
   ("Vaxis.tw", "assigned by openTty only (New; Resume under suspendMu); readers as for Vaxis.console"),
   ("Vaxis.userCursorStyle", "written by the input goroutine (under Vaxis.mu) on the DECRPSS reply, which only start-up solicits while New waits; read by Suspend (under suspendMu) after New has returned"),
   ("Vaxis.winSize", "written by Render on a size change; read by the image-resize goroutines (KittyImage.Resize / Sixel.Resize) through cellPixelSize: these goroutines are not among the actors of the property text — noted, not judged"),
   ("writer.buf", "F410: the writer's buffer has no lock (writer.mut covers only the write to the console): the main goroutine's Render and the Close run by the kill-signal arm / panic handler write it concurrently")]

/-- **Every shared field is protected, or on the justified list — and the list is exact**: the fields
that two goroutines can access with a write among the accesses and that are neither all-atomic nor
under one common mutex are exactly those of `confinedBy`.  A new unprotected shared access makes the
computed list differ. -/
theorem shared_fields_protected :
    unprotectedFields funcRoles fieldAccesses = confinedBy.map (·.1) ∧
    ∀ fp ∈ classify funcRoles fieldAccesses, fp.2 ≠ .none ∨ fp.1 ∈ confinedBy.map (·.1) := by
  decide +kernel

/-- The entry points the analysis treats as callable from any goroutine are those of the property text
("post events, queue functions for the main goroutine, request resizes and issue terminal queries"). -/
theorem any_goroutine_api :
    anyGoroutineAPI = ["Vaxis.PostEvent", "Vaxis.PostEventBlocking", "Vaxis.SyncFunc", "Vaxis.Resize",
      "Vaxis.CursorPosition", "Vaxis.QueryColor", "Vaxis.QueryForeground", "Vaxis.QueryBackground", "Vaxis.ClipboardPop"] := by
  decide

/-- The goroutines of the library are recognised as roots: the input goroutine, the parser, the escape
timer's callback, the spinner; every function with an access has at least one role. -/
theorem roles_complete :
    rolesOf funcRoles "Vaxis.openTty.func1" = ["input"] ∧ rolesOf funcRoles "Parser.run" = ["parser"] ∧
    rolesOf funcRoles "anywhere.func1" = ["timer"] ∧ rolesOf funcRoles "Model.start.func1" = ["spinner"] ∧
    rolesOf funcRoles "Vaxis.handleSequence" = ["input"] ∧
    (funcRoles.all fun fr => !fr.2.isEmpty) = true ∧
    (fieldAccesses.all fun a => (funcRoles.any fun fr => fr.1 == a.2.1)) = true := by
  decide +kernel

-- Non-vacuity of the classifier: an access outside the mutex, or a plain access to an atomic field, is seen.
example : classify [("f", ["main"]), ("g", ["input"])] [("S.x", "f", "w", "S.mu"), ("S.x", "g", "r", "")] = [("S.x", .none)] := by decide
example : classify [("f", ["main"]), ("g", ["input"])] [("S.x", "f", "w", "S.mu"), ("S.x", "g", "r", "S.mu+T.mu")] = [("S.x", .lock "S.mu")] := by decide
example : classify [("f", ["any"])] [("S.n", "f", "a", ""), ("S.n", "f", "r", "")] = [("S.n", .none)] := by decide
example : classify [("f", ["main"]), ("g", ["main"])] [("S.x", "f", "w", ""), ("S.x", "g", "r", "")] = [] := by decide

end VaxisModel.Props.C10Protect
