import VaxisModel.Props.C10Shutdown
import VaxisModel.Model.ConcSession
import VaxisModel.Lemmas.ConcPersist

/-!
# C10 — the side condition of `Resume` as an explicit precondition; the kill signal that finds the input goroutine blocked

`session_invariant` allows `Close`, `Suspend`, kill signals and panics from any goroutine at any
moment; only `Resume` keeps a side condition.  It is the API contract ("Resume after your Suspend has
returned, and not after Close") and is not enforced by the code.  This file states it as a
precondition theorem, shows on the LTS what happens without it, and the harness shows the same on the
real code (op `contract`: `CRC` → `C:ret,done R C:ret,alive`; `SRRC`: a second parser on the same console).

Second part: a kill signal that arrives while the input goroutine is blocked in `PostEventBlocking`
(queue full, nobody receiving).  Decision: **outside the property text, not a finding** — the text
quantifies over the points "at which shutdown is triggered … by a kill signal"; the handler is the
kill arm of the input goroutine's `select`, so the shutdown is triggered when that goroutine is back
at its `select`, which it is as soon as the application receives one event (an application that never
receives again has stopped its own event loop; the signal stays queued in `chSigKill`, nothing is
half-done and the terminal is as the application left it).  The theorems say exactly that; harness op
`sigblocked` shows it on the real code with definite observations (stack dump: blocked in the post;
second delivery refused: still pending; after one receive: `chQuit` closed, nothing left).
-/
namespace VaxisModel.Props.C10Resume
open VaxisModel.Model.Conc VaxisModel.Lemmas.ConcInv

/-- The precondition of `Resume`: nobody is inside `Close` or `Suspend` (the application's `Suspend` has
returned), and `Close` has not been called. -/
structure ResumePre (s : SSys) : Prop where
  idle : idle s
  notClosed : s.closedFlag = false

/-- **Resume under its precondition keeps the protocol invariant** — so `shutdown_completes` applies to
everything that follows (the previous input goroutine may still be alive: it joins `olds`). -/
theorem resume_precondition (s s' : SSys) (h : Inv s) (hp : ResumePre s) (hn : snext s .resume = some s') : Inv s' :=
  inv_resume s s' h hn hp.idle hp.notClosed

/-- **`Resume` is a transition only when the parser of the previous session has stopped** (i.e. after a
`Suspend` has returned) and nobody holds `suspendMu`: a `Resume` without a `Suspend` in between is not
a behaviour of the protocol model at all (the real code then starts a second parser on the same
console: harness op `contract ops=SRRC`). -/
theorem resume_needs_stopped_parser (s : SSys) : (snext s .resume).isSome = (s.ppc == .done && !s.suspLock) := by
  simp only [snext]
  split <;> simp_all

/-- **Resume after Close (precondition violated)**: `Close` returns with everything done; the `Resume`
after it starts a new parser and a new input goroutine; the next `Close` returns at once (`vx.closed`
is set) and leaves them running — no later call stops them.  The real code does exactly this
(harness op `contract ops=CRC`, model = implementation). -/
theorem resume_after_close_leaves_goroutines :
    session .callerFirst 400 {} ['C', 'R', 'C'] = ["C:ret,done", "R", "C:ret,alive"] ∧
    session .libFirst 400 {} ['C', 'R', 'C'] = ["C:ret,done", "R", "C:ret,alive"] := by decide

/-- The state in which the input goroutine is blocked in a post: queue of capacity 1 full, nobody
receiving, one more blocking post to do, a kill signal delivered. -/
def blockedWithSignal : SSys := { qcap := 1, queueLen := 1, consumer := false, ipc := .posting 1, killSig := true }

/-- **The kill arm belongs to the `select`**: an input goroutine that is not at its `select` (handling a
sequence, blocked in a post) cannot take it, whatever the state. -/
theorem kill_arm_only_at_select (s : SSys) (v : IView) (h : v.ipc ≠ .select) : iact s v .kill = none := by
  cases hv : v.ipc with
  | select => exact absurd hv h
  | posting k => simp [iact, hv]
  | done => simp [iact, hv]

/-- **A kill signal that finds the input goroutine blocked waits for the consumer.**  The blocked state
is a state of rest (nothing the scheduler may pick is enabled) with the signal pending and nobody
inside `Close`; it satisfies the protocol invariant. -/
theorem kill_signal_waits_for_the_consumer :
    blockedWithSignal.quiescent = true ∧ blockedWithSignal.killSig = true ∧ blockedWithSignal.callers = [] ∧ Inv blockedWithSignal := by
  refine ⟨by decide, rfl, rfl, ?_⟩
  exact inv_running 1 1 false [] (.posting 1) [] true false [] (by omega)

/-- **… and is served as soon as the goroutine is back at its `select`**: no state of rest has a pending
kill signal and the input goroutine at its `select` (the kill arm is enabled there, whatever else is). -/
theorem pending_signal_at_select_is_served (s : SSys) (hk : s.killSig = true) (hi : s.ipc = .select) : s.quiescent = false := by
  cases hq : s.quiescent with
  | false => rfl
  | true =>
    simp only [SSys.quiescent, List.all_eq_true] at hq
    have := hq (.input .kill) (by simp [SSys.schedLabels, schedActs])
    simp [snext, iact, hi, hk] at this

/-- **Once it is served, the exit path completes on every schedule** (the statement of
`C04Exit.exit_path_completes` for the kill arm, from every invariant state): every maximal run ends
with that `Close` returned, the parser and every input goroutine done, `chQuit` closed exactly once. -/
theorem served_signal_completes (s s1 s' : SSys) (hinv : Inv s) (h1 : snext s (.input .kill) = some s1)
    (ls : List SLabel) (hl : ∀ l ∈ ls, l.sched = true) (hr : srun s1 ls = some s') (hrest : s'.quiescent = true) :
    s'.final = true ∧ s'.quitCloses = 1 := by
  have hinv1 : Inv s1 := inv_input s s1 .kill hinv h1
  obtain ⟨c, hc, hk⟩ := VaxisModel.Lemmas.ConcPersist.isClose_run ls s1 s' _
    (VaxisModel.Lemmas.ConcPersist.exit_adds_close s s1 .kill (Or.inl rfl) h1) hr
  exact C10Shutdown.close_called_completes s1 s' ls hinv1 hl hr hrest c (List.mem_of_getElem? hc) hk

/-- The whole story on one schedule, evaluated: blocked with the signal pending; the application receives;
the goroutine finishes its post, returns to its `select`, takes the kill arm; `Close` completes. -/
theorem blocked_signal_served_after_receive :
    (runToRest .libFirst 600 { blockedWithSignal with consumer := true }).final = true ∧
    (runToRest .libFirst 600 { blockedWithSignal with consumer := true }).quitCloses = 1 ∧
    (runToRest .callerFirst 600 { blockedWithSignal with consumer := true }).final = true ∧
    (runToRest .callerFirst 600 { blockedWithSignal with consumer := true }).quitCloses = 1 := by decide

end VaxisModel.Props.C10Resume
