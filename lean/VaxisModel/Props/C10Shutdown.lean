import VaxisModel.Lemmas.ConcProgress
import VaxisModel.Lemmas.ConcFlag
import VaxisModel.Model.ConcSession
import VaxisModel.Witness.F53
import VaxisModel.Gen.Conc

/-!
# C10 — shutdown completes, for every schedule

Over the shutdown LTS of `Model/Conc.lean` (parser goroutine, input goroutine, callers of `Close` and
of `Suspend`, `Resume`, the terminal, the application).  Real time is abstracted.

* `variant_decreases` / `sched_runs_bounded`: a variant function strictly decreases on EVERY label a
  scheduler may pick, in every state: no schedule runs for ever, no fairness assumption is needed.
* `shutdown_completes`: under the invariant `Inv` (a session in which `Close` is called by any number
  of goroutines other than the input goroutine, `Suspend`/`Resume` by a sequential main goroutine;
  a consumer that keeps receiving or room in the queue for what is in flight; no kill signal) EVERY
  run of scheduler labels stays inside the invariant, and EVERY maximal one ends with all callers
  returned, the parser and input goroutines done, `chQuit` closed exactly once.
* `session_invariant`: the invariant holds along every history with any number of
  Suspend/Resume cycles, frames of input and `Close` calls.
* `quit_closed_once`: `chQuit` is closed at most once in every reachable state, with no hypothesis
  (F33 repaired).
* F13 (Close on the input goroutine) and F53 (no consumer and no room) are the two hypotheses of
  `Inv` that the code does not guarantee; `shutdown_completes_full_fails`, `Witness/F13`, `F53`.
* The two source facts the theorems need (`suspend_order`, `resume_clears`) are pinned to
  `Gen/Conc.lean`; `order_matters` / `resume_must_clear` show the LTS is stuck / leaks without them.
-/
namespace VaxisModel.Props.C10Shutdown
open VaxisModel.Model.Conc VaxisModel.Lemmas.ConcShutdown VaxisModel.Lemmas.ConcMeasure VaxisModel.Lemmas.ConcInv
  VaxisModel.Lemmas.ConcFlag

/-- **Variant.** Every label a scheduler may pick — a step of the parser goroutine, of the input
goroutine (either arm of its `select`), of any caller of `Close`/`Suspend`, the terminal's reply to a
written DA1 query, the application receiving an event — strictly lowers `mu`, in every state. -/
theorem variant_decreases (s s' : SSys) (l : SLabel) (hl : l.sched = true) (h : snext s l = some s') : mu s' < mu s :=
  mu_decreases s s' l hl h

/-- Hence every run of scheduler labels from `s` has at most `mu s` steps: without new events from
the environment the system always comes to rest. No bound on capacities, pending input or callers. -/
theorem sched_runs_bounded (s s' : SSys) (ls : List SLabel) (hl : ∀ l ∈ ls, l.sched = true) (h : srun s ls = some s') :
    ls.length + mu s' ≤ mu s :=
  sched_run_bounded ls s s' hl h

/-- With terminal input arriving at any moments: the number of scheduler steps of a run is at most
the variant of its start plus the cost of the input that arrived during it — however the arrivals are
interleaved, finitely much input gives only finite runs ("every interleaving with incoming input"). -/
theorem runs_bounded_with_input (s s' : SSys) (ls : List SLabel)
    (hl : ∀ l ∈ ls, l.sched = true ∨ ∃ u, l = .termInput u) (h : srun s ls = some s') :
    schedCount ls + mu s' ≤ mu s + inputCost ls :=
  run_bounded_with_input ls s s' hl h

/-- … and rest is reachable: some schedule of at most `mu s` steps leads to a state of rest. -/
theorem rest_reachable (s : SSys) :
    ∃ ls s', (∀ l ∈ ls, l.sched = true) ∧ srun s ls = some s' ∧ s'.quiescent = true :=
  exists_rest (mu s) s (Nat.le_refl _)

/-- A state that is not at rest has an enabled scheduler label. -/
theorem not_at_rest_enabled (s : SSys) (h : s.quiescent = false) : ∃ l s', l.sched = true ∧ snext s l = some s' :=
  enabled_of_not_quiescent s h

/-- **Shutdown completes, all runs.** From a state satisfying the invariant, every run of scheduler
labels (every interleaving, of any length) stays inside the invariant and is bounded by the
variant; whenever it reaches a state of rest — as every maximal run does — all callers of `Close` and
`Suspend` have returned; if the session is suspended the parser goroutine and the input goroutine
are done; if it is closed, `chQuit` has been closed exactly once and the session is suspended. -/
theorem shutdown_completes (s s' : SSys) (ls : List SLabel) (hinv : Inv s) (hl : ∀ l ∈ ls, l.sched = true)
    (h : srun s ls = some s') :
    Inv s' ∧ ls.length + mu s' ≤ mu s ∧
    (s'.quiescent = true →
      sumBy fUnret s'.callers = 0 ∧ (s'.suspendedFlag = true → s'.ppc = .done ∧ s'.ipc = .done) ∧
      (s'.closedFlag = true → s'.quitCloses = 1 ∧ s'.suspendedFlag = true)) := by
  have hinv' := inv_sched_run ls s s' hl hinv h
  exact ⟨hinv', sched_run_bounded ls s s' hl h, fun hq => rest_is_done s' hinv' hq⟩

/-- In the vocabulary of `SSys.final`: after `Close` was called (the flag is set, or a caller of
`Close` is present), every maximal run ends in a final state — `Close` returned for every caller,
parser goroutine done, input goroutine done — with `chQuit` closed once. -/
theorem close_completes (s s' : SSys) (ls : List SLabel) (hinv : Inv s) (hl : ∀ l ∈ ls, l.sched = true)
    (h : srun s ls = some s') (hrest : s'.quiescent = true) (hclosed : s'.closedFlag = true) :
    s'.final = true ∧ s'.quitCloses = 1 := by
  obtain ⟨_, _, hdone⟩ := shutdown_completes s s' ls hinv hl h
  obtain ⟨h1, h2, h3⟩ := hdone hrest
  obtain ⟨hq, hs⟩ := h3 hclosed
  obtain ⟨hp, hi⟩ := h2 hs
  refine ⟨?_, hq⟩
  simp only [SSys.final, Bool.and_eq_true, beq_iff_eq, List.all_eq_true]
  refine ⟨⟨hp, hi⟩, fun c hc => ?_⟩
  have := sumBy_zero_all fUnret s'.callers h1 c hc
  obtain ⟨pc, k⟩ := c
  cases pc <;> simp [fUnret] at this ⊢

/-- A caller of `Close` that is past the flag forces the flag: with `close_completes`, from any
invariant state in which some goroutine has entered `Close`, every maximal run ends final. -/
theorem close_called_completes (s s' : SSys) (ls : List SLabel) (hinv : Inv s) (hl : ∀ l ∈ ls, l.sched = true)
    (h : srun s ls = some s') (hrest : s'.quiescent = true) (c : Caller) (hc : c ∈ s'.callers) (hk : c.inClose = true) :
    s'.final = true ∧ s'.quitCloses = 1 := by
  obtain ⟨hinv', _, hdone⟩ := shutdown_completes s s' ls hinv hl h
  obtain ⟨h1, _, _⟩ := hdone hrest
  have hret := sumBy_zero_all fUnret s'.callers h1 c hc
  have hpast : fPastFlag c = 1 := by
    obtain ⟨pc, k⟩ := c
    simp at hk; subst hk
    cases pc <;> simp [fUnret] at hret ⊢
    simp [fPastFlag]
  have hge := sumBy_pos_of_mem fPastFlag s'.callers c hc
  have hflag := hinv'.pastFlag (by omega)
  have : s'.closedFlag = true := by cases hf : s'.closedFlag <;> simp [hf] at hflag ⊢
  exact close_completes s s' ls hinv hl h hrest this

/-- Non-vacuity of the invariant: a running session, capacity 8 with 3 events queued, input pending
(a key whose handling posts an event, half of an escape sequence), nobody consuming. -/
example : Inv { qcap := 8, queueLen := 3, consumer := false, inbuf := [some 1, none], ppc := .reading } :=
  inv_running 8 3 false [some 1, none] (by decide) (Or.inr (by decide))

/-! ### histories: any number of Suspend/Resume cycles -/

/-- The histories of a session: scheduler labels at any time; new terminal input at any time (as long
as there is a consumer or room); `Close` from any goroutine at any time except while the main
goroutine is inside a bare `Suspend`; `Suspend` and `Resume` by the sequential main goroutine (when
nobody is inside `Close`/`Suspend`; `Resume` before `Close`). -/
inductive SessionReach (s0 : SSys) : SSys → Prop
  | init : SessionReach s0 s0
  | sched {s s'} (l : SLabel) : SessionReach s0 s → l.sched = true → snext s l = some s' → SessionReach s0 s'
  | input {s s'} (u : Option Nat) : SessionReach s0 s → snext s (.termInput u) = some s' → RoomOK s' → SessionReach s0 s'
  | close {s s'} : SessionReach s0 s → snext s .callClose = some s' → sumBy fSusp s.callers = 0 → RoomOK s' → SessionReach s0 s'
  | suspend {s s'} : SessionReach s0 s → snext s .callSuspend = some s' → idle s → RoomOK s' → SessionReach s0 s'
  | resume {s s'} : SessionReach s0 s → snext s .resume = some s' → idle s → s.closedFlag = false → SessionReach s0 s'

/-- **Any number of cycles.** The invariant holds in every state of every history of a session
that starts in an invariant state (e.g. a running session, `inv_running`): so `shutdown_completes`
applies after any number of Suspend/Resume cycles, frames of input and `Close` calls — every
`Suspend` and every `Close` returns under every schedule and leaves no library goroutine behind. -/
theorem session_invariant (s0 s : SSys) (h0 : Inv s0) (h : SessionReach s0 s) : Inv s := by
  induction h with
  | init => exact h0
  | sched l _ hl hn ih => exact inv_sched _ _ l hl ih hn
  | input u _ hn hr ih => exact inv_termInput _ _ u ih hn hr
  | close _ hn hs hr ih => exact inv_callClose _ _ ih hn hs hr
  | suspend _ hn hi hr ih => exact inv_callSuspend _ _ ih hn hi hr
  | resume _ hn hi ho ih => exact inv_resume _ _ ih hn hi ho

/-- Non-vacuity: two Suspend/Resume cycles and a Close, each run to rest by the scheduler that lets
the library run ahead of the caller; every call returns with the goroutines done. -/
example : session .libFirst 200 { inbuf := [some 1, some 1] } ['S', 'R', 'S', 'R', 'C'] =
    ["S:ret,done", "R", "S:ret,done", "R", "C:ret,done"] := by decide

/-! ### F33 repaired: `chQuit` is closed at most once, unconditionally -/

/-- In every state reachable — by any labels whatsoever: any number of concurrent `Close` callers,
`Close` on the input goroutine's signal arm, Suspend/Resume at any time — from a state in which
nobody has called `Close` yet, `close(vx.chQuit)` has run at most once. -/
theorem quit_closed_once (s0 s : SSys) (h1 : s0.callers = []) (h2 : s0.closedFlag = false) (h3 : s0.quitCloses = 0)
    (h4 : ∀ c, s0.ipc ≠ .closing c) (h : SReachable s0 s) : s.quitCloses ≤ 1 ∧ s.panicked = false := by
  have hf := (flagInv_reachable s0 s (flagInv_init s0 h1 h2 h3 h4) h).flag
  have hb := b2n_le s.closedFlag
  have : s.quitCloses ≤ 1 := by omega
  refine ⟨this, ?_⟩
  simp only [SSys.panicked, decide_eq_false_iff_not]
  omega

/-! ### what remains false of the code -/

/-- Full statement: whenever somebody has called `Close`, from every reachable state internal
moves alone lead to a final state.  False of the current code: F53 (nobody consumes and the queue
has no room) and F13 (`Close` on the input goroutine) — exactly the two hypotheses of `Inv` beyond
the sequential main goroutine. -/
def shutdown_completes_full : Prop :=
  ∀ (s0 s : SSys), s0.callers = [] → SReachable s0 s → s.callers ≠ [] →
    ∃ ls s', (∀ l ∈ ls, l.internal = true) ∧ srun s ls = some s' ∧ s'.final = true

/-- The full statement fails: F53's witness run reaches a state from which no internal label is
ever enabled again, with `Close` still waiting. -/
theorem shutdown_completes_full_fails : ¬ shutdown_completes_full := by
  intro hall
  obtain ⟨s, hrun, hnf, hstuck⟩ := VaxisModel.Witness.F53.close_never_returns
  have hreach : SReachable VaxisModel.Witness.F53.s0 s := srun_reachable _ _ _ _ .init hrun
  have hc : s.callers ≠ [] := by
    have := VaxisModel.Witness.F53.reaches_stuck_state
    simp only [hrun, Bool.and_eq_true, beq_iff_eq] at this
    rw [this.1.1.2]; simp
  obtain ⟨ls, s', hint, hr, hfin⟩ := hall _ s rfl hreach hc
  cases ls with
  | nil => simp [srun] at hr; subst hr; rw [hnf] at hfin; exact absurd hfin (by simp)
  | cons l t => rw [hstuck l t (hint l (by simp))] at hr; exact absurd hr (by simp)

/-! ### the source facts the theorems need -/

/-- `Close` tests and sets `vx.closed` under `closeMu`, posts the quit event, defers
`close(chQuit)`, runs `Suspend`, closes the console; `Suspend`: the `suspended` guard, close signal,
DA1 query, wait; `Resume`: `openTty`, then `vx.suspended = false`. (Locals, logging and terminal
restoration are not part of the skeleton.) -/
theorem close_shape :
    Gen.Conc.skeleton_Close = ["vx.closeMu.Lock", "if:vx.closed", "vx.closeMu.Unlock", "set:vx.closed=true",
      "vx.closeMu.Unlock", "vx.PostEvent", "defer:close(vx.chQuit)", "vx.Suspend", "vx.console.Close"] ∧
    Gen.Conc.skeleton_Suspend = ["if:vx.suspended", "set:vx.suspended=true", "vx.parser.Close", "io.WriteString",
      "vx.parser.WaitClose"] ∧
    Gen.Conc.skeleton_Resume = ["vx.openTty", "set:vx.suspended=false"] := by decide +kernel

/-- The hypotheses `Inv.order` and `Inv.clears` are facts of the source: `Suspend` signals the parser
before it writes the DA1 query that wakes the reader, `Resume` clears `vx.suspended`, and `Close`
guards itself with an atomic test-and-set. -/
theorem suspend_order : da1FirstOf Gen.Conc.skeleton_Suspend = false := by decide +kernel
theorem resume_clears : resumeClearsOf Gen.Conc.skeleton_Resume = true := by decide +kernel
theorem close_guarded : closeGuardedOf Gen.Conc.skeleton_Close = true := by decide +kernel

/-- The order matters: with the DA1 query written before the close signal, the schedule in which the
reply is consumed before the signal is sent (slow tty / descheduled caller) ends with the parser
blocked in `ReadRune` and `Suspend` waiting for ever. -/
theorem order_matters :
    session .libFirst 200 { da1First := true } ['S'] = ["S:hang,alive"] ∧
    session .libFirst 200 { da1First := false } ['S'] = ["S:ret,done"] := by decide

/-- `Resume` must clear `vx.suspended`: otherwise the next `Suspend` (or `Close`) takes the
"already suspended" shortcut and returns while the goroutines started by `Resume` stay alive. -/
theorem resume_must_clear :
    session .libFirst 200 { resumeClears := false } ['S', 'R', 'S'] = ["S:ret,done", "R", "S:ret,alive"] ∧
    session .libFirst 200 { resumeClears := false } ['S', 'R', 'C'] = ["S:ret,done", "R", "C:ret,alive"] ∧
    session .libFirst 200 {} ['S', 'R', 'C'] = ["S:ret,done", "R", "C:ret,done"] := by decide

end VaxisModel.Props.C10Shutdown
