import VaxisModel.Lemmas.ConcProgress
import VaxisModel.Lemmas.ConcFlag
import VaxisModel.Model.ConcSession
import VaxisModel.Witness.F53
import VaxisModel.Witness.F13
import VaxisModel.Witness.F210
import VaxisModel.Gen.Conc

/-!
# C10 — shutdown completes, for every schedule

Over the shutdown LTS of `Model/Conc.lean` (parser goroutine, input goroutines of the current and of
earlier sessions, callers of `Close` and of `Suspend`, `Resume`, the terminal, the application), as
the protocol is after the repairs of F13 and F53.  Real time is abstracted.

* `variant_decreases` / `sched_runs_bounded`: a variant function strictly decreases on EVERY label a
  scheduler may pick, in every state: no schedule runs for ever, no fairness assumption is needed.
* `shutdown_completes`: under the invariant `Inv` EVERY run of scheduler labels stays inside the
  invariant, and EVERY maximal one ends with all callers returned, the parser goroutine done, every
  input goroutine done once the session is closed, `chQuit` closed exactly once.  `Inv` has no
  hypothesis about the event queue, the consumer, kill signals or the goroutine `Close` runs on:
  a full queue nobody receives from (F53's region) and `Close` on an input goroutine — signal arm or
  panic path — (F13's region) are covered.
* `session_invariant`: the invariant holds along every history with any number of Suspend/Resume
  cycles (a `Resume` while the previous input goroutine is still alive included), input, signals,
  panics of an input goroutine and `Close` calls.
* `quit_closed_once`: `chQuit` is closed at most once in every reachable state, with no hypothesis.
* The two source facts the theorems need (`suspend_order`, `resume_clears`) are pinned to
  `Gen/Conc.lean`; `order_matters` / `resume_must_clear` show the LTS is stuck / leaks without them;
  `waitclose_drains`, `input_loop_leaves_on_closed_channel`, `blocking_post_selects_quit` pin the
  three repaired shapes; `drain_matters` / `quit_arm_matters`: without them the LTS has the old stuck /
  leaking states.
-/
namespace VaxisModel.Props.C10Shutdown
open VaxisModel.Model.Conc VaxisModel.Lemmas.ConcShutdown VaxisModel.Lemmas.ConcMeasure VaxisModel.Lemmas.ConcInv
  VaxisModel.Lemmas.ConcFlag

/-- **Variant.** Every label a scheduler may pick — a step of the parser goroutine, of an input
goroutine (any arm of its `select`, either arm of a blocking post), of any caller of
`Close`/`Suspend` (either arm of `WaitClose`), the terminal's reply to a written DA1 query, the
application receiving an event — strictly lowers `mu`, in every state. -/
theorem variant_decreases (s s' : SSys) (l : SLabel) (hl : l.sched = true) (h : snext s l = some s') : mu s' < mu s :=
  mu_decreases s s' l hl h

/-- Hence every run of scheduler labels from `s` has at most `mu s` steps: without new events from
the environment the system always comes to rest. No bound on capacities, pending input or callers. -/
theorem sched_runs_bounded (s s' : SSys) (ls : List SLabel) (hl : ∀ l ∈ ls, l.sched = true) (h : srun s ls = some s') :
    ls.length + mu s' ≤ mu s :=
  sched_run_bounded ls s s' hl h

/-- With terminal input arriving at any moments: the number of scheduler steps of a run is at most
the variant of its start plus the cost of the input that arrived during it — however the arrivals are
interleaved, finitely much input gives only finite runs ("every interleaving with incoming input"). -/
theorem runs_bounded_with_input (s s' : SSys) (ls : List SLabel)
    (hl : ∀ l ∈ ls, l.sched = true ∨ ∃ u, l = .termInput u) (h : srun s ls = some s') :
    schedCount ls + mu s' ≤ mu s + inputCost ls :=
  run_bounded_with_input ls s s' hl h

/-- … and rest is reachable: some schedule of at most `mu s` steps leads to a state of rest. -/
theorem rest_reachable (s : SSys) :
    ∃ ls s', (∀ l ∈ ls, l.sched = true) ∧ srun s ls = some s' ∧ s'.quiescent = true :=
  exists_rest (mu s) s (Nat.le_refl _)

/-- A state that is not at rest has an enabled scheduler label. -/
theorem not_at_rest_enabled (s : SSys) (h : s.quiescent = false) : ∃ l s', l.sched = true ∧ snext s l = some s' :=
  enabled_of_not_quiescent s h

/-- **Shutdown completes, all runs.** From a state satisfying the invariant, every run of scheduler
labels (every interleaving, of any length) stays inside the invariant and is bounded by the
variant; whenever it reaches a state of rest — as every maximal run does —
* all callers of `Close` and `Suspend` have returned (whatever the queue holds, whoever consumes,
  whichever goroutine the call runs on);
* if the session is suspended the parser goroutine is done, and the input goroutine is done or
  `postBlocked`: inside a blocking post with the queue full, the application not receiving and `Close`
  not completed — the application's next receive releases it; likewise the input goroutines of earlier
  sessions;
* if the session is closed, `chQuit` has been closed exactly once, the session is suspended and
  every input goroutine is done. -/
theorem shutdown_completes (s s' : SSys) (ls : List SLabel) (hinv : Inv s) (hl : ∀ l ∈ ls, l.sched = true)
    (h : srun s ls = some s') :
    Inv s' ∧ ls.length + mu s' ≤ mu s ∧
    (s'.quiescent = true →
      sumBy fUnret s'.callers = 0 ∧
      (s'.suspendedFlag = true → s'.ppc = .done ∧ (s'.ipc = .done ∨ postBlocked s' s'.ipc)) ∧
      (∀ o ∈ s'.olds, o.ipc = .done ∨ postBlocked s' o.ipc) ∧
      (s'.closedFlag = true → s'.quitCloses = 1 ∧ s'.suspendedFlag = true ∧ s'.ipc = .done ∧ ∀ o ∈ s'.olds, o.ipc = .done)) := by
  have hinv' := inv_sched_run ls s s' hl hinv h
  exact ⟨hinv', sched_run_bounded ls s s' hl h, fun hq => rest_is_done s' hinv' hq⟩

/-- `Suspend` with an application that receives (or a queue with room): at rest nothing of the
library is left — the parser goroutine and every input goroutine are done. -/
theorem suspend_leaves_nothing (s s' : SSys) (ls : List SLabel) (hinv : Inv s) (hl : ∀ l ∈ ls, l.sched = true)
    (h : srun s ls = some s') (hrest : s'.quiescent = true) (hs : s'.suspendedFlag = true)
    (hc : s'.consumer = true ∨ s'.queueLen < s'.qcap) :
    s'.ppc = .done ∧ s'.ipc = .done ∧ ∀ o ∈ s'.olds, o.ipc = .done := by
  obtain ⟨_, _, hdone⟩ := shutdown_completes s s' ls hinv hl h
  obtain ⟨_, h2, h3, _⟩ := hdone hrest
  have nb : ∀ i, ¬ postBlocked s' i := by
    intro i ⟨k, _, h4, h5, _⟩
    rcases hc with hc | hc
    · simp [hc] at h4
    · omega
  obtain ⟨hp, hi⟩ := h2 hs
  refine ⟨hp, ?_, ?_⟩
  · rcases hi with hi | hi
    · exact hi
    · exact absurd hi (nb _)
  · intro o ho
    rcases h3 o ho with hi | hi
    · exact hi
    · exact absurd hi (nb _)

/-- In the vocabulary of `SSys.final`: after `Close` was called, every maximal run ends in a final
state — `Close` returned for every caller, parser goroutine done, every input goroutine done — with
`chQuit` closed once. No hypothesis on the queue or on the consumer. -/
theorem close_completes (s s' : SSys) (ls : List SLabel) (hinv : Inv s) (hl : ∀ l ∈ ls, l.sched = true)
    (h : srun s ls = some s') (hrest : s'.quiescent = true) (hclosed : s'.closedFlag = true) :
    s'.final = true ∧ s'.quitCloses = 1 := by
  obtain ⟨_, _, hdone⟩ := shutdown_completes s s' ls hinv hl h
  obtain ⟨h1, h2, _, h4⟩ := hdone hrest
  obtain ⟨hq, hs, hi, ho⟩ := h4 hclosed
  obtain ⟨hp, _⟩ := h2 hs
  refine ⟨?_, hq⟩
  simp only [SSys.final, Bool.and_eq_true, beq_iff_eq, List.all_eq_true]
  refine ⟨⟨⟨hp, hi⟩, ho⟩, fun c hc => ?_⟩
  have := sumBy_zero_all fUnret s'.callers h1 c hc
  obtain ⟨pc, k⟩ := c
  cases pc <;> simp [fUnret] at this ⊢

/-- A caller of `Close` that is past the flag forces the flag: with `close_completes`, from any
invariant state in which some goroutine has entered `Close`, every maximal run ends final. -/
theorem close_called_completes (s s' : SSys) (ls : List SLabel) (hinv : Inv s) (hl : ∀ l ∈ ls, l.sched = true)
    (h : srun s ls = some s') (hrest : s'.quiescent = true) (c : Caller) (hc : c ∈ s'.callers) (hk : c.inClose = true) :
    s'.final = true ∧ s'.quitCloses = 1 := by
  obtain ⟨hinv', _, hdone⟩ := shutdown_completes s s' ls hinv hl h
  obtain ⟨h1, _, _⟩ := hdone hrest
  have hret := sumBy_zero_all fUnret s'.callers h1 c hc
  have hpast : fPastFlag c = 1 := by
    obtain ⟨pc, k⟩ := c
    simp at hk; subst hk
    cases pc <;> simp [fUnret] at hret ⊢
    simp [fPastFlag]
  have hge := sumBy_pos_of_mem fPastFlag s'.callers c hc
  have hflag := hinv'.pastFlag (by omega)
  have : s'.closedFlag = true := by cases hf : s'.closedFlag <;> simp [hf] at hflag ⊢
  exact close_completes s s' ls hinv hl h hrest this

/-- Non-vacuity of the invariant, in F53's and F13's regions at once: capacity 2 and the queue full,
nobody consuming, input pending, the input goroutine in the middle of a post, a kill signal and a
SIGWINCH pending, an input goroutine of an earlier session still alive. -/
example : Inv { qcap := 2, queueLen := 2, consumer := false, inbuf := [some 1, none], ppc := .reading, ipc := .posting 1,
                seqs := [.seq 1, .seq 1], killSig := true, winchSig := true, olds := [⟨.posting 2, [.seq 1, .eof]⟩] } :=
  inv_running 2 2 false [some 1, none] (.posting 1) [.seq 1, .seq 1] true true [⟨.posting 2, [.seq 1, .eof]⟩] (by decide)

/-! ### histories: any number of Suspend/Resume cycles -/

/-- The histories of a session: scheduler labels at any time; terminal input, SIGWINCH and kill
signals at any time; `Close` and `Suspend` from any goroutine at any time (F210 repaired: `Suspend`
and `Resume` are serialised by `vx.suspendMu`), a panic of an input goroutine at any time; `Resume`
by the application after its `Suspend` has returned: nobody inside `Close`/`Suspend`, the session not
closed — the previous input goroutine may still be alive.  That side condition of `Resume` is the
only assumption on the environment. -/
inductive SessionReach (s0 : SSys) : SSys → Prop
  | init : SessionReach s0 s0
  | sched {s s'} (l : SLabel) : SessionReach s0 s → l.sched = true → snext s l = some s' → SessionReach s0 s'
  | input {s s'} (u : Option Nat) : SessionReach s0 s → snext s (.termInput u) = some s' → SessionReach s0 s'
  | winch {s s'} : SessionReach s0 s → snext s .winch = some s' → SessionReach s0 s'
  | signal {s s'} : SessionReach s0 s → snext s .signal = some s' → SessionReach s0 s'
  | panic {s s'} : SessionReach s0 s → snext s (.input .panic) = some s' → SessionReach s0 s'
  | panicOld {s s'} (j : Nat) : SessionReach s0 s → snext s (.old j .panic) = some s' → SessionReach s0 s'
  | close {s s'} : SessionReach s0 s → snext s .callClose = some s' → SessionReach s0 s'
  | suspend {s s'} : SessionReach s0 s → snext s .callSuspend = some s' → SessionReach s0 s'
  | resume {s s'} : SessionReach s0 s → snext s .resume = some s' → idle s → s.closedFlag = false → SessionReach s0 s'

/-- **Any number of cycles, any concurrency.** The invariant holds in every state of every history
of a session that starts in an invariant state (e.g. a running session, `inv_running`): so
`shutdown_completes` applies after any number of Suspend/Resume cycles, any input, signals, panics,
and `Close` / `Suspend` calls from any goroutines at any moments — every `Suspend` and every `Close`
returns under every schedule. -/
theorem session_invariant (s0 s : SSys) (h0 : Inv s0) (h : SessionReach s0 s) : Inv s := by
  induction h with
  | init => exact h0
  | sched l _ hl hn ih => exact inv_sched _ _ l hl ih hn
  | input u _ hn ih => exact inv_termInput _ _ u ih hn
  | winch _ hn ih => exact inv_winch _ _ ih hn
  | signal _ hn ih => exact inv_signal _ _ ih hn
  | panic _ hn ih => exact inv_input _ _ _ ih hn
  | panicOld j _ hn ih => exact inv_old _ _ j _ ih hn
  | close _ hn ih => exact inv_callClose _ _ ih hn
  | suspend _ hn ih => exact inv_callSuspend _ _ ih hn
  | resume _ hn hi ho ih => exact inv_resume _ _ ih hn hi ho

/-- Non-vacuity: two Suspend/Resume cycles and a Close, each run to rest by the scheduler that lets
the library run ahead of the caller; every call returns with the goroutines done. -/
example : session .libFirst 200 { inbuf := [some 1, some 1] } ['S', 'R', 'S', 'R', 'C'] =
    ["S:ret,done", "R", "S:ret,done", "R", "C:ret,done"] := by decide

/-- A `Resume` while the previous input goroutine is still blocked in a post (queue full, nobody
receiving): it joins `olds`; the next `Suspend` returns, the following `Close` returns and ends all
of them. -/
example : session .callerFirst 300 { qcap := 1, queueLen := 1, consumer := false, inbuf := [some 1, some 1, some 1] }
      ['S', 'R', 'S', 'C'] = ["S:ret,alive", "R", "S:ret,alive", "C:ret,done"] := by decide

/-! ### F33 repaired: `chQuit` is closed at most once, unconditionally -/

/-- In every state reachable — by any labels whatsoever: any number of concurrent `Close` callers,
`Close` on an input goroutine's signal arm or panic path, Suspend/Resume at any time — from a state
in which nobody has called `Close` yet, `close(vx.chQuit)` has run at most once. -/
theorem quit_closed_once (s0 s : SSys) (h1 : s0.callers = []) (h2 : s0.closedFlag = false) (h3 : s0.quitCloses = 0)
    (h : SReachable s0 s) : s.quitCloses ≤ 1 ∧ s.panicked = false := by
  have hf := (flagInv_reachable s0 s (flagInv_init s0 h1 h2 h3) h).flag
  have hb := b2n_le s.closedFlag
  have : s.quitCloses ≤ 1 := by omega
  refine ⟨this, ?_⟩
  simp only [SSys.panicked, decide_eq_false_iff_not]
  omega

/-! ### F13 and F53 repaired: the former stuck states -/

/-- The schedules of the two recorded findings still lead to the states that used to be stuck
(`Witness/F13`, `Witness/F53`); both states satisfy the invariant, so by `shutdown_completes` EVERY
maximal run from them ends with `Close` returned and nothing left. -/
theorem former_stuck_states_complete :
    (match srun Witness.F13.s0 Witness.F13.witness with | some s => decide (Inv s) | none => false) = true ∧
    (match srun Witness.F53.s0 Witness.F53.witness with | some s => decide (Inv s) | none => false) = true := by
  constructor <;> decide

/-! ### the source facts the theorems need -/

/-- `Close` tests and sets `vx.closed` under `closeMu`, posts the quit event, defers
`close(chQuit)`, runs `Suspend`, closes the console; `Suspend`: under `suspendMu` the `suspended` guard, close
signal, DA1 query, wait; `Resume`: under `suspendMu` `openTty`, then `vx.suspended = false`. (Locals, logging and terminal
restoration are not part of the skeleton.) -/
theorem close_shape :
    Gen.Conc.skeleton_Close = ["vx.closeMu.Lock", "if:vx.closed", "vx.closeMu.Unlock", "set:vx.closed=true",
      "vx.closeMu.Unlock", "vx.PostEvent", "defer:close(vx.chQuit)", "vx.Suspend", "vx.console.Close"] ∧
    Gen.Conc.skeleton_Suspend = ["vx.suspendMu.Lock", "defer:vx.suspendMu.Unlock()", "if:vx.suspended", "set:vx.suspended=true",
      "vx.parser.Close", "io.WriteString", "vx.parser.WaitClose"] ∧
    Gen.Conc.skeleton_Resume = ["vx.suspendMu.Lock", "defer:vx.suspendMu.Unlock()", "vx.openTty", "set:vx.suspended=false"] := by
  decide +kernel

/-- `Suspend` and `Resume` run under `vx.suspendMu` from their first statement to their return (F210
repaired): the `suspLock` of the LTS. -/
theorem suspend_serialised :
    suspendLockedOf Gen.Conc.skeleton_Suspend = true ∧ suspendLockedOf Gen.Conc.skeleton_Resume = true := by decide +kernel

/-- The hypotheses `Inv.order` and `Inv.clears` are facts of the source: `Suspend` signals the parser
before it writes the DA1 query that wakes the reader, `Resume` clears `vx.suspended`, and `Close`
guards itself with an atomic test-and-set. -/
theorem suspend_order : da1FirstOf Gen.Conc.skeleton_Suspend = false := by decide +kernel
theorem resume_clears : resumeClearsOf Gen.Conc.skeleton_Resume = true := by decide +kernel
theorem close_guarded : closeGuardedOf Gen.Conc.skeleton_Close = true := by decide +kernel

/-- The order matters: with the DA1 query written before the close signal, the schedule in which the
reply is consumed before the signal is sent (slow tty / descheduled caller) ends with the parser
blocked in `ReadRune` and `Suspend` waiting for ever. -/
theorem order_matters :
    session .libFirst 200 { da1First := true } ['S'] = ["S:hang,alive"] ∧
    session .libFirst 200 { da1First := false } ['S'] = ["S:ret,done"] := by decide

/-- `Resume` must clear `vx.suspended`: otherwise the next `Suspend` (or `Close`) takes the
"already suspended" shortcut and returns while the goroutines started by `Resume` stay alive. -/
theorem resume_must_clear :
    session .libFirst 200 { resumeClears := false } ['S', 'R', 'S'] = ["S:ret,done", "R", "S:ret,alive"] ∧
    session .libFirst 200 { resumeClears := false } ['S', 'R', 'C'] = ["S:ret,done", "R", "C:ret,alive"] ∧
    session .libFirst 200 {} ['S', 'R', 'C'] = ["S:ret,done", "R", "C:ret,done"] := by decide

/-! ### the repaired shapes (F13, F53) -/

/-- `Parser.WaitClose` is the loop that takes `closed` and returns, or discards a sequence (label
`drain`); `Parser.Close` sends the close signal; `emit` is the bare send the LTS blocks on; after its
loop `run` emits `EOF`, closes the channel and sends `closed` — the steps `emitEOF`, `signalClosed`
of the LTS. -/
theorem waitclose_drains :
    waitDrainsOf Gen.Conc.shape_Parser_WaitClose = true ∧
    Gen.Conc.shape_Parser_Close = ["p.close <- true"] ∧
    Gen.Conc.shape_Parser_emit = ["p.sequences <- seq"] ∧
    Gen.Conc.shape_Parser_runTail.reverse.take 3 = ["p.closed <- true", "close(p.sequences)", "p.emit(EOF{})"] := by decide +kernel

/-- The input goroutine: its parser arm returns when the channel is closed (`!ok`); the arms of its
`select` are the parser, SIGWINCH (label `winch`) and the kill signal (label `kill`); it starts with
the deferred `recover → Close → panic` (label `panic`). -/
theorem input_loop_leaves_on_closed_channel :
    leavesOnClosedOf Gen.Conc.shape_inputLoop = true ∧
    selectArmsOf Gen.Conc.shape_inputLoop = ["case seq, ok := <-parser.Next():", "case <-vx.chSigWinSz:", "case <-vx.chSigKill:"] ∧
    Gen.Conc.shape_inputLoop.take 6 = ["defer func {", "if err := recover(); err != nil {", "vx.Close()", "panic(err)", "}", "}"] ∧
    (Gen.Conc.shape_inputLoop.dropWhile (· != "case <-vx.chSigKill:")).take 3 = ["case <-vx.chSigKill:", "vx.Close()", "return"] ∧
    (Gen.Conc.shape_inputLoop.dropWhile (· != "case <-vx.chSigWinSz:")).take 3 =
      ["case <-vx.chSigWinSz:", "atomicStore(&vx.resize, true)", "vx.PostEventBlocking(Redraw{})"] := by decide +kernel

/-- `PostEventBlocking` is a `select` over the send and `<-vx.chQuit` (label `quit`), without a
`default`; `PostEvent` is the `select` with `default`. -/
theorem blocking_post_selects_quit :
    postQuitArmOf Gen.Conc.shape_PostEventBlocking = true ∧ postNonBlockingOf Gen.Conc.shape_PostEvent = true := by decide +kernel

/-- **The repairs matter** (the LTS follows the source facts: `waitDrains`, `postQuitArm`).  With
`WaitClose` as the bare `<-p.closed` of before the F13 repair, the old witness schedule ends in a
state of rest in which `Close` — running on the input goroutine — has not returned: the recorded
finding, as a theorem about the unrepaired protocol.  With the repair the same schedule is not at rest
there (`Witness.F13.reaches_old_stuck_state`) and every continuation completes. -/
theorem drain_matters :
    (match srun { Witness.F13.s0 with waitDrains := false } Witness.F13.witness with
     | some s => let t := runToRest .libFirst 50 s      -- (what is left: the application's receives)
                 t.quiescent && !(allReturned t) && t.callers == [{ pc := .waitClosed }] && t.ppc == .emitEOF
     | none => false) = true := by decide

/-- With `PostEventBlocking` as the bare send of before the F53 repair (but `WaitClose` draining),
F53's schedule lets `Close` return and then rests with the input goroutine still blocked in its post:
the goroutine that outlived `Close`. -/
theorem quit_arm_matters :
    (match srun { Witness.F53.s0 with postQuitArm := false } Witness.F53.witness with
     | some s => let t := runToRest .libFirst 100 s
                 t.quiescent && allReturned t && t.quitCloses == 1 && t.ipc == .posting 1 && !t.final
     | none => false) = true := by decide

/-- Non-vacuity of the observers: the shapes before the repairs are rejected. -/
example : waitDrainsOf ["<-p.closed"] = false ∧
    leavesOnClosedOf ["for {", "select {", "case seq := <-parser.Next():", "switch seq := seq.(type) {"] = false ∧
    postQuitArmOf ["vx.queue <- ev"] = false := by decide

end VaxisModel.Props.C10Shutdown
