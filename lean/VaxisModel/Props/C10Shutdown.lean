import VaxisModel.Lemmas.ConcShutdown
import VaxisModel.Witness.F53
import VaxisModel.Gen.Conc

/-!
# C10 — shutdown completes (as far as it is true of the code)

Over the shutdown LTS of `Model/Conc.lean` (parser goroutine, input goroutine, callers of `Close`,
terminal).  Real time is abstracted; "completes" means: a terminating run of internal labels exists
(the schedule a weakly fair scheduler eventually produces), after which the parser goroutine and the
input goroutine have finished and `Close` has returned.
-/
namespace VaxisModel.Props.C10Shutdown
open VaxisModel.Model.Conc VaxisModel.Lemmas.ConcShutdown

/-- Full statement: whenever somebody has called `Close`, from every reachable state internal
moves alone lead to a final state.  False of the current code: F53, F13, F33 (Witness/). -/
def shutdown_completes_full : Prop :=
  ∀ (s0 s : SSys), s0.callers = [] → SReachable s0 s → s.callers ≠ [] →
    ∃ ls s', (∀ l ∈ ls, l.internal = true) ∧ srun s ls = some s' ∧ s'.final = true

/-- Proved part.  `Close()` is called by one goroutine that is not the input goroutine, at any
moment of input processing — the parser blocked in `ReadRune` with nothing unread, at its `select`,
or inside `emit`; any sequences waiting in the channel; the input goroutine at its `select` or in
the middle of posting — provided the event queue has room for the posts still in flight (this is
what F53 violates), nobody else is closing (F33) and the closer is not the input goroutine itself
(F13).  Then internal moves alone — the terminal answering the DA1 query being one of them — end
with the parser goroutine finished, the input goroutine finished, `Close` returned and `chQuit`
closed exactly once more. For every capacity, queue content and number of pending sequences. -/
theorem shutdown_completes_partial (s : SSys)
    (hpp : (s.ppc = .reading ∧ s.inbuf = []) ∨ s.ppc = .top ∨ ∃ k, s.ppc = .emitting k)
    (hseqs : ∀ t ∈ s.seqs, t ≠ .eof)
    (hi : s.ipc = .select ∨ ∃ k, s.ipc = .posting k)
    (hcall : s.callers = [.checkFlag]) (hcf : s.closedFlag = false) (hsf : s.suspendedFlag = false)
    (hcs : s.closeSig = 0) (hcd : s.closedSig = 0) (hda : s.da1Pending = 0) (hsc : s.seqsClosed = false)
    (hroom : s.queueLen + ipcPosts s.ipc + toksPosts s.seqs + ppcPosts s.ppc ≤ s.qcap) :
    ∃ ls s', (∀ l ∈ ls, l.internal = true) ∧ srun s ls = some s' ∧ s'.final = true ∧
      s'.quitCloses = s.quitCloses + 1 :=
  shutdown_run s hpp hseqs hi hcall hcf hsf hcs hcd hda hsc hroom

/-- Non-vacuity: a key is being posted (two posts to go), another waits in the channel, the parser
is inside `emit` for a third; capacity 8 with 3 events queued. -/
example : ∃ ls s', (∀ l ∈ ls, l.internal = true) ∧
    srun { qcap := 8, queueLen := 3, ppc := .emitting 1, seqs := [.seq 1], ipc := .posting 2, callers := [.checkFlag] } ls = some s' ∧
    s'.final = true ∧ s'.quitCloses = 1 :=
  shutdown_completes_partial _ (Or.inr (Or.inr ⟨1, rfl⟩)) (by simp) (Or.inr ⟨2, rfl⟩) rfl rfl rfl rfl rfl rfl rfl (by decide)

/-- In particular such a state is not deadlocked: some internal label is enabled. -/
theorem no_deadlock_partial (s : SSys)
    (hpp : (s.ppc = .reading ∧ s.inbuf = []) ∨ s.ppc = .top ∨ ∃ k, s.ppc = .emitting k)
    (hseqs : ∀ t ∈ s.seqs, t ≠ .eof)
    (hi : s.ipc = .select ∨ ∃ k, s.ipc = .posting k)
    (hcall : s.callers = [.checkFlag]) (hcf : s.closedFlag = false) (hsf : s.suspendedFlag = false)
    (hcs : s.closeSig = 0) (hcd : s.closedSig = 0) (hda : s.da1Pending = 0) (hsc : s.seqsClosed = false)
    (hroom : s.queueLen + ipcPosts s.ipc + toksPosts s.seqs + ppcPosts s.ppc ≤ s.qcap) :
    s.stuck = false := by
  obtain ⟨ls, s', hint, hrun, hfin, _⟩ := shutdown_run s hpp hseqs hi hcall hcf hsf hcs hcd hda hsc hroom
  cases hst : s.stuck with
  | false => rfl
  | true =>
    cases ls with
    | nil =>
      simp [srun] at hrun; subst hrun
      simp [SSys.final, hcall] at hfin
    | cons l t =>
      have := stuck_forever s hst l t (hint l (by simp))
      rw [this] at hrun; exact absurd hrun (by simp)

/-- The full statement fails: F53's witness run reaches a state from which no internal label is
ever enabled again, with `Close` still waiting. -/
theorem shutdown_completes_full_fails : ¬ shutdown_completes_full := by
  intro hall
  obtain ⟨s, hrun, hnf, hstuck⟩ := VaxisModel.Witness.F53.close_never_returns
  have hreach : SReachable VaxisModel.Witness.F53.s0 s := srun_reachable _ _ _ _ .init hrun
  have hc : s.callers ≠ [] := by
    have := VaxisModel.Witness.F53.reaches_stuck_state
    simp only [hrun, Bool.and_eq_true, beq_iff_eq] at this
    rw [this.1.1.2]; simp
  obtain ⟨ls, s', hint, hr, hfin⟩ := hall _ s rfl hreach hc
  cases ls with
  | nil => simp [srun] at hr; subst hr; rw [hnf] at hfin; exact absurd hfin (by simp)
  | cons l t => rw [hstuck l t (hint l (by simp))] at hr; exact absurd hr (by simp)

/-- `Close` and `Suspend` have the protocol skeleton the LTS models: unsynchronised check of
`closed`, quit event, flag, deferred `close(chQuit)`, `Suspend`, console close; `Suspend`: the
`suspended` guard, close signal, DA1 query, wait. (Locals, logging and terminal restoration are not
part of the skeleton.) -/
theorem close_shape :
    Gen.Conc.skeleton_Close = ["if:vx.closed", "vx.PostEvent", "set:vx.closed=true", "defer:close(vx.chQuit)",
      "vx.Suspend", "vx.console.Close"] ∧
    Gen.Conc.skeleton_Suspend = ["if:vx.suspended", "set:vx.suspended=true", "vx.parser.Close", "io.WriteString",
      "vx.parser.WaitClose"] := by decide +kernel

end VaxisModel.Props.C10Shutdown
