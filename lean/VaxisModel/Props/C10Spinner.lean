import VaxisModel.Model.ConcSpinner
import VaxisModel.Lemmas.Conc
import VaxisModel.Gen.Conc

/-!
# C10 — the spinner's loop (component `SpSys`)

* `spinner_one_live`: at most one spinner goroutine has a live context, exactly when `spinning`.
* `spinner_tick_never_blocks`: a tick is never blocked — the post is `PostEvent` (non-blocking), so
  `Model.mu` is never held across a blocking operation.
* `spinner_stops`: after `Stop` every run of the spinner's own goroutines is bounded, and at rest no
  spinner goroutine is left (also the one of an earlier `Start` that had not seen its cancellation).
* `spinner_projects`: every step is a step of the queue LTS or leaves the queue alone — the queue
  theorems (per-poster order, nothing invented) cover the spinner's `Redraw` posts.
* `spinner_loop_shape`: the loop in the source is the one modelled.

Not a theorem, by construction of the code: nothing in `Close` stops a spinner; its goroutine ends
only through `Stop` (the widget's own life cycle).
-/
namespace VaxisModel.Props.C10Spinner
open VaxisModel.Model.Conc VaxisModel.Lemmas.Conc

def b2n (b : Bool) : Nat := if b then 1 else 0

/-- What every step does to `spinning` / `live`. -/
theorem spinner_one_live (qcap : Nat) (s : SpSys) (h : SpReachable qcap s) : s.live = b2n s.spinning := by
  induction h with
  | init => rfl
  | step l _ hn ih =>
    rename_i s1 s2
    cases l <;> simp only [spnext] at hn
    · split at hn <;> simp at hn <;> subst hn
      · exact ih
      · rename_i hsp; simp [b2n, hsp] at ih ⊢; omega
    · simp at hn; subst hn; simp [b2n]
    · split at hn <;> simp at hn; subst hn; exact ih
    · split at hn
      · split at hn <;> simp at hn; subst hn; exact ih
      · simp at hn
    · split at hn
      · split at hn <;> simp at hn; subst hn; exact ih
      · simp at hn
    · split at hn <;> simp at hn; subst hn; exact ih
    · split at hn
      · split at hn
        · simp at hn
        · split at hn <;> simp at hn; subst hn; exact ih
      · split at hn <;> simp at hn; subst hn; exact ih

/-- A non-blocking post is always enabled in the queue LTS. -/
theorem post_nonblocking_enabled (qcap : Nat) (q : QSys) (g : Nat) : (qnext qcap q (.post g false)).isSome = true := by
  simp only [qnext]
  split
  · rfl
  · simp

/-- **A tick is never blocked**: whenever a spinner goroutine has a tick to take it can take it —
`PostEvent` never waits, so `Model.mu` (held around it) is never held across a blocking operation. -/
theorem spinner_tick_never_blocks (qcap : Nat) (s : SpSys) :
    (s.live > 0 ∧ s.tick = true → (spnext qcap s .liveTick).isSome = true) ∧
    (s.dying > 0 ∧ s.dyingTicks > 0 → (spnext qcap s .dyingTick).isSome = true) := by
  constructor
  · intro ⟨h1, h2⟩
    have := post_nonblocking_enabled qcap s.q spinnerG
    simp only [spnext, h1, h2, decide_true, Bool.and_self, if_true]
    cases hq : qnext qcap s.q (.post spinnerG false) with
    | none => simp [hq] at this
    | some q' => rfl
  · intro ⟨h1, h2⟩
    have := post_nonblocking_enabled qcap s.q spinnerG
    simp only [spnext, h1, h2, decide_true, Bool.and_self, if_true]
    cases hq : qnext qcap s.q (.post spinnerG false) with
    | none => simp [hq] at this
    | some q' => rfl

/-- variant of the spinner's own goroutines -/
def spmu (s : SpSys) : Nat := 2 * s.dying + s.dyingTicks + b2n s.tick

def sprun (qcap : Nat) : SpSys → List SpLabel → Option SpSys
  | s, [] => some s
  | s, l :: ls => match spnext qcap s l with
    | some s' => sprun qcap s' ls
    | none => none

theorem own_step (qcap : Nat) (s s' : SpSys) (l : SpLabel) (hl : l.own = true) (h : spnext qcap s l = some s') :
    spmu s' < spmu s ∧ s'.live = s.live ∧ s'.spinning = s.spinning := by
  cases l <;> simp [SpLabel.own] at hl <;> simp only [spnext] at h
  · split at h
    · rename_i hc
      split at h <;> simp at h
      subst h
      simp at hc
      simp [spmu, b2n, hc.2]
    · simp at h
  · split at h
    · rename_i hc
      split at h <;> simp at h
      subst h
      simp at hc
      simp [spmu]; omega
    · simp at h
  · split at h <;> simp at h
    rename_i hc
    subst h
    simp [spmu]; omega

/-- **The spinner stops.** From a state in which no context is live (after `Stop`), every run of the
spinner goroutines' own steps has at most `spmu s` steps, keeps `live = 0`, and when none of their
steps is enabled any more no spinner goroutine is left. -/
theorem spinner_stops (qcap : Nat) : ∀ (ls : List SpLabel) (s s' : SpSys), s.live = 0 → (∀ l ∈ ls, l.own = true) →
    sprun qcap s ls = some s' →
    ls.length + spmu s' ≤ spmu s ∧ s'.live = 0 ∧ ((spnext qcap s' .dyingExit).isNone = true → s'.dying = 0)
  | [], s, s', h0, _, h => by
      simp [sprun] at h; subst h
      refine ⟨by simp, h0, ?_⟩
      intro hx
      simp only [spnext] at hx
      by_cases hd : s.dying > 0
      · simp [hd] at hx
      · omega
  | l :: t, s, s', h0, hl, h => by
      simp only [sprun] at h
      cases hn : spnext qcap s l with
      | none => simp [hn] at h
      | some s1 =>
        simp only [hn] at h
        obtain ⟨h1, h2, _⟩ := own_step qcap s s1 l (hl l (by simp)) hn
        obtain ⟨i1, i2, i3⟩ := spinner_stops qcap t s1 s' (by omega) (fun x hx => hl x (by simp [hx])) h
        exact ⟨by simp; omega, i2, i3⟩

/-- Every step of the spinner component is a step of the queue LTS or leaves the queue alone: the
spinner's `Redraw` posts are `post spinnerG false` of `QSys`. -/
theorem spinner_projects (qcap : Nat) (s s' : SpSys) (l : SpLabel) (h : spnext qcap s l = some s') :
    s'.q = s.q ∨ ∃ ql, qnext qcap s.q ql = some s'.q := by
  cases l <;> simp only [spnext] at h
  · split at h <;> simp at h <;> subst h <;> exact Or.inl rfl
  · simp at h; subst h; exact Or.inl rfl
  · split at h <;> simp at h; subst h; exact Or.inl rfl
  · split at h
    · split at h
      · rename_i q' hq; simp at h; subst h; exact Or.inr ⟨_, hq⟩
      · simp at h
    · simp at h
  · split at h
    · split at h
      · rename_i q' hq; simp at h; subst h; exact Or.inr ⟨_, hq⟩
      · simp at h
    · simp at h
  · split at h <;> simp at h; subst h; exact Or.inl rfl
  · split at h
    · split at h
      · simp at h
      · split at h
        · rename_i q' hq; simp at h; subst h; exact Or.inr ⟨_, hq⟩
        · simp at h
    · split at h
      · rename_i q' hq; simp at h; subst h; exact Or.inr ⟨_, hq⟩
      · simp at h

theorem spinner_queue_reachable (qcap : Nat) (s : SpSys) (h : SpReachable qcap s) : QReachable qcap s.q := by
  induction h with
  | init => exact .init
  | step l _ hn ih =>
    rcases spinner_projects qcap _ _ l hn with h | ⟨ql, h⟩
    · rw [h]; exact ih
    · exact .step ql ih h

/-- The spinner's posts are delivered in order like everybody else's (corollary of the queue LTS). -/
theorem spinner_fifo (qcap : Nat) (s : SpSys) (h : SpReachable qcap s) (g : Nat) :
    ((s.q.delivered.filter (·.g == g)).map (·.i)).Pairwise (· < ·) := by
  have inv := qinv_reachable qcap s.q (spinner_queue_reachable qcap s h)
  have hsub : s.q.delivered.Sublist s.q.posted := (List.sublist_append_left _ _).trans inv.sub
  exact (numbered_increasing s.q.posted inv.numbered g).sublist ((hsub.filter _).map _)

/-- The loop in the source: a `select` over `ctx.Done()` (stop the ticker, return) and `ticker.C`
(lock, advance the frame, `PostEvent`, unlock), after the deferred `recover → Close → panic`. -/
theorem spinner_loop_shape :
    Gen.Conc.shape_spinnerLoop = ["defer func {", "if err := recover(); err != nil {", "m.vx.Close()", "panic(err)", "}", "}",
      "for {", "select {", "case <-ctx.Done():", "ticker.Stop()", "return", "case <-ticker.C:", "m.mu.Lock()",
      "m.frame = (m.frame + 1) % len(m.Frames)", "m.vx.PostEvent(vaxis.Redraw{})", "m.mu.Unlock()", "}", "}"] := by decide +kernel

/-- Non-vacuity: Start, two ticks, Stop with a tick pending, Start again before the old goroutine has
looked at its context: two goroutines for a moment; the old one takes its last tick and exits. -/
example :
    (match sprun 8 {} [.start, .fire, .liveTick, .fire, .stop, .start, .fire, .dyingTick, .liveTick, .dyingExit] with
     | some s => s.live == 1 && s.dying == 0 && s.spinning && s.q.posted.length == 3 && s.frame == 3
     | none => false) = true := by decide

end VaxisModel.Props.C10Spinner
