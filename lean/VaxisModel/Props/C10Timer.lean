import VaxisModel.Lemmas.ConcTimer
import VaxisModel.Gen.Conc

/-!
# C10 — "Close and Suspend return under every interleaving with incoming input and pending timers"

The escape timer (`time.AfterFunc(10 ms)` armed by the parser on ESC; its callback takes `p.mu`, checks
the generation, emits the lone ESC while holding the mutex) is a component of the shutdown LTS
(`Model/ConcTimer.TSys` = `SSys` × timer slot; any number of lone ESCs from the terminal).  The
theorems of `Props/C10Shutdown` carry over: a variant, the protocol invariant, and — at rest — every
caller returned, the parser done, no timer pending.  Plus the timer's own safety: the callback never
sends on the closed channel (which would panic).
-/
namespace VaxisModel.Props.C10Timer
open VaxisModel.Model.Conc VaxisModel.Model.ConcTimer VaxisModel.Lemmas.ConcTimer VaxisModel.Lemmas.ConcInv
open VaxisModel.Lemmas.ConcMeasure

/-- **No schedule runs for ever, with timers**: `muT` (the variant of `SSys`, plus 9 per lone ESC still
to come, plus the pending timer) strictly decreases on every label a scheduler may pick — parser,
input goroutines, callers of `Close` / `Suspend`, drains, terminal reply, consume, AND arming the
timer, its callback getting the mutex, its emit — in every state. -/
theorem variant_decreases_with_timer (t t' : TSys) (l : TLabel) (hl : l.sched = true) (h : tnext t l = some t') :
    muT t' < muT t := muT_decreases t t' l hl h

/-- **Close and Suspend return under every interleaving with incoming input and pending timers.**
From every state that satisfies the protocol invariant and the timer's invariant — whatever the queue
holds, whoever consumes, whatever input and however many lone ESCs are pending or still to come, a
timer armed or its callback at its emit — every run of scheduler labels stays in both invariants and
is bounded by `muT`; at rest (hence at the end of every maximal run): all callers of `Close` /
`Suspend` have returned; if suspended the parser is done, no timer is pending and the input goroutine
is done or blocked in a post the application has not received; once closed `chQuit` is closed exactly
once and every input goroutine is done. -/
theorem shutdown_completes_with_timer (t t' : TSys) (ls : List TLabel) (hinv : Inv t.s) (ht : TInv t)
    (hl : ∀ l ∈ ls, l.sched = true) (h : trun t ls = some t') :
    Inv t'.s ∧ TInv t' ∧ ls.length + muT t' ≤ muT t ∧
    (t'.quiescent = true →
      sumBy fUnret t'.s.callers = 0 ∧
      (t'.s.suspendedFlag = true → t'.s.ppc = .done ∧ t'.timer = .idle ∧ (t'.s.ipc = .done ∨ postBlocked t'.s t'.s.ipc)) ∧
      (∀ o ∈ t'.s.olds, o.ipc = .done ∨ postBlocked t'.s o.ipc) ∧
      (t'.s.closedFlag = true → t'.s.quitCloses = 1 ∧ t'.s.suspendedFlag = true ∧ t'.s.ipc = .done ∧ ∀ o ∈ t'.s.olds, o.ipc = .done)) := by
  obtain ⟨h1, h2⟩ := tinv_trun ls t t' hl ht hinv h
  exact ⟨h2, h1, trun_bounded ls t t' hl h, fun hq => rest_with_timer t' h2 h1 hq⟩

/-- **The callback never sends on the closed channel** (a send on a closed channel panics): in every
state both invariants allow, a callback at its emit finds `p.sequences` open — `run`'s tail takes
`p.mu` and bumps the generation BEFORE `emit(EOF)` / `close(p.sequences)`, so a callback either runs
before the tail (and the tail waits for the mutex) or sees a stale generation. -/
theorem timer_never_emits_into_closed_channel (t : TSys) (hinv : Inv t.s) (ht : TInv t) (he : t.timer = .emitting) :
    t.s.seqsClosed = false := emit_only_into_open_channel t ht hinv he

/-- The source facts this rests on: `run`'s tail stops the timer, then takes `p.mu` and bumps `escGen`,
and only then emits EOF and closes the channel (regenerated skeleton). -/
theorem run_tail_bumps_before_close :
    Gen.Conc.shape_Parser_runTail =
      ["if p.escTimeout != nil {", "p.escTimeout.Stop()", "}", "p.mu.Lock()", "p.escGen++", "p.mu.Unlock()", "p.emit(EOF{})",
       "close(p.sequences)", "p.closed <- true"] := by decide

/-- A running session with a timer armed (not stale) and lone ESCs still to come satisfies both invariants. -/
theorem running_with_timer (q n e : Nat) (c : Bool) (ib : List (Option Nat)) (i : IPc) (sq : List Tok) (hq : 1 ≤ q) :
    let t : TSys := { s := { qcap := q, queueLen := n, consumer := c, inbuf := ib, ppc := .reading, ipc := i, seqs := sq },
                      timer := .armed, stale := false, escs := e }
    Inv t.s ∧ TInv t := by
  intro t
  exact ⟨inv_running q n c ib i sq false false [] hq, ⟨fun he => (by cases he), fun _ _ => rfl⟩⟩

-- Non-vacuity: Suspend with a timer pending.  The callback gets the mutex before the parser has seen the close
-- signal and is at its emit: the parser's next rune step needs the mutex and is blocked; after the emit the
-- parser goes on, the input goroutine takes the lone ESC and the EOF, Suspend returns, no timer is left.
example :
    trun { s := { callers := [{ pc := .checkSuspended, inClose := false }] }, escs := 1 }
      [.arm, .sys (.caller 0), .sys (.caller 0), .sys (.caller 0), .fire, .sys .parser] = none ∧
    (trun { s := { callers := [{ pc := .checkSuspended, inClose := false }] }, escs := 1 }
      [.arm, .sys (.caller 0), .sys (.caller 0), .sys (.caller 0), .fire, .temit, .sys .termReply, .sys .parser, .sys .parser,
       .sys .parser, .sys .parser, .sys (.input .recv), .sys (.input .step), .sys (.input .step), .sys (.input .recv),
       .sys (.caller 0)]).map (fun t => (t.timer, t.s.ppc, t.s.callers.map (·.pc))) =
      some (.idle, .done, [.returned]) := by decide

end VaxisModel.Props.C10Timer
