import VaxisModel.Model.ConcUse
import VaxisModel.Lemmas.Conc
import VaxisModel.Gen.Conc

/-!
# C10 — concurrent use without lost events or deadlock, over one LTS with all actors

Over `USys` (`Model/ConcUse.lean`): any number of posters (PostEvent / PostEventBlocking / SyncFunc /
Resize), any number of goroutines issuing terminal queries whose replies arrive early, late or
never, the input goroutine, the application.
-/
namespace VaxisModel.Props.C10Use
open VaxisModel.Model.Conc VaxisModel.Lemmas.Conc

/-- Every step of the combined system is a step of the event queue LTS, or leaves the queue alone. -/
theorem use_step_projects (qcap : Nat) (s s' : USys) (l : ULabel) (h : unext qcap s l = some s') :
    s'.q = s.q ∨ ∃ ql, ql.running = true ∧ qnext qcap s.q ql = some s'.q := by
  cases l with
  | post g b =>
    simp only [unext] at h
    split at h
    · simp at h
    · split at h
      · rename_i q' hq; simp at h; subst h; exact Or.inr ⟨_, rfl, hq⟩
      · simp at h
  | consume =>
    simp only [unext] at h
    split at h
    · rename_i q' hq; simp at h; subst h; exact Or.inr ⟨_, rfl, hq⟩
    · simp at h
  | deliver c k =>
    simp only [unext] at h
    split at h
    · simp at h
    · split at h
      · simp at h; subst h; exact Or.inl rfl
      · split at h
        · split at h <;> simp at h <;> subst h <;> exact Or.inl rfl
        · split at h <;> simp at h <;> subst h <;> exact Or.inl rfl
  | inputPost =>
    simp only [unext] at h
    split at h
    · simp at h
    · split at h
      · rename_i q' hq; simp at h; subst h; exact Or.inr ⟨_, rfl, hq⟩
      · simp at h
  | request c => simp only [unext, Option.some.injEq] at h; subst h; exact Or.inl rfl
  | recv c =>
    simp only [unext] at h
    split at h <;> simp at h
    subst h; exact Or.inl rfl
  | giveUp c =>
    simp only [unext] at h
    split at h <;> simp at h
    subst h; exact Or.inl rfl
  | dropStale c => simp only [unext, Option.some.injEq] at h; subst h; exact Or.inl rfl

/-- The queue component of every reachable state of the combined system is a reachable state of
the queue LTS. -/
theorem use_projects (qcap : Nat) (s : USys) (h : UReachable qcap s) : QReachable qcap s.q := by
  induction h with
  | init => exact .init
  | step l _ hn ih =>
    rcases use_step_projects qcap _ _ l hn with h | ⟨ql, _, h⟩
    · rw [h]; exact ih
    · exact .step ql ih h

/-- Posts and receives leave `chQuit` as it is. -/
theorem qnext_keeps_quit (qcap : Nat) (q q' : QSys) (ql : QLabel) (hl : ql.running = true) (hq : qnext qcap q ql = some q') :
    q'.quit = q.quit := by
  cases ql with
  | post g b =>
    simp only [qnext] at hq
    split at hq
    · simp at hq; subst hq; rfl
    · split at hq <;> simp at hq
      subst hq; rfl
  | consume =>
    simp only [qnext] at hq
    split at hq <;> simp at hq
    subst hq; rfl
  | quit => simp [QLabel.running] at hl
  | giveUp g => simp [QLabel.running] at hl

/-- The combined system describes the running session: `Close` has not completed (`chQuit` is open)
in any of its reachable states. -/
theorem use_not_quit (qcap : Nat) (s : USys) (h : UReachable qcap s) : s.q.quit = false := by
  induction h with
  | init => rfl
  | step l _ hn ih =>
    rcases use_step_projects qcap _ _ l hn with h | ⟨ql, hl, h⟩
    · rw [h]; exact ih
    · rw [qnext_keeps_quit qcap _ _ ql hl h]; exact ih

/-- **Per-poster order with all actors present.** Events posted by one goroutine (an application
poster, or the input goroutine `g = 0`) are delivered in posting order, whatever the other posters,
the queries and their replies do. -/
theorem fifo_per_poster_all_actors (qcap : Nat) (s : USys) (h : UReachable qcap s) (g : Nat) :
    ((s.q.delivered.filter (·.g == g)).map (·.i)).Pairwise (· < ·) := by
  have inv := qinv_reachable qcap s.q (use_projects qcap s h)
  have hsub : s.q.delivered.Sublist s.q.posted := (List.sublist_append_left _ _).trans inv.sub
  exact (numbered_increasing s.q.posted inv.numbered g).sublist ((hsub.filter _).map _)

/-- **No lost event.** A completed blocking post (every post of the input goroutine, every
`PostEventBlocking`) is queued or delivered; nothing is invented or duplicated. -/
theorem no_lost_event_all_actors (qcap : Nat) (s : USys) (h : UReachable qcap s) :
    (∀ e ∈ s.q.posted, e.blocking = true → e ∈ s.q.delivered ++ s.q.queue) ∧
    (s.q.delivered ++ s.q.queue).Sublist s.q.posted :=
  let inv := qinv_reachable qcap s.q (use_projects qcap s h)
  ⟨inv.blocking (use_not_quit qcap s h), inv.sub⟩

/-- A non-blocking post (`PostEvent`, `SyncFunc`, `Resize`) is dropped only when the queue is full
at that moment. -/
theorem dropped_only_when_full (qcap : Nat) (s s' : USys) (g : Nat) (h : unext qcap s (.post g false) = some s')
    (hd : s'.q.dropped ≠ s.q.dropped) : qcap ≤ s.q.queue.length := by
  simp only [unext] at h
  split at h
  · simp at h
  · split at h
    · rename_i q' hq
      simp at h; subst h
      simp only [qnext] at hq
      split at hq
      · simp at hq; subst hq; simp at hd
      · omega
    · simp at h

/-- **The input goroutine is never blocked by a hand-off.** Whenever it is between two sequences it
can take the next one, whether it is a reply to a query or not, whether or not a requester is waiting
and whatever is in the hand-off channels: replies may arrive early, late, unsolicited, repeated, or
never. -/
theorem input_never_blocked_by_handoff (qcap : Nat) (s : USys) (c : Option HCh) (k : Nat) (h : s.pending = 0) :
    (unext qcap s (.deliver c k)).isSome = true := by
  simp only [unext, h]
  cases c with
  | none => simp
  | some c =>
    simp only [ne_eq, not_true_eq_false, ↓reduceIte]
    split
    · split <;> simp
    · split <;> simp

/-- The hand-off channels never hold more than their capacity. -/
theorem handoff_within_capacity (qcap : Nat) (s : USys) (h : UReachable qcap s) (c : HCh) : s.occ c ≤ c.cap := by
  induction h with
  | init => simp
  | step l _ hn ih =>
    rename_i s0 s1
    cases l <;> simp only [unext] at hn
    · split at hn
      · simp at hn
      · split at hn <;> simp at hn; subst hn; exact ih
    · split at hn <;> simp at hn; subst hn; exact ih
    · split at hn
      · simp at hn
      · split at hn
        · simp at hn; subst hn; exact ih
        · rename_i c'
          split at hn
          · split at hn <;> simp at hn <;> subst hn <;> exact ih
          · split at hn <;> simp at hn <;> subst hn
            · simp only [upd]
              split
              · rename_i hlt heq; subst heq; omega
              · exact ih
            · exact ih
    · split at hn
      · simp at hn
      · split at hn <;> simp at hn; subst hn; exact ih
    · simp at hn; subst hn; exact ih
    · split at hn <;> simp at hn
      subst hn
      simp only [upd]
      split
      · rename_i heq; subst heq; omega
      · exact ih
    · split at hn <;> simp at hn
      subst hn; exact ih
    · simp at hn; subst hn
      simp only [upd]
      split
      · rename_i heq; subst heq; omega
      · exact ih

/-- **No deadlock while the application receives.** Whatever a reachable state looks like, a
blocking post (of an application goroutine or of the input goroutine) is enabled, or the queue is
non-empty and the application can receive — after which the post is enabled. With `qcap ≥ 1`
(`New` replaces a capacity below 1 by 1024). -/
theorem no_deadlock_use (qcap : Nat) (hq : 1 ≤ qcap) (s : USys) (g : Nat) (hg : g ≠ 0) :
    ((unext qcap s (.post g true)).isSome = true ∨ (unext qcap s .consume).isSome = true) ∧
    (s.pending ≠ 0 → (unext qcap s .inputPost).isSome = true ∨ (unext qcap s .consume).isSome = true) ∧
    (∀ s', unext qcap s .consume = some s' → s.q.queue.length = qcap →
      (unext qcap s' (.post g true)).isSome = true ∧ (s'.pending ≠ 0 → (unext qcap s' .inputPost).isSome = true)) := by
  refine ⟨?_, ?_, ?_⟩
  · by_cases hlt : s.q.queue.length < qcap
    · left; simp [unext, hg, qnext, hlt]
    · right
      cases hqq : s.q.queue with
      | nil => simp [hqq] at hlt; omega
      | cons e r => simp [unext, qnext, hqq]
  · intro hp
    by_cases hlt : s.q.queue.length < qcap
    · left; simp [unext, hp, qnext, hlt]
    · right
      cases hqq : s.q.queue with
      | nil => simp [hqq] at hlt; omega
      | cons e r => simp [unext, qnext, hqq]
  · intro s' hc hfull
    simp only [unext] at hc
    split at hc
    · rename_i q' hq'
      simp at hc; subst hc
      simp only [qnext] at hq'
      split at hq'
      · simp at hq'
      · rename_i e r heq
        simp at hq'; subst hq'
        have : r.length < qcap := by rw [heq] at hfull; simp at hfull; omega
        refine ⟨by simp [unext, hg, qnext, this], fun hp => by simp [unext, hp, qnext, this]⟩
    · simp at hc

/-- A requester with a time-out or a context can always stop waiting; the colour queries
(`QueryColor`, `QueryForeground`, `QueryBackground`) cannot — if the terminal never answers they
wait for ever (their documentation says so; the library's own goroutines are not affected). -/
theorem requesters_with_timeout_can_give_up (qcap : Nat) (s : USys) (c : HCh) (hw : s.waiting c > 0) :
    (unext qcap s (.giveUp c)).isSome = c.canGiveUp := by
  cases hc : c.canGiveUp <;> simp [unext, hc, hw]

/-- The capacities and the non-blocking shape of the hand-offs are those of the source. -/
theorem handoff_facts :
    (Gen.Conc.chanMakes.filter fun x => x.1 ∈ ["chCursorPos", "chClipboard", "chSizeDone", "chColor", "chFg", "chBg"]).map (fun x => (x.1, x.2.2)) =
      [("chClipboard", toString HCh.clipboard.cap), ("chCursorPos", toString HCh.cursorPos.cap), ("chSizeDone", toString HCh.sizeDone.cap),
       ("chFg", toString HCh.fg.cap), ("chBg", toString HCh.bg.cap), ("chColor", toString HCh.color.cap)] ∧
    (∀ s ∈ Gen.Conc.handoffSends, s.2 = "nonblocking" ∨ s.2 = "bounded") ∧
    (Gen.Conc.handoffRecvs.filter fun x => x.2.2 = "bare").map (·.2.1) = ["chColor", "chFg", "chBg"] := by decide +kernel

/-- Non-vacuity: a reply arrives before anybody asked (buffered); a second one finds the buffer full
and is dropped without blocking the input goroutine; a requester then takes the first; the events
of both sequences are posted. -/
example :
    (match (unext 4 {} (.deliver (some .color) 1)).bind (fun s => (unext 4 s .inputPost).bind fun s =>
        (unext 4 s (.deliver (some .color) 1)).bind fun s => (unext 4 s .inputPost).bind fun s =>
        (unext 4 s (.request .color)).bind fun s => unext 4 s (.recv .color)) with
     | some s => s.occ .color == 0 && s.waiting .color == 0 && s.q.queue.length == 2 && s.droppedReplies == 1
     | none => false) = true := by decide

end VaxisModel.Props.C10Use
