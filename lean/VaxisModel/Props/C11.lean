/-
C11 — windows clip: drawing never escapes a window or its ancestors; the text helpers place
clusters in reading order.  Theorems over `Model.Window` (window.go / screen.go / character.go)
for ALL integer geometries (negative, zero, oversized offsets and sizes), all parent chains, all
screens, all texts and all library functions (`Lib`).
-/
import VaxisModel.Lemmas.Window
import VaxisModel.Lemmas.WindowText
import VaxisModel.Lemmas.WindowSkelPinned

namespace VaxisModel.Props.C11
open VaxisModel.Model.Window VaxisModel.Spec.Window VaxisModel.Lemmas.Window

/-! ## Clipping of the primitive writes -/

/-- `covers` really is "the rectangle of the window and of every ancestor": it holds iff the point
lies in the own (absolute) rectangle of every window of the parent chain. -/
theorem covers_iff_chain (win : Win) (x y : Int) :
    covers win x y ↔ ∀ a ∈ chain win, inOwnRect a x y := covers_iff_chain' win x y

/-- **setCell_clip.** If `SetCell(c,r)` changes screen cell `(x,y)` then `(x,y)` is the window's
absolute origin plus `(c,r)`, lies in the rectangle of the window and of every ancestor, and in the
screen.  (Contrapositive: every other cell is unchanged.)  Any geometry, any chain. -/
theorem setCell_clip (win : Win) (s : Screen) (c r : Int) (cell : Cell) (x y : Int)
    (h : (win.setCell s c r cell).get x y ≠ s.get x y) :
    x = (win.origin).1 + c ∧ y = (win.origin).2 + r ∧ covers win x y ∧ inScreen s x y := by
  simp only [Win.setCell, get_put] at h
  rw [origin_eq_absOrigin]
  split at h
  · rename_i hc; exact ⟨hc.1, hc.2.1, hc.2.2.1, hc.2.2.2⟩
  · exact absurd rfl h

/-- The same for `SetStyle`. -/
theorem setStyle_clip (win : Win) (s : Screen) (c r : Int) (st : Nat) (x y : Int)
    (h : (win.setStyle s c r st).get x y ≠ s.get x y) :
    x = (win.origin).1 + c ∧ y = (win.origin).2 + r ∧ covers win x y ∧ inScreen s x y := by
  simp only [Win.setStyle, get_put] at h
  rw [origin_eq_absOrigin]
  split at h
  · rename_i hc; exact ⟨hc.1, hc.2.1, hc.2.2.1, hc.2.2.2⟩
  · exact absurd rfl h

/-- An accepted cell lands at origin + offset with exactly the given content. -/
theorem setCell_lands (win : Win) (s : Screen) (c r : Int) (cell : Cell)
    (hv : visible win s ((win.origin).1 + c) ((win.origin).2 + r)) :
    (win.setCell s c r cell).get ((win.origin).1 + c) ((win.origin).2 + r) =
      (s.get ((win.origin).1 + c) ((win.origin).2 + r)).map (fun _ => cell) := by
  rw [origin_eq_absOrigin] at hv ⊢
  simp only [Win.setCell, get_put, hv, and_self, if_true]
  rfl

/-- `SetStyle` on an accepted cell keeps the content and replaces the style. -/
theorem setStyle_lands (win : Win) (s : Screen) (c r : Int) (st : Nat)
    (hv : visible win s ((win.origin).1 + c) ((win.origin).2 + r)) :
    (win.setStyle s c r st).get ((win.origin).1 + c) ((win.origin).2 + r) =
      (s.get ((win.origin).1 + c) ((win.origin).2 + r)).map (fun old => { old with st := st }) := by
  rw [origin_eq_absOrigin] at hv ⊢
  simp only [Win.setStyle, get_put, hv, and_self, if_true]
  rfl

/-- A write whose target is not visible leaves the whole screen untouched. -/
theorem put_rejected (win : Win) (s : Screen) (c r : Int) (p : Win.Put)
    (hv : ¬ visible win s ((win.origin).1 + c) ((win.origin).2 + r)) :
    win.put s c r p = s := by
  rw [origin_eq_absOrigin] at hv
  exact put_invisible win s c r p hv

/-- `New` with non-negative sizes: however its switches clamp, the new window's region is exactly
the requested rectangle (placed at the parent's origin + offset) intersected with the parent's
region — oversized or displaced children are cut, never enlarged. -/
theorem new_region (win : Win) (c r W H : Int) (hW : 0 ≤ W) (hH : 0 ≤ H) (x y : Int) :
    covers (win.new c r W H) x y ↔
      (((win.origin).1 + c ≤ x ∧ x < (win.origin).1 + c + W ∧
        (win.origin).2 + r ≤ y ∧ y < (win.origin).2 + r + H) ∧ covers win x y) := by
  rw [origin_eq_absOrigin]; exact covers_new win c r W H hW hH x y

/-- The screen's own index expressions `s.buf[row][col]` are in range whenever the guards pass
(no Go panic), given the shape `resize` establishes; and a write preserves that shape. -/
theorem screen_index_ok (s : Screen) (hwf : s.WF) (col row : Int) (hg : s.guard col row = true) :
    row.toNat < s.buf.length ∧ ∀ l, s.buf[row.toNat]? = some l → col.toNat < l.length :=
  index_ok s hwf col row hg

theorem screen_wf_resize (cols rows : Int) (hc : 0 ≤ cols) (hr : 0 ≤ rows) : (Screen.resize cols rows).WF :=
  wf_resize cols rows hc hr

theorem screen_wf_put (win : Win) (s : Screen) (hwf : s.WF) (c r : Int) (p : Win.Put) :
    (win.put s c r p).WF := wf_put win s hwf c r p

/-- With a well-formed screen, an accepted `SetCell` makes the addressed cell read back exactly. -/
theorem setCell_reads_back (win : Win) (s : Screen) (hwf : s.WF) (c r : Int) (cell : Cell)
    (hv : visible win s ((win.origin).1 + c) ((win.origin).2 + r)) :
    (win.setCell s c r cell).get ((win.origin).1 + c) ((win.origin).2 + r) = some cell := by
  rw [setCell_lands win s c r cell hv]
  obtain ⟨v, hv'⟩ := get_some_of_inScreen s hwf _ _ hv.2
  rw [hv']; rfl

/-! ## Every drawing entry point is a fold of `SetCell` -/

/-- **drawops_clip.** Whatever list of `SetCell` calls a helper makes, a changed cell is visible
(inside the window, every ancestor and the screen) and is origin + offset of one of the calls. -/
theorem drawops_clip (win : Win) (s : Screen) (ops : List Op) (x y : Int)
    (h : (applyOps win s ops).get x y ≠ s.get x y) :
    covers win x y ∧ inScreen s x y ∧
    ∃ o ∈ ops, x = (win.origin).1 + o.col ∧ y = (win.origin).2 + o.row := by
  rw [origin_eq_absOrigin]
  have := applyOps_changed win ops s x y h
  exact ⟨this.1.1, this.1.2, this.2⟩

theorem fill_clip (win : Win) (s : Screen) (c : Cell) (x y : Int)
    (h : (fill win s c).get x y ≠ s.get x y) : covers win x y ∧ inScreen s x y :=
  let t := drawops_clip win s _ x y h; ⟨t.1, t.2.1⟩

theorem clear_clip (win : Win) (s : Screen) (x y : Int)
    (h : (clear win s).get x y ≠ s.get x y) : covers win x y ∧ inScreen s x y :=
  fill_clip win s _ x y h

theorem print_clip (lib : Lib) (rm : Bool) (win : Win) (s : Screen) (segs : List (Nat × List Raw)) (x y : Int)
    (h : (print lib rm win s segs).1.get x y ≠ s.get x y) : covers win x y ∧ inScreen s x y :=
  let t := drawops_clip win s _ x y h; ⟨t.1, t.2.1⟩

theorem printTruncate_clip (lib : Lib) (rm : Bool) (win : Win) (s : Screen) (row : Int)
    (segs : List (Nat × List Raw)) (x y : Int)
    (h : (printTruncate lib rm win s row segs).get x y ≠ s.get x y) : covers win x y ∧ inScreen s x y :=
  let t := drawops_clip win s _ x y h; ⟨t.1, t.2.1⟩

theorem println_clip (lib : Lib) (rm : Bool) (win : Win) (s : Screen) (row : Int)
    (segs : List (Nat × List Raw)) (x y : Int)
    (h : (println lib rm win s row segs).get x y ≠ s.get x y) : covers win x y ∧ inScreen s x y :=
  let t := drawops_clip win s _ x y h; ⟨t.1, t.2.1⟩

theorem wrap_clip (lib : Lib) (rm : Bool) (win : Win) (s : Screen) (segs : List (Nat × List (List Raw))) (x y : Int)
    (h : (wrap lib rm win s segs).1.get x y ≠ s.get x y) : covers win x y ∧ inScreen s x y :=
  let t := drawops_clip win s _ x y h; ⟨t.1, t.2.1⟩

/-- `Fill` reaches every visible cell of the window: the changed set is exactly the clip region
(for a well-formed screen). -/
theorem fill_covers (win : Win) (s : Screen) (hwf : s.WF) (c : Cell) (x y : Int)
    (hv : visible win s x y) : (fill win s c).get x y = some c :=
  fill_reaches win s hwf c x y hv

/-! ## Reading order of the text helpers -/

open VaxisModel.Lemmas.WindowText

/-- **print_order (Print).** The `SetCell` calls `Print` makes are the reading-order layout of its
clusters (one call per non-newline cluster, at the pen position; the pen advances by the measured
width and moves to column 0 of the next row at a newline cluster or when `col ≥ width`), except
that calls are dropped once the pen is below `row > height` — and those rows are outside the
window anyway. -/
theorem print_is_layout (lib : Lib) (rm : Bool) (win : Win) (segs : List (Nat × List Raw)) :
    ∃ dropped, (layout win.width (printItems lib rm (flatten segs)) 0 0).1 =
        (printOps lib rm win segs).1 ++ dropped ∧ ∀ o ∈ dropped, win.height < o.row :=
  printGo_layout lib rm win.width win.height (flatten segs) 0 0

/-- **print_order.** With positive cluster widths the `SetCell` calls of `Print` are, in call
order, strictly increasing in (row, col). -/
theorem print_order (lib : Lib) (rm : Bool) (win : Win) (segs : List (Nat × List Raw))
    (hw : ∀ it ∈ printItems lib rm (flatten segs), it.brk = false → 0 < it.w) :
    List.Pairwise before (printOps lib rm win segs).1 := by
  obtain ⟨d, hd, _⟩ := print_is_layout lib rm win segs
  have := layout_pairwise win.width (printItems lib rm (flatten segs)) 0 0 hw
  rw [hd] at this
  exact (List.pairwise_append.1 this).1

/-- Reading order is strict: with positive cluster widths every later call is strictly after every
earlier one in (row, col) order. -/
theorem layout_strict_order (cols : Int) (l : List Item) (col row : Int)
    (hw : ∀ it ∈ l, it.brk = false → 0 < it.w) :
    List.Pairwise before (layout cols l col row).1 := layout_pairwise cols l col row hw

/-- Each non-break cluster that can be shown inside the window (not wider than it) goes to exactly
one `SetCell`, in text order, never split; the others to none. -/
theorem layout_one_call_per_cluster (cols : Int) (l : List Item) (col row : Int) (hcol : 0 ≤ col)
    (hw : ∀ it ∈ l, 0 ≤ it.w) :
    (layout cols l col row).1.map (·.cell) =
      (l.filter (fun it => !it.brk && decide (it.w ≤ cols))).map Item.cell :=
  layout_cells cols l col row hcol hw

/-- The same for the word-wrapping layout (`Wrap`): whatever rows the word wrapping chooses, the cells
written are, in text order, exactly the clusters of the line segments that are neither line breaks
nor wider than the window — each once, none split, none merged.  (That the line segments' clusters
are the clusters of the text is the harness-side oracle of the F111c repair: the segmentation is a
parameter of the model.) -/
theorem wrap_one_call_per_cluster (cols : Int) (L : List (List Item)) (col row : Int) (hcol : 0 ≤ col)
    (hw : ∀ seg ∈ L, ∀ it ∈ seg, 0 ≤ it.w) :
    (layoutWrap cols L col row).1.map (·.cell) =
      (L.flatten.filter (fun it => !it.brk && decide (it.w ≤ cols))).map Item.cell :=
  layoutWrap_cells cols L col row hcol hw

/-- The pen rule itself: a break starts a new row; a cluster that is wider than the window is not
written; otherwise the cluster is written at the pen — or at the start of the next row when it does
not fit in the rest of this one — the column advances by its width, and a new row starts when the
row is full (`col + w ≥ cols`). -/
theorem layout_step (cols : Int) (it : Item) (rest : List Item) (col row : Int) :
    layout cols (it :: rest) col row =
      if it.brk then layout cols rest 0 (row + 1)
      else if col + it.w > cols ∧ it.w > cols then layout cols rest col row
      else
        let q := if col + it.w > cols then ((0 : Int), row + 1) else (col, row)
        let p := if q.1 + it.w ≥ cols then ((0 : Int), q.2 + 1) else (q.1 + it.w, q.2)
        ({ col := q.1, row := q.2, cell := it.cell } :: (layout cols rest p.1 p.2).1,
         (layout cols rest p.1 p.2).2) := by
  simp only [layout, advance, fitPen]
  split
  · rfl
  · split <;> rfl

/-- `Println`: the calls are exactly the single-line layout. -/
theorem println_is_layout (lib : Lib) (rm : Bool) (win : Win) (row : Int) (segs : List (Nat × List Raw))
    (hrow : row < win.height) :
    printlnOps lib rm win row segs = layoutLine win.width row (lineItems lib rm (flatten segs)) 0 := by
  simp only [printlnOps, show ¬ row ≥ win.height by omega, if_false]
  exact lnGo_layout lib rm win.width row (flatten segs) 0

/-- `PrintTruncate`: the calls are exactly the truncating single-line layout. -/
theorem printTruncate_is_layout (lib : Lib) (rm : Bool) (win : Win) (row : Int) (segs : List (Nat × List Raw))
    (hrow : row < win.height) :
    printTruncateOps lib rm win row segs = layoutTrunc win.width row (lineItems lib rm (flatten segs)) 0 := by
  simp only [printTruncateOps, show ¬ row ≥ win.height by omega, if_false]
  exact truncGo_layout lib rm win.width row (flatten segs) 0

/-- **print_order (Wrap).** The `SetCell` calls `Wrap` makes are the word-wrapping reading-order
layout of its line segments (a segment that fits a row but not the rest of the current row starts a
new row; clusters advance by their measured width; a cluster with a trailing line break or a full
row starts a new row), except that processing stops once the pen is at `row ≥ height` — rows that
are outside the window anyway.  Uses that Wrap stores the width it measured (`facts_wrap`; false of
the code before the F34 fix). -/
theorem wrap_is_layout (lib : Lib) (rm : Bool) (win : Win) (segs : List (Nat × List (List Raw))) :
    ∃ dropped, (layoutWrap win.width (wrapAllItems lib rm segs) 0 0).1 =
        (wrapOps lib rm win segs).1 ++ dropped ∧ ∀ o ∈ dropped, win.height ≤ o.row := by
  have hstored : wrapRemeasured = true := by decide
  simp only [wrapOps, hstored]
  exact wrapGo_layout lib rm win.width win.height segs 0 0

/-- **print_order (Wrap).** Likewise the calls of `Wrap` are strictly increasing in (row, col). -/
theorem wrap_order (lib : Lib) (rm : Bool) (win : Win) (segs : List (Nat × List (List Raw)))
    (hw : ∀ seg ∈ wrapAllItems lib rm segs, ∀ it ∈ seg, it.brk = false → 0 < it.w) :
    List.Pairwise before (wrapOps lib rm win segs).1 := by
  obtain ⟨d, hd, _⟩ := wrap_is_layout lib rm win segs
  have := layoutWrap_pairwise win.width (wrapAllItems lib rm segs) 0 0 hw
  rw [hd] at this
  exact (List.pairwise_append.1 this).1

/-- Single-line layouts write left to right on one row, advancing by the widths. -/
theorem layoutLine_order (cols row : Int) (l : List Item) (col : Int) (hw : ∀ it ∈ l, 0 < it.w) :
    List.Pairwise before (layoutLine cols row l col) := layoutLine_pairwise cols row l col hw

/-! ## No cluster extends beyond the window (F111 repaired)

Observed through the terminal, a cluster of display width `w` written at column `c` occupies the
columns `c … c+w-1`.  Every `SetCell` call of the four text helpers that the window accepts has
`c + w ≤ width`: the cluster lies inside the window's own row, continuation columns included.  In a
right-nested chain (every chain built with `vx.Window()` and `New`) those columns are then inside
the clip region as well. -/

theorem print_fits (lib : Lib) (rm : Bool) (win : Win) (segs : List (Nat × List Raw)) :
    ∀ o ∈ (printOps lib rm win segs).1, o.col + o.cell.w ≤ win.width := by
  obtain ⟨d, hd, _⟩ := print_is_layout lib rm win segs
  intro o ho
  exact layout_fits win.width _ 0 0 o (by rw [hd]; exact List.mem_append_left _ ho)

theorem wrap_fits (lib : Lib) (rm : Bool) (win : Win) (segs : List (Nat × List (List Raw))) :
    ∀ o ∈ (wrapOps lib rm win segs).1, o.col + o.cell.w ≤ win.width := by
  obtain ⟨d, hd, _⟩ := wrap_is_layout lib rm win segs
  intro o ho
  exact layoutWrap_fits win.width _ 0 0 o (by rw [hd]; exact List.mem_append_left _ ho)

theorem println_fits (lib : Lib) (rm : Bool) (win : Win) (row : Int) (segs : List (Nat × List Raw)) :
    ∀ o ∈ printlnOps lib rm win row segs, o.col + o.cell.w ≤ win.width := by
  intro o ho
  by_cases hrow : row < win.height
  · rw [println_is_layout lib rm win row segs hrow] at ho
    exact layoutLine_fits win.width row _ 0 o ho
  · simp only [printlnOps, show row ≥ win.height by omega, if_true] at ho; cases ho

/-- `PrintTruncate`: a call fits or is rejected by the window itself (`col ≥ width`: the ellipsis in
a window without columns). -/
theorem printTruncate_fits (lib : Lib) (rm : Bool) (win : Win) (row : Int) (segs : List (Nat × List Raw)) :
    ∀ o ∈ printTruncateOps lib rm win row segs, win.width ≤ o.col ∨ o.col + o.cell.w ≤ win.width := by
  intro o ho
  by_cases hrow : row < win.height
  · rw [printTruncate_is_layout lib rm win row segs hrow] at ho
    exact layoutTrunc_fits win.width row _ 0 o ho
  · simp only [printTruncateOps, show row ≥ win.height by omega, if_true] at ho; cases ho

/-- `New` (and `vx.Window()`) build right-nested chains, whatever the arguments. -/
theorem new_rightNested (win : Win) (hn : rightNested win) (c r W H : Int) :
    rightNested (win.new c r W H) := rightNested_new win hn c r W H

theorem window_rightNested (s : Screen) : rightNested (Win.ofScreen s) := rightNested_ofScreen s

/-- **cluster_extent_clip.** A call `SetCell(c, r, cell)` that fits in the window's row
(`c + w ≤ width`) and whose cell is accepted (its target is in the clip region) has every column
`c … c+w-1` of the cluster in the clip region of a right-nested chain. -/
theorem cluster_extent_clip (win : Win) (hn : rightNested win) (o : Op)
    (hfit : o.col + o.cell.w ≤ win.width)
    (hv : covers win ((win.origin).1 + o.col) ((win.origin).2 + o.row)) (i : Int) (h0 : 0 ≤ i) (hi : i < o.cell.w) :
    covers win ((win.origin).1 + o.col + i) ((win.origin).2 + o.row) := by
  rw [origin_eq_absOrigin] at hv ⊢
  exact covers_extend win hn _ _ _ hv (by omega) (by omega)

/-- **text_extent_clip.** For `Print`, `Wrap`, `Println` and `PrintTruncate` on a right-nested
chain: every cluster written into the clip region occupies only columns of the clip region — what
the terminal shows after a `Render` changes only there (given the glyph also fits in the screen's
row; otherwise the renderer shows a blank, C01 `frame_displays`). -/
theorem text_extent_clip (lib : Lib) (rm : Bool) (win : Win) (hn : rightNested win) (o : Op)
    (hmem : (∃ segs, o ∈ (printOps lib rm win segs).1) ∨ (∃ segs, o ∈ (wrapOps lib rm win segs).1) ∨
            (∃ row segs, o ∈ printlnOps lib rm win row segs) ∨ (∃ row segs, o ∈ printTruncateOps lib rm win row segs))
    (hv : covers win ((win.origin).1 + o.col) ((win.origin).2 + o.row)) (i : Int) (h0 : 0 ≤ i) (hi : i < o.cell.w) :
    covers win ((win.origin).1 + o.col + i) ((win.origin).2 + o.row) := by
  have hfit : o.col + o.cell.w ≤ win.width := by
    rcases hmem with ⟨segs, h⟩ | ⟨segs, h⟩ | ⟨row, segs, h⟩ | ⟨row, segs, h⟩
    · exact print_fits lib rm win segs o h
    · exact wrap_fits lib rm win segs o h
    · exact println_fits lib rm win row segs o h
    · rcases printTruncate_fits lib rm win row segs o h with h' | h'
      · -- rejected by the window's own guard: contradiction with `hv`
        have hown := covers_own win _ _ (by rw [origin_eq_absOrigin] at hv; exact hv)
        unfold inOwnRect at hown; omega
      · exact h'
  exact cluster_extent_clip win hn o hfit hv i h0 hi

/-- The hypothesis `rightNested` is needed: a struct-literal child wider than its parent (columns
0..3 under a 2-column parent) accepts 世 (width 2) at column 1 — inside both windows — and its right
half lies in column 2, outside the parent. -/
example :
    let par := Win.root 0 0 2 1
    let ch := par.direct 0 0 4 1
    let ops := (printOps ⟨fun g => if g = 6 then 2 else 1, fun _ => false, fun _ => false⟩ true ch
      [(0, [⟨5, 1, false⟩, ⟨6, 2, false⟩])]).1
    ops.map (fun o => (o.col, o.row, o.cell.w)) = [(0, 0, 1), (1, 0, 2)] ∧
    ¬ rightNested ch ∧ covers ch 1 0 ∧ ¬ covers ch 2 0 := by decide

/-- Non-vacuity / the F111 input: `Print("aa世")` in a 3-column window now puts 世 on the next row. -/
example :
    let A := (Win.root 0 0 4 2).new 0 0 3 2
    ((printOps ⟨fun g => if g = 6 then 2 else 1, fun _ => false, fun _ => false⟩ true A
      [(0, [⟨5, 1, false⟩, ⟨5, 1, false⟩, ⟨6, 2, false⟩])]).1.map (fun o => (o.col, o.row))
      = [(0, 0), (1, 0), (0, 1)]) ∧ rightNested A := by decide

/-! ## The model's shape-fixed facts are the source's (regenerated by the extractor each run)

`R` = receiver, `Pn` = n-th parameter, `Sn` = n-th result of `Size()`, `N` = the new window,
`E(x)` = the range variable over `x`.  If window.go / screen.go / character.go change one of these
the theorem stops compiling and the check reports which. -/

open VaxisModel.Gen.WindowFacts in
/-- `Win.guard`, `put`: reject iff `col<0 ∨ col≥Width ∨ row<0 ∨ row≥Height`; then delegate with
`(col+Column, row+Row)` to the screen (no parent) or to the parent. -/
theorem facts_window_setCell :
    winSetCellReject = ["P0<0", "P0>=R.Width", "P1<0", "P1>=R.Height"] ∧
    winSetCellCalls = ["R.Vx.screenNext.setCell(P0+R.Column,P1+R.Row,P2)", "R.Parent.SetCell(P0+R.Column,P1+R.Row,P2)"] ∧
    winSetStyleReject = ["P0<0", "P0>=R.Width", "P1<0", "P1>=R.Height"] ∧
    winSetStyleCalls = ["R.Vx.screenNext.setStyle(P0+R.Column,P1+R.Row,P2)", "R.Parent.SetStyle(P0+R.Column,P1+R.Row,P2)"] := by
  decide +kernel

open VaxisModel.Gen.WindowFacts in
/-- `Screen.guard`, `Screen.update`. -/
theorem facts_screen_setCell :
    scrSetCellReject = ["P0<0", "P0>=R.cols", "P1<0", "P1>=R.rows"] ∧ scrSetCellTail = ["R.buf[P1][P0]=P2"] ∧
    scrSetStyleReject = ["P0<0", "P0>=R.cols", "P1<0", "P1>=R.rows"] ∧ scrSetStyleTail = ["R.buf[P1][P0].Style=P2"] := by
  decide +kernel

open VaxisModel.Gen.WindowFacts in
/-- `Win.new`. -/
theorem facts_window_new :
    newLiteral = ["Column:P0", "Height:P3", "Parent:&R", "Row:P1", "Vx:R.Vx", "Width:P2"] ∧
    newSteps = ["size:R.Size()", "case P2<0 => N.Width=S0-P0", "case P2+P0>S0 => N.Width=S0-P0", "end",
                "case P3<0 => N.Height=S1-P1", "case P3+P1>S1 => N.Height=S1-P1", "end", "return N"] := by
  decide +kernel

open VaxisModel.Gen.WindowFacts in
/-- `characters`: eight `{" ",1}` per TAB. -/
theorem facts_characters_tab :
    tabLoop = ["I:=0", "I<8", "I+=1"] ∧ tabCell = "Character{\" \", 1}" := by decide +kernel

open VaxisModel.Gen.WindowFacts in
/-- `remeasure`, `measured`, and the pen conditions of Print (with the fit test of the F111 repair:
`col+Width>cols`, then `Width>cols`) / PrintTruncate / Println. -/
theorem facts_text_helpers :
    remeasurePrint = ["if !R.Vx.caps.unicodeCore||!R.Vx.caps.explicitWidth { E(Characters(E(P0).Text)).Width=R.Vx.characterWidth(E(Characters(E(P0).Text)).Grapheme) }"] ∧
    condsPrint = ["strings.ContainsRune(E(Characters(E(P0).Text)).Grapheme,'\\n')", "row>S1", "col+E(Characters(E(P0).Text)).Width>S0", "E(Characters(E(P0).Text)).Width>S0", "col>=S0"] ∧
    remeasurePrintTruncate = ["if !R.Vx.caps.unicodeCore||!R.Vx.caps.explicitWidth { E(Characters(E(P1).Text)).Width=R.Vx.characterWidth(E(Characters(E(P1).Text)).Grapheme) }"] ∧
    condsPrintTruncate = ["P0>=S1", "col+truncator.Width+w>S0"] ∧
    remeasurePrintln = ["if !R.Vx.caps.unicodeCore||!R.Vx.caps.explicitWidth { E(Characters(E(P1).Text)).Width=R.Vx.characterWidth(E(Characters(E(P1).Text)).Grapheme) }"] ∧
    condsPrintln = ["P0>=S1", "col+w>S0"] := by
  decide +kernel

open VaxisModel.Gen.WindowFacts in
/-- Wrap: measures into the slice element (`wrapRemeasured = true`, finding F34 fixed), pen conditions. -/
theorem facts_wrap :
    wrapStoresWidth = true ∧
    remeasureWrap = ["if !R.Vx.caps.unicodeCore||!R.Vx.caps.explicitWidth { E(chars).Width=R.Vx.characterWidth(E(chars).Grapheme); chars[K(chars)].Width=E(chars).Width }"] ∧
    condsWrap = ["row>=S1", "case total>S0", "case total+col>S0", "uniseg.HasTrailingLineBreakInString(E(chars).Grapheme)", "col+E(chars).Width>S0", "E(chars).Width>S0", "col>=S0"] := by
  decide +kernel

/-- **The helpers' statement structure is the transcribed one**: the skeletons of `ShowCursor`, `Fill`,
`Origin`, `Clear`, `Print`, `PrintTruncate`, `Println`, `Wrap` and Wrap's helper `splitsCluster` (the F111c repair: a line
segment is extended while it ends inside a grapheme cluster — in the model the line segments are a parameter,
computed by the harness with the same loop) regenerated from window.go on this
run equal the pinned transcription (`Lemmas/WindowSkelPinned.lean`) that `cursorPos`, `fillOps`,
`origin`, `clear`, `printGo`, `truncGo`, `lnGo`, `wrapSegs`/`wrapChars` follow statement by statement. -/
theorem facts_helper_skeletons :
    VaxisModel.Gen.WindowFacts.skShowCursor = VaxisModel.Lemmas.WindowSkelPinned.skShowCursor ∧
    VaxisModel.Gen.WindowFacts.skFill = VaxisModel.Lemmas.WindowSkelPinned.skFill ∧
    VaxisModel.Gen.WindowFacts.skOrigin = VaxisModel.Lemmas.WindowSkelPinned.skOrigin ∧
    VaxisModel.Gen.WindowFacts.skClear = VaxisModel.Lemmas.WindowSkelPinned.skClear ∧
    VaxisModel.Gen.WindowFacts.skPrint = VaxisModel.Lemmas.WindowSkelPinned.skPrint ∧
    VaxisModel.Gen.WindowFacts.skPrintTruncate = VaxisModel.Lemmas.WindowSkelPinned.skPrintTruncate ∧
    VaxisModel.Gen.WindowFacts.skPrintln = VaxisModel.Lemmas.WindowSkelPinned.skPrintln ∧
    VaxisModel.Gen.WindowFacts.skWrap = VaxisModel.Lemmas.WindowSkelPinned.skWrap ∧
    VaxisModel.Gen.WindowFacts.sksplitsCluster = VaxisModel.Lemmas.WindowSkelPinned.sksplitsCluster := by
  decide +kernel

/-- No statement of the helpers has a form the extractor does not know. -/
theorem helpers_fully_recognised :
    (VaxisModel.Gen.WindowFacts.skShowCursor ++ VaxisModel.Gen.WindowFacts.skFill ++ VaxisModel.Gen.WindowFacts.skOrigin ++
     VaxisModel.Gen.WindowFacts.skClear ++ VaxisModel.Gen.WindowFacts.skPrint ++ VaxisModel.Gen.WindowFacts.skPrintTruncate ++
     VaxisModel.Gen.WindowFacts.skPrintln ++ VaxisModel.Gen.WindowFacts.skWrap ++ VaxisModel.Gen.WindowFacts.sksplitsCluster).all (fun l => l.2.1 != "unknown") = true := by
  decide +kernel

/-- The extractor recognised every shape it looks for in window.go / screen.go / character.go. -/
theorem facts_extractor_clean : VaxisModel.Gen.WindowFacts.extractErrors = [] := by decide

/-! ### Non-vacuity -/

/-- A 2-deep chain with a negative offset and an oversized child on a 6×4 screen: writing (1,0) in
the grandchild changes exactly screen cell (2,1). -/
example :
    let s := Screen.resize 6 4
    let w1 := (Win.ofScreen s).new (-1) 1 99 (-3)
    let w2 := w1.new 2 0 5 5
    (w2.setCell s 1 0 ⟨7, 1, 3⟩).get 2 1 = some ⟨7, 1, 3⟩ ∧ w2.origin = (1, 1) ∧
    (w2.setCell s (-1) 0 ⟨7, 1, 3⟩).get 0 1 = some default := by decide

example : (layout 3 [⟨5, 2, false, 0⟩, ⟨6, 2, false, 0⟩, ⟨0, 0, true, 0⟩, ⟨7, 1, false, 0⟩, ⟨8, 4, false, 0⟩] 0 0).1.map (fun o => (o.col, o.row))
    = [(0, 0), (0, 1), (0, 2)] := by decide

end VaxisModel.Props.C11
