/-
C11 — `Window.SetCell` / `Window.SetStyle` / `screen.setCell` / `screen.setStyle` as the INTERPRETATION of
what `extract/cmd/C11` reads from window.go / screen.go on every run (`Gen/WindowFacts.lean`: the disjuncts
of the leading `if … { return }` guards and the calls / statements after them, receiver `R`, parameters
`P0 P1 P2`): the reject test is "any extracted disjunct holds", the delegation is the extracted call
evaluated (screen at the root, parent otherwise, arguments `P0+R.Column`, `P1+R.Row`).  The model's
`Win.put` / `Screen.setCell` / `Screen.setStyle` are equal to that for all windows, screens and arguments,
so a changed guard or argument changes the interpretation and breaks exactly these theorems
(an unknown disjunct rejects, an unknown call yields `none`).
-/
import VaxisModel.Model.Window
import VaxisModel.Model.App

namespace VaxisModel.Props.C11Body
open VaxisModel.Model.Window VaxisModel.Gen.WindowFacts

/-- One disjunct of a window guard. -/
def rejW (win : Win) (col row : Int) (a : String) : Bool :=
  if a = "P0<0" then decide (col < 0) else if a = "P0>=R.Width" then decide (col ≥ win.width)
  else if a = "P1<0" then decide (row < 0) else if a = "P1>=R.Height" then decide (row ≥ win.height)
  else true

/-- One disjunct of a screen guard. -/
def rejS (s : Screen) (col row : Int) (a : String) : Bool :=
  if a = "P0<0" then decide (col < 0) else if a = "P0>=R.cols" then decide (col ≥ s.cols)
  else if a = "P1<0" then decide (row < 0) else if a = "P1>=R.rows" then decide (row ≥ s.rows)
  else true

/-- A delegation call of `SetCell` / `SetStyle`, evaluated. -/
def callW (win : Win) (s : Screen) (col row : Int) (p : Win.Put) (a : String) : Option Screen :=
  match p with
  | .cell c =>
    if a = "R.Vx.screenNext.setCell(P0+R.Column,P1+R.Row,P2)" then some (s.setCell (col + win.col) (row + win.row) c)
    else if a = "R.Parent.SetCell(P0+R.Column,P1+R.Row,P2)" then
      win.parent.map fun par => par.setCell s (col + win.col) (row + win.row) c
    else none
  | .style st =>
    if a = "R.Vx.screenNext.setStyle(P0+R.Column,P1+R.Row,P2)" then some (s.setStyle (col + win.col) (row + win.row) st)
    else if a = "R.Parent.SetStyle(P0+R.Column,P1+R.Row,P2)" then
      win.parent.map fun par => par.setStyle s (col + win.col) (row + win.row) st
    else none

/-- `SetCell` / `SetStyle` over arbitrary extracted tables: rejected → nothing happens; else the first
    call at the root (`switch win.Parent { case nil: … }`), the second otherwise. -/
def putOf (rej calls : List String) (win : Win) (s : Screen) (col row : Int) (p : Win.Put) : Option Screen :=
  if rej.any (rejW win col row) then some s
  else match win.parent, calls with
    | none, [c0, _] => callW win s col row p c0
    | some _, [_, c1] => callW win s col row p c1
    | _, _ => none

/-- `screen.setCell` / `screen.setStyle` over arbitrary extracted tables. -/
def scrPutOf (rej tail : List String) (s : Screen) (col row : Int) (p : Win.Put) : Option Screen :=
  if rej.any (rejS s col row) then some s
  else match p, tail with
    | .cell c, ["R.buf[P1][P0]=P2"] => some (s.update col row (fun _ => c))
    | .style st, ["R.buf[P1][P0].Style=P2"] => some (s.update col row (fun c => { c with st := st }))
    | _, _ => none

theorem win_guard_from_source (win : Win) (col row : Int) :
    win.guard col row = !(["P0<0", "P0>=R.Width", "P1<0", "P1>=R.Height"].any (rejW win col row)) := by
  simp only [List.any_cons, List.any_nil, Bool.or_false]
  have e1 : rejW win col row "P0<0" = decide (col < 0) := rfl
  have e2 : rejW win col row "P0>=R.Width" = decide (col ≥ win.width) := rfl
  have e3 : rejW win col row "P1<0" = decide (row < 0) := rfl
  have e4 : rejW win col row "P1>=R.Height" = decide (row ≥ win.height) := rfl
  rw [e1, e2, e3, e4]
  unfold Win.guard
  by_cases a : col < 0 <;> by_cases b : col ≥ win.width <;> by_cases c : row < 0 <;> by_cases d : row ≥ win.height <;> simp [a, b, c, d]

/-- **setCell_body_eq_model**: the model's `Window.SetCell` is the interpretation of the guards and
    calls extracted from window.go on this run — all windows, screens, offsets and cells. -/
theorem setCell_body_eq_model (win : Win) (s : Screen) (col row : Int) (c : Cell) :
    putOf winSetCellReject winSetCellCalls win s col row (.cell c) = some (win.setCell s col row c) := by
  have h1 : winSetCellReject = ["P0<0", "P0>=R.Width", "P1<0", "P1>=R.Height"] := by decide +kernel
  have h2 : winSetCellCalls = ["R.Vx.screenNext.setCell(P0+R.Column,P1+R.Row,P2)", "R.Parent.SetCell(P0+R.Column,P1+R.Row,P2)"] := by
    decide +kernel
  have hg := win_guard_from_source win col row
  unfold putOf
  rw [h1, h2]
  cases hgd : win.guard col row
  · rw [hgd] at hg
    have : (["P0<0", "P0>=R.Width", "P1<0", "P1>=R.Height"].any (rejW win col row)) = true := by
      cases h : (["P0<0", "P0>=R.Width", "P1<0", "P1>=R.Height"].any (rejW win col row)) <;> simp_all
    rw [if_pos this]
    cases win <;> simp [Win.setCell, Win.put, hgd]
  · rw [hgd] at hg
    have : (["P0<0", "P0>=R.Width", "P1<0", "P1>=R.Height"].any (rejW win col row)) = false := by
      cases h : (["P0<0", "P0>=R.Width", "P1<0", "P1>=R.Height"].any (rejW win col row)) <;> simp_all
    rw [this]
    cases win with
    | root c0 r0 w h => simp [Win.parent, callW, Win.setCell, Win.put, hgd, Win.screenPut, Win.col, Win.row]
    | child c0 r0 w h par => simp [Win.parent, callW, Win.setCell, Win.put, hgd, Win.col, Win.row]

/-- **setStyle_body_eq_model**: the same for `Window.SetStyle`. -/
theorem setStyle_body_eq_model (win : Win) (s : Screen) (col row : Int) (st : Nat) :
    putOf winSetStyleReject winSetStyleCalls win s col row (.style st) = some (win.setStyle s col row st) := by
  have h1 : winSetStyleReject = ["P0<0", "P0>=R.Width", "P1<0", "P1>=R.Height"] := by decide +kernel
  have h2 : winSetStyleCalls = ["R.Vx.screenNext.setStyle(P0+R.Column,P1+R.Row,P2)", "R.Parent.SetStyle(P0+R.Column,P1+R.Row,P2)"] := by
    decide +kernel
  have hg := win_guard_from_source win col row
  unfold putOf
  rw [h1, h2]
  cases hgd : win.guard col row
  · rw [hgd] at hg
    have : (["P0<0", "P0>=R.Width", "P1<0", "P1>=R.Height"].any (rejW win col row)) = true := by
      cases h : (["P0<0", "P0>=R.Width", "P1<0", "P1>=R.Height"].any (rejW win col row)) <;> simp_all
    rw [if_pos this]
    cases win <;> simp [Win.setStyle, Win.put, hgd]
  · rw [hgd] at hg
    have : (["P0<0", "P0>=R.Width", "P1<0", "P1>=R.Height"].any (rejW win col row)) = false := by
      cases h : (["P0<0", "P0>=R.Width", "P1<0", "P1>=R.Height"].any (rejW win col row)) <;> simp_all
    rw [this]
    cases win with
    | root c0 r0 w h => simp [Win.parent, callW, Win.setStyle, Win.put, hgd, Win.screenPut, Win.col, Win.row]
    | child c0 r0 w h par => simp [Win.parent, callW, Win.setStyle, Win.put, hgd, Win.col, Win.row]

theorem scr_guard_from_source (s : Screen) (col row : Int) :
    s.guard col row = !(["P0<0", "P0>=R.cols", "P1<0", "P1>=R.rows"].any (rejS s col row)) := by
  simp only [List.any_cons, List.any_nil, Bool.or_false]
  have e1 : rejS s col row "P0<0" = decide (col < 0) := rfl
  have e2 : rejS s col row "P0>=R.cols" = decide (col ≥ s.cols) := rfl
  have e3 : rejS s col row "P1<0" = decide (row < 0) := rfl
  have e4 : rejS s col row "P1>=R.rows" = decide (row ≥ s.rows) := rfl
  rw [e1, e2, e3, e4]
  unfold Screen.guard
  by_cases a : col < 0 <;> by_cases b : col ≥ s.cols <;> by_cases c : row < 0 <;> by_cases d : row ≥ s.rows <;> simp [a, b, c, d]

/-- **screen_setCell_body_eq_model / screen_setStyle_body_eq_model**: the final bounds check against the
    screen and the buffer assignment, interpreted from screen.go. -/
theorem screen_put_body_eq_model (s : Screen) (col row : Int) (c : Cell) (st : Nat) :
    scrPutOf scrSetCellReject scrSetCellTail s col row (.cell c) = some (s.setCell col row c) ∧
    scrPutOf scrSetStyleReject scrSetStyleTail s col row (.style st) = some (s.setStyle col row st) := by
  have h1 : scrSetCellReject = ["P0<0", "P0>=R.cols", "P1<0", "P1>=R.rows"] := by decide +kernel
  have h2 : scrSetCellTail = ["R.buf[P1][P0]=P2"] := by decide +kernel
  have h3 : scrSetStyleReject = ["P0<0", "P0>=R.cols", "P1<0", "P1>=R.rows"] := by decide +kernel
  have h4 : scrSetStyleTail = ["R.buf[P1][P0].Style=P2"] := by decide +kernel
  have hg := scr_guard_from_source s col row
  unfold scrPutOf
  rw [h1, h2, h3, h4]
  cases hgd : s.guard col row
  · rw [hgd] at hg
    have : (["P0<0", "P0>=R.cols", "P1<0", "P1>=R.rows"].any (rejS s col row)) = true := by
      cases h : (["P0<0", "P0>=R.cols", "P1<0", "P1>=R.rows"].any (rejS s col row)) <;> simp_all
    simp [this, Screen.setCell, Screen.setStyle, hgd]
  · rw [hgd] at hg
    have : (["P0<0", "P0>=R.cols", "P1<0", "P1>=R.rows"].any (rejS s col row)) = false := by
      cases h : (["P0<0", "P0>=R.cols", "P1<0", "P1>=R.rows"].any (rejS s col row)) <;> simp_all
    simp [this, Screen.setCell, Screen.setStyle, hgd]

/-! ### `Window.ShowCursor` and `Window.Origin`, run from their regenerated skeletons -/

/-- `col += win.Column` / `row += win.Row` (ShowCursor) and `col += w.Column` / `row += w.Row` (Origin). -/
def stepAssign (win : Win) (a : String) (cr : Int × Int) : Option (Int × Int) :=
  if a = "col+=win.Column" ∨ a = "col+=w.Column" then some (cr.1 + win.col, cr.2)
  else if a = "row+=win.Row" ∨ a = "row+=w.Row" then some (cr.1, cr.2 + win.row)
  else none

/-- (depth, kind) of every line. -/
def shapeOf (sk : List (Nat × String × String)) : List (Nat × String) := sk.map fun l => (l.1, l.2.1)

/-- `Window.ShowCursor` executed from the texts of its skeleton: the two offset additions, then
    `Vx.ShowCursor` at the root (`win.Parent == nil`) or the parent's `ShowCursor` with the translated position. -/
def showCursorGo : List String → Win → Int → Int → Option (Int × Int)
  | [a1, a2, g, c1, r, c2], win, col, row =>
    match (stepAssign win a1 (col, row)).bind (stepAssign win a2) with
    | none => none
    | some cr =>
      if g = "win.Parent==nil" ∧ c1 = "win.Vx.ShowCursor(col,row,style)" ∧ r = "" ∧ c2 = "win.Parent.ShowCursor(col,row,style)" then
        match win with
        | .root .. => some cr
        | .child _ _ _ _ p => showCursorGo [a1, a2, g, c1, r, c2] p cr.1 cr.2
      else none
  | _, _, _, _ => none

def showCursorI (sk : List (Nat × String × String)) (win : Win) (col row : Int) : Option (Int × Int) :=
  if shapeOf sk = [(0, "assign"), (0, "assign"), (0, "if"), (1, "call"), (1, "return"), (0, "call")] then
    showCursorGo (sk.map (·.2.2)) win col row
  else none

theorem showCursorGo_eq (win : Win) : ∀ (col row : Int),
    showCursorGo ["col+=win.Column", "row+=win.Row", "win.Parent==nil", "win.Vx.ShowCursor(col,row,style)", "",
      "win.Parent.ShowCursor(col,row,style)"] win col row = some (VaxisModel.Model.App.cursorPos win col row) := by
  induction win with
  | root c r w h => intro col row; rw [showCursorGo]; simp [stepAssign, VaxisModel.Model.App.cursorPos, Win.col, Win.row]
  | child c r w h p ih =>
    intro col row
    have := ih (col + c) (row + r)
    rw [showCursorGo]
    simp [stepAssign, VaxisModel.Model.App.cursorPos, Win.col, Win.row]
    exact this

/-- **showCursor_body_eq_model** (C11): `Window.ShowCursor` through any chain = `Model.App.cursorPos`
    (origin + offset, no clipping), as the interpretation of the skeleton extracted on this run. -/
theorem showCursor_body_eq_model (win : Win) (col row : Int) :
    showCursorI skShowCursor win col row = some (VaxisModel.Model.App.cursorPos win col row) := by
  have h1 : shapeOf skShowCursor = [(0, "assign"), (0, "assign"), (0, "if"), (1, "call"), (1, "return"), (0, "call")] := by
    decide +kernel
  have h2 : skShowCursor.map (·.2.2) = ["col+=win.Column", "row+=win.Row", "win.Parent==nil", "win.Vx.ShowCursor(col,row,style)", "",
      "win.Parent.ShowCursor(col,row,style)"] := by decide +kernel
  unfold showCursorI
  rw [if_pos h1, h2]
  exact showCursorGo_eq win col row

/-- `Window.Origin` executed from the texts of its skeleton: `w := win; col := 0; row := 0; for ;; { col +=
    w.Column; row += w.Row; if w.Parent == nil { return col, row }; w = *w.Parent }`. -/
def originGo : List String → Win → Int → Int → Option (Int × Int)
  | [i1, i2, i3, f, a1, a2, g, r, nx], w, col, row =>
    match (stepAssign w a1 (col, row)).bind (stepAssign w a2) with
    | none => none
    | some cr =>
      if i1 = "w:=win" ∧ i2 = "col:=0" ∧ i3 = "row:=0" ∧ f = ";;" ∧ g = "w.Parent==nil" ∧ r = "col,row" ∧ nx = "w=*w.Parent" then
        match w with
        | .root .. => some cr
        | .child _ _ _ _ p => originGo [i1, i2, i3, f, a1, a2, g, r, nx] p cr.1 cr.2
      else none
  | _, _, _, _ => none

def originI (sk : List (Nat × String × String)) (win : Win) : Option (Int × Int) :=
  if shapeOf sk = [(0, "assign"), (0, "assign"), (0, "assign"), (0, "for"), (1, "assign"), (1, "assign"), (1, "if"), (2, "return"),
      (1, "assign")] then
    originGo (sk.map (·.2.2)) win 0 0
  else none

theorem originGo_acc (win : Win) : ∀ (col row : Int),
    originGo ["w:=win", "col:=0", "row:=0", ";;", "col+=w.Column", "row+=w.Row", "w.Parent==nil", "col,row", "w=*w.Parent"] win col row =
      some (win.origin.1 + col, win.origin.2 + row) := by
  induction win with
  | root c r w h => intro col row; rw [originGo]; simp [stepAssign, Win.origin, Win.col, Win.row, Int.add_comm]
  | child c r w h p ih =>
    intro col row
    have := ih (col + c) (row + r)
    rw [originGo]
    simp [stepAssign, Win.origin, Win.col, Win.row]
    rw [this]
    simp only [Option.some.injEq, Prod.mk.injEq]
    constructor <;> omega

/-- **origin_body_eq_model**: `Window.Origin()` = the sum of the offsets along the parent chain (`Win.origin`),
    as the interpretation of the skeleton extracted on this run (the loop walks `w = *w.Parent`). -/
theorem origin_body_eq_model (win : Win) : originI skOrigin win = some win.origin := by
  have h1 : shapeOf skOrigin = [(0, "assign"), (0, "assign"), (0, "assign"), (0, "for"), (1, "assign"), (1, "assign"), (1, "if"),
      (2, "return"), (1, "assign")] := by decide +kernel
  have h2 : skOrigin.map (·.2.2) = ["w:=win", "col:=0", "row:=0", ";;", "col+=w.Column", "row+=w.Row", "w.Parent==nil", "col,row",
      "w=*w.Parent"] := by decide +kernel
  unfold originI
  rw [if_pos h1, h2, originGo_acc win 0 0]
  simp

/-! ### `Window.Fill` and `Window.Clear`, run from their regenerated skeletons -/

/-- `for v := 0; v < hi; v += 1 { body }` with the loop variable an `int` (fuel = iterations). -/
def forInt {α : Type} (body : Int → List α) : Nat → Int → Int → List α
  | 0, _, _ => []
  | f + 1, v, hi => if v < hi then body v ++ forInt body f (v + 1) hi else []

theorem forInt_eq {α : Type} (body : Int → List α) : ∀ (n : Nat) (k : Nat),
    forInt body n (k : Int) ((k + n : Nat) : Int) = ((List.range n).map fun i => ((k + i : Nat) : Int)).flatMap body := by
  intro n
  induction n with
  | zero => intro k; simp [forInt]
  | succ n ih =>
    intro k
    have hlt : (k : Int) < ((k + (n + 1) : Nat) : Int) := by omega
    have e : ((k + (n + 1) : Nat) : Int) = (((k + 1) + n : Nat) : Int) := by omega
    simp only [forInt, hlt, if_true]
    rw [show ((k : Int) + 1) = ((k + 1 : Nat) : Int) from by omega, e, ih (k + 1)]
    rw [List.range_succ_eq_map]
    simp [List.flatMap_cons, List.map_map, Function.comp_def, Nat.add_assoc, Nat.add_comm 1]

theorem forInt_upTo {α : Type} (body : Int → List α) (n : Int) : forInt body n.toNat 0 n = (upTo n).flatMap body := by
  by_cases hn : 0 ≤ n
  · have := forInt_eq body n.toNat 0
    have e : ((0 + n.toNat : Nat) : Int) = n := by omega
    rw [e] at this
    rw [show ((0 : Nat) : Int) = 0 from rfl] at this
    rw [this, upTo]
    congr 1
    apply List.map_congr_left
    intro i _
    simp
  · have : n.toNat = 0 := by omega
    simp [this, forInt, upTo]

/-- `Window.Fill` executed from the texts of its skeleton: `cols, rows := win.Size()`, rows outer, columns
    inner, one `SetCell(col, row, cell)` per position. -/
def fillI (sk : List (Nat × String × String)) (win : Win) (c : Cell) : Option (List Op) :=
  if shapeOf sk = [(0, "assign"), (0, "for"), (1, "for"), (2, "call")] ∧
     sk.map (·.2.2) = ["cols,rows:=win.Size()", "row:=0;row<rows;row+=1", "col:=0;col<cols;col+=1", "win.SetCell(col,row,cell)"] then
    some (forInt (fun row => forInt (fun col => [({ col := col, row := row, cell := c } : Op)]) win.width.toNat 0 win.width)
      win.height.toNat 0 win.height)
  else none

/-- **fill_body_eq_model**: the `SetCell` calls of `Window.Fill` = `fillOps`, as the interpretation of the
    skeleton extracted on this run (negative or zero sizes: no call). -/
theorem fill_body_eq_model (win : Win) (c : Cell) : fillI skFill win c = some (fillOps win c) := by
  have h1 : shapeOf skFill = [(0, "assign"), (0, "for"), (1, "for"), (2, "call")] := by decide +kernel
  have h2 : skFill.map (·.2.2) = ["cols,rows:=win.Size()", "row:=0;row<rows;row+=1", "col:=0;col<cols;col+=1", "win.SetCell(col,row,cell)"] := by
    decide +kernel
  unfold fillI
  rw [if_pos ⟨h1, h2⟩, forInt_upTo]
  simp only [fillOps, forInt_upTo]
  have key : ∀ (row : Int) (xs : List Int),
      xs.flatMap (fun col => [({ col := col, row := row, cell := c } : Op)]) = xs.map (fun col => { col := col, row := row, cell := c }) := by
    intro row xs
    induction xs with
    | nil => rfl
    | cons x xs ih => simp [List.flatMap_cons, ih]
  simp only [key]

/-- **clear_body_eq_model**: `Window.Clear` = `Fill` with `Cell{Character{" ", 1}}` (and the reset of the
    graphics placements, C11Gfx), read from the skeleton extracted on this run. -/
theorem clear_body_eq_model :
    skClear = [(0, "call", "win.Fill(Cell{Character:Character{\" \",1},Style:Style{}})"), (0, "assign", "win.Vx.graphicsNext=[]*placement{}")] ∧
    ∀ (win : Win) (s : Screen), clear win s = fill win s clearCell := by
  refine ⟨by decide +kernel, fun _ _ => rfl⟩


end VaxisModel.Props.C11Body
