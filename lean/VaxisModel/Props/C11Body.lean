/-
C11 — `Window.SetCell` / `Window.SetStyle` / `screen.setCell` / `screen.setStyle` as the INTERPRETATION of
what `extract/cmd/C11` reads from window.go / screen.go on every run (`Gen/WindowFacts.lean`: the disjuncts
of the leading `if … { return }` guards and the calls / statements after them, receiver `R`, parameters
`P0 P1 P2`): the reject test is "any extracted disjunct holds", the delegation is the extracted call
evaluated (screen at the root, parent otherwise, arguments `P0+R.Column`, `P1+R.Row`).  The model's
`Win.put` / `Screen.setCell` / `Screen.setStyle` are equal to that for all windows, screens and arguments,
so a changed guard or argument changes the interpretation and breaks exactly these theorems
(an unknown disjunct rejects, an unknown call yields `none`).
-/
import VaxisModel.Model.Window

namespace VaxisModel.Props.C11Body
open VaxisModel.Model.Window VaxisModel.Gen.WindowFacts

/-- One disjunct of a window guard. -/
def rejW (win : Win) (col row : Int) (a : String) : Bool :=
  if a = "P0<0" then decide (col < 0) else if a = "P0>=R.Width" then decide (col ≥ win.width)
  else if a = "P1<0" then decide (row < 0) else if a = "P1>=R.Height" then decide (row ≥ win.height)
  else true

/-- One disjunct of a screen guard. -/
def rejS (s : Screen) (col row : Int) (a : String) : Bool :=
  if a = "P0<0" then decide (col < 0) else if a = "P0>=R.cols" then decide (col ≥ s.cols)
  else if a = "P1<0" then decide (row < 0) else if a = "P1>=R.rows" then decide (row ≥ s.rows)
  else true

/-- A delegation call of `SetCell` / `SetStyle`, evaluated. -/
def callW (win : Win) (s : Screen) (col row : Int) (p : Win.Put) (a : String) : Option Screen :=
  match p with
  | .cell c =>
    if a = "R.Vx.screenNext.setCell(P0+R.Column,P1+R.Row,P2)" then some (s.setCell (col + win.col) (row + win.row) c)
    else if a = "R.Parent.SetCell(P0+R.Column,P1+R.Row,P2)" then
      win.parent.map fun par => par.setCell s (col + win.col) (row + win.row) c
    else none
  | .style st =>
    if a = "R.Vx.screenNext.setStyle(P0+R.Column,P1+R.Row,P2)" then some (s.setStyle (col + win.col) (row + win.row) st)
    else if a = "R.Parent.SetStyle(P0+R.Column,P1+R.Row,P2)" then
      win.parent.map fun par => par.setStyle s (col + win.col) (row + win.row) st
    else none

/-- `SetCell` / `SetStyle` over arbitrary extracted tables: rejected → nothing happens; else the first
    call at the root (`switch win.Parent { case nil: … }`), the second otherwise. -/
def putOf (rej calls : List String) (win : Win) (s : Screen) (col row : Int) (p : Win.Put) : Option Screen :=
  if rej.any (rejW win col row) then some s
  else match win.parent, calls with
    | none, [c0, _] => callW win s col row p c0
    | some _, [_, c1] => callW win s col row p c1
    | _, _ => none

/-- `screen.setCell` / `screen.setStyle` over arbitrary extracted tables. -/
def scrPutOf (rej tail : List String) (s : Screen) (col row : Int) (p : Win.Put) : Option Screen :=
  if rej.any (rejS s col row) then some s
  else match p, tail with
    | .cell c, ["R.buf[P1][P0]=P2"] => some (s.update col row (fun _ => c))
    | .style st, ["R.buf[P1][P0].Style=P2"] => some (s.update col row (fun c => { c with st := st }))
    | _, _ => none

theorem win_guard_from_source (win : Win) (col row : Int) :
    win.guard col row = !(["P0<0", "P0>=R.Width", "P1<0", "P1>=R.Height"].any (rejW win col row)) := by
  simp only [List.any_cons, List.any_nil, Bool.or_false]
  have e1 : rejW win col row "P0<0" = decide (col < 0) := rfl
  have e2 : rejW win col row "P0>=R.Width" = decide (col ≥ win.width) := rfl
  have e3 : rejW win col row "P1<0" = decide (row < 0) := rfl
  have e4 : rejW win col row "P1>=R.Height" = decide (row ≥ win.height) := rfl
  rw [e1, e2, e3, e4]
  unfold Win.guard
  by_cases a : col < 0 <;> by_cases b : col ≥ win.width <;> by_cases c : row < 0 <;> by_cases d : row ≥ win.height <;> simp [a, b, c, d]

/-- **setCell_body_eq_model**: the model's `Window.SetCell` is the interpretation of the guards and
    calls extracted from window.go on this run — all windows, screens, offsets and cells. -/
theorem setCell_body_eq_model (win : Win) (s : Screen) (col row : Int) (c : Cell) :
    putOf winSetCellReject winSetCellCalls win s col row (.cell c) = some (win.setCell s col row c) := by
  have h1 : winSetCellReject = ["P0<0", "P0>=R.Width", "P1<0", "P1>=R.Height"] := by decide +kernel
  have h2 : winSetCellCalls = ["R.Vx.screenNext.setCell(P0+R.Column,P1+R.Row,P2)", "R.Parent.SetCell(P0+R.Column,P1+R.Row,P2)"] := by
    decide +kernel
  have hg := win_guard_from_source win col row
  unfold putOf
  rw [h1, h2]
  cases hgd : win.guard col row
  · rw [hgd] at hg
    have : (["P0<0", "P0>=R.Width", "P1<0", "P1>=R.Height"].any (rejW win col row)) = true := by
      cases h : (["P0<0", "P0>=R.Width", "P1<0", "P1>=R.Height"].any (rejW win col row)) <;> simp_all
    rw [if_pos this]
    cases win <;> simp [Win.setCell, Win.put, hgd]
  · rw [hgd] at hg
    have : (["P0<0", "P0>=R.Width", "P1<0", "P1>=R.Height"].any (rejW win col row)) = false := by
      cases h : (["P0<0", "P0>=R.Width", "P1<0", "P1>=R.Height"].any (rejW win col row)) <;> simp_all
    rw [this]
    cases win with
    | root c0 r0 w h => simp [Win.parent, callW, Win.setCell, Win.put, hgd, Win.screenPut, Win.col, Win.row]
    | child c0 r0 w h par => simp [Win.parent, callW, Win.setCell, Win.put, hgd, Win.col, Win.row]

/-- **setStyle_body_eq_model**: the same for `Window.SetStyle`. -/
theorem setStyle_body_eq_model (win : Win) (s : Screen) (col row : Int) (st : Nat) :
    putOf winSetStyleReject winSetStyleCalls win s col row (.style st) = some (win.setStyle s col row st) := by
  have h1 : winSetStyleReject = ["P0<0", "P0>=R.Width", "P1<0", "P1>=R.Height"] := by decide +kernel
  have h2 : winSetStyleCalls = ["R.Vx.screenNext.setStyle(P0+R.Column,P1+R.Row,P2)", "R.Parent.SetStyle(P0+R.Column,P1+R.Row,P2)"] := by
    decide +kernel
  have hg := win_guard_from_source win col row
  unfold putOf
  rw [h1, h2]
  cases hgd : win.guard col row
  · rw [hgd] at hg
    have : (["P0<0", "P0>=R.Width", "P1<0", "P1>=R.Height"].any (rejW win col row)) = true := by
      cases h : (["P0<0", "P0>=R.Width", "P1<0", "P1>=R.Height"].any (rejW win col row)) <;> simp_all
    rw [if_pos this]
    cases win <;> simp [Win.setStyle, Win.put, hgd]
  · rw [hgd] at hg
    have : (["P0<0", "P0>=R.Width", "P1<0", "P1>=R.Height"].any (rejW win col row)) = false := by
      cases h : (["P0<0", "P0>=R.Width", "P1<0", "P1>=R.Height"].any (rejW win col row)) <;> simp_all
    rw [this]
    cases win with
    | root c0 r0 w h => simp [Win.parent, callW, Win.setStyle, Win.put, hgd, Win.screenPut, Win.col, Win.row]
    | child c0 r0 w h par => simp [Win.parent, callW, Win.setStyle, Win.put, hgd, Win.col, Win.row]

theorem scr_guard_from_source (s : Screen) (col row : Int) :
    s.guard col row = !(["P0<0", "P0>=R.cols", "P1<0", "P1>=R.rows"].any (rejS s col row)) := by
  simp only [List.any_cons, List.any_nil, Bool.or_false]
  have e1 : rejS s col row "P0<0" = decide (col < 0) := rfl
  have e2 : rejS s col row "P0>=R.cols" = decide (col ≥ s.cols) := rfl
  have e3 : rejS s col row "P1<0" = decide (row < 0) := rfl
  have e4 : rejS s col row "P1>=R.rows" = decide (row ≥ s.rows) := rfl
  rw [e1, e2, e3, e4]
  unfold Screen.guard
  by_cases a : col < 0 <;> by_cases b : col ≥ s.cols <;> by_cases c : row < 0 <;> by_cases d : row ≥ s.rows <;> simp [a, b, c, d]

/-- **screen_setCell_body_eq_model / screen_setStyle_body_eq_model**: the final bounds check against the
    screen and the buffer assignment, interpreted from screen.go. -/
theorem screen_put_body_eq_model (s : Screen) (col row : Int) (c : Cell) (st : Nat) :
    scrPutOf scrSetCellReject scrSetCellTail s col row (.cell c) = some (s.setCell col row c) ∧
    scrPutOf scrSetStyleReject scrSetStyleTail s col row (.style st) = some (s.setStyle col row st) := by
  have h1 : scrSetCellReject = ["P0<0", "P0>=R.cols", "P1<0", "P1>=R.rows"] := by decide +kernel
  have h2 : scrSetCellTail = ["R.buf[P1][P0]=P2"] := by decide +kernel
  have h3 : scrSetStyleReject = ["P0<0", "P0>=R.cols", "P1<0", "P1>=R.rows"] := by decide +kernel
  have h4 : scrSetStyleTail = ["R.buf[P1][P0].Style=P2"] := by decide +kernel
  have hg := scr_guard_from_source s col row
  unfold scrPutOf
  rw [h1, h2, h3, h4]
  cases hgd : s.guard col row
  · rw [hgd] at hg
    have : (["P0<0", "P0>=R.cols", "P1<0", "P1>=R.rows"].any (rejS s col row)) = true := by
      cases h : (["P0<0", "P0>=R.cols", "P1<0", "P1>=R.rows"].any (rejS s col row)) <;> simp_all
    simp [this, Screen.setCell, Screen.setStyle, hgd]
  · rw [hgd] at hg
    have : (["P0<0", "P0>=R.cols", "P1<0", "P1>=R.rows"].any (rejS s col row)) = false := by
      cases h : (["P0<0", "P0>=R.cols", "P1<0", "P1>=R.rows"].any (rejS s col row)) <;> simp_all
    simp [this, Screen.setCell, Screen.setStyle, hgd]

end VaxisModel.Props.C11Body
