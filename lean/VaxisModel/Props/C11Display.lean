/-
C11 at its observation point — "the set of screen cells whose rendered content changes, observed
through the reference terminal after a Render".

`Props.C01App.app_history_displays` says what the terminal shows after a frame:
`Spec.Expected.expectedC` of the application's screen.  Here: a fold of `SetCell` calls on a
right-nested window whose clusters fit in the window's row (what `Print`, `Wrap`, `Println`,
`PrintTruncate` make: `Props.C11.print_fits` …) changes that display **only at cells of the clip
region** — every other screen cell displays what it displayed before, given that before the call no
glyph of the row left of the clip region's right edge reached that edge (`NoOverhang`: a state every
such call re-establishes — second conjunct — so it holds along any run of text-helper calls on
windows with that right edge, starting from an empty screen).

`displayRow` is the row of `expectedC` for the buffer; graphemes and styles through `Interp`.
-/
import VaxisModel.Props.C11
import VaxisModel.Lemmas.WindowDisplay
import VaxisModel.Lemmas.AppSys
import VaxisModel.Props.C01App

namespace VaxisModel.Props.C11Display
open VaxisModel.Model.Window VaxisModel.Spec.Window VaxisModel.Lemmas.Window VaxisModel.Model.App
open VaxisModel.Lemmas.WindowDisplay VaxisModel.Lemmas.AppSys VaxisModel.Lemmas.AppText
open VaxisModel.Spec.Expected
open VaxisModel.Props.C01App (exX)

/-- Row `y` of the buffer as the renderer sees it. -/
def rowOf (I : Interp) (s : Screen) (y : Nat) : List VaxisModel.Model.Render.Cell := (s.buf[y]?.getD []).map I.cell

/-- What the terminal shows in row `y` after a frame (`expectedC` is `expectedRowC` row by row). -/
def displayRow (X : Ctx) (s : Screen) (y : Nat) : List VaxisModel.Spec.Display.DCell :=
  expectedRowC X.cw X.caps 0 (rowOf X.I s y)

/-- Right edge of the clip region of a right-nested window, as a column count of the screen. -/
def rightEdge (win : Win) (s : Screen) : Nat := (min ((absOrigin win).1 + win.width) s.cols).toNat

theorem rowOf_get (I : Interp) (s : Screen) (x y : Nat) :
    (rowOf I s y)[x]? = (s.get (x : Int) (y : Int)).map I.cell := by
  have hneg : ¬ ((x : Int) < 0 ∨ (y : Int) < 0) := by omega
  simp only [rowOf, Screen.get, hneg, if_false, List.getElem?_map, Int.toNat_natCast]
  cases s.buf[y]? <;> simp

theorem rowOf_length (I : Interp) (s : Screen) (hwf : s.WF) (y : Nat) (hy : (y : Int) < s.rows) :
    (rowOf I s y).length = s.cols.toNat := by
  obtain ⟨_, _, hlen, hrows⟩ := hwf
  have : y < s.buf.length := by omega
  simp only [rowOf, List.length_map, List.getElem?_eq_getElem this, Option.getD_some]
  exact hrows _ (List.getElem_mem this)

/-- What a fold of `SetCell` calls leaves in a cell: what was there, or the cell of one of the calls
    that address it. -/
theorem applyOps_value (win : Win) (ops : List Op) : ∀ (s : Screen) (x y : Int),
    (applyOps win s ops).get x y = s.get x y ∨
    ∃ o ∈ ops, x = (absOrigin win).1 + o.col ∧ y = (absOrigin win).2 + o.row ∧
      (applyOps win s ops).get x y = some o.cell := by
  induction ops with
  | nil => intro s x y; exact Or.inl rfl
  | cons o rest ih =>
    intro s x y
    simp only [applyOps, List.foldl_cons]
    have h1 := ih (win.setCell s o.col o.row o.cell) x y
    simp only [applyOps] at h1
    rcases h1 with h1 | ⟨o', ho', hx, hy, hv⟩
    · rw [h1]
      simp only [Win.setCell, get_put]
      split
      · rename_i hc
        cases hg : s.get x y with
        | none => left; rfl
        | some c0 =>
          right
          exact ⟨o, List.mem_cons_self, hc.1, hc.2.1, by simp [Win.Put.apply]⟩
      · left; rfl
    · right; exact ⟨o', List.mem_cons_of_mem _ ho', hx, hy, hv⟩

/-- The display width of a cell a text helper writes is the width it stores. -/
theorem cellWidth_of_meas (X : Ctx) (hX : X.Ok) (c : VaxisModel.Model.Window.Cell) (hm : Meas X.lib c) :
    cellWidth X.cw (X.I.cell c) = c.w := by
  have hm' : c.w = (X.cw (X.I.gOf c.g) : Int) := by rw [← hX.coh]; exact hm
  simp only [cellWidth, Interp.cell]
  by_cases h0 : c.w = 0
  · simp only [h0, if_true]; rw [← hm', h0]
  · simp only [h0, if_false]

/-- **Display containment.**  `ops` = `SetCell` calls on a right-nested window each of which is either
    rejected by the window itself (`col ≥ width`) or holds a glyph whose display width fits in the
    rest of the window's row.  Then every screen cell outside the clip region displays after the
    calls what it displayed before (and `NoOverhang` is re-established). -/
theorem calls_display_clip (X : Ctx) (win : Win) (hn : rightNested win) (s : Screen) (hwf : s.WF)
    (ops : List Op)
    (hfit : ∀ o ∈ ops, win.width ≤ o.col ∨ o.col + cellWidth X.cw (X.I.cell o.cell) ≤ win.width)
    (x y : Nat) (hy : (y : Int) < s.rows)
    (hold : NoOverhang X.cw (rowOf X.I s y) (rightEdge win s))
    (hout : ¬ visible win s (x : Int) (y : Int)) :
    (displayRow X (applyOps win s ops) y)[x]? = (displayRow X s y)[x]? ∧
    NoOverhang X.cw (rowOf X.I (applyOps win s ops) y) (rightEdge win s) := by
  have hd := applyOps_dims win ops s
  have hwf' : (applyOps win s ops).WF := by
    have : ∀ (l : List Op) (s0 : Screen), s0.WF → (applyOps win s0 l).WF := by
      intro l
      induction l with
      | nil => intro s0 h; exact h
      | cons o rest ih => intro s0 h; simp only [applyOps, List.foldl_cons]; exact ih _ (wf_put win s0 h _ _ _)
    exact this ops s hwf
  have hlen : (rowOf X.I (applyOps win s ops) y).length = (rowOf X.I s y).length := by
    rw [rowOf_length X.I _ hwf' y (by rw [hd.2]; exact hy), rowOf_length X.I s hwf y hy, hd.1]
  have hlen0 := rowOf_length X.I s hwf y hy
  have hcols : 0 ≤ s.cols := hwf.1
  -- cells outside the clip region are unchanged
  have hsame : ∀ p : Nat, ¬ visible win s (p : Int) (y : Int) →
      (rowOf X.I (applyOps win s ops) y)[p]? = (rowOf X.I s y)[p]? := by
    intro p hp
    rw [rowOf_get, rowOf_get]
    by_cases hc : (applyOps win s ops).get (p : Int) (y : Int) = s.get (p : Int) (y : Int)
    · rw [hc]
    · exact absurd (applyOps_changed win ops s _ _ hc).1 hp
  -- the row after the calls has no overhang either
  have hnew : NoOverhang X.cw (rowOf X.I (applyOps win s ops) y) (rightEdge win s) := by
    intro p c hp hc
    rw [rowOf_get] at hc
    by_cases hch : (applyOps win s ops).get (p : Int) (y : Int) = s.get (p : Int) (y : Int)
    · rw [hch, ← rowOf_get] at hc
      rw [hlen]
      exact hold p c hp hc
    · have hvis := (applyOps_changed win ops s _ _ hch).1
      rcases applyOps_value win ops s (p : Int) (y : Int) with h | ⟨o, ho, hpx, _, hv⟩
      · exact absurd h hch
      · rw [hv] at hc
        simp only [Option.map_some, Option.some.injEq] at hc
        subst hc
        have hown := covers_own win _ _ hvis.1
        simp only [inOwnRect] at hown
        rcases hfit o ho with hrej | hf
        · omega
        · rw [hlen, hlen0]
          simp only [rightEdge] at hp ⊢
          omega
  refine ⟨?_, hnew⟩
  simp only [displayRow]
  by_cases hleft : ∀ p : Nat, p ≤ x → ¬ visible win s (p : Int) (y : Int)
  · exact display_left X.cw X.caps _ _ x hlen (fun p hp => hsame p (hleft p hp))
  · -- some cell at or left of x is in the clip region: then x is at or right of its right edge
    have hex : ∃ p : Nat, p ≤ x ∧ visible win s (p : Int) (y : Int) := by
      apply Classical.byContradiction
      intro hcon
      exact hleft (fun p hp hv => hcon ⟨p, hp, hv⟩)
    obtain ⟨p, hpx, hpv⟩ := hex
    have hxb : rightEdge win s ≤ x := by
      apply Classical.byContradiction
      intro hlt
      apply hout
      have hx1 : (x : Int) < (absOrigin win).1 + win.width := by simp only [rightEdge] at hlt; omega
      have hx2 : (x : Int) < s.cols := by simp only [rightEdge] at hlt; omega
      refine ⟨covers_extend win hn _ _ _ hpv.1 (by omega) hx1, ?_⟩
      have := hpv.2
      simp only [inScreen] at this ⊢
      omega
    have hb : rightEdge win s ≤ (rowOf X.I (applyOps win s ops) y).length := by
      rw [hlen, hlen0]; simp only [rightEdge]; omega
    refine display_right X.cw X.caps _ _ (rightEdge win s) x hlen hb hxb ?_ hnew hold
    intro q hq
    apply hsame q
    intro hv
    have hown := covers_own win _ _ hv.1
    have hs := hv.2
    simp only [inOwnRect] at hown
    simp only [inScreen] at hs
    simp only [rightEdge] at hq
    omega

/-- From the helpers' facts: every call fits (`…_fits`) and carries its display width (`Meas`). -/
theorem fit_of_meas (X : Ctx) (hX : X.Ok) (win : Win) (ops : List Op)
    (hfit : ∀ o ∈ ops, win.width ≤ o.col ∨ o.col + o.cell.w ≤ win.width) (hmeas : ∀ o ∈ ops, Meas X.lib o.cell) :
    ∀ o ∈ ops, win.width ≤ o.col ∨ o.col + cellWidth X.cw (X.I.cell o.cell) ≤ win.width := by
  intro o ho
  rw [cellWidth_of_meas X hX _ (hmeas o ho)]
  exact hfit o ho

/-! ### the four text helpers -/

theorem lib_space (X : Ctx) (hX : X.Ok) : X.lib.cw gSpace = 1 := by
  rw [hX.coh, hX.std.space, hX.space]; rfl

/-- `Print`: what the terminal shows outside the window's clip region is not changed by the call. -/
theorem print_display_clip (X : Ctx) (hX : X.Ok) (win : Win) (hn : rightNested win) (s : Screen) (hwf : s.WF)
    (segs : List (Nat × List Raw)) (htext : TextOk X segs) (x y : Nat) (hy : (y : Int) < s.rows)
    (hold : NoOverhang X.cw (rowOf X.I s y) (rightEdge win s)) (hout : ¬ visible win s (x : Int) (y : Int)) :
    (displayRow X (print X.lib X.rm win s segs).1 y)[x]? = (displayRow X s y)[x]? ∧
    NoOverhang X.cw (rowOf X.I (print X.lib X.rm win s segs).1 y) (rightEdge win s) :=
  calls_display_clip X win hn s hwf _
    (fit_of_meas X hX win _ (fun o ho => Or.inr (VaxisModel.Props.C11.print_fits X.lib X.rm win segs o ho))
      (fun o ho => printGo_meas X.lib X.rm _ _ _ (flatten_ok X.lib X.rm (lib_space X hX) segs htext) _ _ o ho))
    x y hy hold hout

/-- `Wrap`. -/
theorem wrap_display_clip (X : Ctx) (hX : X.Ok) (win : Win) (hn : rightNested win) (s : Screen) (hwf : s.WF)
    (segs : List (Nat × List (List Raw))) (htext : WrapTextOk X segs) (x y : Nat) (hy : (y : Int) < s.rows)
    (hold : NoOverhang X.cw (rowOf X.I s y) (rightEdge win s)) (hout : ¬ visible win s (x : Int) (y : Int)) :
    (displayRow X (wrap X.lib X.rm win s segs).1 y)[x]? = (displayRow X s y)[x]? ∧
    NoOverhang X.cw (rowOf X.I (wrap X.lib X.rm win s segs).1 y) (rightEdge win s) := by
  refine calls_display_clip X win hn s hwf _
    (fit_of_meas X hX win _ (fun o ho => Or.inr (VaxisModel.Props.C11.wrap_fits X.lib X.rm win segs o ho)) (fun o ho => ?_)) x y hy hold hout
  have hstored : wrapRemeasured = true := by decide
  simp only [wrapOps, hstored] at ho
  exact wrapGo_meas X.lib X.rm (lib_space X hX) _ _ segs htext _ _ o ho

/-- `Println`. -/
theorem println_display_clip (X : Ctx) (hX : X.Ok) (win : Win) (hn : rightNested win) (s : Screen) (hwf : s.WF)
    (row : Int) (segs : List (Nat × List Raw)) (htext : TextOk X segs) (x y : Nat) (hy : (y : Int) < s.rows)
    (hold : NoOverhang X.cw (rowOf X.I s y) (rightEdge win s)) (hout : ¬ visible win s (x : Int) (y : Int)) :
    (displayRow X (println X.lib X.rm win s row segs) y)[x]? = (displayRow X s y)[x]? ∧
    NoOverhang X.cw (rowOf X.I (println X.lib X.rm win s row segs) y) (rightEdge win s) := by
  refine calls_display_clip X win hn s hwf _
    (fit_of_meas X hX win _ (fun o ho => Or.inr (VaxisModel.Props.C11.println_fits X.lib X.rm win row segs o ho)) (fun o ho => ?_)) x y hy hold hout
  simp only [printlnOps] at ho
  split at ho
  · cases ho
  · exact lnGo_meas X.lib X.rm _ _ _ (flatten_ok X.lib X.rm (lib_space X hX) segs htext) _ o ho

/-- `PrintTruncate` (the ellipsis has display width 1, as the app-level theorem assumes). -/
theorem printTruncate_display_clip (X : Ctx) (hX : X.Ok) (win : Win) (hn : rightNested win) (s : Screen) (hwf : s.WF)
    (row : Int) (segs : List (Nat × List Raw)) (htext : TextOk X segs) (hell : X.cw "e280a6" = 1)
    (x y : Nat) (hy : (y : Int) < s.rows)
    (hold : NoOverhang X.cw (rowOf X.I s y) (rightEdge win s)) (hout : ¬ visible win s (x : Int) (y : Int)) :
    (displayRow X (printTruncate X.lib X.rm win s row segs) y)[x]? = (displayRow X s y)[x]? ∧
    NoOverhang X.cw (rowOf X.I (printTruncate X.lib X.rm win s row segs) y) (rightEdge win s) := by
  have hell' : X.lib.cw gEllipsis = 1 := by rw [hX.coh, hX.std.ellipsis, hell]; rfl
  refine calls_display_clip X win hn s hwf _
    (fit_of_meas X hX win _ (VaxisModel.Props.C11.printTruncate_fits X.lib X.rm win row segs) (fun o ho => ?_)) x y hy hold hout
  simp only [printTruncateOps] at ho
  split at ho
  · cases ho
  · exact truncGo_meas X.lib X.rm hell' _ _ _ (flatten_ok X.lib X.rm (lib_space X hX) segs htext) _ o ho

/-- `SetCell`: a cell whose glyph fits in the rest of the window's row (always, for a glyph of width
    ≤ 1).  Without the hypothesis the statement is false of the code — finding F111b. -/
theorem setCell_display_clip (X : Ctx) (win : Win) (hn : rightNested win) (s : Screen) (hwf : s.WF)
    (col row : Int) (c : VaxisModel.Model.Window.Cell)
    (hfit : win.width ≤ col ∨ col + cellWidth X.cw (X.I.cell c) ≤ win.width)
    (x y : Nat) (hy : (y : Int) < s.rows)
    (hold : NoOverhang X.cw (rowOf X.I s y) (rightEdge win s)) (hout : ¬ visible win s (x : Int) (y : Int)) :
    (displayRow X (win.setCell s col row c) y)[x]? = (displayRow X s y)[x]? ∧
    NoOverhang X.cw (rowOf X.I (win.setCell s col row c) y) (rightEdge win s) :=
  calls_display_clip X win hn s hwf [⟨col, row, c⟩]
    (fun o ho => by simp only [List.mem_singleton] at ho; subst ho; exact hfit) x y hy hold hout

/-- `Fill` / `Clear`: a glyph of display width ≤ 1 (`Clear` fills with a blank of width 1). -/
theorem fill_display_clip (X : Ctx) (win : Win) (hn : rightNested win) (s : Screen) (hwf : s.WF)
    (c : VaxisModel.Model.Window.Cell) (hw : cellWidth X.cw (X.I.cell c) ≤ 1)
    (x y : Nat) (hy : (y : Int) < s.rows)
    (hold : NoOverhang X.cw (rowOf X.I s y) (rightEdge win s)) (hout : ¬ visible win s (x : Int) (y : Int)) :
    (displayRow X (fill win s c) y)[x]? = (displayRow X s y)[x]? ∧
    NoOverhang X.cw (rowOf X.I (fill win s c) y) (rightEdge win s) := by
  refine calls_display_clip X win hn s hwf (fillOps win c) (fun o ho => ?_) x y hy hold hout
  simp only [fillOps, List.mem_flatMap, List.mem_map] at ho
  obtain ⟨r, _, cc, hcc, rfl⟩ := ho
  have := (mem_upTo _ _).1 hcc
  right
  simp only
  omega

/-- Non-vacuity (the F111 scene): "a" in style 1 right of a 3-column window on a 4×2 screen, then
    `Print("aa世")` in the window: column 3 displays the same before and after, and the hypotheses
    hold (decide). -/
example :
    let s0 := (Win.root 0 0 4 2).setCell (Screen.resize 4 2) 3 0 ⟨5, 0, 1⟩
    let A := (Win.root 0 0 4 2).new 0 0 3 2
    let s1 := (print exX.lib exX.rm A s0 [(0, [⟨5, 1, false⟩, ⟨5, 1, false⟩, ⟨6, 2, false⟩])]).1
    rightNested A ∧ rightEdge A s0 = 3 ∧ ¬ visible A s0 3 0 ∧
    (displayRow exX s1 0)[3]? = (displayRow exX s0 0)[3]? ∧
    (displayRow exX s1 1)[0]? = some (.glyph "e4b896" 2 {} "" "") := by decide

end VaxisModel.Props.C11Display
