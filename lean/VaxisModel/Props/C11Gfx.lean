/-
C11 (open item of round 1): `Clear`'s reset of graphics placements, stated over the join of the
window model with C20's placement model (`Model/AppGfx.lean`).
-/
import VaxisModel.Model.AppGfx

namespace VaxisModel.Props.C11Gfx
open VaxisModel.Model.Window VaxisModel.Model.App VaxisModel.Model.AppGfx VaxisModel.Model
open VaxisModel.Spec.Images (Placement)

/-- **`Clear` on any window — the screen, a child, a window that covers nothing — drops every
    placement requested for the next frame**, not only those inside the window; the cells are
    cleared only inside the window's clip region (`Props.C11.clear_clip`). -/
theorem clear_resets_all_placements (lib : Lib) (rm : Bool) (s : VxG) (win : Win) :
    (step lib rm s (.draw (.clear win))).1.gfx.next = [] ∧
    (step lib rm s (.draw (.clear win))).1.gfx.last = s.gfx.last ∧
    (step lib rm s (.draw (.clear win))).1.v.scr = clear win s.v.scr := by
  simp [step, Placements.step, Placements.stepWith, draw]

/-- Consequently the `Render` after a `Clear` that is not followed by new `Draw`s deletes every
    placement of the previous frame and transmits none. -/
theorem render_after_clear_deletes_all (lib : Lib) (rm : Bool) (s : VxG) (win : Win) :
    (step lib rm (step lib rm s (.draw (.clear win))).1 .render).2 = some ⟨s.gfx.last, []⟩ := by
  simp [step, Placements.step, Placements.stepWith, Placements.renderWith]

/-- No other drawing call touches the placements. -/
theorem draw_keeps_placements (lib : Lib) (rm : Bool) (s : VxG) (d : DrawOp) (h : ∀ win, d ≠ .clear win) :
    (step lib rm s (.draw d)).1.gfx = s.gfx := by
  cases d <;> first | rfl | exact absurd rfl (h _)

example : (step ⟨fun _ => 1, fun _ => false, fun _ => false⟩ true
    ⟨Vx.init 4 2, ⟨[⟨1, 0, 0, 2, 1⟩], [⟨1, 0, 0, 2, 1⟩], false⟩⟩ (.draw (.clear (Win.root 3 1 1 1)))).1.gfx.next = [] := by
  decide

end VaxisModel.Props.C11Gfx
