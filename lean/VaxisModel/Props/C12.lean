/-
C12 — A Vaxis application renders correctly inside the embedded terminal.

Composition. The renderer side is C01/C07 specialised to the capability set Vaxis detects when
its terminal is the embedded emulator; the emulator side is C06 (refinement of the reference
terminal); the end-to-end statement on the real code (real renderer bytes → real parser → real
emulator → snapshot = application's screen; Draw into a host window; start-up replies) is
checked by the C12 correspondence stream.
-/
import VaxisModel.Props.C07
import VaxisModel.Props.C01Display

namespace VaxisModel.Props.C12
open VaxisModel.Model.Render VaxisModel.Spec VaxisModel.Spec.Display VaxisModel.Lemmas.RenderGate

/-- What Vaxis detects inside the emulator that matters to the renderer and writer: no direct
    colour, no styled underlines, no explicit width, no synchronized output (the emulator's replies
    advertise sixel graphics and Unicode-core mode only). -/
def emuCaps : Caps := { rgb := false, styledUnderlines := false, explicitWidth := false, sync := false }

/-- The vocabulary the renderer uses inside the emulator: CUP, SGR with basic, bright and
    256-colour parameters only (no `38:2`/`48:2`/`58`/`59`/`4:n`), OSC 8, raw text (no OSC 66),
    cursor visibility (mode 25) and shape, pointer shape — and nothing else. -/
def EmuVocab : Tok → Prop
  | .cup _ _ | .osc8 _ _ | .text _ | .cursorStyle _ | .pointer _ => True
  | .sgr ps => ps.any isDirect = false ∧ ps.any isStyledUl = false
  | .decset n | .decrst n => n = 25
  | .textW _ _ | .other _ => False

/-- **Every frame rendered under the emulator's capability set stays inside that vocabulary**,
    for all grids, styles and cursor requests. -/
theorem emu_frames_vocabulary (cw : String → Nat) (f : Frame) (h : f.caps = emuCaps) :
    ∀ k ∈ (renderFrame cw f).2, EmuVocab k := by
  intro k hk
  have ha := C07.render_gated cw f k hk
  rw [h] at ha
  have hne : ∀ r, k ≠ Tok.other r := by
    intro r hr
    subst hr
    -- `other` tokens are never produced by the renderer model
    have hbody : ∀ k' ∈ (renderBody cw f).2, ∀ r', k' ≠ Tok.other r' := by
      intro k' hk' r' hr'
      obtain ⟨pre, extra, close, show_, hb, hpre, hvoc, hclose, _, hs⟩ := Lemmas.RenderToks.renderBody_shape cw f
      rw [hb] at hk'
      simp only [List.mem_append] at hk'
      rcases hk' with ((hk' | hk') | hk') | hk'
      · rcases hpre with h0 | ⟨s, h0⟩ <;> subst h0 <;> simp at hk'
        subst hk'; cases hr'
      · have := hvoc k' hk'; subst hr'; exact this
      · rcases hclose with h0 | h0 <;> subst h0 <;> simp at hk'
        subst hk'; cases hr'
      · subst hs; split at hk'
        · simp [showCursorToks] at hk'; rcases hk' with rfl | rfl | rfl <;> cases hr'
        · simp at hk'
    unfold renderFrame flush at hk
    simp only at hk
    split at hk
    · repeat' split at hk
      all_goals simp [showCursorToks] at hk
    · simp only [List.mem_append, List.mem_singleton] at hk
      rcases hk with ((((hk | hk) | hk) | hk) | hk) | hk
      · split at hk <;> simp at hk
      · split at hk <;> simp at hk
      · exact hbody _ hk r rfl
      · cases hk
      · split at hk
        · simp [showCursorToks] at hk
        · simp at hk
      · split at hk <;> simp at hk
  cases k with
  | cup r c => trivial
  | sgr ps => simpa [EmuVocab, allowedTok, emuCaps] using ha
  | osc8 p u => trivial
  | text g => trivial
  | textW w g => simp [allowedTok, emuCaps] at ha
  | decset n => simpa [EmuVocab, allowedTok, emuCaps] using ha
  | decrst n => simpa [EmuVocab, allowedTok, emuCaps] using ha
  | cursorStyle n => trivial
  | pointer s => trivial
  | other r => exact absurd rfl (hne r)

/-- **Reference display under the emulator's capabilities.** After every frame of every admissible
    history the reference terminal shows exactly the application's screen (C01 `history_displays`
    at `emuCaps`); `emu_refines_term` (C06) transfers this to the emulator's grid. -/
theorem emu_reference_display (cw : String → Nat) (hsp : cw "20" = 1) (rows cols : Nat)
    (fi0 : C01Display.FrameIn) (fis : List C01Display.FrameIn) (h0 : fi0.refresh = true)
    (hok : ∀ fi ∈ fi0 :: fis, C01Display.FrameInOk cw emuCaps rows cols fi) (fi : C01Display.FrameIn)
    (hlast : (fi0 :: fis).getLast? = some fi) :
    ((fi0 :: fis).foldl (C01Display.stepH cw emuCaps) ⟨Term.init cols rows, blankGrid cols rows, {}, ""⟩).t.grid
      = Expected.expected cw emuCaps fi.next :=
  (C01Display.history_displays cw emuCaps hsp rows cols fi0 fis h0 hok fi hlast).1

end VaxisModel.Props.C12
