/-
C12 — A Vaxis application renders correctly inside the embedded terminal.

Composition. The renderer side is C01/C07 specialised to the capability set Vaxis detects when
its terminal is the embedded emulator; the emulator side is C06 (refinement of the reference
terminal); the end-to-end statement on the real code (real renderer bytes → real parser → real
emulator → snapshot = application's screen; Draw into a host window; start-up replies) is
checked by the C12 correspondence stream.
-/
import VaxisModel.Props.C07
import VaxisModel.Props.C01Display
import VaxisModel.Lemmas.C12Vocab
import VaxisModel.Props.C01Clip
import VaxisModel.Lemmas.C12Draw
import VaxisModel.Lemmas.C12Replies
import VaxisModel.Lemmas.C12Wire
import VaxisModel.Lemmas.C12Cluster
import VaxisModel.Props.C05Draw
import VaxisModel.Props.C05

namespace VaxisModel.Props.C12
open VaxisModel.Model.Render VaxisModel.Spec VaxisModel.Spec.Display VaxisModel.Lemmas.RenderGate
open VaxisModel.Model.Emu (Emu EOp G M runOps)
open VaxisModel.Model.C12Compose VaxisModel.Lemmas.C12Sim VaxisModel.Lemmas.C12Vocab
open VaxisModel.Props.C01 (CursorAs Agree)
open VaxisModel.Props.C01Display (FrameIn HState mkFrame stepH FrameInOk Ready)

/-- What Vaxis detects inside the emulator that matters to the renderer and writer: no direct
    colour, no styled underlines, no explicit width, no synchronized output (the emulator's replies
    advertise sixel graphics and Unicode-core mode only). -/
def emuCaps : Caps := { rgb := false, styledUnderlines := false, explicitWidth := false, sync := false }

/-- The vocabulary the renderer uses inside the emulator: CUP, SGR with basic, bright and
    256-colour parameters only (no `38:2`/`48:2`/`58`/`59`/`4:n`), OSC 8, raw text (no OSC 66),
    cursor visibility (mode 25) and shape, pointer shape — and nothing else. -/
def EmuVocab : Tok → Prop
  | .cup _ _ | .osc8 _ _ | .text _ | .cursorStyle _ | .pointer _ => True
  | .sgr ps => ps.any isDirect = false ∧ ps.any isStyledUl = false
  | .decset n | .decrst n => n = 25
  | .textW _ _ | .other _ => False

/-- **Every frame rendered under the emulator's capability set stays inside that vocabulary**,
    for all grids, styles and cursor requests. -/
theorem emu_frames_vocabulary (cw : String → Nat) (f : Frame) (h : f.caps = emuCaps) :
    ∀ k ∈ (renderFrame cw f).2, EmuVocab k := by
  intro k hk
  have ha := C07.render_gated cw f k hk
  rw [h] at ha
  have hne : ∀ r, k ≠ Tok.other r := by
    intro r hr
    subst hr
    -- `other` tokens are never produced by the renderer model
    have hbody : ∀ k' ∈ (renderBody cw f).2, ∀ r', k' ≠ Tok.other r' := by
      intro k' hk' r' hr'
      obtain ⟨pre, extra, close, show_, hb, hpre, hvoc, hclose, _, hs⟩ := Lemmas.RenderToks.renderBody_shape cw f
      rw [hb] at hk'
      simp only [List.mem_append] at hk'
      rcases hk' with ((hk' | hk') | hk') | hk'
      · rcases hpre with h0 | ⟨s, h0⟩ <;> subst h0 <;> simp at hk'
        subst hk'; cases hr'
      · have := hvoc k' hk'; subst hr'; exact this
      · rcases hclose with h0 | h0 <;> subst h0 <;> simp at hk'
        subst hk'; cases hr'
      · subst hs; split at hk'
        · simp [showCursorToks] at hk'; rcases hk' with rfl | rfl | rfl <;> cases hr'
        · simp at hk'
    unfold renderFrame flush at hk
    simp only at hk
    split at hk
    · repeat' split at hk
      all_goals simp [showCursorToks] at hk
    · simp only [List.mem_append, List.mem_singleton] at hk
      rcases hk with ((((hk | hk) | hk) | hk) | hk) | hk
      · split at hk <;> simp at hk
      · split at hk <;> simp at hk
      · exact hbody _ hk r rfl
      · cases hk
      · split at hk
        · simp [showCursorToks] at hk
        · simp at hk
      · split at hk <;> simp at hk
  cases k with
  | cup r c => trivial
  | sgr ps => simpa [EmuVocab, allowedTok, emuCaps] using ha
  | osc8 p u => trivial
  | text g => trivial
  | textW w g => simp [allowedTok, emuCaps] at ha
  | decset n => simpa [EmuVocab, allowedTok, emuCaps] using ha
  | decrst n => simpa [EmuVocab, allowedTok, emuCaps] using ha
  | cursorStyle n => trivial
  | pointer s => trivial
  | other r => exact absurd rfl (hne r)

/-- **Reference display under the emulator's capabilities.** After every frame of every admissible
    history the reference terminal shows exactly the application's screen (C01 `history_displays`
    at `emuCaps`); `emu_refines_term` (C06) transfers this to the emulator's grid. -/
theorem emu_reference_display (cw : String → Nat) (hsp : cw "20" = 1) (rows cols : Nat)
    (fi0 : C01Display.FrameIn) (fis : List C01Display.FrameIn) (h0 : fi0.refresh = true)
    (hok : ∀ fi ∈ fi0 :: fis, C01Display.FrameInOk cw emuCaps rows cols fi) (fi : C01Display.FrameIn)
    (hlast : (fi0 :: fis).getLast? = some fi) :
    ((fi0 :: fis).foldl (C01Display.stepH cw emuCaps) ⟨Term.init cols rows, blankGrid cols rows, {}, ""⟩).t.grid
      = Expected.expected cw emuCaps fi.next :=
  (C01Display.history_displays cw emuCaps hsp rows cols fi0 fis h0 hok fi hlast).1

/-! ### The composition: renderer model ∘ wire ∘ emulator model, for all frame histories -/

/-- The emulator state `e` shows the application's frame `fi`: every cell of the active grid shows
    the corresponding cell of the application's screen (`Spec.Expected`, the same meaning of the
    screen as in C01: grapheme bytes, width, colours and attributes as displayed under `emuCaps`,
    underline, hyperlink URL and parameters; the cells covered by a wide glyph are read by shadowing),
    and the hardware cursor is hidden, or visible at the requested position in the requested shape. -/
def Shows (dec : String → G) (cw : String → Nat) (fi : FrameIn) (e : Emu) : Prop :=
  GridRel dec (Expected.expected cw emuCaps fi.next) e.active ∧
  (if fi.cursor.visible then
     e.mode.dectcem = true ∧ e.cur.row = fi.cursor.row ∧ e.cur.col = fi.cursor.col ∧ e.cur.shape = (fi.cursor.style : Int)
   else e.mode.dectcem = false)

/-- What the composition asks of a frame beyond C01's `FrameInOk`: every grapheme has width ≤ 2 and,
    when its width is positive, at least one byte (until the F112b repair, /repo 3525279, also: hyperlink
    parameter strings contain no `;` — now `render()` cuts the field, and the composition theorems take `LpOk dec`); the
    cursor shape value fits a CSI parameter. -/
def EmuFrameOk (dec : String → G) (cw : String → Nat) (fi : FrameIn) : Prop :=
  (∀ r ∈ fi.next, ∀ c ∈ r, CellOk dec cw c) ∧ fi.cursor.style ≤ 65535

/-- The emulator model fed, frame after frame, what the renderer model writes (`opsOfToks`: the
    parsed sequences of the tokens), alongside C01's history state (terminal of reference, `last`
    buffer, cursor and pointer shape of the previous frame). -/
def runFrames (dec : String → G) (cw : String → Nat) : HState → Emu → List FrameIn → M Emu
  | _, e, [] => .ok e
  | s, e, fi :: rest => do
    let e' ← runOps e (opsOfToks dec cw (renderFrame cw (mkFrame emuCaps s fi)).2)
    runFrames dec cw (stepH cw emuCaps s fi) e' rest

/-- What is carried from frame to frame. -/
structure Linked (dec : String → G) (cw : String → Nat) (s : HState) (e : Emu) (rows cols : Nat) : Prop where
  ready : Ready s.t s.last rows cols
  cursor : CursorAs s.t s.cursor
  sim : DSim dec s.t e rows cols

/-- **One frame.** From linked states, the emulator model runs the frame's sequences without panic,
    ends linked again, and shows the application's screen and cursor. -/
theorem emu_frame_shows (dec : String → G) (cw : String → Nat) (hsp : cw "20" = 1) (hd : dec "20" = [32]) (hemp : dec "" = []) (hlp : LpOk dec)
    (rows cols : Nat) (s : HState) (e : Emu) (fi : FrameIn) (hl : Linked dec cw s e rows cols)
    (hag : fi.refresh = false → Agree cw emuCaps s.t s.last)
    (hok : FrameInOk cw emuCaps rows cols fi) (hok2 : EmuFrameOk dec cw fi) :
    ∃ e', runOps e (opsOfToks dec cw (renderFrame cw (mkFrame emuCaps s fi)).2) = .ok e' ∧
      Linked dec cw (stepH cw emuCaps s fi) e' rows cols ∧
      Agree cw emuCaps (stepH cw emuCaps s fi).t (stepH cw emuCaps s fi).last ∧
      Shows dec cw fi e' := by
  obtain ⟨r1, a1, g1, b1⟩ := C01Display.frame_step cw emuCaps hsp rows cols s fi hl.ready hag hok
  have hcur : CursorAs (stepH cw emuCaps s fi).t fi.cursor := by
    refine C01.cursor_as_requested cw cw (mkFrame emuCaps s fi) s.t ?_ hl.cursor
    rw [hl.ready.trows, hl.ready.tcols]; exact hok.2.2.2.2
  have h59 : 59 ∉ dec "" := by rw [hemp]; simp
  have hvoc := frame_ok dec cw (mkFrame emuCaps s fi) rfl rfl rfl rfl hsp (by rw [hd]; simp) h59 hlp hok2.1 hok2.2
  obtain ⟨e', hr, hs'⟩ := run_sim cw _ s.t e hl.sim b1 hvoc
  refine ⟨e', hr, ⟨r1, hcur, hs'⟩, a1, ?_, ?_⟩
  · have := hs'.grid
    rw [show (run cw s.t (renderFrame cw (mkFrame emuCaps s fi)).2).grid = Expected.expected cw emuCaps fi.next from g1] at this
    exact this
  · have hc := hcur
    unfold CursorAs at hc
    split
    · rename_i hv
      simp only [hv, if_true] at hc
      obtain ⟨c1, c2, c3, c4, c5⟩ := hc
      have hvis := hs'.vis; have hrow := hs'.row; have hcol := hs'.col; have hpw := hs'.pw; have hsh := hs'.shape
      change (stepH cw emuCaps s fi).t.cursorVisible = e'.mode.dectcem at hvis
      change ((stepH cw emuCaps s fi).t.row : Int) = e'.cur.row at hrow
      change ((stepH cw emuCaps s fi).t.col : Int) = _ at hcol
      change (stepH cw emuCaps s fi).t.pw = _ at hpw
      change ((stepH cw emuCaps s fi).t.cursorShape : Int) = e'.cur.shape at hsh
      rw [c4] at hpw
      have hnp : ¬ (e'.cur.col ≥ (cols : Int)) := by intro h; simp [h] at hpw
      rw [if_neg hnp] at hcol
      refine ⟨by rw [← hvis]; exact c1, by omega, by omega, by rw [← hsh, c5]⟩
    · rename_i hv
      simp only [hv] at hc
      have hvis := hs'.vis
      change (stepH cw emuCaps s fi).t.cursorVisible = e'.mode.dectcem at hvis
      rw [← hvis]; exact hc

/-- **Histories, from any linked pair that still shows the previous frame.** -/
theorem emu_history_shows (dec : String → G) (cw : String → Nat) (hsp : cw "20" = 1) (hd : dec "20" = [32]) (hemp : dec "" = []) (hlp : LpOk dec)
    (rows cols : Nat) :
    ∀ (fis : List FrameIn) (s : HState) (e : Emu), Linked dec cw s e rows cols → Agree cw emuCaps s.t s.last →
      (∀ fi ∈ fis, FrameInOk cw emuCaps rows cols fi ∧ EmuFrameOk dec cw fi) → ∀ fi, fis.getLast? = some fi →
      ∃ e', runFrames dec cw s e fis = .ok e' ∧ Shows dec cw fi e' ∧ Lemmas.Emu.EmuInv e' rows cols := by
  intro fis
  induction fis with
  | nil => intro s e _ _ _ fi h; simp at h
  | cons a rest ih =>
    intro s e hl hag hok fi hlast
    obtain ⟨e1, hr1, hl1, ag1, sh1⟩ := emu_frame_shows dec cw hsp hd hemp hlp rows cols s e a hl (fun _ => hag)
      (hok a (by simp)).1 (hok a (by simp)).2
    cases rest with
    | nil =>
      simp only [List.getLast?_singleton, Option.some.injEq] at hlast
      subst hlast
      exact ⟨e1, by simp only [runFrames, hr1, bind, Except.bind], sh1, hl1.sim.inv⟩
    | cons b rest' =>
      rw [List.getLast?_cons_cons] at hlast
      obtain ⟨e2, hr2, sh2⟩ := ih (stepH cw emuCaps s a) e1 hl1 ag1 (fun fi h => hok fi (by simp [h])) fi hlast
      exact ⟨e2, by simp only [runFrames, hr1, bind, Except.bind]; exact hr2, sh2⟩

/-- The reference display at start-up: blank, cursor hidden (Vaxis hides the cursor when it starts). -/
def startDisplay (cols rows : Nat) : Term := { Term.init cols rows with cursorVisible := false }

def startState (cols rows : Nat) : HState := ⟨startDisplay cols rows, blankGrid cols rows, {}, ""⟩

theorem start_ready (cols rows : Nat) : Ready (startDisplay cols rows) (blankGrid cols rows) rows cols := by
  have h := C01Display.init_ready cols rows
  exact ⟨h.rest, h.bad, h.lp, h.trows, h.tcols, h.glen, h.llen, h.gcols, h.lcols, h.wf⟩

/-- **C12, composition theorem, for all frame histories.** Take any emulator state `e0` that shows
    the blank screen with the cursor hidden (`DSim … (startDisplay cols rows) e0`; `emu_start_related`
    gives one for every size: `New()`, `resize`, `CSI ? 25 l`). For every history of admissible frames
    (C01's `FrameInOk` at the capability set detected inside the emulator, plus `EmuFrameOk`), the
    first one a refresh (as Vaxis forces after a resize), feeding the emulator model the parsed
    sequences of what the renderer model writes, frame after frame, never panics, and after the last
    frame — hence, the hypothesis being prefix closed, after EVERY frame — the emulator's grid shows
    the application's screen cell for cell (grapheme, width, colours, attributes, underline,
    hyperlink and its parameters) and its cursor is hidden or visible at the requested position in
    the requested shape. -/
theorem emu_shows_application (dec : String → G) (cw : String → Nat) (hsp : cw "20" = 1) (hd : dec "20" = [32]) (hemp : dec "" = []) (hlp : LpOk dec)
    (rows cols : Nat) (e0 : Emu) (h0 : DSim dec (startDisplay cols rows) e0 rows cols)
    (fi0 : FrameIn) (fis : List FrameIn) (hr0 : fi0.refresh = true)
    (hok : ∀ fi ∈ fi0 :: fis, FrameInOk cw emuCaps rows cols fi ∧ EmuFrameOk dec cw fi)
    (fi : FrameIn) (hlast : (fi0 :: fis).getLast? = some fi) :
    ∃ e', runFrames dec cw (startState cols rows) e0 (fi0 :: fis) = .ok e' ∧ Shows dec cw fi e' ∧
      Lemmas.Emu.EmuInv e' rows cols := by
  have hl : Linked dec cw (startState cols rows) e0 rows cols :=
    ⟨start_ready cols rows, by simp [CursorAs, startState, startDisplay], h0⟩
  obtain ⟨e1, hr1, hl1, ag1, sh1⟩ := emu_frame_shows dec cw hsp hd hemp hlp rows cols (startState cols rows) e0 fi0 hl
    (fun h => by rw [hr0] at h; exact absurd h (by simp)) (hok fi0 (by simp)).1 (hok fi0 (by simp)).2
  cases fis with
  | nil =>
    simp only [List.getLast?_singleton, Option.some.injEq] at hlast
    subst hlast
    exact ⟨e1, by simp only [runFrames, hr1, bind, Except.bind], sh1, hl1.sim.inv⟩
  | cons b rest =>
    rw [List.getLast?_cons_cons] at hlast
    obtain ⟨e2, hr2, sh2⟩ := emu_history_shows dec cw hsp hd hemp hlp rows cols (b :: rest) _ e1 hl1 ag1
      (fun fi h => hok fi (by simp [h])) fi hlast
    exact ⟨e2, by simp only [runFrames, hr1, bind, Except.bind]; exact hr2, sh2⟩

/-- A start state exists for every size 1×1 … 65535²: the emulator after `New()`, `resize(w, h)` and
    `CSI ? 25 l` shows the blank screen with the cursor hidden. -/
theorem emu_start_related (dec : String → G) (hemp : dec "" = []) (w h : Int) (hw1 : 1 ≤ w) (hw2 : w ≤ 65535)
    (hh1 : 1 ≤ h) (hh2 : h ≤ 65535) :
    ∃ e0 e1, Model.Emu.Emu.new Model.Emu.Fixes.current w h = .ok e0 ∧
      runOps e0 [.csi [63, 108] [(25, [])]] = .ok e1 ∧
      DSim dec (startDisplay w.toNat h.toNat) e1 h.toNat w.toNat := by
  have hs := dsim_init (dec := dec) hemp w h hw1 hw2 hh1 hh2
  obtain ⟨e1, hr, hs1⟩ := decrst_sim (fun _ => 1) hs
  exact ⟨_, e1, Lemmas.EmuRefine.new_eq w h (by omega) (by omega), hr, hs1⟩

/-! ### Non-vacuity -/

/-- A width function and a byte decoding for the example: "" has width 0 and no bytes, "57" is wide. -/
def cwEx : String → Nat := fun g => if g = "" then 0 else if g = "57" then 2 else 1
def decEx : String → G := fun s => if s = "" then [] else if s = "20" then [32] else [97]

theorem lpOk_decEx : LpOk decEx := by
  intro s
  unfold decEx
  split
  · simp
  · split <;> simp

def grid1 : Grid := [[({ g := "57" } : Cell), {}, { g := "61", style := { fg := 16777217, attr := 2, link := "68", linkParams := "69" } }]]
def grid2 : Grid := [[({ g := "62" } : Cell), { g := "63" }, { g := "61", style := { fg := 16777217, attr := 2 } }]]

/-- All hypotheses of `emu_shows_application` hold for a two-frame history on a 3×1 emulator started
    as `emu_start_related` says (a refresh with a wide glyph and a hyperlinked, coloured, bold cell;
    then a diff frame that replaces the wide glyph by two narrow ones, drops the hyperlink and shows
    the cursor): the theorem applies to a concrete non-trivial history. -/
example :
    let fi0 : FrameIn := ⟨true, grid1, {}, ""⟩
    let fi1 : FrameIn := ⟨false, grid2, { visible := true, col := 1, style := 3 }, "text"⟩
    ∃ e0 e1 e', Model.Emu.Emu.new Model.Emu.Fixes.current 3 1 = .ok e0 ∧
      runOps e0 [.csi [63, 108] [(25, [])]] = .ok e1 ∧
      runFrames decEx cwEx (startState 3 1) e1 [fi0, fi1] = .ok e' ∧ Shows decEx cwEx fi1 e' := by
  intro fi0 fi1
  obtain ⟨e0, e1, h0, h1, hs⟩ := emu_start_related decEx rfl 3 1 (by decide) (by decide) (by decide) (by decide)
  have hcells : ∀ (g : Grid), (g = grid1 ∨ g = grid2) →
      ∀ r ∈ g, ∀ c ∈ r, (c.sixel = false ∧ 0 ≤ c.w ∧ Lemmas.RenderDisplay.WidthOk cwEx emuCaps c) ∧ CellOk decEx cwEx c := by
    intro g hg r hr c hc
    rcases hg with rfl | rfl <;>
    · simp only [grid1, grid2, List.mem_cons, List.not_mem_nil, or_false] at hr
      subst hr
      simp only [List.mem_cons, List.not_mem_nil, or_false] at hc
      rcases hc with rfl | rfl | rfl <;> exact ⟨⟨rfl, by decide, Or.inl rfl⟩, by decide, by decide⟩
  have hfits : ∀ (g : Grid), (g = grid1 ∨ g = grid2) → C01.Fits cwEx g := by
    intro g hg r hr
    rcases hg with rfl | rfl <;>
    · simp only [grid1, grid2, List.mem_cons, List.not_mem_nil, or_false] at hr
      subst hr
      simp [C01.FitsRow, Expected.cellWidth, cwEx]
  obtain ⟨e', hr, hsh⟩ := emu_shows_application decEx cwEx rfl rfl rfl lpOk_decEx 1 3 e1 hs fi0 [fi1] rfl
    (by
      intro fi hfi
      simp only [List.mem_cons, List.not_mem_nil, or_false] at hfi
      rcases hfi with rfl | rfl
      · exact ⟨⟨rfl, by decide, hfits _ (Or.inl rfl), fun r hr c hc => (hcells _ (Or.inl rfl) r hr c hc).1,
          fun h => absurd h (by decide)⟩, fun r hr c hc => (hcells _ (Or.inl rfl) r hr c hc).2, by decide⟩
      · exact ⟨⟨rfl, by decide, hfits _ (Or.inr rfl), fun r hr c hc => (hcells _ (Or.inr rfl) r hr c hc).1,
          fun _ => by decide⟩, fun r hr c hc => (hcells _ (Or.inr rfl) r hr c hc).2, by decide⟩)
    fi1 rfl
  exact ⟨e0, e1, e', h0, h1, hr, hsh.1⟩

/-! ### The same for the renderer as it is now (after the F02 repair): no "glyphs fit" hypothesis -/

open VaxisModel.Props.C01Clip (FrameInOkC clipIn stepHC stepHC_eq clipIn_ok) in
/-- The emulator model fed what the repaired renderer (`renderFrameC`, /repo 990e1a4) writes. -/
def runFramesC (dec : String → G) (cw : String → Nat) : HState → Emu → List FrameIn → M Emu
  | _, e, [] => .ok e
  | s, e, fi :: rest => do
    let e' ← runOps e (opsOfToks dec cw (renderFrameC cw (mkFrame emuCaps s fi)).2)
    runFramesC dec cw (stepHC cw emuCaps s fi) e' rest

/-- `Shows` with the meaning of the screen of the repaired renderer: a glyph that does not fit in the
    rest of its row shows as a blank in its style (`Spec.Expected.expectedC`). -/
def ShowsC (dec : String → G) (cw : String → Nat) (fi : FrameIn) (e : Emu) : Prop :=
  GridRel dec (Expected.expectedC cw emuCaps fi.next) e.active ∧
  (if fi.cursor.visible then
     e.mode.dectcem = true ∧ e.cur.row = fi.cursor.row ∧ e.cur.col = fi.cursor.col ∧ e.cur.shape = (fi.cursor.style : Int)
   else e.mode.dectcem = false)

theorem runFramesC_eq (dec : String → G) (cw : String → Nat) :
    ∀ (fis : List FrameIn) (s : HState) (e : Emu),
      runFramesC dec cw s e fis = runFrames dec cw s e (fis.map (C01Clip.clipIn cw)) := by
  intro fis
  induction fis with
  | nil => intro s e; rfl
  | cons a rest ih =>
    intro s e
    simp only [runFramesC, runFrames, List.map_cons, C01Clip.stepHC_eq, ih]
    have : (renderFrameC cw (mkFrame emuCaps s a)).2 = (renderFrame cw (mkFrame emuCaps s (C01Clip.clipIn cw a))).2 := by
      rw [Lemmas.RenderClip.renderFrameC_eq]; rfl
    rw [this]

theorem clipIn_emuOk (dec : String → G) (cw : String → Nat) (hsp : cw "20" = 1) (hd : dec "20" = [32]) (fi : FrameIn)
    (h : EmuFrameOk dec cw fi) : EmuFrameOk dec cw (C01Clip.clipIn cw fi) := by
  refine ⟨?_, h.2⟩
  intro r hr c hc
  obtain ⟨l, hl, rfl⟩ := List.mem_map.mp hr
  obtain ⟨c0, h0, hc0⟩ := Lemmas.RenderClip.clipRow_mem cw l c hc
  have hk := h.1 l hl c0 h0
  rcases hc0 with rfl | rfl
  · exact hk
  · exact ⟨by show cw "20" ≤ 2; rw [hsp]; omega, fun _ => by show dec "20" ≠ []; rw [hd]; simp⟩

/-- **C12, composition theorem for the renderer as it is now, for all frame histories.** As
    `emu_shows_application`, over `renderFrameC` (the transcription of `render()` after the F02 repair),
    with C01's `FrameInOkC` (no hypothesis about glyphs fitting their row): after every frame the
    emulator's grid shows the application's screen cell for cell — a glyph that cannot be shown because
    it is wider than the rest of its row shows as a blank in its style — and the cursor is as requested. -/
theorem emu_shows_application_now (dec : String → G) (cw : String → Nat) (hsp : cw "20" = 1) (hd : dec "20" = [32])
    (hemp : dec "" = []) (hlp : LpOk dec) (rows cols : Nat) (e0 : Emu) (h0 : DSim dec (startDisplay cols rows) e0 rows cols)
    (fi0 : FrameIn) (fis : List FrameIn) (hr0 : fi0.refresh = true)
    (hok : ∀ fi ∈ fi0 :: fis, C01Clip.FrameInOkC cw emuCaps rows cols fi ∧ EmuFrameOk dec cw fi)
    (fi : FrameIn) (hlast : (fi0 :: fis).getLast? = some fi) :
    ∃ e', runFramesC dec cw (startState cols rows) e0 (fi0 :: fis) = .ok e' ∧ ShowsC dec cw fi e' ∧
      Lemmas.Emu.EmuInv e' rows cols := by
  rw [runFramesC_eq]
  obtain ⟨e', hr, hs⟩ := emu_shows_application dec cw hsp hd hemp hlp rows cols e0 h0 (C01Clip.clipIn cw fi0)
    (fis.map (C01Clip.clipIn cw)) hr0
    (by
      intro x hx
      simp only [← List.map_cons, List.mem_map] at hx
      obtain ⟨y, hy, rfl⟩ := hx
      exact ⟨C01Clip.clipIn_ok cw emuCaps hsp rows cols y (hok y hy).1, clipIn_emuOk dec cw hsp hd y (hok y hy).2⟩)
    (C01Clip.clipIn cw fi)
    (by rw [← List.map_cons, List.getLast?_map, hlast]; rfl)
  refine ⟨e', by simpa [List.map_cons] using hr, ?_, hs.2⟩
  have hs1 := hs.1
  unfold ShowsC
  unfold Shows at hs1
  rw [Lemmas.RenderClip.expectedC_eq]
  exact hs1

def gridF02 : Grid := [[({ g := "61" } : Cell), { g := "57", style := { fg := 16777217 } }]]
def fiF02 : FrameIn := ⟨true, gridF02, {}, ""⟩

/-- The run over a history passes through the run over each of its prefixes (the emulator model is
    fed frame after frame; C01's history state advances by `stepHC`). -/
theorem runFramesC_append (dec : String → G) (cw : String → Nat) :
    ∀ (a b : List FrameIn) (s : HState) (e : Emu),
      runFramesC dec cw s e (a ++ b) =
        (runFramesC dec cw s e a >>= fun e1 => runFramesC dec cw (a.foldl (C01Clip.stepHC cw emuCaps) s) e1 b) := by
  intro a
  induction a with
  | nil => intro b s e; rfl
  | cons x xs ih =>
    intro b s e
    simp only [List.cons_append, runFramesC, List.foldl_cons]
    cases h : runOps e (opsOfToks dec cw (renderFrameC cw (mkFrame emuCaps s x)).2) with
    | error p => rfl
    | ok e1 =>
      simp only [bind, Except.bind]
      exact ih b _ e1

/-- **After EVERY frame.** For every `k`, the run over the first `k + 1` frames of an admissible
    history ends in an emulator state that shows frame `k` — and the run over the whole history passes
    through that state (`runFramesC_append`). -/
theorem emu_shows_every_frame (dec : String → G) (cw : String → Nat) (hsp : cw "20" = 1) (hd : dec "20" = [32])
    (hemp : dec "" = []) (hlp : LpOk dec) (rows cols : Nat) (e0 : Emu) (h0 : DSim dec (startDisplay cols rows) e0 rows cols)
    (fi0 : FrameIn) (fis : List FrameIn) (hr0 : fi0.refresh = true)
    (hok : ∀ fi ∈ fi0 :: fis, C01Clip.FrameInOkC cw emuCaps rows cols fi ∧ EmuFrameOk dec cw fi)
    (k : Nat) (fk : FrameIn) (hk : (fi0 :: fis)[k]? = some fk) :
    ∃ ek, runFramesC dec cw (startState cols rows) e0 ((fi0 :: fis).take (k + 1)) = .ok ek ∧ ShowsC dec cw fk ek ∧
      runFramesC dec cw (startState cols rows) e0 (fi0 :: fis) =
        runFramesC dec cw (((fi0 :: fis).take (k + 1)).foldl (C01Clip.stepHC cw emuCaps) (startState cols rows)) ek
          ((fi0 :: fis).drop (k + 1)) := by
  have htake : (fi0 :: fis).take (k + 1) = fi0 :: fis.take k := rfl
  have hlast : (fi0 :: fis.take k).getLast? = some fk := by
    rw [← htake, List.getLast?_eq_getElem?]
    have hlen : k < (fi0 :: fis).length := by
      rcases Nat.lt_or_ge k (fi0 :: fis).length with h | h
      · exact h
      · rw [List.getElem?_eq_none h] at hk; cases hk
    have : ((fi0 :: fis).take (k + 1)).length = k + 1 := by
      rw [List.length_take]; simp only [List.length_cons] at hlen ⊢; omega
    rw [this, List.getElem?_take]
    simpa using hk
  obtain ⟨ek, hr, hs, _⟩ := emu_shows_application_now dec cw hsp hd hemp hlp rows cols e0 h0 fi0 (fis.take k) hr0
    (by
      intro fi hfi
      apply hok
      rcases List.mem_cons.mp hfi with rfl | h
      · simp
      · exact List.mem_cons_of_mem _ (List.mem_of_mem_take h))
    fk hlast
  refine ⟨ek, by rw [htake]; exact hr, hs, ?_⟩
  have hsplit : fi0 :: fis = (fi0 :: fis).take (k + 1) ++ (fi0 :: fis).drop (k + 1) := (List.take_append_drop _ _).symm
  conv => lhs; rw [hsplit]
  rw [runFramesC_append, htake, hr]
  rfl

/-- Non-vacuity / the F02 input: a wide glyph in the last column of a 2×1 emulator. The theorem
    applies (no fitting hypothesis) and the emulator shows a blank in the glyph's style there. -/
example :
    ∃ e0 e1 e', Model.Emu.Emu.new Model.Emu.Fixes.current 2 1 = .ok e0 ∧
      runOps e0 [.csi [63, 108] [(25, [])]] = .ok e1 ∧
      runFramesC decEx cwEx (startState 2 1) e1 [fiF02] = .ok e' ∧ ShowsC decEx cwEx fiF02 e' := by
  obtain ⟨e0, e1, h0, h1, hs⟩ := emu_start_related decEx rfl 2 1 (by decide) (by decide) (by decide) (by decide)
  obtain ⟨e', hr, hsh⟩ := emu_shows_application_now decEx cwEx rfl rfl rfl lpOk_decEx 1 2 e1 hs fiF02 [] rfl
    (by
      intro fi hfi
      simp only [List.mem_cons, List.not_mem_nil, or_false] at hfi
      subst hfi
      refine ⟨⟨rfl, by decide, ?_, fun h => absurd h (by decide)⟩, ?_, by decide⟩
      · intro r hr c hc
        simp only [fiF02, gridF02, List.mem_cons, List.not_mem_nil, or_false] at hr
        subst hr
        simp only [List.mem_cons, List.not_mem_nil, or_false] at hc
        rcases hc with rfl | rfl <;> exact ⟨rfl, by decide, Or.inl rfl⟩
      · intro r hr c hc
        simp only [fiF02, gridF02, List.mem_cons, List.not_mem_nil, or_false] at hr
        subst hr
        simp only [List.mem_cons, List.not_mem_nil, or_false] at hc
        rcases hc with rfl | rfl <;> exact ⟨by decide, by decide⟩)
    fiF02 rfl
  exact ⟨e0, e1, e', h0, h1, hr, hsh.1⟩

/-! ### Draw into a host window of the same size -/

open VaxisModel.Model.EmuDraw VaxisModel.Lemmas.C12Draw VaxisModel.Lemmas.EmuDraw in
/-- The application's screen has no `poison` cell. -/
theorem expected_noPoison (cw : String → Nat) (caps : Caps) (g : Grid) :
    ∀ r ∈ Expected.expected cw caps g, Lemmas.C12Draw.NoPoison r := by
  intro r hr
  obtain ⟨l, _, rfl⟩ := List.mem_map.mp hr
  have : ∀ (l : List Cell) (k : Nat), Lemmas.C12Draw.NoPoison (Expected.expectedRow cw caps k l) := by
    intro l
    induction l with
    | nil => intro k x hx; cases k <;> simp [Expected.expectedRow] at hx
    | cons c cs ih =>
      intro k x hx
      cases k with
      | zero =>
        simp only [Expected.expectedRow, List.mem_cons] at hx
        rcases hx with rfl | hx
        · unfold Expected.expectedCell; simp only; split <;> nofun
        · exact ih _ x hx
      | succ k =>
        simp only [Expected.expectedRow, List.mem_cons] at hx
        rcases hx with rfl | hx
        · nofun
        · exact ih _ x hx
  exact this l 0

open VaxisModel.Model.EmuDraw VaxisModel.Lemmas.C12Draw VaxisModel.Lemmas.EmuDraw in
/-- **Draw reproduces the screen in a host window of the same size.** If the emulator's active grid
    shows the screen `D` (what the composition theorems deliver: `D` = the application's screen), then
    `Draw` into a `cols × rows` host window does not resize, and its `SetCell` calls are, row by row,
    exactly one call per glyph cell of `D` (blanks included) and none for the cells covered by a wide
    glyph; each call carries a cell that shows that glyph (grapheme bytes, width — 0 = "measure" for a
    never written cell —, displayed style, hyperlink and parameters: `HostRel`) and lands on the host
    cell with the same coordinates. -/
theorem draw_reproduces_screen (dec : String → G) (cw : String → Nat) (g : Grid) (e : Emu) (rows cols : Nat)
    (hinv : Lemmas.Emu.EmuInv e rows cols) (hd : Lemmas.Emu.Dim rows cols)
    (hrel : GridRel dec (Expected.expected cw emuCaps g) e.active) (focused : Bool) :
    ∃ per : List (List DrawCall),
      draw true Model.Emu.Fixes.current e cols rows focused =
        .ok ({ e with hasVx := true }, per.flatten, shownCursor true e focused) ∧
      per.length = rows ∧
      ∀ (k : Nat) (l : List DrawCall), per[k]? = some l →
        ∃ drow, (Expected.expected cw emuCaps g)[k]? = some drow ∧
          (∀ call ∈ l, ∃ (j : Nat) (d : DCell), call.col = (j : Int) ∧ call.row = (k : Int) ∧ drow[j]? = some d ∧
            d ≠ .cont ∧ HostRel dec d call.cell ∧
            setCellChain cols rows [Win.root cols rows] call.col call.row = some ((j : Int), (k : Int))) ∧
          (∀ (j : Nat) (d : DCell), drow[j]? = some d → d ≠ .cont → ∃ call ∈ l, call.col = (j : Int)) := by
  obtain ⟨per, h1, h2, h3⟩ := C05Draw.draw_covers_rows hinv hd
  have hsz : ¬ ((cols : Int) ≠ e.width ∨ (rows : Int) ≠ e.height) := by
    rw [Lemmas.Emu.width_eq hinv hd.r1, Lemmas.Emu.height_eq hinv]; omega
  refine ⟨per, by simp only [draw, hsz, if_false, h1, bind, Except.bind], h2, ?_⟩
  intro k l hk
  obtain ⟨line, hline, hwalk⟩ := h3 k l hk
  have hga := Lemmas.Emu.active_ok hinv
  have hkr : k < rows := by
    rcases Nat.lt_or_ge k per.length with h | h
    · omega
    · rw [List.getElem?_eq_none h] at hk; cases hk
  have hline' : e.active[k]? = some line := by
    unfold Model.Emu.getI at hline
    simp only [Int.natCast_nonneg, if_true, Int.toNat_natCast] at hline
    cases hx : e.active[k]? with
    | none => rw [hx] at hline; cases hline
    | some x => rw [hx] at hline; cases hline; rfl
  have hlen : line.length = cols := hga.rowLen _ (List.mem_of_getElem? hline')
  have hdl : k < (Expected.expected cw emuCaps g).length := by rw [hrel.1, hga.len]; exact hkr
  have hdk : (Expected.expected cw emuCaps g)[k]? = some (Expected.expected cw emuCaps g)[k] :=
    List.getElem?_eq_getElem hdl
  have hmem := List.getElem_mem hdl
  have hrr := hrel.2 k _ _ hdk hline'
  obtain ⟨w1, w2⟩ := walk_shows dec _ line k cols hrr hlen (expected_noPoison cw emuCaps g _ hmem) l 0
    (by simpa using hwalk) (by simpa using C01Display.expected_wf cw emuCaps g _ hmem)
  refine ⟨_, hdk, ?_, fun j d hj hn => w2 j d (Nat.zero_le _) hj hn⟩
  intro call hc
  obtain ⟨j, d, e1, _, e3, e4, e5, e6⟩ := w1 call hc
  refine ⟨j, d, e1, e5, e3, e4, e6, ?_⟩
  have hjc : j < cols := by
    rcases Nat.lt_or_ge j (Expected.expected cw emuCaps g)[k].length with h | h
    · rw [hrr.1, hlen] at h; exact h
    · rw [List.getElem?_eq_none h] at e3; cases e3
  rw [e1, e5]
  have a2 : ¬ ((k : Int) < 0 ∨ (j : Int) < 0) := by omega
  have a6 : ¬ ((j : Int) < 0 ∨ (k : Int) < 0) := by omega
  have a7 : ¬ ((j : Int) ≥ (cols : Int)) := by omega
  have a8 : ¬ ((k : Int) ≥ (rows : Int)) := by omega
  simp only [setCellChain, Win.root, a2, a6, a7, a8, if_false, Int.add_zero, or_self]

/-- The cursor Draw shows in a focused host window is the application's cursor. -/
theorem draw_shows_cursor (dec : String → G) (cw : String → Nat) (fi : FrameIn) (e : Emu) (rows cols : Nat)
    (hinv : Lemmas.Emu.EmuInv e rows cols) (hs : Shows dec cw fi e)
    (hcol : fi.cursor.visible = true → fi.cursor.col < cols) :
    Model.EmuDraw.shownCursor true e true =
      (if fi.cursor.visible then some (fi.cursor.col, fi.cursor.row) else none) := by
  have hc := hs.2
  unfold Model.EmuDraw.shownCursor
  split at hc
  · rename_i hv
    obtain ⟨c1, c2, c3, _⟩ := hc
    have := hinv.right; have := hinv.colHi
    have hlt := hcol hv
    have hng : ¬ (fi.cursor.col > e.right) := by omega
    simp only [c1, Bool.and_self, if_true, hv, Bool.true_and, decide_eq_true_eq, c2, c3, hng, if_false]
  · rename_i hv
    simp [hc, hv]

/-! ### The reply exchange -/

open VaxisModel.Model.C12Replies VaxisModel.Lemmas.C12Replies in
/-- **The start-up reply exchange, over the models, from ANY emulator state.** The emulator model run
    over the sequences `sendQueries()` writes (`startupQueries`, compared with what the real Vaxis
    writes on every run) never panics and replies exactly: DECRPM 2026 → 0, 2027 → 3, 2031 → 0, the
    cursor position 1;1 after `CSI H`, the background colour (only with a host attached that knows
    it), DA1 `? 62 ; 4 ; 22 c`. C03's model of `handleSequence` and of the collection loop of `New()`
    turns these replies into: sixels, unicodeCore, (osc11 iff that colour reply came) — nothing else.
    In particular the four capabilities the renderer consults are those of `emuCaps`, the capability
    set of the composition theorem. -/
theorem emu_caps_exact (hostBg : Option (Nat × Nat × Nat)) (e : Emu) :
    ∃ e' rs caps, runQ hostBg e startupQueries = .ok (e', rs) ∧ capsFrom rs = .ok caps ∧
      caps = { sixels := true, unicodeCore := true, osc11 := e.hasVx && hostBg.isSome } ∧
      ({ rgb := caps.rgb, styledUnderlines := caps.styledUnderlines, explicitWidth := caps.explicitWidth,
         sync := caps.synchronizedUpdate } : Caps) = emuCaps := by
  obtain ⟨e', he⟩ := run_startup hostBg e
  exact ⟨e', _, _, he, caps_of_startupReplies hostBg e, rfl, rfl⟩

open VaxisModel.Model.C12Replies in
/-- **What is not detected is not there**: in every state the emulator model ignores the modes Vaxis
    asked about and did not detect (2026 synchronized output, 2031 colour-theme updates, 2048 in-band
    resize: set and reset change nothing), the kitty keyboard protocol (`CSI ? u`, `CSI > n u`,
    `CSI < u`, `CSI = n u`: no dispatch arm) and the explicit-width probe (OSC 66). What IS detected:
    DA1 attribute 4 stands for the sixel DCS branch of `update()` (graphics are outside this model:
    modelled-not-verified), DECRPM 2027 = 3 for the fact that `update()` receives whole grapheme
    clusters (`EOp.print g w`). -/
theorem undetected_is_ignored (e : Emu) (n : Int) (hn : n = 2026 ∨ n = 2031 ∨ n = 2048) (pm : List Model.Emu.Param) :
    Model.Emu.emuStep e (.csi [63, 104] [(n, [])]) = .ok (e, 0) ∧
    Model.Emu.emuStep e (.csi [63, 108] [(n, [])]) = .ok (e, 0) ∧
    Model.Emu.emuStep e (.csi [63, 117] pm) = .ok (e, 0) ∧ Model.Emu.emuStep e (.csi [62, 117] pm) = .ok (e, 0) ∧
    Model.Emu.emuStep e (.csi [60, 117] pm) = .ok (e, 0) ∧ Model.Emu.emuStep e (.csi [61, 117] pm) = .ok (e, 0) ∧
    Model.Emu.emuStep e (.osc [54, 54, 59, 119, 61, 49, 59, 32] {}) = .ok (e, 0) := by
  rcases hn with rfl | rfl | rfl <;> exact ⟨rfl, rfl, rfl, rfl, rfl, rfl, rfl⟩

/-! ### Extractor facts: the reply writers and `sendQueries()` as they are in the source now

`Gen/TermReplies.lean` is regenerated from /repo on every run (extract/cmd/C12): the literals
`csi()` writes for DA1 / DA2 / DSR, the format and arguments of the cursor-position report and of the
DECRPM answer, the literal arms of `decrqm()`, the statements of `sendQueries()` in source order, and
the constants and format functions of sequences.go. The theorems below pin the hand-written model
(`Model/C12Replies.lean`) to them: a change of any of these in the source breaks a theorem. -/

open VaxisModel.Model.C12Replies VaxisModel.Gen.TermReplies VaxisModel.Lemmas.C12Wire

/-- DA1, DA2 and DSR 5: the model's replies are the literals of the source. -/
theorem facts_device_attributes (hostBg : Option (Nat × Nat × Nat)) (e : Emu) :
    (replies hostBg e (.csi [99] [])).flatMap seqBytes = da1Parts.flatten ∧
    (replies hostBg e (.csi [62, 99] [])).flatMap seqBytes = da2 ∧
    (replies hostBg e (.csi [110] [(5, [])])).flatMap seqBytes = dsrOk :=
  ⟨rfl, rfl, rfl⟩

/-- The cursor-position report: `Sprintf(cprFormat, vt.cursor.row+1, vt.cursor.col+1)`. -/
theorem facts_cursor_report (hostBg : Option (Nat × Nat × Nat)) (e : Emu) :
    cprArgs = ["vt.cursor.row + 1", "vt.cursor.col + 1"] ∧
    (replies hostBg e (.csi [110] [(6, [])])).flatMap seqBytes =
      instFmt cprFormat [intBytes (e.cur.row + 1), intBytes (e.cur.col + 1)] :=
  ⟨by decide, by simp [replies, Model.Emu.ps, Model.Emu.clampParams, Model.Emu.clampParam, Model.Emu.maxParam, seqBytes,
    paramBytes, cprFormat, instFmt, List.intercalate]⟩

/-- The DECRPM answer: `Fprintf(decrpmFormat, pd, ps)`, with `ps` = 3 for 2027 and 0 for 5 (the two
    literal arms of `decrqm()`), 1 / 2 from the mode flag for the modes of `Gen.TermModes.decrqmTable`. -/
theorem facts_decrpm (hostBg : Option (Nat × Nat × Nat)) (e : Emu) (pd : Int) (h0 : 0 ≤ pd) (h1 : pd ≤ 65535) :
    decrpmArgs = ["pd", "ps"] ∧ decrqmLiteral = [(5, none), (2027, some 3)] ∧
    decrqmValue e 5 = 0 ∧ decrqmValue e 2027 = 3 ∧
    (replies hostBg e (.csi [63, 36, 112] [(pd, [])])).flatMap seqBytes =
      instFmt decrpmFormat [intBytes pd, intBytes (decrqmValue e pd)] := by
  refine ⟨by decide, by decide, rfl, rfl, ?_⟩
  have hc : Model.Emu.clampParam pd = pd := by
    unfold Model.Emu.clampParam Model.Emu.maxParam; split <;> omega
  simp [replies, Model.Emu.ps, Model.Emu.clampParams, hc, seqBytes, paramBytes, decrpmFormat, instFmt, List.intercalate]

/-- `sendQueries()` statement by statement: every statement is one this model knows, and the bytes it
    writes (computed from the regenerated constants of sequences.go) parse to the corresponding group
    of `startupGroups` — so `startupQueries` is what the source sends, in source order. -/
theorem facts_queries : (queryWire.map fun w => allMatch w startupGroups) = some true := by decide

/-- **The wire, against the renderer's templates** (sequences.go, regenerated): for every value of
    the arguments, the bytes `render()` / `showCursor()` / the writer produce from the template parse
    to the sequences `opsOf` hands to the emulator model — CUP (`cup`), OSC 8 (`osc8`), pointer shape
    (`mouseShape`), DECSCUSR (`cursorStyleSet`), mode 25 set / reset (`decset` / `decrst`,
    `cursorVisibility`), SGR reset (`sgrReset`). (The SGR colour / attribute templates are tied to the
    tokens by C01's tokenizer stream; `sgrParam` only splits `p:s1:s2` into main value and
    sub-parameters.) -/
theorem facts_wire (dec : String → G) (tw : String → Nat) (r c : Int) (n : Nat) (p u sh : String) :
    wireMatches (instFmt (strC "cup") [intBytes r, intBytes c]) (opsOf dec tw (.cup r c)) = true ∧
    wireMatches (instFmt (strC "osc8") [dec p, dec u]) (opsOf dec tw (.osc8 p u)) = true ∧
    wireMatches (instFmt (strC "mouseShape") [dec sh]) (opsOf dec tw (.pointer sh)) = true ∧
    wireMatches (instFmt (strC "cursorStyleSet") [intBytes n]) (opsOf dec tw (.cursorStyle n)) = true ∧
    wireMatches (instFmt (fmtF "decset") [intBytes (numC "cursorVisibility")]) (opsOf dec tw (.decset 25)) = true ∧
    wireMatches (instFmt (fmtF "decrst") [intBytes (numC "cursorVisibility")]) (opsOf dec tw (.decrst 25)) = true ∧
    wireMatches (strC "sgrReset") (opsOf dec tw (.sgr [])) = true := by
  have h1 : strC "cup" = [27, 91, 37, 100, 59, 37, 100, 72] := by decide
  have h2 : strC "osc8" = [27, 93, 56, 59, 37, 115, 59, 37, 115, 27, 92] := by decide
  have h3 : strC "mouseShape" = [27, 93, 50, 50, 59, 37, 115, 27, 92] := by decide
  have h4 : strC "cursorStyleSet" = [27, 91, 37, 100, 32, 113] := by decide
  refine ⟨?_, ?_, ?_, ?_, rfl, rfl, rfl⟩
  · rw [h1]
    simp [instFmt, opsOf, wireMatches, csiWire, paramBytes, List.intercalate]
  · rw [h2]
    simp [instFmt, opsOf, wireMatches, osc8Payload]
  · rw [h3]
    simp [instFmt, opsOf, wireMatches, osc22Payload]
  · rw [h4]
    simp [instFmt, opsOf, wireMatches, csiWire, paramBytes, List.intercalate]

/-! ### The start state of the composition theorem is the state the real start-up leaves -/

open VaxisModel.Model.C12Replies in
/-- Panic-freedom and the invariant along any resize-free run (C05, step by step). -/
theorem runOps_inv {rows cols : Nat} (d : Lemmas.Emu.Dim rows cols) :
    ∀ (ops : List EOp) (e e' : Emu), Lemmas.Emu.EmuInv e rows cols → (∀ op ∈ ops, ∀ w h, op ≠ .resize w h) →
      runOps e ops = .ok e' → Lemmas.Emu.EmuInv e' rows cols := by
  intro ops
  induction ops with
  | nil => intro e e' hi _ h; cases h; exact hi
  | cons op rest ih =>
    intro e e' hi hn h
    obtain ⟨r, hr, hi'⟩ := VaxisModel.Props.C05.emu_safe hi d op (hn op (by simp))
    simp only [runOps, hr, bind, Except.bind] at h
    exact ih r.1 e' hi' (fun o ho => hn o (by simp [ho])) h

open VaxisModel.Model.C12Replies in
/-- **From the real start-up** (20×6): the emulator model, started as `New()` + `resize(20, 6)` and
    fed everything the real Vaxis writes until it is ready to render (`startupAll`: compared with the
    real byte stream on every run), ends — on the alternate screen, with the modes Vaxis enables — in a
    state that is a start state of the composition theorem (`DSim … (startDisplay 20 6)`). -/
theorem emu_real_startup_related (dec : String → G) (hemp : dec "" = []) :
    ∃ e, runOps (Lemmas.EmuRefine.newState 20 6) startupAll = .ok e ∧ DSim dec (startDisplay 20 6) e 6 20 := by
  have hrun : (match runOps (Lemmas.EmuRefine.newState 20 6) startupAll with
      | .ok e => startCheck e
      | .error _ => false) = true := by decide +kernel
  cases h : runOps (Lemmas.EmuRefine.newState 20 6) startupAll with
  | error p => rw [h] at hrun; cases hrun
  | ok e =>
    rw [h] at hrun
    have hd : Lemmas.Emu.Dim 6 20 := ⟨by decide, by decide, by decide, by decide⟩
    have hi0 := (Lemmas.EmuRefine.sim2_init 20 6 (by decide) (by decide) (by decide) (by decide)
      (Lemmas.EmuRefine.new_eq 20 6 (by decide) (by decide))).sim.inv
    have hi := runOps_inv hd startupAll _ e hi0 (by
      intro op hop w h hc
      subst hc
      simp [startupAll, startupQueries, startupGroups, q] at hop) h
    exact ⟨e, rfl, dsim_of_startCheck hemp e 6 20 hi hd hrun⟩

/-! ### Grapheme clustering in the emulator's parser, made explicit

`opsOfToks` hands the emulator one `print` per text write. The real parser re-segments CONSECUTIVE
text writes together (`Model.C12Compose.clusterToks`, parameters `merges` / `cat`: uniseg is not
modelled). The composition theorem holds for the clustering wire `opsOfToksM` under the hypothesis
that no two graphemes of a frame (blank included) merge when one directly follows the other — and
that hypothesis is necessary (known finding F112d, `clustering_breaks_composition` below, replayed
on the real code by the scenarios `merge-*`). -/

open VaxisModel.Lemmas.C12Cluster

/-- No two graphemes of the grid (or the blank) form one cluster when written one after the other. -/
def NoMergeGrid (merges : String → String → Bool) (g : Grid) : Prop :=
  ∀ a b, (a = "20" ∨ ∃ r ∈ g, ∃ c ∈ r, a = c.g) → (b = "20" ∨ ∃ r ∈ g, ∃ c ∈ r, b = c.g) → merges a b = false

/-- `runFramesC` with the parser's clustering of consecutive text. -/
def runFramesM (merges : String → String → Bool) (cat : String → String → String) (dec : String → G) (cw : String → Nat) :
    HState → Emu → List FrameIn → M Emu
  | _, e, [] => .ok e
  | s, e, fi :: rest => do
    let e' ← runOps e (opsOfToksM merges cat dec cw (renderFrameC cw (mkFrame emuCaps s fi)).2)
    runFramesM merges cat dec cw (C01Clip.stepHC cw emuCaps s fi) e' rest

theorem frame_noMerge (merges : String → String → Bool) (cw : String → Nat) (s : HState) (fi : FrameIn)
    (h : NoMergeGrid merges fi.next) : NoMerge merges (renderFrameC cw (mkFrame emuCaps s fi)).2 := by
  have hS : ∀ k ∈ (renderFrameC cw (mkFrame emuCaps s fi)).2,
      TextIn (fun g => g = "20" ∨ ∃ r ∈ fi.next, ∃ c ∈ r, g = c.g) k := by
    rw [Lemmas.RenderClip.renderFrameC_eq]
    apply frame_textIn _ (Or.inl rfl)
    intro r hr c hc
    obtain ⟨l, hl, rfl⟩ := List.mem_map.mp hr
    obtain ⟨c0, h0, hc0⟩ := Lemmas.RenderClip.clipRow_mem cw l c hc
    rcases hc0 with h1 | h1
    · exact Or.inr ⟨l, hl, c0, h0, by rw [h1]⟩
    · exact Or.inl (by rw [h1])
  intro a b ha hb
  exact h a b (hS _ ha) (hS _ hb)

theorem runFramesM_eq (merges : String → String → Bool) (cat : String → String → String) (dec : String → G) (cw : String → Nat) :
    ∀ (fis : List FrameIn) (s : HState) (e : Emu), (∀ fi ∈ fis, NoMergeGrid merges fi.next) →
      runFramesM merges cat dec cw s e fis = runFramesC dec cw s e fis := by
  intro fis
  induction fis with
  | nil => intro s e _; rfl
  | cons a rest ih =>
    intro s e h
    simp only [runFramesM, runFramesC]
    rw [opsOfToksM_eq merges cat dec cw _ (frame_noMerge merges cw s a (h a (by simp)))]
    cases hr : runOps e (opsOfToks dec cw (renderFrameC cw (mkFrame emuCaps s a)).2) with
    | error p => rfl
    | ok e1 =>
      simp only [bind, Except.bind]
      exact ih _ e1 (fun fi hfi => h fi (by simp [hfi]))

/-- **C12, composition theorem with the parser's grapheme clustering**: as
    `emu_shows_application_now`, the emulator model being fed what its parser delivers when it
    re-segments consecutive text writes (`opsOfToksM`), for every history in which no two graphemes of
    a frame merge (`NoMergeGrid`, for whatever `merges` / `cat` the parser implements). -/
theorem emu_shows_application_clustered (merges : String → String → Bool) (cat : String → String → String)
    (dec : String → G) (cw : String → Nat) (hsp : cw "20" = 1) (hd : dec "20" = [32])
    (hemp : dec "" = []) (hlp : LpOk dec) (rows cols : Nat) (e0 : Emu) (h0 : DSim dec (startDisplay cols rows) e0 rows cols)
    (fi0 : FrameIn) (fis : List FrameIn) (hr0 : fi0.refresh = true)
    (hok : ∀ fi ∈ fi0 :: fis, C01Clip.FrameInOkC cw emuCaps rows cols fi ∧ EmuFrameOk dec cw fi ∧ NoMergeGrid merges fi.next)
    (fi : FrameIn) (hlast : (fi0 :: fis).getLast? = some fi) :
    ∃ e', runFramesM merges cat dec cw (startState cols rows) e0 (fi0 :: fis) = .ok e' ∧ ShowsC dec cw fi e' ∧
      Lemmas.Emu.EmuInv e' rows cols := by
  rw [runFramesM_eq merges cat dec cw _ _ _ (fun fi h => (hok fi h).2.2)]
  exact emu_shows_application_now dec cw hsp hd hemp hlp rows cols e0 h0 fi0 fis hr0
    (fun fi h => ⟨(hok fi h).1, (hok fi h).2.1⟩) fi hlast

end VaxisModel.Props.C12
