/-
C12 — the composition theorem for an application on ANY SCREEN of the emulator (alternate or PRIMARY),
across resizes, for ANY capability set the emulator implements — WITH OR WITHOUT STYLED UNDERLINES and
direct colour.

Round 3 (`Props/C12Resize`, `Props/C12Caps`) needs the application on the alternate screen (`mode.smcup`:
`resize()` leaves that screen blank, so the emulator after a resize is related to a BLANK display) and a
capability set without styled underlines. Two generalisations, one development:

* **Any screen.** On the primary screen `resize()` reflows the old content; what the emulator shows
  between the resize and the end of the next frame is that reflowed content and nothing is claimed about
  it. But Vaxis' first frame after a size change is a refresh, which writes every cell: the emulator is
  related to a display whose grid is UNKNOWN (`poisonGrid`: every cell `DCell.poison`, which constrains
  nothing — `GridRel` then only says the sizes agree), at rest, cursor where the reflow left it
  (`resizedDisplayP`); C01's `frame_step` for a refresh frame starts from any `Ready` terminal, an unknown
  grid included, and ends with the grid = the application's screen. So after the refresh frame — hence after
  every frame of every segment — the emulator shows the application's screen, whichever screen the
  application lives on; the screen selector (`mode.smcup`) is what it was.
* **Styled underlines** (`caps.styledUnderlines`): never detected inside the emulator (it answers neither
  XTGETTCAP `Smulx` nor DA3 `~VTE`) although `sgr.go` implements `4:n` (n ≤ 5), `58:5:i`, `58:2:r:g:b` and
  `59`. `CapsOkU` = no explicit width (the emulator ignores OSC 66: necessary) and no synchronized output;
  the cells' underline styles must be one of the six `UnderlineStyle` constants (`UlOk`; `4:n` with n > 5 is
  ignored by the emulator and shown as a single underline by the reference).
-/
import VaxisModel.Props.C12Caps
import VaxisModel.Props.C01Cluster
import VaxisModel.Lemmas.RenderSixel

namespace VaxisModel.Props.C12Any
open VaxisModel.Model.Render VaxisModel.Spec VaxisModel.Spec.Display VaxisModel.Lemmas.RenderGate
open VaxisModel.Model.Emu (Emu EOp G M runOps)
open VaxisModel.Model.C12Compose VaxisModel.Lemmas.C12Sim VaxisModel.Lemmas.C12Vocab VaxisModel.Lemmas.C12Resize
open VaxisModel.Lemmas.EmuRefine (EFrame)
open VaxisModel.Lemmas.RenderDisplay (WFRow)
open VaxisModel.Props.C01 (CursorAs Agree)
open VaxisModel.Props.C01Display (FrameIn HState mkFrame stepH FrameInOk Ready)
open VaxisModel.Props.C01Clip (FrameInOkC clipIn stepHC stepHC_eq clipIn_ok)
open VaxisModel.Props.C12 (Linked EmuFrameOk clipIn_emuOk emuCaps)
open VaxisModel.Props.C12Resize (LinkedR afterResize resize_facts Seg)
open VaxisModel.Props.C12Caps
open VaxisModel.Model.C12Read VaxisModel.Lemmas.C12Read
open VaxisModel.Props.C12Read (EncOk wantCursor)

/-- What the composition needs of the capability set: no explicit width (the emulator ignores OSC 66,
    so a glyph written that way is not shown at all), no synchronized output. Direct colour and styled
    underlines: either way. -/
class CapsOkU (caps : Caps) : Prop where
  ew : caps.explicitWidth = false
  sy : caps.sync = false

instance (caps : Caps) [h : CapsOk caps] : CapsOkU caps := ⟨h.ew, h.sy⟩

/-- With styled underlines, every cell's underline style is one of `UnderlineOff … UnderlineDashed`. -/
def UlOk (caps : Caps) (fi : FrameIn) : Prop :=
  caps.styledUnderlines = true → ∀ r ∈ fi.next, ∀ c ∈ r, c.style.ulStyle ≤ 5

theorem ulOk_of_noSu (caps : Caps) (h : caps.styledUnderlines = false) (fi : FrameIn) : UlOk caps fi :=
  fun hs => by rw [h] at hs; cases hs

theorem clipIn_ulOk (caps : Caps) (cw : String → Nat) (fi : FrameIn) (h : UlOk caps fi) : UlOk caps (clipIn cw fi) := by
  intro hs r hr c hc
  obtain ⟨l, hl, rfl⟩ := List.mem_map.mp hr
  obtain ⟨c0, h0, hc0⟩ := Lemmas.RenderClip.clipRow_mem cw l c hc
  have hk := h hs l hl c0 h0
  rcases hc0 with rfl | rfl
  · exact hk
  · exact hk

variable {caps : Caps} [CapsOkU caps]

/-! ### one frame -/

theorem frame_shows_gen (dec : String → G) (cw : String → Nat) (hsp : cw "20" = 1) (hd : dec "20" = [32]) (hemp : dec "" = []) (hlp : LpOk dec)
    (rows cols : Nat) (s : HState) (e : Emu) (fi : FrameIn) (hready : Ready s.t s.last rows cols)
    (hsim : DSim dec s.t e rows cols)
    (hag : fi.refresh = false → Agree cw caps s.t s.last)
    (hok : FrameInOk cw caps rows cols fi) (hok2 : EmuFrameOk dec cw fi) (hul : UlOk caps fi)
    (hcur : CursorAs (stepH cw caps s fi).t fi.cursor) :
    ∃ e', runOps e (opsOfToks dec cw (renderFrame cw (mkFrame caps s fi)).2) = .ok e' ∧
      Linked dec cw (stepH cw caps s fi) e' rows cols ∧
      Agree cw caps (stepH cw caps s fi).t (stepH cw caps s fi).last ∧
      ShowsK caps dec cw fi e' ∧ EFrame e e' ∧
      (stepH cw caps s fi).t.grid = Expected.expected cw caps fi.next := by
  obtain ⟨r1, a1, g1, b1⟩ := C01Display.frame_step cw caps hsp rows cols s fi hready hag hok
  have h59 : 59 ∉ dec "" := by rw [hemp]; simp
  have hvoc := frame_ok_anyCaps dec cw (mkFrame caps s fi) hul (CapsOkU.ew (caps := caps)) (CapsOkU.sy (caps := caps))
    hsp (by rw [hd]; simp) h59 hlp hok2.1 hok2.2
  obtain ⟨e', hr, hs', hf⟩ := run_sim_frame cw _ s.t e hsim b1 hvoc
  refine ⟨e', hr, ⟨r1, hcur, hs'⟩, a1, ⟨?_, ?_⟩, hf, g1⟩
  · have := hs'.grid
    rw [show (run cw s.t (renderFrame cw (mkFrame caps s fi)).2).grid = Expected.expected cw caps fi.next from g1] at this
    exact this
  · have hc := hcur
    unfold CursorAs at hc
    split
    · rename_i hv
      simp only [hv, if_true] at hc
      obtain ⟨c1, c2, c3, c4, c5⟩ := hc
      have hvis := hs'.vis; have hrow := hs'.row; have hcol := hs'.col; have hpw := hs'.pw; have hsh := hs'.shape
      change (stepH cw caps s fi).t.cursorVisible = e'.mode.dectcem at hvis
      change ((stepH cw caps s fi).t.row : Int) = e'.cur.row at hrow
      change ((stepH cw caps s fi).t.col : Int) = _ at hcol
      change (stepH cw caps s fi).t.pw = _ at hpw
      change ((stepH cw caps s fi).t.cursorShape : Int) = e'.cur.shape at hsh
      rw [c4] at hpw
      have hnp : ¬ (e'.cur.col ≥ (cols : Int)) := by intro h; simp [h] at hpw
      rw [if_neg hnp] at hcol
      refine ⟨by rw [← hvis]; exact c1, by omega, by omega, by rw [← hsh, c5]⟩
    · rename_i hv
      simp only [hv] at hc
      have hvis := hs'.vis
      change (stepH cw caps s fi).t.cursorVisible = e'.mode.dectcem at hvis
      rw [← hvis]; exact hc

theorem frame_shows_genC (dec : String → G) (cw : String → Nat) (hsp : cw "20" = 1) (hd : dec "20" = [32]) (hemp : dec "" = []) (hlp : LpOk dec)
    (rows cols : Nat) (s : HState) (e : Emu) (fi : FrameIn) (hready : Ready s.t s.last rows cols)
    (hsim : DSim dec s.t e rows cols)
    (hag : fi.refresh = false → Agree cw caps s.t s.last)
    (hok : FrameInOkC cw caps rows cols fi) (hok2 : EmuFrameOk dec cw fi) (hul : UlOk caps fi)
    (hcur : CursorAs (stepHC cw caps s fi).t fi.cursor) :
    ∃ e', runOps e (opsOfToks dec cw (renderFrameC cw (mkFrame caps s fi)).2) = .ok e' ∧
      Linked dec cw (stepHC cw caps s fi) e' rows cols ∧
      Agree cw caps (stepHC cw caps s fi).t (stepHC cw caps s fi).last ∧
      ShowsCK caps dec cw fi e' ∧ EFrame e e' ∧
      (stepHC cw caps s fi).t.grid = Expected.expectedC cw caps fi.next := by
  have htoks : (renderFrameC cw (mkFrame caps s fi)).2 = (renderFrame cw (mkFrame caps s (clipIn cw fi))).2 := by
    rw [Lemmas.RenderClip.renderFrameC_eq]; rfl
  rw [htoks, stepHC_eq]
  rw [stepHC_eq] at hcur
  obtain ⟨e', hr, hl, ag, sh, hf, hg⟩ := frame_shows_gen dec cw hsp hd hemp hlp rows cols s e (clipIn cw fi) hready hsim hag
    (clipIn_ok cw caps hsp rows cols fi hok) (clipIn_emuOk dec cw hsp hd fi hok2) (clipIn_ulOk caps cw fi hul) hcur
  refine ⟨e', hr, hl, ag, ?_, hf, ?_⟩
  · unfold ShowsCK
    unfold ShowsK at sh
    rw [Lemmas.RenderClip.expectedC_eq]
    exact ⟨sh.1, sh.2⟩
  · rw [Lemmas.RenderClip.expectedC_eq]; exact hg

/-! ### the invariants: after a frame / after a resize, on whichever screen -/

/-- After a frame: linked and the display still shows the frame. -/
structure LinkedF (caps : Caps) (dec : String → G) (cw : String → Nat) (s : HState) (e : Emu) (rows cols : Nat) : Prop where
  linked : Linked dec cw s e rows cols
  agree : Agree cw caps s.t s.last

/-- After a resize (or at the start), before the refresh frame: the display is at rest, its grid and
    the cursor POSITION are not known, only the cursor's visibility. `LinkedR` without "on the alternate
    screen". -/
structure LinkedP (dec : String → G) (cw : String → Nat) (s : HState) (e : Emu) (rows cols : Nat) : Prop where
  ready : Ready s.t s.last rows cols
  vis : s.cursor.visible = false → s.t.cursorVisible = false
  sim : DSim dec s.t e rows cols

omit [CapsOkU caps] in
theorem LinkedF.toP {dec : String → G} {cw : String → Nat} {s : HState} {e : Emu} {rows cols : Nat}
    (hl : LinkedF caps dec cw s e rows cols) : LinkedP dec cw s e rows cols := by
  refine ⟨hl.linked.ready, ?_, hl.linked.sim⟩
  intro hv
  have hc := hl.linked.cursor
  unfold CursorAs at hc
  simpa [hv] using hc

theorem LinkedR.toP {dec : String → G} {cw : String → Nat} {s : HState} {e : Emu} {rows cols : Nat}
    (hl : LinkedR dec cw s e rows cols) : LinkedP dec cw s e rows cols := ⟨hl.ready, hl.vis, hl.sim⟩

/-- A frame from a linked state (any frame kind); the screen selector stays. -/
theorem frame_any (dec : String → G) (cw : String → Nat) (hsp : cw "20" = 1) (hd : dec "20" = [32]) (hemp : dec "" = []) (hlp : LpOk dec)
    (rows cols : Nat) (s : HState) (e : Emu) (fi : FrameIn) (hl : LinkedF caps dec cw s e rows cols)
    (hok : FrameInOkC cw caps rows cols fi) (hok2 : EmuFrameOk dec cw fi) (hul : UlOk caps fi) :
    ∃ e', runOps e (opsOfToks dec cw (renderFrameC cw (mkFrame caps s fi)).2) = .ok e' ∧
      LinkedF caps dec cw (stepHC cw caps s fi) e' rows cols ∧ ShowsCK caps dec cw fi e' ∧
      e'.mode.smcup = e.mode.smcup ∧ (stepHC cw caps s fi).t.grid = Expected.expectedC cw caps fi.next := by
  have hcur : CursorAs (stepHC cw caps s fi).t fi.cursor := by
    rw [stepHC_eq]
    refine C01.cursor_as_requested cw cw (mkFrame caps s (clipIn cw fi)) s.t ?_ hl.linked.cursor
    rw [hl.linked.ready.trows, hl.linked.ready.tcols]; exact hok.2.2.2
  obtain ⟨e', hr, l1, a1, sh, hf, hg⟩ := frame_shows_genC dec cw hsp hd hemp hlp rows cols s e fi hl.linked.ready hl.linked.sim
    (fun _ => hl.agree) hok hok2 hul hcur
  exact ⟨e', hr, ⟨l1, a1⟩, sh, hf.smcup, hg⟩

/-- The REFRESH frame after a resize: needs neither the previous cursor position nor anything about
    the grid. -/
theorem frame_after_resize_any (dec : String → G) (cw : String → Nat) (hsp : cw "20" = 1) (hd : dec "20" = [32]) (hemp : dec "" = []) (hlp : LpOk dec)
    (rows cols : Nat) (s : HState) (e : Emu) (fi : FrameIn) (hl : LinkedP dec cw s e rows cols)
    (hrf : fi.refresh = true)
    (hok : FrameInOkC cw caps rows cols fi) (hok2 : EmuFrameOk dec cw fi) (hul : UlOk caps fi) :
    ∃ e', runOps e (opsOfToks dec cw (renderFrameC cw (mkFrame caps s fi)).2) = .ok e' ∧
      LinkedF caps dec cw (stepHC cw caps s fi) e' rows cols ∧ ShowsCK caps dec cw fi e' ∧
      e'.mode.smcup = e.mode.smcup ∧ (stepHC cw caps s fi).t.grid = Expected.expectedC cw caps fi.next := by
  have hokc := clipIn_ok cw caps hsp rows cols fi hok
  have dm := hl.sim.dim
  obtain ⟨c, cs, ns, hn⟩ : ∃ c cs ns, (clipIn cw fi).next = (c :: cs) :: ns := by
    have h1 := hokc.1; have h2 := hokc.2.1
    cases hg : (clipIn cw fi).next with
    | nil => rw [hg] at h1; have := dm.r1; simp at h1; omega
    | cons r ns =>
      cases hr : r with
      | nil => have hlen := h2 r (by rw [hg]; simp); rw [hr] at hlen; have := dm.c1; simp at hlen; omega
      | cons c cs => exact ⟨c, cs, ns, rfl⟩
  obtain ⟨l0, ls0, ls, hlast⟩ : ∃ l0 ls0 ls, s.last = (l0 :: ls0) :: ls := by
    have h1 := hl.ready.llen; have h2 := hl.ready.lcols
    cases hg : s.last with
    | nil => rw [hg] at h1; have := dm.r1; simp at h1; omega
    | cons r ns =>
      cases hr : r with
      | nil => have hlen := h2 r (by rw [hg]; simp); rw [hr] at hlen; have := dm.c1; simp at hlen; omega
      | cons c cs => exact ⟨c, cs, ns, rfl⟩
  have hsx : c.sixel = false := (hokc.2.2.2.1 (c :: cs) (by rw [hn]; simp) c (by simp)).1
  have hne : (renderBody cw (mkFrame caps s (clipIn cw fi))).2 ≠ [] :=
    Lemmas.RenderCursor.renderBody_nonempty cw (mkFrame caps s (clipIn cw fi)) hrf c cs ns l0 ls0 ls hn hlast hsx
  have hcur : CursorAs (stepHC cw caps s fi).t fi.cursor := by
    rw [stepHC_eq]
    refine Lemmas.RenderCursor.cursor_nonempty cw cw (mkFrame caps s (clipIn cw fi)) s.t ?_ hne hl.vis
    rw [hl.ready.trows, hl.ready.tcols]; exact hok.2.2.2
  obtain ⟨e', hr, l1, a1, sh, hf, hg⟩ := frame_shows_genC dec cw hsp hd hemp hlp rows cols s e fi hl.ready hl.sim
    (fun h => by rw [hrf] at h; cases h) hok hok2 hul hcur
  exact ⟨e', hr, ⟨l1, a1⟩, sh, hf.smcup, hg⟩

/-! ### the resize, on whichever screen -/

/-- The display grid about which nothing is known. -/
def poisonGrid (cols rows : Nat) : List (List DCell) := List.replicate rows (List.replicate cols DCell.poison)

/-- The reference display after a resize of an emulator showing ANY screen: at rest, the cursor where
    `resize()` left it, visibility and shape as they are — and a grid about which nothing is claimed (on
    the primary screen: the reflowed old content). -/
def resizedDisplayP (cols rows : Nat) (e : Emu) : Term :=
  { resizedDisplay cols rows e with grid := poisonGrid cols rows }

def afterResizeP (cols rows : Nat) (e : Emu) (s : HState) : HState :=
  ⟨resizedDisplayP cols rows e, Model.Render.blankGrid cols rows, s.cursor, s.shape⟩

theorem wf_poison : ∀ (n : Nat), WFRow 0 (List.replicate n DCell.poison)
  | 0 => by simp [WFRow]
  | n + 1 => by simp only [List.replicate_succ, WFRow]; exact wf_poison n

theorem ready_resizedP (cols rows : Nat) (e : Emu) :
    Ready (resizedDisplayP cols rows e) (Model.Render.blankGrid cols rows) rows cols := by
  have hi := C01Display.init_ready cols rows
  refine ⟨hi.rest, hi.bad, hi.lp, hi.trows, hi.tcols, by simp [resizedDisplayP, poisonGrid], hi.llen, ?_, hi.lcols, ?_⟩
  · intro r hr
    simp only [resizedDisplayP, poisonGrid, List.mem_replicate] at hr
    rw [hr.2]; simp
  · intro r hr
    simp only [resizedDisplayP, poisonGrid, List.mem_replicate] at hr
    rw [hr.2]; exact wf_poison cols

theorem gridRel_poison {dec : String → G} (rows cols : Nat) (g : Model.Emu.Grid) (hg : Lemmas.Emu.GridOk g rows cols) :
    GridRel dec (poisonGrid cols rows) g := by
  have rep : ∀ {α : Type} (n : Nat) (x y : α) (k : Nat), (List.replicate n x)[k]? = some y → y = x := by
    intro α n x y k hk
    rw [List.getElem?_replicate] at hk
    split at hk
    · exact (Option.some.inj hk).symm
    · cases hk
  refine ⟨by simp [poisonGrid, hg.len], ?_⟩
  intro i a b ha hb
  rw [rep _ _ _ _ ha]
  refine ⟨by rw [hg.rowLen b (List.mem_of_getElem? hb)]; simp, ?_⟩
  intro j x y hx _
  rw [rep _ _ _ _ hx]
  trivial

/-- **Resize re-establishes a start state on whichever screen the application lives**: related to the
    display at rest with an UNKNOWN grid; modes (the screen selector included) as they were. -/
theorem dsim_after_resize_any {dec : String → G} {d : Term} {e : Emu} {rows cols : Nat}
    (s : DSim dec d e rows cols) (hpen : d.pen = TStyle.reset)
    (hlink : d.link = "") (hlp : d.linkParams = "")
    {e' : Emu} {w h : Int} (f : ResizeFacts e e' w h) :
    DSim dec (resizedDisplayP w.toNat h.toNat e') e' h.toNat w.toNat ∧ e'.mode.smcup = e.mode.smcup ∧
      e'.mode.dectcem = d.cursorVisible := by
  have hi := f.inv
  have := hi.rowLo; have := hi.colLo; have := hi.colHi
  have hcs : e'.cs = e.cs := f.cs s.vm.noShift
  refine ⟨?_, by rw [f.mode], by rw [f.mode]; exact s.vis.symm⟩
  exact
  { inv := hi
    dim := f.dim
    vm := ⟨by rw [f.mode]; exact s.vm.awm, by rw [f.mode]; exact s.vm.irm, by rw [f.mode]; exact s.vm.lnm,
           by rw [hcs]; exact s.vm.ascii, by rw [hcs]; exact s.vm.noShift⟩
    osc8 := by rw [f.osc8]; exact s.osc8
    lc := f.lc
    drows := rfl, dcols := rfl
    row := by show ((e'.cur.row.toNat : Nat) : Int) = e'.cur.row; omega
    col := by
      show (((if e'.cur.col ≥ (w.toNat : Int) then (w.toNat : Int) - 1 else e'.cur.col).toNat : Nat) : Int) = _
      have := f.dim.c1
      split <;> omega
    pw := rfl
    pen := by
      show TStyle.reset = Model.EmuAbs.absStyle e'.cur.st
      rw [f.pen, ← s.pen, hpen]
    link := by
      show dec "" = e'.cur.st.link
      rw [f.pen, ← s.link, hlink]
    linkParams := by
      show dec "" = e'.cur.st.linkParams
      rw [f.pen, ← s.linkParams, hlp]
    vis := rfl
    shape := by
      show ((e'.cur.shape.toNat : Nat) : Int) = e'.cur.shape
      have h1 := s.shape
      rw [f.shape]
      omega
    grid := gridRel_poison h.toNat w.toNat e'.active (Lemmas.Emu.active_ok hi) }

/-- **The host resizes the emulator** (any size 1×1 … 65535²) under an application whose last flush is
    complete, on the alternate OR the primary screen: no panic, linked-after-resize at the new size, the
    screen selector unchanged. -/
theorem resize_linked_any (dec : String → G) (cw : String → Nat) (rows cols : Nat) (s : HState) (e : Emu)
    (hl : LinkedP dec cw s e rows cols) (w h : Nat) (hw1 : 1 ≤ w) (hw2 : w ≤ 65535) (hh1 : 1 ≤ h) (hh2 : h ≤ 65535) :
    ∃ e', runOps e [.resize w h] = .ok e' ∧ LinkedP dec cw (afterResizeP w h e' s) e' h w ∧
      e'.mode.smcup = e.mode.smcup := by
  have hsim := hl.sim
  obtain ⟨e', hr, _⟩ := Lemmas.Emu.resize_safe hsim.inv hsim.dim (w : Int) (h : Int) (by omega) (by omega) (by omega) (by omega)
  have f := resize_facts hsim.inv hsim.dim (w : Int) (h : Int) (by omega) (by omega) (by omega) (by omega) hr
  have hrest := hl.ready.rest
  obtain ⟨s1, s2, s3⟩ := dsim_after_resize_any hsim hrest.1 hrest.2.1 hl.ready.lp f
  simp only [Int.toNat_natCast] at s1
  refine ⟨e', ?_, ⟨ready_resizedP w h e', ?_, s1⟩, s2⟩
  · have : Model.Emu.emuStep e (.resize w h) = .ok (e', 0) := by
      show (Model.Emu.resize Model.Emu.Fixes.current e w h >>= fun x => (Except.ok (x, 0) : M (Emu × Nat))) = _
      rw [hr]; rfl
    exact runOps_single this
  · intro hv
    show e'.mode.dectcem = false
    rw [s3]
    exact hl.vis hv

/-! ### the run only looks at the renderer's memory, not at the reference display -/

/-- Two history states with the same renderer memory (`last` buffer, cursor and pointer-shape memory). -/
def MemEq (s s' : HState) : Prop := s.last = s'.last ∧ s.cursor = s'.cursor ∧ s.shape = s'.shape

omit [CapsOkU caps] in
theorem mkFrame_memEq {s s' : HState} (h : MemEq s s') (fi : FrameIn) : mkFrame caps s fi = mkFrame caps s' fi := by
  obtain ⟨h1, h2, h3⟩ := h
  simp only [mkFrame, h1, h2, h3]

omit [CapsOkU caps] in
theorem stepHC_memEq (cw : String → Nat) {s s' : HState} (h : MemEq s s') (fi : FrameIn) :
    MemEq (stepHC cw caps s fi) (stepHC cw caps s' fi) := by
  simp only [MemEq, stepHC, mkFrame_memEq (caps := caps) h fi, and_self]

omit [CapsOkU caps] in
theorem foldl_memEq (cw : String → Nat) : ∀ (fis : List FrameIn) {s s' : HState}, MemEq s s' →
    MemEq (fis.foldl (stepHC cw caps) s) (fis.foldl (stepHC cw caps) s')
  | [], _, _, h => h
  | fi :: rest, _, _, h => foldl_memEq cw rest (stepHC_memEq cw h fi)

omit [CapsOkU caps] in
theorem runFramesCK_memEq (dec : String → G) (cw : String → Nat) : ∀ (fis : List FrameIn) {s s' : HState} (e : Emu),
    MemEq s s' → runFramesCK caps dec cw s e fis = runFramesCK caps dec cw s' e fis
  | [], _, _, _, _ => rfl
  | fi :: rest, s, s', e, h => by
    simp only [runFramesCK, mkFrame_memEq (caps := caps) h fi]
    cases hr : runOps e (opsOfToks dec cw (renderFrameC cw (mkFrame caps s' fi)).2) with
    | error p => rfl
    | ok e1 =>
      simp only [bind, Except.bind]
      exact runFramesCK_memEq dec cw rest e1 (stepHC_memEq cw h fi)

/-! ### histories of segments -/

/-- `C12Caps.SegOk` plus the underline styles. -/
def SegOkU (caps : Caps) (dec : String → G) (cw : String → Nat) (sg : Seg) : Prop :=
  SegOk caps dec cw sg ∧ ∀ fi ∈ sg.frames, UlOk caps fi

omit [CapsOkU caps] in
theorem segOkU_of_noSu (h : caps.styledUnderlines = false) (dec : String → G) (cw : String → Nat) (sg : Seg)
    (hs : SegOk caps dec cw sg) : SegOkU caps dec cw sg := ⟨hs, fun fi _ => ulOk_of_noSu caps h fi⟩

theorem frames_any (dec : String → G) (cw : String → Nat) (hsp : cw "20" = 1) (hd : dec "20" = [32]) (hemp : dec "" = []) (hlp : LpOk dec)
    (rows cols : Nat) :
    ∀ (fis : List FrameIn) (s : HState) (e : Emu), LinkedF caps dec cw s e rows cols →
      (∀ fi ∈ fis, (FrameInOkC cw caps rows cols fi ∧ EmuFrameOk dec cw fi) ∧ UlOk caps fi) →
      ∃ e', runFramesCK caps dec cw s e fis = .ok e' ∧ LinkedF caps dec cw (fis.foldl (stepHC cw caps) s) e' rows cols ∧
        e'.mode.smcup = e.mode.smcup ∧
        ∀ fi, fis.getLast? = some fi → ShowsCK caps dec cw fi e' ∧
          (fis.foldl (stepHC cw caps) s).t.grid = Expected.expectedC cw caps fi.next := by
  intro fis
  induction fis with
  | nil => intro s e hl _; exact ⟨e, rfl, hl, rfl, fun fi h => by simp at h⟩
  | cons a rest ih =>
    intro s e hl hok
    obtain ⟨e1, hr1, hl1, sh1, m1, g1⟩ := frame_any dec cw hsp hd hemp hlp rows cols s e a hl (hok a (by simp)).1.1 (hok a (by simp)).1.2
      (hok a (by simp)).2
    obtain ⟨e2, hr2, hl2, m2, sh2⟩ := ih (stepHC cw caps s a) e1 hl1 (fun fi h => hok fi (by simp [h]))
    refine ⟨e2, by simp only [runFramesCK, hr1, bind, Except.bind]; exact hr2, hl2, by rw [m2, m1], ?_⟩
    intro fi hlast
    cases rest with
    | nil =>
      simp only [List.getLast?_singleton, Option.some.injEq] at hlast
      subst hlast
      simp only [runFramesCK] at hr2
      cases hr2
      exact ⟨sh1, g1⟩
    | cons b rest' =>
      rw [List.getLast?_cons_cons] at hlast
      exact sh2 fi hlast

/-- One segment; `s` is the bookkeeping state of the run (`C12Caps.runSegs`), `s'` the one of the proof
    (the same renderer memory, the display with the unknown grid). -/
theorem seg_any (dec : String → G) (cw : String → Nat) (hsp : cw "20" = 1) (hd : dec "20" = [32]) (hemp : dec "" = []) (hlp : LpOk dec)
    (rows cols : Nat) (s s' : HState) (e : Emu) (hm : MemEq s s') (hl : LinkedP dec cw s' e rows cols) (sg : Seg)
    (hsg : SegOkU caps dec cw sg) :
    ∃ e1 e2 s2', runOps e [.resize sg.cols sg.rows] = .ok e1 ∧
      runFramesCK caps dec cw (afterResize sg.cols sg.rows e1 s) e1 sg.frames = .ok e2 ∧
      MemEq (sg.frames.foldl (stepHC cw caps) (afterResize sg.cols sg.rows e1 s)) s2' ∧
      LinkedP dec cw s2' e2 sg.rows sg.cols ∧ e2.mode.smcup = e.mode.smcup ∧
      ∀ fi, sg.frames.getLast? = some fi → ShowsCK caps dec cw fi e2 := by
  obtain ⟨⟨⟨hw1, hw2, hh1, hh2⟩, hhead, hfr⟩, hul⟩ := hsg
  obtain ⟨e1, hr1, lr, m1⟩ := resize_linked_any dec cw rows cols s' e hl sg.cols sg.rows hw1 hw2 hh1 hh2
  have hm1 : MemEq (afterResize sg.cols sg.rows e1 s) (afterResizeP sg.cols sg.rows e1 s') := ⟨rfl, hm.2.1, hm.2.2⟩
  refine ⟨e1, ?_⟩
  rw [runFramesCK_memEq (caps := caps) dec cw sg.frames e1 hm1]
  cases hf : sg.frames with
  | nil =>
    exact ⟨e1, _, hr1, rfl, hm1, lr, m1, fun fi h => by simp at h⟩
  | cons a rest =>
    have ha : a.refresh = true := hhead a (by rw [hf]; rfl)
    have hoka := hfr a (by rw [hf]; simp)
    obtain ⟨e2, hr2, hl2, sh2, m2, _⟩ := frame_after_resize_any dec cw hsp hd hemp hlp sg.rows sg.cols _ e1 a lr ha hoka.1 hoka.2
      (hul a (by rw [hf]; simp))
    obtain ⟨e3, hr3, hl3, m3, sh3⟩ := frames_any dec cw hsp hd hemp hlp sg.rows sg.cols rest _ e2 hl2
      (fun fi h => ⟨hfr fi (by rw [hf]; simp [h]), hul fi (by rw [hf]; simp [h])⟩)
    refine ⟨e3, _, hr1, by simp only [runFramesCK, hr2, bind, Except.bind]; exact hr3, ?_, hl3.toP, by rw [m3, m2, m1], ?_⟩
    · exact foldl_memEq cw (a :: rest) hm1
    · intro fi hlast
      cases rest with
      | nil =>
        simp only [List.getLast?_singleton, Option.some.injEq] at hlast
        subst hlast
        simp only [runFramesCK] at hr3
        cases hr3
        exact sh2
      | cons b rest' =>
        rw [List.getLast?_cons_cons] at hlast
        exact (sh3 fi hlast).1

theorem shows_across_resizes_aux (dec : String → G) (cw : String → Nat) (hsp : cw "20" = 1) (hd : dec "20" = [32])
    (hemp : dec "" = []) (hlp : LpOk dec) :
    ∀ (segs : List Seg) (rows cols : Nat) (s s' : HState) (e : Emu), MemEq s s' → LinkedP dec cw s' e rows cols →
      (∀ sg ∈ segs, SegOkU caps dec cw sg) →
      ∃ e', runSegs caps dec cw s e segs = .ok e' ∧ e'.mode.smcup = e.mode.smcup ∧
        ∀ sg, segs.getLast? = some sg → Lemmas.Emu.EmuInv e' sg.rows sg.cols ∧
          ∀ fi, sg.frames.getLast? = some fi → ShowsCK caps dec cw fi e' := by
  intro segs
  induction segs with
  | nil => intro rows cols s s' e _ _ _; exact ⟨e, rfl, rfl, fun sg h => by simp at h⟩
  | cons sg rest ih =>
    intro rows cols s s' e hm hl hok
    obtain ⟨e1, e2, s2', hr1, hr2, hm2, lr, m2, sh⟩ := seg_any dec cw hsp hd hemp hlp rows cols s s' e hm hl sg (hok sg (by simp))
    obtain ⟨e3, hr3, m3, h3⟩ := ih sg.rows sg.cols _ s2' e2 hm2 lr (fun x hx => hok x (by simp [hx]))
    refine ⟨e3, by simp only [runSegs, hr1, hr2, bind, Except.bind]; exact hr3, by rw [m3, m2], ?_⟩
    intro sg' hlast
    cases rest with
    | nil =>
      simp only [List.getLast?_singleton, Option.some.injEq] at hlast
      subst hlast
      simp only [runSegs] at hr3
      cases hr3
      exact ⟨lr.sim.inv, sh⟩
    | cons b rest' =>
      rw [List.getLast?_cons_cons] at hlast
      exact h3 sg' hlast

/-! ### what a history re-establishes -/

/-- The renderer's memory after a history (the reference display component is irrelevant: `MemEq`). -/
def segsMem (caps : Caps) (cw : String → Nat) : HState → List Seg → HState
  | s, [] => s
  | s, sg :: rest =>
    segsMem caps cw (sg.frames.foldl (stepHC cw caps) ⟨s.t, Model.Render.blankGrid sg.cols sg.rows, s.cursor, s.shape⟩) rest

omit [CapsOkU caps] in
theorem segsMem_memEq (cw : String → Nat) : ∀ (segs : List Seg) {a b : HState}, MemEq a b →
    MemEq (segsMem caps cw a segs) (segsMem caps cw b segs)
  | [], _, _, h => h
  | sg :: rest, a, b, h => by
    simp only [segsMem]
    exact segsMem_memEq cw rest (foldl_memEq cw sg.frames ⟨rfl, h.2.1, h.2.2⟩)

/-- **Every history re-establishes the start state of the composition** (`LinkedP`, at the size of the
    last segment — the initial size if there is none), with the renderer's memory that of the run: so
    `C12Bridge.emu_and_term_show` (the reference-terminal clause) and every other per-size theorem apply
    after any history with resizes. -/
theorem history_relinks (dec : String → G) (cw : String → Nat) (hsp : cw "20" = 1) (hd : dec "20" = [32])
    (hemp : dec "" = []) (hlp : LpOk dec) :
    ∀ (segs : List Seg) (rows cols : Nat) (s s' : HState) (e : Emu), MemEq s s' → LinkedP dec cw s' e rows cols →
      (∀ sg ∈ segs, SegOkU caps dec cw sg) →
      ∃ e' s2', runSegs caps dec cw s e segs = .ok e' ∧ MemEq (segsMem caps cw s segs) s2' ∧
        LinkedP dec cw s2' e' ((segs.getLast?.map (·.rows)).getD rows) ((segs.getLast?.map (·.cols)).getD cols) := by
  intro segs
  induction segs with
  | nil => intro rows cols s s' e hm hl _; exact ⟨e, s', rfl, hm, hl⟩
  | cons sg rest ih =>
    intro rows cols s s' e hm hl hok
    obtain ⟨e1, e2, s2', hr1, hr2, hm2, lr, _, _⟩ := seg_any dec cw hsp hd hemp hlp rows cols s s' e hm hl sg (hok sg (by simp))
    obtain ⟨e3, s3', hr3, hm3, lr3⟩ := ih sg.rows sg.cols _ s2' e2 hm2 lr (fun x hx => hok x (by simp [hx]))
    refine ⟨e3, s3', by simp only [runSegs, hr1, hr2, bind, Except.bind]; exact hr3, ?_, ?_⟩
    · simp only [segsMem]
      have h1 : MemEq (sg.frames.foldl (stepHC cw caps) ⟨s.t, Model.Render.blankGrid sg.cols sg.rows, s.cursor, s.shape⟩)
          (sg.frames.foldl (stepHC cw caps) (afterResize sg.cols sg.rows e1 s)) :=
        foldl_memEq cw sg.frames ⟨rfl, rfl, rfl⟩
      have h2 := segsMem_memEq (caps := caps) cw rest h1
      exact ⟨h2.1.trans hm3.1, h2.2.1.trans hm3.2.1, h2.2.2.trans hm3.2.2⟩
    · cases rest with
      | nil => simpa using lr3
      | cons b rest' =>
        have hx : (sg :: b :: rest').getLast? = (b :: rest').getLast? := List.getLast?_cons_cons
        rw [hx]
        cases hg : (b :: rest').getLast? with
        | none => simp at hg
        | some x => rw [hg] at lr3; simpa using lr3

/-- **C12, the composition theorem for whole histories including resizes, on ANY screen, with or without
    styled underlines and direct colour.** From any state of an application whose last flush is complete
    (`LinkedP`: C01's `Ready`, `DSim`, the cursor's visibility as remembered — on the alternate screen
    what the real start-up establishes; Vaxis itself always enters the alternate screen, so the primary-screen
    case is a generalisation — an emulator switched back by other means while the application keeps
    rendering), for every list of admissible segments
    — a resize of the emulator to any size 1×1 … 65535² (on the primary screen: with reflow of whatever
    it shows) followed by any number of admissible frames at that size, the first a refresh — rendered
    under any capability set without explicit width and synchronized output (`CapsOkU`; with styled
    underlines the cells' underline styles are ≤ 5): the emulator model fed `resize` and, frame after
    frame, the parsed sequences of what the renderer model writes (`C12Caps.runSegs`, the same run as in
    round 3) never panics, stays on the screen it is on, and after the last frame of the last segment —
    hence after EVERY frame of every segment — its grid shows the application's screen cell for cell
    (underline style and colour included) and its cursor is as requested, at the size of that segment.
    Between a resize and the end of the refresh frame nothing is claimed (the primary screen then shows
    the reflowed old content). -/
theorem emu_shows_across_resizes_any (dec : String → G) (cw : String → Nat) (hsp : cw "20" = 1) (hd : dec "20" = [32])
    (hemp : dec "" = []) (hlp : LpOk dec) (segs : List Seg) (rows cols : Nat) (s : HState) (e : Emu) (hl : LinkedP dec cw s e rows cols)
    (hok : ∀ sg ∈ segs, SegOkU caps dec cw sg) :
    ∃ e', runSegs caps dec cw s e segs = .ok e' ∧ e'.mode.smcup = e.mode.smcup ∧
      ∀ sg, segs.getLast? = some sg → Lemmas.Emu.EmuInv e' sg.rows sg.cols ∧
        ∀ fi, sg.frames.getLast? = some fi → ShowsCK caps dec cw fi e' :=
  shows_across_resizes_aux dec cw hsp hd hemp hlp segs rows cols s s e ⟨rfl, rfl, rfl⟩ hl hok

/-- The same through the wire with the parser's grapheme clustering (`C12Caps.runSegsM`), for histories
    in which no two graphemes of a frame merge (`NoMergeGrid`; necessary: F112d). -/
theorem emu_shows_across_resizes_any_clustered (merges : String → String → Bool) (cat : String → String → String)
    (dec : String → G) (cw : String → Nat) (hsp : cw "20" = 1) (hd : dec "20" = [32]) (hemp : dec "" = []) (hlp : LpOk dec)
    (segs : List Seg) (rows cols : Nat) (s : HState) (e : Emu) (hl : LinkedP dec cw s e rows cols)
    (hok : ∀ sg ∈ segs, SegOkU caps dec cw sg) (hnm : ∀ sg ∈ segs, ∀ fi ∈ sg.frames, C12.NoMergeGrid merges fi.next) :
    ∃ e', runSegsM caps merges cat dec cw s e segs = .ok e' ∧ e'.mode.smcup = e.mode.smcup ∧
      ∀ sg, segs.getLast? = some sg → Lemmas.Emu.EmuInv e' sg.rows sg.cols ∧
        ∀ fi, sg.frames.getLast? = some fi → ShowsCK caps dec cw fi e' := by
  rw [runSegsM_eq merges cat dec cw segs s e hnm]
  exact emu_shows_across_resizes_any dec cw hsp hd hemp hlp segs rows cols s e hl hok

/-! ### clustering, the tight hypothesis: only horizontally NEIGHBOURING shown cells must not join -/

omit [CapsOkU caps] in
/-- One frame: under C01's tight hypothesis no text write of the frame directly follows one it merges
    with, so the parser's re-segmentation changes nothing. -/
theorem frame_adj_eq (merges : String → String → Bool) (cat : String → String → String) (dec : String → G)
    (cw : String → Nat) (s : HState) (fi : FrameIn) (hsx : ∀ r ∈ fi.next, ∀ c ∈ r, c.sixel = false)
    (h : C01Cluster.NoJoinNeighbours merges cw caps fi.next) :
    opsOfToksM merges cat dec cw (renderFrameC cw (mkFrame caps s fi)).2 =
      opsOfToks dec cw (renderFrameC cw (mkFrame caps s fi)).2 := by
  apply Lemmas.C12Cluster.opsOfToksM_eq_adj
  have := C01Cluster.render_no_adjacent_join_tight merges cw (mkFrame caps s fi) h
  rwa [Lemmas.RenderSixel.renderFrameS_eq cw (mkFrame caps s fi) hsx] at this

omit [CapsOkU caps] in
theorem runFramesMK_eq_adj (merges : String → String → Bool) (cat : String → String → String) (dec : String → G) (cw : String → Nat) :
    ∀ (fis : List FrameIn) (s : HState) (e : Emu),
      (∀ fi ∈ fis, (∀ r ∈ fi.next, ∀ c ∈ r, c.sixel = false) ∧ C01Cluster.NoJoinNeighbours merges cw caps fi.next) →
      runFramesMK caps merges cat dec cw s e fis = runFramesCK caps dec cw s e fis := by
  intro fis
  induction fis with
  | nil => intro s e _; rfl
  | cons a rest ih =>
    intro s e h
    simp only [runFramesMK, runFramesCK]
    rw [frame_adj_eq merges cat dec cw s a (h a (by simp)).1 (h a (by simp)).2]
    cases hr : runOps e (opsOfToks dec cw (renderFrameC cw (mkFrame caps s a)).2) with
    | error p => rfl
    | ok e1 =>
      simp only [bind, Except.bind]
      exact ih _ e1 (fun fi hfi => h fi (by simp [hfi]))

omit [CapsOkU caps] in
theorem runSegsM_eq_adj (merges : String → String → Bool) (cat : String → String → String) (dec : String → G) (cw : String → Nat) :
    ∀ (segs : List Seg) (s : HState) (e : Emu),
      (∀ sg ∈ segs, ∀ fi ∈ sg.frames, (∀ r ∈ fi.next, ∀ c ∈ r, c.sixel = false) ∧ C01Cluster.NoJoinNeighbours merges cw caps fi.next) →
      runSegsM caps merges cat dec cw s e segs = runSegs caps dec cw s e segs := by
  intro segs
  induction segs with
  | nil => intro s e _; rfl
  | cons sg rest ih =>
    intro s e h
    simp only [runSegsM, runSegs]
    cases h1 : runOps e [.resize sg.cols sg.rows] with
    | error p => rfl
    | ok e1 =>
      simp only [bind, Except.bind]
      rw [runFramesMK_eq_adj merges cat dec cw sg.frames _ e1 (h sg (by simp))]
      cases h2 : runFramesCK caps dec cw (afterResize sg.cols sg.rows e1 s) e1 sg.frames with
      | error p => rfl
      | ok e2 => simp only; exact ih _ e2 (fun x hx => h x (by simp [hx]))

/-- **The composition theorem through the clustering wire under the TIGHT hypothesis** — exactly the
    situation of F112d and nothing more: no two horizontally neighbouring SHOWN cells of a row of a frame
    join when written back to back (C01's `NoJoinNeighbours`: a cell under a wide glyph is not shown; cells
    of different rows, or cells separated by a cell that is skipped — which forces a CUP — never meet on
    the wire: `Props.C01Cluster.render_no_adjacent_join_tight`). Round 3's `NoMergeGrid` asked it of ANY
    two graphemes of the frame, blank included. -/
theorem emu_shows_across_resizes_any_clustered_tight (merges : String → String → Bool) (cat : String → String → String)
    (dec : String → G) (cw : String → Nat) (hsp : cw "20" = 1) (hd : dec "20" = [32]) (hemp : dec "" = []) (hlp : LpOk dec)
    (segs : List Seg) (rows cols : Nat) (s : HState) (e : Emu) (hl : LinkedP dec cw s e rows cols)
    (hok : ∀ sg ∈ segs, SegOkU caps dec cw sg)
    (hnm : ∀ sg ∈ segs, ∀ fi ∈ sg.frames, C01Cluster.NoJoinNeighbours merges cw caps fi.next) :
    ∃ e', runSegsM caps merges cat dec cw s e segs = .ok e' ∧ e'.mode.smcup = e.mode.smcup ∧
      ∀ sg, segs.getLast? = some sg → Lemmas.Emu.EmuInv e' sg.rows sg.cols ∧
        ∀ fi, sg.frames.getLast? = some fi → ShowsCK caps dec cw fi e' := by
  rw [runSegsM_eq_adj merges cat dec cw segs s e (fun sg hsg fi hfi =>
    ⟨fun r hr c hc => (((hok sg hsg).1.2.2 fi hfi).1.2.2.1 r hr c hc).1, hnm sg hsg fi hfi⟩)]
  exact emu_shows_across_resizes_any dec cw hsp hd hemp hlp segs rows cols s e hl hok

/-- **In equational form**: the grid read back IS the application's screen, the cursor read back IS
    the requested cursor. -/
theorem emu_reads_back_across_resizes_any (enc : G → String) (dec : String → G) (cw : String → Nat) (hsp : cw "20" = 1)
    (hd : dec "20" = [32]) (hemp : dec "" = []) (hlp : LpOk dec) (segs : List Seg) (rows cols : Nat) (s : HState) (e : Emu)
    (hl : LinkedP dec cw s e rows cols) (hok : ∀ sg ∈ segs, SegOkU caps dec cw sg)
    (sg : Seg) (fi : FrameIn) (hsg : segs.getLast? = some sg) (hfi : sg.frames.getLast? = some fi)
    (he : EncOk enc dec fi) :
    ∃ e', runSegs caps dec cw s e segs = .ok e' ∧
      readScreen enc e'.active = Expected.expectedC cw caps fi.next ∧ readCursor e' = wantCursor fi := by
  obtain ⟨e', hr, _, h⟩ := emu_shows_across_resizes_any dec cw hsp hd hemp hlp segs rows cols s e hl hok
  exact ⟨e', hr, shows_reads_back enc dec cw fi e' ((h sg hsg).2 fi hfi) he⟩

open VaxisModel.Model.EmuDraw VaxisModel.Lemmas.C12Draw VaxisModel.Lemmas.EmuDraw in
/-- **The Draw clause** after any such history: `Draw` into a host window of the last segment's size
    does not resize, makes exactly one `SetCell` per glyph cell of the application's screen, each carrying
    a cell that shows it at the same coordinates, and shows the application's cursor. -/
theorem emu_draw_across_resizes_any (dec : String → G) (cw : String → Nat) (hsp : cw "20" = 1) (hd : dec "20" = [32])
    (hemp : dec "" = []) (hlp : LpOk dec) (segs : List Seg) (rows cols : Nat) (s : HState) (e : Emu)
    (hl : LinkedP dec cw s e rows cols) (hok : ∀ sg ∈ segs, SegOkU caps dec cw sg)
    (sg : Seg) (fi : FrameIn) (hsg : segs.getLast? = some sg) (hfi : sg.frames.getLast? = some fi) (focused : Bool) :
    ∃ (e' : Emu) (per : List (List DrawCall)), runSegs caps dec cw s e segs = .ok e' ∧
      draw true Model.Emu.Fixes.current e' sg.cols sg.rows focused =
        .ok ({ e' with hasVx := true }, per.flatten, shownCursor true e' focused) ∧
      per.length = sg.rows ∧
      (∀ (k : Nat) (l : List DrawCall), per[k]? = some l →
        ∃ drow, (Expected.expectedC cw caps fi.next)[k]? = some drow ∧
          (∀ call ∈ l, ∃ (j : Nat) (d : DCell), call.col = (j : Int) ∧ call.row = (k : Int) ∧ drow[j]? = some d ∧
            d ≠ .cont ∧ HostRel dec d call.cell ∧
            setCellChain sg.cols sg.rows [Win.root sg.cols sg.rows] call.col call.row = some ((j : Int), (k : Int))) ∧
          (∀ (j : Nat) (d : DCell), drow[j]? = some d → d ≠ .cont → ∃ call ∈ l, call.col = (j : Int))) ∧
      shownCursor true e' true = (if fi.cursor.visible then some (fi.cursor.col, fi.cursor.row) else none) := by
  obtain ⟨e', hr, _, h⟩ := emu_shows_across_resizes_any dec cw hsp hd hemp hlp segs rows cols s e hl hok
  obtain ⟨hi, hs⟩ := h sg hsg
  have hsh := hs fi hfi
  have hsgok := (hok sg (List.mem_of_getLast? hsg)).1
  have dm : Lemmas.Emu.Dim sg.rows sg.cols := ⟨hsgok.1.2.2.1, hsgok.1.1, hsgok.1.2.2.2, hsgok.1.2.1⟩
  have hrel := hsh.1
  rw [Lemmas.RenderClip.expectedC_eq] at hrel
  obtain ⟨per, h1, h2, h3⟩ := draw_reproduces_screen dec cw (clipIn cw fi).next e' sg.rows sg.cols hi dm hrel focused
  refine ⟨e', per, hr, h1, h2, ?_, ?_⟩
  · rw [Lemmas.RenderClip.expectedC_eq]; exact h3
  · have hfiok := hsgok.2.2 fi (List.mem_of_getLast? hfi)
    have hsh' : ShowsK caps dec cw (clipIn cw fi) e' := by
      unfold ShowsK
      unfold ShowsCK at hsh
      rw [Lemmas.RenderClip.expectedC_eq] at hsh
      exact hsh
    exact draw_shows_cursor dec cw (clipIn cw fi) e' sg.rows sg.cols hi hsh'
      (fun hv => by have := (hfiok.1.2.2.2 hv).2.2; exact_mod_cast this)

/-! ### the wire, against the renderer's underline templates (sequences.go, regenerated) -/

open VaxisModel.Model.C12Replies VaxisModel.Lemmas.C12Wire in
omit [CapsOkU caps] in
/-- **The styled-underline templates on the wire**: for every index / channel / style value the bytes
    `render()` produces from `ulIndexSet`, `ulRGBSet`, `ulStyleSet` and the constant `ulColorReset`
    (regenerated from sequences.go on every run: `Gen.TermReplies.strConst`) parse to the sequence `opsOf`
    hands to the emulator model for the renderer model's token (`58:5:i`, `58:2:r:g:b`, `4:n` with colon
    sub-parameters, `59`). Completes `C12Caps.facts_wire_sgr` for the vocabulary of `CapsOkU`. -/
theorem facts_wire_ul (dec : String → G) (tw : String → Nat) (i r g b n : Nat) :
    wireMatches (instFmt (strC "ulIndexSet") [intBytes i]) (opsOf dec tw (.sgr [[58, 5, i]])) = true ∧
    wireMatches (instFmt (strC "ulRGBSet") [intBytes r, intBytes g, intBytes b]) (opsOf dec tw (.sgr [[58, 2, r, g, b]])) = true ∧
    wireMatches (instFmt (strC "ulStyleSet") [intBytes n]) (opsOf dec tw (.sgr [[4, n]])) = true ∧
    wireMatches (strC "ulColorReset") (opsOf dec tw (.sgr [[59]])) = true := by
  have h1 : strC "ulIndexSet" = [27, 91, 53, 56, 58, 53, 58, 37, 100, 109] := by decide
  have h2 : strC "ulRGBSet" = [27, 91, 53, 56, 58, 50, 58, 37, 100, 58, 37, 100, 58, 37, 100, 109] := by decide
  have h3 : strC "ulStyleSet" = [27, 91, 52, 58, 37, 100, 109] := by decide
  refine ⟨?_, ?_, ?_, rfl⟩
  · rw [h1]; simp [instFmt, opsOf, wireMatches, csiWire, paramBytes, sgrParam, List.intercalate, intBytes, natDigits]
  · rw [h2]; simp [instFmt, opsOf, wireMatches, csiWire, paramBytes, sgrParam, List.intercalate, intBytes, natDigits]
  · rw [h3]; simp [instFmt, opsOf, wireMatches, csiWire, paramBytes, sgrParam, List.intercalate, intBytes, natDigits]

/-! ### instances and non-vacuity -/

/-- Everything the emulator's `sgr()` implements: direct colour and styled underlines. -/
def emuCapsFull : Caps := { emuCaps with rgb := true, styledUnderlines := true }

instance : CapsOkU emuCapsFull := ⟨rfl, rfl⟩
instance (rgb su : Bool) : CapsOkU { emuCaps with rgb := rgb, styledUnderlines := su } := ⟨rfl, rfl⟩

def gridUl : Grid :=
  [[({ g := "61", style := { ul := 33554432 + 1056816, ulStyle := 3 } } : Cell),
    { g := "57", style := { ulStyle := 5, ul := 16777220, bg := 33554432 + 255 } }, {}]]

/-- Non-vacuity, on the PRIMARY screen with styled underlines and direct colour: a fresh 4×2 emulator
    (`New()`, `resize`, cursor hidden: `emu_start_related` — never on the alternate screen), the host
    resizes it to 3×1, the application draws a curly underline in an RGB underline colour, a wide glyph
    with a dashed underline in a palette underline colour on an RGB background, and a blank, cursor
    visible: all hypotheses hold, the emulator shows the frame and is still on the primary screen. -/
example :
    let fi : FrameIn := ⟨true, gridUl, { visible := true, col := 2, style := 1 }, ""⟩
    ∃ e0 e1 e', Model.Emu.Emu.new Model.Emu.Fixes.current 4 2 = .ok e0 ∧
      runOps e0 [.csi [63, 108] [(25, [])]] = .ok e1 ∧
      runSegs emuCapsFull C12.decEx C12.cwEx (C12.startState 4 2) e1 [⟨3, 1, [fi]⟩] = .ok e' ∧
      ShowsCK emuCapsFull C12.decEx C12.cwEx fi e' ∧ e'.mode.smcup = false := by
  intro fi
  obtain ⟨e0, e1, h0, h1, hs⟩ := C12.emu_start_related C12.decEx rfl 4 2 (by decide) (by decide) (by decide) (by decide)
  have hprim : e1.mode.smcup = false := by
    have hn : e0 = Lemmas.EmuRefine.newState 4 2 := by
      have := Lemmas.EmuRefine.new_eq 4 2 (by decide) (by decide)
      rw [h0] at this
      cases this; rfl
    have hk : (match runOps (Lemmas.EmuRefine.newState 4 2) [.csi [63, 108] [(25, [])]] with
        | .ok e => e.mode.smcup
        | .error _ => true) = false := by decide +kernel
    rw [← hn, h1] at hk
    exact hk
  have hl : LinkedP C12.decEx C12.cwEx (C12.startState 4 2) e1 2 4 :=
    ⟨C12.start_ready 4 2, fun _ => rfl, hs⟩
  obtain ⟨e', hr, hm, hsh⟩ := emu_shows_across_resizes_any (caps := emuCapsFull) C12.decEx C12.cwEx rfl rfl rfl C12.lpOk_decEx [⟨3, 1, [fi]⟩] 2 4
    (C12.startState 4 2) e1 hl (by
    intro sg hsg
    simp only [List.mem_singleton] at hsg
    subst hsg
    have hcells : ∀ r ∈ gridUl, ∀ c ∈ r,
        ((c.sixel = false ∧ 0 ≤ c.w ∧ Lemmas.RenderDisplay.WidthOk C12.cwEx emuCapsFull c) ∧ CellOk C12.decEx C12.cwEx c) ∧
          c.style.ulStyle ≤ 5 := by
      intro r hr c hc
      simp only [gridUl, List.mem_cons, List.not_mem_nil, or_false] at hr
      subst hr
      simp only [List.mem_cons, List.not_mem_nil, or_false] at hc
      rcases hc with rfl | rfl | rfl <;> exact ⟨⟨⟨rfl, by decide, Or.inl rfl⟩, by decide, by decide⟩, by decide⟩
    refine ⟨⟨by decide, fun f h => by cases h; rfl, ?_⟩, ?_⟩
    · intro f hf
      simp only [List.mem_singleton] at hf
      subst hf
      exact ⟨⟨rfl, by decide, fun r hr c hc => (hcells r hr c hc).1.1, fun _ => by decide⟩,
        fun r hr c hc => (hcells r hr c hc).1.2, by decide⟩
    · intro f hf
      simp only [List.mem_singleton] at hf
      subst hf
      exact fun _ r hr c hc => (hcells r hr c hc).2)
  exact ⟨e0, e1, e', h0, h1, hr, (hsh _ rfl).2 fi rfl, by rw [hm]; exact hprim⟩

end VaxisModel.Props.C12Any
