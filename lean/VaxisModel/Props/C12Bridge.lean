/-
C12 against ONE reference terminal.

C01 / C12 judge the renderer against `Spec.Display` (cells carry the renderer model's opaque strings,
`poison` / `cont` cells, a `bad` flag for terminal-specific territory); C06 proves the embedded emulator
refines `Spec.Term` (byte cells, the full C06 vocabulary). The C05/C06 builder's bridge
(`Props/C06Bridge.display_refines_term`, written independently of both) shows that on the common
vocabulary the two references are the same terminal. Composed here with C01's frame theorem and the
C12 simulation:

  `emu_and_term_show`: from any state of an application whose last flush is complete (`LinkedP`, on
  either screen), with the reference terminal `Spec.Term` in a state related to the same display
  (`Rel`; `rel_start`, `rel_resized` give one at start-up and after every resize), for every list of
  admissible frames at that size, the first a refresh, under any capability set `CapsOkU`:
  * the emulator model fed the parsed sequences of the renderer's tokens does not panic and shows the
    last (hence every) frame — the C12 composition —, and
  * `Spec.Term`, THE REFERENCE TERMINAL OF C06, fed the very same tokens (`tokT`: CUP, SGR, OSC 8, text,
    mode 25, DECSCUSR; the pointer-shape sequence OSC 22 is outside its vocabulary and changes nothing it
    models) is DETERMINISTIC on them (`runExact`: every step accepts exactly one state, nothing
    terminal-specific) and ends in a state that shows the application's screen cell for cell up to its own
    visual equality (`TCell.norm`: a space glyph is a blank), with the cursor as requested.
So the emulator and the reference terminal the emulator is proved to refine (C06) show the same screen,
the application's, after every frame.
-/
import VaxisModel.Props.C12Any
import VaxisModel.Props.C06Bridge
import VaxisModel.Props.C12StartAny
import VaxisModel.Model.C12Ref

namespace VaxisModel.Props.C12Bridge
open VaxisModel.Model.Render VaxisModel.Spec VaxisModel.Spec.Display VaxisModel.Lemmas.RenderGate
open VaxisModel.Model.Emu (Emu EOp G M runOps)
open VaxisModel.Model.C12Compose VaxisModel.Lemmas.C12Sim VaxisModel.Lemmas.C12Vocab VaxisModel.Lemmas.C12Resize
open VaxisModel.Props.C01 (CursorAs Agree)
open VaxisModel.Props.C01Display (FrameIn HState mkFrame stepH FrameInOk Ready)
open VaxisModel.Props.C01Clip (FrameInOkC clipIn stepHC stepHC_eq clipIn_ok)
open VaxisModel.Props.C12 (Linked EmuFrameOk clipIn_emuOk emuCaps startDisplay)
open VaxisModel.Props.C12Caps VaxisModel.Props.C12Any
open VaxisModel.Props.C12Resize (Seg)
open VaxisModel.Lemmas.C06Bridge (Rel Common tokT runExact DecOk mapCell CellEq)
open VaxisModel.Spec.Term (T TCell)

/-! ### the reference terminal ignores what is outside its vocabulary: the pointer shape -/

/-- The renderer tokens of the composition: Spec.Term's vocabulary, or the pointer-shape sequence. -/
def InVocab (tw : String → Nat) (k : Tok) : Prop := Common tw k ∨ ∃ sh, k = Tok.pointer sh

theorem tokOk_inVocab {dec : String → G} {tw : String → Nat} (k : Tok) (h : TokOk dec tw k) : InVocab tw k := by
  cases k with
  | cup r c => exact Or.inl trivial
  | sgr ps => exact Or.inl trivial
  | osc8 p u => exact Or.inl trivial
  | text g => exact Or.inl h.1
  | textW w g => exact absurd h id
  | decset n => exact Or.inl h
  | decrst n => exact Or.inl h
  | cursorStyle n => exact Or.inl trivial
  | pointer sh => exact Or.inr ⟨sh, rfl⟩
  | other r => exact absurd h id

theorem rel_pointer {dec : String → G} {d : Display.Term} {t : T} (tw : String → Nat) (h : Rel dec d t) (sh : String) :
    Rel dec (Display.step tw d (.pointer sh)) t :=
  ⟨h.rows, h.cols, h.onAlt, h.row, h.col, h.pw, h.pen, h.link, h.cursorVisible, h.cursorShape, h.rowLt, h.colLt,
   h.top, h.bottom, h.bad, h.grid⟩

/-- `display_refines_term` for token lists that may contain pointer-shape sequences (dropped by
    `filterMap (tokT …)`, and the reference terminal's state does not depend on them). -/
theorem run_bridge_ptr (dec : String → G) (tw : String → Nat) :
    ∀ (toks : List Tok) (d : Display.Term) (t : T), Rel dec d t → (∀ k ∈ toks, InVocab tw k) →
      (Display.run tw d toks).bad = none →
      ∃ t', runExact t (toks.filterMap (tokT dec tw)) = some t' ∧ Rel dec (Display.run tw d toks) t' := by
  intro toks
  induction toks with
  | nil => intro d t h _ _; exact ⟨t, rfl, h⟩
  | cons k ks ih =>
    intro d t h hv hb
    have hb1 : (Display.step tw d k).bad = none := run_bad_none tw ks _ hb
    rcases hv k (by simp) with hc | ⟨sh, rfl⟩
    · obtain ⟨tok, t1, htok, hstep, hrel⟩ := C06Bridge.display_step_refines_term dec tw d t h k hc hb1
      obtain ⟨t', hr, hrel'⟩ := ih (Display.step tw d k) t1 hrel (fun x hx => hv x (by simp [hx])) hb
      refine ⟨t', ?_, hrel'⟩
      simp only [List.filterMap_cons, htok, runExact, hstep]
      exact hr
    · obtain ⟨t', hr, hrel'⟩ := ih (Display.step tw d (.pointer sh)) t (rel_pointer tw h sh)
        (fun x hx => hv x (by simp [hx])) hb
      refine ⟨t', ?_, hrel'⟩
      have : tokT dec tw (Tok.pointer sh) = none := rfl
      simp only [List.filterMap_cons, this]
      exact hr

/-! ### the reference terminal accepts the emulator's state -/

open VaxisModel.Model.EmuAbs (absCell absRow absStyle absCol) in
/-- One cell: the emulator cell shows the display cell (`C12Sim.CellRel`), the reference terminal's cell
    equals the display cell up to `TCell.norm` (`C06Bridge.CellEq`) ⇒ the reference terminal's cell
    ACCEPTS the abstraction of the emulator cell (`TCell.accepts`: C06's comparison). -/
theorem cell_accepts (dec : String → G) (hd : dec "20" = [32]) (hemp : dec "" = []) (dc : DCell) (tc : TCell)
    (ec : Model.Emu.ECell) (h1 : CellRel dec dc ec) (h2 : CellEq dec dc tc) : tc.accepts (absCell ec) = true := by
  unfold CellEq at h2
  cases dc with
  | cont =>
    have : tc = .cont := by
      cases tc with
      | glyph g w st l => simp only [mapCell, TCell.norm] at h2; split at h2 <;> cases h2
      | blank b => cases h2
      | cont => rfl
      | poison => cases h2
    subst this; rfl
  | poison =>
    have : tc = .poison := by
      cases tc with
      | glyph g w st l => simp only [mapCell, TCell.norm] at h2; split at h2 <;> cases h2
      | blank b => cases h2
      | cont => cases h2
      | poison => rfl
    subst this; rfl
  | glyph g w st lp lk =>
    have hacc : ∀ a : TCell, tc.norm = a.norm → tc.accepts a = true := by
      intro a ha
      unfold TCell.accepts
      cases tc with
      | poison => rfl
      | cont => rfl
      | glyph g' w' st' l' => simpa using ha
      | blank b => simpa using ha
    apply hacc
    rw [← h2]
    rcases h1 with ⟨a1, a2, a3, a4, a5, _⟩ | ⟨b1, b2, b3, b4, b5, b6, b7⟩
    · have a2' : ¬ dec g = [] := by rw [← a1]; exact a2
      simp only [mapCell, absCell, a1, a3, a4, a5, if_neg a2']
    · subst b3; subst b4; subst b5; subst b7
      simp only [mapCell, absCell, b1, if_true, hd, hemp, TCell.norm]
      simp

open VaxisModel.Model.EmuAbs (absRow) in
/-- **The reference terminal accepts the emulator's grid**: C06's comparison `gridAccepts`, from the two
    relations to the same display grid. -/
theorem grid_accepts (dec : String → G) (hd : dec "20" = [32]) (hemp : dec "" = []) (rows cols : Nat)
    (dg : List (List DCell)) (tg : Spec.Term.TGrid) (eg : Model.Emu.Grid)
    (h1 : Lemmas.C12Sim.GridRel dec dg eg) (h2 : Lemmas.C06Bridge.GridRel dec rows cols dg tg) :
    Spec.Term.gridAccepts tg (eg.map absRow) = true := by
  have hlen : tg.length = eg.length := by rw [h2.tlen, ← h2.dlen, h1.1]
  unfold Spec.Term.gridAccepts
  simp only [List.length_map, hlen, decide_true, Bool.true_and, List.all_eq_true]
  intro p hp
  obtain ⟨i, hi⟩ := List.getElem?_of_mem hp
  rw [List.getElem?_zip_eq_some] at hi
  obtain ⟨ht, he⟩ := hi
  rw [List.getElem?_map] at he
  cases hei : eg[i]? with
  | none => rw [hei] at he; cases he
  | some er =>
    rw [hei] at he
    simp only [Option.map_some, Option.some.injEq] at he
    have hil : i < dg.length := by
      rw [h1.1]
      rcases Nat.lt_or_ge i eg.length with h | h
      · exact h
      · rw [List.getElem?_eq_none h] at hei; cases hei
    have hdr : dg[i]? = some dg[i] := List.getElem?_eq_getElem hil
    obtain ⟨tr, htr, _, _, hrr⟩ := h2.row i _ hdr
    rw [ht] at htr
    cases htr
    have hr1 := h1.2 i _ er hdr hei
    rw [← he]
    unfold Spec.Term.rowAccepts
    have hl2 : p.1.length = er.length := by rw [← hrr.len, hr1.1]
    simp only [absRow, List.length_map, hl2, decide_true, Bool.true_and, List.all_eq_true]
    intro q hq
    obtain ⟨j, hj⟩ := List.getElem?_of_mem hq
    rw [List.getElem?_zip_eq_some] at hj
    obtain ⟨hq1, hq2⟩ := hj
    rw [List.getElem?_map] at hq2
    cases hej : er[j]? with
    | none => rw [hej] at hq2; cases hq2
    | some ec =>
      rw [hej] at hq2
      simp only [Option.map_some, Option.some.injEq] at hq2
      have hjl : j < dg[i].length := by
        rw [hr1.1]
        rcases Nat.lt_or_ge j er.length with h | h
        · exact h
        · rw [List.getElem?_eq_none h] at hej; cases hej
      have hdc : dg[i][j]? = some dg[i][j] := List.getElem?_eq_getElem hjl
      rw [← hq2]
      exact cell_accepts dec hd hemp _ _ ec (hr1.2 j _ ec hdc hej) (hrr.cell j _ _ hdc hq1)

/-! ### the tokens of a list of frames -/

/-- Everything the renderer writes for a list of frames (the renderer's memory evolving). -/
def allToks (caps : Caps) (cw : String → Nat) : HState → List FrameIn → List Tok
  | _, [] => []
  | s, fi :: rest => (renderFrameC cw (mkFrame caps s fi)).2 ++ allToks caps cw (stepHC cw caps s fi) rest

theorem foldl_t (caps : Caps) (cw : String → Nat) : ∀ (fis : List FrameIn) (s : HState),
    (fis.foldl (stepHC cw caps) s).t = Display.run cw s.t (allToks caps cw s fis)
  | [], _ => rfl
  | fi :: rest, s => by
    simp only [List.foldl_cons, allToks]
    rw [foldl_t caps cw rest (stepHC cw caps s fi)]
    show Display.run cw (Display.run cw s.t (renderFrameC cw (mkFrame caps s fi)).2) _ = _
    simp only [Display.run, List.foldl_append]

theorem foldl_cursor (caps : Caps) (cw : String → Nat) : ∀ (fis : List FrameIn) (s : HState) (fi : FrameIn),
    fis.getLast? = some fi → (fis.foldl (stepHC cw caps) s).cursor = fi.cursor
  | [], _, _, h => by simp at h
  | [a], s, fi, h => by
    simp only [List.getLast?_singleton, Option.some.injEq] at h
    subst h; rfl
  | a :: b :: rest, s, fi, h => by
    rw [List.getLast?_cons_cons] at h
    exact foldl_cursor caps cw (b :: rest) (stepHC cw caps s a) fi h

variable {caps : Caps} [CapsOkU caps]

/-- Every token of every admissible frame is in the vocabulary. -/
theorem allToks_inVocab (dec : String → G) (cw : String → Nat) (hsp : cw "20" = 1) (hd : dec "20" = [32]) (hemp : dec "" = [])
    (hlp : LpOk dec) : ∀ (fis : List FrameIn) (s : HState),
      (∀ fi ∈ fis, EmuFrameOk dec cw fi ∧ UlOk caps fi) → ∀ k ∈ allToks caps cw s fis, InVocab cw k := by
  intro fis
  induction fis with
  | nil => intro s _ k hk; simp [allToks] at hk
  | cons fi rest ih =>
    intro s hok k hk
    simp only [allToks, List.mem_append] at hk
    rcases hk with hk | hk
    · have htoks : (renderFrameC cw (mkFrame caps s fi)).2 = (renderFrame cw (mkFrame caps s (clipIn cw fi))).2 := by
        rw [Lemmas.RenderClip.renderFrameC_eq]; rfl
      rw [htoks] at hk
      have h59 : 59 ∉ dec "" := by rw [hemp]; simp
      have hok2 := clipIn_emuOk dec cw hsp hd fi (hok fi (by simp)).1
      exact tokOk_inVocab k (frame_ok_anyCaps dec cw (mkFrame caps s (clipIn cw fi))
        (clipIn_ulOk caps cw fi (hok fi (by simp)).2) (CapsOkU.ew (caps := caps)) (CapsOkU.sy (caps := caps))
        hsp (by rw [hd]; simp) h59 hlp hok2.1 hok2.2 k hk)
    · exact ih _ (fun x hx => hok x (by simp [hx])) k hk

/-- **C12 against one reference terminal** (see the file header). -/
theorem emu_and_term_show (dec : String → G) (cw : String → Nat) (hsp : cw "20" = 1) (hd : dec "20" = [32]) (hemp : dec "" = [])
    (hlp : LpOk dec) (rows cols : Nat) (s : HState) (e : Emu) (hl : LinkedP dec cw s e rows cols)
    (t : T) (ht : Rel dec s.t t)
    (a : FrameIn) (rest : List FrameIn) (ha : a.refresh = true)
    (hok : ∀ fi ∈ a :: rest, (FrameInOkC cw caps rows cols fi ∧ EmuFrameOk dec cw fi) ∧ UlOk caps fi)
    (fi : FrameIn) (hlast : (a :: rest).getLast? = some fi) :
    ∃ (e' : Emu) (t' : T) (d : Display.Term),
      -- the emulator
      runFramesCK caps dec cw s e (a :: rest) = .ok e' ∧ ShowsCK caps dec cw fi e' ∧
      -- the reference terminal of C06, on the same tokens: deterministic, and related to the display `d`
      runExact t ((allToks caps cw s (a :: rest)).filterMap (tokT dec cw)) = some t' ∧ Rel dec d t' ∧
      -- … which shows the application's screen and cursor (C01) and is what the emulator simulates (C12)
      d.grid = Expected.expectedC cw caps fi.next ∧ CursorAs d fi.cursor ∧ DSim dec d e' rows cols ∧
      -- hence: the reference terminal ACCEPTS the emulator's state (C06's comparison: grid cell by cell up
      -- to `TCell.norm`, cursor row, pending wrap, pen, hyperlink; plus cursor visibility and shape)
      Spec.Term.gridAccepts t'.primary (e'.active.map Model.EmuAbs.absRow) = true ∧
      (t'.row : Int) = e'.cur.row ∧ t'.pw = decide (e'.cur.col ≥ (cols : Int)) ∧
      t'.pen = Model.EmuAbs.absStyle e'.cur.st ∧ t'.link = e'.cur.st.link ∧
      t'.cursorVisible = e'.mode.dectcem ∧ (t'.cursorShape : Int) = e'.cur.shape := by
  have hoka := hok a (by simp)
  obtain ⟨e1, hr1, hl1, sh1, _, g1⟩ := frame_after_resize_any dec cw hsp hd hemp hlp rows cols s e a hl ha hoka.1.1 hoka.1.2 hoka.2
  obtain ⟨e2, hr2, hl2, _, sh2⟩ := frames_any dec cw hsp hd hemp hlp rows cols rest _ e1 hl1 (fun x hx => hok x (by simp [hx]))
  have hbad : (Display.run cw s.t (allToks caps cw s (a :: rest))).bad = none := by
    rw [← foldl_t caps cw (a :: rest) s]
    exact hl2.linked.ready.bad
  obtain ⟨t', hrt, hrel⟩ := run_bridge_ptr dec cw (allToks caps cw s (a :: rest)) s.t t ht
    (allToks_inVocab dec cw hsp hd hemp hlp (a :: rest) s (fun x hx => ⟨(hok x hx).1.2, (hok x hx).2⟩)) hbad
  rw [← foldl_t caps cw (a :: rest) s] at hrel
  have hcur : CursorAs ((a :: rest).foldl (stepHC cw caps) s).t fi.cursor := by
    rw [← foldl_cursor caps cw (a :: rest) s fi hlast]
    exact hl2.linked.cursor
  have hsim := hl2.linked.sim
  refine ⟨e2, t', ((a :: rest).foldl (stepHC cw caps) s).t, by simp only [runFramesCK, hr1, bind, Except.bind]; exact hr2, ?_,
    hrt, hrel, ?_, hcur, hsim,
    grid_accepts dec hd hemp _ _ _ _ _ hsim.grid hrel.grid,
    by rw [hrel.row]; exact hsim.row, by rw [hrel.pw]; exact hsim.pw, by rw [hrel.pen]; exact hsim.pen,
    by rw [hrel.link]; exact hsim.link, by rw [hrel.cursorVisible]; exact hsim.vis,
    by rw [hrel.cursorShape]; exact hsim.shape⟩
  · cases rest with
    | nil =>
      simp only [List.getLast?_singleton, Option.some.injEq] at hlast
      subst hlast
      simp only [runFramesCK] at hr2
      cases hr2
      exact sh1
    | cons b rest' =>
      rw [List.getLast?_cons_cons] at hlast
      exact (sh2 fi hlast).1
  · cases rest with
    | nil =>
      simp only [List.getLast?_singleton, Option.some.injEq] at hlast
      subst hlast
      exact g1
    | cons b rest' =>
      rw [List.getLast?_cons_cons] at hlast
      exact (sh2 fi hlast).2

/-! ### related start states of the reference terminal -/

/-- At start-up (blank screen, cursor hidden): `Spec.Term` powered on with the cursor hidden. -/
theorem rel_start (dec : String → G) (hdec : DecOk dec) (rows cols : Nat) (hr : 1 ≤ rows) (hc : 1 ≤ cols) :
    Rel dec (startDisplay cols rows) { T.init rows cols with cursorVisible := false } := by
  have h := C06Bridge.init_related dec hdec rows cols hr hc
  exact ⟨h.rows, h.cols, h.onAlt, h.row, h.col, h.pw, h.pen, h.link, rfl, h.cursorShape, h.rowLt, h.colLt,
    h.top, h.bottom, h.bad, h.grid⟩

/-- After a resize on the alternate screen (blank display, cursor where `resize()` left it). -/
theorem rel_resized (dec : String → G) (hdec : DecOk dec) (rows cols : Nat) (e : Emu) (hi : Lemmas.Emu.EmuInv e rows cols)
    (dm : Lemmas.Emu.Dim rows cols) :
    Rel dec (resizedDisplay cols rows e)
      { T.init rows cols with
        row := e.cur.row.toNat
        col := (if e.cur.col ≥ (cols : Int) then (cols : Int) - 1 else e.cur.col).toNat
        pw := decide (e.cur.col ≥ (cols : Int))
        cursorVisible := e.mode.dectcem
        cursorShape := e.cur.shape.toNat } := by
  have h := C06Bridge.init_related dec hdec rows cols dm.r1 dm.c1
  have := hi.rowLo; have := hi.rowHi; have := hi.colLo; have := hi.colHi; have := dm.c1
  refine ⟨h.rows, h.cols, h.onAlt, rfl, rfl, rfl, h.pen, h.link, rfl, rfl, ?_, ?_, h.top, h.bottom, h.bad, h.grid⟩
  · show e.cur.row.toNat < rows
    omega
  · show (if e.cur.col ≥ (cols : Int) then (cols : Int) - 1 else e.cur.col).toNat < cols
    split <;> omega

/-- After a resize on EITHER screen (the display with the unknown grid, `C12Any.resizedDisplayP`): the
    reference terminal with every cell `poison` (it accepts whatever the emulator shows there — on the
    primary screen the reflowed old content — until the refresh frame has overwritten it). -/
theorem rel_resizedP (dec : String → G) (hdec : DecOk dec) (rows cols : Nat) (e : Emu) (hi : Lemmas.Emu.EmuInv e rows cols)
    (dm : Lemmas.Emu.Dim rows cols) :
    Rel dec (resizedDisplayP cols rows e)
      { T.init rows cols with
        primary := List.replicate rows (List.replicate cols TCell.poison)
        row := e.cur.row.toNat
        col := (if e.cur.col ≥ (cols : Int) then (cols : Int) - 1 else e.cur.col).toNat
        pw := decide (e.cur.col ≥ (cols : Int))
        cursorVisible := e.mode.dectcem
        cursorShape := e.cur.shape.toNat } := by
  have h := C06Bridge.init_related dec hdec rows cols dm.r1 dm.c1
  have := hi.rowLo; have := hi.rowHi; have := hi.colLo; have := hi.colHi; have := dm.c1
  have rep : ∀ {α : Type} (n : Nat) (x y : α) (k : Nat), (List.replicate n x)[k]? = some y → y = x := by
    intro α n x y k hk
    rw [List.getElem?_replicate] at hk
    split at hk
    · exact (Option.some.inj hk).symm
    · cases hk
  refine ⟨h.rows, h.cols, h.onAlt, rfl, rfl, rfl, h.pen, h.link, rfl, rfl, ?_, ?_, h.top, h.bottom, h.bad, ?_⟩
  · show e.cur.row.toNat < rows
    omega
  · show (if e.cur.col ≥ (cols : Int) then (cols : Int) - 1 else e.cur.col).toNat < cols
    split <;> omega
  · show Lemmas.C06Bridge.GridRel dec rows cols (poisonGrid cols rows) (List.replicate rows (List.replicate cols TCell.poison))
    refine ⟨by simp [poisonGrid], by simp, ?_⟩
    intro i dr hdr
    have hdr' := rep _ _ _ _ hdr
    subst hdr'
    have hi' : i < rows := by
      rcases Nat.lt_or_ge i rows with h | h
      · exact h
      · simp only [poisonGrid] at hdr; rw [List.getElem?_eq_none (by simpa using h)] at hdr; cases hdr
    refine ⟨List.replicate cols TCell.poison, by rw [List.getElem?_replicate]; simp [hi'], by simp, ?_, ?_⟩
    · refine ⟨?_, ?_, ?_⟩
      · intro j g w st lp lk hj; have := rep _ _ _ _ hj; cases this
      · intro j hj; have := rep _ _ _ _ hj; cases this
      · intro j hj
        unfold Lemmas.C06Bridge.wideD at hj
        cases hc : (List.replicate cols DCell.poison)[j]? with
        | none => rw [hc] at hj; cases hj
        | some x => rw [hc] at hj; have := rep _ _ _ _ hc; subst this; cases hj
    · refine ⟨by simp, ?_⟩
      intro j d t hd' ht'
      rw [rep _ _ _ _ hd', rep _ _ _ _ ht']
      rfl

/-- The reference terminal re-started next to the emulator after a resize: every cell unknown, cursor
    where `resize()` left it (the state of `rel_resizedP`). -/
def termAfterResize (cols rows : Nat) (e : Emu) : T :=
  { T.init rows cols with
    primary := List.replicate rows (List.replicate cols TCell.poison)
    row := e.cur.row.toNat
    col := (if e.cur.col ≥ (cols : Int) then (cols : Int) - 1 else e.cur.col).toNat
    pw := decide (e.cur.col ≥ (cols : Int))
    cursorVisible := e.mode.dectcem
    cursorShape := e.cur.shape.toNat }

/-- **The reference-terminal clause after ANY history with resizes**: run any admissible history `pre`
    (`C12Caps.runSegs`), let the host resize the emulator once more and re-start the reference terminal
    next to it (`termAfterResize`); then for the frames of that last segment — rendered with the memory the
    renderer has after `pre` (`MemEq (segsMem …) sm`) — the conclusion of `emu_and_term_show` holds: the
    emulator shows the last (hence every) frame, `Spec.Term` is deterministic on the same tokens and accepts
    the emulator's state. -/
theorem emu_and_term_show_after_history (dec : String → G) (hdec : DecOk dec) (cw : String → Nat) (hsp : cw "20" = 1)
    (hlp : LpOk dec) (rows cols : Nat) (s : HState) (e : Emu) (hl : LinkedP dec cw s e rows cols)
    (pre : List Seg) (hpre : ∀ sg ∈ pre, SegOkU caps dec cw sg)
    (w h : Nat) (hw1 : 1 ≤ w) (hw2 : w ≤ 65535) (hh1 : 1 ≤ h) (hh2 : h ≤ 65535)
    (a : FrameIn) (rest : List FrameIn) (ha : a.refresh = true)
    (hok : ∀ fi ∈ a :: rest, (FrameInOkC cw caps h w fi ∧ EmuFrameOk dec cw fi) ∧ UlOk caps fi)
    (fi : FrameIn) (hlast : (a :: rest).getLast? = some fi) :
    ∃ (e0 e1 e' : Emu) (sm : HState) (t' : T),
      runSegs caps dec cw s e pre = .ok e0 ∧ runOps e0 [.resize w h] = .ok e1 ∧
      MemEq (segsMem caps cw s pre) sm ∧
      runFramesCK caps dec cw (afterResizeP w h e1 sm) e1 (a :: rest) = .ok e' ∧ ShowsCK caps dec cw fi e' ∧
      runExact (termAfterResize w h e1)
        ((allToks caps cw (afterResizeP w h e1 sm) (a :: rest)).filterMap (tokT dec cw)) = some t' ∧
      Spec.Term.gridAccepts t'.primary (e'.active.map Model.EmuAbs.absRow) = true ∧
      (t'.row : Int) = e'.cur.row ∧ t'.pw = decide (e'.cur.col ≥ (w : Int)) ∧
      t'.pen = Model.EmuAbs.absStyle e'.cur.st ∧ t'.link = e'.cur.st.link ∧
      t'.cursorVisible = e'.mode.dectcem ∧ (t'.cursorShape : Int) = e'.cur.shape := by
  obtain ⟨e0, sm, hr0, hm, hl0⟩ := history_relinks (caps := caps) dec cw hsp hdec.space hdec.empty hlp pre rows cols s s e
    ⟨rfl, rfl, rfl⟩ hl hpre
  obtain ⟨e1, hr1, hl1, _⟩ := resize_linked_any dec cw _ _ sm e0 hl0 w h hw1 hw2 hh1 hh2
  have hrel := rel_resizedP dec hdec h w e1 hl1.sim.inv hl1.sim.dim
  obtain ⟨e', t', d, hr, hsh, hrt, _, _, _, _, g1, g2, g3, g4, g5, g6, g7⟩ :=
    emu_and_term_show (caps := caps) dec cw hsp hdec.space hdec.empty hlp h w (afterResizeP w h e1 sm) e1 hl1
      (termAfterResize w h e1) hrel a rest ha hok fi hlast
  exact ⟨e0, e1, e', sm, t', hr0, hr1, hm, hr, hsh, hrt, g1, g2, g3, g4, g5, g6, g7⟩

/-! ### the executable copies used by the driver are the bridge's definitions -/

/-- `Model.C12Ref.refTok` (run by the driver on every frame) is the bridge's translation `tokT`. -/
theorem refTok_eq (dec : String → G) (tw : String → Nat) (k : Tok) : Model.C12Ref.refTok dec tw k = tokT dec tw k := by
  cases k <;> rfl

/-- `Model.C12Ref.refRun` is the bridge's `runExact`. -/
theorem refRun_eq : ∀ (ks : List Spec.Term.Tok) (t : T), Model.C12Ref.refRun t ks = runExact t ks
  | [], _ => rfl
  | k :: ks, t => by
    simp only [Model.C12Ref.refRun, runExact]
    cases h : Spec.Term.step t k with
    | unconstrained => rfl
    | accept l =>
      match l with
      | [] => rfl
      | [t'] => exact refRun_eq ks t'
      | _ :: _ :: _ => rfl

/-- `Model.C12Ref.refAccepts t e cols = none` is the conjunction `emu_and_term_show` concludes (plus the
    cursor column when no wrap is pending). -/
theorem refAccepts_none (t : T) (e : Emu) (cols : Nat)
    (h1 : Spec.Term.gridAccepts t.primary (e.active.map Model.EmuAbs.absRow) = true)
    (h2 : (t.row : Int) = e.cur.row) (h3 : t.pw = decide (e.cur.col ≥ (cols : Int)))
    (h3' : t.pw = false → (t.col : Int) = e.cur.col)
    (h4 : t.pen = Model.EmuAbs.absStyle e.cur.st) (h5 : t.link = e.cur.st.link)
    (h6 : t.cursorVisible = e.mode.dectcem) (h7 : (t.cursorShape : Int) = e.cur.shape) :
    Model.C12Ref.refAccepts t e cols = none := by
  cases hp : t.pw with
  | true => simp [Model.C12Ref.refAccepts, h1, h2, ← h3, hp, h4, h5, h6, h7]
  | false => simp [Model.C12Ref.refAccepts, h1, h2, ← h3, hp, h3' hp, h4, h5, h6, h7]

/-- The driver's comparison can fail (it is not vacuous): a blank 1×1 reference terminal does not accept
    an emulator showing `a`; it accepts the blank one; and a hidden / visible cursor mismatch is seen. -/
example :
    Model.C12Ref.refAccepts (T.init 1 1) { Lemmas.EmuRefine.newState 1 1 with primary := [[{ g := [97], w := 1 }]] } 1 = some "grid" ∧
    Model.C12Ref.refAccepts (T.init 1 1) (Lemmas.EmuRefine.newState 1 1) 1 = none ∧
    Model.C12Ref.refAccepts { T.init 1 1 with cursorVisible := false } (Lemmas.EmuRefine.newState 1 1) 1 = some "cursor visibility" := by
  decide

/-- Non-vacuity of `DecOk` together with the other decoder hypotheses: the table decoder of the examples. -/
example : DecOk C06Bridge.dec0 ∧ C06Bridge.dec0 "20" = [32] ∧ C06Bridge.dec0 "" = [] := ⟨C06Bridge.decOk0, by decide, by decide⟩

theorem decOk_decEx : DecOk C12.decEx := by
  refine ⟨rfl, ?_, rfl, ?_⟩
  · intro s h
    unfold C12.decEx at h
    split at h
    · assumption
    · split at h <;> cases h
  · intro s h
    unfold C12.decEx at h
    split at h
    · cases h
    · split at h
      · assumption
      · simp at h

/-- Non-vacuity: a 3×1 emulator after the real start-up (`emu_real_startup_every_size`), the reference
    terminal powered on with the cursor hidden, one refresh frame with styled underlines, an RGB
    underline colour and a wide glyph: all hypotheses hold; the emulator shows the frame and `Spec.Term`
    accepts the same tokens deterministically, ending related to the display that shows the frame. -/
example :
    let fi : FrameIn := ⟨true, gridUl, { visible := true, col := 2, style := 1 }, ""⟩
    ∃ e0 e' t' d, runOps (Lemmas.EmuRefine.newState 3 1) Model.C12Replies.startupAll = .ok e0 ∧
      runFramesCK emuCapsFull C12.decEx C12.cwEx (C12.startState 3 1) e0 [fi] = .ok e' ∧
      ShowsCK emuCapsFull C12.decEx C12.cwEx fi e' ∧
      runExact { T.init 1 3 with cursorVisible := false }
        ((allToks emuCapsFull C12.cwEx (C12.startState 3 1) [fi]).filterMap (tokT C12.decEx C12.cwEx)) = some t' ∧
      Rel C12.decEx d t' ∧ d.grid = Expected.expectedC C12.cwEx emuCapsFull fi.next := by
  intro fi
  obtain ⟨e0, h0, hl⟩ := C12StartAny.emu_real_startup_every_size C12.decEx C12.cwEx rfl 3 1 (by decide) (by decide) (by decide) (by decide)
  have hcells : ∀ r ∈ gridUl, ∀ c ∈ r,
      ((c.sixel = false ∧ 0 ≤ c.w ∧ Lemmas.RenderDisplay.WidthOk C12.cwEx emuCapsFull c) ∧ CellOk C12.decEx C12.cwEx c) ∧
        c.style.ulStyle ≤ 5 := by
    intro r hr c hc
    simp only [gridUl, List.mem_cons, List.not_mem_nil, or_false] at hr
    subst hr
    simp only [List.mem_cons, List.not_mem_nil, or_false] at hc
    rcases hc with rfl | rfl | rfl <;> exact ⟨⟨⟨rfl, by decide, Or.inl rfl⟩, by decide, by decide⟩, by decide⟩
  obtain ⟨e', t', d, hr, hsh, hrt, hrel, hg, _⟩ := emu_and_term_show (caps := emuCapsFull) C12.decEx C12.cwEx rfl rfl rfl
    C12.lpOk_decEx 1 3 (C12.startState 3 1) e0 (LinkedR.toP hl) _ (rel_start C12.decEx decOk_decEx 1 3 (by decide) (by decide))
    fi [] rfl (by
      intro f hf
      simp only [List.mem_singleton] at hf
      subst hf
      exact ⟨⟨⟨rfl, by decide, fun r hr c hc => (hcells r hr c hc).1.1, fun _ => by decide⟩,
        fun r hr c hc => (hcells r hr c hc).1.2, by decide⟩, fun _ r hr c hc => (hcells r hr c hc).2⟩) fi rfl
  exact ⟨e0, e', t', d, h0, hr, hsh, hrt, hrel, hg⟩

end VaxisModel.Props.C12Bridge
