/-
C12 — the composition theorems for ANY capability set without styled underlines, explicit width and
synchronized output, WITH OR WITHOUT DIRECT COLOUR.

Inside the emulator Vaxis detects `emuCaps` (no direct colour) from the replies — but `COLORTERM=truecolor`
in the environment (what most hosts export; `widgets/term` passes the environment on to its child) makes
`New()` set `rgb` without any reply (C07's `colorterm`). The renderer then writes `38:2:r:g:b` /
`48:2:r:g:b`, which the emulator implements. This file is `Props/C12Resize.lean` (and the pieces of
`Props/C12.lean` it uses) with the capability set as a parameter `caps` (hypotheses `hsu`, `hew`, `hsy`);
`Lemmas/C12Vocab.frame_ok_anyRgb` supplies the vocabulary, everything else is capability independent
(C01's `frame_step`, the simulation `run_sim_frame`, C05's `resize_frame`). The instances at the end
are the statements for `emuCapsRgb = { emuCaps with rgb := true }`.
-/
import VaxisModel.Props.C12Resize

namespace VaxisModel.Props.C12Caps
open VaxisModel.Model.Render VaxisModel.Spec VaxisModel.Spec.Display VaxisModel.Lemmas.RenderGate
open VaxisModel.Model.Emu (Emu EOp G M runOps)
open VaxisModel.Model.C12Compose VaxisModel.Lemmas.C12Sim VaxisModel.Lemmas.C12Vocab VaxisModel.Lemmas.C12Resize
open VaxisModel.Lemmas.EmuRefine (EFrame)
open VaxisModel.Props.C01 (CursorAs Agree)
open VaxisModel.Props.C01Display (FrameIn HState mkFrame stepH FrameInOk Ready)
open VaxisModel.Props.C01Clip (FrameInOkC clipIn stepHC stepHC_eq clipIn_ok)
open VaxisModel.Props.C12 (Linked EmuFrameOk clipIn_emuOk expected_noPoison emuCaps startState start_ready)
open VaxisModel.Props.C12Resize (LinkedR afterResize resize_linked Seg dsim_hasVx)
open VaxisModel.Model.C12Read VaxisModel.Lemmas.C12Read
open VaxisModel.Props.C12Read (EncOk wantCursor)

variable (caps : Caps)

/-- `Shows` for the capability set `caps`. -/
def ShowsK (dec : String → G) (cw : String → Nat) (fi : FrameIn) (e : Emu) : Prop :=
  GridRel dec (Expected.expected cw caps fi.next) e.active ∧
  (if fi.cursor.visible then
     e.mode.dectcem = true ∧ e.cur.row = fi.cursor.row ∧ e.cur.col = fi.cursor.col ∧ e.cur.shape = (fi.cursor.style : Int)
   else e.mode.dectcem = false)

/-- `ShowsC` for the capability set `caps`. -/
def ShowsCK (dec : String → G) (cw : String → Nat) (fi : FrameIn) (e : Emu) : Prop :=
  GridRel dec (Expected.expectedC cw caps fi.next) e.active ∧
  (if fi.cursor.visible then
     e.mode.dectcem = true ∧ e.cur.row = fi.cursor.row ∧ e.cur.col = fi.cursor.col ∧ e.cur.shape = (fi.cursor.style : Int)
   else e.mode.dectcem = false)

/-- `runFramesC` for the capability set `caps`. -/
def runFramesCK (dec : String → G) (cw : String → Nat) : HState → Emu → List FrameIn → M Emu
  | _, e, [] => .ok e
  | s, e, fi :: rest => do
    let e' ← runOps e (opsOfToks dec cw (renderFrameC cw (mkFrame caps s fi)).2)
    runFramesCK dec cw (stepHC cw caps s fi) e' rest

/-- What the composition needs of the capability set: no styled underlines, no explicit width, no
    synchronized output (direct colour: either way). -/
class CapsOk (caps : Caps) : Prop where
  su : caps.styledUnderlines = false
  ew : caps.explicitWidth = false
  sy : caps.sync = false

theorem showsK_emuCaps (dec : String → G) (cw : String → Nat) (fi : FrameIn) (e : Emu) :
    ShowsCK emuCaps dec cw fi e ↔ C12.ShowsC dec cw fi e := Iff.rfl

variable {caps} [CapsOk caps]

omit [CapsOk caps] in
/-- **Read-back of a state that shows the frame**: the relational `ShowsCK caps` gives the equations. -/
theorem shows_reads_back (enc : G → String) (dec : String → G) (cw : String → Nat) (fi : FrameIn) (e : Emu)
    (h : ShowsCK caps dec cw fi e) (he : EncOk enc dec fi) :
    readScreen enc e.active = Expected.expectedC cw caps fi.next ∧ readCursor e = wantCursor fi := by
  obtain ⟨h20, hemp, hc⟩ := he
  constructor
  · have h1 := h.1
    rw [Lemmas.RenderClip.expectedC_eq] at h1 ⊢
    apply readScreen_expected cw caps h20 hemp _ _ _ h1
    intro r hr c hcm
    obtain ⟨l, hl, rfl⟩ := List.mem_map.mp hr
    obtain ⟨c0, h0, hc0⟩ := Lemmas.RenderClip.clipRow_mem cw l c hcm
    have hk := hc l hl c0 h0
    rcases hc0 with rfl | rfl
    · exact hk
    · exact ⟨h20, hk.2.1, hk.2.2⟩
  · have h2 := h.2
    unfold readCursor wantCursor
    split at h2
    · rename_i hv
      obtain ⟨a, b, c, d⟩ := h2
      simp [a, b, c, d, hv]
    · rename_i hv
      simp [h2, hv]



omit [CapsOk caps] in
open VaxisModel.Model.EmuDraw VaxisModel.Lemmas.C12Draw VaxisModel.Lemmas.EmuDraw in
/-- **Draw reproduces the screen in a host window of the same size.** If the emulator's active grid
    shows the screen `D` (what the composition theorems deliver: `D` = the application's screen), then
    `Draw` into a `cols × rows` host window does not resize, and its `SetCell` calls are, row by row,
    exactly one call per glyph cell of `D` (blanks included) and none for the cells covered by a wide
    glyph; each call carries a cell that shows that glyph (grapheme bytes, width — 0 = "measure" for a
    never written cell —, displayed style, hyperlink and parameters: `HostRel`) and lands on the host
    cell with the same coordinates. -/
theorem draw_reproduces_screen (dec : String → G) (cw : String → Nat) (g : Grid) (e : Emu) (rows cols : Nat)
    (hinv : Lemmas.Emu.EmuInv e rows cols) (hd : Lemmas.Emu.Dim rows cols)
    (hrel : GridRel dec (Expected.expected cw caps g) e.active) (focused : Bool) :
    ∃ per : List (List DrawCall),
      draw true Model.Emu.Fixes.current e cols rows focused =
        .ok ({ e with hasVx := true }, per.flatten, shownCursor true e focused) ∧
      per.length = rows ∧
      ∀ (k : Nat) (l : List DrawCall), per[k]? = some l →
        ∃ drow, (Expected.expected cw caps g)[k]? = some drow ∧
          (∀ call ∈ l, ∃ (j : Nat) (d : DCell), call.col = (j : Int) ∧ call.row = (k : Int) ∧ drow[j]? = some d ∧
            d ≠ .cont ∧ HostRel dec d call.cell ∧
            setCellChain cols rows [Win.root cols rows] call.col call.row = some ((j : Int), (k : Int))) ∧
          (∀ (j : Nat) (d : DCell), drow[j]? = some d → d ≠ .cont → ∃ call ∈ l, call.col = (j : Int)) := by
  obtain ⟨per, h1, h2, h3⟩ := C05Draw.draw_covers_rows hinv hd
  have hsz : ¬ ((cols : Int) ≠ e.width ∨ (rows : Int) ≠ e.height) := by
    rw [Lemmas.Emu.width_eq hinv hd.r1, Lemmas.Emu.height_eq hinv]; omega
  refine ⟨per, by simp only [draw, hsz, if_false, h1, bind, Except.bind], h2, ?_⟩
  intro k l hk
  obtain ⟨line, hline, hwalk⟩ := h3 k l hk
  have hga := Lemmas.Emu.active_ok hinv
  have hkr : k < rows := by
    rcases Nat.lt_or_ge k per.length with h | h
    · omega
    · rw [List.getElem?_eq_none h] at hk; cases hk
  have hline' : e.active[k]? = some line := by
    unfold Model.Emu.getI at hline
    simp only [Int.natCast_nonneg, if_true, Int.toNat_natCast] at hline
    cases hx : e.active[k]? with
    | none => rw [hx] at hline; cases hline
    | some x => rw [hx] at hline; cases hline; rfl
  have hlen : line.length = cols := hga.rowLen _ (List.mem_of_getElem? hline')
  have hdl : k < (Expected.expected cw caps g).length := by rw [hrel.1, hga.len]; exact hkr
  have hdk : (Expected.expected cw caps g)[k]? = some (Expected.expected cw caps g)[k] :=
    List.getElem?_eq_getElem hdl
  have hmem := List.getElem_mem hdl
  have hrr := hrel.2 k _ _ hdk hline'
  obtain ⟨w1, w2⟩ := walk_shows dec _ line k cols hrr hlen (expected_noPoison cw caps g _ hmem) l 0
    (by simpa using hwalk) (by simpa using C01Display.expected_wf cw caps g _ hmem)
  refine ⟨_, hdk, ?_, fun j d hj hn => w2 j d (Nat.zero_le _) hj hn⟩
  intro call hc
  obtain ⟨j, d, e1, _, e3, e4, e5, e6⟩ := w1 call hc
  refine ⟨j, d, e1, e5, e3, e4, e6, ?_⟩
  have hjc : j < cols := by
    rcases Nat.lt_or_ge j (Expected.expected cw caps g)[k].length with h | h
    · rw [hrr.1, hlen] at h; exact h
    · rw [List.getElem?_eq_none h] at e3; cases e3
  rw [e1, e5]
  have a2 : ¬ ((k : Int) < 0 ∨ (j : Int) < 0) := by omega
  have a6 : ¬ ((j : Int) < 0 ∨ (k : Int) < 0) := by omega
  have a7 : ¬ ((j : Int) ≥ (cols : Int)) := by omega
  have a8 : ¬ ((k : Int) ≥ (rows : Int)) := by omega
  simp only [setCellChain, Win.root, a2, a6, a7, a8, if_false, Int.add_zero, or_self]

omit [CapsOk caps] in
/-- The cursor Draw shows in a focused host window is the application's cursor. -/
theorem draw_shows_cursor (dec : String → G) (cw : String → Nat) (fi : FrameIn) (e : Emu) (rows cols : Nat)
    (hinv : Lemmas.Emu.EmuInv e rows cols) (hs : ShowsK caps dec cw fi e)
    (hcol : fi.cursor.visible = true → fi.cursor.col < cols) :
    Model.EmuDraw.shownCursor true e true =
      (if fi.cursor.visible then some (fi.cursor.col, fi.cursor.row) else none) := by
  have hc := hs.2
  unfold Model.EmuDraw.shownCursor
  split at hc
  · rename_i hv
    obtain ⟨c1, c2, c3, _⟩ := hc
    have := hinv.right; have := hinv.colHi
    have hlt := hcol hv
    have hng : ¬ (fi.cursor.col > e.right) := by omega
    simp only [c1, Bool.and_self, if_true, hv, Bool.true_and, decide_eq_true_eq, c2, c3, hng, if_false]
  · rename_i hv
    simp [hc, hv]


/-! ### one frame, with the cursor clause as a parameter -/

/-- `emu_frame_shows` with the display's cursor clause supplied by the caller (from the previous
    cursor — `C01.cursor_as_requested` — or, after a resize, from `cursor_nonempty`), and with the
    frame `EFrame e e'`: the emulator stays on the screen it is on. -/
theorem frame_shows_gen (dec : String → G) (cw : String → Nat) (hsp : cw "20" = 1) (hd : dec "20" = [32]) (hemp : dec "" = []) (hlp : LpOk dec)
    (rows cols : Nat) (s : HState) (e : Emu) (fi : FrameIn) (hready : Ready s.t s.last rows cols)
    (hsim : DSim dec s.t e rows cols)
    (hag : fi.refresh = false → Agree cw caps s.t s.last)
    (hok : FrameInOk cw caps rows cols fi) (hok2 : EmuFrameOk dec cw fi)
    (hcur : CursorAs (stepH cw caps s fi).t fi.cursor) :
    ∃ e', runOps e (opsOfToks dec cw (renderFrame cw (mkFrame caps s fi)).2) = .ok e' ∧
      Linked dec cw (stepH cw caps s fi) e' rows cols ∧
      Agree cw caps (stepH cw caps s fi).t (stepH cw caps s fi).last ∧
      ShowsK caps dec cw fi e' ∧ EFrame e e' := by
  obtain ⟨r1, a1, g1, b1⟩ := C01Display.frame_step cw caps hsp rows cols s fi hready hag hok
  have h59 : 59 ∉ dec "" := by rw [hemp]; simp
  have hvoc := frame_ok_anyRgb dec cw (mkFrame caps s fi) (CapsOk.su (caps := caps)) (CapsOk.ew (caps := caps)) (CapsOk.sy (caps := caps)) hsp (by rw [hd]; simp) h59 hlp hok2.1 hok2.2
  obtain ⟨e', hr, hs', hf⟩ := run_sim_frame cw _ s.t e hsim b1 hvoc
  refine ⟨e', hr, ⟨r1, hcur, hs'⟩, a1, ⟨?_, ?_⟩, hf⟩
  · have := hs'.grid
    rw [show (run cw s.t (renderFrame cw (mkFrame caps s fi)).2).grid = Expected.expected cw caps fi.next from g1] at this
    exact this
  · have hc := hcur
    unfold CursorAs at hc
    split
    · rename_i hv
      simp only [hv, if_true] at hc
      obtain ⟨c1, c2, c3, c4, c5⟩ := hc
      have hvis := hs'.vis; have hrow := hs'.row; have hcol := hs'.col; have hpw := hs'.pw; have hsh := hs'.shape
      change (stepH cw caps s fi).t.cursorVisible = e'.mode.dectcem at hvis
      change ((stepH cw caps s fi).t.row : Int) = e'.cur.row at hrow
      change ((stepH cw caps s fi).t.col : Int) = _ at hcol
      change (stepH cw caps s fi).t.pw = _ at hpw
      change ((stepH cw caps s fi).t.cursorShape : Int) = e'.cur.shape at hsh
      rw [c4] at hpw
      have hnp : ¬ (e'.cur.col ≥ (cols : Int)) := by intro h; simp [h] at hpw
      rw [if_neg hnp] at hcol
      refine ⟨by rw [← hvis]; exact c1, by omega, by omega, by rw [← hsh, c5]⟩
    · rename_i hv
      simp only [hv] at hc
      have hvis := hs'.vis
      change (stepH cw caps s fi).t.cursorVisible = e'.mode.dectcem at hvis
      rw [← hvis]; exact hc

/-- The same for the renderer as it is now (`renderFrameC`, no fitting hypothesis). -/
theorem frame_shows_genC (dec : String → G) (cw : String → Nat) (hsp : cw "20" = 1) (hd : dec "20" = [32]) (hemp : dec "" = []) (hlp : LpOk dec)
    (rows cols : Nat) (s : HState) (e : Emu) (fi : FrameIn) (hready : Ready s.t s.last rows cols)
    (hsim : DSim dec s.t e rows cols)
    (hag : fi.refresh = false → Agree cw caps s.t s.last)
    (hok : FrameInOkC cw caps rows cols fi) (hok2 : EmuFrameOk dec cw fi)
    (hcur : CursorAs (stepHC cw caps s fi).t fi.cursor) :
    ∃ e', runOps e (opsOfToks dec cw (renderFrameC cw (mkFrame caps s fi)).2) = .ok e' ∧
      Linked dec cw (stepHC cw caps s fi) e' rows cols ∧
      Agree cw caps (stepHC cw caps s fi).t (stepHC cw caps s fi).last ∧
      ShowsCK caps dec cw fi e' ∧ EFrame e e' := by
  have htoks : (renderFrameC cw (mkFrame caps s fi)).2 = (renderFrame cw (mkFrame caps s (clipIn cw fi))).2 := by
    rw [Lemmas.RenderClip.renderFrameC_eq]; rfl
  rw [htoks, stepHC_eq]
  rw [stepHC_eq] at hcur
  obtain ⟨e', hr, hl, ag, sh, hf⟩ := frame_shows_gen dec cw hsp hd hemp hlp rows cols s e (clipIn cw fi) hready hsim hag
    (clipIn_ok cw caps hsp rows cols fi hok) (clipIn_emuOk dec cw hsp hd fi hok2) hcur
  refine ⟨e', hr, hl, ag, ?_, hf⟩
  have hs1 := sh.1
  unfold ShowsCK
  unfold ShowsK at sh
  rw [Lemmas.RenderClip.expectedC_eq]
  exact ⟨sh.1, sh.2⟩

/-! ### the invariant of a history on the alternate screen -/

/-- After a frame: linked (C01's `Ready`, the cursor as requested, `DSim`), the display still shows
    the frame (`Agree`), and the application is on the alternate screen. -/
structure LinkedAlt (caps : Caps) (dec : String → G) (cw : String → Nat) (s : HState) (e : Emu) (rows cols : Nat) : Prop where
  linked : Linked dec cw s e rows cols
  agree : Agree cw caps s.t s.last
  alt : e.mode.smcup = true

omit [CapsOk caps] in
theorem LinkedAlt.toR {dec : String → G} {cw : String → Nat} {s : HState} {e : Emu} {rows cols : Nat}
    (hl : LinkedAlt caps dec cw s e rows cols) : LinkedR dec cw s e rows cols := by
  refine ⟨hl.linked.ready, ?_, hl.linked.sim, hl.alt⟩
  intro hv
  have hc := hl.linked.cursor
  unfold CursorAs at hc
  simpa [hv] using hc

/-- A frame from a linked state (any frame kind). -/
theorem frame_alt (dec : String → G) (cw : String → Nat) (hsp : cw "20" = 1) (hd : dec "20" = [32]) (hemp : dec "" = []) (hlp : LpOk dec)
    (rows cols : Nat) (s : HState) (e : Emu) (fi : FrameIn) (hl : LinkedAlt caps dec cw s e rows cols)
    (hok : FrameInOkC cw caps rows cols fi) (hok2 : EmuFrameOk dec cw fi) :
    ∃ e', runOps e (opsOfToks dec cw (renderFrameC cw (mkFrame caps s fi)).2) = .ok e' ∧
      LinkedAlt caps dec cw (stepHC cw caps s fi) e' rows cols ∧ ShowsCK caps dec cw fi e' := by
  have hcur : CursorAs (stepHC cw caps s fi).t fi.cursor := by
    rw [stepHC_eq]
    refine C01.cursor_as_requested cw cw (mkFrame caps s (clipIn cw fi)) s.t ?_ hl.linked.cursor
    rw [hl.linked.ready.trows, hl.linked.ready.tcols]; exact hok.2.2.2
  obtain ⟨e', hr, l1, a1, sh, hf⟩ := frame_shows_genC dec cw hsp hd hemp hlp rows cols s e fi hl.linked.ready hl.linked.sim
    (fun _ => hl.agree) hok hok2 hcur
  exact ⟨e', hr, ⟨l1, a1, by rw [hf.smcup]; exact hl.alt⟩, sh⟩

/-- The REFRESH frame after a resize: the cursor clause does not need the previous position. -/
theorem frame_after_resize (dec : String → G) (cw : String → Nat) (hsp : cw "20" = 1) (hd : dec "20" = [32]) (hemp : dec "" = []) (hlp : LpOk dec)
    (rows cols : Nat) (s : HState) (e : Emu) (fi : FrameIn) (hl : LinkedR dec cw s e rows cols)
    (hrf : fi.refresh = true)
    (hok : FrameInOkC cw caps rows cols fi) (hok2 : EmuFrameOk dec cw fi) :
    ∃ e', runOps e (opsOfToks dec cw (renderFrameC cw (mkFrame caps s fi)).2) = .ok e' ∧
      LinkedAlt caps dec cw (stepHC cw caps s fi) e' rows cols ∧ ShowsCK caps dec cw fi e' := by
  have hokc := clipIn_ok cw caps hsp rows cols fi hok
  have dm := hl.sim.dim
  -- the screen and the `last` buffer have a first cell
  obtain ⟨c, cs, ns, hn⟩ : ∃ c cs ns, (clipIn cw fi).next = (c :: cs) :: ns := by
    have h1 := hokc.1; have h2 := hokc.2.1
    cases hg : (clipIn cw fi).next with
    | nil => rw [hg] at h1; have := dm.r1; simp at h1; omega
    | cons r ns =>
      cases hr : r with
      | nil => have hlen := h2 r (by rw [hg]; simp); rw [hr] at hlen; have := dm.c1; simp at hlen; omega
      | cons c cs => exact ⟨c, cs, ns, rfl⟩
  obtain ⟨l0, ls0, ls, hlast⟩ : ∃ l0 ls0 ls, s.last = (l0 :: ls0) :: ls := by
    have h1 := hl.ready.llen; have h2 := hl.ready.lcols
    cases hg : s.last with
    | nil => rw [hg] at h1; have := dm.r1; simp at h1; omega
    | cons r ns =>
      cases hr : r with
      | nil => have hlen := h2 r (by rw [hg]; simp); rw [hr] at hlen; have := dm.c1; simp at hlen; omega
      | cons c cs => exact ⟨c, cs, ns, rfl⟩
  have hsx : c.sixel = false := (hokc.2.2.2.1 (c :: cs) (by rw [hn]; simp) c (by simp)).1
  have hne : (renderBody cw (mkFrame caps s (clipIn cw fi))).2 ≠ [] :=
    Lemmas.RenderCursor.renderBody_nonempty cw (mkFrame caps s (clipIn cw fi)) hrf c cs ns l0 ls0 ls hn hlast hsx
  have hcur : CursorAs (stepHC cw caps s fi).t fi.cursor := by
    rw [stepHC_eq]
    refine Lemmas.RenderCursor.cursor_nonempty cw cw (mkFrame caps s (clipIn cw fi)) s.t ?_ hne hl.vis
    rw [hl.ready.trows, hl.ready.tcols]; exact hok.2.2.2
  obtain ⟨e', hr, l1, a1, sh, hf⟩ := frame_shows_genC dec cw hsp hd hemp hlp rows cols s e fi hl.ready hl.sim
    (fun h => by rw [hrf] at h; cases h) hok hok2 hcur
  exact ⟨e', hr, ⟨l1, a1, by rw [hf.smcup]; exact hl.alt⟩, sh⟩

/-! ### histories of segments -/

def SegOk (caps : Caps) (dec : String → G) (cw : String → Nat) (sg : Seg) : Prop :=
  (1 ≤ sg.cols ∧ sg.cols ≤ 65535 ∧ 1 ≤ sg.rows ∧ sg.rows ≤ 65535) ∧
  (∀ fi, sg.frames.head? = some fi → fi.refresh = true) ∧
  ∀ fi ∈ sg.frames, FrameInOkC cw caps sg.rows sg.cols fi ∧ EmuFrameOk dec cw fi

/-- The emulator model through a whole history: per segment `resize(cols, rows)`, then frame after
    frame what the renderer model (`renderFrameC`, with reallocated buffers) writes. -/
def runSegs (caps : Caps) (dec : String → G) (cw : String → Nat) : HState → Emu → List Seg → M Emu
  | _, e, [] => .ok e
  | s, e, sg :: rest => do
    let e1 ← runOps e [.resize sg.cols sg.rows]
    let s1 := afterResize sg.cols sg.rows e1 s
    let e2 ← runFramesCK caps dec cw s1 e1 sg.frames
    runSegs caps dec cw (sg.frames.foldl (stepHC cw caps) s1) e2 rest

/-- Frames of one size from a linked state: no panic, linked at the end, the last frame shown. -/
theorem frames_alt (dec : String → G) (cw : String → Nat) (hsp : cw "20" = 1) (hd : dec "20" = [32]) (hemp : dec "" = []) (hlp : LpOk dec)
    (rows cols : Nat) :
    ∀ (fis : List FrameIn) (s : HState) (e : Emu), LinkedAlt caps dec cw s e rows cols →
      (∀ fi ∈ fis, FrameInOkC cw caps rows cols fi ∧ EmuFrameOk dec cw fi) →
      ∃ e', runFramesCK caps dec cw s e fis = .ok e' ∧ LinkedAlt caps dec cw (fis.foldl (stepHC cw caps) s) e' rows cols ∧
        ∀ fi, fis.getLast? = some fi → ShowsCK caps dec cw fi e' := by
  intro fis
  induction fis with
  | nil => intro s e hl _; exact ⟨e, rfl, hl, fun fi h => by simp at h⟩
  | cons a rest ih =>
    intro s e hl hok
    obtain ⟨e1, hr1, hl1, sh1⟩ := frame_alt dec cw hsp hd hemp hlp rows cols s e a hl (hok a (by simp)).1 (hok a (by simp)).2
    obtain ⟨e2, hr2, hl2, sh2⟩ := ih (stepHC cw caps s a) e1 hl1 (fun fi h => hok fi (by simp [h]))
    refine ⟨e2, by simp only [runFramesCK, hr1, bind, Except.bind]; exact hr2, hl2, ?_⟩
    intro fi hlast
    cases rest with
    | nil =>
      simp only [List.getLast?_singleton, Option.some.injEq] at hlast
      subst hlast
      simp only [runFramesCK] at hr2
      cases hr2
      exact sh1
    | cons b rest' =>
      rw [List.getLast?_cons_cons] at hlast
      exact sh2 fi hlast

/-- One segment. -/
theorem seg_alt (dec : String → G) (cw : String → Nat) (hsp : cw "20" = 1) (hd : dec "20" = [32]) (hemp : dec "" = []) (hlp : LpOk dec)
    (rows cols : Nat) (s : HState) (e : Emu) (hl : LinkedR dec cw s e rows cols) (sg : Seg) (hsg : SegOk caps dec cw sg) :
    ∃ e1 e2, runOps e [.resize sg.cols sg.rows] = .ok e1 ∧
      runFramesCK caps dec cw (afterResize sg.cols sg.rows e1 s) e1 sg.frames = .ok e2 ∧
      LinkedR dec cw (sg.frames.foldl (stepHC cw caps) (afterResize sg.cols sg.rows e1 s)) e2 sg.rows sg.cols ∧
      ∀ fi, sg.frames.getLast? = some fi → ShowsCK caps dec cw fi e2 := by
  obtain ⟨⟨hw1, hw2, hh1, hh2⟩, hhead, hfr⟩ := hsg
  obtain ⟨e1, hr1, lr⟩ := resize_linked dec cw rows cols s e hl sg.cols sg.rows hw1 hw2 hh1 hh2
  cases hf : sg.frames with
  | nil =>
    exact ⟨e1, e1, hr1, rfl, lr, fun fi h => by simp at h⟩
  | cons a rest =>
    have ha : a.refresh = true := hhead a (by rw [hf]; rfl)
    have hoka := hfr a (by rw [hf]; simp)
    obtain ⟨e2, hr2, hl2, sh2⟩ := frame_after_resize dec cw hsp hd hemp hlp sg.rows sg.cols _ e1 a lr ha hoka.1 hoka.2
    obtain ⟨e3, hr3, hl3, sh3⟩ := frames_alt dec cw hsp hd hemp hlp sg.rows sg.cols rest _ e2 hl2
      (fun fi h => hfr fi (by rw [hf]; simp [h]))
    refine ⟨e1, e3, hr1, by simp only [runFramesCK, hr2, bind, Except.bind]; exact hr3, hl3.toR, ?_⟩
    intro fi hlast
    cases rest with
    | nil =>
      simp only [List.getLast?_singleton, Option.some.injEq] at hlast
      subst hlast
      simp only [runFramesCK] at hr3
      cases hr3
      exact sh2
    | cons b rest' =>
      rw [List.getLast?_cons_cons] at hlast
      exact sh3 fi hlast

/-- **C12, the composition theorem for whole histories INCLUDING RESIZES.** From any state of an
    application on the alternate screen whose last flush is complete (`LinkedR`: what the real
    start-up establishes — `emu_real_startup_on_alt` — and what every frame and every resize
    re-establish), for every list of admissible segments — each a resize of the emulator to any size
    1×1 … 65535² followed by any number of admissible frames at that size, the first a refresh — the
    emulator model fed `resize` and, frame after frame, the parsed sequences of what the renderer model
    writes, never panics, and after the last frame of the last segment — hence, the hypothesis being
    closed under truncation of the history, after EVERY frame of every segment — its grid shows the
    application's screen cell for cell and its cursor is as requested, at the size of that segment. -/
theorem emu_shows_across_resizes (dec : String → G) (cw : String → Nat) (hsp : cw "20" = 1) (hd : dec "20" = [32])
    (hemp : dec "" = []) (hlp : LpOk dec) :
    ∀ (segs : List Seg) (rows cols : Nat) (s : HState) (e : Emu), LinkedR dec cw s e rows cols →
      (∀ sg ∈ segs, SegOk caps dec cw sg) →
      ∃ e', runSegs caps dec cw s e segs = .ok e' ∧
        ∀ sg, segs.getLast? = some sg → Lemmas.Emu.EmuInv e' sg.rows sg.cols ∧ e'.mode.smcup = true ∧
          ∀ fi, sg.frames.getLast? = some fi → ShowsCK caps dec cw fi e' := by
  intro segs
  induction segs with
  | nil => intro rows cols s e _ _; exact ⟨e, rfl, fun sg h => by simp at h⟩
  | cons sg rest ih =>
    intro rows cols s e hl hok
    obtain ⟨e1, e2, hr1, hr2, lr, sh⟩ := seg_alt dec cw hsp hd hemp hlp rows cols s e hl sg (hok sg (by simp))
    obtain ⟨e3, hr3, h3⟩ := ih sg.rows sg.cols _ e2 lr (fun x hx => hok x (by simp [hx]))
    refine ⟨e3, by simp only [runSegs, hr1, hr2, bind, Except.bind]; exact hr3, ?_⟩
    intro sg' hlast
    cases rest with
    | nil =>
      simp only [List.getLast?_singleton, Option.some.injEq] at hlast
      subst hlast
      simp only [runSegs] at hr3
      cases hr3
      exact ⟨lr.sim.inv, lr.alt, sh⟩
    | cons b rest' =>
      rw [List.getLast?_cons_cons] at hlast
      exact h3 sg' hlast

/-- **The same in equational form**: after the last frame of the last segment (hence after every
    frame of every segment) the emulator's grid read back (`Model.C12Read.readScreen`) IS the
    application's screen and its cursor read back IS the requested cursor. -/
theorem emu_reads_back_across_resizes (enc : G → String) (dec : String → G) (cw : String → Nat) (hsp : cw "20" = 1)
    (hd : dec "20" = [32]) (hemp : dec "" = []) (hlp : LpOk dec) (segs : List Seg) (rows cols : Nat) (s : HState) (e : Emu)
    (hl : LinkedR dec cw s e rows cols) (hok : ∀ sg ∈ segs, SegOk caps dec cw sg)
    (sg : Seg) (fi : FrameIn) (hsg : segs.getLast? = some sg) (hfi : sg.frames.getLast? = some fi)
    (he : EncOk enc dec fi) :
    ∃ e', runSegs caps dec cw s e segs = .ok e' ∧
      Model.C12Read.readScreen enc e'.active = Expected.expectedC cw caps fi.next ∧
      Model.C12Read.readCursor e' = wantCursor fi := by
  obtain ⟨e', hr, h⟩ := emu_shows_across_resizes dec cw hsp hd hemp hlp segs rows cols s e hl hok
  exact ⟨e', hr, shows_reads_back enc dec cw fi e' ((h sg hsg).2.2 fi hfi) he⟩

/-- After EVERY frame: for any frame `k` of any segment of an admissible history, the run over the
    history truncated after that frame ends in a state that shows it. -/
theorem emu_shows_every_frame_resized (dec : String → G) (cw : String → Nat) (hsp : cw "20" = 1) (hd : dec "20" = [32])
    (hemp : dec "" = []) (hlp : LpOk dec) (rows cols : Nat) (s : HState) (e : Emu) (hl : LinkedR dec cw s e rows cols)
    (pre post : List Seg) (sg : Seg) (hok : ∀ x ∈ pre ++ sg :: post, SegOk caps dec cw x)
    (k : Nat) (fk : FrameIn) (hk : sg.frames[k]? = some fk) :
    ∃ ek, runSegs caps dec cw s e (pre ++ [{ sg with frames := sg.frames.take (k + 1) }]) = .ok ek ∧ ShowsCK caps dec cw fk ek ∧
      Lemmas.Emu.EmuInv ek sg.rows sg.cols := by
  have hklt : k < sg.frames.length := by
    rcases Nat.lt_or_ge k sg.frames.length with h | h
    · exact h
    · rw [List.getElem?_eq_none h] at hk; cases hk
  have hsg := hok sg (by simp)
  have hsg' : SegOk caps dec cw { sg with frames := sg.frames.take (k + 1) } := by
    refine ⟨hsg.1, ?_, ?_⟩
    · intro fi hfi
      apply hsg.2.1
      cases hf : sg.frames with
      | nil => rw [hf] at hklt; simp at hklt
      | cons a r => simp only [hf, List.take_succ_cons, List.head?_cons] at hfi ⊢; exact hfi
    · intro fi hfi
      exact hsg.2.2 fi (List.mem_of_mem_take hfi)
  obtain ⟨ek, hr, hsh⟩ := emu_shows_across_resizes dec cw hsp hd hemp hlp (pre ++ [{ sg with frames := sg.frames.take (k + 1) }])
    rows cols s e hl (by
      intro x hx
      rcases List.mem_append.mp hx with h | h
      · exact hok x (by simp [h])
      · simp only [List.mem_singleton] at h; subst h; exact hsg')
  obtain ⟨hi, _, hs⟩ := hsh { sg with frames := sg.frames.take (k + 1) } (by simp)
  refine ⟨ek, hr, hs fk ?_, hi⟩
  show (sg.frames.take (k + 1)).getLast? = some fk
  rw [List.getLast?_eq_getElem?]
  have : (sg.frames.take (k + 1)).length = k + 1 := by rw [List.length_take]; omega
  rw [this, List.getElem?_take]
  simpa using hk

/-! ### the resize as a host application does it: `Draw` into a window of another size -/

/-! ### "… and drawing the emulator into a host window of that size yields those same cells" -/

open VaxisModel.Model.EmuDraw VaxisModel.Lemmas.C12Draw VaxisModel.Lemmas.EmuDraw in
/-- **After every frame of every segment, `Draw` into a host window of that segment's size reproduces
    the application's screen** (`draw_reproduces_screen` for the renderer as it is now, at the end of
    any history with resizes): no resize happens, the `SetCell` calls are row by row exactly one per
    glyph cell of the application's screen (`expectedC`), each carrying a cell that shows that glyph
    and landing on the host cell with the same coordinates; the cursor shown in a focused window is the
    application's cursor. -/
theorem emu_draw_across_resizes (dec : String → G) (cw : String → Nat) (hsp : cw "20" = 1) (hd : dec "20" = [32])
    (hemp : dec "" = []) (hlp : LpOk dec) (segs : List Seg) (rows cols : Nat) (s : HState) (e : Emu)
    (hl : LinkedR dec cw s e rows cols) (hok : ∀ sg ∈ segs, SegOk caps dec cw sg)
    (sg : Seg) (fi : FrameIn) (hsg : segs.getLast? = some sg) (hfi : sg.frames.getLast? = some fi) (focused : Bool) :
    ∃ (e' : Emu) (per : List (List DrawCall)), runSegs caps dec cw s e segs = .ok e' ∧
      draw true Model.Emu.Fixes.current e' sg.cols sg.rows focused =
        .ok ({ e' with hasVx := true }, per.flatten, shownCursor true e' focused) ∧
      per.length = sg.rows ∧
      (∀ (k : Nat) (l : List DrawCall), per[k]? = some l →
        ∃ drow, (Expected.expectedC cw caps fi.next)[k]? = some drow ∧
          (∀ call ∈ l, ∃ (j : Nat) (d : DCell), call.col = (j : Int) ∧ call.row = (k : Int) ∧ drow[j]? = some d ∧
            d ≠ .cont ∧ HostRel dec d call.cell ∧
            setCellChain sg.cols sg.rows [Win.root sg.cols sg.rows] call.col call.row = some ((j : Int), (k : Int))) ∧
          (∀ (j : Nat) (d : DCell), drow[j]? = some d → d ≠ .cont → ∃ call ∈ l, call.col = (j : Int))) ∧
      shownCursor true e' true = (if fi.cursor.visible then some (fi.cursor.col, fi.cursor.row) else none) := by
  obtain ⟨e', hr, h⟩ := emu_shows_across_resizes dec cw hsp hd hemp hlp segs rows cols s e hl hok
  obtain ⟨hi, _, hs⟩ := h sg hsg
  have hsh := hs fi hfi
  have hsgok := hok sg (List.mem_of_getLast? hsg)
  have dm : Lemmas.Emu.Dim sg.rows sg.cols := ⟨hsgok.1.2.2.1, hsgok.1.1, hsgok.1.2.2.2, hsgok.1.2.1⟩
  have hrel := hsh.1
  rw [Lemmas.RenderClip.expectedC_eq] at hrel
  obtain ⟨per, h1, h2, h3⟩ := draw_reproduces_screen dec cw (clipIn cw fi).next e' sg.rows sg.cols hi dm hrel focused
  refine ⟨e', per, hr, h1, h2, ?_, ?_⟩
  · rw [Lemmas.RenderClip.expectedC_eq]; exact h3
  · have hfiok := hsgok.2.2 fi (List.mem_of_getLast? hfi)
    have hsh' : ShowsK caps dec cw (clipIn cw fi) e' := by
      unfold ShowsK
      unfold ShowsCK at hsh
      rw [Lemmas.RenderClip.expectedC_eq] at hsh
      exact hsh
    exact draw_shows_cursor dec cw (clipIn cw fi) e' sg.rows sg.cols hi hsh'
      (fun hv => by have := (hfiok.1.2.2.2 hv).2.2; exact_mod_cast this)


/-! ### with the parser's grapheme clustering (the wire `opsOfToksM`) -/

open VaxisModel.Lemmas.C12Cluster

/-- `runFramesCK` with the parser's clustering of consecutive text. -/
def runFramesMK (caps : Caps) (merges : String → String → Bool) (cat : String → String → String) (dec : String → G)
    (cw : String → Nat) : HState → Emu → List FrameIn → M Emu
  | _, e, [] => .ok e
  | s, e, fi :: rest => do
    let e' ← runOps e (opsOfToksM merges cat dec cw (renderFrameC cw (mkFrame caps s fi)).2)
    runFramesMK caps merges cat dec cw (stepHC cw caps s fi) e' rest

/-- `runSegs` with the parser's clustering of consecutive text. -/
def runSegsM (caps : Caps) (merges : String → String → Bool) (cat : String → String → String) (dec : String → G)
    (cw : String → Nat) : HState → Emu → List Seg → M Emu
  | _, e, [] => .ok e
  | s, e, sg :: rest => do
    let e1 ← runOps e [.resize sg.cols sg.rows]
    let s1 := afterResize sg.cols sg.rows e1 s
    let e2 ← runFramesMK caps merges cat dec cw s1 e1 sg.frames
    runSegsM caps merges cat dec cw (sg.frames.foldl (stepHC cw caps) s1) e2 rest

omit [CapsOk caps] in
theorem frame_noMerge (merges : String → String → Bool) (cw : String → Nat) (s : HState) (fi : FrameIn)
    (h : C12.NoMergeGrid merges fi.next) : NoMerge merges (renderFrameC cw (mkFrame caps s fi)).2 := by
  have hS : ∀ k ∈ (renderFrameC cw (mkFrame caps s fi)).2,
      TextIn (fun g => g = "20" ∨ ∃ r ∈ fi.next, ∃ c ∈ r, g = c.g) k := by
    rw [Lemmas.RenderClip.renderFrameC_eq]
    apply frame_textIn _ (Or.inl rfl)
    intro r hr c hc
    obtain ⟨l, hl, rfl⟩ := List.mem_map.mp hr
    obtain ⟨c0, h0, hc0⟩ := Lemmas.RenderClip.clipRow_mem cw l c hc
    rcases hc0 with h1 | h1
    · exact Or.inr ⟨l, hl, c0, h0, by rw [h1]⟩
    · exact Or.inl (by rw [h1])
  intro a b ha hb
  exact h a b (hS _ ha) (hS _ hb)

omit [CapsOk caps] in
theorem runFramesMK_eq (merges : String → String → Bool) (cat : String → String → String) (dec : String → G) (cw : String → Nat) :
    ∀ (fis : List FrameIn) (s : HState) (e : Emu), (∀ fi ∈ fis, C12.NoMergeGrid merges fi.next) →
      runFramesMK caps merges cat dec cw s e fis = runFramesCK caps dec cw s e fis := by
  intro fis
  induction fis with
  | nil => intro s e _; rfl
  | cons a rest ih =>
    intro s e h
    simp only [runFramesMK, runFramesCK]
    rw [opsOfToksM_eq merges cat dec cw _ (frame_noMerge merges cw s a (h a (by simp)))]
    cases hr : runOps e (opsOfToks dec cw (renderFrameC cw (mkFrame caps s a)).2) with
    | error p => rfl
    | ok e1 =>
      simp only [bind, Except.bind]
      exact ih _ e1 (fun fi hfi => h fi (by simp [hfi]))

omit [CapsOk caps] in
theorem runSegsM_eq (merges : String → String → Bool) (cat : String → String → String) (dec : String → G) (cw : String → Nat) :
    ∀ (segs : List Seg) (s : HState) (e : Emu), (∀ sg ∈ segs, ∀ fi ∈ sg.frames, C12.NoMergeGrid merges fi.next) →
      runSegsM caps merges cat dec cw s e segs = runSegs caps dec cw s e segs := by
  intro segs
  induction segs with
  | nil => intro s e _; rfl
  | cons sg rest ih =>
    intro s e h
    simp only [runSegsM, runSegs]
    cases h1 : runOps e [.resize sg.cols sg.rows] with
    | error p => rfl
    | ok e1 =>
      simp only [bind, Except.bind]
      rw [runFramesMK_eq merges cat dec cw sg.frames _ e1 (h sg (by simp))]
      cases h2 : runFramesCK caps dec cw (afterResize sg.cols sg.rows e1 s) e1 sg.frames with
      | error p => rfl
      | ok e2 => simp only; exact ih _ e2 (fun x hx => h x (by simp [hx]))

/-- **C12, the composition theorem at its most concrete**: whole histories including resizes, the
    emulator fed what its parser delivers when it re-segments consecutive text writes (`opsOfToksM`,
    for whatever `merges` / `cat` the parser implements), any capability set with or without direct
    colour — for histories in which no two graphemes of a frame (blank included) merge when written
    back to back (`NoMergeGrid`; necessary: known finding F112d). -/
theorem emu_shows_across_resizes_clustered (merges : String → String → Bool) (cat : String → String → String)
    (dec : String → G) (cw : String → Nat) (hsp : cw "20" = 1) (hd : dec "20" = [32]) (hemp : dec "" = []) (hlp : LpOk dec)
    (segs : List Seg) (rows cols : Nat) (s : HState) (e : Emu) (hl : LinkedR dec cw s e rows cols)
    (hok : ∀ sg ∈ segs, SegOk caps dec cw sg) (hnm : ∀ sg ∈ segs, ∀ fi ∈ sg.frames, C12.NoMergeGrid merges fi.next) :
    ∃ e', runSegsM caps merges cat dec cw s e segs = .ok e' ∧
      ∀ sg, segs.getLast? = some sg → Lemmas.Emu.EmuInv e' sg.rows sg.cols ∧ e'.mode.smcup = true ∧
        ∀ fi, sg.frames.getLast? = some fi → ShowsCK caps dec cw fi e' := by
  rw [runSegsM_eq merges cat dec cw segs s e hnm]
  exact emu_shows_across_resizes dec cw hsp hd hemp hlp segs rows cols s e hl hok

/-! ### the wire, against the renderer's SGR templates (sequences.go, regenerated) -/

open VaxisModel.Model.C12Replies VaxisModel.Lemmas.C12Wire in
omit [CapsOk caps] in
/-- **The colour templates on the wire**: for every index / channel value, the bytes `render()` produces
    from `fgIndexSet`, `bgIndexSet`, `fgRGBSet`, `bgRGBSet` parse to the sequence `opsOf` hands to the
    emulator model for the renderer model's token (`38:5:i`, `48:5:i`, `38:2:r:g:b`, `48:2:r:g:b` with
    colon sub-parameters). Completes `Props.C12.facts_wire` for the SGR vocabulary of `capsOf`. -/
theorem facts_wire_sgr (dec : String → G) (tw : String → Nat) (i r g b : Nat) :
    wireMatches (instFmt (strC "fgIndexSet") [intBytes i]) (opsOf dec tw (.sgr [[38, 5, i]])) = true ∧
    wireMatches (instFmt (strC "bgIndexSet") [intBytes i]) (opsOf dec tw (.sgr [[48, 5, i]])) = true ∧
    wireMatches (instFmt (strC "fgRGBSet") [intBytes r, intBytes g, intBytes b]) (opsOf dec tw (.sgr [[38, 2, r, g, b]])) = true ∧
    wireMatches (instFmt (strC "bgRGBSet") [intBytes r, intBytes g, intBytes b]) (opsOf dec tw (.sgr [[48, 2, r, g, b]])) = true := by
  have h1 : strC "fgIndexSet" = [27, 91, 51, 56, 58, 53, 58, 37, 100, 109] := by decide
  have h2 : strC "bgIndexSet" = [27, 91, 52, 56, 58, 53, 58, 37, 100, 109] := by decide
  have h3 : strC "fgRGBSet" = [27, 91, 51, 56, 58, 50, 58, 37, 100, 58, 37, 100, 58, 37, 100, 109] := by decide
  have h4 : strC "bgRGBSet" = [27, 91, 52, 56, 58, 50, 58, 37, 100, 58, 37, 100, 58, 37, 100, 109] := by decide
  refine ⟨?_, ?_, ?_, ?_⟩
  · rw [h1]; simp [instFmt, opsOf, wireMatches, csiWire, paramBytes, sgrParam, List.intercalate, intBytes, natDigits]
  · rw [h2]; simp [instFmt, opsOf, wireMatches, csiWire, paramBytes, sgrParam, List.intercalate, intBytes, natDigits]
  · rw [h3]; simp [instFmt, opsOf, wireMatches, csiWire, paramBytes, sgrParam, List.intercalate, intBytes, natDigits]
  · rw [h4]; simp [instFmt, opsOf, wireMatches, csiWire, paramBytes, sgrParam, List.intercalate, intBytes, natDigits]

open VaxisModel.Model.C12Replies VaxisModel.Lemmas.C12Wire in
omit [CapsOk caps] in
/-- The one-digit colour templates (`fgSet`, `bgSet`, `fgBrightSet`, `bgBrightSet`, digits 0–7) and the
    attribute / reset constants parse to the single-parameter `CSI n m` of the renderer model's tokens. -/
theorem facts_wire_sgr_consts (dec : String → G) (tw : String → Nat) :
    ((List.range 8).all fun i =>
      wireMatches (instFmt (strC "fgSet") [intBytes i]) (opsOf dec tw (.sgr [[30 + i]])) &&
      wireMatches (instFmt (strC "bgSet") [intBytes i]) (opsOf dec tw (.sgr [[40 + i]])) &&
      wireMatches (instFmt (strC "fgBrightSet") [intBytes i]) (opsOf dec tw (.sgr [[90 + i]])) &&
      wireMatches (instFmt (strC "bgBrightSet") [intBytes i]) (opsOf dec tw (.sgr [[100 + i]]))) = true ∧
    ([("boldSet", 1), ("dimSet", 2), ("italicSet", 3), ("underlineSet", 4), ("blinkSet", 5), ("reverseSet", 7),
      ("hiddenSet", 8), ("strikethroughSet", 9), ("boldDimReset", 22), ("italicReset", 23), ("underlineReset", 24),
      ("blinkReset", 25), ("reverseReset", 27), ("hiddenReset", 28), ("strikethroughReset", 29), ("fgReset", 39),
      ("bgReset", 49)].all fun (p : String × Nat) => wireMatches (strC p.1) (opsOf dec tw (.sgr [[p.2]]))) = true :=
  ⟨rfl, rfl⟩

/-! ### the instances: with and without `COLORTERM=truecolor` -/

/-- The capability set of a Vaxis inside the emulator whose environment has `COLORTERM=truecolor`
    (`emu_dialogue_caps_any`): `emuCaps` plus direct colour. -/
def emuCapsRgb : Caps := { emuCaps with rgb := true }

instance : CapsOk emuCapsRgb := ⟨rfl, rfl, rfl⟩
instance : CapsOk emuCaps := ⟨rfl, rfl, rfl⟩

/-- **C12, the composition theorem for whole histories including resizes, with `COLORTERM=truecolor`**
    (the renderer writes direct colours `38:2:r:g:b` / `48:2:r:g:b`; `expectedC cw emuCapsRgb` shows
    RGB colours as they are instead of their palette fallback): no panic, and after every frame of
    every segment the emulator shows the application's screen and cursor. -/
theorem emu_shows_across_resizes_colorterm (dec : String → G) (cw : String → Nat) (hsp : cw "20" = 1) (hd : dec "20" = [32])
    (hemp : dec "" = []) (hlp : LpOk dec) (segs : List Seg) (rows cols : Nat) (s : HState) (e : Emu) (hl : LinkedR dec cw s e rows cols)
    (hok : ∀ sg ∈ segs, SegOk emuCapsRgb dec cw sg) :
    ∃ e', runSegs emuCapsRgb dec cw s e segs = .ok e' ∧
      ∀ sg, segs.getLast? = some sg → Lemmas.Emu.EmuInv e' sg.rows sg.cols ∧ e'.mode.smcup = true ∧
        ∀ fi, sg.frames.getLast? = some fi → ShowsCK emuCapsRgb dec cw fi e' :=
  emu_shows_across_resizes dec cw hsp hd hemp hlp segs rows cols s e hl hok

/-- At `emuCaps` the parametric development is the one of `Props/C12Resize.lean`. -/
theorem runSegs_emuCaps (dec : String → G) (cw : String → Nat) :
    ∀ (segs : List Seg) (s : HState) (e : Emu), runSegs emuCaps dec cw s e segs = C12Resize.runSegs dec cw s e segs := by
  have hf : ∀ (fis : List FrameIn) (s : HState) (e : Emu), runFramesCK emuCaps dec cw s e fis = C12.runFramesC dec cw s e fis := by
    intro fis
    induction fis with
    | nil => intro s e; rfl
    | cons a rest ih =>
      intro s e
      simp only [runFramesCK, C12.runFramesC]
      cases h : runOps e (opsOfToks dec cw (renderFrameC cw (mkFrame emuCaps s a)).2) with
      | error p => rfl
      | ok e1 => simp only [bind, Except.bind]; exact ih _ e1
  intro segs
  induction segs with
  | nil => intro s e; rfl
  | cons sg rest ih =>
    intro s e
    simp only [runSegs, C12Resize.runSegs]
    cases h1 : runOps e [.resize sg.cols sg.rows] with
    | error p => rfl
    | ok e1 =>
      simp only [bind, Except.bind, hf]
      cases h2 : C12.runFramesC dec cw (afterResize sg.cols sg.rows e1 s) e1 sg.frames with
      | error p => rfl
      | ok e2 => simp only; exact ih _ e2

def gridRgb : Grid :=
  [[({ g := "61", style := { fg := 33554432 + 1056816, bg := 33554432 + 255 } } : Cell), { g := "57", style := { bg := 16777220 } }, {}]]

/-- Non-vacuity with direct colour: from the real start-up state, a resize to 3×1 and a refresh frame
    with an RGB-coloured cell, a wide glyph on a palette background and a blank. -/
example :
    let fi : FrameIn := ⟨true, gridRgb, { visible := true, col := 2, style := 1 }, ""⟩
    ∃ e0 e', runOps (Lemmas.EmuRefine.newState 20 6) Model.C12Replies.startupAll = .ok e0 ∧
      runSegs emuCapsRgb C12.decEx C12.cwEx (startState 20 6) e0 [⟨3, 1, [fi]⟩] = .ok e' ∧
      ShowsCK emuCapsRgb C12.decEx C12.cwEx fi e' := by
  intro fi
  obtain ⟨e0, h0, hl⟩ := C12Resize.emu_real_startup_on_alt C12.decEx C12.cwEx rfl
  obtain ⟨e', hr, hsh⟩ := emu_shows_across_resizes_colorterm C12.decEx C12.cwEx rfl rfl rfl C12.lpOk_decEx [⟨3, 1, [fi]⟩] 6 20 (startState 20 6) e0 hl (by
    intro sg hsg
    simp only [List.mem_singleton] at hsg
    subst hsg
    refine ⟨by decide, fun f h => by cases h; rfl, ?_⟩
    intro f hf
    simp only [List.mem_singleton] at hf
    subst hf
    have hcells : ∀ r ∈ gridRgb, ∀ c ∈ r,
        (c.sixel = false ∧ 0 ≤ c.w ∧ Lemmas.RenderDisplay.WidthOk C12.cwEx emuCapsRgb c) ∧ CellOk C12.decEx C12.cwEx c := by
      intro r hr c hc
      simp only [gridRgb, List.mem_cons, List.not_mem_nil, or_false] at hr
      subst hr
      simp only [List.mem_cons, List.not_mem_nil, or_false] at hc
      rcases hc with rfl | rfl | rfl <;> exact ⟨⟨rfl, by decide, Or.inl rfl⟩, by decide, by decide⟩
    exact ⟨⟨rfl, by decide, fun r hr c hc => (hcells r hr c hc).1, fun _ => by decide⟩,
      fun r hr c hc => (hcells r hr c hc).2, by decide⟩)
  exact ⟨e0, e', h0, hr, (hsh _ rfl).2.2 fi rfl⟩

end VaxisModel.Props.C12Caps
