/-
C12 — the property in ONE statement, assembled from the parts (nothing new is proved here; the point
is that the hypotheses and conclusions of the parts line up).

"When the bytes Vaxis emits for any sequence of frames are fed to an embedded terminal emulator of the
same size, the emulator's grid and cursor reproduce the application's screen cell for cell after every
frame, and drawing the emulator into a host window of that size yields those same cells. The replies
the emulator gives to Vaxis's start-up queries are understood by Vaxis as exactly the features the
emulator implements."
-/
import VaxisModel.Props.C12Caps
import VaxisModel.Props.C12Startup

namespace VaxisModel.Props.C12Main
open VaxisModel.Model.Render VaxisModel.Spec VaxisModel.Spec.Display
open VaxisModel.Model.Emu (Emu EOp G M runOps)
open VaxisModel.Model.Input VaxisModel.Model.InputLoop VaxisModel.Model.Startup
open VaxisModel.Model.C12Replies VaxisModel.Lemmas.C12Replies VaxisModel.Lemmas.C12StartupLive
open VaxisModel.Spec.Startup (Opts)
open VaxisModel.Props.C01Display (FrameIn HState)
open VaxisModel.Props.C12 (emuCaps startState)
open VaxisModel.Props.C12Resize (LinkedR Seg)
open VaxisModel.Props.C12Caps
open VaxisModel.Props.C12Read (EncOk wantCursor)
open VaxisModel.Model.C12Read
open VaxisModel.Model.EmuDraw

/-- The renderer's capability set inside the emulator: `emuCaps`, plus direct colour iff the
    environment says `COLORTERM=truecolor`. -/
def capsOf (colorterm : Bool) : Model.Render.Caps := { emuCaps with rgb := colorterm }

instance (b : Bool) : CapsOk (capsOf b) := ⟨rfl, rfl, rfl⟩

/-- **C12, end to end over the models.**

    (1) *The start-up dialogue.* With the emulator model's replies to `sendQueries()` as the inputs of
    Vaxis' input goroutine (any emulator state, host background reported or not), every time-out-free,
    maximal run of C07's start-up system — every interleaving of the input goroutine with `New()` —
    ends with `New()` past `applyQuirks` and the capability record
    `{sixels, unicodeCore, osc11 iff reported, rgb iff COLORTERM}`: the renderer's capability set is
    `capsOf o.colorterm`.

    (2) *The start state.* The emulator model fed everything the real Vaxis writes at start-up (20×6)
    is on the alternate screen, blank, at rest.

    (3) *Every history.* From any such state, for every history of segments — the host gives the
    emulator a size 1×1 … 65535², the application renders any number of admissible frames at that
    size, the first a refresh — rendered under that capability set, the emulator fed `resize` and what
    its parser delivers for the renderer's tokens (grapheme clustering included, no two graphemes of a
    frame merging) never panics, and after the last frame of the last segment (the hypotheses are
    closed under truncation: after EVERY frame) — at the size of that segment —
    * the emulator's grid read back is the application's screen and its cursor read back is the
      requested cursor (equations), and
    * `Draw` into a host window of that size does not resize, makes exactly one `SetCell` per glyph
      cell of the application's screen, each carrying a cell that shows it, and shows the
      application's cursor in a focused window. -/
theorem c12_end_to_end (colorterm : Bool) :
    -- (1)
    (∀ (hostBg : Option (Nat × Nat × Nat)) (e : Emu) (p : Params), 8 ≤ p.qcap →
      VaxisModel.Lemmas.InputLoop.Kinds.safe p.kinds → p.cursorCap ≠ 0 →
      ∀ (o : Opts), o.envUnset = true → o.colorterm = colorterm →
      ∀ (ls : List VaxisModel.Model.Startup.Label) (st : St), inputsOf ls = startupReplies hostBg e →
        (∀ l ∈ ls, isTimeout l = false) → VaxisModel.Model.Startup.run p o (St.init o) ls = some st →
        C12Startup.Quiescent p o st →
        st.phase = .ready ∧ st.sys.dropped = 0 ∧
        ({ rgb := st.sys.vs.caps.rgb, styledUnderlines := st.sys.vs.caps.styledUnderlines,
           explicitWidth := st.sys.vs.caps.explicitWidth, sync := st.sys.vs.caps.synchronizedUpdate } : Model.Render.Caps) = capsOf colorterm) ∧
    -- (2)
    (∀ (dec : String → G) (cw : String → Nat), dec "" = [] →
      ∃ e0, runOps (Lemmas.EmuRefine.newState 20 6) startupAll = .ok e0 ∧ LinkedR dec cw (startState 20 6) e0 6 20) ∧
    -- (3)
    (∀ (merges : String → String → Bool) (cat : String → String → String) (enc : G → String) (dec : String → G)
      (cw : String → Nat), cw "20" = 1 → dec "20" = [32] → dec "" = [] →
      ∀ (segs : List Seg) (rows cols : Nat) (s : HState) (e : Emu), LinkedR dec cw s e rows cols →
        (∀ sg ∈ segs, SegOk (capsOf colorterm) dec cw sg) →
        (∀ sg ∈ segs, ∀ fi ∈ sg.frames, C12.NoMergeGrid merges fi.next) →
        ∀ (sg : Seg) (fi : FrameIn), segs.getLast? = some sg → sg.frames.getLast? = some fi → EncOk enc dec fi →
        ∃ (e' : Emu) (per : List (List DrawCall)),
          runSegsM (capsOf colorterm) merges cat dec cw s e segs = .ok e' ∧
          readScreen enc e'.active = Expected.expectedC cw (capsOf colorterm) fi.next ∧
          readCursor e' = wantCursor fi ∧
          draw true Model.Emu.Fixes.current e' sg.cols sg.rows true =
            .ok ({ e' with hasVx := true }, per.flatten, shownCursor true e' true) ∧
          per.length = sg.rows ∧
          shownCursor true e' true = (if fi.cursor.visible then some (fi.cursor.col, fi.cursor.row) else none)) := by
  refine ⟨?_, ?_, ?_⟩
  · intro hostBg e p hq hk hcap o henv hct ls st hin hnt hrun hquiet
    obtain ⟨h1, _, h3, h4⟩ := C12Startup.emu_dialogue_completes_any hostBg e p hq hk hcap o henv ls st hin hnt hrun hquiet
    refine ⟨h1, h3, ?_⟩
    rw [h4, hct]
    rfl
  · intro dec cw hemp
    exact C12Resize.emu_real_startup_on_alt dec cw hemp
  · intro merges cat enc dec cw hsp hd hemp segs rows cols s e hl hok hnm sg fi hsg hfi henc
    obtain ⟨e', per, hr, hdraw, hlen, _, hcur⟩ :=
      emu_draw_across_resizes (caps := capsOf colorterm) dec cw hsp hd hemp segs rows cols s e hl hok sg fi hsg hfi true
    obtain ⟨e'', hr', h⟩ := emu_shows_across_resizes (caps := capsOf colorterm) dec cw hsp hd hemp segs rows cols s e hl hok
    rw [hr] at hr'
    cases hr'
    obtain ⟨hrs, hrc⟩ := shows_reads_back (caps := capsOf colorterm) enc dec cw fi e' ((h sg hsg).2.2 fi hfi) henc
    refine ⟨e', per, ?_, hrs, hrc, hdraw, hlen, hcur⟩
    rw [runSegsM_eq merges cat dec cw segs s e hnm]
    exact hr

end VaxisModel.Props.C12Main
