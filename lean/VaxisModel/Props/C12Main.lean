/-
C12 — the property in ONE statement, assembled from the parts (nothing new is proved here; the point
is that the hypotheses and conclusions of the parts line up).

"When the bytes Vaxis emits for any sequence of frames are fed to an embedded terminal emulator of the
same size, the emulator's grid and cursor reproduce the application's screen cell for cell after every
frame, and drawing the emulator into a host window of that size yields those same cells. The replies
the emulator gives to Vaxis's start-up queries are understood by Vaxis as exactly the features the
emulator implements."
-/
import VaxisModel.Props.C12Any
import VaxisModel.Props.C12Timers
import VaxisModel.Props.C12StartAny
import VaxisModel.Props.C12Bridge
import VaxisModel.Lemmas.RenderLink

namespace VaxisModel.Props.C12Main
open VaxisModel.Model.Render VaxisModel.Spec VaxisModel.Spec.Display
open VaxisModel.Model.Emu (Emu EOp G M runOps)
open VaxisModel.Model.Input VaxisModel.Model.InputLoop VaxisModel.Model.Startup
open VaxisModel.Model.C12Replies VaxisModel.Lemmas.C12Replies VaxisModel.Lemmas.C12StartupLive
open VaxisModel.Spec.Startup (Opts)
open VaxisModel.Props.C01Display (FrameIn HState)
open VaxisModel.Props.C12 (emuCaps startState)
open VaxisModel.Props.C12Resize (LinkedR Seg)
open VaxisModel.Props.C12Caps VaxisModel.Props.C12Any VaxisModel.Props.C12Timers
open VaxisModel.Lemmas.C12Vocab (LpOk)
open VaxisModel.Props.C12Read (EncOk wantCursor)
open VaxisModel.Model.C12Read
open VaxisModel.Model.EmuDraw

/-- The renderer's capability set inside the emulator: `emuCaps`, plus direct colour iff the
    environment says `COLORTERM=truecolor`. -/
def capsOf (colorterm : Bool) : Model.Render.Caps := { emuCaps with rgb := colorterm }

instance (b : Bool) : CapsOk (capsOf b) := ⟨rfl, rfl, rfl⟩

/-- The decoding hypotheses of the composition theorems are those of the hex decoding of the renderer
    model's opaque strings (`hx.Hex` in the harness, `Lemmas.RenderLink.hexDec`): blank, empty string, and —
    since the F112b repair — no `;` in any OSC 8 parameter field the renderer writes. -/
theorem hexDec_ok : Lemmas.RenderLink.hexDec "20" = [32] ∧ Lemmas.RenderLink.hexDec "" = [] ∧ LpOk Lemmas.RenderLink.hexDec :=
  ⟨by decide, by decide, Lemmas.RenderLink.lpField_no_semicolon⟩

/-- **C12, end to end over the models.**

    (1a) *The start-up dialogue, no timer firing.* With the emulator model's replies to `sendQueries()`
    as the inputs of Vaxis' input goroutine (any emulator state, host background reported or not), every
    time-out-free, maximal run of C07's start-up system — every interleaving of the input goroutine with
    `New()` — ends with `New()` past `applyQuirks` and the capability record
    `{sixels, unicodeCore, osc11 iff reported, rgb iff COLORTERM}`: the renderer's capability set is
    `capsOf o.colorterm`.

    (1b) *… and whatever the timers do.* In EVERY state of EVERY run — the 50 ms timer of the
    explicit-width probe, the 3 s context of the collection loop and the clipboard time-out firing
    whenever their guards allow, any environment, any part of the emulator's replies delivered — the
    renderer's capability set is `emuCaps`, possibly with direct colour (only if `COLORTERM` says so):
    one of the capability sets of (3).

    (2) *The start state, at every size.* The emulator model, started as `New()` + `resize(w, h)` for any
    size 1×1 … 65535² and fed everything the real Vaxis writes at start-up, is on the alternate screen,
    blank, at rest (`Props/C12StartAny`: followed symbolically; 20×6 also by kernel evaluation).

    (3) *Every history, on either screen, under any capability set the emulator implements.* From any
    state of an application whose last flush is complete (`LinkedP`; on the alternate screen: (2)), for
    every history of segments — the host gives the emulator a size 1×1 … 65535² (on the primary screen
    the old content is reflowed), the application renders any number of admissible frames at that size,
    the first a refresh — rendered under ANY capability set without explicit width and synchronized
    output (`CapsOkU`: with or without direct colour and styled underlines), the emulator fed `resize` and
    what its parser delivers for the renderer's tokens (grapheme clustering included; no two horizontally
    neighbouring shown cells of a frame joining — exactly the situation of the known finding F112d, C01's
    `NoJoinNeighbours`) never panics, stays on the screen it is on, and after the last frame of the last
    segment (the hypotheses are closed under truncation: after EVERY frame) — at the size of that segment —
    * the emulator's grid read back is the application's screen and its cursor read back is the
      requested cursor (equations), and
    * `Draw` into a host window of that size does not resize, makes exactly one `SetCell` per glyph
      cell of the application's screen, each carrying a cell that shows it, and shows the
      application's cursor in a focused window.
    No hypothesis about hyperlink parameters any more (F112b repaired: /repo 3525279).

    (4) *Against ONE reference terminal.* In the situation of (3), at any size, with `Spec.Term` — the
    reference terminal of C06, which the emulator is proved to refine — in a state related to the same
    display (`Rel`; `C12Bridge.rel_start` / `rel_resized` give one at start-up and after a resize): for
    every list of admissible frames, the first a refresh, the emulator shows the last (hence every) frame
    AND `Spec.Term`, fed the very same renderer tokens, is deterministic on them (`runExact`) and ends
    related (`Rel`: every cell equal up to its own visual equality, cursor, pen, hyperlink, visibility,
    shape) to the display that shows the application's screen and cursor and that the emulator simulates
    (C01 + the C05/C06 builder's bridge `display_refines_term` + the C12 simulation) — hence the reference
    terminal ACCEPTS the emulator's state in the sense of C06 (`gridAccepts` cell by cell, cursor row,
    pending wrap, pen, hyperlink, cursor visibility and shape): after every frame the emulator shows what
    the one reference terminal, driven by the renderer's own output, says it must show. -/
theorem c12_end_to_end :
    -- (1a)
    (∀ (colorterm : Bool) (hostBg : Option (Nat × Nat × Nat)) (e : Emu) (p : Params), 8 ≤ p.qcap →
      VaxisModel.Lemmas.InputLoop.Kinds.safe p.kinds → p.cursorCap ≠ 0 →
      ∀ (o : Opts), o.envUnset = true → o.colorterm = colorterm →
      ∀ (ls : List VaxisModel.Model.Startup.Label) (st : St), inputsOf ls = startupReplies hostBg e →
        (∀ l ∈ ls, isTimeout l = false) → VaxisModel.Model.Startup.run p o (St.init o) ls = some st →
        C12Startup.Quiescent p o st →
        st.phase = .ready ∧ st.sys.dropped = 0 ∧ rendererCaps st.sys.vs.caps = capsOf colorterm) ∧
    -- (1b)
    (∀ (hostBg : Option (Nat × Nat × Nat)) (e : Emu) (p : Params) (o : Opts)
      (ls : List VaxisModel.Model.Startup.Label) (st : St), (∀ s ∈ inputsOf ls, s ∈ startupReplies hostBg e) →
        VaxisModel.Model.Startup.run p o (St.init o) ls = some st →
        rendererCaps st.sys.vs.caps = capsOf st.sys.vs.caps.rgb ∧ (st.sys.vs.caps.rgb = true → o.colorterm = true)) ∧
    -- (2)
    (∀ (dec : String → G) (cw : String → Nat), dec "" = [] →
      ∀ (w h : Int), 1 ≤ w → w ≤ 65535 → 1 ≤ h → h ≤ 65535 →
      ∃ e0, runOps (Lemmas.EmuRefine.newState w h) startupAll = .ok e0 ∧
        LinkedP dec cw (startState w.toNat h.toNat) e0 h.toNat w.toNat ∧ e0.mode.smcup = true) ∧
    -- (3)
    (∀ (caps : Model.Render.Caps) [CapsOkU caps] (merges : String → String → Bool) (cat : String → String → String)
      (enc : G → String) (dec : String → G) (cw : String → Nat), cw "20" = 1 → dec "20" = [32] → dec "" = [] → LpOk dec →
      ∀ (segs : List Seg) (rows cols : Nat) (s : HState) (e : Emu), LinkedP dec cw s e rows cols →
        (∀ sg ∈ segs, SegOkU caps dec cw sg) →
        (∀ sg ∈ segs, ∀ fi ∈ sg.frames, C01Cluster.NoJoinNeighbours merges cw caps fi.next) →
        ∀ (sg : Seg) (fi : FrameIn), segs.getLast? = some sg → sg.frames.getLast? = some fi → EncOk enc dec fi →
        ∃ (e' : Emu) (per : List (List DrawCall)),
          runSegsM caps merges cat dec cw s e segs = .ok e' ∧
          e'.mode.smcup = e.mode.smcup ∧
          readScreen enc e'.active = Expected.expectedC cw caps fi.next ∧
          readCursor e' = wantCursor fi ∧
          draw true Model.Emu.Fixes.current e' sg.cols sg.rows true =
            .ok ({ e' with hasVx := true }, per.flatten, shownCursor true e' true) ∧
          per.length = sg.rows ∧
          shownCursor true e' true = (if fi.cursor.visible then some (fi.cursor.col, fi.cursor.row) else none)) ∧
    -- (4)
    (∀ (caps : Model.Render.Caps) [CapsOkU caps] (dec : String → G) (cw : String → Nat), cw "20" = 1 → dec "20" = [32] →
      dec "" = [] → LpOk dec →
      ∀ (rows cols : Nat) (s : HState) (e : Emu), LinkedP dec cw s e rows cols →
      ∀ (t : Spec.Term.T), Lemmas.C06Bridge.Rel dec s.t t →
      ∀ (a : FrameIn) (rest : List FrameIn), a.refresh = true →
        (∀ fi ∈ a :: rest, (C01Clip.FrameInOkC cw caps rows cols fi ∧ C12.EmuFrameOk dec cw fi) ∧ UlOk caps fi) →
        ∀ (fi : FrameIn), (a :: rest).getLast? = some fi →
        ∃ (e' : Emu) (t' : Spec.Term.T) (d : Spec.Display.Term),
          runFramesCK caps dec cw s e (a :: rest) = .ok e' ∧ ShowsCK caps dec cw fi e' ∧
          Lemmas.C06Bridge.runExact t ((C12Bridge.allToks caps cw s (a :: rest)).filterMap (Lemmas.C06Bridge.tokT dec cw)) = some t' ∧
          Lemmas.C06Bridge.Rel dec d t' ∧
          d.grid = Expected.expectedC cw caps fi.next ∧ C01.CursorAs d fi.cursor ∧
          Lemmas.C12Sim.DSim dec d e' rows cols ∧
          Spec.Term.gridAccepts t'.primary (e'.active.map Model.EmuAbs.absRow) = true ∧
          (t'.row : Int) = e'.cur.row ∧ t'.pw = decide (e'.cur.col ≥ (cols : Int)) ∧
          t'.pen = Model.EmuAbs.absStyle e'.cur.st ∧ t'.link = e'.cur.st.link ∧
          t'.cursorVisible = e'.mode.dectcem ∧ (t'.cursorShape : Int) = e'.cur.shape) := by
  refine ⟨?_, ?_, ?_, ?_, ?_⟩
  · intro colorterm hostBg e p hq hk hcap o henv hct ls st hin hnt hrun hquiet
    obtain ⟨h1, _, h3, h4⟩ := C12Startup.emu_dialogue_completes_any hostBg e p hq hk hcap o henv ls st hin hnt hrun hquiet
    refine ⟨h1, h3, ?_⟩
    rw [h4, hct]
    rfl
  · intro hostBg e p o ls st hin hrun
    obtain ⟨h1, _, h3⟩ := emu_dialogue_caps_capsOk hostBg e p o ls st hin hrun
    exact ⟨h1, h3⟩
  · intro dec cw hemp w h hw1 hw2 hh1 hh2
    obtain ⟨e0, h0, hl⟩ := C12StartAny.emu_real_startup_every_size dec cw hemp w h hw1 hw2 hh1 hh2
    exact ⟨e0, h0, LinkedR.toP hl, hl.alt⟩
  · intro caps _ merges cat enc dec cw hsp hd hemp hlp segs rows cols s e hl hok hnm sg fi hsg hfi henc
    obtain ⟨e', per, hr, hdraw, hlen, _, hcur⟩ :=
      emu_draw_across_resizes_any (caps := caps) dec cw hsp hd hemp hlp segs rows cols s e hl hok sg fi hsg hfi true
    obtain ⟨e'', hr', hm, h⟩ := emu_shows_across_resizes_any (caps := caps) dec cw hsp hd hemp hlp segs rows cols s e hl hok
    rw [hr] at hr'
    cases hr'
    obtain ⟨hrs, hrc⟩ := shows_reads_back (caps := caps) enc dec cw fi e' ((h sg hsg).2 fi hfi) henc
    refine ⟨e', per, ?_, hm, hrs, hrc, hdraw, hlen, hcur⟩
    rw [runSegsM_eq_adj merges cat dec cw segs s e (fun sg hsg fi hfi =>
      ⟨fun r hr c hc => (((hok sg hsg).1.2.2 fi hfi).1.2.2.1 r hr c hc).1, hnm sg hsg fi hfi⟩)]
    exact hr
  · intro caps _ dec cw hsp hd hemp hlp rows cols s e hl t ht a rest ha hok fi hlast
    exact C12Bridge.emu_and_term_show (caps := caps) dec cw hsp hd hemp hlp rows cols s e hl t ht a rest ha hok fi hlast

/-- **One session, start-up and rendering together.** Take ANY run of Vaxis' start-up inside the
    emulator — timers firing or not, any environment, any part of the replies delivered — and let `caps`
    be the renderer's view of the capability record it ends with. Then every history rendered under THAT
    capability set (from any linked state, on either screen, any sizes, through the clustering wire) is
    shown by the emulator after every frame: the conclusion of clause (3) of `c12_end_to_end`, with the
    capability set no longer a parameter but whatever the dialogue produced. -/
theorem c12_session (hostBg : Option (Nat × Nat × Nat)) (e0 : Emu) (p : Params) (o : Opts)
    (ls : List VaxisModel.Model.Startup.Label) (st : St) (hin : ∀ s ∈ inputsOf ls, s ∈ startupReplies hostBg e0)
    (hrun : VaxisModel.Model.Startup.run p o (St.init o) ls = some st)
    (merges : String → String → Bool) (cat : String → String → String)
    (enc : G → String) (dec : String → G) (cw : String → Nat) (hsp : cw "20" = 1) (hd : dec "20" = [32]) (hemp : dec "" = [])
    (hlp : LpOk dec) (segs : List Seg) (rows cols : Nat) (s : HState) (e : Emu) (hl : LinkedP dec cw s e rows cols)
    (hok : ∀ sg ∈ segs, SegOk (rendererCaps st.sys.vs.caps) dec cw sg)
    (hnm : ∀ sg ∈ segs, ∀ fi ∈ sg.frames, C01Cluster.NoJoinNeighbours merges cw (rendererCaps st.sys.vs.caps) fi.next)
    (sg : Seg) (fi : FrameIn) (hsg : segs.getLast? = some sg) (hfi : sg.frames.getLast? = some fi) (henc : EncOk enc dec fi) :
    ∃ (e' : Emu) (per : List (List DrawCall)),
      runSegsM (rendererCaps st.sys.vs.caps) merges cat dec cw s e segs = .ok e' ∧
      readScreen enc e'.active = Expected.expectedC cw (rendererCaps st.sys.vs.caps) fi.next ∧
      readCursor e' = wantCursor fi ∧
      draw true Model.Emu.Fixes.current e' sg.cols sg.rows true =
        .ok ({ e' with hasVx := true }, per.flatten, shownCursor true e' true) ∧
      per.length = sg.rows ∧
      shownCursor true e' true = (if fi.cursor.visible then some (fi.cursor.col, fi.cursor.row) else none) := by
  obtain ⟨_, hcaps, _⟩ := emu_dialogue_caps_capsOk hostBg e0 p o ls st hin hrun
  haveI : CapsOk (rendererCaps st.sys.vs.caps) := hcaps
  obtain ⟨e', per, hr, _, h3, h4, h5, h6, h7⟩ := c12_end_to_end.2.2.2.1 (rendererCaps st.sys.vs.caps) merges cat enc dec cw hsp hd hemp hlp
    segs rows cols s e hl (fun x hx => segOkU_of_noSu (caps := rendererCaps st.sys.vs.caps) hcaps.su dec cw x (hok x hx)) hnm sg fi hsg hfi henc
  exact ⟨e', per, hr, h3, h4, h5, h6, h7⟩

end VaxisModel.Props.C12Main
