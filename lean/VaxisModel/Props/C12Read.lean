/-
C12 — the composition theorem in EQUATIONAL form: the emulator's grid, read back as a screen
(`Lemmas.C12Read.readScreen`: glyph cells with their stored bytes turned back into the renderer
model's opaque strings by `enc`, erased cells as blanks with their background, the cells under a
wide glyph as continuation cells), IS the application's screen (`Spec.Expected.expectedC`), and the
cursor read back (`readCursor`) IS the requested cursor.
-/
import VaxisModel.Props.C12
import VaxisModel.Lemmas.C12Read

namespace VaxisModel.Props.C12Read
open VaxisModel.Model.Render VaxisModel.Spec VaxisModel.Spec.Display
open VaxisModel.Model.Emu (Emu EOp G M runOps)
open VaxisModel.Model.C12Compose VaxisModel.Lemmas.C12Sim VaxisModel.Lemmas.C12Read
open VaxisModel.Props.C01Display (FrameIn HState)
open VaxisModel.Props.C12 VaxisModel.Model.C12Read

/-- `enc` (bytes → opaque string) inverts `dec` on the strings of the frame, the blank and "". -/
def EncOk (enc : G → String) (dec : String → G) (fi : FrameIn) : Prop :=
  enc (dec "20") = "20" ∧ enc (dec "") = "" ∧ ∀ r ∈ fi.next, ∀ c ∈ r, EncCell enc dec c

/-- The requested cursor in the same form. -/
def wantCursor (fi : FrameIn) : Option (Int × Int × Int) :=
  if fi.cursor.visible then some (fi.cursor.row, fi.cursor.col, (fi.cursor.style : Int)) else none

/-- **Read-back of a state that shows the frame**: the relational `ShowsC` gives the equations. -/
theorem shows_reads_back (enc : G → String) (dec : String → G) (cw : String → Nat) (fi : FrameIn) (e : Emu)
    (h : ShowsC dec cw fi e) (he : EncOk enc dec fi) :
    readScreen enc e.active = Expected.expectedC cw emuCaps fi.next ∧ readCursor e = wantCursor fi := by
  obtain ⟨h20, hemp, hc⟩ := he
  constructor
  · have h1 := h.1
    rw [Lemmas.RenderClip.expectedC_eq] at h1 ⊢
    apply readScreen_expected cw emuCaps h20 hemp _ _ _ h1
    intro r hr c hcm
    obtain ⟨l, hl, rfl⟩ := List.mem_map.mp hr
    obtain ⟨c0, h0, hc0⟩ := Lemmas.RenderClip.clipRow_mem cw l c hcm
    have hk := hc l hl c0 h0
    rcases hc0 with rfl | rfl
    · exact hk
    · exact ⟨h20, hk.2.1, hk.2.2⟩
  · have h2 := h.2
    unfold readCursor wantCursor
    split at h2
    · rename_i hv
      obtain ⟨a, b, c, d⟩ := h2
      simp [a, b, c, d, hv]
    · rename_i hv
      simp [h2, hv]

/-- **C12, composition theorem, equational, after EVERY frame of every history**: as
    `emu_shows_every_frame`, the conclusion being two equations — the emulator's grid read back is the
    application's screen, the emulator's cursor read back is the requested cursor. -/
theorem emu_reads_back_every_frame (enc : G → String) (dec : String → G) (cw : String → Nat) (hsp : cw "20" = 1)
    (hd : dec "20" = [32]) (hemp : dec "" = []) (hlp : Lemmas.C12Vocab.LpOk dec) (rows cols : Nat) (e0 : Emu)
    (h0 : DSim dec (startDisplay cols rows) e0 rows cols)
    (fi0 : FrameIn) (fis : List FrameIn) (hr0 : fi0.refresh = true)
    (hok : ∀ fi ∈ fi0 :: fis, C01Clip.FrameInOkC cw emuCaps rows cols fi ∧ EmuFrameOk dec cw fi)
    (k : Nat) (fk : FrameIn) (hk : (fi0 :: fis)[k]? = some fk) (he : EncOk enc dec fk) :
    ∃ ek, runFramesC dec cw (startState cols rows) e0 ((fi0 :: fis).take (k + 1)) = .ok ek ∧
      readScreen enc ek.active = Expected.expectedC cw emuCaps fk.next ∧ readCursor ek = wantCursor fk := by
  obtain ⟨ek, hr, hs, _⟩ := emu_shows_every_frame dec cw hsp hd hemp hlp rows cols e0 h0 fi0 fis hr0 hok k fk hk
  exact ⟨ek, hr, shows_reads_back enc dec cw fk ek hs he⟩

/-! ### Non-vacuity: a byte decoding with an inverse on the strings of the example frames -/

def decI : String → G := fun s =>
  if s = "" then [] else if s = "20" then [32] else if s = "61" then [97] else if s = "57" then [228, 184, 173]
  else if s = "68" then [104] else if s = "69" then [105] else [63]
def encI : G → String := fun g =>
  if g = [] then "" else if g = [32] then "20" else if g = [97] then "61" else if g = [228, 184, 173] then "57"
  else if g = [104] then "68" else if g = [105] then "69" else "3f"

example : EncOk encI decI ⟨true, grid1, {}, ""⟩ := by
  refine ⟨by decide, by decide, ?_⟩
  intro r hr c hc
  simp only [grid1, List.mem_cons, List.not_mem_nil, or_false] at hr
  subst hr
  simp only [List.mem_cons, List.not_mem_nil, or_false] at hc
  rcases hc with rfl | rfl | rfl <;> exact ⟨by decide, by decide, by decide⟩

end VaxisModel.Props.C12Read
