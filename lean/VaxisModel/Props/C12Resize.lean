/-
C12 — the composition theorem stated ONCE for whole histories INCLUDING RESIZES.

A history is a list of segments; each segment starts with the host giving the emulator a new size
(`EOp.resize`, directly or through `Draw` into a window of another size — `draw_resizes_then_shows`),
after which the application (Vaxis sets `refresh` on a size change and reallocates its buffers)
renders the segment's frames, the first a refresh. The application lives on the alternate screen
(`mode.smcup`, entered at start-up: `emu_real_startup_on_alt`), which `resize()` leaves blank; since the
F112c repair (aefad78) `resize()` also leaves the pen alone, so the emulator after a resize is again
related to a blank display at rest — with the cursor wherever the reflow of the primary screen left
it, which the refresh frame does not rely on (`Lemmas.RenderCursor.cursor_nonempty`).
-/
import VaxisModel.Props.C12
import VaxisModel.Props.C12Read
import VaxisModel.Lemmas.C12Resize
import VaxisModel.Lemmas.RenderCursor
import VaxisModel.Lemmas.EmuResize

namespace VaxisModel.Props.C12Resize
open VaxisModel.Model.Render VaxisModel.Spec VaxisModel.Spec.Display VaxisModel.Lemmas.RenderGate
open VaxisModel.Model.Emu (Emu EOp G M runOps)
open VaxisModel.Model.C12Compose VaxisModel.Lemmas.C12Sim VaxisModel.Lemmas.C12Vocab VaxisModel.Lemmas.C12Resize
open VaxisModel.Lemmas.EmuRefine (EFrame)
open VaxisModel.Props.C01 (CursorAs Agree)
open VaxisModel.Props.C01Display (FrameIn HState mkFrame stepH FrameInOk Ready)
open VaxisModel.Props.C01Clip (FrameInOkC clipIn stepHC stepHC_eq clipIn_ok)
open VaxisModel.Props.C12

/-! ### one frame, with the cursor clause as a parameter -/

/-- `emu_frame_shows` with the display's cursor clause supplied by the caller (from the previous
    cursor — `C01.cursor_as_requested` — or, after a resize, from `cursor_nonempty`), and with the
    frame `EFrame e e'`: the emulator stays on the screen it is on. -/
theorem frame_shows_gen (dec : String → G) (cw : String → Nat) (hsp : cw "20" = 1) (hd : dec "20" = [32]) (hemp : dec "" = []) (hlp : LpOk dec)
    (rows cols : Nat) (s : HState) (e : Emu) (fi : FrameIn) (hready : Ready s.t s.last rows cols)
    (hsim : DSim dec s.t e rows cols)
    (hag : fi.refresh = false → Agree cw emuCaps s.t s.last)
    (hok : FrameInOk cw emuCaps rows cols fi) (hok2 : EmuFrameOk dec cw fi)
    (hcur : CursorAs (stepH cw emuCaps s fi).t fi.cursor) :
    ∃ e', runOps e (opsOfToks dec cw (renderFrame cw (mkFrame emuCaps s fi)).2) = .ok e' ∧
      Linked dec cw (stepH cw emuCaps s fi) e' rows cols ∧
      Agree cw emuCaps (stepH cw emuCaps s fi).t (stepH cw emuCaps s fi).last ∧
      Shows dec cw fi e' ∧ EFrame e e' := by
  obtain ⟨r1, a1, g1, b1⟩ := C01Display.frame_step cw emuCaps hsp rows cols s fi hready hag hok
  have h59 : 59 ∉ dec "" := by rw [hemp]; simp
  have hvoc := frame_ok dec cw (mkFrame emuCaps s fi) rfl rfl rfl rfl hsp (by rw [hd]; simp) h59 hlp hok2.1 hok2.2
  obtain ⟨e', hr, hs', hf⟩ := run_sim_frame cw _ s.t e hsim b1 hvoc
  refine ⟨e', hr, ⟨r1, hcur, hs'⟩, a1, ⟨?_, ?_⟩, hf⟩
  · have := hs'.grid
    rw [show (run cw s.t (renderFrame cw (mkFrame emuCaps s fi)).2).grid = Expected.expected cw emuCaps fi.next from g1] at this
    exact this
  · have hc := hcur
    unfold CursorAs at hc
    split
    · rename_i hv
      simp only [hv, if_true] at hc
      obtain ⟨c1, c2, c3, c4, c5⟩ := hc
      have hvis := hs'.vis; have hrow := hs'.row; have hcol := hs'.col; have hpw := hs'.pw; have hsh := hs'.shape
      change (stepH cw emuCaps s fi).t.cursorVisible = e'.mode.dectcem at hvis
      change ((stepH cw emuCaps s fi).t.row : Int) = e'.cur.row at hrow
      change ((stepH cw emuCaps s fi).t.col : Int) = _ at hcol
      change (stepH cw emuCaps s fi).t.pw = _ at hpw
      change ((stepH cw emuCaps s fi).t.cursorShape : Int) = e'.cur.shape at hsh
      rw [c4] at hpw
      have hnp : ¬ (e'.cur.col ≥ (cols : Int)) := by intro h; simp [h] at hpw
      rw [if_neg hnp] at hcol
      refine ⟨by rw [← hvis]; exact c1, by omega, by omega, by rw [← hsh, c5]⟩
    · rename_i hv
      simp only [hv] at hc
      have hvis := hs'.vis
      change (stepH cw emuCaps s fi).t.cursorVisible = e'.mode.dectcem at hvis
      rw [← hvis]; exact hc

/-- The same for the renderer as it is now (`renderFrameC`, no fitting hypothesis). -/
theorem frame_shows_genC (dec : String → G) (cw : String → Nat) (hsp : cw "20" = 1) (hd : dec "20" = [32]) (hemp : dec "" = []) (hlp : LpOk dec)
    (rows cols : Nat) (s : HState) (e : Emu) (fi : FrameIn) (hready : Ready s.t s.last rows cols)
    (hsim : DSim dec s.t e rows cols)
    (hag : fi.refresh = false → Agree cw emuCaps s.t s.last)
    (hok : FrameInOkC cw emuCaps rows cols fi) (hok2 : EmuFrameOk dec cw fi)
    (hcur : CursorAs (stepHC cw emuCaps s fi).t fi.cursor) :
    ∃ e', runOps e (opsOfToks dec cw (renderFrameC cw (mkFrame emuCaps s fi)).2) = .ok e' ∧
      Linked dec cw (stepHC cw emuCaps s fi) e' rows cols ∧
      Agree cw emuCaps (stepHC cw emuCaps s fi).t (stepHC cw emuCaps s fi).last ∧
      ShowsC dec cw fi e' ∧ EFrame e e' := by
  have htoks : (renderFrameC cw (mkFrame emuCaps s fi)).2 = (renderFrame cw (mkFrame emuCaps s (clipIn cw fi))).2 := by
    rw [Lemmas.RenderClip.renderFrameC_eq]; rfl
  rw [htoks, stepHC_eq]
  rw [stepHC_eq] at hcur
  obtain ⟨e', hr, hl, ag, sh, hf⟩ := frame_shows_gen dec cw hsp hd hemp hlp rows cols s e (clipIn cw fi) hready hsim hag
    (clipIn_ok cw emuCaps hsp rows cols fi hok) (clipIn_emuOk dec cw hsp hd fi hok2) hcur
  refine ⟨e', hr, hl, ag, ?_, hf⟩
  have hs1 := sh.1
  unfold ShowsC
  unfold Shows at sh
  rw [Lemmas.RenderClip.expectedC_eq]
  exact ⟨sh.1, sh.2⟩

/-! ### the invariant of a history on the alternate screen -/

/-- After a frame: linked (C01's `Ready`, the cursor as requested, `DSim`), the display still shows
    the frame (`Agree`), and the application is on the alternate screen. -/
structure LinkedAlt (dec : String → G) (cw : String → Nat) (s : HState) (e : Emu) (rows cols : Nat) : Prop where
  linked : Linked dec cw s e rows cols
  agree : Agree cw emuCaps s.t s.last
  alt : e.mode.smcup = true

/-- After a resize, before the refresh frame: the cursor POSITION is not known, only its visibility. -/
structure LinkedR (dec : String → G) (cw : String → Nat) (s : HState) (e : Emu) (rows cols : Nat) : Prop where
  ready : Ready s.t s.last rows cols
  vis : s.cursor.visible = false → s.t.cursorVisible = false
  sim : DSim dec s.t e rows cols
  alt : e.mode.smcup = true

/-- A frame from a linked state (any frame kind). -/
theorem frame_alt (dec : String → G) (cw : String → Nat) (hsp : cw "20" = 1) (hd : dec "20" = [32]) (hemp : dec "" = []) (hlp : LpOk dec)
    (rows cols : Nat) (s : HState) (e : Emu) (fi : FrameIn) (hl : LinkedAlt dec cw s e rows cols)
    (hok : FrameInOkC cw emuCaps rows cols fi) (hok2 : EmuFrameOk dec cw fi) :
    ∃ e', runOps e (opsOfToks dec cw (renderFrameC cw (mkFrame emuCaps s fi)).2) = .ok e' ∧
      LinkedAlt dec cw (stepHC cw emuCaps s fi) e' rows cols ∧ ShowsC dec cw fi e' := by
  have hcur : CursorAs (stepHC cw emuCaps s fi).t fi.cursor := by
    rw [stepHC_eq]
    refine C01.cursor_as_requested cw cw (mkFrame emuCaps s (clipIn cw fi)) s.t ?_ hl.linked.cursor
    rw [hl.linked.ready.trows, hl.linked.ready.tcols]; exact hok.2.2.2
  obtain ⟨e', hr, l1, a1, sh, hf⟩ := frame_shows_genC dec cw hsp hd hemp hlp rows cols s e fi hl.linked.ready hl.linked.sim
    (fun _ => hl.agree) hok hok2 hcur
  exact ⟨e', hr, ⟨l1, a1, by rw [hf.smcup]; exact hl.alt⟩, sh⟩

/-- The REFRESH frame after a resize: the cursor clause does not need the previous position. -/
theorem frame_after_resize (dec : String → G) (cw : String → Nat) (hsp : cw "20" = 1) (hd : dec "20" = [32]) (hemp : dec "" = []) (hlp : LpOk dec)
    (rows cols : Nat) (s : HState) (e : Emu) (fi : FrameIn) (hl : LinkedR dec cw s e rows cols)
    (hrf : fi.refresh = true)
    (hok : FrameInOkC cw emuCaps rows cols fi) (hok2 : EmuFrameOk dec cw fi) :
    ∃ e', runOps e (opsOfToks dec cw (renderFrameC cw (mkFrame emuCaps s fi)).2) = .ok e' ∧
      LinkedAlt dec cw (stepHC cw emuCaps s fi) e' rows cols ∧ ShowsC dec cw fi e' := by
  have hokc := clipIn_ok cw emuCaps hsp rows cols fi hok
  have dm := hl.sim.dim
  -- the screen and the `last` buffer have a first cell
  obtain ⟨c, cs, ns, hn⟩ : ∃ c cs ns, (clipIn cw fi).next = (c :: cs) :: ns := by
    have h1 := hokc.1; have h2 := hokc.2.1
    cases hg : (clipIn cw fi).next with
    | nil => rw [hg] at h1; have := dm.r1; simp at h1; omega
    | cons r ns =>
      cases hr : r with
      | nil => have hlen := h2 r (by rw [hg]; simp); rw [hr] at hlen; have := dm.c1; simp at hlen; omega
      | cons c cs => exact ⟨c, cs, ns, rfl⟩
  obtain ⟨l0, ls0, ls, hlast⟩ : ∃ l0 ls0 ls, s.last = (l0 :: ls0) :: ls := by
    have h1 := hl.ready.llen; have h2 := hl.ready.lcols
    cases hg : s.last with
    | nil => rw [hg] at h1; have := dm.r1; simp at h1; omega
    | cons r ns =>
      cases hr : r with
      | nil => have hlen := h2 r (by rw [hg]; simp); rw [hr] at hlen; have := dm.c1; simp at hlen; omega
      | cons c cs => exact ⟨c, cs, ns, rfl⟩
  have hsx : c.sixel = false := (hokc.2.2.2.1 (c :: cs) (by rw [hn]; simp) c (by simp)).1
  have hne : (renderBody cw (mkFrame emuCaps s (clipIn cw fi))).2 ≠ [] :=
    Lemmas.RenderCursor.renderBody_nonempty cw (mkFrame emuCaps s (clipIn cw fi)) hrf c cs ns l0 ls0 ls hn hlast hsx
  have hcur : CursorAs (stepHC cw emuCaps s fi).t fi.cursor := by
    rw [stepHC_eq]
    refine Lemmas.RenderCursor.cursor_nonempty cw cw (mkFrame emuCaps s (clipIn cw fi)) s.t ?_ hne hl.vis
    rw [hl.ready.trows, hl.ready.tcols]; exact hok.2.2.2
  obtain ⟨e', hr, l1, a1, sh, hf⟩ := frame_shows_genC dec cw hsp hd hemp hlp rows cols s e fi hl.ready hl.sim
    (fun h => by rw [hrf] at h; cases h) hok hok2 hcur
  exact ⟨e', hr, ⟨l1, a1, by rw [hf.smcup]; exact hl.alt⟩, sh⟩

/-! ### the resize -/

/-- Vaxis' side of a size change (`Render()` with the resize flag: both buffers reallocated, the
    cursor and pointer-shape memory kept) next to the reference display the emulator's `resize()` leaves. -/
def afterResize (cols rows : Nat) (e : Emu) (s : HState) : HState :=
  ⟨resizedDisplay cols rows e, blankGrid cols rows, s.cursor, s.shape⟩

theorem resize_facts {e e' : Emu} {rows cols : Nat} (hi : Lemmas.Emu.EmuInv e rows cols) (dm : Lemmas.Emu.Dim rows cols)
    (w h : Int) (hw1 : 1 ≤ w) (hw2 : w ≤ 65535) (hh1 : 1 ≤ h) (hh2 : h ≤ 65535)
    (hr : Model.Emu.resize Model.Emu.Fixes.current e w h = .ok e') : ResizeFacts e e' w h := by
  obtain ⟨e1, he1, hi1⟩ := Lemmas.Emu.resize_safe hi dm w h hw1 hw2 hh1 hh2
  rw [hr] at he1
  cases he1
  have f := VaxisModel.Props.C05.resize_frame hr
  exact ⟨hi1, ⟨by omega, by omega, by omega, by omega⟩, f.mode, f.cs, f.osc8, f.shape, f.pen, f.altActive, f.alt, f.lastCol⟩

theorem LinkedAlt.toR {dec : String → G} {cw : String → Nat} {s : HState} {e : Emu} {rows cols : Nat}
    (hl : LinkedAlt dec cw s e rows cols) : LinkedR dec cw s e rows cols := by
  refine ⟨hl.linked.ready, ?_, hl.linked.sim, hl.alt⟩
  intro hv
  have hc := hl.linked.cursor
  unfold CursorAs at hc
  simpa [hv] using hc

/-- **The host resizes the emulator** (any size 1×1 … 65535²) under an application on the alternate
    screen whose last flush is complete (display at rest; also directly after another resize): no
    panic, and the state is linked-after-resize at the new size. -/
theorem resize_linked (dec : String → G) (cw : String → Nat) (rows cols : Nat) (s : HState) (e : Emu)
    (hl : LinkedR dec cw s e rows cols) (w h : Nat) (hw1 : 1 ≤ w) (hw2 : w ≤ 65535) (hh1 : 1 ≤ h) (hh2 : h ≤ 65535) :
    ∃ e', runOps e [.resize w h] = .ok e' ∧ LinkedR dec cw (afterResize w h e' s) e' h w := by
  have hsim := hl.sim
  obtain ⟨e', hr, _⟩ := Lemmas.Emu.resize_safe hsim.inv hsim.dim (w : Int) (h : Int) (by omega) (by omega) (by omega) (by omega)
  have f := resize_facts hsim.inv hsim.dim (w : Int) (h : Int) (by omega) (by omega) (by omega) (by omega) hr
  have hrest := hl.ready.rest
  obtain ⟨s1, s2, s3⟩ := dsim_after_resize hsim hrest.1 hrest.2.1 hl.ready.lp hl.alt f
  simp only [Int.toNat_natCast] at s1
  refine ⟨e', ?_, ?_⟩
  · have : Model.Emu.emuStep e (.resize w h) = .ok (e', 0) := by
      show (Model.Emu.resize Model.Emu.Fixes.current e w h >>= fun x => (Except.ok (x, 0) : M (Emu × Nat))) = _
      rw [hr]; rfl
    exact runOps_single this
  · have hi := C01Display.init_ready w h
    refine ⟨⟨hi.rest, hi.bad, hi.lp, hi.trows, hi.tcols, hi.glen, hi.llen, hi.gcols, hi.lcols, hi.wf⟩, ?_, s1, s2⟩
    intro hv
    show e'.mode.dectcem = false
    rw [s3]
    exact hl.vis hv

/-! ### histories of segments -/

/-- One segment: the host gives the emulator the size `cols × rows`, then the application renders
    `frames` (Vaxis forces the first to be a refresh). -/
structure Seg where
  cols : Nat
  rows : Nat
  frames : List FrameIn

def SegOk (dec : String → G) (cw : String → Nat) (sg : Seg) : Prop :=
  (1 ≤ sg.cols ∧ sg.cols ≤ 65535 ∧ 1 ≤ sg.rows ∧ sg.rows ≤ 65535) ∧
  (∀ fi, sg.frames.head? = some fi → fi.refresh = true) ∧
  ∀ fi ∈ sg.frames, FrameInOkC cw emuCaps sg.rows sg.cols fi ∧ EmuFrameOk dec cw fi

/-- The emulator model through a whole history: per segment `resize(cols, rows)`, then frame after
    frame what the renderer model (`renderFrameC`, with reallocated buffers) writes. -/
def runSegs (dec : String → G) (cw : String → Nat) : HState → Emu → List Seg → M Emu
  | _, e, [] => .ok e
  | s, e, sg :: rest => do
    let e1 ← runOps e [.resize sg.cols sg.rows]
    let s1 := afterResize sg.cols sg.rows e1 s
    let e2 ← runFramesC dec cw s1 e1 sg.frames
    runSegs dec cw (sg.frames.foldl (stepHC cw emuCaps) s1) e2 rest

/-- Frames of one size from a linked state: no panic, linked at the end, the last frame shown. -/
theorem frames_alt (dec : String → G) (cw : String → Nat) (hsp : cw "20" = 1) (hd : dec "20" = [32]) (hemp : dec "" = []) (hlp : LpOk dec)
    (rows cols : Nat) :
    ∀ (fis : List FrameIn) (s : HState) (e : Emu), LinkedAlt dec cw s e rows cols →
      (∀ fi ∈ fis, FrameInOkC cw emuCaps rows cols fi ∧ EmuFrameOk dec cw fi) →
      ∃ e', runFramesC dec cw s e fis = .ok e' ∧ LinkedAlt dec cw (fis.foldl (stepHC cw emuCaps) s) e' rows cols ∧
        ∀ fi, fis.getLast? = some fi → ShowsC dec cw fi e' := by
  intro fis
  induction fis with
  | nil => intro s e hl _; exact ⟨e, rfl, hl, fun fi h => by simp at h⟩
  | cons a rest ih =>
    intro s e hl hok
    obtain ⟨e1, hr1, hl1, sh1⟩ := frame_alt dec cw hsp hd hemp hlp rows cols s e a hl (hok a (by simp)).1 (hok a (by simp)).2
    obtain ⟨e2, hr2, hl2, sh2⟩ := ih (stepHC cw emuCaps s a) e1 hl1 (fun fi h => hok fi (by simp [h]))
    refine ⟨e2, by simp only [runFramesC, hr1, bind, Except.bind]; exact hr2, hl2, ?_⟩
    intro fi hlast
    cases rest with
    | nil =>
      simp only [List.getLast?_singleton, Option.some.injEq] at hlast
      subst hlast
      simp only [runFramesC] at hr2
      cases hr2
      exact sh1
    | cons b rest' =>
      rw [List.getLast?_cons_cons] at hlast
      exact sh2 fi hlast

/-- One segment. -/
theorem seg_alt (dec : String → G) (cw : String → Nat) (hsp : cw "20" = 1) (hd : dec "20" = [32]) (hemp : dec "" = []) (hlp : LpOk dec)
    (rows cols : Nat) (s : HState) (e : Emu) (hl : LinkedR dec cw s e rows cols) (sg : Seg) (hsg : SegOk dec cw sg) :
    ∃ e1 e2, runOps e [.resize sg.cols sg.rows] = .ok e1 ∧
      runFramesC dec cw (afterResize sg.cols sg.rows e1 s) e1 sg.frames = .ok e2 ∧
      LinkedR dec cw (sg.frames.foldl (stepHC cw emuCaps) (afterResize sg.cols sg.rows e1 s)) e2 sg.rows sg.cols ∧
      ∀ fi, sg.frames.getLast? = some fi → ShowsC dec cw fi e2 := by
  obtain ⟨⟨hw1, hw2, hh1, hh2⟩, hhead, hfr⟩ := hsg
  obtain ⟨e1, hr1, lr⟩ := resize_linked dec cw rows cols s e hl sg.cols sg.rows hw1 hw2 hh1 hh2
  cases hf : sg.frames with
  | nil =>
    exact ⟨e1, e1, hr1, rfl, lr, fun fi h => by simp at h⟩
  | cons a rest =>
    have ha : a.refresh = true := hhead a (by rw [hf]; rfl)
    have hoka := hfr a (by rw [hf]; simp)
    obtain ⟨e2, hr2, hl2, sh2⟩ := frame_after_resize dec cw hsp hd hemp hlp sg.rows sg.cols _ e1 a lr ha hoka.1 hoka.2
    obtain ⟨e3, hr3, hl3, sh3⟩ := frames_alt dec cw hsp hd hemp hlp sg.rows sg.cols rest _ e2 hl2
      (fun fi h => hfr fi (by rw [hf]; simp [h]))
    refine ⟨e1, e3, hr1, by simp only [runFramesC, hr2, bind, Except.bind]; exact hr3, hl3.toR, ?_⟩
    intro fi hlast
    cases rest with
    | nil =>
      simp only [List.getLast?_singleton, Option.some.injEq] at hlast
      subst hlast
      simp only [runFramesC] at hr3
      cases hr3
      exact sh2
    | cons b rest' =>
      rw [List.getLast?_cons_cons] at hlast
      exact sh3 fi hlast

/-- **C12, the composition theorem for whole histories INCLUDING RESIZES.** From any state of an
    application on the alternate screen whose last flush is complete (`LinkedR`: what the real
    start-up establishes — `emu_real_startup_on_alt` — and what every frame and every resize
    re-establish), for every list of admissible segments — each a resize of the emulator to any size
    1×1 … 65535² followed by any number of admissible frames at that size, the first a refresh — the
    emulator model fed `resize` and, frame after frame, the parsed sequences of what the renderer model
    writes, never panics, and after the last frame of the last segment — hence, the hypothesis being
    closed under truncation of the history, after EVERY frame of every segment — its grid shows the
    application's screen cell for cell and its cursor is as requested, at the size of that segment. -/
theorem emu_shows_across_resizes (dec : String → G) (cw : String → Nat) (hsp : cw "20" = 1) (hd : dec "20" = [32])
    (hemp : dec "" = []) (hlp : LpOk dec) :
    ∀ (segs : List Seg) (rows cols : Nat) (s : HState) (e : Emu), LinkedR dec cw s e rows cols →
      (∀ sg ∈ segs, SegOk dec cw sg) →
      ∃ e', runSegs dec cw s e segs = .ok e' ∧
        ∀ sg, segs.getLast? = some sg → Lemmas.Emu.EmuInv e' sg.rows sg.cols ∧ e'.mode.smcup = true ∧
          ∀ fi, sg.frames.getLast? = some fi → ShowsC dec cw fi e' := by
  intro segs
  induction segs with
  | nil => intro rows cols s e _ _; exact ⟨e, rfl, fun sg h => by simp at h⟩
  | cons sg rest ih =>
    intro rows cols s e hl hok
    obtain ⟨e1, e2, hr1, hr2, lr, sh⟩ := seg_alt dec cw hsp hd hemp hlp rows cols s e hl sg (hok sg (by simp))
    obtain ⟨e3, hr3, h3⟩ := ih sg.rows sg.cols _ e2 lr (fun x hx => hok x (by simp [hx]))
    refine ⟨e3, by simp only [runSegs, hr1, hr2, bind, Except.bind]; exact hr3, ?_⟩
    intro sg' hlast
    cases rest with
    | nil =>
      simp only [List.getLast?_singleton, Option.some.injEq] at hlast
      subst hlast
      simp only [runSegs] at hr3
      cases hr3
      exact ⟨lr.sim.inv, lr.alt, sh⟩
    | cons b rest' =>
      rw [List.getLast?_cons_cons] at hlast
      exact h3 sg' hlast

/-- **The same in equational form**: after the last frame of the last segment (hence after every
    frame of every segment) the emulator's grid read back (`Model.C12Read.readScreen`) IS the
    application's screen and its cursor read back IS the requested cursor. -/
theorem emu_reads_back_across_resizes (enc : G → String) (dec : String → G) (cw : String → Nat) (hsp : cw "20" = 1)
    (hd : dec "20" = [32]) (hemp : dec "" = []) (hlp : LpOk dec) (segs : List Seg) (rows cols : Nat) (s : HState) (e : Emu)
    (hl : LinkedR dec cw s e rows cols) (hok : ∀ sg ∈ segs, SegOk dec cw sg)
    (sg : Seg) (fi : FrameIn) (hsg : segs.getLast? = some sg) (hfi : sg.frames.getLast? = some fi)
    (he : C12Read.EncOk enc dec fi) :
    ∃ e', runSegs dec cw s e segs = .ok e' ∧
      Model.C12Read.readScreen enc e'.active = Expected.expectedC cw emuCaps fi.next ∧
      Model.C12Read.readCursor e' = C12Read.wantCursor fi := by
  obtain ⟨e', hr, h⟩ := emu_shows_across_resizes dec cw hsp hd hemp hlp segs rows cols s e hl hok
  exact ⟨e', hr, C12Read.shows_reads_back enc dec cw fi e' ((h sg hsg).2.2 fi hfi) he⟩

/-- After EVERY frame: for any frame `k` of any segment of an admissible history, the run over the
    history truncated after that frame ends in a state that shows it. -/
theorem emu_shows_every_frame_resized (dec : String → G) (cw : String → Nat) (hsp : cw "20" = 1) (hd : dec "20" = [32])
    (hemp : dec "" = []) (hlp : LpOk dec) (rows cols : Nat) (s : HState) (e : Emu) (hl : LinkedR dec cw s e rows cols)
    (pre post : List Seg) (sg : Seg) (hok : ∀ x ∈ pre ++ sg :: post, SegOk dec cw x)
    (k : Nat) (fk : FrameIn) (hk : sg.frames[k]? = some fk) :
    ∃ ek, runSegs dec cw s e (pre ++ [{ sg with frames := sg.frames.take (k + 1) }]) = .ok ek ∧ ShowsC dec cw fk ek ∧
      Lemmas.Emu.EmuInv ek sg.rows sg.cols := by
  have hklt : k < sg.frames.length := by
    rcases Nat.lt_or_ge k sg.frames.length with h | h
    · exact h
    · rw [List.getElem?_eq_none h] at hk; cases hk
  have hsg := hok sg (by simp)
  have hsg' : SegOk dec cw { sg with frames := sg.frames.take (k + 1) } := by
    refine ⟨hsg.1, ?_, ?_⟩
    · intro fi hfi
      apply hsg.2.1
      cases hf : sg.frames with
      | nil => rw [hf] at hklt; simp at hklt
      | cons a r => simp only [hf, List.take_succ_cons, List.head?_cons] at hfi ⊢; exact hfi
    · intro fi hfi
      exact hsg.2.2 fi (List.mem_of_mem_take hfi)
  obtain ⟨ek, hr, hsh⟩ := emu_shows_across_resizes dec cw hsp hd hemp hlp (pre ++ [{ sg with frames := sg.frames.take (k + 1) }])
    rows cols s e hl (by
      intro x hx
      rcases List.mem_append.mp hx with h | h
      · exact hok x (by simp [h])
      · simp only [List.mem_singleton] at h; subst h; exact hsg')
  obtain ⟨hi, _, hs⟩ := hsh { sg with frames := sg.frames.take (k + 1) } (by simp)
  refine ⟨ek, hr, hs fk ?_, hi⟩
  show (sg.frames.take (k + 1)).getLast? = some fk
  rw [List.getLast?_eq_getElem?]
  have : (sg.frames.take (k + 1)).length = k + 1 := by rw [List.length_take]; omega
  rw [this, List.getElem?_take]
  simpa using hk

/-! ### the resize as a host application does it: `Draw` into a window of another size -/

theorem dsim_hasVx {dec : String → G} {d : Term} {e : Emu} {rows cols : Nat} (s : DSim dec d e rows cols) (b : Bool) :
    DSim dec d { e with hasVx := b } rows cols :=
  { inv := { s.inv with }
    dim := s.dim, vm := ⟨s.vm.awm, s.vm.irm, s.vm.lnm, s.vm.ascii, s.vm.noShift⟩
    osc8 := s.osc8, lc := s.lc
    drows := s.drows, dcols := s.dcols, row := s.row, col := s.col, pw := s.pw
    pen := s.pen, link := s.link, linkParams := s.linkParams
    vis := s.vis, shape := s.shape, grid := s.grid }

/-- **Draw into a smaller / larger host window** resizes the emulator exactly as the `resize` step of
    `runSegs` does (then marks the host as attached), draws the blank alternate screen, and leaves a
    state from which the composition continues (`LinkedR` at the window's size): the next segment's
    refresh frame shows the application's screen at the new size. -/
theorem draw_resizes_linked (dec : String → G) (cw : String → Nat) (rows cols : Nat) (s : HState) (e : Emu)
    (hl : LinkedR dec cw s e rows cols) (w h : Nat) (hw1 : 1 ≤ w) (hw2 : w ≤ 65535) (hh1 : 1 ≤ h) (hh2 : h ≤ 65535)
    (hne : w ≠ cols ∨ h ≠ rows) (focused : Bool) :
    ∃ e1 calls, runOps e [.resize w h] = .ok e1 ∧
      Model.EmuDraw.draw true Model.Emu.Fixes.current e w h focused =
        .ok ({ e1 with hasVx := true }, calls, Model.EmuDraw.shownCursor true e1 focused) ∧
      LinkedR dec cw (afterResize w h e1 s) { e1 with hasVx := true } h w := by
  obtain ⟨e1, hr1, lr⟩ := resize_linked dec cw rows cols s e hl w h hw1 hw2 hh1 hh2
  obtain ⟨n, hs⟩ := runOps_single_inv hr1
  have hrz : Model.Emu.resize Model.Emu.Fixes.current e w h = .ok e1 := by
    have h' : (Model.Emu.resize Model.Emu.Fixes.current e w h >>= fun x => (Except.ok (x, 0) : M (Emu × Nat))) = .ok (e1, n) := hs
    cases hc : Model.Emu.resize Model.Emu.Fixes.current e w h with
    | error p => rw [hc] at h'; cases h'
    | ok x => rw [hc] at h'; cases h'; rfl
  obtain ⟨per, hper, _⟩ := C05Draw.draw_covers_rows lr.sim.inv lr.sim.dim
  have hsz : ((w : Int) ≠ e.width ∨ (h : Int) ≠ e.height) := by
    rw [Lemmas.Emu.width_eq hl.sim.inv hl.sim.dim.r1, Lemmas.Emu.height_eq hl.sim.inv]
    rcases hne with h1 | h1
    · exact Or.inl (by omega)
    · exact Or.inr (by omega)
  refine ⟨e1, per.flatten, hr1, ?_, ⟨lr.ready, lr.vis, dsim_hasVx lr.sim true, lr.alt⟩⟩
  simp only [Model.EmuDraw.draw, hsz, if_true, hrz, hper, bind, Except.bind]

/-! ### "… and drawing the emulator into a host window of that size yields those same cells" -/

open VaxisModel.Model.EmuDraw VaxisModel.Lemmas.C12Draw VaxisModel.Lemmas.EmuDraw in
/-- **After every frame of every segment, `Draw` into a host window of that segment's size reproduces
    the application's screen** (`draw_reproduces_screen` for the renderer as it is now, at the end of
    any history with resizes): no resize happens, the `SetCell` calls are row by row exactly one per
    glyph cell of the application's screen (`expectedC`), each carrying a cell that shows that glyph
    and landing on the host cell with the same coordinates; the cursor shown in a focused window is the
    application's cursor. -/
theorem emu_draw_across_resizes (dec : String → G) (cw : String → Nat) (hsp : cw "20" = 1) (hd : dec "20" = [32])
    (hemp : dec "" = []) (hlp : LpOk dec) (segs : List Seg) (rows cols : Nat) (s : HState) (e : Emu)
    (hl : LinkedR dec cw s e rows cols) (hok : ∀ sg ∈ segs, SegOk dec cw sg)
    (sg : Seg) (fi : FrameIn) (hsg : segs.getLast? = some sg) (hfi : sg.frames.getLast? = some fi) (focused : Bool) :
    ∃ (e' : Emu) (per : List (List DrawCall)), runSegs dec cw s e segs = .ok e' ∧
      draw true Model.Emu.Fixes.current e' sg.cols sg.rows focused =
        .ok ({ e' with hasVx := true }, per.flatten, shownCursor true e' focused) ∧
      per.length = sg.rows ∧
      (∀ (k : Nat) (l : List DrawCall), per[k]? = some l →
        ∃ drow, (Expected.expectedC cw emuCaps fi.next)[k]? = some drow ∧
          (∀ call ∈ l, ∃ (j : Nat) (d : DCell), call.col = (j : Int) ∧ call.row = (k : Int) ∧ drow[j]? = some d ∧
            d ≠ .cont ∧ HostRel dec d call.cell ∧
            setCellChain sg.cols sg.rows [Win.root sg.cols sg.rows] call.col call.row = some ((j : Int), (k : Int))) ∧
          (∀ (j : Nat) (d : DCell), drow[j]? = some d → d ≠ .cont → ∃ call ∈ l, call.col = (j : Int))) ∧
      shownCursor true e' true = (if fi.cursor.visible then some (fi.cursor.col, fi.cursor.row) else none) := by
  obtain ⟨e', hr, h⟩ := emu_shows_across_resizes dec cw hsp hd hemp hlp segs rows cols s e hl hok
  obtain ⟨hi, _, hs⟩ := h sg hsg
  have hsh := hs fi hfi
  have hsgok := hok sg (List.mem_of_getLast? hsg)
  have dm : Lemmas.Emu.Dim sg.rows sg.cols := ⟨hsgok.1.2.2.1, hsgok.1.1, hsgok.1.2.2.2, hsgok.1.2.1⟩
  have hrel := hsh.1
  rw [Lemmas.RenderClip.expectedC_eq] at hrel
  obtain ⟨per, h1, h2, h3⟩ := C12.draw_reproduces_screen dec cw (clipIn cw fi).next e' sg.rows sg.cols hi dm hrel focused
  refine ⟨e', per, hr, h1, h2, ?_, ?_⟩
  · rw [Lemmas.RenderClip.expectedC_eq]; exact h3
  · have hfiok := hsgok.2.2 fi (List.mem_of_getLast? hfi)
    have hsh' : Shows dec cw (clipIn cw fi) e' := by
      unfold Shows
      unfold ShowsC at hsh
      rw [Lemmas.RenderClip.expectedC_eq] at hsh
      exact hsh
    exact C12.draw_shows_cursor dec cw (clipIn cw fi) e' sg.rows sg.cols hi hsh'
      (fun hv => by have := (hfiok.1.2.2.2 hv).2.2; exact_mod_cast this)

/-! ### the start state is the one the real start-up leaves; non-vacuity -/

open VaxisModel.Model.C12Replies in
/-- **From the real start-up** (20×6): the emulator model fed everything the real Vaxis writes until
    it is ready to render (`startupAll`, compared with the real byte stream on every run) is on the
    alternate screen and in a start state of `emu_shows_across_resizes`. -/
theorem emu_real_startup_on_alt (dec : String → G) (cw : String → Nat) (hemp : dec "" = []) :
    ∃ e, runOps (Lemmas.EmuRefine.newState 20 6) startupAll = .ok e ∧ LinkedR dec cw (startState 20 6) e 6 20 := by
  obtain ⟨e, hr, hs⟩ := emu_real_startup_related dec hemp
  have halt : (match runOps (Lemmas.EmuRefine.newState 20 6) startupAll with
      | .ok e => e.mode.smcup
      | .error _ => false) = true := by decide +kernel
  rw [hr] at halt
  exact ⟨e, hr, ⟨start_ready 20 6, fun _ => rfl, hs, halt⟩⟩

def gridW : Grid := [[({ g := "61" } : Cell), {}, { g := "57", style := { bg := 16777220 } }, {}, {}, {}, {}], [{}, {}, {}, {}, {}, {}, {}]]

/-- All hypotheses of `emu_shows_across_resizes` hold for a history from the real start-up state
    through three sizes: 3×1 (a refresh with a wide glyph and a hyperlinked bold cell, then a diff
    frame that shows the cursor), 2×1 (the F02 input: a wide glyph in the last column), 7×2 — and an
    immediate further resize without a frame in between. -/
example :
    let fi0 : FrameIn := ⟨true, grid1, {}, ""⟩
    let fi1 : FrameIn := ⟨false, grid2, { visible := true, col := 1, style := 3 }, "text"⟩
    let fi2 : FrameIn := ⟨true, gridW, { visible := true, col := 6, row := 1, style := 3 }, "text"⟩
    ∃ e0 e', runOps (Lemmas.EmuRefine.newState 20 6) Model.C12Replies.startupAll = .ok e0 ∧
      runSegs decEx cwEx (startState 20 6) e0 [⟨3, 1, [fi0, fi1]⟩, ⟨2, 1, [fiF02]⟩, ⟨5, 5, []⟩, ⟨7, 2, [fi2]⟩] = .ok e' ∧
      ShowsC decEx cwEx fi2 e' := by
  intro fi0 fi1 fi2
  obtain ⟨e0, h0, hl⟩ := emu_real_startup_on_alt decEx cwEx rfl
  have hcell : ∀ c : Cell, (c.sixel = false ∧ c.w = 0 ∧ c.style.ulStyle = 0) → (cwEx c.g ≤ 2 ∧ (cwEx c.g ≠ 0 → decEx c.g ≠ [])) →
      (c.sixel = false ∧ 0 ≤ c.w ∧ Lemmas.RenderDisplay.WidthOk cwEx emuCaps c) ∧ CellOk decEx cwEx c :=
    fun c h1 h2 => ⟨⟨h1.1, by rw [h1.2.1]; decide, Or.inl h1.2.1⟩, h2⟩
  have hgrid : ∀ g : Grid, (g = grid1 ∨ g = grid2 ∨ g = gridF02 ∨ g = gridW) → ∀ r ∈ g, ∀ c ∈ r,
      (c.sixel = false ∧ 0 ≤ c.w ∧ Lemmas.RenderDisplay.WidthOk cwEx emuCaps c) ∧ CellOk decEx cwEx c := by
    intro g hg r hr c hc
    rcases hg with rfl | rfl | rfl | rfl
    all_goals
      simp only [grid1, grid2, gridF02, gridW, List.mem_cons, List.not_mem_nil, or_false] at hr
    · subst hr
      simp only [List.mem_cons, List.not_mem_nil, or_false] at hc
      rcases hc with rfl | rfl | rfl <;> exact hcell _ (by decide) (by decide)
    · subst hr
      simp only [List.mem_cons, List.not_mem_nil, or_false] at hc
      rcases hc with rfl | rfl | rfl <;> exact hcell _ (by decide) (by decide)
    · subst hr
      simp only [List.mem_cons, List.not_mem_nil, or_false] at hc
      rcases hc with rfl | rfl <;> exact hcell _ (by decide) (by decide)
    · rcases hr with rfl | rfl
      · simp only [List.mem_cons, List.not_mem_nil, or_false] at hc
        rcases hc with rfl | rfl | rfl | rfl | rfl | rfl | rfl <;> exact hcell _ (by decide) (by decide)
      · simp only [List.mem_cons, List.not_mem_nil, or_false] at hc
        rcases hc with rfl | rfl | rfl | rfl | rfl | rfl | rfl <;> exact hcell _ (by decide) (by decide)
  have hfr : ∀ (fi : FrameIn) (rows cols : Nat), (fi.next = grid1 ∨ fi.next = grid2 ∨ fi.next = gridF02 ∨ fi.next = gridW) →
      fi.next.length = rows → (∀ r ∈ fi.next, r.length = cols) → fi.cursor.style ≤ 65535 →
      (fi.cursor.visible = true → (0 ≤ fi.cursor.row ∧ fi.cursor.row < rows) ∧ (0 ≤ fi.cursor.col ∧ fi.cursor.col < cols)) →
      FrameInOkC cwEx emuCaps rows cols fi ∧ EmuFrameOk decEx cwEx fi :=
    fun fi rows cols hg h1 h2 h3 h4 =>
      ⟨⟨h1, h2, fun r hr c hc => (hgrid _ hg r hr c hc).1, h4⟩, fun r hr c hc => (hgrid _ hg r hr c hc).2, h3⟩
  obtain ⟨e', hr, hsh⟩ := emu_shows_across_resizes decEx cwEx rfl rfl rfl lpOk_decEx
    [⟨3, 1, [fi0, fi1]⟩, ⟨2, 1, [fiF02]⟩, ⟨5, 5, []⟩, ⟨7, 2, [fi2]⟩] 6 20 (startState 20 6) e0 hl (by
      intro sg hsg
      simp only [List.mem_cons, List.not_mem_nil, or_false] at hsg
      rcases hsg with rfl | rfl | rfl | rfl
      · refine ⟨by decide, fun fi h => by cases h; rfl, ?_⟩
        intro fi hfi
        simp only [List.mem_cons, List.not_mem_nil, or_false] at hfi
        rcases hfi with rfl | rfl
        · exact hfr _ 1 3 (Or.inl rfl) rfl (by decide) (by decide) (fun h => absurd h (by decide))
        · exact hfr _ 1 3 (Or.inr (Or.inl rfl)) rfl (by decide) (by decide) (fun _ => by decide)
      · refine ⟨by decide, fun fi h => by cases h; rfl, ?_⟩
        intro fi hfi
        simp only [List.mem_cons, List.not_mem_nil, or_false] at hfi
        subst hfi
        exact hfr _ 1 2 (Or.inr (Or.inr (Or.inl rfl))) rfl (by decide) (by decide) (fun h => absurd h (by decide))
      · exact ⟨by decide, fun fi h => by simp at h, fun fi h => by simp at h⟩
      · refine ⟨by decide, fun fi h => by cases h; rfl, ?_⟩
        intro fi hfi
        simp only [List.mem_cons, List.not_mem_nil, or_false] at hfi
        subst hfi
        exact hfr _ 2 7 (Or.inr (Or.inr (Or.inr rfl))) rfl (by decide) (by decide) (fun _ => by decide))
  exact ⟨e0, e', h0, hr, (hsh _ rfl).2.2 fi2 rfl⟩

end VaxisModel.Props.C12Resize
