/-
C12 — the real start-up leaves a start state of the composition theorem AT EVERY SIZE.

`Props.C12Resize.emu_real_startup_on_alt` / `Props.C12.emu_real_startup_related` evaluate the
emulator model over `Model.C12Replies.startupAll` (everything the real Vaxis writes from `New()`
until it is ready to render; compared with the real byte stream on every run) in the kernel, for the
one size 20×6. Here the same statement is proved for every admissible size `w × h`
(1 ≤ w, h ≤ 65535) by following the run symbolically (`Lemmas.C12StartAny`): every sequence of
`startupAll` keeps the cursor record, the charsets, both DECSC slots, the modes the renderer's
vocabulary relies on and every cell of both grids at their power-on values (`StartP`), from ANY such
state; the last `CSI ? 1049 h` leaves the emulator on the alternate screen, the `CSI ? 25 l` after it
hides the cursor, and `enableModes()` touches neither.
-/
import VaxisModel.Props.C12Resize
import VaxisModel.Lemmas.C12StartAny

namespace VaxisModel.Props.C12StartAny
open VaxisModel.Model.Render VaxisModel.Spec VaxisModel.Spec.Display VaxisModel.Lemmas.RenderGate
open VaxisModel.Model.Emu (Emu EOp G M runOps)
open VaxisModel.Model.C12Compose VaxisModel.Lemmas.C12Sim VaxisModel.Lemmas.C12Vocab VaxisModel.Lemmas.C12Resize
open VaxisModel.Lemmas.EmuRefine (EFrame)
open VaxisModel.Props.C01 (CursorAs Agree)
open VaxisModel.Props.C01Display (FrameIn HState mkFrame stepH FrameInOk Ready)
open VaxisModel.Props.C12 VaxisModel.Props.C12Resize
open VaxisModel.Model.C12Replies
open VaxisModel.Lemmas.C12StartAny

/-- **The start-up from any start-like state**: from ANY well-formed `rows × cols` emulator state in
    which the cursor record, the charsets, both saved cursors, the modes DECAWM / DECOM / IRM / LNM
    and every cell of both screens are at their power-on values (`StartP`; the screen in use, the
    other mode flags, the margins and the tab stops are arbitrary), everything the real Vaxis writes
    at start-up runs without panic and ends in a state that passes the start-state check, on the
    alternate screen. -/
theorem emu_startup_from_any (rows cols : Nat) (d : Lemmas.Emu.Dim rows cols) (e : Emu) (h : StartP e rows cols) :
    ∃ e0, runOps e startupAll = .ok e0 ∧ StartP e0 rows cols ∧ startCheck e0 = true ∧ e0.mode.smcup = true := by
  obtain ⟨e0, hr, h0, hs, hd⟩ := run_startupAll d e h
  exact ⟨e0, hr, h0, startCheck_of h0 hd, hs⟩

/-- **From the real start-up, at every size**: the emulator model, started as `New()` + `resize(w, h)`
    and fed everything the real Vaxis writes until it is ready to render (`startupAll`: compared with
    the real byte stream on every run), ends without panic on the alternate screen, in a start state
    of `emu_shows_across_resizes` (C01's `Ready`, `DSim … (startDisplay w h)`, `smcup`). -/
theorem emu_real_startup_every_size (dec : String → G) (cw : String → Nat) (hemp : dec "" = [])
    (w h : Int) (hw1 : 1 ≤ w) (hw2 : w ≤ 65535) (hh1 : 1 ≤ h) (hh2 : h ≤ 65535) :
    ∃ e0, runOps (Lemmas.EmuRefine.newState w h) startupAll = .ok e0 ∧
      LinkedR dec cw (startState w.toNat h.toNat) e0 h.toNat w.toNat := by
  have d : Lemmas.Emu.Dim h.toNat w.toNat := ⟨by omega, by omega, by omega, by omega⟩
  obtain ⟨e0, hr, h0, hc, hs⟩ := emu_startup_from_any h.toNat w.toNat d _ (startP_new w h hw1 hw2 hh1 hh2)
  exact ⟨e0, hr, ⟨start_ready w.toNat h.toNat, fun _ => rfl,
    dsim_of_startCheck hemp e0 h.toNat w.toNat h0.inv d hc, hs⟩⟩

/-- The new theorem reproduces the statement of `C12Resize.emu_real_startup_on_alt` (20×6). -/
theorem emu_real_startup_every_size_20x6 (dec : String → G) (cw : String → Nat) (hemp : dec "" = []) :
    ∃ e, runOps (Lemmas.EmuRefine.newState 20 6) startupAll = .ok e ∧ LinkedR dec cw (startState 20 6) e 6 20 :=
  emu_real_startup_every_size dec cw hemp 20 6 (by decide) (by decide) (by decide) (by decide)

/-- Non-vacuity: the smallest and a very wide terminal. -/
example (dec : String → G) (cw : String → Nat) (hemp : dec "" = []) :
    (∃ e0, runOps (Lemmas.EmuRefine.newState 1 1) startupAll = .ok e0 ∧ LinkedR dec cw (startState 1 1) e0 1 1) ∧
    (∃ e0, runOps (Lemmas.EmuRefine.newState 65535 3) startupAll = .ok e0 ∧
      LinkedR dec cw (startState 65535 3) e0 3 65535) :=
  ⟨emu_real_startup_every_size dec cw hemp 1 1 (by decide) (by decide) (by decide) (by decide),
   emu_real_startup_every_size dec cw hemp 65535 3 (by decide) (by decide) (by decide) (by decide)⟩

/-- Non-vacuity of `emu_startup_from_any`: its hypothesis holds of the freshly started emulator, and
    of the state the start-up itself leaves (so Vaxis may be started twice in the same emulator). -/
example : ∃ e0 e1, runOps (Lemmas.EmuRefine.newState 80 24) startupAll = .ok e0 ∧ runOps e0 startupAll = .ok e1 ∧
    startCheck e1 = true ∧ e1.mode.smcup = true := by
  have d : Lemmas.Emu.Dim 24 80 := ⟨by decide, by decide, by decide, by decide⟩
  obtain ⟨e0, r0, h0, _, _⟩ := emu_startup_from_any 24 80 d _ (startP_new 80 24 (by decide) (by decide) (by decide) (by decide))
  obtain ⟨e1, r1, _, c1, s1⟩ := emu_startup_from_any 24 80 d e0 h0
  exact ⟨e0, e1, r0, r1, c1, s1⟩

end VaxisModel.Props.C12StartAny
