/-
C12 — "the replies the emulator gives to Vaxis's start-up queries are understood by Vaxis as exactly
the features the emulator implements", for EVERY INTERLEAVING of Vaxis' two goroutines.

Composition of
* the emulator model's reply writers run over `sendQueries()` (`Model/C12Replies.lean`, `run_startup`:
  from any emulator state the replies are `startupReplies`), with
* C07's model of the start-up of `vaxis.New()` (`Model/Startup.lean`): the input goroutine
  (`handleSequence`) running concurrently with `sendQueries` / the explicit-width probe /
  the `for`/`select` loop / `applyQuirks`, every interleaving a run of `Startup.next`, any queue
  capacity; and C07's `caps_exact`.
-/
import VaxisModel.Props.C12
import VaxisModel.Props.C07Caps
import VaxisModel.Lemmas.C12Startup
import VaxisModel.Lemmas.C12StartupLive
import VaxisModel.Lemmas.C12Wire

namespace VaxisModel.Props.C12Startup
open VaxisModel.Model.Input VaxisModel.Model.InputLoop VaxisModel.Model.Startup
open VaxisModel.Model.C12Replies VaxisModel.Lemmas.C12Replies VaxisModel.Lemmas.C12Startup
open VaxisModel.Spec.Startup
open VaxisModel.Model.Emu (Emu)
open VaxisModel.Lemmas.C12StartupLive

/-- The first element with property `P` splits a list in one way only. -/
theorem first_split_unique {α : Type} (P : α → Bool) :
    ∀ (A A' : List α) (d d' : α) (B B' : List α), A ++ d :: B = A' ++ d' :: B' → P d = true → P d' = true →
      (∀ x ∈ A, P x = false) → (∀ x ∈ A', P x = false) → A = A' ∧ d = d' ∧ B = B' := by
  intro A
  induction A with
  | nil =>
    intro A' d d' B B' h hd hd' _ hA'
    cases A' with
    | nil => simp at h; exact ⟨rfl, h.1, h.2⟩
    | cons a as =>
      simp at h
      have := hA' a (by simp)
      rw [← h.1, hd] at this; cases this
  | cons a as ih =>
    intro A' d d' B B' h hd hd' hA hA'
    cases A' with
    | nil =>
      simp at h
      have := hA a (by simp)
      rw [h.1, hd'] at this; cases this
    | cons a' as' =>
      simp at h
      obtain ⟨r1, r2, r3⟩ := ih as' d d' B B' h.2 hd hd' (fun x hx => hA x (by simp [hx])) (fun x hx => hA' x (by simp [hx]))
      exact ⟨by rw [h.1, r1], r2, r3⟩

/-- The replies before DA1. -/
def preReplies (hostBg : Option (Nat × Nat × Nat)) (e : Emu) : List Seq :=
  [.csi [63, 36] [[2026], [0]] 121, .csi [63, 36] [[2027], [3]] 121, .csi [63, 36] [[2031], [0]] 121,
   .csi [] [[1], [1]] 82] ++ replies hostBg e (.osc osc11Query { b64ok := true })

def da1Reply : Seq := .csi [63] [[62], [4], [22]] 99

theorem startupReplies_split (hostBg : Option (Nat × Nat × Nat)) (e : Emu) :
    startupReplies hostBg e = preReplies hostBg e ++ da1Reply :: [] := rfl

theorem pre_noDA1 (hostBg : Option (Nat × Nat × Nat)) (e : Emu) : ∀ s ∈ preReplies hostBg e, isDA1 s = false := by
  intro s hs
  unfold preReplies replies at hs
  simp only [List.mem_append, List.mem_cons, List.not_mem_nil, or_false] at hs
  rcases hs with (rfl | rfl | rfl | rfl) | hs
  · rfl
  · rfl
  · rfl
  · rfl
  · split at hs
    · cases hostBg with
      | none => simp at hs
      | some t =>
        obtain ⟨r, g, b⟩ := t
        simp only [List.mem_singleton] at hs
        subst hs
        rfl
    · simp at hs

/-- What the spec of C07 makes of the emulator's replies (the probe not answered with column 2). -/
theorem specCaps_startupReplies (o : Opts) (hct : o.colorterm = false) (hostBg : Option (Nat × Nat × Nat)) (e : Emu)
    (pc : Option Int) (hpc : (pc == some 2) = false) :
    specCaps o (startupReplies hostBg e) pc =
      { sixels := true, unicodeCore := true, osc11 := e.hasVx && hostBg.isSome } := by
  unfold specCaps
  rw [hpc, hct]
  unfold startupReplies replies
  cases hv : e.hasVx with
  | false => simp only [Bool.false_eq_true, and_false, if_false]; rfl
  | true =>
    cases hostBg with
    | none => simp only [and_self, if_true]; rfl
    | some t =>
      obtain ⟨r, g, b⟩ := t
      simp only [and_self, if_true]
      rfl

/-- **C12, the start-up dialogue, every interleaving.** Let the terminal of a starting Vaxis be the
    emulator (any state `e`, host background known or not): what Vaxis's input goroutine receives, in
    order, is what the emulator model replies to `sendQueries()` (`hq`, `hin`). Then for EVERY run of
    C07's start-up system — every interleaving of the input goroutine (parsing, `handleSequence`,
    posting to the queue, handing the cursor position over) with `New()` (the explicit-width probe
    answered in time or timed out, the collection loop), every queue capacity — that reaches the end of
    `New()` by the DA1 notification with no non-blocking post dropped, no environment override and
    `COLORTERM` unset: the capability record is exactly
    `{sixels, unicodeCore, osc11 iff the host's background was reported}` — nothing else is
    "understood" — and the four capabilities the renderer consults are `emuCaps`, the capability set
    of the composition theorems. -/
theorem emu_dialogue_caps (hostBg : Option (Nat × Nat × Nat)) (e e' : Emu) (rs : List Seq)
    (hq : runQ hostBg e startupQueries = .ok (e', rs))
    (p : Params) (o : Opts) (henv : o.envUnset = true) (hct : o.colorterm = false)
    (ls : List VaxisModel.Model.Startup.Label) (st : St) (hin : inputsOf ls = rs)
    (hrun : VaxisModel.Model.Startup.run p o (St.init o) ls = some st)
    (hready : st.phase = .ready) (hto : st.timedOut = false) (hdrop : st.sys.dropped = 0) :
    st.sys.vs.caps = { sixels := true, unicodeCore := true, osc11 := e.hasVx && hostBg.isSome } ∧
    ({ rgb := st.sys.vs.caps.rgb, styledUnderlines := st.sys.vs.caps.styledUnderlines,
       explicitWidth := st.sys.vs.caps.explicitWidth, sync := st.sys.vs.caps.synchronizedUpdate } : Model.Render.Caps) = C12.emuCaps := by
  obtain ⟨e1, he1⟩ := run_startup hostBg e
  rw [hq] at he1
  have hrs : rs = startupReplies hostBg e := by cases he1; rfl
  subst hrs
  have hpi := pinv_run p o ls (St.init o) st (pinv_init o)
    (by rw [hin]; exact startupReplies_safe p.b64 hostBg e) hrun
  obtain ⟨A, d, B, hsplit, hd, hA, hcaps⟩ := C07Caps.caps_exact p o ls st hrun hready hto hdrop henv (by
    intro x hx
    have := hpi.got x hx
    omega)
  rw [hin, startupReplies_split] at hsplit
  obtain ⟨rA, rd, _⟩ := first_split_unique isDA1 A (preReplies hostBg e) d da1Reply B [] hsplit.symm hd rfl hA (pre_noDA1 hostBg e)
  have hAd : A ++ [d] = startupReplies hostBg e := by rw [rA, rd]; rfl
  have hpc : ((st.probeGot.map (·.2)) == some 2) = false := by
    cases hg : st.probeGot with
    | none => rfl
    | some x =>
      have := hpi.got x hg
      simp [this]
  rw [hAd, specCaps_startupReplies o hct hostBg e _ hpc] at hcaps
  refine ⟨hcaps, ?_⟩
  rw [hcaps]
  rfl

/-! ### with `COLORTERM=truecolor` in the environment -/

theorem specCaps_startupReplies_any (o : Opts) (hostBg : Option (Nat × Nat × Nat)) (e : Emu)
    (pc : Option Int) (hpc : (pc == some 2) = false) :
    specCaps o (startupReplies hostBg e) pc =
      { sixels := true, unicodeCore := true, osc11 := e.hasVx && hostBg.isSome, rgb := o.colorterm } := by
  unfold specCaps
  rw [hpc]
  unfold startupReplies replies
  cases hv : e.hasVx with
  | false => simp only [Bool.false_eq_true, and_false, if_false]; cases o.colorterm <;> rfl
  | true =>
    cases hostBg with
    | none => simp only [and_self, if_true]; cases o.colorterm <;> rfl
    | some t =>
      obtain ⟨r, g, b⟩ := t
      simp only [and_self, if_true]
      cases o.colorterm <;> rfl

/-- **The start-up dialogue, every interleaving, whatever `COLORTERM` is**: as `emu_dialogue_caps`
    without the hypothesis `COLORTERM` unset — `widgets/term` passes its host's environment on to the
    child, and `COLORTERM=truecolor` makes `New()` post `truecolor` itself. The capability record is
    `{sixels, unicodeCore, osc11 iff reported, rgb iff COLORTERM says so}`; the renderer's capabilities
    are `emuCaps` with `rgb := o.colorterm` — the capability sets of `Props/C12Caps.lean`
    (`emuCaps` / `emuCapsRgb`). Direct colour is implemented by the emulator (`sgr.go`), so also in this
    case nothing is understood that the emulator does not implement. -/
theorem emu_dialogue_caps_any (hostBg : Option (Nat × Nat × Nat)) (e e' : Emu) (rs : List Seq)
    (hq : runQ hostBg e startupQueries = .ok (e', rs))
    (p : Params) (o : Opts) (henv : o.envUnset = true)
    (ls : List VaxisModel.Model.Startup.Label) (st : St) (hin : inputsOf ls = rs)
    (hrun : VaxisModel.Model.Startup.run p o (St.init o) ls = some st)
    (hready : st.phase = .ready) (hto : st.timedOut = false) (hdrop : st.sys.dropped = 0) :
    st.sys.vs.caps = { sixels := true, unicodeCore := true, osc11 := e.hasVx && hostBg.isSome, rgb := o.colorterm } ∧
    ({ rgb := st.sys.vs.caps.rgb, styledUnderlines := st.sys.vs.caps.styledUnderlines,
       explicitWidth := st.sys.vs.caps.explicitWidth, sync := st.sys.vs.caps.synchronizedUpdate } : Model.Render.Caps) =
      { C12.emuCaps with rgb := o.colorterm } := by
  obtain ⟨e1, he1⟩ := run_startup hostBg e
  rw [hq] at he1
  have hrs : rs = startupReplies hostBg e := by cases he1; rfl
  subst hrs
  have hpi := pinv_run p o ls (St.init o) st (pinv_init o)
    (by rw [hin]; exact startupReplies_safe p.b64 hostBg e) hrun
  obtain ⟨A, d, B, hsplit, hd, hA, hcaps⟩ := C07Caps.caps_exact p o ls st hrun hready hto hdrop henv (by
    intro x hx
    have := hpi.got x hx
    omega)
  rw [hin, startupReplies_split] at hsplit
  obtain ⟨rA, rd, _⟩ := first_split_unique isDA1 A (preReplies hostBg e) d da1Reply B [] hsplit.symm hd rfl hA (pre_noDA1 hostBg e)
  have hAd : A ++ [d] = startupReplies hostBg e := by rw [rA, rd]; rfl
  have hpc : ((st.probeGot.map (·.2)) == some 2) = false := by
    cases hg : st.probeGot with
    | none => rfl
    | some x =>
      have := hpi.got x hg
      simp [this]
  rw [hAd, specCaps_startupReplies_any o hostBg e _ hpc] at hcaps
  refine ⟨hcaps, ?_⟩
  rw [hcaps]
  rfl

/-! ### termination for every interleaving -/

/-- Nothing but a time-out can happen any more: the goroutine cannot step, the probe cannot receive,
    the loop cannot receive, `applyQuirks` is not next (and all replies have been delivered). -/
def Quiescent (p : Params) (o : Opts) (st : St) : Prop :=
  VaxisModel.Model.Startup.next p o st .step = none ∧ VaxisModel.Model.Startup.next p o st .clipTimeout = none ∧
  VaxisModel.Model.Startup.next p o st .probeRecv = none ∧ VaxisModel.Model.Startup.next p o st .loopRecv = none ∧
  VaxisModel.Model.Startup.next p o st .quirks = none

/-- **The dialogue terminates, for every interleaving**: take any run of the start-up system in which
    no time-out fires (neither the 50 ms of the probe nor the 3 s of the loop), whose inputs are the
    emulator's replies — all of them delivered, in any interleaving with `New()` —, and which cannot be
    continued without a time-out. Then `New()` is past `applyQuirks` (the run did not get stuck
    waiting: the probe received its answer, the loop saw the DA1 notification), nothing was dropped,
    and the capabilities are exactly those of `emu_dialogue_caps`. Needs a queue of at least 7 events
    (the default is 1024), reply sends that do not block (`Kinds.safe`, the source since the F10 / F11
    repairs) and a buffered `chCursorPos` (F12). -/
theorem emu_dialogue_completes (hostBg : Option (Nat × Nat × Nat)) (e : Emu)
    (p : Params) (hq : 7 ≤ p.qcap) (hk : VaxisModel.Lemmas.InputLoop.Kinds.safe p.kinds) (hcap : p.cursorCap ≠ 0)
    (o : Opts) (henv : o.envUnset = true) (hct : o.colorterm = false)
    (ls : List VaxisModel.Model.Startup.Label) (st : St) (hin : inputsOf ls = startupReplies hostBg e)
    (hnt : ∀ l ∈ ls, isTimeout l = false)
    (hrun : VaxisModel.Model.Startup.run p o (St.init o) ls = some st) (hquiet : Quiescent p o st) :
    st.phase = .ready ∧ st.timedOut = false ∧ st.sys.dropped = 0 ∧
    st.sys.vs.caps = { sixels := true, unicodeCore := true, osc11 := e.hasVx && hostBg.isSome } := by
  have hI0 : LInv p (St.init o) (inputsOf ls ++ []) := by
    rw [List.append_nil, hin]
    refine ⟨?_, fun _ => Or.inl ⟨startupReplies_hasCPR hostBg e, rfl⟩, rfl, rfl⟩
    have := startupReplies_budget hostBg e
    simp only [St.init, hct, Bool.false_eq_true, if_false, List.length_nil, VaxisModel.Lemmas.InputEvents.posted]
    omega
  have hI := linv_run p o hcap ls (St.init o) st [] hI0
    (by rw [hin]; exact startupReplies_good p.b64 hostBg e) hnt hrun
  obtain ⟨q1, q2, q3, q4, q5⟩ := hquiet
  obtain ⟨k1, k2, k3, k4, k5, k6⟩ := hk
  -- the goroutine is back at its select
  have hpend : st.sys.pend = [] := by
    cases hp : st.sys.pend with
    | nil => rfl
    | cons ef rest =>
      exfalso
      have hb := hI.budget
      have hstep : stepEffect p st.sys ef rest = none := by
        simp only [VaxisModel.Model.Startup.next, liftSys, VaxisModel.Model.InputLoop.next, hp] at q1
        cases hse : stepEffect p st.sys ef rest with
        | none => rfl
        | some x => rw [hse] at q1; simp at q1
      cases ef with
      | postB ev =>
        rw [hp] at hb
        simp only [VaxisModel.Lemmas.InputEvents.posted, List.length_cons] at hb
        simp only [stepEffect] at hstep
        split at hstep
        · cases hstep
        · omega
      | postNB ev =>
        simp only [stepEffect] at hstep
        split at hstep <;> cases hstep
      | sendCursorPos r c =>
        obtain ⟨b, hb'⟩ := VaxisModel.Lemmas.InputLoop.send1_some p.kinds.cursorPos k1 st.sys.cursorCh.length
        simp only [stepEffect, hcap, if_false, hb'] at hstep
        cases b <;> cases hstep
      | sendSizeDone =>
        obtain ⟨b, hb'⟩ := VaxisModel.Lemmas.InputLoop.send1_some p.kinds.sizeDone k2 st.sys.sizeDone
        simp only [stepEffect, hb'] at hstep
        cases b <;> cases hstep
      | sendColor v =>
        obtain ⟨b, hb'⟩ := VaxisModel.Lemmas.InputLoop.send1_some p.kinds.color k3 st.sys.color.length
        simp only [stepEffect, hb'] at hstep
        cases b <;> cases hstep
      | sendFg v =>
        obtain ⟨b, hb'⟩ := VaxisModel.Lemmas.InputLoop.send1_some p.kinds.fg k4 st.sys.fg.length
        simp only [stepEffect, hb'] at hstep
        cases b <;> cases hstep
      | sendBg v =>
        obtain ⟨b, hb'⟩ := VaxisModel.Lemmas.InputLoop.send1_some p.kinds.bg k5 st.sys.bg.length
        simp only [stepEffect, hb'] at hstep
        cases b <;> cases hstep
      | sendClipboard v =>
        simp only [VaxisModel.Model.Startup.next, liftSys, VaxisModel.Model.InputLoop.next, hp, k6, beq_self_eq_true, if_true] at q2
        cases q2
  have hins : st.ins = startupReplies hostBg e := by
    have := VaxisModel.Lemmas.Startup.ins_run p o ls (St.init o) st hrun
    simpa [St.init, hin] using this
  have hready : st.phase = .ready := by
    cases hph : st.phase with
    | ready => rfl
    | done =>
      simp only [VaxisModel.Model.Startup.next, hph, if_true] at q5
      cases q5
    | probe =>
      exfalso
      rcases hI.probe hph with ⟨ha, _⟩ | ⟨r, c, hm⟩ | hc
      · simp at ha
      · rw [hpend] at hm; cases hm
      · simp only [VaxisModel.Model.Startup.next, hph, if_true] at q3
        cases hcc : st.sys.cursorCh with
        | nil => exact hc hcc
        | cons v t => rw [hcc] at q3; cases q3
    | loop =>
      exfalso
      have hqueue : st.sys.queue = [] := by
        cases hqq : st.sys.queue with
        | nil => rfl
        | cons ev q =>
          simp only [VaxisModel.Model.Startup.next, hph, if_true, hqq] at q4
          split at q4 <;> cases q4
      have hinv := VaxisModel.Lemmas.Startup.inv_run p o ls (St.init o) st (VaxisModel.Lemmas.Startup.inv_init o) hrun
      have hda := hinv.v.hasDA (Or.inr hph) (by
        show VaxisModel.Lemmas.Startup.seenDA st.ins = true
        rw [hins]
        unfold VaxisModel.Lemmas.Startup.seenDA startupReplies
        simp only [List.any_append, List.any_cons, List.any_nil, Bool.or_false, Bool.or_eq_true]
        exact Or.inr rfl)
      have hnp : (VaxisModel.Lemmas.Startup.view st).np = [] := by
        show VaxisModel.Lemmas.Startup.np st = []
        simp [VaxisModel.Lemmas.Startup.np, hqueue, hpend, VaxisModel.Lemmas.InputEvents.posted]
      rw [hnp] at hda
      simp at hda
  obtain ⟨e1, he1⟩ := run_startup hostBg e
  exact ⟨hready, hI.noTO, hI.noDrop,
    (emu_dialogue_caps hostBg e e1 _ he1 p o henv hct ls st hin hrun hready hI.noTO hI.noDrop).1⟩

/-- **Termination for every interleaving, whatever `COLORTERM` is** (`emu_dialogue_completes` without
    the hypothesis `COLORTERM` unset; the `truecolor` event `New()` posts itself takes one more place
    in the queue: capacity ≥ 8). -/
theorem emu_dialogue_completes_any (hostBg : Option (Nat × Nat × Nat)) (e : Emu)
    (p : Params) (hq : 8 ≤ p.qcap) (hk : VaxisModel.Lemmas.InputLoop.Kinds.safe p.kinds) (hcap : p.cursorCap ≠ 0)
    (o : Opts) (henv : o.envUnset = true)
    (ls : List VaxisModel.Model.Startup.Label) (st : St) (hin : inputsOf ls = startupReplies hostBg e)
    (hnt : ∀ l ∈ ls, isTimeout l = false)
    (hrun : VaxisModel.Model.Startup.run p o (St.init o) ls = some st) (hquiet : Quiescent p o st) :
    st.phase = .ready ∧ st.timedOut = false ∧ st.sys.dropped = 0 ∧
    st.sys.vs.caps = { sixels := true, unicodeCore := true, osc11 := e.hasVx && hostBg.isSome, rgb := o.colorterm } := by
  have hI0 : LInv p (St.init o) (inputsOf ls ++ []) := by
    rw [List.append_nil, hin]
    refine ⟨?_, fun _ => Or.inl ⟨startupReplies_hasCPR hostBg e, rfl⟩, rfl, rfl⟩
    have := startupReplies_budget hostBg e
    have hql : (St.init o).sys.queue.length ≤ 1 := by
      simp only [St.init]; split <;> simp
    have hpd : (VaxisModel.Lemmas.InputEvents.posted (St.init o).sys.pend).length = 0 := by
      simp [St.init, VaxisModel.Lemmas.InputEvents.posted]
    omega
  have hI := linv_run p o hcap ls (St.init o) st [] hI0
    (by rw [hin]; exact startupReplies_good p.b64 hostBg e) hnt hrun
  obtain ⟨q1, q2, q3, q4, q5⟩ := hquiet
  obtain ⟨k1, k2, k3, k4, k5, k6⟩ := hk
  -- the goroutine is back at its select
  have hpend : st.sys.pend = [] := by
    cases hp : st.sys.pend with
    | nil => rfl
    | cons ef rest =>
      exfalso
      have hb := hI.budget
      have hstep : stepEffect p st.sys ef rest = none := by
        simp only [VaxisModel.Model.Startup.next, liftSys, VaxisModel.Model.InputLoop.next, hp] at q1
        cases hse : stepEffect p st.sys ef rest with
        | none => rfl
        | some x => rw [hse] at q1; simp at q1
      cases ef with
      | postB ev =>
        rw [hp] at hb
        simp only [VaxisModel.Lemmas.InputEvents.posted, List.length_cons] at hb
        simp only [stepEffect] at hstep
        split at hstep
        · cases hstep
        · omega
      | postNB ev =>
        simp only [stepEffect] at hstep
        split at hstep <;> cases hstep
      | sendCursorPos r c =>
        obtain ⟨b, hb'⟩ := VaxisModel.Lemmas.InputLoop.send1_some p.kinds.cursorPos k1 st.sys.cursorCh.length
        simp only [stepEffect, hcap, if_false, hb'] at hstep
        cases b <;> cases hstep
      | sendSizeDone =>
        obtain ⟨b, hb'⟩ := VaxisModel.Lemmas.InputLoop.send1_some p.kinds.sizeDone k2 st.sys.sizeDone
        simp only [stepEffect, hb'] at hstep
        cases b <;> cases hstep
      | sendColor v =>
        obtain ⟨b, hb'⟩ := VaxisModel.Lemmas.InputLoop.send1_some p.kinds.color k3 st.sys.color.length
        simp only [stepEffect, hb'] at hstep
        cases b <;> cases hstep
      | sendFg v =>
        obtain ⟨b, hb'⟩ := VaxisModel.Lemmas.InputLoop.send1_some p.kinds.fg k4 st.sys.fg.length
        simp only [stepEffect, hb'] at hstep
        cases b <;> cases hstep
      | sendBg v =>
        obtain ⟨b, hb'⟩ := VaxisModel.Lemmas.InputLoop.send1_some p.kinds.bg k5 st.sys.bg.length
        simp only [stepEffect, hb'] at hstep
        cases b <;> cases hstep
      | sendClipboard v =>
        simp only [VaxisModel.Model.Startup.next, liftSys, VaxisModel.Model.InputLoop.next, hp, k6, beq_self_eq_true, if_true] at q2
        cases q2
  have hins : st.ins = startupReplies hostBg e := by
    have := VaxisModel.Lemmas.Startup.ins_run p o ls (St.init o) st hrun
    simpa [St.init, hin] using this
  have hready : st.phase = .ready := by
    cases hph : st.phase with
    | ready => rfl
    | done =>
      simp only [VaxisModel.Model.Startup.next, hph, if_true] at q5
      cases q5
    | probe =>
      exfalso
      rcases hI.probe hph with ⟨ha, _⟩ | ⟨r, c, hm⟩ | hc
      · simp at ha
      · rw [hpend] at hm; cases hm
      · simp only [VaxisModel.Model.Startup.next, hph, if_true] at q3
        cases hcc : st.sys.cursorCh with
        | nil => exact hc hcc
        | cons v t => rw [hcc] at q3; cases q3
    | loop =>
      exfalso
      have hqueue : st.sys.queue = [] := by
        cases hqq : st.sys.queue with
        | nil => rfl
        | cons ev q =>
          simp only [VaxisModel.Model.Startup.next, hph, if_true, hqq] at q4
          split at q4 <;> cases q4
      have hinv := VaxisModel.Lemmas.Startup.inv_run p o ls (St.init o) st (VaxisModel.Lemmas.Startup.inv_init o) hrun
      have hda := hinv.v.hasDA (Or.inr hph) (by
        show VaxisModel.Lemmas.Startup.seenDA st.ins = true
        rw [hins]
        unfold VaxisModel.Lemmas.Startup.seenDA startupReplies
        simp only [List.any_append, List.any_cons, List.any_nil, Bool.or_false, Bool.or_eq_true]
        exact Or.inr rfl)
      have hnp : (VaxisModel.Lemmas.Startup.view st).np = [] := by
        show VaxisModel.Lemmas.Startup.np st = []
        simp [VaxisModel.Lemmas.Startup.np, hqueue, hpend, VaxisModel.Lemmas.InputEvents.posted]
      rw [hnp] at hda
      simp at hda
  obtain ⟨e1, he1⟩ := run_startup hostBg e
  exact ⟨hready, hI.noTO, hI.noDrop,
    (emu_dialogue_caps_any hostBg e e1 _ he1 p o henv ls st hin hrun hready hI.noTO hI.noDrop).1⟩

/-! ### the dialogue terminates: a complete run exists, whatever the emulator's state -/

/-- One schedule: every reply is handled as it arrives, the probe receives the cursor position, the
    loop consumes each notification as it is posted. -/
def scheduleOf (rs : List Seq) : List VaxisModel.Model.Startup.Label :=
  match rs with
  | [a, b, c, r, da] =>
    [.input a, .input b, .step, .input c, .input r, .step, .probeRecv, .loopRecv,
     .input da, .step, .step, .loopRecv, .loopRecv, .quirks]
  | [a, b, c, r, o11, da] =>
    [.input a, .input b, .step, .input c, .input r, .step, .probeRecv, .loopRecv,
     .input o11, .step, .loopRecv,
     .input da, .step, .step, .loopRecv, .loopRecv, .quirks]
  | _ => []

/-- **The dialogue terminates** (non-vacuity of `emu_dialogue_caps`): for every emulator state and
    host background there is a run of the start-up system whose inputs are exactly the emulator's
    replies and that ends past `applyQuirks`, by DA1, nothing dropped. -/
theorem emu_dialogue_terminates (hostBg : Option (Nat × Nat × Nat)) (e : Emu) :
    ∃ ls st, inputsOf ls = startupReplies hostBg e ∧
      VaxisModel.Model.Startup.run C07Caps.exP {} (St.init {}) ls = some st ∧
      st.phase = .ready ∧ st.timedOut = false ∧ st.sys.dropped = 0 := by
  refine ⟨scheduleOf (startupReplies hostBg e), ?_⟩
  unfold startupReplies replies
  cases hv : e.hasVx with
  | false =>
    simp only [Bool.false_eq_true, and_false, if_false]
    exact ⟨_, rfl, rfl, rfl, rfl, rfl⟩
  | true =>
    cases hostBg with
    | none =>
      simp only [and_self, if_true]
      exact ⟨_, rfl, rfl, rfl, rfl, rfl⟩
    | some t =>
      obtain ⟨r, g, b⟩ := t
      simp only [and_self, if_true]
      exact ⟨_, rfl, rfl, rfl, rfl, rfl⟩

/-- Parameters meeting the hypotheses of `emu_dialogue_completes`: a queue of 8, the send kinds and
    the `chCursorPos` capacity of the current source (regenerated). -/
def liveP : Params := { qcap := 8, kinds := Kinds.ofGen, b64 := fun _ => none }

theorem liveP_ok : 7 ≤ liveP.qcap ∧ VaxisModel.Lemmas.InputLoop.Kinds.safe liveP.kinds ∧ liveP.cursorCap ≠ 0 := by
  refine ⟨by decide, ?_, by decide⟩
  unfold VaxisModel.Lemmas.InputLoop.Kinds.safe
  decide

/-- Non-vacuity of `emu_dialogue_completes`: the schedule of `emu_dialogue_terminates` is a time-out
    free run over the emulator's replies that ends quiescent (here: no host attached). -/
example (e : Emu) (hv : e.hasVx = false) :
    ∃ st, inputsOf (scheduleOf (startupReplies none e)) = startupReplies none e ∧
      (∀ l ∈ scheduleOf (startupReplies none e), isTimeout l = false) ∧
      VaxisModel.Model.Startup.run liveP {} (St.init {}) (scheduleOf (startupReplies none e)) = some st ∧
      Quiescent liveP {} st := by
  unfold startupReplies replies
  simp only [hv, Bool.false_eq_true, and_false, if_false]
  exact ⟨_, rfl, by decide, rfl, rfl, rfl, rfl, rfl, rfl⟩

/-! ### extractor facts: everything `New()` writes from `sendQueries()` to the end of `enableModes()` -/

open VaxisModel.Lemmas.C12Wire VaxisModel.Gen.TermReplies in
/-- **`startupAll` is what the source writes**, statement by statement: `enterAltScreen()`, the queries of
    `sendQueries()`, the deferred `exitAltScreen()`, then (`New()` after the loop) `enterAltScreen()` and
    `enableModes()` under the capability set detected inside the emulator (guards `vx.caps.sixels`,
    `vx.caps.unicodeCore && !vx.caps.explicitWidth`, `!vx.disableMouse` true; kitty keyboard, colour-theme
    updates, in-band resize false). Every statement of the three helpers is recognised (an added
    statement, a changed guard or constant breaks this theorem); the bytes computed from the regenerated
    constants of sequences.go parse, write by write, to the groups of `startupAll` — the sequence list
    `emu_real_startup_related` / `emu_real_startup_on_alt` evaluate. -/
theorem facts_startup_all :
    (startupWire.map fun w => allMatch w startupAllGroups) = some true ∧
    startupAllGroups.flatten = startupAll ∧
    sendQueries.take 2 = ["enterAltScreen", "defer vx.exitAltScreen"] ∧
    VaxisModel.Gen.Startup.afterLoop.take 2 = ["vx.enterAltScreen()", "vx.enableModes()"] :=
  ⟨by decide +kernel, rfl, by decide, by decide⟩

end VaxisModel.Props.C12Startup
