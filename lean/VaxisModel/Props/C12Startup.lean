/-
C12 — "the replies the emulator gives to Vaxis's start-up queries are understood by Vaxis as exactly
the features the emulator implements", for EVERY INTERLEAVING of Vaxis' two goroutines.

Composition of
* the emulator model's reply writers run over `sendQueries()` (`Model/C12Replies.lean`, `run_startup`:
  from any emulator state the replies are `startupReplies`), with
* C07's model of the start-up of `vaxis.New()` (`Model/Startup.lean`): the input goroutine
  (`handleSequence`) running concurrently with `sendQueries` / the explicit-width probe /
  the `for`/`select` loop / `applyQuirks`, every interleaving a run of `Startup.next`, any queue
  capacity; and C07's `caps_exact`.
-/
import VaxisModel.Props.C12
import VaxisModel.Props.C07Caps
import VaxisModel.Lemmas.C12Startup

namespace VaxisModel.Props.C12Startup
open VaxisModel.Model.Input VaxisModel.Model.InputLoop VaxisModel.Model.Startup
open VaxisModel.Model.C12Replies VaxisModel.Lemmas.C12Replies VaxisModel.Lemmas.C12Startup
open VaxisModel.Spec.Startup
open VaxisModel.Model.Emu (Emu)

/-- The first element with property `P` splits a list in one way only. -/
theorem first_split_unique {α : Type} (P : α → Bool) :
    ∀ (A A' : List α) (d d' : α) (B B' : List α), A ++ d :: B = A' ++ d' :: B' → P d = true → P d' = true →
      (∀ x ∈ A, P x = false) → (∀ x ∈ A', P x = false) → A = A' ∧ d = d' ∧ B = B' := by
  intro A
  induction A with
  | nil =>
    intro A' d d' B B' h hd hd' _ hA'
    cases A' with
    | nil => simp at h; exact ⟨rfl, h.1, h.2⟩
    | cons a as =>
      simp at h
      have := hA' a (by simp)
      rw [← h.1, hd] at this; cases this
  | cons a as ih =>
    intro A' d d' B B' h hd hd' hA hA'
    cases A' with
    | nil =>
      simp at h
      have := hA a (by simp)
      rw [h.1, hd'] at this; cases this
    | cons a' as' =>
      simp at h
      obtain ⟨r1, r2, r3⟩ := ih as' d d' B B' h.2 hd hd' (fun x hx => hA x (by simp [hx])) (fun x hx => hA' x (by simp [hx]))
      exact ⟨by rw [h.1, r1], r2, r3⟩

/-- The replies before DA1. -/
def preReplies (hostBg : Option (Nat × Nat × Nat)) (e : Emu) : List Seq :=
  [.csi [63, 36] [[2026], [0]] 121, .csi [63, 36] [[2027], [3]] 121, .csi [63, 36] [[2031], [0]] 121,
   .csi [] [[1], [1]] 82] ++ replies hostBg e (.osc osc11Query { b64ok := true })

def da1Reply : Seq := .csi [63] [[62], [4], [22]] 99

theorem startupReplies_split (hostBg : Option (Nat × Nat × Nat)) (e : Emu) :
    startupReplies hostBg e = preReplies hostBg e ++ da1Reply :: [] := rfl

theorem pre_noDA1 (hostBg : Option (Nat × Nat × Nat)) (e : Emu) : ∀ s ∈ preReplies hostBg e, isDA1 s = false := by
  intro s hs
  unfold preReplies replies at hs
  simp only [List.mem_append, List.mem_cons, List.not_mem_nil, or_false] at hs
  rcases hs with (rfl | rfl | rfl | rfl) | hs
  · rfl
  · rfl
  · rfl
  · rfl
  · split at hs
    · cases hostBg with
      | none => simp at hs
      | some t =>
        obtain ⟨r, g, b⟩ := t
        simp only [List.mem_singleton] at hs
        subst hs
        rfl
    · simp at hs

/-- What the spec of C07 makes of the emulator's replies (the probe not answered with column 2). -/
theorem specCaps_startupReplies (o : Opts) (hct : o.colorterm = false) (hostBg : Option (Nat × Nat × Nat)) (e : Emu)
    (pc : Option Int) (hpc : (pc == some 2) = false) :
    specCaps o (startupReplies hostBg e) pc =
      { sixels := true, unicodeCore := true, osc11 := e.hasVx && hostBg.isSome } := by
  unfold specCaps
  rw [hpc, hct]
  unfold startupReplies replies
  cases hv : e.hasVx with
  | false => simp only [Bool.false_eq_true, and_false, if_false]; rfl
  | true =>
    cases hostBg with
    | none => simp only [and_self, if_true]; rfl
    | some t =>
      obtain ⟨r, g, b⟩ := t
      simp only [and_self, if_true]
      rfl

/-- **C12, the start-up dialogue, every interleaving.** Let the terminal of a starting Vaxis be the
    emulator (any state `e`, host background known or not): what Vaxis's input goroutine receives, in
    order, is what the emulator model replies to `sendQueries()` (`hq`, `hin`). Then for EVERY run of
    C07's start-up system — every interleaving of the input goroutine (parsing, `handleSequence`,
    posting to the queue, handing the cursor position over) with `New()` (the explicit-width probe
    answered in time or timed out, the collection loop), every queue capacity — that reaches the end of
    `New()` by the DA1 notification with no non-blocking post dropped, no environment override and
    `COLORTERM` unset: the capability record is exactly
    `{sixels, unicodeCore, osc11 iff the host's background was reported}` — nothing else is
    "understood" — and the four capabilities the renderer consults are `emuCaps`, the capability set
    of the composition theorems. -/
theorem emu_dialogue_caps (hostBg : Option (Nat × Nat × Nat)) (e e' : Emu) (rs : List Seq)
    (hq : runQ hostBg e startupQueries = .ok (e', rs))
    (p : Params) (o : Opts) (henv : o.envUnset = true) (hct : o.colorterm = false)
    (ls : List VaxisModel.Model.Startup.Label) (st : St) (hin : inputsOf ls = rs)
    (hrun : VaxisModel.Model.Startup.run p o (St.init o) ls = some st)
    (hready : st.phase = .ready) (hto : st.timedOut = false) (hdrop : st.sys.dropped = 0) :
    st.sys.vs.caps = { sixels := true, unicodeCore := true, osc11 := e.hasVx && hostBg.isSome } ∧
    ({ rgb := st.sys.vs.caps.rgb, styledUnderlines := st.sys.vs.caps.styledUnderlines,
       explicitWidth := st.sys.vs.caps.explicitWidth, sync := st.sys.vs.caps.synchronizedUpdate } : Model.Render.Caps) = C12.emuCaps := by
  obtain ⟨e1, he1⟩ := run_startup hostBg e
  rw [hq] at he1
  have hrs : rs = startupReplies hostBg e := by cases he1; rfl
  subst hrs
  have hpi := pinv_run p o ls (St.init o) st (pinv_init o)
    (by rw [hin]; exact startupReplies_safe p.b64 hostBg e) hrun
  obtain ⟨A, d, B, hsplit, hd, hA, hcaps⟩ := C07Caps.caps_exact p o ls st hrun hready hto hdrop henv (by
    intro x hx
    have := hpi.got x hx
    omega)
  rw [hin, startupReplies_split] at hsplit
  obtain ⟨rA, rd, _⟩ := first_split_unique isDA1 A (preReplies hostBg e) d da1Reply B [] hsplit.symm hd rfl hA (pre_noDA1 hostBg e)
  have hAd : A ++ [d] = startupReplies hostBg e := by rw [rA, rd]; rfl
  have hpc : ((st.probeGot.map (·.2)) == some 2) = false := by
    cases hg : st.probeGot with
    | none => rfl
    | some x =>
      have := hpi.got x hg
      simp [this]
  rw [hAd, specCaps_startupReplies o hct hostBg e _ hpc] at hcaps
  refine ⟨hcaps, ?_⟩
  rw [hcaps]
  rfl

/-! ### the dialogue terminates: a complete run exists, whatever the emulator's state -/

/-- One schedule: every reply is handled as it arrives, the probe receives the cursor position, the
    loop consumes each notification as it is posted. -/
def scheduleOf (rs : List Seq) : List VaxisModel.Model.Startup.Label :=
  match rs with
  | [a, b, c, r, da] =>
    [.input a, .input b, .step, .input c, .input r, .step, .probeRecv, .loopRecv,
     .input da, .step, .step, .loopRecv, .loopRecv, .quirks]
  | [a, b, c, r, o11, da] =>
    [.input a, .input b, .step, .input c, .input r, .step, .probeRecv, .loopRecv,
     .input o11, .step, .loopRecv,
     .input da, .step, .step, .loopRecv, .loopRecv, .quirks]
  | _ => []

/-- **The dialogue terminates** (non-vacuity of `emu_dialogue_caps`): for every emulator state and
    host background there is a run of the start-up system whose inputs are exactly the emulator's
    replies and that ends past `applyQuirks`, by DA1, nothing dropped. -/
theorem emu_dialogue_terminates (hostBg : Option (Nat × Nat × Nat)) (e : Emu) :
    ∃ ls st, inputsOf ls = startupReplies hostBg e ∧
      VaxisModel.Model.Startup.run C07Caps.exP {} (St.init {}) ls = some st ∧
      st.phase = .ready ∧ st.timedOut = false ∧ st.sys.dropped = 0 := by
  refine ⟨scheduleOf (startupReplies hostBg e), ?_⟩
  unfold startupReplies replies
  cases hv : e.hasVx with
  | false =>
    simp only [Bool.false_eq_true, and_false, if_false]
    exact ⟨_, rfl, rfl, rfl, rfl, rfl⟩
  | true =>
    cases hostBg with
    | none =>
      simp only [and_self, if_true]
      exact ⟨_, rfl, rfl, rfl, rfl, rfl⟩
    | some t =>
      obtain ⟨r, g, b⟩ := t
      simp only [and_self, if_true]
      exact ⟨_, rfl, rfl, rfl, rfl, rfl⟩

end VaxisModel.Props.C12Startup
