/-
C12 — the start-up dialogue WITH ITS TIMERS. `vaxis.New()` has two timers: the 50 ms of
`CursorPosition()` (the explicit-width probe inside `sendQueries`) and the 3 s context of the
collection loop. In C07's start-up system (`Model/Startup.lean`) both are labels of the transition
system (`Label.probeTimeout`, `Label.loopTimeout`; also `Label.clipTimeout` of the input goroutine):
real time is abstracted, a timer can fire whenever its guard allows.

* `emu_dialogue_caps` / `emu_dialogue_caps_any` (Props/C12Startup) already cover the 50 ms timer:
  their hypothesis `st.timedOut = false` is about the 3 s context only; whether the probe was answered
  or timed out the record is the same, because the emulator answers the probe with column 1.
* This file: what happens when ANY timer fires, at any moment, with any part of the emulator's replies
  delivered, under any environment: the capability record never claims anything the emulator did not
  announce (`emu_dialogue_caps_within`), so the renderer's capability set is one of those the composition
  theorems cover (`emu_dialogue_caps_capsOk`) — direct colour possibly lost, nothing gained.
-/
import VaxisModel.Props.C12Startup
import VaxisModel.Props.C12Caps

namespace VaxisModel.Props.C12Timers
open VaxisModel.Model.Input VaxisModel.Model.InputLoop VaxisModel.Model.Startup
open VaxisModel.Model.C12Replies VaxisModel.Lemmas.C12Replies VaxisModel.Lemmas.C12Startup
open VaxisModel.Spec.Startup
open VaxisModel.Model.Emu (Emu)
open VaxisModel.Lemmas.Startup

/-- What one reply of the emulator can announce: sixel graphics, Unicode core, the OSC 11 colour, the
    end of the start-up (DA1) — and no application id. -/
theorem reply_notices (hostBg : Option (Nat × Nat × Nat)) (e : Emu) :
    ∀ s ∈ startupReplies hostBg e,
      (∀ i, (notices s).contains (note i) = true →
        i = .capabilitySixel ∨ i = .unicodeCoreCap ∨ i = .capabilityOsc11 ∨ i = .primaryDeviceAttribute) ∧
      (notices s).any isAppID = false := by
  intro s hs
  unfold startupReplies replies at hs
  simp only [List.mem_append, List.mem_cons, List.not_mem_nil, or_false] at hs
  rcases hs with ((h | h | h | h) | h) | h
  · subst h; exact ⟨fun i hi => by cases i <;> first | (exact absurd hi (by decide)) | simp, by decide⟩
  · subst h; exact ⟨fun i hi => by cases i <;> first | (exact absurd hi (by decide)) | simp, by decide⟩
  · subst h; exact ⟨fun i hi => by cases i <;> first | (exact absurd hi (by decide)) | simp, by decide⟩
  · subst h; exact ⟨fun i hi => by cases i <;> first | (exact absurd hi (by decide)) | simp, by decide⟩
  · split at h
    · cases hostBg with
      | none => simp at h
      | some t =>
        obtain ⟨r, g, b⟩ := t
        simp only [List.mem_singleton] at h
        subst h
        have hn : notices (.osc ([49, 49, 59, 114, 103, 98, 58] ++ hex2 r ++ [47] ++ hex2 g ++ [47] ++ hex2 b)) =
            [note .capabilityOsc11] := rfl
        rw [hn]
        exact ⟨fun i hi => by cases i <;> first | (exact absurd hi (by decide)) | simp, by decide⟩
    · simp at h
  · subst h; exact ⟨fun i hi => by cases i <;> first | (exact absurd hi (by decide)) | simp, by decide⟩

theorem insPre_subset : ∀ (ins : List Seq) (s : Seq), s ∈ insPre ins → s ∈ ins := by
  intro ins
  induction ins with
  | nil => intro s h; simp [insPre] at h
  | cons a t ih =>
    intro s h
    simp only [insPre] at h
    split at h
    · simp only [List.mem_singleton] at h; subst h; simp
    · rcases List.mem_cons.mp h with h | h
      · subst h; simp
      · exact List.mem_cons_of_mem _ (ih s h)

/-- `applyQuirks()` touches `unicodeCore`, `noZWJ` and can only CLEAR `explicitWidth`. -/
theorem applyQuirks_fields (o : Opts) (tid : List Nat) (c : Caps) :
    (applyQuirks o tid c).styledUnderlines = c.styledUnderlines ∧
    (applyQuirks o tid c).synchronizedUpdate = c.synchronizedUpdate ∧
    (applyQuirks o tid c).rgb = c.rgb ∧
    (applyQuirks o tid c).kittyKeyboard = c.kittyKeyboard ∧
    (applyQuirks o tid c).kittyGraphics = c.kittyGraphics ∧
    (applyQuirks o tid c).colorThemeUpdates = c.colorThemeUpdates ∧
    (applyQuirks o tid c).reportSizeChars = c.reportSizeChars ∧
    (applyQuirks o tid c).reportSizePixels = c.reportSizePixels ∧
    (applyQuirks o tid c).osc4 = c.osc4 ∧ (applyQuirks o tid c).osc10 = c.osc10 ∧
    (applyQuirks o tid c).osc176 = c.osc176 ∧ (applyQuirks o tid c).inBandResize = c.inBandResize ∧
    ((applyQuirks o tid c).explicitWidth = true → c.explicitWidth = true) := by
  unfold applyQuirks
  repeat' split
  all_goals simp

/-- Nothing beyond what the emulator implements: the capabilities the emulator never announces are
    clear, and direct colour is set only by `COLORTERM`. (`sixels`, `unicodeCore`, `osc11` — what the
    emulator does announce — and `noZWJ` / `unicodeCore` as forced by `VAXIS_FORCE_*` are left open:
    with a timer fired any of the announced ones may be missing.) -/
structure Within (o : Opts) (c : Caps) : Prop where
  su : c.styledUnderlines = false
  sy : c.synchronizedUpdate = false
  ew : c.explicitWidth = false
  rgb : c.rgb = true → o.colorterm = true
  kk : c.kittyKeyboard = false
  kg : c.kittyGraphics = false
  ct : c.colorThemeUpdates = false
  rc : c.reportSizeChars = false
  rp : c.reportSizePixels = false
  o4 : c.osc4 = false
  o10 : c.osc10 = false
  o176 : c.osc176 = false
  ibr : c.inBandResize = false

theorem within_of_core (hostBg : Option (Nat × Nat × Nat)) (e : Emu) (o : Opts) (v : View) (c : Caps)
    (hins : ∀ s ∈ v.ins, s ∈ startupReplies hostBg e) (hgot : ∀ x, v.probeGot = some x → x.2 = 1)
    (hc : Core o v c) : Within o c := by
  have hno : ∀ i, hasI c i = true → i ≠ .capabilitySixel → i ≠ .unicodeCoreCap → i ≠ .capabilityOsc11 →
      i ≠ .primaryDeviceAttribute → i = .truecolor ∧ o.colorterm = true := by
    intro i hi n1 n2 n3 n4
    rcases hc.sI i hi with h | h
    · exfalso
      unfold adv at h
      obtain ⟨s, hs, hn⟩ := List.any_eq_true.mp h
      rcases (reply_notices hostBg e s (hins s (insPre_subset _ s hs))).1 i hn with h | h | h | h
      · exact n1 h
      · exact n2 h
      · exact n3 h
      · exact n4 h
    · exact h
  have hf : ∀ i, i ≠ .capabilitySixel → i ≠ .unicodeCoreCap → i ≠ .capabilityOsc11 →
      i ≠ .primaryDeviceAttribute → i ≠ .truecolor → hasI c i = false := by
    intro i n1 n2 n3 n4 n5
    cases h : hasI c i with
    | false => rfl
    | true => exact absurd (hno i h n1 n2 n3 n4).1 n5
  refine
    { su := hf .styledUnderlines (by decide) (by decide) (by decide) (by decide) (by decide)
      sy := hf .synchronizedUpdates (by decide) (by decide) (by decide) (by decide) (by decide)
      ew := ?_
      rgb := fun h => (hno .truecolor h (by decide) (by decide) (by decide) (by decide)).2
      kk := hf .kittyKeyboard (by decide) (by decide) (by decide) (by decide) (by decide)
      kg := hf .kittyGraphics (by decide) (by decide) (by decide) (by decide) (by decide)
      ct := hf .notifyColorChange (by decide) (by decide) (by decide) (by decide) (by decide)
      rc := hf .textAreaChar (by decide) (by decide) (by decide) (by decide) (by decide)
      rp := hf .textAreaPix (by decide) (by decide) (by decide) (by decide) (by decide)
      o4 := hf .capabilityOsc4 (by decide) (by decide) (by decide) (by decide) (by decide)
      o10 := hf .capabilityOsc10 (by decide) (by decide) (by decide) (by decide) (by decide)
      o176 := ?_
      ibr := hf .inBandResizeEvents (by decide) (by decide) (by decide) (by decide) (by decide) }
  · cases h : c.explicitWidth with
    | false => rfl
    | true =>
      obtain ⟨x, hx, hw⟩ := hc.ew.1.mp h
      rw [hgot x hx] at hw
      exact absurd hw (by decide)
  · cases h : c.osc176 with
    | false => rfl
    | true =>
      exfalso
      have := hc.sA h
      unfold JustA at this
      obtain ⟨s, hs, hn⟩ := List.any_eq_true.mp this
      rw [(reply_notices hostBg e s (hins s (insPre_subset _ s hs))).2] at hn
      cases hn

/-- **Whatever the timers do.** Let the terminal of a starting Vaxis be the emulator (any state, host
    background known or not) and take ANY run of the start-up system — any interleaving, the 50 ms timer
    of the probe, the 3 s context of the loop and the clipboard hand-off time-out firing whenever their
    guards allow, any queue capacity, posts dropped or not, ANY environment (`COLORTERM`,
    `VAXIS_FORCE_*`, `DisableKittyKeyboard`) — whose inputs so far are replies of the emulator (any part
    of them: the run may be observed before all replies arrived, or `New()` may have given up waiting).
    In the state reached — in particular when `New()` returns — the capability record claims nothing
    the emulator does not implement: no styled underlines, no synchronized output, no explicit width,
    no kitty keyboard / graphics, no colour-theme notifications, no size reports, no OSC 4 / 10 / 176, no
    in-band resize; direct colour only if `COLORTERM` says so. -/
theorem emu_dialogue_caps_within (hostBg : Option (Nat × Nat × Nat)) (e : Emu) (p : Params) (o : Opts)
    (ls : List VaxisModel.Model.Startup.Label) (st : St)
    (hin : ∀ s ∈ inputsOf ls, s ∈ startupReplies hostBg e)
    (hrun : VaxisModel.Model.Startup.run p o (St.init o) ls = some st) :
    Within o st.sys.vs.caps := by
  have hinv := inv_run p o ls (St.init o) st (inv_init o) hrun
  have hins : st.ins = inputsOf ls := by simpa [St.init] using ins_run p o ls (St.init o) st hrun
  have hpi := pinv_run p o ls (St.init o) st (pinv_init o)
    (fun s hs => startupReplies_safe p.b64 hostBg e s (hin s hs)) hrun
  have hins' : ∀ s ∈ (view st).ins, s ∈ startupReplies hostBg e := by
    intro s hs
    have : s ∈ st.ins := hs
    rw [hins] at this
    exact hin s this
  have hcore := hinv.v.core
  by_cases hph : (view st).phase = .ready
  · rw [if_pos hph] at hcore
    obtain ⟨c0, hc, core⟩ := hcore
    have w := within_of_core hostBg e o (view st) c0 hins' hpi.got core
    have hc' : st.sys.vs.caps = applyQuirks o st.termID c0 := hc
    obtain ⟨q1, q2, q3, q4, q5, q6, q7, q8, q9, q10, q11, q12, q13⟩ := applyQuirks_fields o st.termID c0
    rw [hc']
    exact
      { su := by rw [q1]; exact w.su
        sy := by rw [q2]; exact w.sy
        ew := by
          cases h : (applyQuirks o st.termID c0).explicitWidth with
          | false => rfl
          | true => have := q13 h; rw [w.ew] at this; cases this
        rgb := by rw [q3]; exact w.rgb
        kk := by rw [q4]; exact w.kk
        kg := by rw [q5]; exact w.kg
        ct := by rw [q6]; exact w.ct
        rc := by rw [q7]; exact w.rc
        rp := by rw [q8]; exact w.rp
        o4 := by rw [q9]; exact w.o4
        o10 := by rw [q10]; exact w.o10
        o176 := by rw [q11]; exact w.o176
        ibr := by rw [q12]; exact w.ibr }
  · rw [if_neg hph] at hcore
    exact within_of_core hostBg e o (view st) _ hins' hpi.got hcore

/-- The renderer's view of a capability record. -/
def rendererCaps (c : Caps) : Model.Render.Caps :=
  { rgb := c.rgb, styledUnderlines := c.styledUnderlines, explicitWidth := c.explicitWidth, sync := c.synchronizedUpdate }

/-- **… so the composition theorems apply whatever the timers do**: in every state of every run over
    replies of the emulator the renderer's capability set is `emuCaps`, possibly with direct colour —
    and direct colour only if `COLORTERM` says so (with the 3 s context expired before `New()` consumed
    its own `truecolor` event, even that may be missing: the renderer then falls back to the palette,
    which the composition theorem covers as well). Both are instances of `C12Caps.CapsOk`. -/
theorem emu_dialogue_caps_capsOk (hostBg : Option (Nat × Nat × Nat)) (e : Emu) (p : Params) (o : Opts)
    (ls : List VaxisModel.Model.Startup.Label) (st : St)
    (hin : ∀ s ∈ inputsOf ls, s ∈ startupReplies hostBg e)
    (hrun : VaxisModel.Model.Startup.run p o (St.init o) ls = some st) :
    rendererCaps st.sys.vs.caps = { C12.emuCaps with rgb := st.sys.vs.caps.rgb } ∧
    C12Caps.CapsOk (rendererCaps st.sys.vs.caps) ∧
    (st.sys.vs.caps.rgb = true → o.colorterm = true) := by
  have w := emu_dialogue_caps_within hostBg e p o ls st hin hrun
  refine ⟨?_, ⟨w.su, w.ew, w.sy⟩, w.rgb⟩
  simp only [rendererCaps, w.su, w.ew, w.sy]
  rfl

/-- Non-vacuity, and the timers really fire in the model: with no reply delivered at all, the probe's
    50 ms timer and then the loop's 3 s context expire and `New()` returns (phase `ready`, flagged
    `timedOut`) — with `COLORTERM=truecolor` in the environment the `truecolor` event `New()` posted
    itself is still in the queue, so even direct colour is NOT set. -/
example :
    ∃ st, VaxisModel.Model.Startup.run C12Startup.liveP { colorterm := true } (St.init { colorterm := true })
        [.probeTimeout, .loopTimeout, .quirks] = some st ∧
      st.phase = .ready ∧ st.timedOut = true ∧ st.sys.vs.caps.rgb = false :=
  ⟨_, rfl, rfl, rfl, rfl⟩

end VaxisModel.Props.C12Timers
