/-
C13 — Keys, pastes and mouse events forwarded into the embedded terminal arrive intact.
Property theorems only.
-/
import VaxisModel.Model.TermKey
import VaxisModel.Model.TermMouse
import VaxisModel.Spec.TermInput

namespace VaxisModel.Props.C13
open VaxisModel.Model.Key VaxisModel.Model.Mouse VaxisModel.Model.TermKey VaxisModel.Model.TermMouse
open VaxisModel.Spec.KeyEnc VaxisModel.Spec.TermInput VaxisModel.Gen.Keys

/-- **paste_gated.** Nothing is written for a paste boundary unless the child enabled bracketed
    paste (mode 2004); if it did, exactly the marker is written. -/
theorem paste_gated (u : Uni) (md : Modes) :
    (md.paste = false → update u md .pasteStart = [] ∧ update u md .pasteEnd = []) ∧
    (md.paste = true → update u md .pasteStart = [27, 91, 50, 48, 48, 126] ∧ update u md .pasteEnd = [27, 91, 50, 48, 49, 126]) := by
  constructor <;> intro h <;> simp [update, h]

end VaxisModel.Props.C13
