/-
C13 — Keys, pastes and mouse events forwarded into the embedded terminal arrive intact.
Property theorems only.  Byte strings are related to parsed sequences through `renderSeq` /
`renderCSI` (Spec/TermInput.lean); that the real ansi parser inverts them is checked on every
generated case by the correspondence harness (and is property C02).
-/
import VaxisModel.Model.TermKey
import VaxisModel.Model.TermMouse
import VaxisModel.Model.TermInputModes
import VaxisModel.Spec.TermInput
import VaxisModel.Lemmas.TermInput

namespace VaxisModel.Props.C13
open VaxisModel.Model.Key VaxisModel.Model.Mouse VaxisModel.Model.TermKey VaxisModel.Model.TermMouse
open VaxisModel.Spec.KeyEnc VaxisModel.Spec.TermInput VaxisModel.Gen.Keys
open VaxisModel.Lemmas.TermInput VaxisModel.Lemmas.KeyDecode

/-! ## Keys -/

/-- Keys with a dedicated xterm report, plus Tab / Enter / Escape / BackSpace. -/
def specialKeysD : List Int :=
  xtermLetterKeys.map (·.1) ++ xtermTildeKeys.map (·.1) ++ [KeyTab, KeyEnter, KeyEsc, KeyBackspace]

/-- The shapes an event for key `kc` with xterm modifiers `m` takes: bare, with the shifted code, with
    the produced character as text, with both, and with kitty-only modifiers / base layout / repeat. -/
def variants (kc : Int) (m : Nat) : List Key :=
  let S := asciiUni.toUpper kc
  let ch := if m &&& 1 ≠ 0 then S else kc
  [ { keycode := kc, mods := m }, { keycode := kc, mods := m, shifted := S },
    { keycode := kc, mods := m, text := [ch] }, { keycode := kc, mods := m, shifted := S, text := [ch] },
    { keycode := kc, mods := m + 72, base := 97, event := 1 } ]

/-- Every special key and every printable ASCII key × every combination of Shift/Alt/Ctrl × shapes. -/
def domainKeys : List Key :=
  (specialKeysD ++ (List.range 95).map (fun (i : Nat) => (32 : Int) + Int.ofNat i)).flatMap fun kc =>
    (List.range 8).flatMap fun m => variants kc m

def allModes : List (Bool × Bool) := [(false, false), (false, true), (true, false), (true, true)]

/-- **key_roundtrip.** For every event of `domainKeys` that lies in `XtermDomain` (the chord has a
    single unambiguous xterm legacy report) and all four (deckpam, decckm) combinations, the encoder
    writes exactly that report, and the report decoded by `decodeKey` matches the original key code
    and Shift/Alt/Ctrl modifiers (`roundtripOK`). Kernel-evaluated over the tables regenerated from
    widgets/term/key.go and key.go. -/
theorem key_roundtrip :
    (domainKeys.all fun k => allModes.all fun md => roundtripOK asciiUni k md.1 md.2) = true := by
  decide +kernel

/-- Non-vacuity: 2165 of the 4880 events are in `XtermDomain`. -/
theorem key_roundtrip_domain_size :
    (domainKeys.filter fun k => XtermDomain asciiUni k).length = 2165 ∧ domainKeys.length = 4880 := by
  decide +kernel

/-- Table part of `cursor_mode_selects`, over the regenerated tables: for every cursor key, both
    keypad modes and both cursor-key modes. -/
theorem cursor_tables :
    ∀ e ∈ cursorKeys, ∀ md ∈ allModes, encodeTables e.1 0 md.1 md.2 = some (renderSeq (cursorSeq e.2 md.2)) := by
  decide

/-- **cursor_mode_selects.** An unmodified cursor key (Up/Down/Right/Left/End/Home/Begin) is sent in SS3
    form when the child set DECCKM and in CSI form otherwise — whatever the other fields of the
    event, the keypad mode and the `unicode` tables. -/
theorem cursor_mode_selects (u : Uni) (k : Key) (deckpam decckm : Bool) (fin : Int)
    (hk : (k.keycode, fin) ∈ cursorKeys)
    (hm : k.mods &&& ModShift = 0 ∧ k.mods &&& ModAlt = 0 ∧ k.mods &&& ModCtrl = 0) :
    encodeXterm u k deckpam decckm = renderSeq (cursorSeq fin decckm) := by
  obtain ⟨h1, h2, h3⟩ := hm
  have hmode : (deckpam, decckm) ∈ allModes := by cases deckpam <;> cases decckm <;> decide
  have := cursor_tables _ hk _ hmode
  have hnk : lookup k.keycode VaxisModel.Gen.TermKeys.keypadApplicationMode = none ∧
      lookup k.keycode VaxisModel.Gen.TermKeys.keypadNumericMode = none := by
    have hall : ∀ e ∈ cursorKeys, lookup e.1 VaxisModel.Gen.TermKeys.keypadApplicationMode = none ∧
        lookup e.1 VaxisModel.Gen.TermKeys.keypadNumericMode = none := by decide
    exact hall _ hk
  rw [encodeXterm_core_of_not_keypad _ _ _ _ hnk.1 hnk.2]
  simp only [encodeXtermCore, h1, h2, h3, Nat.or_self]
  simp only [] at this
  rw [encodeTables_text _ _ _ _ _ (cursorKeys_special _ hk), this]

/-- **special_keys_exact** (general form of the table part of `key_roundtrip`). For every key with
    a dedicated xterm report (and Tab/Enter/Escape/BackSpace without Alt), every Shift/Alt/Ctrl set
    the legacy protocol expresses and all four key modes, the table-driven part of the encoder
    yields exactly the xterm legacy report — independently of `unicode` and of the other fields. -/
theorem special_keys_exact :
    (specialKeysD.all fun kc => (List.range 8).all fun m => allModes.all fun md =>
      match xtermLegacy kc m 0 md.2 with
      | some s => kc == KeyBackspace || encodeTables kc m md.1 md.2 == some (renderSeq s)
      | none => true) = true := by
  decide +kernel

/-! ## Character keys: all code points, all `unicode` tables -/

/-- **plain_char_roundtrip.** Any unmodified character key (any code point ≥ 32 below MaxRune, any
    `unicode` tables, any key modes, whatever codes the event carries) whose text is absent or is the
    character itself: the widget writes the character itself and the decoded event matches it.
    (An event whose text is something else — a whole grapheme cluster, the character caps lock or a
    layout level produced — is forwarded as that text: `C13Ext.text_forwarded`.) -/
theorem plain_char_roundtrip (u : Uni) (k : Key) (pam ckm : Bool)
    (hm : xtermMods k = 0) (hk : 32 ≤ k.keycode ∧ k.keycode < maxRune ∧ validRune k.keycode = true)
    (ht : k.text = [] ∨ k.text = [k.keycode])
    (h127 : u.isUpper k.keycode = true → u.toLower k.keycode ≠ 127) :
    encodeXterm u k pam ckm = renderSeq (.print [k.keycode]) ∧
    keyArrives u k (decodeKey u (.print [k.keycode])) := by
  obtain ⟨h32, hmax, hv⟩ := hk
  have hm7 : k.mods &&& 7 = 0 := hm
  constructor
  · rw [encodeXterm_core_of_lt _ _ _ _ (by have := maxRune_lt_keypad; omega)]
    unfold encodeXtermCore
    simp only [xm_eq, hm7]
    rw [encodeTables_char _ _ _ _ _ hmax (Or.inr (by decide))]
    rcases ht with ht | ht <;> simp [strOfRune, hv, renderSeq, ht]
  · unfold keyArrives
    rw [hm, decodeKey_print u [k.keycode] (by simp) (by simpa using h127)]
    by_cases hu : u.isUpper k.keycode = true
    · have e : printExpected u [k.keycode] = { keycode := u.toLower k.keycode, shifted := k.keycode, mods := shiftBit, text := [k.keycode] } := by
        simp [printExpected, hu]
      rw [e]; unfold matchSpec
      exact Or.inr (Or.inr (Or.inl ⟨rfl, show stripLocks 0 = unshift (stripLocks shiftBit) by decide⟩))
    · by_cases hd : k.keycode = 0x7F
      · have hu' : u.isUpper 127 = false := by rw [hd] at hu; simpa using hu
        have e : printExpected u [k.keycode] = { keycode := KeyBackspace } := by
          simp [printExpected, hu', hd]
        rw [e]; unfold matchSpec
        exact Or.inl ⟨hd.symm, rfl⟩
      · have e : printExpected u [k.keycode] = { keycode := k.keycode, text := [k.keycode] } := by
          simp [printExpected, hu, hd]
        rw [e]; unfold matchSpec
        exact Or.inl ⟨rfl, rfl⟩

/-- **alt_char_roundtrip.** Alt + any character key whose ESC-prefixed form is one parsed sequence:
    `ESC ch` is written and decodes to an event matching (key, Alt) — upper-case letters included
    (they decode as Alt+Shift+lower-case with the shifted code). -/
theorem alt_char_roundtrip (u : Uni) (k : Key) (pam ckm : Bool)
    (hm : xtermMods k = altBit) (hk : 32 ≤ k.keycode ∧ k.keycode < maxRune ∧ validRune k.keycode = true) :
    encodeXterm u k pam ckm = renderSeq (.esc k.keycode) ∧
    keyArrives u k (decodeKey u (.esc k.keycode)) := by
  obtain ⟨h32, hmax, hv⟩ := hk
  have hm7 : k.mods &&& 7 = 2 := hm
  have ha : k.mods &&& ModAlt = 2 := by
    have := and7 k.mods ModAlt (by decide); rw [this, hm7]; decide
  have hc : k.mods &&& ModCtrl = 0 := by
    have := and7 k.mods ModCtrl (by decide); rw [this, hm7]; decide
  constructor
  · rw [encodeXterm_core_of_lt _ _ _ _ (by have := maxRune_lt_keypad; omega)]
    unfold encodeXtermCore
    simp only [xm_eq, hm7]
    rw [encodeTables_char _ _ _ _ _ hmax (Or.inr (by decide))]
    have ha' : k.mods &&& 2 = 2 := ha
    simp [strOfRune, hv, renderSeq, hmax, ModAlt, ModCtrl, ModShift]
    intro _ _ h2; omega
  · unfold keyArrives
    rw [hm, decodeKey_esc]
    by_cases hu : u.isUpper k.keycode = true
    · have e : escExpected u k.keycode = { keycode := u.toLower k.keycode, shifted := k.keycode, mods := altBit ||| shiftBit } := by
        simp [escExpected, hu]
      rw [e]; unfold matchSpec
      exact Or.inr (Or.inr (Or.inl ⟨rfl, show stripLocks altBit = unshift (stripLocks (altBit ||| shiftBit)) by decide⟩))
    · have e : escExpected u k.keycode = { keycode := k.keycode, mods := altBit } := by
        simp [escExpected, hu]
      rw [e]; unfold matchSpec
      exact Or.inl ⟨rfl, rfl⟩

/-- **ctrl_letter_roundtrip.** Ctrl + a lower-case ASCII letter other than h, i, m (whose C0 bytes are
    BackSpace, Tab, Enter): the C0 byte is written and decodes to an event matching (letter, Ctrl).
    (`hl` was needed while the code asked `unicode.IsLower`; since 0040837 it compares with 'a'..'z'
    and the hypothesis is no longer used — kept so that the statement is not changed.) -/
theorem ctrl_letter_roundtrip (u : Uni) (k : Key) (pam ckm : Bool)
    (hm : xtermMods k = ctrlBit)
    (hk : 97 ≤ k.keycode ∧ k.keycode ≤ 122 ∧ k.keycode ≠ 104 ∧ k.keycode ≠ 105 ∧ k.keycode ≠ 109)
    (hl : u.isLower k.keycode = true) :
    encodeXterm u k pam ckm = renderSeq (.c0 (k.keycode - 96)) ∧
    keyArrives u k (decodeKey u (.c0 (k.keycode - 96))) := by
  obtain ⟨h97, h122, hh, hi, hmm⟩ := hk
  have hm7 : k.mods &&& 7 = 4 := hm
  have hc : k.mods &&& ModCtrl = 4 := by
    have := and7 k.mods ModCtrl (by decide); rw [this, hm7]; decide
  have hmax : k.keycode < maxRune := by simp only [maxRune]; omega
  constructor
  · rw [encodeXterm_core_of_lt _ _ _ _ (by have := maxRune_lt_keypad; omega)]
    unfold encodeXtermCore
    simp only [xm_eq, hm7]
    rw [encodeTables_char _ _ _ _ _ hmax (Or.inr (by decide))]
    have hc' : k.mods &&& 4 = 4 := hc
    have hv : validRune (k.keycode - 96) = true := by
      have hmr : maxRune = 1114111 := rfl
      simp only [validRune, hmr, Bool.and_eq_true, Bool.not_eq_true', decide_eq_true_eq, Bool.and_eq_false_imp]
      omega
    simp [strOfRune, hv, renderSeq, hmax, ModAlt, ModCtrl, ModShift, h97, h122, hc']
  · unfold keyArrives
    rw [hm, decodeKey_c0 u _ (by omega) (by omega)]
    have e : c0Expected (k.keycode - 96) = { keycode := k.keycode, mods := ctrlBit } := by
      unfold c0Expected
      have h8 : ¬ k.keycode - 96 = 8 := by omega
      have h9 : ¬ k.keycode - 96 = 9 := by omega
      have h13 : ¬ k.keycode - 96 = 13 := by omega
      have h27 : ¬ k.keycode - 96 = 27 := by omega
      have hr : 1 ≤ k.keycode - 96 ∧ k.keycode - 96 ≤ 26 := by omega
      simp only [h8, h9, h13, h27, hr, and_self, if_true, if_false]
      congr 1; omega
    rw [e]; unfold matchSpec
    exact Or.inl ⟨rfl, rfl⟩

/-! ## Mouse -/

/-- `%d` rendering used by the encoders, pinned on examples. -/
theorem decimal_examples :
    decimal 0 = [48] ∧ decimal 7 = [55] ∧ decimal 1001 = [49, 48, 48, 49] ∧ decimal (-12) = [45, 49, 50] := by decide

/-- **mouse_gated.** For a press, release or motion event the child has not enabled (xterm: 1000
    presses/releases, 1002 adds drags, 1003 adds all motion; 1006 enables nothing) and to which
    alternate scroll does not apply, nothing at all is written towards the child — for every button,
    position, modifier set and mode combination. -/
theorem mouse_gated (u : Uni) (md : Modes) (m : Mouse)
    (hev : m.event = EventPress ∨ m.event = EventRelease ∨ m.event = EventMotion)
    (hen : enabledFor md m = false) (halt : altScrollApplies md m = false) :
    update u md (.mouse m) = [] := by
  obtain ⟨pam, ckm, paste, b, d, mo, sgr, alt, smcup⟩ := md
  rcases hev with h | h | h <;>
  simp [enabledFor, altScrollApplies, isWheel, h, EventPress, EventRelease, EventMotion] at hen halt <;>
  simp [update, handleMouse, h, EventPress, EventRelease, EventMotion, VaxisModel.Gen.Mouse.MouseWheelUp, VaxisModel.Gen.Mouse.MouseWheelDown, VaxisModel.Gen.Mouse.MouseNoButton] <;>
  (try (cases b <;> cases d <;> cases mo <;> cases sgr <;> cases alt <;> cases smcup <;> simp_all))


example : enabledFor { mouseSGR := true } { button := 0, event := EventPress } = false ∧
    altScrollApplies { mouseSGR := true } { button := 0, event := EventPress } = false := by decide

/-- **mouse_roundtrip.** Under SGR mode, an enabled event with any button of the API and any position
    is written as exactly `CSI < b ; col+1 ; row+1 M|m`, and `parseMouseEvent` maps that report back to
    the same button, column, row and press/release/motion type. -/
theorem mouse_roundtrip (u : Uni) (md : Modes) (m : Mouse)
    (hsgr : md.mouseSGR = true) (hen : enabledFor md m = true) (hb : m.button ∈ buttonConsts) :
    ∃ inter params fin, sgrReport m = some (inter, params, fin) ∧
      update u md (.mouse m) = renderCSI inter params fin ∧
      ∃ m', parseMouseEvent inter params fin = some m' ∧ sameMouse m' m = true := by
  obtain ⟨pam, ckm, paste, b, d, mo, sgr, alt, smcup⟩ := md
  simp only at hsgr
  subst hsgr
  have hp := parse_back _ hb
  have hev : m.event = EventPress ∨ m.event = EventRelease ∨ m.event = EventMotion := by
    unfold enabledFor at hen
    by_cases h1 : m.event = EventPress ∨ m.event = EventRelease
    · rcases h1 with h | h
      · exact Or.inl h
      · exact Or.inr (Or.inl h)
    · by_cases h2 : m.event = EventMotion
      · exact Or.inr (Or.inr h2)
      · simp [h1, h2] at hen
  rcases hev with h | h | h
  · refine ⟨[60], [[m.button], [m.col + 1], [m.row + 1]], 77, by simp [sgrReport, h], ?_, ?_⟩
    · simp [enabledFor, h, EventPress, EventRelease, EventMotion] at hen
      simp [update, handleMouse, h, EventPress, EventRelease, EventMotion, renderCSI, renderParams]
      cases b <;> cases d <;> cases mo <;> simp_all
    · rw [parse_pos, hp.1]; simp [sameMouse, h]
  · refine ⟨[60], [[m.button], [m.col + 1], [m.row + 1]], 109, by simp [sgrReport, h, EventPress, EventRelease], ?_, ?_⟩
    · simp [enabledFor, h, EventPress, EventRelease, EventMotion] at hen
      simp [update, handleMouse, h, EventPress, EventRelease, EventMotion, renderCSI, renderParams]
      cases b <;> cases d <;> cases mo <;> simp_all
    · rw [parse_pos, hp.2.1]; simp [sameMouse, h]
  · refine ⟨[60], [[m.button + 32], [m.col + 1], [m.row + 1]], 77, by simp [sgrReport, h, EventPress, EventRelease, EventMotion], ?_, ?_⟩
    · simp [enabledFor, h, EventPress, EventRelease, EventMotion] at hen
      simp [update, handleMouse, h, EventPress, EventRelease, EventMotion, renderCSI, renderParams, VaxisModel.Gen.Mouse.MouseNoButton]
      by_cases h3 : m.button = 3 <;> simp [h3] at hen ⊢ <;> cases b <;> cases d <;> cases mo <;> simp_all
    · rw [parse_pos, hp.2.2]; simp [sameMouse, h]

example : enabledFor { mouseSGR := true, mouseMotion := true } { button := 3, col := 222, row := 1000, event := EventMotion } = true := by decide

/-- **altscroll_cursor_mode.** Alternate scroll (1007 on the alternate screen, no mouse reporting
    enabled): a wheel event becomes three cursor-up / cursor-down keys in the form the child's cursor
    key mode selects. -/
theorem altscroll_cursor_mode (u : Uni) (md : Modes) (m : Mouse) (h : altScrollApplies md m = true) :
    update u md (.mouse m) =
      let k := renderSeq (cursorSeq (if m.button = 64 then 65 else 66) md.decckm)
      k ++ k ++ k := by
  obtain ⟨pam, ckm, paste, b, d, mo, sgr, alt, smcup⟩ := md
  simp [altScrollApplies, isWheel] at h
  obtain ⟨⟨⟨ha, hs⟩, hb, hmo⟩, hw⟩ := h
  obtain ⟨hb, hd⟩ := hb
  subst ha hs hb hd hmo
  rcases hw with hw | hw <;> cases ckm <;>
    simp [update, handleMouse, hw, cursorSeq, renderSeq, renderCSI, renderParams,
      VaxisModel.Gen.Mouse.MouseWheelUp, VaxisModel.Gen.Mouse.MouseWheelDown]

/-! ## The modes are the ones the child selected -/

open VaxisModel.Model.TermInputModes in
/-- **child_modes_conform.** From every one of the 512 mode states, each thing the child can write —
    DECSET / DECRST of each relevant private mode number (and of numbers that must not matter),
    `ESC =`, `ESC >` and `ESC c` (RIS) — moves the emulator (the case tables of `decset` / `decrst`, the
    `esc` arms and the mode assignments of `ris()`, regenerated from the source) to exactly the state
    the standard meaning gives; in particular RIS returns every input mode to its power-on value. -/
theorem child_modes_conform :
    ((List.range 512).all fun n =>
      let md := modesOfNat n
      (modeNumbers.all fun k =>
        applyChild md (.set [k]) == specApply md (.set [k]) && applyChild md (.reset [k]) == specApply md (.reset [k])) &&
      applyChild md .pam == specApply md .pam && applyChild md .pnm == specApply md .pnm &&
      applyChild md .ris == specApply md .ris) = true := by
  decide +kernel

open VaxisModel.Model.TermInputModes in
/-- Lists of parameters (`CSI ? 1002 ; 1006 h`) and whole scripts are folds of the single steps, in the
    model and in the spec alike; so conformance of the steps extends to every script from the power-on
    state whose mode numbers are in `modeNumbers`. -/
theorem child_scripts_conform (ops : List ChildOp)
    (h : ∀ md op, op ∈ ops → applyChild md op = specApply md op) :
    childModes ops = specModes ops := by
  unfold childModes specModes
  generalize ({} : Modes) = md0
  induction ops generalizing md0 with
  | nil => rfl
  | cons op rest ih =>
    simp only [List.foldl_cons]
    rw [h md0 op (by simp)]
    exact ih (fun md o ho => h md o (by simp [ho])) _

/-! ## Paste -/

/-- **paste_gated.** Nothing is written for a paste boundary unless the child enabled bracketed
    paste (mode 2004); if it did, exactly the marker `CSI 200 ~` / `CSI 201 ~` is written. -/
theorem paste_gated (u : Uni) (md : Modes) :
    (md.paste = false → update u md .pasteStart = [] ∧ update u md .pasteEnd = []) ∧
    (md.paste = true → update u md .pasteStart = renderSeq pasteStartSeq ∧ update u md .pasteEnd = renderSeq pasteEndSeq) := by
  constructor <;> intro h <;> simp [update, h] <;> decide

end VaxisModel.Props.C13
