/-
C13 — structural tie of `encodeXterm`, `handleMouse` and the forwarding arms of `Model.Update`
(widgets/term) to the model.  See `Props/C09Body.lean` for the scheme.
-/
import VaxisModel.Model.TermBody
import VaxisModel.Lemmas.TermBodyPin

namespace VaxisModel.Props.C13Body
open VaxisModel.Model.GoBody VaxisModel.Model.GoInterp VaxisModel.Model.Key VaxisModel.Model.TermBody
open VaxisModel.Model.TermKey VaxisModel.Model.TermMouse VaxisModel.Model.Mouse VaxisModel.Gen.Keys

/-- Every node of the three bodies was translated (nothing degraded to `.unknown`). -/
theorem term_bodies_fully_recognised :
    (VaxisModel.Gen.TermBody.encodeXtermBody.clean && VaxisModel.Gen.TermBody.handleMouseBody.clean &&
     VaxisModel.Gen.TermBody.updateBody.clean) = true ∧ VaxisModel.Gen.TermBody.unknownCount = 0 := by decide

theorem facts_encodeXterm_body : VaxisModel.Gen.TermBody.encodeXtermBody = VaxisModel.Lemmas.TermBodyPin.encodeXtermBody := rfl
theorem facts_handleMouse_body : VaxisModel.Gen.TermBody.handleMouseBody = VaxisModel.Lemmas.TermBodyPin.handleMouseBody := rfl
theorem facts_update_body : VaxisModel.Gen.TermBody.updateBody = VaxisModel.Lemmas.TermBodyPin.updateBody := rfl

end VaxisModel.Props.C13Body
