/-
C13 — structural tie of `encodeXterm`, `handleMouse` and the forwarding arms of `Model.Update`
(widgets/term) to the model.  See `Props/C09Body.lean` for the scheme.
-/
import VaxisModel.Model.TermBody
import VaxisModel.Lemmas.TermBodyEval

namespace VaxisModel.Props.C13Body
open VaxisModel.Model.GoBody VaxisModel.Model.GoInterp VaxisModel.Model.Key VaxisModel.Model.TermBody
open VaxisModel.Model.TermKey VaxisModel.Model.TermMouse VaxisModel.Model.Mouse VaxisModel.Gen.Keys

def exUni : Uni := ⟨fun _ => false, fun _ => false, fun _ => false, fun _ => false, fun _ => false, id, id, fun _ _ => false⟩

/-- Every node of the three bodies was translated (nothing degraded to `.unknown`). -/
theorem term_bodies_fully_recognised :
    (VaxisModel.Gen.TermBody.encodeXtermBody.clean && VaxisModel.Gen.TermBody.handleMouseBody.clean &&
     VaxisModel.Gen.TermBody.updateBody.clean) = true ∧ VaxisModel.Gen.TermBody.unknownCount = 0 := by decide


/-! ## The interpreted extracted bodies are the hand-written model

`encodeXtermGen`, `handleMouseGen`, `updateGen` (Model/TermBody.lean) run the bodies regenerated
from widgets/term on this run; these theorems say that for **every** input they give what the
hand-written model gives — so `key_roundtrip`, `mouse_gated`, `paste_gated`, … are theorems about
the decision structure of the code itself (order of the table look-ups and early returns, every
guard, the `Sprintf` formats, which mode flag selects which table). -/

open VaxisModel.Lemmas.TermBodyEval VaxisModel.Lemmas.GoInterp

/-- **encodeXterm_body_eq_model**: all keys, all `unicode` oracles, both key modes. -/
theorem encodeXterm_body_eq_model (u : Uni) (key : Key) (deckpam decckm : Bool) :
    encodeXtermGen u key deckpam decckm = some (encodeXterm u key deckpam decckm) :=
  encodeXterm_body u key deckpam decckm

/-- **handleMouse_body_eq_model**: all mode states, all buttons / positions / event types; both
    the bytes `handleMouse` writes itself (alternate scroll) and the string it returns. -/
theorem handleMouse_body_eq_model (u : Uni) (md : Modes) (m : Mouse) :
    handleMouseGen u md m = some (handleMouse md m) := handleMouse_body u md m

set_option maxHeartbeats 400000 in
set_option maxRecDepth 8000 in
set_option linter.unusedSimpArgs false in
/-- **update_body_eq_model**: the forwarding arms of `Model.Update` — a key is encoded with
    `(deckpam, decckm)` in that order and written; a paste boundary is written iff mode 2004; a mouse
    event writes what `handleMouse` wrote followed by what it returned. -/
theorem update_body_eq_model (u : Uni) (md : Modes) (ev : Event) :
    updateGen u md ev = some (update u md ev) := by
  unfold updateGen VaxisModel.Gen.TermBody.updateBody
  cases ev <;>
  simp only [Ss.ofList, Es.ofList, Cs.ofList, execSs, execS, eventValue, lhsNames, evalEs, evalE,
    VaxisModel.Model.GoInterp.bind, VaxisModel.Model.KeyBody.keyFields, mouseFields, modeEnv,
    List.lookup, List.map, List.append, String.reduceEq, String.reduceBEq, String.reduceAppend,
    reduceIte, or_false, false_or, or_self, List.cons_append, List.nil_append,
    andThen_norm, andThen_ret, andThen_err, Bool.false_eq_true, callStmt_lock, callStmt_invalidate, noops_unlock, ctx] <;>
  simp only [execTy, tyHit, String.reduceBEq, Bool.or_false, Bool.false_or, Bool.or_true, Bool.false_eq_true, reduceIte] <;>
  simp only [execSs, execS, lhsNames, evalEs, evalE, VaxisModel.Model.GoInterp.bind,
    assignVals, hasErr, bindAll, List.lookup, List.map, List.append, String.reduceEq, String.reduceBEq, String.reduceAppend,
    reduceIte, or_false, false_or, or_self, List.length, Option.map, List.cons_append, List.nil_append, Bool.or_false, List.any,
    andThen_norm, andThen_ret, andThen_err, andThen_ite, afterSwitch_ite, afterSwitch_ret, afterSwitch_norm, branch_bool,
    Bool.false_eq_true, callStmt_write, updateCalls, encodeXterm_body_eq_model, handleMouse_body_eq_model,
    outOnly_ite, outOnly_ret, outOnly_norm, update, List.append_nil,
    const_EventRelease, binop_eq_int, decide_eq_true_eq]
  all_goals (split <;> rfl)

example : updateGen VaxisModel.Props.C13Body.exUni { paste := true } .pasteEnd = some [27, 91, 50, 48, 49, 126] := by decide +kernel

end VaxisModel.Props.C13Body
