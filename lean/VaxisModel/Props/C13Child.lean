/-
C13, modes *selected by the child's own byte stream*: the forwarding encoders composed with the emulator
model (`Model.Emu`, the whole machine: prints, C0, every ESC / CSI arm, OSC, DCS, APC, resize).

The property says "the child's cursor-key and keypad modes select the encoding it asked for" and "nothing is
written for mouse and paste events the child has not enabled".  What the child asked for is what its output
stream last selected; these theorems say that the encoding `Model.Update` uses after the emulator has
consumed ANY stream is the encoding for exactly those modes (`Spec.specModesOfStream`: DECSET / DECRST,
DECKPAM / DECKPNM, RIS = every input mode back to power-on), and nothing else in the stream matters.
-/
import VaxisModel.Lemmas.TermChildSpec
import VaxisModel.Props.C13

namespace VaxisModel.Props.C13Child
open VaxisModel.Model.Emu VaxisModel.Model.TermChild VaxisModel.Gen.TermModes
open VaxisModel.Model.TermInputModes VaxisModel.Lemmas.TermEmuFrame VaxisModel.Lemmas.TermEmuModes VaxisModel.Lemmas.TermChildSpec
open VaxisModel.Model.Key (lookup Uni Str)
open VaxisModel.Model.TermMouse (update Event)
open VaxisModel.Spec.TermInput

/-! ## The table-driven mode model = the standard meaning, for every number and every parameter list -/

/-- **child_step_conform_all.** One mode operation of the child — DECSET / DECRST with ANY parameter list
    over ℤ (any number of parameters, known or unknown numbers, repeated, negative, huge), DECKPAM, DECKPNM,
    RIS — moves the table-driven model of `decset` / `decrst` / `esc` / `ris()` (`Gen.TermInputModes`,
    regenerated from the source) exactly as the standard meaning says, from every mode state.  (Strengthens
    `Props.C13.child_modes_conform`, which samples 14 numbers one at a time, and discharges the hypothesis of
    `child_scripts_conform`.) -/
theorem child_step_conform_all (md : IModes) (op : ChildOp) : applyChild md op = specApply md op := by
  cases op with
  | set ns =>
    exact foldl_congr _ _ (param_conform _ true set_rows_conform nums_in_set) ns md
  | reset ns =>
    exact foldl_congr _ _ (param_conform _ false rst_rows_conform nums_in_rst) ns md
  | pam => exact pam_agree md
  | pnm => exact pnm_agree md
  | ris => exact ris_agree md

/-- Whole scripts, without hypothesis. -/
theorem child_scripts_conform_all (ops : List ChildOp) : childModes ops = specModes ops :=
  foldl_congr _ _ child_step_conform_all ops {}

/-! ## The dispatch tables classify the sequences as the standard does -/

set_option linter.unusedSimpArgs false in
/-- **dispatch_is_standard.** For every parsed sequence (any label, any parameters) and every mode state,
    the step the code takes (the arm the regenerated dispatch tables of `csi()` / `esc()` select, on the
    clamped parameters, through the regenerated mode tables) is the step the standard prescribes for that
    sequence: only `CSI ? … h`, `CSI ? … l`, `ESC =`, `ESC >`, `ESC c` select input modes. -/
theorem dispatch_is_standard (md : IModes) (s : ChildSeq) :
    stepModes md (modelOpOf s) = specStep md (childOpOf s) := by
  have hd := dispatch_rows
  simp only [Bool.and_eq_true, beq_iff_eq] at hd
  obtain ⟨⟨⟨⟨⟨⟨hc, he⟩, h1⟩, h2⟩, h3⟩, h4⟩, h5⟩ := hd
  cases s with
  | other => rfl
  | csi l ps =>
    by_cases hl1 : l = [63, 104]
    · subst hl1
      simp only [modelOpOf, h1, Option.bind_some, csiArmOp, stepModes, childOpOf, specStep]
      rw [child_step_conform_all]
      exact foldl_specParam_clamp true ps md
    · by_cases hl2 : l = [63, 108]
      · subst hl2
        simp only [modelOpOf, h2, Option.bind_some, csiArmOp, stepModes, childOpOf, specStep]
        rw [child_step_conform_all]
        exact foldl_specParam_clamp false ps md
      · have hspec : childOpOf (.csi l ps) = none := by
          unfold childOpOf
          split <;> simp_all
        rw [hspec]
        simp only [modelOpOf, specStep]
        cases harm : lookupArm csiTable l with
        | none => rfl
        | some arm =>
          obtain ⟨r, hr, hrl, hra⟩ := lookupArm_some harm
          have := List.all_eq_true.mp hc r hr
          simp only [Bool.and_eq_true, beq_iff_eq, hrl, hra] at this
          have a1 : arm ≠ .decset := fun e => hl1 (by simpa [e] using this.1)
          have a2 : arm ≠ .decrst := fun e => hl2 (by simpa [e] using this.2)
          simp only [Option.bind_some]
          cases arm <;> first | rfl | exact absurd rfl a1 | exact absurd rfl a2
  | esc l =>
    by_cases hl1 : l = [61]
    · subst hl1
      simp only [modelOpOf, h3, Option.bind_some, escArmOp, stepModes, childOpOf, specStep]
      exact child_step_conform_all md .pam
    · by_cases hl2 : l = [62]
      · subst hl2
        simp only [modelOpOf, h4, Option.bind_some, escArmOp, stepModes, childOpOf, specStep]
        exact child_step_conform_all md .pnm
      · by_cases hl3 : l = [99]
        · subst hl3
          simp only [modelOpOf, h5, Option.bind_some, escArmOp, stepModes, childOpOf, specStep]
          exact child_step_conform_all md .ris
        · have hspec : childOpOf (.esc l) = none := by
            unfold childOpOf
            split <;> simp_all
          rw [hspec]
          simp only [modelOpOf, specStep]
          cases harm : lookupArm escTable l with
          | none => rfl
          | some arm =>
            obtain ⟨r, hr, hrl, hra⟩ := lookupArm_some harm
            have := List.all_eq_true.mp he r hr
            simp only [Bool.and_eq_true, beq_iff_eq, hrl, hra] at this
            have a1 : arm ≠ .arm_3d := fun e => hl1 (by simpa [e] using this.1.1)
            have a2 : arm ≠ .arm_3e := fun e => hl2 (by simpa [e] using this.1.2)
            have a3 : arm ≠ .ris := fun e => hl3 (by simpa [e] using this.2)
            simp only [Option.bind_some]
            cases arm <;> first | rfl | exact absurd rfl a1 | exact absurd rfl a2 | exact absurd rfl a3

/-! ## The emulator, one operation and whole streams -/

/-- **emu_step_selects_modes.** ONE operation of the emulator model — any print, C0, ESC, CSI (every arm
    of the dispatch, any parameters), OSC, DCS, APC, resize — from ANY state: if it does not panic, the nine
    input modes afterwards are the standard step for that sequence applied to the modes before. -/
theorem emu_step_selects_modes {e e' : Emu} {op : EOp} {k : Nat} (h : emuStep e op = .ok (e', k)) :
    inputModes e'.mode = specStep (inputModes e.mode) (childOpOf (seqOf op)) := by
  rw [emuStep_modes h, dispatch_is_standard]

theorem modesAfter_is_spec : ∀ (seqs : List ChildSeq) (md : IModes), modesAfter md seqs = specModesFrom md seqs
  | [], _ => rfl
  | s :: rest, md => by
    have h1 : modesAfter md (s :: rest) = modesAfter (stepModes md (modelOpOf s)) rest := by
      unfold modesAfter
      simp only [List.filterMap_cons]
      cases modelOpOf s <;> rfl
    have h2 : specModesFrom md (s :: rest) = specModesFrom (specStep md (childOpOf s)) rest := by
      unfold specModesFrom
      simp only [List.filterMap_cons]
      cases childOpOf s <;> rfl
    rw [h1, h2, dispatch_is_standard, modesAfter_is_spec rest]

/-- **child_stream_selects_modes.** Any stream of the child's output, from any emulator state: the input
    modes afterwards are the ones the stream selected (by the standard), starting from the modes before. -/
theorem child_stream_selects_modes {e0 e : Emu} {ops : List EOp} (h : runOps e0 ops = .ok e) :
    inputModes e.mode = specModesFrom (inputModes e0.mode) (ops.map seqOf) := by
  rw [runOps_modes ops h, modesAfter_is_spec]

/-- A new terminal (`New()` + the first resize) has every input mode off. -/
theorem new_terminal_modes {fx : Fixes} {w h : Int} {e0 : Emu} (hn : Emu.new fx w h = .ok e0) :
    inputModes e0.mode = {} := by
  unfold Emu.new at hn
  rw [resize_mode hn]
  rfl

/-- **forwarded_encoding_is_selected.** The bytes `Model.Update` writes for a key, paste boundary or mouse
    event after the terminal (created with any size) consumed the child's stream `ops` are the encoder's
    output *for the modes that stream selected* — for every stream, event, `unicode` oracle. -/
theorem forwarded_encoding_is_selected (u : Uni) {w h : Int} {e0 : Emu} (hn : Emu.new Fixes.current w h = .ok e0)
    (ops : List EOp) (ev : Event) {out : Str} (hf : forwardAfter u e0 ops ev = .ok out) :
    out = update u (specModesOfStream (ops.map seqOf)) ev := by
  unfold forwardAfter at hf
  split at hf
  · rename_i e hr
    have := ok_inj hf; subst this
    rw [child_stream_selects_modes hr, new_terminal_modes hn]
    rfl
  · cases hf

/-- Forwarding never fails on its own: `forwardAfter` is an error only if the emulator was (a panic / hang
    of the emulator on the child's stream is C05's subject). -/
theorem forward_total (u : Uni) (e0 e : Emu) (ops : List EOp) (ev : Event) (hr : runOps e0 ops = .ok e) :
    ∃ out, forwardAfter u e0 ops ev = .ok out := by
  unfold forwardAfter
  rw [hr]
  exact ⟨_, rfl⟩

/-! ## RIS = all defaults -/

/-- **ris_restores_input_defaults.** Whatever the child selected before (`before`: any stream, from any
    emulator state — application cursor keys, keypad, bracketed paste, any mouse mode, SGR, alternate
    screen), after `ESC c` the input modes are those of a fresh terminal that only saw what the child wrote
    *after* the reset. -/
theorem ris_restores_input_defaults {e0 e : Emu} (before after : List EOp)
    (h : runOps e0 (before ++ EOp.esc [99] :: after) = .ok e) :
    inputModes e.mode = specModesOfStream (after.map seqOf) := by
  rw [runOps_append] at h
  obtain ⟨e1, _, h⟩ := bind_ok h
  unfold runOps at h
  obtain ⟨⟨e2, k⟩, h2, h⟩ := bind_ok h
  simp only at h
  have m2 := emu_step_selects_modes h2
  simp only [seqOf, childOpOf, specStep, specApply] at m2
  rw [child_stream_selects_modes h, m2]
  rfl

/-- In particular: after RIS (and anything that selects no mode) nothing is written for paste boundaries
    and mouse events, and cursor keys go out in their normal (CSI) form — for every earlier history. -/
theorem after_ris_nothing_enabled (u : Uni) {e0 e : Emu} (before after : List EOp)
    (hafter : ∀ op ∈ after, childOpOf (seqOf op) = none)
    (h : runOps e0 (before ++ EOp.esc [99] :: after) = .ok e) :
    inputModes e.mode = {} ∧
    update u (inputModes e.mode) .pasteStart = [] ∧ update u (inputModes e.mode) .pasteEnd = [] ∧
    ∀ m, update u (inputModes e.mode) (.mouse m) = [] := by
  have hm : inputModes e.mode = {} := by
    rw [ris_restores_input_defaults before after h]
    unfold specModesOfStream specModesFrom
    have : (after.map seqOf).filterMap childOpOf = [] := by
      rw [List.filterMap_eq_nil_iff]
      intro s hs
      obtain ⟨op, hop, rfl⟩ := List.mem_map.mp hs
      exact hafter op hop
    rw [this]; rfl
  rw [hm]
  refine ⟨rfl, rfl, rfl, ?_⟩
  intro m
  simp [update, VaxisModel.Model.TermMouse.handleMouse]

/-! ## End to end: the property's clauses with the modes read off the child's stream -/

/-- **cursor_keys_follow_child_stream.** "The child's cursor-key mode selects the encoding it asked for":
    after ANY stream of the child's output (from any emulator state), an unmodified cursor key (press or
    repeat) is written in SS3 form iff the stream last left DECCKM set — `CSI ? 1 h` not followed by
    `CSI ? 1 l` or RIS — and in CSI form otherwise. -/
theorem cursor_keys_follow_child_stream (u : Uni) {e0 e : Emu} {ops : List EOp} (h : runOps e0 ops = .ok e)
    (k : VaxisModel.Model.Key.Key) (fin : Int) (hk : (k.keycode, fin) ∈ cursorKeys)
    (hm : k.mods &&& VaxisModel.Gen.Keys.ModShift = 0 ∧ k.mods &&& VaxisModel.Gen.Keys.ModAlt = 0 ∧ k.mods &&& VaxisModel.Gen.Keys.ModCtrl = 0)
    (hev : k.event ≠ VaxisModel.Gen.Keys.EventRelease) :
    update u (inputModes e.mode) (.key k) =
      renderSeq (cursorSeq fin (specModesFrom (inputModes e0.mode) (ops.map seqOf)).decckm) := by
  rw [child_stream_selects_modes h]
  simp only [update, hev, if_false]
  exact VaxisModel.Props.C13.cursor_mode_selects u k _ _ fin hk hm

/-- **paste_follows_child_stream.** A paste boundary is written — as exactly `CSI 200 ~` / `CSI 201 ~` — iff
    the child's stream last left mode 2004 set; otherwise nothing is written. -/
theorem paste_follows_child_stream (u : Uni) {e0 e : Emu} {ops : List EOp} (h : runOps e0 ops = .ok e) :
    let md := specModesFrom (inputModes e0.mode) (ops.map seqOf)
    (md.paste = false → update u (inputModes e.mode) .pasteStart = [] ∧ update u (inputModes e.mode) .pasteEnd = []) ∧
    (md.paste = true → update u (inputModes e.mode) .pasteStart = renderSeq pasteStartSeq ∧
                       update u (inputModes e.mode) .pasteEnd = renderSeq pasteEndSeq) := by
  rw [child_stream_selects_modes h]
  exact VaxisModel.Props.C13.paste_gated u _

/-- **mouse_gated_by_child_stream.** A press / release / motion event the child's stream has not enabled
    (1000 / 1002 / 1003 as last selected; RIS disables all), and to which alternate scroll does not apply,
    writes nothing. -/
theorem mouse_gated_by_child_stream (u : Uni) {e0 e : Emu} {ops : List EOp} (h : runOps e0 ops = .ok e)
    (m : VaxisModel.Model.Mouse.Mouse)
    (hev : m.event = VaxisModel.Gen.Keys.EventPress ∨ m.event = VaxisModel.Gen.Keys.EventRelease ∨ m.event = VaxisModel.Gen.Keys.EventMotion)
    (hen : enabledFor (specModesFrom (inputModes e0.mode) (ops.map seqOf)) m = false)
    (halt : altScrollApplies (specModesFrom (inputModes e0.mode) (ops.map seqOf)) m = false) :
    update u (inputModes e.mode) (.mouse m) = [] := by
  rw [child_stream_selects_modes h]
  exact VaxisModel.Props.C13.mouse_gated u _ m hev hen halt

/-! ## Non-vacuity: a concrete session on a small terminal -/

/-- vim-like start (`CSI ?1049h CSI ?1h ESC = CSI ?2004h CSI ?1002;1006h`), some text, then `ESC c`. -/
def demoStream : List EOp :=
  [.csi [63, 104] [(1049, [])], .csi [63, 104] [(1, [])], .esc [61], .csi [63, 104] [(2004, [])],
   .csi [63, 104] [(1002, []), (1006, [])], .print [104] 1, .print [105] 1, .csi [74] [(2, [])], .c0 10]

example : (match Emu.new Fixes.current 4 2 with
    | .ok e0 => (match runOps e0 demoStream with
      | .ok e => inputModes e.mode == { deckpam := true, decckm := true, paste := true, mouseDrag := true,
                                        mouseSGR := true, altScroll := true, smcup := true }
      | .error _ => false)
    | .error _ => false) = true := by decide +kernel

example : (match Emu.new Fixes.current 4 2 with
    | .ok e0 => (match runOps e0 (demoStream ++ [.esc [99], .print [36] 1]) with
      | .ok e => inputModes e.mode == {}
      | .error _ => false)
    | .error _ => false) = true := by decide +kernel

end VaxisModel.Props.C13Child
